/-
Props/C13.lean — property C13: `bind_all` enumerates exactly the ways of extending a binding.
Only property theorems (and the definitions needed to state them) live here.
-/
import PmVerif.Model.TableDom
namespace Pm
variable {K V M H : Type}

/-- The derivations of C13: `Ext ops opts h inc m ks r` — `r` is obtained from `m` by giving
every listed key that is unbound *at its turn*, in order, one of the values the host offers for
it given the bindings made so far (`bind`), leaving bound keys alone (`skip`), and — only with
`inc = true` — skipping a key for which the host offers nothing (`none_`). -/
inductive Ext (ops : MapOps K V M) (opts : H → K → M → List V) (h : H) (inc : Bool) :
    M → List K → M → Prop where
  | nil {m} : Ext ops opts h inc m [] m
  | skip {m k ks r} : (ops.get m k).isSome → Ext ops opts h inc m ks r →
      Ext ops opts h inc m (k :: ks) r
  | bind {m k ks r v m'} : (ops.get m k).isSome = false → v ∈ opts h k m →
      ops.bind m k v = .ok m' → Ext ops opts h inc m' ks r → Ext ops opts h inc m (k :: ks) r
  | none_ {m k ks r} : (ops.get m k).isSome = false → inc = true → opts h k m = [] →
      Ext ops opts h inc m ks r → Ext ops opts h inc m (k :: ks) r

/-- The loop of `bind_all` is the fold of the per-key extension (list equality, order
included). -/
theorem c13_eq (ops : MapOps K V M) (opts : H → K → M → List V) (h : H) (m : M) (ks : List K)
    (inc : Bool) :
    bindAll ops opts h m ks inc
      = ks.foldl (fun cs k => cs.flatMap (extend ops opts h inc k)) [m] := by
  unfold bindAll
  generalize [m] = cands
  induction ks generalizing cands with
  | nil => rfl
  | cons k ks ih => simp [bindAllLoop, ih]

/-- Candidates are processed independently and in order. -/
theorem c13_flat (ops : MapOps K V M) (opts : H → K → M → List V) (h : H) (ks : List K)
    (inc : Bool) (cands : List M) :
    bindAllLoop ops opts h inc ks cands
      = cands.flatMap (fun m => bindAll ops opts h m ks inc) := by
  induction ks generalizing cands with
  | nil =>
    show cands = cands.flatMap (fun m => [m])
    induction cands with
    | nil => rfl
    | cons c cs ihc => rw [List.flatMap_cons, ← ihc]; rfl
  | cons k ks ih =>
    show bindAllLoop ops opts h inc ks (cands.flatMap (extend ops opts h inc k)) =
      cands.flatMap (fun m => bindAllLoop ops opts h inc ks ([m].flatMap (extend ops opts h inc k)))
    rw [ih, List.flatMap_assoc]
    congr 1; funext m
    rw [ih]; simp

/-- Unfolding one key. -/
theorem c13_cons (ops : MapOps K V M) (opts : H → K → M → List V) (h : H) (m : M) (k : K)
    (ks : List K) (inc : Bool) :
    bindAll ops opts h m (k :: ks) inc
      = (extend ops opts h inc k m).flatMap (fun m' => bindAll ops opts h m' ks inc) := by
  show bindAllLoop ops opts h inc ks ([m].flatMap (extend ops opts h inc k)) = _
  rw [c13_flat]; simp

/-- An already bound key is left alone. -/
theorem c13_bound_left_alone (ops : MapOps K V M) (opts : H → K → M → List V) (h : H) (m : M)
    (k : K) (ks : List K) (inc : Bool) (hb : (ops.get m k).isSome) :
    bindAll ops opts h m (k :: ks) inc = bindAll ops opts h m ks inc := by
  rw [c13_cons]; simp [extend, hb]

/-- With `allow_incomplete = true` a key for which the host offers nothing is skipped and the
candidate kept. -/
theorem c13_incomplete_skip (ops : MapOps K V M) (opts : H → K → M → List V) (h : H) (m : M)
    (k : K) (ks : List K) (hu : (ops.get m k).isSome = false) (ho : opts h k m = []) :
    bindAll ops opts h m (k :: ks) true = bindAll ops opts h m ks true := by
  rw [c13_cons]; simp [extend, hu, ho]

/-- With `allow_incomplete = false` such a candidate is discarded. -/
theorem c13_complete_discard (ops : MapOps K V M) (opts : H → K → M → List V) (h : H) (m : M)
    (k : K) (ks : List K) (hu : (ops.get m k).isSome = false) (ho : opts h k m = []) :
    bindAll ops opts h m (k :: ks) false = [] := by
  rw [c13_cons]; simp [extend, hu, ho]

/-- One result per combination of offered values, without deduplication. -/
theorem c13_one_per_combination (ops : MapOps K V M) (opts : H → K → M → List V) (h : H)
    (m : M) (k : K) (ks : List K) (inc : Bool) :
    (bindAll ops opts h m (k :: ks) inc).length
      = ((extend ops opts h inc k m).map (fun m' => (bindAll ops opts h m' ks inc).length)).sum := by
  rw [c13_cons, List.length_flatMap]

/-- A value whose `bind` is rejected contributes nothing; accepted values contribute, in the
order offered. -/
theorem c13_extend_unbound (ops : MapOps K V M) (opts : H → K → M → List V) (h : H) (m : M)
    (k : K) (inc : Bool) (hu : (ops.get m k).isSome = false) (hne : opts h k m ≠ []) :
    extend ops opts h inc k m
      = (opts h k m).filterMap
          (fun v => match ops.bind m k v with | .ok m' => some m' | .error _ => none) := by
  have : (opts h k m).isEmpty = false := by
    cases hx : opts h k m with
    | nil => exact absurd hx hne
    | cons _ _ => rfl
  simp only [extend, hu, this, Bool.false_eq_true, ↓reduceIte, Bool.false_and]
  rfl

private theorem mem_extend (ops : MapOps K V M) (opts : H → K → M → List V) (h : H) (inc : Bool)
    (k : K) (m r : M) :
    r ∈ extend ops opts h inc k m ↔
      ((ops.get m k).isSome ∧ r = m) ∨
      ((ops.get m k).isSome = false ∧ inc = true ∧ opts h k m = [] ∧ r = m) ∨
      ((ops.get m k).isSome = false ∧ ∃ v ∈ opts h k m, ops.bind m k v = .ok r) := by
  unfold extend
  by_cases hb : (ops.get m k).isSome
  · simp [hb]
  · have hb' : (ops.get m k).isSome = false := by simpa using hb
    simp only [hb', Bool.false_eq_true, ↓reduceIte, false_and, true_and, false_or]
    by_cases he : ((opts h k m).isEmpty && inc) = true
    · have ⟨h1, h2⟩ : (opts h k m).isEmpty = true ∧ inc = true := by simpa using he
      have h1' : opts h k m = [] := List.isEmpty_iff.mp h1
      simp [h1', h2]
    · simp only [he, Bool.false_eq_true, ↓reduceIte, List.mem_filterMap]
      have hne : ¬ (inc = true ∧ opts h k m = []) := by
        intro ⟨h2, h1⟩; simp [h1, h2] at he
      constructor
      · rintro ⟨v, hv, hm⟩
        right
        refine ⟨v, hv, ?_⟩
        cases hbv : ops.bind m k v with
        | ok m' => simp [hbv] at hm; simp [hm]
        | error e => simp [hbv] at hm
      · rintro (⟨h2, h1, _⟩ | ⟨v, hv, hbv⟩)
        · exact absurd ⟨h2, h1⟩ hne
        · exact ⟨v, hv, by simp [hbv]⟩

/-- **C13, main statement.** `bind_all` returns exactly the maps described by `Ext`: every
listed unbound key gets, in order, one of the values the host offers given the bindings made so
far; bound keys are left alone; with `allow_incomplete` a key with no offer is skipped. -/
theorem c13_exact (ops : MapOps K V M) (opts : H → K → M → List V) (h : H) (inc : Bool)
    (ks : List K) (m r : M) :
    r ∈ bindAll ops opts h m ks inc ↔ Ext ops opts h inc m ks r := by
  induction ks generalizing m with
  | nil =>
    simp only [bindAll, bindAllLoop, List.mem_singleton]
    constructor
    · rintro rfl; exact .nil
    · intro e; cases e; rfl
  | cons k ks ih =>
    rw [c13_cons, List.mem_flatMap]
    constructor
    · rintro ⟨m', hm', hr⟩
      have e := (ih m').mp hr
      rcases (mem_extend ops opts h inc k m m').mp hm' with
        ⟨hb, rfl⟩ | ⟨hu, hi, ho, rfl⟩ | ⟨hu, v, hv, hbv⟩
      · exact .skip hb e
      · exact .none_ hu hi ho e
      · exact .bind hu hv hbv e
    · intro e
      cases e with
      | skip hb e => exact ⟨m, (mem_extend ..).mpr (.inl ⟨hb, rfl⟩), (ih m).mpr e⟩
      | none_ hu hi ho e =>
        exact ⟨m, (mem_extend ..).mpr (.inr (.inl ⟨hu, hi, ho, rfl⟩)), (ih m).mpr e⟩
      | bind hu hv hbv e =>
        exact ⟨_, (mem_extend ..).mpr (.inr (.inr ⟨hu, _, hv, hbv⟩)), (ih _).mpr e⟩

/-- Existing bindings are never altered (for any map whose successful `bind` keeps what was
bound — proved for the four shipped maps in `Props/C14.lean`). -/
theorem c13_extends (ops : MapOps K V M) (opts : H → K → M → List V) (h : H) (inc : Bool)
    (keeps : ∀ m k v m', ops.bind m k v = .ok m' →
      ∀ k' v', ops.get m k' = some v' → ops.get m' k' = some v')
    (ks : List K) (m r : M) (hr : r ∈ bindAll ops opts h m ks inc) :
    ∀ k' v', ops.get m k' = some v' → ops.get r k' = some v' := by
  have e := (c13_exact ops opts h inc ks m r).mp hr
  clear hr
  induction e with
  | nil => intro k' v' h; exact h
  | skip _ _ ih => exact ih
  | none_ _ _ _ _ ih => exact ih
  | bind _ _ hbv _ ih => intro k' v' hg; exact ih k' v' (keeps _ _ _ _ hbv k' v' hg)

/-- In complete mode every listed key is bound in every result (for any map in which a value
offered by the host and accepted by `bind` makes the key bound, and binds are kept). -/
theorem c13_binds_all (ops : MapOps K V M) (opts : H → K → M → List V) (h : H)
    (keeps : ∀ m k v m', ops.bind m k v = .ok m' →
      ∀ k' v', ops.get m k' = some v' → ops.get m' k' = some v')
    (binds : ∀ m k v m', v ∈ opts h k m → ops.bind m k v = .ok m' → (ops.get m' k).isSome)
    (ks : List K) (m r : M) (hr : r ∈ bindAll ops opts h m ks false) :
    ∀ k ∈ ks, (ops.get r k).isSome := by
  have e := (c13_exact ops opts h false ks m r).mp hr
  have mono : ∀ {m ks r}, Ext ops opts h false m ks r →
      ∀ k', (ops.get m k').isSome → (ops.get r k').isSome := by
    intro m ks r e
    induction e with
    | nil => intro k' h; exact h
    | skip _ _ ih => exact ih
    | none_ _ hi _ _ _ => cases hi
    | bind _ _ hbv _ ih =>
      intro k' hg
      obtain ⟨v', hv'⟩ := Option.isSome_iff_exists.mp hg
      exact ih k' (by rw [keeps _ _ _ _ hbv k' v' hv']; rfl)
  clear hr
  induction e with
  | nil => intro k hk; cases hk
  | skip hb e ih =>
    intro k' hk'
    rcases List.mem_cons.mp hk' with rfl | hk'
    · exact mono e _ hb
    · exact ih k' hk'
  | none_ _ hi _ _ _ => cases hi
  | bind hu hv hbv e ih =>
    intro k' hk'
    rcases List.mem_cons.mp hk' with rfl | hk'
    · exact mono e _ (binds _ _ _ _ hv hbv)
    · exact ih k' hk'

/-- Non-vacuity: a table host whose offers for key 1 depend on the value chosen for key 0;
three results, in order. -/
example :
    bindAll tMap (THost.opts [[], [0]])
      ⟨true, [[⟨none, [0, 1]⟩], [⟨some (0, 0), [5]⟩, ⟨some (0, 1), [6, 7]⟩]]⟩ [] [0, 1] false
      = [[(0, 0), (1, 5)], [(0, 1), (1, 6)], [(0, 1), (1, 7)]] := by decide

end Pm
