/-
Props/TBuild.lean — theorem T-BUILD: for every list of patterns, every event log (i.e. every
hash-iteration order and every answer of the determinisation heuristic) and every truth
assignment `σ` under which the tree decompositions are faithful, the automaton returned by a
successful `build` accepts from its root exactly the ids of the patterns all of whose
constraints hold — in the non-deterministic reading (`build_accND`) and in the reading the
traversal implements (`build_acc`); the two coincide because the built automaton satisfies the
determinisation invariant `DetOK` (`build_detOK`) and is acyclic (`build_acyclic`).

The model guards "make_det: a constraint child is already deterministic" and "c4: the root is in
a merge set" are necessary for this statement: `build_acc_unguarded_counterexample` exhibits, for
the model without the first guard, a log (a child is determinised before its parent) for which
`AccDet` misses a pattern, and `build_guard_rejects_counterexample` shows that the guarded model
rejects that log. `build_imp_buildL`: whenever the guarded build succeeds, the lenient build
`buildL` (the Rust code as it runs) returns the same automaton, so the theorems apply to it.

Only the final theorems live here; proofs are in `Proofs/Build*.lean`.
-/
import PmVerif.Proofs.BuildMain
import PmVerif.Proofs.BuildFuse
import PmVerif.Proofs.BuildDet
import PmVerif.Proofs.BuildMerge
import PmVerif.Proofs.BuildTreeLoop
import PmVerif.Proofs.BuildTreeSem
import PmVerif.Proofs.BuildLenient
namespace Pm
variable {K P : Type} [DecidableEq K] [DecidableEq P]

/-- The per-step lemmas, assembled. -/
theorem Automaton.stepLemmas {σ : Constraint K P → Bool}
    {toTree : List (Constraint K P) → Option (CTree (Constraint K P))}
    (hT : Automaton.TreeOK toTree σ) : Automaton.StepLemmas σ toTree where
  fuse inv hs h := (Automaton.makeConstraintsUnique_spec inv hs h).1
  tree inv hs h :=
    (Automaton.insertConstraintTree_spec_of Automaton.addConstraintTree_built hT inv hs h).1
  det g h := by
    obtain ⟨i, r, rs, l, d⟩ := Automaton.makeDet_spec g.inv g.rs g.det h
    exact ⟨⟨i, rs, d⟩, r, l⟩
  merge evs _ _ _ g h := by
    obtain ⟨m, _⟩ := Automaton.mergesLogged_spec (σ := σ) evs g.inv h
    have rs' := m.rootSrc g.rs
    refine ⟨⟨m.inv, rs', m.det g.det⟩, m.root, fun pid => ?_⟩
    rw [m.root]
    exact m.lang _ g.rs.1 (m.root ▸ rs'.1) pid

/-- Non-deterministic reading: the root accepts exactly the ids of the patterns whose constraints
all hold. -/
theorem build_accND
    (toTree : List (Constraint K P) → Option (CTree (Constraint K P))) (req : K → List K)
    (fuel : Nat) (patterns : List (Nat × List (Constraint K P) × List K)) (evs : List Ev)
    (A : Automaton K P) (σ : Constraint K P → Bool) (hT : Automaton.TreeOK toTree σ)
    (h : Automaton.build toTree req fuel patterns evs = .ok A) (pid : Nat) :
    Automaton.AccND σ A A.root pid ↔
      ∃ cs extra, (pid, cs, extra) ∈ patterns ∧ ∀ c ∈ cs, σ c = true :=
  (Automaton.build_sem (Automaton.stepLemmas hT) h).2.2.2 pid

/-- The built automaton satisfies the structural invariant of the semantics. -/
theorem build_ordersOK
    (toTree : List (Constraint K P) → Option (CTree (Constraint K P))) (req : K → List K)
    (fuel : Nat) (patterns : List (Nat × List (Constraint K P) × List K)) (evs : List Ev)
    (A : Automaton K P) (σ : Constraint K P → Bool) (hT : Automaton.TreeOK toTree σ)
    (h : Automaton.build toTree req fuel patterns evs = .ok A) : Automaton.OrdersOK A :=
  (Automaton.build_sem (Automaton.stepLemmas hT) h).1.ok

/-- The built automaton satisfies the determinisation invariant: at a deterministic state where
some constraint transition fires, the fallback transition contributes nothing new. -/
theorem build_detOK
    (toTree : List (Constraint K P) → Option (CTree (Constraint K P))) (req : K → List K)
    (fuel : Nat) (patterns : List (Nat × List (Constraint K P) × List K)) (evs : List Ev)
    (A : Automaton K P) (σ : Constraint K P → Bool) (hT : Automaton.TreeOK toTree σ)
    (h : Automaton.build toTree req fuel patterns evs = .ok A) : Automaton.DetOK σ A :=
  (Automaton.build_sem (Automaton.stepLemmas hT) h).2.1

/-- The built automaton is acyclic (certified by the successful `populate_scopes`). -/
theorem build_acyclic
    (toTree : List (Constraint K P) → Option (CTree (Constraint K P))) (req : K → List K)
    (fuel : Nat) (patterns : List (Nat × List (Constraint K P) × List K)) (evs : List Ev)
    (A : Automaton K P) (σ : Constraint K P → Bool) (hT : Automaton.TreeOK toTree σ)
    (h : Automaton.build toTree req fuel patterns evs = .ok A) :
    ∃ rank : Nat → Nat, ∀ t e, A.g.edge? t = some e → rank e.dst < rank e.src :=
  (Automaton.build_sem (Automaton.stepLemmas hT) h).2.2.1

/-- T-BUILD: acceptance from the root of the built automaton, in the reading implemented by the
traversal, is exactly "some pattern with that id has all its constraints true". -/
theorem build_acc
    (toTree : List (Constraint K P) → Option (CTree (Constraint K P))) (req : K → List K)
    (fuel : Nat) (patterns : List (Nat × List (Constraint K P) × List K)) (evs : List Ev)
    (A : Automaton K P) (σ : Constraint K P → Bool) (hT : Automaton.TreeOK toTree σ)
    (h : Automaton.build toTree req fuel patterns evs = .ok A) (pid : Nat) :
    Automaton.AccDet σ A A.root pid ↔
      ∃ cs extra, (pid, cs, extra) ∈ patterns ∧ ∀ c ∈ cs, σ c = true := by
  obtain ⟨inv, dok, ⟨rank, hr⟩, hl⟩ := Automaton.build_sem (Automaton.stepLemmas hT) h
  rw [Automaton.accDet_iff_accND inv.ok dok rank hr]
  exact hl pid

/-- Whenever the guarded build succeeds, the lenient build (no `make_det` guard: the Rust code as
it runs) returns the same automaton; hence `build_acc` etc. hold of every lenient run whose log
the guarded model accepts. -/
theorem build_imp_buildL
    (toTree : List (Constraint K P) → Option (CTree (Constraint K P))) (req : K → List K)
    (fuel : Nat) (patterns : List (Nat × List (Constraint K P) × List K)) (evs : List Ev)
    (A : Automaton K P) (h : Automaton.build toTree req fuel patterns evs = .ok A) :
    Automaton.buildL toTree req fuel patterns evs = .ok A :=
  Automaton.buildL_of_build h

/-- Without the `make_det` guard the statement is false (finding; see `Proofs/BuildCex`): a run
of the lenient build in which a child is determinised before its parent. -/
theorem build_acc_unguarded_counterexample :
    ∃ (toTree : List (Constraint Nat Nat) → Option (CTree (Constraint Nat Nat)))
      (patterns : List (Nat × List (Constraint Nat Nat) × List Nat)) (evs : List Ev)
      (A : Automaton Nat Nat) (σ : Constraint Nat Nat → Bool),
      Automaton.TreeOK toTree σ ∧
      Automaton.buildL toTree (fun _ => []) 10 patterns evs = .ok A ∧
      (∃ cs extra, (2, cs, extra) ∈ patterns ∧ ∀ c ∈ cs, σ c = true) ∧
      ¬ Automaton.AccDet σ A A.root 2 ∧ Automaton.AccND σ A A.root 2 :=
  BuildCex.buildL_acc_counterexample

/-- The guarded model rejects that log. -/
theorem build_guard_rejects_counterexample :
    Automaton.build BuildCex.cexTree (fun _ => []) 10 BuildCex.cexPats BuildCex.cexEvs =
      .error (.guard "make_det: a constraint child is already deterministic") :=
  BuildCex.guarded_build_rejects

end Pm
