/-
Props/C05.lean — property C05: the baseline matcher `SinglePatternMatcher::find_matches`
(`singleMatches`) and the `NaiveManyMatcher` built from it (`naiveMatches`) report exactly the
occurrences of their patterns, `match_exists` (`!out.isEmpty`) is true exactly when there is
one, every reported binding binds every key of the pattern's constraints (to a position of the
host), and `NaiveManyMatcher` numbers the patterns by their position in the input.

Strings: with fuel `≥ strBaselineFuel p h = (strConstraints p).length * strByteLen h + 4` the
baseline succeeds and returns, as a list, one `StrPos.bound a p.length` per anchor `a` of
`strOccurrences p h` in increasing order (the empty pattern: the unbound map, once); whenever it
succeeds — with any fuel — that is its result.

Only property theorems and non-vacuity examples live here; proofs are in `Proofs/BaselineDom`.
-/
import PmVerif.Proofs.BaselineDom
namespace Pm

/-! ### Strings -/

/-- **Fuel of `all_missing_bindings` on string keys.** With fuel `≥ 4` every call the baseline
makes (`known = {}`) returns: the start key `0` first, then the other keys in order of first
occurrence. In particular for a single key, and for the requested bindings of a pattern. -/
theorem c05_str_fuel (fuel : Nat) (hf : 4 ≤ fuel) :
    (∀ ks : List Nat, allMissingBindings strReq ks [] fuel
      = some (match ks with
        | [] => []
        | _ :: _ => 0 :: dedup (ks.filter fun k => decide (k ≠ 0)))) ∧
    (∀ k : Nat, allMissingBindings strReq [k] [] fuel = some (if k = 0 then [0] else [0, k])) ∧
    ∀ p : List CharVar, requestedBindings strDomain (strConstraints p) fuel
      = some (if p = [] then []
        else 0 :: dedup (((strConstraints p).flatMap (·.args)).filter fun k => decide (k ≠ 0))) := by
  obtain ⟨f, rfl⟩ : ∃ f, fuel = f + 4 := ⟨fuel - 4, by omega⟩
  have key : ∀ ks : List Nat, allMissingBindings strReq ks [] (f + 4)
      = some (Baseline.starKeys 0 ks) := str_allMissing f
  refine ⟨?_, ?_, ?_⟩
  · intro ks
    rw [key]
    cases ks <;> rfl
  · intro k
    rw [key]
    by_cases hk : k = 0 <;> simp [Baseline.starKeys, dedup, hk]
  · intro p
    show allMissingBindings strReq _ [] (f + 4) = _
    rw [key]
    by_cases hp : p = []
    · subst hp; rfl
    · obtain ⟨c, hc, hk⟩ := tdom_str_last p hp
      have hmem : p.length - 1 ∈ (strConstraints p).flatMap (·.args) :=
        List.mem_flatMap.2 ⟨c, hc, hk⟩
      simp only [hp, if_false]
      cases hargs : (strConstraints p).flatMap (·.args) with
      | nil => rw [hargs] at hmem; cases hmem
      | cons k ks => rfl

/-- **C05, strings, total form.** With enough fuel the baseline succeeds and reports exactly one
binding per occurrence, in increasing anchor order, with the canonical extent; the empty pattern
is reported once, as the unbound map. -/
theorem c05_string (p : List CharVar) (h : List Nat) (fuel : Nat)
    (hf : strBaselineFuel p h ≤ fuel) :
    singleMatches strDomain (strConstraints p) h fuel
      = .ok (if p = [] then [StrPos.unbound]
        else (strOccurrences p h).map fun a => StrPos.bound a p.length) := by
  by_cases hp : p = []
  · subst hp
    simp only [if_true]
    exact str_single_nil h fuel (by unfold strBaselineFuel at hf; omega)
  · simp only [hp, if_false]
    exact str_single_ok p h fuel hp hf

/-- The fuel bound, spelled out. -/
theorem c05_str_fuel_bound (p : List CharVar) (h : List Nat) :
    strBaselineFuel p h = (strConstraints p).length * strByteLen h + 4 := rfl

/-- **C05, strings, any fuel.** Whenever the baseline succeeds, its result is the list of
`c05_string`. -/
theorem c05_string_any_fuel (p : List CharVar) (h : List Nat) (fuel : Nat) (out : List StrPos)
    (hs : singleMatches strDomain (strConstraints p) h fuel = .ok out) :
    out = if p = [] then [StrPos.unbound]
      else (strOccurrences p h).map fun a => StrPos.bound a p.length := by
  have h1 := singleMatches_fuel_mono hs (Nat.le_max_left fuel (strBaselineFuel p h))
  rw [c05_string p h _ (Nat.le_max_right fuel (strBaselineFuel p h))] at h1
  exact (Except.ok.inj h1).symm

/-- Membership form: the reported bindings are exactly the canonical bindings of the
occurrences. -/
theorem c05_string_mem (p : List CharVar) (h : List Nat) (fuel : Nat) (out : List StrPos)
    (hs : singleMatches strDomain (strConstraints p) h fuel = .ok out) (m : StrPos) :
    m ∈ out ↔ (p = [] ∧ m = .unbound) ∨
      (p ≠ [] ∧ ∃ a, occursStr p h a = true ∧ m = .bound a p.length) := by
  rw [c05_string_any_fuel p h fuel out hs]
  by_cases hp : p = []
  · simp [hp]
  · simp only [hp, if_false, false_and, false_or, ne_eq, not_false_eq_true, true_and,
      List.mem_map, strOccurrences, List.mem_filter, List.mem_range]
    constructor
    · rintro ⟨a, ⟨_, ho⟩, rfl⟩; exact ⟨a, ho, rfl⟩
    · rintro ⟨a, ho, rfl⟩; exact ⟨a, ⟨occursStr_lt p hp h a ho, ho⟩, rfl⟩

/-- No binding is reported twice. -/
theorem c05_string_nodup (p : List CharVar) (h : List Nat) (fuel : Nat) (out : List StrPos)
    (hs : singleMatches strDomain (strConstraints p) h fuel = .ok out) : out.Nodup := by
  rw [c05_string_any_fuel p h fuel out hs]
  by_cases hp : p = []
  · simp [hp]
  · simp only [hp, if_false]
    have : (strOccurrences p h).Nodup := List.Pairwise.filter _ List.nodup_range
    exact List.Pairwise.map _ (fun a b hab e => hab (by cases e; rfl)) this

/-- **`match_exists`** (`!find_matches(..).is_empty()`). -/
theorem c05_str_match_exists (p : List CharVar) (h : List Nat) (fuel : Nat) (out : List StrPos)
    (hs : singleMatches strDomain (strConstraints p) h fuel = .ok out) :
    out ≠ [] ↔ p = [] ∨ ∃ a, occursStr p h a = true := by
  constructor
  · intro hne
    obtain ⟨m, hm⟩ := List.exists_mem_of_ne_nil out hne
    rcases (c05_string_mem p h fuel out hs m).1 hm with ⟨hp, _⟩ | ⟨_, a, ho, _⟩
    · exact .inl hp
    · exact .inr ⟨a, ho⟩
  · intro hex
    by_cases hp : p = []
    · exact List.ne_nil_of_mem ((c05_string_mem p h fuel out hs .unbound).2 (.inl ⟨hp, rfl⟩))
    · rcases hex with hp' | ⟨a, ho⟩
      · exact absurd hp' hp
      · exact List.ne_nil_of_mem
          ((c05_string_mem p h fuel out hs _).2 (.inr ⟨hp, a, ho, rfl⟩))

/-- **Reported bindings bind every key of the pattern's constraints**, to positions that exist
in the host; and every requested key is bound. -/
theorem c05_str_keys (p : List CharVar) (h : List Nat) (fuel : Nat) (out : List StrPos)
    (hs : singleMatches strDomain (strConstraints p) h fuel = .ok out) :
    (∀ m ∈ out, ∀ c ∈ strConstraints p, ∀ k ∈ c.args,
      (StrPos.get m k).isSome ∧ ∀ x, StrPos.get m k = some x → x < h.length) ∧
    ∀ requested, requestedBindings strDomain (strConstraints p) fuel = some requested →
      ∀ m ∈ out, ∀ k ∈ requested, (StrPos.get m k).isSome := by
  constructor
  · intro m hm c hc k hk
    rcases (c05_string_mem p h fuel out hs m).1 hm with ⟨hp, _⟩ | ⟨hp, a, ho, rfl⟩
    · subst hp; rw [strConstraints_nil] at hc; cases hc
    · have hlt := tdom_str_keys p c hc k hk
      have hshort := tdom_str_sat_short p h a ho hp
      simp only [StrPos.get, hlt, if_true, Option.isSome_some, Option.some.injEq, true_and]
      intro x hx
      omega
  · intro requested hq m hm k hk
    exact ((tsingle_mem hs hq m).1 hm).2 k hk

/-! ### Matrices -/

/-- **Fuel of `all_missing_bindings` on matrix keys.** With fuel `≥ 4` every call the baseline
makes returns: the start key `(0,0)` first, then the other keys in order of first occurrence. -/
theorem c05_mat_fuel (fuel : Nat) (hf : 4 ≤ fuel) :
    (∀ ks : List MKey, allMissingBindings matReq ks [] fuel
      = some (match ks with
        | [] => []
        | _ :: _ => (0, 0) :: dedup (ks.filter fun k => decide (k ≠ (0, 0))))) ∧
    (∀ k : MKey, allMissingBindings matReq [k] [] fuel
      = some (if k = (0, 0) then [(0, 0)] else [(0, 0), k])) ∧
    ∀ p : MatPattern, requestedBindings matDomain (matConstraints p) fuel
      = some ((0, 0) ::
          dedup (((matConstraints p).flatMap (·.args)).filter fun k => decide (k ≠ (0, 0)))) := by
  obtain ⟨f, rfl⟩ : ∃ f, fuel = f + 4 := ⟨fuel - 4, by omega⟩
  have key : ∀ ks : List MKey, allMissingBindings matReq ks [] (f + 4)
      = some (Baseline.starKeys ((0 : Int), (0 : Int)) ks) := mat_allMissing f
  refine ⟨?_, ?_, ?_⟩
  · intro ks
    rw [key]
    cases ks <;> rfl
  · intro k
    rw [key]
    by_cases hk : k = (0, 0) <;> simp [Baseline.starKeys, dedup, hk]
  · intro p
    show allMissingBindings matReq _ [] (f + 4) = _
    rw [key]
    obtain ⟨rest, hr, _⟩ := mat_requested_props p
    cases hargs : (matConstraints p).flatMap (·.args) with
    | nil => rw [hargs] at hr; cases hr
    | cons k ks => rfl

/-- **C05, matrices, total form.** With enough fuel the baseline succeeds and reports exactly one
binding per occurrence, in row-major anchor order, with the pattern's bounding box as extent. -/
theorem c05_matrix (p : MatPattern) (h : MatHost) (fuel : Nat)
    (hf : matBaselineFuel p h ≤ fuel) :
    singleMatches matDomain (matConstraints p) h fuel
      = .ok ((matOccurrences p h).map fun rc =>
          MatPos.bound rc.1 rc.2 0 0 ((matExtent p).1 : Int) ((matExtent p).2 : Int)) :=
  mat_single_ok p h fuel hf

/-- The fuel bound, spelled out. -/
theorem c05_mat_fuel_bound (p : MatPattern) (h : MatHost) :
    matBaselineFuel p h = (matConstraints p).length * (matAllCells h).length + 4 := rfl

/-- **C05, matrices, any fuel.** Whenever the baseline succeeds, its result is the list of
`c05_matrix`. -/
theorem c05_matrix_any_fuel (p : MatPattern) (h : MatHost) (fuel : Nat) (out : List MatPos)
    (hs : singleMatches matDomain (matConstraints p) h fuel = .ok out) :
    out = (matOccurrences p h).map fun rc =>
      MatPos.bound rc.1 rc.2 0 0 ((matExtent p).1 : Int) ((matExtent p).2 : Int) := by
  have h1 := singleMatches_fuel_mono hs (Nat.le_max_left fuel (matBaselineFuel p h))
  rw [c05_matrix p h _ (Nat.le_max_right fuel (matBaselineFuel p h))] at h1
  exact (Except.ok.inj h1).symm

/-- Membership form. -/
theorem c05_matrix_mem (p : MatPattern) (h : MatHost) (fuel : Nat) (out : List MatPos)
    (hs : singleMatches matDomain (matConstraints p) h fuel = .ok out) (m : MatPos) :
    m ∈ out ↔ ∃ r c, occursMat p h r c = true ∧
      m = .bound r c 0 0 ((matExtent p).1 : Int) ((matExtent p).2 : Int) := by
  rw [c05_matrix_any_fuel p h fuel out hs, List.mem_map]
  constructor
  · rintro ⟨rc, hrc, rfl⟩
    exact ⟨rc.1, rc.2, (mem_matOccurrences p h rc).1 hrc, rfl⟩
  · rintro ⟨r, c, ho, rfl⟩
    exact ⟨(r, c), (mem_matOccurrences p h (r, c)).2 ho, rfl⟩

/-- No binding is reported twice. -/
theorem c05_matrix_nodup (p : MatPattern) (h : MatHost) (fuel : Nat) (out : List MatPos)
    (hs : singleMatches matDomain (matConstraints p) h fuel = .ok out) : out.Nodup := by
  rw [c05_matrix_any_fuel p h fuel out hs]
  have : (matOccurrences p h).Nodup := List.Pairwise.filter _ (matAllCells_nodup h)
  exact List.Pairwise.map _ (fun a b hab e => hab (by
    have := MatPos.bound.inj e
    exact Prod.ext this.1 this.2.1)) this

/-- **`match_exists`**. -/
theorem c05_mat_match_exists (p : MatPattern) (h : MatHost) (fuel : Nat) (out : List MatPos)
    (hs : singleMatches matDomain (matConstraints p) h fuel = .ok out) :
    out ≠ [] ↔ ∃ r c, occursMat p h r c = true := by
  constructor
  · intro hne
    obtain ⟨m, hm⟩ := List.exists_mem_of_ne_nil out hne
    obtain ⟨r, c, ho, _⟩ := (c05_matrix_mem p h fuel out hs m).1 hm
    exact ⟨r, c, ho⟩
  · rintro ⟨r, c, ho⟩
    exact List.ne_nil_of_mem ((c05_matrix_mem p h fuel out hs _).2 ⟨r, c, ho, rfl⟩)

/-- **Reported bindings bind every key of the pattern's constraints**, to cells that exist in
the host (`get` does not panic on them: `getP` returns a value); and every requested key is
bound. -/
theorem c05_mat_keys (p : MatPattern) (h : MatHost) (fuel : Nat) (out : List MatPos)
    (hs : singleMatches matDomain (matConstraints p) h fuel = .ok out) :
    (∀ m ∈ out, ∀ c ∈ matConstraints p, ∀ k ∈ c.args,
      (MatPos.get m k).isSome ∧ (m.getP k).isSome ∧
        ∀ x, MatPos.get m k = some x → (matCell h x.1 x.2).isSome) ∧
    ∀ requested, requestedBindings matDomain (matConstraints p) fuel = some requested →
      ∀ m ∈ out, ∀ k ∈ requested, (MatPos.get m k).isSome := by
  constructor
  · intro m hm c hc k hk
    obtain ⟨r, c', ho, rfl⟩ := (c05_matrix_mem p h fuel out hs m).1 hm
    have hnn := mat_keys_nonneg p c hc k hk
    have hin := mat_keys_inbox p c hc k hk
    have hg := mat_get_in r c' _ _ k hnn hin
    obtain ⟨hanchor, hcells⟩ := occursMat_cell p h r c' ho
    refine ⟨by rw [hg]; rfl, ?_, ?_⟩
    · rw [(mat_get_eq_some _ _ _).1 hg]; rfl
    · intro x hx
      rw [hg] at hx
      cases hx
      rcases tdom_mat_keys p c hc k hk with rfl | ⟨i, j, cv, hmc, rfl⟩
      · simpa using hanchor
      · simpa using hcells i j cv hmc
  · intro requested hq m hm k hk
    exact ((tsingle_mem hs hq m).1 hm).2 k hk

/-! ### The naive many-pattern matcher -/

section Naive
variable {K V P H M : Type} [DecidableEq K]

/-- **Ids of `NaiveManyMatcher`** are positions in the input, duplicates included: the matches
labelled `j` are exactly the matches of the `j`-th constraint list. -/
theorem c05_naive_ids (D : Domain K V P H M) (h : H) (fuel : Nat)
    (css : List (List (Constraint K P))) (ms : List (Match M))
    (hn : naiveMatches D h fuel css 0 = .ok ms) (j : Nat) (m : M) :
    (j, m) ∈ ms ↔ ∃ cs out, css[j]? = some cs ∧ singleMatches D cs h fuel = .ok out ∧ m ∈ out := by
  obtain ⟨h1, h2⟩ := tnaive_ids hn
  constructor
  · intro hm
    obtain ⟨cs, hcs, _, out, hs, hmo⟩ := h1 j m hm
    exact ⟨cs, out, by simpa using hcs, hs, hmo⟩
  · rintro ⟨cs, out, hcs, hs, hmo⟩
    obtain ⟨out', hs', hall⟩ := h2 j cs hcs
    rw [hs] at hs'
    cases hs'
    simpa using hall m hmo

/-- The naive matcher succeeds as soon as the baseline succeeds on every pattern, and then
reports, pattern by pattern in input order, the baseline's matches labelled with the pattern's
position (`conv` is the pattern-to-constraints conversion, `g p` the baseline's result). -/
theorem c05_naive_total {Pat : Type} (D : Domain K V P H M) (h : H) (fuel : Nat)
    (conv : Pat → List (Constraint K P)) (g : Pat → List M) :
    ∀ (ps : List Pat) (i : Nat),
      (∀ p ∈ ps, singleMatches D (conv p) h fuel = .ok (g p)) →
      naiveMatches D h fuel (ps.map conv) i
        = .ok ((ps.zipIdx i).flatMap fun x => (g x.1).map fun m => (x.2, m))
  | [], _, _ => rfl
  | p :: ps, i, hall => by
    simp only [List.map_cons, naiveMatches, hall p List.mem_cons_self,
      c05_naive_total D h fuel conv g ps (i + 1) (fun p' hp' => hall p' (List.mem_cons_of_mem _ hp')),
      List.zipIdx_cons, List.flatMap_cons]

end Naive

/-- `NaiveManyMatcher` on string patterns: the matches labelled `j` are exactly the canonical
bindings of the occurrences of the `j`-th pattern. -/
theorem c05_naive_string (ps : List (List CharVar)) (h : List Nat) (fuel : Nat)
    (ms : List (Match StrPos))
    (hn : naiveMatches strDomain h fuel (ps.map strConstraints) 0 = .ok ms) (j : Nat)
    (m : StrPos) :
    (j, m) ∈ ms ↔ ∃ p, ps[j]? = some p ∧
      ((p = [] ∧ m = .unbound) ∨ (p ≠ [] ∧ ∃ a, occursStr p h a = true ∧ m = .bound a p.length)) := by
  rw [c05_naive_ids strDomain h fuel _ ms hn j m]
  constructor
  · rintro ⟨cs, out, hcs, hs, hm⟩
    rw [List.getElem?_map] at hcs
    cases hp : ps[j]? with
    | none => rw [hp] at hcs; cases hcs
    | some p =>
      rw [hp] at hcs
      cases hcs
      exact ⟨p, rfl, (c05_string_mem p h fuel out hs m).1 hm⟩
  · rintro ⟨p, hp, hm⟩
    obtain ⟨out, hs⟩ := (tnaive_ids hn).2 j (strConstraints p) (by rw [List.getElem?_map, hp]; rfl)
    exact ⟨_, out, by rw [List.getElem?_map, hp]; rfl, hs.1,
      (c05_string_mem p h fuel out hs.1 m).2 hm⟩

/-- `NaiveManyMatcher` on string patterns, total form: with enough fuel for every pattern it
succeeds and lists, pattern by pattern, the occurrences labelled with the pattern's position. -/
theorem c05_naive_string_total (ps : List (List CharVar)) (h : List Nat) (fuel : Nat)
    (hf : ∀ p ∈ ps, strBaselineFuel p h ≤ fuel) :
    naiveMatches strDomain h fuel (ps.map strConstraints) 0
      = .ok (ps.zipIdx.flatMap fun x =>
          (if x.1 = [] then [StrPos.unbound]
            else (strOccurrences x.1 h).map fun a => StrPos.bound a x.1.length).map
            fun m => (x.2, m)) :=
  c05_naive_total strDomain h fuel strConstraints _ ps 0
    (fun p hp => c05_string p h fuel (hf p hp))

/-- `NaiveManyMatcher` on matrix patterns, total form. -/
theorem c05_naive_matrix_total (ps : List MatPattern) (h : MatHost) (fuel : Nat)
    (hf : ∀ p ∈ ps, matBaselineFuel p h ≤ fuel) :
    naiveMatches matDomain h fuel (ps.map matConstraints) 0
      = .ok (ps.zipIdx.flatMap fun x =>
          ((matOccurrences x.1 h).map fun rc =>
            MatPos.bound rc.1 rc.2 0 0 ((matExtent x.1).1 : Int) ((matExtent x.1).2 : Int)).map
            fun m => (x.2, m)) :=
  c05_naive_total matDomain h fuel matConstraints _ ps 0
    (fun p hp => c05_matrix p h fuel (hf p hp))

/-- `NaiveManyMatcher` on matrix patterns. -/
theorem c05_naive_matrix (ps : List MatPattern) (h : MatHost) (fuel : Nat)
    (ms : List (Match MatPos))
    (hn : naiveMatches matDomain h fuel (ps.map matConstraints) 0 = .ok ms) (j : Nat)
    (m : MatPos) :
    (j, m) ∈ ms ↔ ∃ p, ps[j]? = some p ∧ ∃ r c, occursMat p h r c = true ∧
      m = .bound r c 0 0 ((matExtent p).1 : Int) ((matExtent p).2 : Int) := by
  rw [c05_naive_ids matDomain h fuel _ ms hn j m]
  constructor
  · rintro ⟨cs, out, hcs, hs, hm⟩
    rw [List.getElem?_map] at hcs
    cases hp : ps[j]? with
    | none => rw [hp] at hcs; cases hcs
    | some p =>
      rw [hp] at hcs
      cases hcs
      exact ⟨p, rfl, (c05_matrix_mem p h fuel out hs m).1 hm⟩
  · rintro ⟨p, hp, hm⟩
    obtain ⟨out, hs⟩ := (tnaive_ids hn).2 j (matConstraints p) (by rw [List.getElem?_map, hp]; rfl)
    exact ⟨_, out, by rw [List.getElem?_map, hp]; rfl, hs.1,
      (c05_matrix_mem p h fuel out hs.1 m).2 hm⟩

/-! ### Non-vacuity -/

/-- `a$x$x` on `abbabb`: occurrences at 0 and 3, reported in that order with extent 3. -/
example : singleMatches strDomain (strConstraints [.lit 97, .var 120, .var 120])
    [97, 98, 98, 97, 98, 98] 50 = .ok [.bound 0 3, .bound 3 3] := by rfl
example : (strOccurrences [.lit 97, .var 120, .var 120] [97, 98, 98, 97, 98, 98]).map
    (fun a => StrPos.bound a 3) = [.bound 0 3, .bound 3 3] := by decide
example : strBaselineFuel [.lit 97, .var 120, .var 120] [97, 98, 98, 97, 98, 98] = 16 := by
  decide
/-- The same through the theorem. -/
example : singleMatches strDomain (strConstraints [.lit 97, .var 120, .var 120])
    [97, 98, 98, 97, 98, 98] 50 = .ok [.bound 0 3, .bound 3 3] :=
  (c05_string _ _ 50 (by decide)).trans (by rfl)
/-- The empty pattern, and a pattern without occurrence (`match_exists = false`). -/
example : singleMatches strDomain (strConstraints []) [97, 98] 50 = .ok [.unbound] := by rfl
example : singleMatches strDomain (strConstraints [.lit 99]) [97, 98] 50 = .ok [] := by rfl
/-- A multi-byte host: `é` (2 bytes) offers byte offsets `0, 1, 2`; offset 2 is no character. -/
example : singleMatches strDomain (strConstraints [.var 120]) [233, 97] 50
    = .ok [.bound 0 1, .bound 1 1] := by rfl
/-- Fuel 3 is too little for `missing_bindings` on a non-start key. -/
example : allMissingBindings strReq [1] [] 3 = none := by decide
example : allMissingBindings strReq [1] [] 4 = some [0, 1] := by decide
/-- The naive matcher numbers by input position, duplicates included. -/
example : naiveMatches strDomain [97, 98, 98] 50
    [strConstraints [.lit 98], strConstraints [.lit 99], strConstraints [.lit 98]] 0
    = .ok [(0, .bound 1 1), (0, .bound 2 1), (2, .bound 1 1), (2, .bound 2 1)] := by rfl

/-- The 2×2 pattern `[[a, $x], [_, $x]]` (one hole) on a 2×3 host: one occurrence at `(0, 1)`,
reported with the bounding box `(1, 1)`. -/
example : singleMatches matDomain
    (matConstraints [[some (.lit 97), some (.var 120)], [none, some (.var 120)]])
    [[99, 97, 98], [99, 99, 98]] 50 = .ok [.bound 0 1 0 0 1 1] := by rfl
example : (matOccurrences [[some (.lit 97), some (.var 120)], [none, some (.var 120)]]
    [[99, 97, 98], [99, 99, 98]]).map
      (fun rc => MatPos.bound rc.1 rc.2 0 0
        ((matExtent [[some (.lit 97), some (.var 120)], [none, some (.var 120)]]).1 : Int)
        ((matExtent [[some (.lit 97), some (.var 120)], [none, some (.var 120)]]).2 : Int))
    = [.bound 0 1 0 0 1 1] := by decide
/-- The empty matrix pattern occurs at every cell (ragged host). -/
example : singleMatches matDomain (matConstraints []) [[1, 2], [3]] 50
    = .ok [.bound 0 0 0 0 0 0, .bound 0 1 0 0 0 0, .bound 1 0 0 0 0 0] := by rfl
/-- No occurrence on a ragged host whose second row is too short. -/
example : singleMatches matDomain
    (matConstraints [[some (.lit 97), some (.var 120)], [none, some (.var 120)]])
    [[99, 97, 98], [99, 99]] 50 = .ok [] := by rfl

end Pm
