/-
Props/TRunMat.lean — theorem T-RUN-ANCH-MAT and its corollaries for matrix pattern sets.

Setting: ANY matrix automaton `A` and pattern list `ps` passing the decidable per-program check
`matProgramOK A ps` (Spec/MatRun.lean) and ANY (ragged) host `h`. Anchors are existing host cells
`(r, c)`; `matSigma h r c` is the truth assignment "key `(i, j)` denotes host cell
`(r + i, c + j)`"; `AnchM.boxMax ks` is the component-wise maximum of a key list.

* `trun_mat_sound` — every reported `(i, m)` is either the unbound map with the root accepting
  `i` with the empty key list, or `m = .bound r c 0 0 (boxMax ks)` for an existing anchor cell
  `(r, c)` and a non-empty key list `ks` such that the automaton accepts `i` from its root under
  `matSigma h r c` at a state recording `ks` (`AccDetK`).
* `trun_mat_complete` — conversely such an `(i, m)` is reported provided every key of `ks`
  denotes an existing host cell. In particular the visited-set pruning loses nothing and the
  hash order of scopes and key lists plays no role.
* `trun_mat` — the two combine into an `↔` under the hypothesis `AnchM.KeysWitnessed A h`
  ("an accepting path witnesses its recorded keys": `AccDetK (matSigma h r c) A A.root i ks`
  implies that every key of `ks` denotes an existing cell).

FINDING (`trun_mat_needs_witness`). Without `KeysWitnessed` the `↔` is false for programs that
merely pass `matProgramOK`: a matrix position map answers `get` for EVERY key inside its bounding
box, whether or not the (ragged) host has that cell, so a recorded key that no constraint on the
path mentions can be "bound" without existing; at emission it is then not among the missing keys
and nothing checks it. `KeysWitnessed` holds for every BUILT automaton, on every host
(`trun_mat_built_witnessed`: T-BUILD for every truth assignment, the recorded keys are the start
key and the constraint arguments, and a constraint that is true under `matSigma` only mentions
existing cells), so the corollaries need no extra hypothesis:

* `c03_matrix_prop` — T-BUILD for matrix pattern sets;
* `trun_mat_built` — the `↔` for built, checked automata;
* `c01_c02_matrix_checked` — `(i, m)` is reported iff the `i`-th pattern `p` occurs at some cell
  `(r, c)` of the host (`occursMat`) and `m = .bound r c 0 0 (matExtent p)`;
* `c04_matrix_checked` — two builds of the same patterns report the same set of matches;
* `c06_matrix_checked` — the matches labelled `i` depend only on the `i`-th pattern.

A decidable per-program sufficient condition for `KeysWitnessed` on every host is
`AnchM.keysWitnessedOK A` (Proofs/AnchMWitness.lean; a must-witness check: no accepting state can
be reached from the root avoiding all constraints that mention one of its recorded non-start
keys): `trun_mat_witness_check` and `trun_mat_checked` (the `↔` for every program passing both
checks). The counterexample fails it, the built examples pass it.

Only the final statements and non-vacuity examples live here; proofs are in
`Proofs/AnchMBind.lean` (bindings in closed form, evaluation = `matSigma`),
`Proofs/AnchMReach.lean` (reachable configurations), `Proofs/AnchMRun.lean` (pruning is lossless;
the theorems) and `Proofs/AnchMKeys.lean` (`matPatternKeys`, T-BUILD for matrices, built automata).
-/
import PmVerif.Proofs.AnchMWitness
namespace Pm
open Automaton

/-- **T-RUN-ANCH-MAT, soundness.** Every match reported by the traversal of an OK matrix program
is anchored acceptance (no further hypothesis). -/
theorem trun_mat_sound (A : Automaton MKey CharPred) (ps : List MatPattern) (h : MatHost)
    (fuel : Nat) (ms : List (Match MatPos)) (seen : List (Nat × List (Option MVal)))
    (hok : matProgramOK A ps = true) (hr : run matDomain A h fuel = .ok (ms, seen))
    (i : Nat) (m : MatPos) (hm : (i, m) ∈ ms) :
    (m = .unbound ∧ ∃ w, A.g.weight? A.root = some w ∧ (i, []) ∈ w.matches_) ∨
    (∃ r c ks, (matCell h r c).isSome ∧ ks ≠ [] ∧ AccDetK (matSigma h r c) A A.root i ks ∧
      m = .bound r c 0 0 (AnchM.boxMax ks).1 (AnchM.boxMax ks).2) :=
  AnchM.trun_mat_sound A ps h fuel ms seen hok hr i m hm

/-- **T-RUN-ANCH-MAT, completeness.** Anchored acceptance all of whose recorded keys denote
existing host cells is reported (no further hypothesis). -/
theorem trun_mat_complete (A : Automaton MKey CharPred) (ps : List MatPattern) (h : MatHost)
    (fuel : Nat) (ms : List (Match MatPos)) (seen : List (Nat × List (Option MVal)))
    (hok : matProgramOK A ps = true) (hr : run matDomain A h fuel = .ok (ms, seen))
    (i : Nat) (m : MatPos)
    (hrhs : (m = .unbound ∧ ∃ w, A.g.weight? A.root = some w ∧ (i, []) ∈ w.matches_) ∨
      (∃ r c ks, (matCell h r c).isSome ∧ ks ≠ [] ∧ AccDetK (matSigma h r c) A A.root i ks ∧
        (∀ k ∈ ks, (matCell h (r + k.1.toNat) (c + k.2.toNat)).isSome) ∧
        m = .bound r c 0 0 (AnchM.boxMax ks).1 (AnchM.boxMax ks).2)) :
    (i, m) ∈ ms :=
  AnchM.trun_mat_complete A ps h fuel ms seen hok hr i m hrhs

/-- **T-RUN-ANCH-MAT.** The traversal of an OK matrix program whose accepting paths witness their
recorded keys on `h` reports exactly anchored acceptance. -/
theorem trun_mat (A : Automaton MKey CharPred) (ps : List MatPattern) (h : MatHost) (fuel : Nat)
    (ms : List (Match MatPos)) (seen : List (Nat × List (Option MVal)))
    (hok : matProgramOK A ps = true) (hwit : AnchM.KeysWitnessed A h)
    (hr : run matDomain A h fuel = .ok (ms, seen)) (i : Nat) (m : MatPos) :
    (i, m) ∈ ms ↔
      (m = .unbound ∧ ∃ w, A.g.weight? A.root = some w ∧ (i, []) ∈ w.matches_) ∨
      (∃ r c ks, (matCell h r c).isSome ∧ ks ≠ [] ∧ AccDetK (matSigma h r c) A A.root i ks ∧
        (∀ k ∈ ks, (matCell h (r + k.1.toNat) (c + k.2.toNat)).isSome) ∧
        m = .bound r c 0 0 (AnchM.boxMax ks).1 (AnchM.boxMax ks).2) :=
  AnchM.trun_mat_main A ps h fuel ms seen hok hwit hr i m

/-- Soundness of the decidable must-witness check `AnchM.keysWitnessedOK`: a program passing it
witnesses its recorded keys on every host. -/
theorem trun_mat_witness_check (A : Automaton MKey CharPred) (h : MatHost)
    (hw : AnchM.keysWitnessedOK A = true) : AnchM.KeysWitnessed A h :=
  AnchM.keysWitnessed_of_ok hw h

/-- **T-RUN-ANCH-MAT for programs passing both decidable checks** (`matProgramOK` and
`AnchM.keysWitnessedOK`), for ALL hosts. -/
theorem trun_mat_checked (A : Automaton MKey CharPred) (ps : List MatPattern) (h : MatHost)
    (fuel : Nat) (ms : List (Match MatPos)) (seen : List (Nat × List (Option MVal)))
    (hok : matProgramOK A ps = true) (hw : AnchM.keysWitnessedOK A = true)
    (hr : run matDomain A h fuel = .ok (ms, seen)) (i : Nat) (m : MatPos) :
    (i, m) ∈ ms ↔
      (m = .unbound ∧ ∃ w, A.g.weight? A.root = some w ∧ (i, []) ∈ w.matches_) ∨
      (∃ r c ks, (matCell h r c).isSome ∧ ks ≠ [] ∧ AccDetK (matSigma h r c) A A.root i ks ∧
        (∀ k ∈ ks, (matCell h (r + k.1.toNat) (c + k.2.toNat)).isSome) ∧
        m = .bound r c 0 0 (AnchM.boxMax ks).1 (AnchM.boxMax ks).2) :=
  trun_mat A ps h fuel ms seen hok (AnchM.keysWitnessed_of_ok hw h) hr i m

/-- Any two successful runs report the same matches (and visit log), whatever the fuel. -/
theorem trun_mat_set (A : Automaton MKey CharPred) (h : MatHost) (fuel fuel' : Nat)
    (r r' : List (Match MatPos) × List (Nat × List (Option MVal)))
    (hr : run matDomain A h fuel = .ok r) (hr' : run matDomain A h fuel' = .ok r') : r = r' := by
  rcases Nat.le_total fuel fuel' with hle | hle
  · have := trun_fuel_mono hr hle
    rw [hr'] at this
    cases this
    rfl
  · have := trun_fuel_mono hr' hle
    rw [hr] at this
    cases this
    rfl

/-- **C03 for matrix pattern sets, propositional (T-BUILD).** Whatever the event log, the matrix
automaton accepts pattern `i` under `σ` iff all constraints of the `i`-th pattern are true under
`σ`. -/
theorem c03_matrix_prop (ps : List MatPattern) (evs : List Ev) (fuel : Nat)
    (m : Many MKey CharPred) (σ : MatCons → Bool)
    (h : manyBuild (fun p => some (matConstraints p)) (fun _ => ([] : List MKey))
      (charTree mkeyLt) matReq fuel true ps evs = some (.ok m)) (i : Nat) :
    AccDet σ m.automaton m.automaton.root i ↔
      ∃ p, ps[i]? = some p ∧ ∀ q ∈ matConstraints p, σ q = true :=
  AnchM.c03_matrix_prop_main ps evs fuel m σ h i

/-- Built, checked automata witness their recorded keys on every host. -/
theorem trun_mat_built_witnessed (ps : List MatPattern) (evs : List Ev) (fuel : Nat)
    (M : Many MKey CharPred) (h : MatHost)
    (hb : manyBuild (fun p => some (matConstraints p)) (fun _ => ([] : List MKey))
      (charTree mkeyLt) matReq fuel true ps evs = some (.ok M))
    (hok : matProgramOK M.automaton ps = true) : AnchM.KeysWitnessed M.automaton h :=
  AnchM.keysWitnessed_built hb hok h

/-- **T-RUN-ANCH-MAT for built, checked automata**: the `↔` without further hypothesis. -/
theorem trun_mat_built (ps : List MatPattern) (evs : List Ev) (fuel fuel' : Nat)
    (M : Many MKey CharPred) (h : MatHost) (ms : List (Match MatPos))
    (seen : List (Nat × List (Option MVal)))
    (hb : manyBuild (fun p => some (matConstraints p)) (fun _ => ([] : List MKey))
      (charTree mkeyLt) matReq fuel true ps evs = some (.ok M))
    (hok : matProgramOK M.automaton ps = true)
    (hr : run matDomain M.automaton h fuel' = .ok (ms, seen)) (i : Nat) (m : MatPos) :
    (i, m) ∈ ms ↔
      (m = .unbound ∧ ∃ w, M.automaton.g.weight? M.automaton.root = some w ∧
        (i, []) ∈ w.matches_) ∨
      (∃ r c ks, (matCell h r c).isSome ∧ ks ≠ [] ∧
        AccDetK (matSigma h r c) M.automaton M.automaton.root i ks ∧
        (∀ k ∈ ks, (matCell h (r + k.1.toNat) (c + k.2.toNat)).isSome) ∧
        m = .bound r c 0 0 (AnchM.boxMax ks).1 (AnchM.boxMax ks).2) :=
  trun_mat M.automaton ps h fuel' ms seen hok (AnchM.keysWitnessed_built hb hok h) hr i m

/-- **C01/C02 for checked matrix programs.** Whatever the event log of the build, if the built
automaton passes `matProgramOK` then `find_matches` reports exactly the occurrences of the
patterns: pattern `p` once per host cell `(r, c)` at which it occurs, with the position map
`.bound r c 0 0 (matExtent p)`. -/
theorem c01_c02_matrix_checked (ps : List MatPattern) (evs : List Ev) (fuel fuel' : Nat)
    (M : Many MKey CharPred) (h : MatHost) (ms : List (Match MatPos))
    (hb : manyBuild (fun p => some (matConstraints p)) (fun _ => ([] : List MKey))
      (charTree mkeyLt) matReq fuel true ps evs = some (.ok M))
    (hok : matProgramOK M.automaton ps = true)
    (hf : M.findMatches matDomain h fuel' = .ok ms) (i : Nat) (m : MatPos) :
    (i, m) ∈ ms ↔ ∃ p, ps[i]? = some p ∧ ∃ r c, occursMat p h r c = true ∧
      m = .bound r c 0 0 ((matExtent p).1 : Int) ((matExtent p).2 : Int) :=
  AnchM.c01_c02_matrix_main fuel' h ms hb hok hf i m

/-- **C04 for checked matrix programs.** Two builds of the same patterns under ANY two event
logs (heuristic answers, hash orders), both passing `matProgramOK`, report the same set of
matches on every host. -/
theorem c04_matrix_checked (ps : List MatPattern) (evs evs' : List Ev)
    (fuel₁ fuel₂ fuel₁' fuel₂' : Nat) (M M' : Many MKey CharPred) (h : MatHost)
    (ms ms' : List (Match MatPos))
    (hb : manyBuild (fun p => some (matConstraints p)) (fun _ => ([] : List MKey))
      (charTree mkeyLt) matReq fuel₁ true ps evs = some (.ok M))
    (hb' : manyBuild (fun p => some (matConstraints p)) (fun _ => ([] : List MKey))
      (charTree mkeyLt) matReq fuel₁' true ps evs' = some (.ok M'))
    (hok : matProgramOK M.automaton ps = true) (hok' : matProgramOK M'.automaton ps = true)
    (hf : M.findMatches matDomain h fuel₂ = .ok ms)
    (hf' : M'.findMatches matDomain h fuel₂' = .ok ms') (i : Nat) (m : MatPos) :
    (i, m) ∈ ms ↔ (i, m) ∈ ms' := by
  rw [c01_c02_matrix_checked ps evs fuel₁ fuel₂ M h ms hb hok hf,
    c01_c02_matrix_checked ps evs' fuel₁' fuel₂' M' h ms' hb' hok' hf']

/-- **C06 for checked matrix programs.** The matches labelled `i` depend only on the `i`-th
pattern: if position `i` of `ps` and position `j` of `ps'` hold the same pattern (or both
nothing), then — whatever else is compiled alongside, in whatever order and under whatever event
logs — the bindings reported with label `i` by the first matcher are those reported with label
`j` by the second. -/
theorem c06_matrix_checked (ps ps' : List MatPattern) (evs evs' : List Ev)
    (fuel₁ fuel₂ fuel₁' fuel₂' : Nat) (M M' : Many MKey CharPred) (h : MatHost)
    (ms ms' : List (Match MatPos))
    (hb : manyBuild (fun p => some (matConstraints p)) (fun _ => ([] : List MKey))
      (charTree mkeyLt) matReq fuel₁ true ps evs = some (.ok M))
    (hb' : manyBuild (fun p => some (matConstraints p)) (fun _ => ([] : List MKey))
      (charTree mkeyLt) matReq fuel₁' true ps' evs' = some (.ok M'))
    (hok : matProgramOK M.automaton ps = true) (hok' : matProgramOK M'.automaton ps' = true)
    (hf : M.findMatches matDomain h fuel₂ = .ok ms)
    (hf' : M'.findMatches matDomain h fuel₂' = .ok ms') (i j : Nat) (hij : ps[i]? = ps'[j]?)
    (m : MatPos) :
    (i, m) ∈ ms ↔ (j, m) ∈ ms' := by
  rw [c01_c02_matrix_checked ps evs fuel₁ fuel₂ M h ms hb hok hf,
    c01_c02_matrix_checked ps' evs' fuel₁' fuel₂' M' h ms' hb' hok' hf', hij]

/-- The same for the packaged `matFindMatches` (build, then match, one fuel), towards the targets
`c01_matrix_target`/`c02_matrix_target` of `Props/Targets.lean`: they hold of every run whose
built automaton passes the check. -/
theorem c01_c02_matFindMatches_checked (ps : List MatPattern) (evs : List Ev) (h : MatHost)
    (fuel : Nat) (ms : List (Match MatPos)) (hf : matFindMatches ps evs h fuel = .ok ms)
    (hok : ∀ M, manyBuild (fun p => some (matConstraints p)) (fun _ => ([] : List MKey))
      (charTree mkeyLt) matReq fuel true ps evs = some (.ok M) →
      matProgramOK M.automaton ps = true) (i : Nat) (m : MatPos) :
    (i, m) ∈ ms ↔ ∃ p, ps[i]? = some p ∧ ∃ r c, occursMat p h r c = true ∧
      m = .bound r c 0 0 ((matExtent p).1 : Int) ((matExtent p).2 : Int) := by
  unfold matFindMatches at hf
  cases hb : manyBuild (fun p => some (matConstraints p)) (fun _ => ([] : List MKey))
      (charTree mkeyLt) matReq fuel true ps evs with
  | none => rw [hb] at hf; cases hf
  | some r =>
    cases r with
    | error e => rw [hb] at hf; cases hf
    | ok M =>
      rw [hb] at hf
      exact c01_c02_matrix_checked ps evs fuel fuel M h ms hb (hok M hb) hf i m

/-- `c04_matrix_target` for checked runs. -/
theorem c04_matFindMatches_checked (ps : List MatPattern) (evs evs' : List Ev) (h : MatHost)
    (fuel : Nat) (ms ms' : List (Match MatPos)) (hf : matFindMatches ps evs h fuel = .ok ms)
    (hf' : matFindMatches ps evs' h fuel = .ok ms')
    (hok : ∀ M, manyBuild (fun p => some (matConstraints p)) (fun _ => ([] : List MKey))
      (charTree mkeyLt) matReq fuel true ps evs = some (.ok M) →
      matProgramOK M.automaton ps = true)
    (hok' : ∀ M, manyBuild (fun p => some (matConstraints p)) (fun _ => ([] : List MKey))
      (charTree mkeyLt) matReq fuel true ps evs' = some (.ok M) →
      matProgramOK M.automaton ps = true) (x : Match MatPos) :
    x ∈ ms ↔ x ∈ ms' := by
  obtain ⟨i, m⟩ := x
  rw [c01_c02_matFindMatches_checked ps evs h fuel ms hf hok,
    c01_c02_matFindMatches_checked ps evs' h fuel ms' hf' hok']

/-! ### Non-vacuity -/

namespace AnchM

/-- Three states: the root (scope `[(0,0)]`) has a transition `'a' at (0,0)` to a state (scope
`[(0,0), (1,0)]`) with a transition `'b' at (1,0)` to a leaf accepting pattern 0 = `a` above `b`
with keys `[(0,0), (1,0)]`. -/
def exMatAutomaton : Automaton MKey CharPred :=
  { g := { nodes := [some ⟨{ corder := [0], scope := [(0, 0)] }, [0], []⟩,
                     some ⟨{ corder := [1], scope := [(0, 0), (1, 0)] }, [1], [0]⟩,
                     some ⟨{ matches_ := [(0, [(0, 0), (1, 0)])] }, [], [1]⟩],
           edges := [some ⟨0, 1, some ⟨.constVal 97, [(0, 0)]⟩⟩,
                     some ⟨1, 2, some ⟨.constVal 98, [(1, 0)]⟩⟩],
           freeNodes := [], freeEdges := [] },
    root := 0 }

def exMatPatterns : List MatPattern := [[[some (.lit 97)], [some (.lit 98)]]]

/-- The program passes the check … -/
example : matProgramOK exMatAutomaton exMatPatterns = true := by decide

/-- … and the must-witness check … -/
example : keysWitnessedOK exMatAutomaton = true := by decide

/-- … and on the ragged host `aa / b` the traversal reports the pattern at anchor `(0,0)` only
(the second `a`, anchor `(0,1)`, fails at key `(1,0)`: cell `(1,1)` is outside the host). -/
example : run matDomain exMatAutomaton [[97, 97], [98]] 10 =
    .ok ([(0, .bound 0 0 0 0 1 0)],
      [(0, [none]), (1, [some (0, 0), none]), (1, [some (0, 1), none]),
       (2, [some (0, 0), some (1, 0)])]) := by rfl

/-- A host without cells: nothing is reported. -/
example : run matDomain exMatAutomaton [[]] 10 = .ok ([], [(0, [none])]) := by rfl

/-- The acceptance path of the reported match: anchor `(0,0)`, keys `[(0,0), (1,0)]`. -/
theorem exMat_acc : AccDetK (matSigma [[97, 97], [98]] 0 0) exMatAutomaton exMatAutomaton.root 0
    [(0, 0), (1, 0)] :=
  .con (w := { corder := [0], scope := [(0, 0)] }) (t := 0)
    (e := ⟨0, 1, some ⟨.constVal 97, [(0, 0)]⟩⟩) rfl (by decide) rfl rfl (by decide)
    (.con (w := { corder := [1], scope := [(0, 0), (1, 0)] }) (t := 1)
      (e := ⟨1, 2, some ⟨.constVal 98, [(1, 0)]⟩⟩) rfl (by decide) rfl rfl (by decide)
      (.here (w := { matches_ := [(0, [(0, 0), (1, 0)])] }) rfl (by decide)))

/-- `trun_mat_complete` applied to that run: membership of `(0, .bound 0 0 0 0 1 0)` from the
acceptance path. -/
example : (0, MatPos.bound 0 0 0 0 1 0) ∈ [((0 : Nat), MatPos.bound 0 0 0 0 1 0)] :=
  trun_mat_complete exMatAutomaton exMatPatterns [[97, 97], [98]] 10 _ _ (by decide) (by rfl) 0
    (.bound 0 0 0 0 1 0) (.inr ⟨0, 0, [(0, 0), (1, 0)], by decide, by decide, exMat_acc, by decide, rfl⟩)

/-- The keys recorded for some patterns (holes are skipped, an unconstrained variable cell gets
its own key through the self-equality), and their `boxMax` is the pattern's extent. -/
example : matPatternKeys [[some (.lit 97)], [some (.lit 98)]] = [(0, 0), (1, 0)] ∧
    matPatternKeys [[some (.lit 97), some (.var 0)], [none, some (.var 0)]] =
      [(0, 0), (1, 1), (0, 1)] ∧
    matPatternKeys [[none, some (.var 0)]] = [(0, 0), (0, 1)] ∧
    boxMax [(0, 0), (1, 1), (0, 1)] = (1, 1) := by decide

/-! #### the finding: `matProgramOK` alone does not give the `↔` -/

/-- `ab / cd`; recorded keys `[(0,0), (0,1), (1,0), (1,1)]`. -/
def cexMatPattern : MatPattern :=
  [[some (.lit 97), some (.lit 98)], [some (.lit 99), some (.lit 100)]]

/-- A root with scope `[(0,0), (1,0), (0,1)]` and a single transition `'c' at (1,0)` to a leaf
accepting pattern 0 with the key list of `cexMatPattern`: the constraints for `(0,1)` and `(1,1)`
are missing. It passes `matProgramOK`. -/
def cexMatAutomaton : Automaton MKey CharPred :=
  { g := { nodes := [some ⟨{ corder := [0], scope := [(0, 0), (1, 0), (0, 1)] }, [0], []⟩,
                     some ⟨{ matches_ := [(0, [(0, 0), (0, 1), (1, 0), (1, 1)])] }, [], [0]⟩],
           edges := [some ⟨0, 1, some ⟨.constVal 99, [(1, 0)]⟩⟩],
           freeNodes := [], freeEdges := [] },
    root := 0 }

theorem cexMat_acc : AccDetK (matSigma [[97, 98], [99]] 0 0) cexMatAutomaton cexMatAutomaton.root 0
    [(0, 0), (0, 1), (1, 0), (1, 1)] :=
  .con (w := { corder := [0], scope := [(0, 0), (1, 0), (0, 1)] }) (t := 0)
    (e := ⟨0, 1, some ⟨.constVal 99, [(1, 0)]⟩⟩) rfl (by decide) rfl rfl (by decide)
    (.here (w := { matches_ := [(0, [(0, 0), (0, 1), (1, 0), (1, 1)])] }) rfl (by decide))

end AnchM

/-- **Finding.** The program `cexMatAutomaton` passes `matProgramOK`; on the ragged host `ab / c`
(no cell `(1,1)`) its traversal reports pattern 0 at anchor `(0,0)` with box `(1,1)` — the step
candidate's bounding box takes in key `(1,1)` because `(1,0)` and `(0,1)` are bindable — although
key `(1,1)` of the recorded list denotes no host cell. So the bindability clause on the right of
`trun_mat` fails for a reported match, `KeysWitnessed` is false for this program and host, and
cannot be dropped from `trun_mat`. -/
theorem trun_mat_needs_witness :
    matProgramOK AnchM.cexMatAutomaton [AnchM.cexMatPattern] = true ∧
    matPatternKeys AnchM.cexMatPattern = [(0, 0), (0, 1), (1, 0), (1, 1)] ∧
    run matDomain AnchM.cexMatAutomaton [[97, 98], [99]] 10 =
      .ok ([(0, .bound 0 0 0 0 1 1)],
        [(0, [none, none, none]), (1, [some (0, 0), some (0, 1), some (1, 0), some (1, 1)])]) ∧
    matCell [[97, 98], [99]] 1 1 = none ∧
    ¬ AnchM.KeysWitnessed AnchM.cexMatAutomaton [[97, 98], [99]] ∧
    AnchM.keysWitnessedOK AnchM.cexMatAutomaton = false := by
  refine ⟨by decide, by decide, by rfl, by decide, ?_, by decide⟩
  intro hwit
  have := hwit 0 0 0 _ (by decide) AnchM.cexMat_acc (1, 1) (by decide)
  revert this
  decide

namespace AnchM

/-! #### a real build -/

/-- `ab / c` (ragged) and `a$x / _$x` (one hole). -/
def exMatPatterns2 : List MatPattern :=
  [[[some (.lit 97), some (.lit 98)], [some (.lit 99)]],
   [[some (.lit 97), some (.var 0)], [none, some (.var 0)]]]

/-- An event log that fuses the two `'a' at (0,0)` transitions of the root, determinises the
root and the fused child (which gets a fallback transition), leaves the other states
non-deterministic and visits every state. -/
def exMatEvents : List Ev :=
  [.topo 0, .group 0 [0, 3], .detAsk 0, .detYes 0, .iterEnd 0, .topo 6, .detAsk 6, .detYes 6,
   .iterEnd 6, .topo 2, .detAsk 2, .iterEnd 2, .topo 4, .iterEnd 4, .topo 1, .iterEnd 1,
   .topo 3, .iterEnd 3, .topo 5, .iterEnd 5]

/-- The built automaton has seven live states, passes the check, and on the ragged host
`xab / acb / c` reports both patterns at anchor `(0,1)` (at anchor `(1,0)` the first fails on
`c ≠ b`, the second on the missing cell `(2,1)`). -/
theorem exMat_built : ∃ M, manyBuild (fun p => some (matConstraints p)) (fun _ => ([] : List MKey))
      (charTree mkeyLt) matReq 50 true exMatPatterns2 exMatEvents = some (.ok M) ∧
    M.automaton.liveStates = [0, 1, 2, 3, 4, 5, 6] ∧
    matProgramOK M.automaton exMatPatterns2 = true ∧
    M.findMatches matDomain [[120, 97, 98], [97, 99, 98], [99]] 100 =
      .ok [(0, .bound 0 1 0 0 1 1), (1, .bound 0 1 0 0 1 1)] ∧
    keysWitnessedOK M.automaton = true :=
  ⟨_, rfl, by decide, by rfl, by rfl, by rfl⟩

/-- The hypotheses of `c01_c02_matrix_checked` hold of it; its conclusion for that run. -/
example : ∀ i m, (i, m) ∈ [((0 : Nat), MatPos.bound 0 1 0 0 1 1), (1, .bound 0 1 0 0 1 1)] ↔
    ∃ p, exMatPatterns2[i]? = some p ∧ ∃ r c,
      occursMat p [[120, 97, 98], [97, 99, 98], [99]] r c = true ∧
      m = .bound r c 0 0 ((matExtent p).1 : Int) ((matExtent p).2 : Int) := by
  obtain ⟨M, hb, _, hok, hf, _⟩ := exMat_built
  exact c01_c02_matrix_checked _ _ _ _ M _ _ hb hok hf

end AnchM

end Pm
