/-
Props/C08Bound.lean — property C08 (totality), EXPLICIT TERMINATION BOUNDS of the traversal
without a shape hypothesis on scopes: multi-root port-graph patterns, the table domain, and the
generic statement behind both.

* `c08_run_terminates_of_opts_bound` — ANY domain: under `C08.RunSafe`, with a rank decreasing along
  the transitions, if every option list offered for a scope key (to a binding satisfying the
  invariant) has at most `N` entries, then `run` does not run out of fuel above
  `geom ((max 1 N) ^ scopeLen a · outDeg a) (rank root)` (`C08B.scopeLen a` = largest scope length of
  a live state, `C08.outDeg a` = 1 + largest `constraint_order` length): `bind_all` enumerates a
  subset of the cross product of the option lists of the scope keys
  (`c08_bindAll_length_le`), so one expansion has at most `(max 1 N) ^ scopeLen a · outDeg a`
  successors (`c08_succ_bound_of_opts`).
* `c08_pgOpts_length_le` — port graphs: `list_bind_options` answers with at most
  `max 1 (C08B.pgKeyOptsBound g k)` values on ANY binding: one for a bound key or a path key, the
  live nodes for `root 0`, `(i+1) · pgMaxPorts g` for `root (i+1)` (`find_root_candidates` emits at
  most one candidate per port of a known root, and at most `i+1` roots are known while `root (i+1)`
  is unbound: `c08_findRootCandidates_length_le`).
* `c08_pg_run_terminates_all` (`…_conv`, `…_TL`) — EVERY pattern list, MULTI-ROOT INCLUDED (no
  `hsr`), every log the build accepts, every host value, every fuel above the explicit, computable
  `C08B.pgRunBoundAll A h = geom (pgOptsBound A h ^ scopeLen A · outDeg A) |node slots of A|`,
  `pgOptsBound A h` = the largest `pgKeyOptsBound h k` over the scope keys `k` of `A` (at least 1):
  `run` is not a fuel error (`C08.Res`). `c08_pg_find_matches_total_all`: with `C08.EpsLe1` it
  returns. `c08_pg_succ_bound_all`: the successor bound, for ANY automaton (no build needed).
  `c08_pg_opts_bound_single_root`: on single-root scopes `pgOptsBound A h ≤ max 1 |live host nodes|`,
  the base of `C08PG.pgRunBound`.
* `c08_table_run_terminates` — the table domain (`tDomain sch`, any scheme, ANY multi-valued host):
  any automaton with `OrdersOK`, a live root, arity-correct edge constraints and a bounded rank;
  bound `C08B.tRunBound A h = geom ((max 1 (tOptsBound h)) ^ scopeLen A · outDeg A) |node slots|`
  with `tOptsBound h` the largest total number of values in the rules of one key
  (`c08_tOpts_length_le`). `c08_table_built_run_terminates`: the hypotheses hold of every
  successful guarded build over a depth-one strategy (`tTree s`, `s ≤ 2`) with arity-correct inputs.

Proofs: `Proofs/C08Bound.lean`, `Proofs/C08BoundTable.lean`.
-/
import PmVerif.Proofs.C08Bound
import PmVerif.Proofs.C08BoundTable
import PmVerif.Props.C08PG
import PmVerif.Props.C01Gen
namespace Pm
open Automaton

/-! ## the generic statement -/

section Generic
variable {K V P H M : Type}

/-- **`bind_all` produces at most `(max 1 N) ^ |keys|` candidates** when every option list offered
for one of the keys (to a binding satisfying a bind-closed invariant `I`) has at most `N` entries. -/
theorem c08_bindAll_length_le (ops : MapOps K V M) (opts : H → K → M → List V) (h : H)
    (inc : Bool) (I : M → Prop) (N : Nat)
    (hb : ∀ m k v m', I m → v ∈ opts h k m → ops.bind m k v = .ok m' → I m')
    (m : M) (hm : I m) (ks : List K) (hks : ∀ k ∈ ks, ∀ m, I m → (opts h k m).length ≤ N) :
    (bindAll ops opts h m ks inc).length ≤ (max 1 N) ^ ks.length :=
  C08B.bindAll_length_le ops opts h inc I N hb m hm ks hks

variable [DecidableEq K] [DecidableEq V] [DecidableEq P]

/-- **The successor bound, any domain, any scopes.** -/
theorem c08_succ_bound_of_opts (D : Domain K V P H M) (a : Automaton K P) (h : H) (I : M → Prop)
    (hb : ∀ m k v m', I m → v ∈ D.opts h k m → D.map.bind m k v = .ok m' → I m') (N : Nat)
    (hopts : ∀ s w, a.g.weight? s = some w → ∀ k ∈ w.scope, ∀ m, I m →
      (D.opts h k m).length ≤ N)
    (s : Nat) (m : M) (hm : I m) (nexts : List (Nat × M))
    (hn : nextLegalStates D a h s m = .ok nexts) :
    nexts.length ≤ (max 1 N) ^ C08B.scopeLen a * C08.outDeg a :=
  C08B.succ_bound_of_opts hb N hopts hm hn

/-- **C08, traversal, any domain: explicit termination bound from a bound on option lists.** Under
`C08.RunSafe`, with a rank decreasing along the transitions and at most `N` options per scope key:
above `geom ((max 1 N) ^ scopeLen a · outDeg a) (rank root)` the run is not a fuel error. -/
theorem c08_run_terminates_of_opts_bound (D : Domain K V P H M) (a : Automaton K P) (h : H)
    (I : M → Prop) (S : C08.RunSafe D a h I) (rank : Nat → Nat)
    (hrank : ∀ t e, a.g.edge? t = some e → rank e.dst < rank e.src) (N : Nat)
    (hopts : ∀ s w, a.g.weight? s = some w → ∀ k ∈ w.scope, ∀ m, I m →
      (D.opts h k m).length ≤ N)
    (fuel : Nat)
    (hf : C08.geom ((max 1 N) ^ C08B.scopeLen a * C08.outDeg a) (rank a.root) ≤ fuel) :
    C08.Res a (run D a h fuel) :=
  C08B.run_terminates_of_opts_bound S rank hrank N hopts fuel hf

end Generic

open C01GenEx in
/-- Non-vacuity of the generic statement: the table build `C01GenEx.tBuilt` on the multi-valued
host `tHost` — `RunSafe` holds with the trivial invariant, the build provides a rank bounded by the
5 node slots, every option list has at most `N = 3` entries, scopes have at most 2 keys and
`outDeg = 3`: above `geom (3² · 3) 5` the run is not a fuel error. -/
example : ∃ A, Automaton.build (fun cs => tTree 1 cs 20) (TScheme.req [[], []]) 20 tIn tEvs = .ok A ∧
    ∃ rank : Nat → Nat, C08.RunSafe (tDomain [[], []]) A tHost (fun _ => True) ∧
      (∀ t e, A.g.edge? t = some e → rank e.dst < rank e.src) ∧
      (∀ s w, A.g.weight? s = some w → ∀ k ∈ w.scope, ∀ m : TMap, True →
        ((tDomain [[], []]).opts tHost k m).length ≤ 3) ∧
      C08.geom ((max 1 3) ^ C08B.scopeLen A * C08.outDeg A) (rank A.root) ≤ C08.geom (3 ^ 2 * 3) 5 ∧
      ∀ fuel, C08.geom (3 ^ 2 * 3) 5 ≤ fuel → C08.Res A (run (tDomain [[], []]) A tHost fuel) := by
  obtain ⟨A, hb, h1, h2, h3⟩ : ∃ A,
      Automaton.build (fun cs => tTree 1 cs 20) (TScheme.req [[], []]) 20 tIn tEvs = .ok A ∧
      C08B.scopeLen A = 2 ∧ C08.outDeg A = 3 ∧ A.g.nodes.length = 5 :=
    ⟨_, rfl, by decide, by decide, by decide⟩
  obtain ⟨ok, hroot, harity, rank, hle, hrank⟩ :=
    C08B.table_built_facts 1 (.inr (.inl rfl)) 20 [[], []] _ 20 tIn tEvs A hb (by decide)
  have S := C08B.tSafe [[], []] tHost ok hroot harity
  have hopts : ∀ s w, A.g.weight? s = some w → ∀ k ∈ w.scope, ∀ m : TMap, True →
      ((tDomain [[], []]).opts tHost k m).length ≤ 3 := fun _ _ _ k _ m _ =>
    Nat.le_trans (C08B.tOpts_length_le [[], []] tHost k m) (show C08B.tOptsBound tHost ≤ 3 by decide)
  have hg : C08.geom ((max 1 3) ^ C08B.scopeLen A * C08.outDeg A) (rank A.root) ≤
      C08.geom (3 ^ 2 * 3) 5 := by
    rw [h1, h2]
    exact C08.geom_mono _ (h3 ▸ hle A.root)
  exact ⟨A, hb, rank, S, hrank, hopts, hg, fun fuel hf =>
    c08_run_terminates_of_opts_bound _ _ _ _ S rank hrank 3 hopts fuel (Nat.le_trans hg hf)⟩

/-! ## port graphs, every pattern list (multi-root included) -/

/-- **Every answer of `list_bind_options` is short** — any host, ANY key (multi-root keys
included), any binding. -/
theorem c08_pgOpts_length_le (g : PortGraph) (k : PGKey) (m : PGMap) :
    (pgOpts g k m).length ≤ max 1 (C08B.pgKeyOptsBound g k) :=
  C08B.pgOpts_length_le g k m

/-- `find_root_candidates` emits at most `i · pgMaxPorts g` candidates while `root i` is unbound
(at most `i` known roots, at most one candidate per port of a known root). -/
theorem c08_findRootCandidates_length_le (g : PortGraph) (m : PGMap) (i : Nat)
    (hn : alGet m (.root i) = none) (cs : List Nat) (h : findRootCandidates g m = some cs) :
    cs.length ≤ i * C08B.pgMaxPorts g :=
  C08B.findRootCandidates_length_le g m i hn cs h

/-- Non-vacuity: on the tee with `root 0` and its path bound, `root 1` has exactly one candidate
(node `1`); the bound is `1 · 3`. -/
example : pgOpts PGDom.Ex.gTee (.root 1)
      [(.root 0, 0), (.along 0 ⟨.out, 0⟩ 1, 1), (.along 0 ⟨.out, 0⟩ 2, 2)] = [1] ∧
    C08B.pgKeyOptsBound PGDom.Ex.gTee (.root 1) = 3 ∧
    C08B.pgKeyOptsBound PGDom.Ex.gTee (.root 0) = 4 := by decide

/-- **The successor bound for port graphs**: ANY automaton (no build, no hypothesis on the scopes),
any host value, any configuration. -/
theorem c08_pg_succ_bound_all (A : Automaton PGKey PGPred) (h : PortGraph) (s : Nat) (m : PGMap)
    (nexts : List (Nat × PGMap)) (hn : nextLegalStates pgDomain A h s m = .ok nexts) :
    nexts.length ≤ C08B.pgOptsBound A h ^ C08B.scopeLen A * C08.outDeg A :=
  C08B.pg_succ_bound_all hn

/-- On single-root scopes the option bound is the base `max 1 |live host nodes|` of
`C08PG.pgRunBound`. -/
theorem c08_pg_opts_bound_single_root (A : Automaton PGKey PGPred) (hsr : C08PG.ScopeSR A)
    (h : PortGraph) : C08B.pgOptsBound A h ≤ max 1 h.nodesIter.length :=
  C08B.pgOptsBound_sr hsr h

section Traversal
variable {Pat : Type} (convert : Pat → Option (List PGCons))

/-- **C08, port graphs: explicit termination bound for EVERY pattern list**, for any conversion
into arity-correct constraint vectors — `c08_pg_run_terminates_conv` without `hsr`. -/
theorem c08_pg_run_terminates_all_conv (ff : Bool) (pats : List Pat) (evs : List Ev)
    (fuelT fuel : Nat) (M : Many PGKey PGPred)
    (har : ∀ p ∈ pats, ∀ cs, convert p = some cs → ∀ c ∈ cs, c.args.length = c.pred.arity)
    (hb : manyBuild convert (fun _ => ([] : List PGKey)) (fun cs => pgTree cs fuelT) pgReq fuel ff
      pats evs = some (.ok M)) (h : PortGraph) :
    ∀ fuel', C08B.pgRunBoundAll M.automaton h ≤ fuel' →
      C08.Res M.automaton (run pgDomain M.automaton h fuel') := by
  intro fuel' hf
  obtain ⟨ok, hroot, harity, rank, hle, hrank⟩ :=
    c08_pg_built_facts convert ff pats evs fuelT fuel M har hb
  exact C08B.pg_run_total_all h ok hroot harity rank hle hrank fuel' hf

end Traversal

section Rooted
variable (pats : List (PortGraph × Nat)) (evs : List Ev) (fuelT fuel : Nat)
  (M : Many PGKey PGPred)

/-- **C08, port graphs, goal 2 for EVERY pattern list: explicit termination bound.** No
hypothesis on the patterns (multi-root patterns and the isolated-root vector included), every log
the guarded build accepts, every fuels, EVERY host value: for every fuel above the computable
`C08B.pgRunBoundAll M.automaton h`, the traversal returns `.ok` or — only if some state has two
epsilon transitions — the `fail_next_state` panic; never the fuel error. -/
theorem c08_pg_run_terminates_all
    (hb : manyBuild (fun p : PortGraph × Nat => pgConstraints p.1 p.2) (fun _ => ([] : List PGKey))
      (fun cs => pgTree cs fuelT) pgReq fuel true pats evs = some (.ok M)) (h : PortGraph) :
    ∀ fuel', C08B.pgRunBoundAll M.automaton h ≤ fuel' →
      C08.Res M.automaton (run pgDomain M.automaton h fuel') :=
  c08_pg_run_terminates_all_conv _ true pats evs fuelT fuel M
    (fun p _ cs hcs => tdom_pg_arity p.1 p.2 cs hcs) hb h

/-- The same as an exclusion of the fuel error. -/
theorem c08_pg_run_no_fuel_error_all
    (hb : manyBuild (fun p : PortGraph × Nat => pgConstraints p.1 p.2) (fun _ => ([] : List PGKey))
      (fun cs => pgTree cs fuelT) pgReq fuel true pats evs = some (.ok M)) (h : PortGraph) :
    ∀ fuel', C08B.pgRunBoundAll M.automaton h ≤ fuel' →
      ∀ tag, run pgDomain M.automaton h fuel' ≠ .error (.fuel tag) := by
  intro fuel' hf tag ht
  rcases c08_pg_run_terminates_all pats evs fuelT fuel M hb h fuel' hf with ⟨x, hx⟩ | ⟨_, hx⟩ <;>
    rw [hx] at ht <;> cases ht

/-- **C08, port graphs: `find_matches` is total on EVERY built automaton** (multi-root included)
with at most one epsilon transition per state, above the explicit bound. -/
theorem c08_pg_find_matches_total_all
    (hb : manyBuild (fun p : PortGraph × Nat => pgConstraints p.1 p.2) (fun _ => ([] : List PGKey))
      (fun cs => pgTree cs fuelT) pgReq fuel true pats evs = some (.ok M))
    (heps : C08.EpsLe1 M.automaton) (h : PortGraph) (fuel' : Nat)
    (hf : C08B.pgRunBoundAll M.automaton h ≤ fuel') :
    ∃ ms seen, run pgDomain M.automaton h fuel' = .ok (ms, seen) ∧
      M.findMatches pgDomain h fuel' = .ok ms := by
  rcases c08_pg_run_terminates_all pats evs fuelT fuel M hb h fuel' hf with
    ⟨⟨ms, seen⟩, hx⟩ | ⟨hne, _⟩
  · exact ⟨ms, seen, hx, by simp [Many.findMatches, hx, Except.map]⟩
  · exact absurd heps hne

end Rooted

/-- **The same for the automata returned by the DISCIPLINED builds** — the lenient `buildTL` (the
Rust code as it runs) and the guarded `buildT` —, EVERY pattern list. -/
theorem c08_pg_run_terminates_all_TL (pats : List (PortGraph × Nat)) (evs : List Ev)
    (fuelT fuel : Nat) (inputs : List (Nat × List PGCons × List PGKey))
    (A : Automaton PGKey PGPred)
    (hin : manyInputs (fun p : PortGraph × Nat => pgConstraints p.1 p.2)
      (fun _ => ([] : List PGKey)) true pats 0 = some inputs)
    (hb : buildTL (fun cs => pgTree cs fuelT) pgReq fuel inputs evs = .ok A ∨
      buildT (fun cs => pgTree cs fuelT) pgReq fuel inputs evs = .ok A)
    (h : PortGraph) (fuel' : Nat) (hf : C08B.pgRunBoundAll A h ≤ fuel') :
    C08.Res A (run pgDomain A h fuel') ∧
    (∀ tag, run pgDomain A h fuel' ≠ .error (.fuel tag)) ∧
    (C08.EpsLe1 A → ∃ ms seen, run pgDomain A h fuel' = .ok (ms, seen)) := by
  have har : ∀ p ∈ pats, ∀ cs, pgConstraints p.1 p.2 = some cs →
      ∀ c ∈ cs, c.args.length = c.pred.arity := fun p _ cs hcs => tdom_pg_arity p.1 p.2 cs hcs
  have facts : OrdersOK A ∧ (∃ w, A.g.weight? A.root = some w) ∧ C08PG.ArityOK A ∧
      ∃ rank : Nat → Nat, (∀ s, rank s ≤ A.g.nodes.length) ∧
        ∀ t e, A.g.edge? t = some e → rank e.dst < rank e.src := by
    rcases hb with hb | hb
    · rw [C08.buildTL_eq_buildWith] at hb
      exact C08PG.many_builtWith_facts _ C08PG.detOKQ_makeDetL har hin hb
    · rw [C08.buildT_eq_buildWith] at hb
      exact C08PG.many_builtWith_facts _ C08PG.detOKQ_makeDet har hin hb
  obtain ⟨ok, hroot, harity, rank, hle, hrank⟩ := facts
  have htot := C08B.pg_run_total_all h ok hroot harity rank hle hrank fuel' hf
  refine ⟨htot, fun tag ht => ?_, fun heps => ?_⟩
  · rcases htot with ⟨x, hx⟩ | ⟨_, hx⟩ <;> rw [hx] at ht <;> cases ht
  · rcases htot with ⟨⟨ms, seen⟩, hx⟩ | ⟨hne, _⟩
    · exact ⟨ms, seen, hx⟩
    · exact absurd heps hne

/-! ### non-vacuity: the two MULTI-ROOT patterns of `Props/C01Gen.lean` -/

open C01GenEx PGDom.Ex in
set_option maxRecDepth 8192 in
/-- The build `C01GenEx.built` of the tee and the F3b witness (both constraint vectors are
multi-root, so `c08_pg_run_terminates` does not apply): the hypotheses of
`c08_pg_run_terminates_all` hold, every state has at most one epsilon transition, some scope is not
of the single-root shape (it contains the secondary root key `root 1`) and the scopes have up to
five keys; on the tee as host the option bound is `4` (four live nodes; `1 · 3` root candidates), so
the fuel bound is `geom (4⁵ · 2) 14`; the traversal of ANY host value returns above the bound. -/
example : ∃ M, manyBuild (fun p : PortGraph × Nat => pgConstraints p.1 p.2)
      (fun _ => ([] : List PGKey)) (fun cs => pgTree cs 50) pgReq 50 true pats evs =
        some (.ok M) ∧
    (pats.map fun p => (pgConstraints p.1 p.2).map pgSigMultiRoot) = [some true, some true] ∧
    C08.EpsLe1 M.automaton ∧
    ¬ C08PG.ScopeSR M.automaton ∧
    C08B.pgRunBoundAll M.automaton gTee = C08.geom (4 ^ 5 * 2) 14 ∧
    (∀ h fuel', C08B.pgRunBoundAll M.automaton h ≤ fuel' →
      C08.Res M.automaton (run pgDomain M.automaton h fuel')) ∧
    ∀ h fuel', C08B.pgRunBoundAll M.automaton h ≤ fuel' →
      ∃ ms seen, run pgDomain M.automaton h fuel' = .ok (ms, seen) := by
  obtain ⟨hmr, _, M, hb, _⟩ := built
  obtain ⟨M', hb', heps, hsc, h1, h2, h3, h4⟩ : ∃ M',
      manyBuild (fun p : PortGraph × Nat => pgConstraints p.1 p.2)
        (fun _ => ([] : List PGKey)) (fun cs => pgTree cs 50) pgReq 50 true pats evs =
          some (.ok M') ∧ C08.epsLe1 M'.automaton = true ∧
      (M'.automaton.liveStates.all fun s =>
        pgSingleRootKeys (M'.automaton.stateD s).scope) = false ∧
      C08B.pgOptsBound M'.automaton gTee = 4 ∧ C08B.scopeLen M'.automaton = 5 ∧
      C08.outDeg M'.automaton = 2 ∧ M'.automaton.g.nodes.length = 14 :=
    ⟨_, rfl, by decide, by decide, by decide, by decide, by decide, by decide⟩
  rw [hb] at hb'
  cases hb'
  have heps' := (c08_epsLe1_iff _).1 heps
  refine ⟨M, hb, hmr, heps', fun hsr => ?_, ?_,
    fun h fuel' hf => c08_pg_run_terminates_all _ _ _ _ M hb h fuel' hf, fun h fuel' hf => ?_⟩
  · have := (liveStates_all M.automaton fun _ w => pgSingleRootKeys w.scope).mpr
      fun s w hw => (AnchG.pgSingleRootKeys_iff _).2 (hsr s w hw)
    rw [hsc] at this
    cases this
  · unfold C08B.pgRunBoundAll
    rw [h1, h2, h3, h4]
  · obtain ⟨ms, seen, hr, _⟩ := c08_pg_find_matches_total_all _ _ _ _ M hb heps' h fuel' hf
    exact ⟨ms, seen, hr⟩

/-! ## the table domain -/

/-- **Every answer of `THost::list_bind_options` is short**: at most the total number of values in
the rules of one key — any scheme, key and binding. -/
theorem c08_tOpts_length_le (sch : TScheme) (h : THost) (k : Nat) (m : TMap) :
    (THost.opts sch h k m).length ≤ C08B.tOptsBound h :=
  C08B.tOpts_length_le sch h k m

/-- **C08, table domain: explicit termination bound.** Any scheme, ANY host (multi-valued,
conditional rules), any automaton with the structural invariant, a live root, arity-correct edge
constraints (`C08B.ArityOKD`; decidable: `C08B.arityOKb`) and a bounded rank decreasing along the
transitions: `run` returns `.ok`, the fuel error (never above `C08B.tRunBound A h`) or — only with
two epsilon transitions somewhere — the `fail_next_state` panic. -/
theorem c08_table_run_terminates (sch : TScheme) (A : Automaton Nat TPred) (h : THost)
    (ok : OrdersOK A) (hroot : ∃ w, A.g.weight? A.root = some w)
    (har : C08B.ArityOKD (tDomain sch) A)
    (rank : Nat → Nat) (hle : ∀ s, rank s ≤ A.g.nodes.length)
    (hrank : ∀ t e, A.g.edge? t = some e → rank e.dst < rank e.src) (fuel : Nat) :
    C08.ResF A (run (tDomain sch) A h fuel) ∧
    (C08B.tRunBound A h ≤ fuel → C08.Res A (run (tDomain sch) A h fuel)) :=
  ⟨C08B.table_run_res sch h ok hroot har fuel,
    fun hf => C08B.table_run_total sch h ok hroot har rank hle hrank fuel hf⟩

/-- **C08, table domain, built automata**: every successful guarded build over a depth-one
strategy (`0` first only, `1` transitive mutex, `2` pairwise mutex) with arity-correct inputs — any
scheme, any log, any fuels —, ANY host: the traversal is total above `C08B.tRunBound A h`. -/
theorem c08_table_built_run_terminates (s : Nat) (hs : s = 0 ∨ s = 1 ∨ s = 2) (tfuel : Nat)
    (sch : TScheme) (fuel : Nat) (inputs : List (Nat × List TCons × List Nat)) (evs : List Ev)
    (A : Automaton Nat TPred)
    (hb : Automaton.build (fun cs => tTree s cs tfuel) sch.req fuel inputs evs = .ok A)
    (har : ∀ p ∈ inputs, ∀ c ∈ p.2.1, c.args.length = c.pred.arity) (h : THost) (fuel' : Nat) :
    C08.ResF A (run (tDomain sch) A h fuel') ∧
    (C08B.tRunBound A h ≤ fuel' → C08.Res A (run (tDomain sch) A h fuel')) := by
  obtain ⟨ok, hroot, harity, rank, hle, hrank⟩ :=
    C08B.table_built_facts s hs tfuel sch sch.req fuel inputs evs A hb har
  exact c08_table_run_terminates sch A h ok hroot harity rank hle hrank fuel'

open C01GenEx in
/-- Non-vacuity: the build `C01GenEx.tBuilt` (two patterns over two keys, strategy 1) and the
multi-valued host `tHost` (two values for key `0`, three for key `1`): the hypotheses hold, the
option bound is `3`, the scopes have up to two keys, so the bound is `geom (3² · 3) 5`; above it
the run of ANY host returns. -/
example : ∃ A, Automaton.build (fun cs => tTree 1 cs 20) (TScheme.req [[], []]) 20 tIn tEvs = .ok A ∧
    C08B.tOptsBound tHost = 3 ∧ C08B.tRunBound A tHost = C08.geom (3 ^ 2 * 3) 5 ∧
    ∀ h fuel', C08B.tRunBound A h ≤ fuel' → ∃ x, run (tDomain [[], []]) A h fuel' = .ok x := by
  obtain ⟨A, hb, hbound, heps⟩ : ∃ A,
      Automaton.build (fun cs => tTree 1 cs 20) (TScheme.req [[], []]) 20 tIn tEvs = .ok A ∧
      C08B.tRunBound A tHost = C08.geom (3 ^ 2 * 3) 5 ∧ C08.epsLe1 A = true :=
    ⟨_, rfl, by decide, by decide⟩
  refine ⟨A, hb, by decide, hbound, fun h fuel' hf => ?_⟩
  rcases (c08_table_built_run_terminates 1 (.inr (.inl rfl)) 20 [[], []] 20 tIn tEvs A hb
    (by decide) h fuel').2 hf with hx | ⟨hne, _⟩
  · exact hx
  · exact absurd ((c08_epsLe1_iff _).1 heps) hne

section AxiomAudit
#print axioms c08_bindAll_length_le
#print axioms c08_succ_bound_of_opts
#print axioms c08_run_terminates_of_opts_bound
#print axioms c08_pgOpts_length_le
#print axioms c08_findRootCandidates_length_le
#print axioms c08_pg_succ_bound_all
#print axioms c08_pg_opts_bound_single_root
#print axioms c08_pg_run_terminates_all_conv
#print axioms c08_pg_run_terminates_all
#print axioms c08_pg_run_no_fuel_error_all
#print axioms c08_pg_find_matches_total_all
#print axioms c08_pg_run_terminates_all_TL
#print axioms c08_tOpts_length_le
#print axioms c08_table_run_terminates
#print axioms c08_table_built_run_terminates
end AxiomAudit

end Pm
