/-
Props/C07Mat.lean — C07 ("each occurrence of each pattern is reported exactly once, whatever the
heuristic answers, hash orders and host") for MATRIX pattern sets: the matrix instance of
`Props/C07Str.lean`.

1. The builder-independent half (any automaton): `c07_matrix_nodup_of_unamb` — the traversal of a
   matrix automaton whose live states satisfy `AnchM.StateOK` (a theorem for every build:
   `matProg_built`), which records each id once per state and whose ACCEPTING RUNS ARE UNIQUE under
   every anchored truth assignment `matSigma h r c` (`C07M.PathUnique`: two runs from the root to
   states accepting the same id visit the same states in the same order) reports no match twice.
   FINDING (`c07_matrix_unamb_insufficient`): the hypothesis of the string theorem, `C07.Unamb`
   (at most one reachable state accepts a given id, an accepting state is entered from one
   reachable state only, an accepting root is not re-entered), is NOT enough for matrices. The
   bounding box of a matrix configuration depends on the whole path taken — a position map
   answers `get` for every key inside its box, whether or not the ragged host has that cell — so
   two runs that reach an accepting state through the same parent but different grandparents can
   arrive with different boxes, hence different `(state, projection)` visit keys, be both
   expanded and report the same match twice; the hand-built five-state automaton `C07M.cexMatA`
   (all states `StateOK`, `Unamb` under every truth assignment, ids recorded once) does so on the
   ragged host `a··· / ·`. `PathUnique` implies `Unamb` (`c07_unamb_of_pathUnique`) and follows
   from the same structural invariant `C07.XInv` by the same first-divergence argument
   (`c07_pathUnique_of_xinv`), so nothing changes for checked or strictly disciplined builds.
2. `matUnambOK` — the decidable, host-independent per-build check of `XInv` (`C07.unambOK` for
   `charMx`); `c07_matrix_checked`, `c07_matFindMatches_checked` — C07 for every (guarded) build
   whose automaton passes the check, on every (ragged) host.
3. The theorem for the STRICT disciplined replay `Automaton.buildTD` (`manyBuildTD` is generic):
   `c07_matrix_TD`, `c07_matrix_nodup_TD`, `c07_matrix_holds_TD` (= `c07_matrix_target_TD`) — for
   EVERY strictly disciplined build of EVERY matrix pattern list and EVERY host, no match is
   reported twice and every occurrence exactly once; no per-build check is involved.
   `matFindMatchesTD_imp`: the strict replay is a restriction of `matFindMatches`, so C01–C06
   apply to it.

Only final statements, the executable definitions they mention and non-vacuity examples live
here; proofs are in `Proofs/C07RunMat.lean` (the matrix traversal) and the generic
`Proofs/C07*.lean` files of the string development.
-/
import PmVerif.Props.C07Str
import PmVerif.Props.C01Mat
import PmVerif.Proofs.C07RunMat
namespace Pm
open Automaton

/-! ### The builder-independent half -/

/-- **No match is reported twice** by the traversal of ANY matrix automaton whose live states
satisfy `AnchM.StateOK` (a theorem for every build: `matProg_built`), whose accepting runs are
unique under every anchored truth assignment of the host (`C07M.PathUnique` — the matrix form of
unambiguity, see the header) and which records each id once per state. -/
theorem c07_matrix_nodup_of_unamb (A : Automaton MKey CharPred) (ps : List MatPattern)
    (h : MatHost) (fuel : Nat) (ms : List (Match MatPos)) (seen : List (Nat × List (Option MVal)))
    (hok : ∀ s w, A.g.weight? s = some w → Pm.AnchM.StateOK A ps s w)
    (hP : ∀ r c, C07M.PathUnique (matSigma h r c) A) (hN : C07.IdsNodup A)
    (hr : run matDomain A h fuel = .ok (ms, seen)) : ms.Nodup :=
  C07M.run_nodup_mat A ps h fuel ms seen hok hP hN hr

/-- Uniqueness of accepting runs implies the unambiguity `C07.Unamb` of the string theorem. -/
theorem c07_unamb_of_pathUnique (A : Automaton MKey CharPred) (σ : MatCons → Bool)
    (hP : C07M.PathUnique σ A) : C07.Unamb σ A :=
  C07M.unamb_of_pathUnique hP

/-- The structural invariant `C07.XInv` (for the mutual-exclusion relation `charMx`) gives
uniqueness of accepting runs for every host and anchor cell … -/
theorem c07_pathUnique_of_xinv (A : Automaton MKey CharPred) (ok : OrdersOK A)
    (X : C07.XInv (fun k1 k2 => C07.charMx k1 k2 = true) A) (h : MatHost) (r c : Nat) :
    C07M.PathUnique (matSigma h r c) A :=
  C07M.pathUnique_of_xinv X (C07M.lawful_matSigma h r c) ok

/-- … and hence unambiguity. -/
theorem c07_unamb_of_xinv_mat (A : Automaton MKey CharPred) (ok : OrdersOK A)
    (X : C07.XInv (fun k1 k2 => C07.charMx k1 k2 = true) A) (h : MatHost) (r c : Nat) :
    C07.Unamb (matSigma h r c) A :=
  C07.unamb_of_xinv X (C07M.lawful_matSigma h r c) ok

/-- Every anchored truth assignment of a matrix host is lawful for `charMx`. -/
theorem c07_lawful_matSigma (h : MatHost) (r c : Nat) :
    C07.Lawful (fun k1 k2 : MatCons => C07.charMx k1 k2 = true) (matSigma h r c) :=
  C07M.lawful_matSigma h r c

/-! ### Finding: `C07.Unamb` alone is not enough for matrices -/

namespace C07M

/-- Root 0 (scope `[(0,0)]`) with two transitions `'a' at (0,0)` to states 1 (scope
`[(0,0), (1,0), (0,3)]`) and 2 (scope `[(0,0)]`); both have a fallback transition to state 3
(scope `[(0,0), (1,3)]`), which has a fallback transition to state 4 (scope `[(0,0), (1,3)]`)
accepting pattern 0 = `a` with keys `[(0,0)]`. -/
def cexMatA : Automaton MKey CharPred :=
  { g := { nodes := [some ⟨{ corder := [0, 1], scope := [(0, 0)] }, [1, 0], []⟩,
                     some ⟨{ eorder := [2], scope := [(0, 0), (1, 0), (0, 3)] }, [2], [0]⟩,
                     some ⟨{ eorder := [3], scope := [(0, 0)] }, [3], [1]⟩,
                     some ⟨{ eorder := [4], scope := [(0, 0), (1, 3)] }, [4], [3, 2]⟩,
                     some ⟨{ matches_ := [(0, [(0, 0)])], scope := [(0, 0), (1, 3)] }, [], [4]⟩],
           edges := [some ⟨0, 1, some ⟨.constVal 97, [(0, 0)]⟩⟩,
                     some ⟨0, 2, some ⟨.constVal 97, [(0, 0)]⟩⟩,
                     some ⟨1, 3, none⟩, some ⟨2, 3, none⟩, some ⟨3, 4, none⟩],
           freeNodes := [], freeEdges := [] },
    root := 0 }

/-- The single-cell pattern `a`. -/
def cexMatPs : List MatPattern := [[[some (.lit 97)]]]

/-- The ragged host `a··· / ·`: cells `(0,0)…(0,3)` and `(1,0)`; no cell `(1,3)`. -/
def cexMatHost : MatHost := [[97, 1, 1, 1], [5]]

/-- Only state 4 accepts anything. -/
theorem cexMat_ids {s i : Nat} (hi : cexMatA.Ids s i) : s = 4 := by
  obtain ⟨w, hw, hm⟩ := hi
  have hall := (liveStates_all cexMatA fun s w =>
    decide (w.matches_.map (·.1) = [] ∨ s = 4)).mp (by decide) s w hw
  rcases of_decide_eq_true hall with h | h
  · rw [h] at hm; cases hm
  · exact h

/-- No step enters the root, and state 4 is entered from state 3 only. -/
theorem cexMat_step {σ : MatCons → Bool} {p s : Nat} (hs : C07.StepTo σ cexMatA p s) :
    s ≠ 0 ∧ (s = 4 → p = 3) := by
  obtain ⟨w, t, e, hw, he, hd, hor⟩ := hs
  have ht : t ∈ w.corder ++ w.eorder := by
    rcases hor with ⟨ht, _⟩ | ⟨ht, _⟩
    · exact List.mem_append_left _ ht
    · exact List.mem_append_right _ ht
  have hall := (liveStates_all cexMatA fun p w => (w.corder ++ w.eorder).all fun t =>
    match cexMatA.g.edge? t with
    | some e => decide (e.dst ≠ 0) && decide (e.dst = 4 → p = 3)
    | none => true).mp (by decide) p w hw
  have h1 := List.all_eq_true.mp hall t ht
  rw [he] at h1
  simp only [Bool.and_eq_true, decide_eq_true_eq] at h1
  rw [hd] at h1
  exact h1

/-- The counterexample automaton is unambiguous in the sense of `C07.Unamb` under EVERY truth
assignment. -/
theorem cexMat_unamb (σ : MatCons → Bool) : C07.Unamb σ cexMatA where
  ids s s' i _ _ hi hi' := (cexMat_ids hi).trans (cexMat_ids hi').symm
  par s p p' i hi _ _ hs hs' := by
    have h4 := cexMat_ids hi
    exact ((cexMat_step hs).2 h4).trans ((cexMat_step hs').2 h4).symm
  root p i _ _ hs := (cexMat_step hs).1 rfl

theorem cexMat_idsNodup : C07.IdsNodup cexMatA := by
  intro s w hw
  have hall := (liveStates_all cexMatA fun _ w =>
    decide (w.matches_.map (·.1)).Nodup).mp (by decide) s w hw
  exact of_decide_eq_true hall

end C07M

/-- **Finding.** The matrix analogue of `c07_string_nodup_of_unamb` with the hypothesis
`C07.Unamb` is FALSE: `C07M.cexMatA` passes `matProgramOK` (so every live state satisfies
`AnchM.StateOK`), is unambiguous under every truth assignment and records ids once per state, yet
on the ragged host `a··· / ·` its traversal reports pattern 0 at anchor `(0,0)` TWICE: the
configurations arriving at states 3 and 4 through state 1 carry the box `(1,3)` (it covers key
`(1,3)`, which denotes no host cell), those through state 2 the box `(0,0)`, so their visit keys
differ and both are expanded. -/
theorem c07_matrix_unamb_insufficient :
    matProgramOK C07M.cexMatA C07M.cexMatPs = true ∧
    (∀ σ, C07.Unamb σ C07M.cexMatA) ∧ C07.IdsNodup C07M.cexMatA ∧
    run matDomain C07M.cexMatA C07M.cexMatHost 20 =
      .ok ([(0, .bound 0 0 0 0 0 0), (0, .bound 0 0 0 0 0 0)],
        [(0, [none]), (1, [some (0, 0), none, none]), (2, [some (0, 0)]),
         (3, [some (0, 0), some (1, 3)]), (3, [some (0, 0), none]),
         (4, [some (0, 0), some (1, 3), some (0, 0)]), (4, [some (0, 0), none, some (0, 0)])]) ∧
    ¬ ∀ (A : Automaton MKey CharPred) (ps : List MatPattern) (h : MatHost) (fuel : Nat)
        (ms : List (Match MatPos)) (seen : List (Nat × List (Option MVal))),
        (∀ s w, A.g.weight? s = some w → Pm.AnchM.StateOK A ps s w) →
        (∀ r c, C07.Unamb (matSigma h r c) A) → C07.IdsNodup A →
        run matDomain A h fuel = .ok (ms, seen) → ms.Nodup := by
  refine ⟨by decide, C07M.cexMat_unamb, C07M.cexMat_idsNodup, by rfl, ?_⟩
  intro hall
  have hnd := hall C07M.cexMatA C07M.cexMatPs C07M.cexMatHost 20 _ _
    (stateOK_of_matProgramOK _ _ (by decide)) (fun _ _ => C07M.cexMat_unamb _)
    C07M.cexMat_idsNodup (by rfl)
  revert hnd
  decide

/-- The counterexample has no unique accepting runs (it fails the structural check, as it must:
the root has two transitions with the same constraint above the same pattern id). -/
theorem c07_matrix_cex_check : C07.unambOK C07.charMx C07M.cexMatA = false := by rfl

/-! ### The per-build check -/

/-- The decidable per-build check (host-independent): `C07.unambOK` for `charMx`. -/
def matUnambOK (A : Automaton MKey CharPred) : Bool := C07.unambOK C07.charMx A

/-- `matFindMatches`-style unfolding of a successful `manyBuild` of matrix patterns. -/
theorem c07_manyBuild_inv_mat {ps : List MatPattern} {evs : List Ev} {fuel : Nat}
    {M : Many MKey CharPred}
    (hb : manyBuild (fun p => some (matConstraints p)) (fun _ => ([] : List MKey))
      (charTree mkeyLt) matReq fuel true ps evs = some (.ok M)) :
    ∃ inputs, Automaton.build (charTree mkeyLt) matReq fuel inputs evs = .ok M.automaton := by
  unfold manyBuild at hb
  cases hi : manyInputs (fun p => some (matConstraints p)) (fun _ => ([] : List MKey)) true ps 0 with
  | none => simp [hi] at hb
  | some inputs =>
    simp only [hi] at hb
    cases hbb : build (charTree mkeyLt) matReq fuel inputs evs with
    | error e => simp [hbb] at hb
    | ok A =>
      simp only [hbb, Option.some.injEq, Except.ok.injEq] at hb
      subst hb
      exact ⟨inputs, hbb⟩

/-- Multiplicities from duplicate-freeness and the set-level theorem `c01_c02_matrix`. -/
theorem c07_counts_of_nodup_mat (ps : List MatPattern) (h : MatHost) (ms : List (Match MatPos))
    (hnd : ms.Nodup)
    (hmem : ∀ i m, (i, m) ∈ ms ↔ ∃ p, ps[i]? = some p ∧ ∃ r c, occursMat p h r c = true ∧
      m = .bound r c 0 0 ((matExtent p).1 : Int) ((matExtent p).2 : Int))
    (i : Nat) (p : MatPattern) (hp : ps[i]? = some p) (r c : Nat) :
    ms.count (i, MatPos.bound r c 0 0 (matExtent p).1 (matExtent p).2) =
      if occursMat p h r c then 1 else 0 := by
  rw [hnd.count]
  by_cases ho : occursMat p h r c = true
  · rw [if_pos ((hmem i _).mpr ⟨p, hp, r, c, ho, rfl⟩), if_pos ho]
  · rw [if_neg ho, if_neg]
    intro hin
    obtain ⟨p', hp', r', c', ho', hm⟩ := (hmem i _).mp hin
    rw [hp] at hp'
    cases hp'
    cases hm
    exact ho ho'

/-- The traversal behind a successful `findMatches`. -/
theorem c07_run_of_findMatches {M : Many MKey CharPred} {h : MatHost} {fuel : Nat}
    {ms : List (Match MatPos)} (hf : M.findMatches matDomain h fuel = .ok ms) :
    ∃ seen, run matDomain M.automaton h fuel = .ok (ms, seen) := by
  unfold Many.findMatches at hf
  cases hrun : run matDomain M.automaton h fuel with
  | error e => rw [hrun] at hf; cases hf
  | ok r =>
    rw [hrun] at hf
    cases hf
    exact ⟨r.2, rfl⟩

/-- **C07 for checked matrix builds.** Whatever the event log of the (guarded) build, if the
built automaton passes the host-independent check `matUnambOK`, then on EVERY (ragged) host
`find_matches` reports no match twice, i.e. every occurrence of every pattern exactly once. -/
theorem c07_matrix_checked (ps : List MatPattern) (evs : List Ev) (fuel fuel' : Nat)
    (M : Many MKey CharPred) (h : MatHost) (ms : List (Match MatPos))
    (hb : manyBuild (fun p => some (matConstraints p)) (fun _ => ([] : List MKey))
      (charTree mkeyLt) matReq fuel true ps evs = some (.ok M))
    (hck : matUnambOK M.automaton = true)
    (hf : M.findMatches matDomain h fuel' = .ok ms) :
    ms.Nodup ∧ ∀ i p, ps[i]? = some p → ∀ r c,
      ms.count (i, MatPos.bound r c 0 0 (matExtent p).1 (matExtent p).2) =
        if occursMat p h r c then 1 else 0 := by
  obtain ⟨seen, hr⟩ := c07_run_of_findMatches hf
  obtain ⟨inputs, hbb⟩ := c07_manyBuild_inv_mat hb
  have ok : OrdersOK M.automaton :=
    build_ordersOK _ _ _ _ _ _ (fun _ => true) (c03_treeOK_char mkeyLt _) hbb
  have X := C07.xinv_of_unambOK ok hck
  have hnd : ms.Nodup :=
    c07_matrix_nodup_of_unamb M.automaton ps h fuel' ms seen (matProg_built ps evs fuel M hb)
      (fun r c => c07_pathUnique_of_xinv M.automaton ok X h r c) X.nodup hr
  exact ⟨hnd, fun i p hp r c =>
    c07_counts_of_nodup_mat ps h ms hnd (c01_c02_matrix ps evs fuel fuel' M h ms hb hf) i p hp r c⟩

/-- The same for the packaged `matFindMatches`: the C07 statement for every run whose built
automaton passes the check. -/
theorem c07_matFindMatches_checked (ps : List MatPattern) (evs : List Ev) (h : MatHost)
    (fuel : Nat) (ms : List (Match MatPos)) (hf : matFindMatches ps evs h fuel = .ok ms)
    (hck : ∀ M, manyBuild (fun p => some (matConstraints p)) (fun _ => ([] : List MKey))
      (charTree mkeyLt) matReq fuel true ps evs = some (.ok M) → matUnambOK M.automaton = true) :
    ms.Nodup ∧ ∀ i p, ps[i]? = some p → ∀ r c,
      ms.count (i, MatPos.bound r c 0 0 (matExtent p).1 (matExtent p).2) =
        if occursMat p h r c then 1 else 0 := by
  unfold matFindMatches at hf
  cases hb : manyBuild (fun p => some (matConstraints p)) (fun _ => ([] : List MKey))
      (charTree mkeyLt) matReq fuel true ps evs with
  | none => rw [hb] at hf; cases hf
  | some r =>
    cases r with
    | error e => rw [hb] at hf; cases hf
    | ok M =>
      rw [hb] at hf
      exact c07_matrix_checked ps evs fuel fuel M h ms hb (hck M hb) hf

/-! ### Non-vacuity of the check -/

set_option maxRecDepth 8192 in
/-- The real build of `Props/TRunMat.lean` (patterns `ab / c` (ragged) and `a$x / _$x` (one hole);
fused, determinised twice, a fallback state: `AnchM.exMat_built`) passes the check. -/
theorem c07_matrix_check_example :
    ∃ M, manyBuild (fun p => some (matConstraints p)) (fun _ => ([] : List MKey))
        (charTree mkeyLt) matReq 50 true AnchM.exMatPatterns2 AnchM.exMatEvents = some (.ok M) ∧
      matUnambOK M.automaton = true :=
  ⟨_, rfl, by rfl⟩

/-- `c07_matrix_checked` applied to that build and its run on the ragged host `xab / acb / c`. -/
example : ([((0 : Nat), MatPos.bound 0 1 0 0 1 1), (1, .bound 0 1 0 0 1 1)] :
    List (Match MatPos)).Nodup := by
  obtain ⟨M, hb, hck⟩ := c07_matrix_check_example
  obtain ⟨M', hb', _, _, hf, _⟩ := AnchM.exMat_built
  rw [hb] at hb'
  cases hb'
  exact (c07_matrix_checked _ _ _ _ M _ _ hb hck hf).1

/-! ### C07 for the strict disciplined replay `buildTD` -/

/-- `matFindMatches` with the strict disciplined replay (`manyBuildTD`, Props/C07Str.lean). -/
def matFindMatchesTD (ps : List MatPattern) (evs : List Ev) (h : MatHost) (fuel : Nat) :
    R (List (Match MatPos)) :=
  match manyBuildTD (fun p => some (matConstraints p)) (fun _ => []) (charTree mkeyLt) matReq fuel
      true ps evs with
  | none => .error (.panic "unreachable: matrix patterns always convert")
  | some (.error e) => .error e
  | some (.ok m) => m.findMatches matDomain h fuel

/-- C07, matrices, for the strict replay: … exactly once. -/
def c07_matrix_target_TD : Prop :=
  ∀ (ps : List MatPattern) (evs : List Ev) (h : MatHost) (fuel : Nat) ms,
    matFindMatchesTD ps evs h fuel = .ok ms → ∀ i p, ps[i]? = some p → ∀ r c,
      ms.count (i, MatPos.bound r c 0 0 (matExtent p).1 (matExtent p).2) =
        if occursMat p h r c then 1 else 0

/-- A successful strict matrix build is a successful build (so `matProg_built`,
`c01_c02_matrix`, … apply), and its automaton satisfies the structural unambiguity invariant
(in particular it records every id once per state). -/
theorem c07_manyBuildTD_inv_mat {ps : List MatPattern} {evs : List Ev} {fuel : Nat}
    {M : Many MKey CharPred}
    (hb : manyBuildTD (fun p => some (matConstraints p)) (fun _ => ([] : List MKey))
      (charTree mkeyLt) matReq fuel true ps evs = some (.ok M)) :
    manyBuild (fun p => some (matConstraints p)) (fun _ => ([] : List MKey))
      (charTree mkeyLt) matReq fuel true ps evs = some (.ok M) ∧
    C07.XInv (fun k1 k2 => C07.charMx k1 k2 = true) M.automaton := by
  unfold manyBuildTD at hb
  unfold manyBuild
  cases hi : manyInputs (fun p => some (matConstraints p)) (fun _ => ([] : List MKey)) true ps 0 with
  | none => simp [hi] at hb
  | some inputs =>
    simp only [hi] at hb ⊢
    cases hbb : Automaton.buildTD (charTree mkeyLt) matReq fuel inputs evs with
    | error e => simp [hbb] at hb
    | ok A =>
      simp only [hbb, Option.some.injEq, Except.ok.injEq] at hb
      subst hb
      have hnd := (C07.manyInputs_ids _ _ _ ps 0 inputs hi).1
      obtain ⟨X, hN⟩ := C07.buildTD_xb (Mx := fun k1 k2 => C07.charMx k1 k2 = true)
        C07.charMx_irrefl (C07.flatTreeHyp_charTree mkeyLt) (c03_treeOK_char mkeyLt _) hnd hbb
      have hbuild := C08.buildT_imp_build (C07.buildTD_imp_buildT hbb)
      simp only [hbuild]
      exact ⟨trivial, X.xinv hN⟩

/-- **C07 for strictly disciplined matrix builds.** Every strictly disciplined build of a matrix
pattern list — any admissible event log, i.e. any hash orders and heuristic answers — yields a
matcher that on EVERY (ragged) host reports no match twice, i.e. every occurrence of every pattern
exactly once. No per-build check is involved. -/
theorem c07_matrix_TD (ps : List MatPattern) (evs : List Ev) (fuel fuel' : Nat)
    (M : Many MKey CharPred) (h : MatHost) (ms : List (Match MatPos))
    (hb : manyBuildTD (fun p => some (matConstraints p)) (fun _ => ([] : List MKey))
      (charTree mkeyLt) matReq fuel true ps evs = some (.ok M))
    (hf : M.findMatches matDomain h fuel' = .ok ms) :
    ms.Nodup ∧ ∀ i p, ps[i]? = some p → ∀ r c,
      ms.count (i, MatPos.bound r c 0 0 (matExtent p).1 (matExtent p).2) =
        if occursMat p h r c then 1 else 0 := by
  obtain ⟨hb', X⟩ := c07_manyBuildTD_inv_mat hb
  obtain ⟨seen, hr⟩ := c07_run_of_findMatches hf
  obtain ⟨inputs, hbb⟩ := c07_manyBuild_inv_mat hb'
  have ok : OrdersOK M.automaton :=
    build_ordersOK _ _ _ _ _ _ (fun _ => true) (c03_treeOK_char mkeyLt _) hbb
  have hnd : ms.Nodup :=
    c07_matrix_nodup_of_unamb M.automaton ps h fuel' ms seen (matProg_built ps evs fuel M hb')
      (fun r c => c07_pathUnique_of_xinv M.automaton ok X h r c) X.nodup hr
  exact ⟨hnd, fun i p hp r c =>
    c07_counts_of_nodup_mat ps h ms hnd (c01_c02_matrix ps evs fuel fuel' M h ms hb' hf) i p hp r c⟩

/-- Unfolding of the packaged matcher. -/
theorem c07_matFindMatchesTD_inv {ps : List MatPattern} {evs : List Ev} {h : MatHost}
    {fuel : Nat} {ms : List (Match MatPos)} (hf : matFindMatchesTD ps evs h fuel = .ok ms) :
    ∃ M, manyBuildTD (fun p => some (matConstraints p)) (fun _ => ([] : List MKey))
        (charTree mkeyLt) matReq fuel true ps evs = some (.ok M) ∧
      M.findMatches matDomain h fuel = .ok ms := by
  unfold matFindMatchesTD at hf
  cases hb : manyBuildTD (fun p => some (matConstraints p)) (fun _ => ([] : List MKey))
      (charTree mkeyLt) matReq fuel true ps evs with
  | none => rw [hb] at hf; cases hf
  | some r =>
    cases r with
    | error e => rw [hb] at hf; cases hf
    | ok M =>
      rw [hb] at hf
      exact ⟨M, rfl, hf⟩

/-- The strict replay is a restriction of `matFindMatches`: the same result whenever it
succeeds, so the theorems about `matFindMatches` (C01–C04, C06) apply to it. -/
theorem matFindMatchesTD_imp (ps : List MatPattern) (evs : List Ev) (h : MatHost)
    (fuel : Nat) (ms : List (Match MatPos)) (hf : matFindMatchesTD ps evs h fuel = .ok ms) :
    matFindMatches ps evs h fuel = .ok ms := by
  obtain ⟨M, hb, hfm⟩ := c07_matFindMatchesTD_inv hf
  unfold matFindMatches
  rw [(c07_manyBuildTD_inv_mat hb).1]
  exact hfm

/-- **C07, matrices: no match is reported twice** by the strictly disciplined matcher, whatever
the heuristic answers, hash orders (admissible event log) and host. -/
theorem c07_matrix_nodup_TD (ps : List MatPattern) (evs : List Ev) (h : MatHost) (fuel : Nat)
    (ms : List (Match MatPos)) (hr : matFindMatchesTD ps evs h fuel = .ok ms) : ms.Nodup := by
  obtain ⟨M, hb, hfm⟩ := c07_matFindMatchesTD_inv hr
  exact (c07_matrix_TD ps evs fuel fuel M h ms hb hfm).1

/-- **C07, matrices** (`c07_matrix_target_TD`) is a theorem: each occurrence of each pattern is
reported exactly once. -/
theorem c07_matrix_holds_TD : c07_matrix_target_TD := by
  intro ps evs h fuel ms hf
  obtain ⟨M, hb, hfm⟩ := c07_matFindMatchesTD_inv hf
  exact (c07_matrix_TD ps evs fuel fuel M h ms hb hfm).2

/-! ### Non-vacuity for the strict replay -/

/-- `ab / c` (ragged), `a$x / _$x` (one hole) and `$x$x`. -/
def C07M.exMatPatterns3 : List MatPattern :=
  [[[some (.lit 97), some (.lit 98)], [some (.lit 99)]],
   [[some (.lit 97), some (.var 0)], [none, some (.var 0)]],
   [[some (.var 0), some (.var 0)]]]

/-- A complete, strictly disciplined log for `C07M.exMatPatterns3` (found by replaying the model
with "smallest admissible state first, always determinise"): the two `'a' at (0,0)` transitions of
the root are fused and the root is determinised (it gets a fallback state for `$x$x`), so are the
fused child 7 and state 9; every state is emitted once, after its predecessors, and no child of
an emitted state is deterministic. -/
def C07M.exMatEvsTD3 : List Ev :=
  [.topo 0, .group 0 [0, 3], .detAsk 0, .detYes 0, .iterEnd 0,
   .topo 4, .iterEnd 4, .topo 7, .detAsk 7, .detYes 7, .iterEnd 7,
   .topo 1, .iterEnd 1, .topo 2, .iterEnd 2, .topo 6, .iterEnd 6, .topo 8, .iterEnd 8,
   .topo 9, .detAsk 9, .detYes 9, .iterEnd 9,
   .topo 3, .iterEnd 3, .topo 10, .iterEnd 10, .topo 5, .iterEnd 5]

/-- The ragged host `abba· / cbaa / c··a`. -/
def C07M.exMatHost3 : MatHost := [[97, 98, 98, 97, 1], [99, 98, 97, 97], [99, 5, 5, 97]]

set_option maxRecDepth 8192 in
/-- The strict replay accepts the log `AnchM.exMatEvents` of `Props/TRunMat.lean` (two
deterministic states, two matches on `xab / acb / c`) and the log `C07M.exMatEvsTD3` (three
deterministic states; six matches on `C07M.exMatHost3`: `$x$x` at three anchors, `a$x / _$x` at
two, `ab / c` at one); it REJECTS a log that emits the root twice (guard c1T) and a truncated one
(guard c1C). -/
theorem c07_matrix_TD_examples :
    matFindMatchesTD AnchM.exMatPatterns2 AnchM.exMatEvents [[120, 97, 98], [97, 99, 98], [99]] 100 =
      .ok [(0, .bound 0 1 0 0 1 1), (1, .bound 0 1 0 0 1 1)] ∧
    matFindMatchesTD C07M.exMatPatterns3 C07M.exMatEvsTD3 C07M.exMatHost3 100 =
      .ok [(2, .bound 0 1 0 0 0 1), (2, .bound 2 1 0 0 0 1), (2, .bound 1 2 0 0 0 1),
           (0, .bound 0 0 0 0 1 1), (1, .bound 1 2 0 0 1 1), (1, .bound 0 0 0 0 1 1)] ∧
    (∃ M, manyBuildTD (fun p => some (matConstraints p)) (fun _ => ([] : List MKey))
        (charTree mkeyLt) matReq 100 true C07M.exMatPatterns3 C07M.exMatEvsTD3 = some (.ok M) ∧
      M.automaton.liveStates = [0, 1, 2, 3, 4, 5, 6, 7, 8, 9, 10] ∧
      (M.automaton.liveStates.filter fun s => (M.automaton.stateD s).det) = [0, 7, 9] ∧
      matUnambOK M.automaton = true) ∧
    matFindMatchesTD AnchM.exMatPatterns2
        (AnchM.exMatEvents ++ [.topo 0, .iterEnd 0]) [[120, 97, 98], [97, 99, 98], [99]] 100 =
      .error (.guard "c1T: state emitted twice or before one of its predecessors") ∧
    matFindMatchesTD AnchM.exMatPatterns2
        [.topo 0, .group 0 [0, 3], .detAsk 0, .detYes 0, .iterEnd 0]
        [[120, 97, 98], [97, 99, 98], [99]] 100 =
      .error (.guard "c1C: the log ends although a live state was never emitted") :=
  ⟨by rfl, by rfl, ⟨_, rfl, by rfl, by rfl, by rfl⟩, by rfl, by rfl⟩

/-- `c07_matrix_nodup_TD` / `c07_matrix_holds_TD` applied to the second run: no duplicates, and
pattern 2 (`$x$x`) is counted once at each cell where it occurs, zero times elsewhere. -/
example :
    ([(2, .bound 0 1 0 0 0 1), (2, .bound 2 1 0 0 0 1), (2, .bound 1 2 0 0 0 1),
      (0, .bound 0 0 0 0 1 1), (1, .bound 1 2 0 0 1 1), (1, .bound 0 0 0 0 1 1)] :
      List (Match MatPos)).Nodup ∧
    ∀ r c, ([(2, .bound 0 1 0 0 0 1), (2, .bound 2 1 0 0 0 1), (2, .bound 1 2 0 0 0 1),
      (0, .bound 0 0 0 0 1 1), (1, .bound 1 2 0 0 1 1), (1, .bound 0 0 0 0 1 1)] :
      List (Match MatPos)).count (2, .bound r c 0 0 0 1) =
        if occursMat [[some (.var 0), some (.var 0)]] C07M.exMatHost3 r c then 1 else 0 :=
  ⟨c07_matrix_nodup_TD _ _ _ _ _ c07_matrix_TD_examples.2.1,
   c07_matrix_holds_TD _ _ _ _ _ c07_matrix_TD_examples.2.1 2
      [[some (.var 0), some (.var 0)]] (by decide)⟩

end Pm

section AxiomAudit
open Pm
#print axioms c07_matrix_nodup_of_unamb
#print axioms c07_unamb_of_pathUnique
#print axioms c07_pathUnique_of_xinv
#print axioms c07_lawful_matSigma
#print axioms c07_matrix_unamb_insufficient
#print axioms c07_matrix_checked
#print axioms c07_matFindMatches_checked
#print axioms c07_matrix_check_example
#print axioms c07_matrix_TD
#print axioms c07_matrix_nodup_TD
#print axioms c07_matrix_holds_TD
#print axioms matFindMatchesTD_imp
#print axioms c07_matrix_TD_examples
end AxiomAudit
