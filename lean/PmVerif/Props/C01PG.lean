/-
Props/C01PG.lean — port graphs END-TO-END for single-root patterns: the two halves
T-RUN-ANCH-PG / T-SINGLE ("the matcher reports exactly anchored acceptance", `Props/TRunPG.lean`,
`Props/TRun.lean`) and T-DOM-PG ("anchored acceptance at `r` ⇔ the pattern embeds with its root
sent to `r`", `Props/TDomPG.lean`) COMPOSED.

Throughout, a pattern is `(g, root)` with `g.LinksOK` (well-formed links), `pgConnected g`,
a live `root`, `pgConstraints g root = some cs` (the Rust `constraint_vec`) and
`pgSigMultiRoot cs = false` (single-root: the complement of known finding F3b); hosts satisfy
`h.LinksOK`. Each theorem lists only the hypotheses it needs.

* `PGComp.BindingOf g root φ m` — "`m` is the binding induced by the node map `φ`": the key that
  `constraint_vec` gives to a pattern node is bound to the image of that node, nothing else is
  bound. The keys of `pgPatternKeys cs` (what the automaton records), the baseline's requested
  keys and the node keys `pgNodeKeys g root` are the same SET (`c01_pg_keys`); distinct nodes
  get distinct keys (`c01_pg_keys_nodup`), so `BindingOf` is a `MapGets` in the vocabulary of
  `trun_pg` (`c01_pg_bindingOf_iff`); the induced binding binds exactly `pgPatternKeys cs`
  (`c01_pg_binds_exactly`) and is unique up to the order of its entries (`c01_pg_bindingOf`);
  an embedding is determined by its root image (`c01_pg_emb_unique`).
* C01 + C02, `ManyMatcher` (checked builds): `c01_c02_pg_single`, with the directions
  `c01_pg_single` (+ `c01_pg_single_unfolded`, `c01_pg_single_rootImages`) and `c02_pg_single`
  (+ `c02_pg_single_live`, `c02_pg_single_rootImages`).
* C05, baseline: `c05_pg_exact` (the output LIST in closed form, any fuel), `c05_pg_total`
  (success with an explicit fuel bound), `c05_pg_single` (the equivalence with embeddings),
  `c05_pg_sound`, `c05_pg_complete`, `c05_pg_nodup`, `c05_naive_pg`; `c02_pg_holds_wf` is
  `c02_pg_target` under `LinksOK`, and `c02_pg_target_false` shows the literal target is FALSE
  (ill-formed host: an input port with two links).
* C03: `c03_pg_single` (per pattern id, needs only the single-root signature), `c03_pg_all`.
* C11: `c11_many_pg_self`, `c11_many_pg_extend`, `c11_single_pg_self`, `c11_single_pg_extend`.

Only final statements and non-vacuity examples live here; proofs are in
`Proofs/PGCompKeys.lean`, `Proofs/PGCompDom.lean`, `Proofs/PGCompBase.lean`.
-/
import PmVerif.Proofs.PGCompBase
import PmVerif.Props.Targets
namespace Pm
open Automaton AnchG PGDom PGComp

/-! ## 0. Keys -/

/-- The keys the automaton records for a single-root pattern (`pgPatternKeys cs`), the keys the
baseline requests, and the keys of the pattern's nodes (`pgNodeKeys g root`: `root 0` for the
root, and the first argument of its `isNotEqual` constraint for every other node) are the same
set; every node has exactly one entry in `pgNodeKeys`, the root's is `root 0`. -/
theorem c01_pg_keys (g : PortGraph) (root : Nat) (cs : List PGCons)
    (hcs : pgConstraints g root = some cs) (hsr : pgSigMultiRoot cs = false) :
    (∀ k, k ∈ pgPatternKeys cs ↔ k ∈ (pgNodeKeys g root).map (·.2)) ∧
    (∀ fuel requested, requestedBindings pgDomain cs fuel = some requested →
      ∀ k, k ∈ requested ↔ k ∈ (pgNodeKeys g root).map (·.2)) ∧
    (∀ k, k ∈ (pgNodeKeys g root).map (·.2) ↔ (∃ c ∈ cs, k ∈ c.args) ∨ k = .root 0) ∧
    alGet (pgNodeKeys g root) root = some (.root 0) ∧
    ((pgNodeKeys g root).map (·.1)).Nodup := by
  obtain ⟨cs0, h0, _⟩ := pgConstraints_cases hcs
  obtain ⟨k1, k2, _, _⟩ := consLines_keys g root cs0 h0
  exact ⟨patternKeys_nodeKeys hcs hsr, fun _ _ hq => requested_nodeKeys hcs hsr hq,
    mem_nodeKeys_iff hcs, k1, k2⟩

/-- The binding induced by a node map is determined up to the order of its entries, and binds
`root 0` to the image of the root. -/
theorem c01_pg_bindingOf (g : PortGraph) (root : Nat) (cs : List PGCons)
    (hcs : pgConstraints g root = some cs) (φ : List (Nat × Nat)) (m m' : PGMap)
    (hb : BindingOf g root φ m) :
    alGet m (.root 0) = alGet φ root ∧ (BindingOf g root φ m' ↔ MapEqv m' m) :=
  ⟨hb.root hcs, fun hb' => hb'.eqv hb, fun he => hb.congr he⟩

/-- **Distinct nodes of a well-formed single-root pattern get distinct keys**, so `BindingOf`
determines, for each bound key, the one pattern node it speaks about. -/
theorem c01_pg_keys_nodup (g : PortGraph) (root : Nat) (cs : List PGCons) (hg : g.LinksOK)
    (hroot : (g.node? root).isSome = true) (hcs : pgConstraints g root = some cs)
    (hsr : pgSigMultiRoot cs = false) : ((pgNodeKeys g root).map (·.2)).Nodup :=
  nodeKeys_nodup hg hroot hcs hsr

/-- `BindingOf` in the vocabulary of `trun_pg`: `m` is the binding of the keys
`pgPatternKeys cs`, each to the image under `φ` of the pattern node whose key it is
(`keyNode g root k`). -/
theorem c01_pg_bindingOf_iff (g : PortGraph) (root : Nat) (cs : List PGCons) (hg : g.LinksOK)
    (hroot : (g.node? root).isSome = true) (hcs : pgConstraints g root = some cs)
    (hsr : pgSigMultiRoot cs = false) (φ : List (Nat × Nat)) (m : PGMap) :
    BindingOf g root φ m ↔
      MapGets m (pgPatternKeys cs) fun k => (keyNode g root k).bind (alGet φ) :=
  bindingOf_iff_mapGets (nodeKeys_nodup hg hroot hcs hsr) (patternKeys_nodeKeys hcs hsr) φ m

/-- The binding induced by an embedding binds exactly the keys `pgPatternKeys cs`. -/
theorem c01_pg_binds_exactly (g : PortGraph) (root : Nat) (cs : List PGCons) (h : PortGraph)
    (hg : g.LinksOK) (hroot : (g.node? root).isSome = true)
    (hcs : pgConstraints g root = some cs) (hsr : pgSigMultiRoot cs = false) (hh : h.LinksOK)
    (φ : List (Nat × Nat)) (m : PGMap) (hemb : embedsPG g h φ = true)
    (hb : BindingOf g root φ m) : ∀ k, (alGet m k).isSome = true ↔ k ∈ pgPatternKeys cs := by
  obtain ⟨r, hr⟩ := emb_root hroot hemb
  exact binds_exactly hg hh hcs hsr (patternKeys_nodeKeys hcs hsr) hemb hr hb

/-- Under the full pattern hypotheses an embedding is determined, on the pattern's nodes, by its
root image: it is the induced map `pgPhi g root h r`. -/
theorem c01_pg_emb_unique (g : PortGraph) (root : Nat) (cs : List PGCons) (h : PortGraph)
    (hg : g.LinksOK) (hconn : pgConnected g = true) (hroot : (g.node? root).isSome = true)
    (hcs : pgConstraints g root = some cs) (hsr : pgSigMultiRoot cs = false) (hh : h.LinksOK)
    (φ : List (Nat × Nat)) (r : Nat) (hemb : embedsPG g h φ = true) (hr : alGet φ root = some r) :
    ∀ n ∈ g.nodesIter, alGet φ n = alGet (pgPhi g root h r) n :=
  emb_unique hg hconn hroot hh hcs hsr hemb hr

/-! ## 1. `ManyMatcher`: C01 + C02 -/

/-- **C01 + C02 for single-root port-graph patterns, `ManyMatcher`.** For a checked build
(`pgProgramOK`) of ANY pattern list under ANY event log, a successful `find_matches` reports for
the pattern `(g, root)` with id `i` — up to the order of the entries of the bindings — exactly
the bindings induced by the embeddings of `g` into the host. -/
theorem c01_c02_pg_single (pats : List (PortGraph × Nat)) (evs : List Ev)
    (fuelT fuel fuel' : Nat) (M : Many PGKey PGPred) (h : PortGraph) (ms : List (Match PGMap))
    (hb : manyBuild (fun p : PortGraph × Nat => pgConstraints p.1 p.2) (fun _ => ([] : List PGKey))
      (fun cs => pgTree cs fuelT) pgReq fuel true pats evs = some (.ok M))
    (hok : pgProgramOK M.automaton (pats.map fun p => pgConstraints p.1 p.2) = true)
    (hf : M.findMatches pgDomain h fuel' = .ok ms)
    (i : Nat) (g : PortGraph) (root : Nat) (cs : List PGCons) (hi : pats[i]? = some (g, root))
    (hg : g.LinksOK) (hconn : pgConnected g = true) (hroot : (g.node? root).isSome = true)
    (hcs : pgConstraints g root = some cs) (hsr : pgSigMultiRoot cs = false) (hh : h.LinksOK)
    (m : PGMap) :
    (∃ m', (i, m') ∈ ms ∧ MapEqv m' m) ↔
      ∃ φ, embedsPG g h φ = true ∧ BindingOf g root φ m := by
  rw [c01_c02_pg_checked_rooted pats evs fuelT fuel fuel' M h ms hb hok hf i m,
    ← anch_iff_emb hg hconn hroot hh hcs hsr (patternKeys_nodeKeys hcs hsr) m]
  constructor
  · rintro ⟨p, cs', hp, hcs', hrest⟩
    rw [hi] at hp
    cases hp
    rw [hcs] at hcs'
    cases hcs'
    exact hrest
  · intro hrest
    exact ⟨(g, root), cs, hi, hcs, hrest⟩

/-- **C01 (soundness), `ManyMatcher`.** Every reported binding is the binding induced by an
embedding of the pattern; no key is listed twice. -/
theorem c01_pg_single (pats : List (PortGraph × Nat)) (evs : List Ev)
    (fuelT fuel fuel' : Nat) (M : Many PGKey PGPred) (h : PortGraph) (ms : List (Match PGMap))
    (hb : manyBuild (fun p : PortGraph × Nat => pgConstraints p.1 p.2) (fun _ => ([] : List PGKey))
      (fun cs => pgTree cs fuelT) pgReq fuel true pats evs = some (.ok M))
    (hok : pgProgramOK M.automaton (pats.map fun p => pgConstraints p.1 p.2) = true)
    (hf : M.findMatches pgDomain h fuel' = .ok ms)
    (i : Nat) (g : PortGraph) (root : Nat) (cs : List PGCons) (hi : pats[i]? = some (g, root))
    (hg : g.LinksOK) (hconn : pgConnected g = true) (hroot : (g.node? root).isSome = true)
    (hcs : pgConstraints g root = some cs) (hsr : pgSigMultiRoot cs = false) (hh : h.LinksOK)
    (m : PGMap) (hm : (i, m) ∈ ms) :
    (∃ φ, embedsPG g h φ = true ∧ BindingOf g root φ m) ∧ (m.map (·.1)).Nodup := by
  refine ⟨(c01_c02_pg_single pats evs fuelT fuel fuel' M h ms hb hok hf i g root cs hi hg hconn
    hroot hcs hsr hh m).1 ⟨m, hm, fun _ => rfl⟩, ?_⟩
  obtain ⟨seen, hr⟩ : ∃ seen, run pgDomain M.automaton h fuel' = .ok (ms, seen) := by
    unfold Many.findMatches at hf
    cases hrun : run pgDomain M.automaton h fuel' with
    | error e => rw [hrun] at hf; cases hf
    | ok r => rw [hrun] at hf; cases hf; exact ⟨r.2, rfl⟩
  exact trun_pg_nodup M.automaton _ h fuel' ms seen hok hr i m hm

/-- The same with the notion of embedding spelled out: the node map is defined on every live
pattern node, injective, maps into live host nodes, and carries every link of the pattern to a
link of the host between the images, with the same two port offsets; the reported binding maps
the key of each pattern node to the image of the node, `root 0` to the image of the root. -/
theorem c01_pg_single_unfolded (pats : List (PortGraph × Nat)) (evs : List Ev)
    (fuelT fuel fuel' : Nat) (M : Many PGKey PGPred) (h : PortGraph) (ms : List (Match PGMap))
    (hb : manyBuild (fun p : PortGraph × Nat => pgConstraints p.1 p.2) (fun _ => ([] : List PGKey))
      (fun cs => pgTree cs fuelT) pgReq fuel true pats evs = some (.ok M))
    (hok : pgProgramOK M.automaton (pats.map fun p => pgConstraints p.1 p.2) = true)
    (hf : M.findMatches pgDomain h fuel' = .ok ms)
    (i : Nat) (g : PortGraph) (root : Nat) (cs : List PGCons) (hi : pats[i]? = some (g, root))
    (hg : g.LinksOK) (hconn : pgConnected g = true) (hroot : (g.node? root).isSome = true)
    (hcs : pgConstraints g root = some cs) (hsr : pgSigMultiRoot cs = false) (hh : h.LinksOK)
    (m : PGMap) (hm : (i, m) ∈ ms) :
    ∃ φ : List (Nat × Nat),
      (∀ n ∈ g.nodesIter, (alGet φ n).isSome = true) ∧
      (φ.map (·.2)).Nodup ∧
      (∀ x ∈ φ, (h.node? x.2).isSome = true) ∧
      (∀ l ∈ g.links, ∀ a b, alGet φ l.1.1 = some a → alGet φ l.2.1 = some b →
        h.portExists (a, l.1.2) = true ∧ h.portLink (a, l.1.2) = some (b, l.2.2)) ∧
      (∀ nk ∈ pgNodeKeys g root, alGet m nk.2 = alGet φ nk.1) ∧
      (∀ k, k ∉ (pgNodeKeys g root).map (·.2) → alGet m k = none) ∧
      alGet m (.root 0) = alGet φ root := by
  obtain ⟨⟨φ, hemb, hbind⟩, _⟩ := c01_pg_single pats evs fuelT fuel fuel' M h ms hb hok hf i g
    root cs hi hg hconn hroot hcs hsr hh m hm
  obtain ⟨h1, h2, h3, h4⟩ := (embedsPG_iff g h φ).1 hemb
  exact ⟨φ, h1, h2, h3, (linksPreserved_iff g h φ).1 h4, hbind.1, hbind.2, hbind.root hcs⟩

/-- **C02 (completeness), `ManyMatcher`.** Every embedding is reported, with the binding it
induces. (Neither connectedness of the pattern nor the program's other patterns matter.) -/
theorem c02_pg_single (pats : List (PortGraph × Nat)) (evs : List Ev)
    (fuelT fuel fuel' : Nat) (M : Many PGKey PGPred) (h : PortGraph) (ms : List (Match PGMap))
    (hb : manyBuild (fun p : PortGraph × Nat => pgConstraints p.1 p.2) (fun _ => ([] : List PGKey))
      (fun cs => pgTree cs fuelT) pgReq fuel true pats evs = some (.ok M))
    (hok : pgProgramOK M.automaton (pats.map fun p => pgConstraints p.1 p.2) = true)
    (hf : M.findMatches pgDomain h fuel' = .ok ms)
    (i : Nat) (g : PortGraph) (root : Nat) (cs : List PGCons) (hi : pats[i]? = some (g, root))
    (hg : g.LinksOK) (hcs : pgConstraints g root = some cs) (hsr : pgSigMultiRoot cs = false)
    (hh : h.LinksOK) (φ : List (Nat × Nat)) (r : Nat) (hemb : embedsPG g h φ = true)
    (hr : alGet φ root = some r) :
    ∃ m, (i, m) ∈ ms ∧ BindingOf g root φ m ∧ alGet m (.root 0) = some r := by
  obtain ⟨h1, h2, h3, h4⟩ :=
    anch_of_emb hg hh hcs hsr (patternKeys_nodeKeys hcs hsr) hemb hr
  have hget := mapGets_mapOf (pgPatternKeys cs) (pgVal h r)
  obtain ⟨m, hm, heq⟩ := (c01_c02_pg_checked_rooted pats evs fuelT fuel fuel' M h ms hb hok hf i
    (mapOf (pgPatternKeys cs) (pgVal h r))).2 ⟨(g, root), cs, hi, hcs, r, h1, h2, h3, hget⟩
  have hbind : BindingOf g root φ m := ((h4 _).2 hget).congr heq
  exact ⟨m, hm, hbind, (hbind.root hcs).trans hr⟩

/-- With a live root every embedding assigns the root. -/
theorem c02_pg_single_live (pats : List (PortGraph × Nat)) (evs : List Ev)
    (fuelT fuel fuel' : Nat) (M : Many PGKey PGPred) (h : PortGraph) (ms : List (Match PGMap))
    (hb : manyBuild (fun p : PortGraph × Nat => pgConstraints p.1 p.2) (fun _ => ([] : List PGKey))
      (fun cs => pgTree cs fuelT) pgReq fuel true pats evs = some (.ok M))
    (hok : pgProgramOK M.automaton (pats.map fun p => pgConstraints p.1 p.2) = true)
    (hf : M.findMatches pgDomain h fuel' = .ok ms)
    (i : Nat) (g : PortGraph) (root : Nat) (cs : List PGCons) (hi : pats[i]? = some (g, root))
    (hg : g.LinksOK) (hroot : (g.node? root).isSome = true)
    (hcs : pgConstraints g root = some cs) (hsr : pgSigMultiRoot cs = false)
    (hh : h.LinksOK) (φ : List (Nat × Nat)) (hemb : embedsPG g h φ = true) :
    ∃ m, (i, m) ∈ ms ∧ BindingOf g root φ m := by
  obtain ⟨r, hr⟩ := emb_root hroot hemb
  obtain ⟨m, hm, hbind, _⟩ := c02_pg_single pats evs fuelT fuel fuel' M h ms hb hok hf i g root cs
    hi hg hcs hsr hh φ r hemb hr
  exact ⟨m, hm, hbind⟩

/-- **C02 on root images** (the form of `c02_pg_target`, for `ManyMatcher`): every root image of
the brute-force specification `pgRootImages` is reported. -/
theorem c02_pg_single_rootImages (pats : List (PortGraph × Nat)) (evs : List Ev)
    (fuelT fuel fuel' : Nat) (M : Many PGKey PGPred) (h : PortGraph) (ms : List (Match PGMap))
    (hb : manyBuild (fun p : PortGraph × Nat => pgConstraints p.1 p.2) (fun _ => ([] : List PGKey))
      (fun cs => pgTree cs fuelT) pgReq fuel true pats evs = some (.ok M))
    (hok : pgProgramOK M.automaton (pats.map fun p => pgConstraints p.1 p.2) = true)
    (hf : M.findMatches pgDomain h fuel' = .ok ms)
    (i : Nat) (g : PortGraph) (root : Nat) (cs : List PGCons) (hi : pats[i]? = some (g, root))
    (hg : g.LinksOK) (hcs : pgConstraints g root = some cs) (hsr : pgSigMultiRoot cs = false)
    (hh : h.LinksOK) :
    ∀ r ∈ pgRootImages g h root, ∃ m, (i, m) ∈ ms ∧ alGet m (.root 0) = some r := by
  intro r hr
  obtain ⟨φ, hemb, hφ⟩ := mem_pgRootImages hr
  obtain ⟨m, hm, _, h0⟩ := c02_pg_single pats evs fuelT fuel fuel' M h ms hb hok hf i g root cs
    hi hg hcs hsr hh φ r hemb hφ
  exact ⟨m, hm, h0⟩

/-- … and conversely the root key of every reported binding is a root image. -/
theorem c01_pg_single_rootImages (pats : List (PortGraph × Nat)) (evs : List Ev)
    (fuelT fuel fuel' : Nat) (M : Many PGKey PGPred) (h : PortGraph) (ms : List (Match PGMap))
    (hb : manyBuild (fun p : PortGraph × Nat => pgConstraints p.1 p.2) (fun _ => ([] : List PGKey))
      (fun cs => pgTree cs fuelT) pgReq fuel true pats evs = some (.ok M))
    (hok : pgProgramOK M.automaton (pats.map fun p => pgConstraints p.1 p.2) = true)
    (hf : M.findMatches pgDomain h fuel' = .ok ms)
    (i : Nat) (g : PortGraph) (root : Nat) (cs : List PGCons) (hi : pats[i]? = some (g, root))
    (hg : g.LinksOK) (hconn : pgConnected g = true) (hroot : (g.node? root).isSome = true)
    (hcs : pgConstraints g root = some cs) (hsr : pgSigMultiRoot cs = false) (hh : h.LinksOK)
    (m : PGMap) (hm : (i, m) ∈ ms) :
    ∃ r φ, alGet m (.root 0) = some r ∧ embedsPG g h φ = true ∧ alGet φ root = some r := by
  obtain ⟨⟨φ, hemb, hbind⟩, _⟩ := c01_pg_single pats evs fuelT fuel fuel' M h ms hb hok hf i g
    root cs hi hg hconn hroot hcs hsr hh m hm
  obtain ⟨r, hr⟩ := emb_root hroot hemb
  exact ⟨r, φ, (hbind.root hcs).trans hr, hemb, hr⟩

/-! ## 2. The baseline: C05 -/

/-- **C05 for single-root port-graph constraint vectors, closed form (any fuel).** Whenever the
baseline succeeds, its output is, in host-node order, one binding per live host node `r` at which
every constraint holds under the anchored assignment: `baseMap h r cs`, the binding of `root 0`
and of the constraints' keys to their values from `r`. (No hypothesis on the pattern graph.) -/
theorem c05_pg_exact (g : PortGraph) (root : Nat) (cs : List PGCons) (h : PortGraph) (fuel : Nat)
    (out : List PGMap) (hcs : pgConstraints g root = some cs) (hsr : pgSigMultiRoot cs = false)
    (hs : singleMatches pgDomain cs h fuel = .ok out) :
    out = (h.nodesIter.filter fun r => cs.all (pgSigmaAnch h r)).map fun r => baseMap h r cs :=
  pg_single_exact h fuel cs (consOK_of_constraints hcs hsr) (pgConstraints_ne_nil hcs) out hs

/-- **C05, total form**: with fuel `≥ cs.length * (number of live host nodes) + 4` the baseline
succeeds. -/
theorem c05_pg_total (g : PortGraph) (root : Nat) (cs : List PGCons) (h : PortGraph) (fuel : Nat)
    (hcs : pgConstraints g root = some cs) (hsr : pgSigMultiRoot cs = false)
    (hf : cs.length * h.nodesIter.length + 4 ≤ fuel) :
    singleMatches pgDomain cs h fuel =
      .ok ((h.nodesIter.filter fun r => cs.all (pgSigmaAnch h r)).map fun r => baseMap h r cs) :=
  pg_single_ok h fuel cs (consOK_of_constraints hcs hsr) (pgConstraints_ne_nil hcs) hf

/-- The computed binding: `get` is the anchored value on `root 0` and on the keys of the
constraints, nothing elsewhere; no key is listed twice. -/
theorem c05_pg_baseMap (h : PortGraph) (r : Nat) (cs : List PGCons) (k : PGKey) :
    alGet (baseMap h r cs) k =
      (if k = PGKey.root 0 ∨ ∃ c ∈ cs, k ∈ c.args then pgVal h r k else none) ∧
    ((baseMap h r cs).map (·.1)).Nodup :=
  ⟨get_baseMap h r cs k, (anchored_baseMap h r cs).nodup⟩

/-- **C05 for single-root port-graph patterns, baseline**: the reported bindings are — up to
the order of their entries — exactly the bindings induced by the embeddings. -/
theorem c05_pg_single (g : PortGraph) (root : Nat) (cs : List PGCons) (h : PortGraph)
    (fuel : Nat) (out : List PGMap)
    (hg : g.LinksOK) (hconn : pgConnected g = true) (hroot : (g.node? root).isSome = true)
    (hcs : pgConstraints g root = some cs) (hsr : pgSigMultiRoot cs = false) (hh : h.LinksOK)
    (hs : singleMatches pgDomain cs h fuel = .ok out) (m : PGMap) :
    (∃ m', m' ∈ out ∧ MapEqv m' m) ↔ ∃ φ, embedsPG g h φ = true ∧ BindingOf g root φ m := by
  rw [single_anch_iff h fuel cs (consOK_of_constraints hcs hsr) (pgConstraints_ne_nil hcs) out hs m,
    anch_iff_emb hg hconn hroot hh hcs hsr (patternKeys_nodeKeys hcs hsr) m]

/-- **Soundness of the baseline**: a reported binding is `baseMap h r cs` for a live host node
`r`, the induced node map `pgPhi g root h r` is an embedding that sends the root to `r`, and the
binding is the one it induces. -/
theorem c05_pg_sound (g : PortGraph) (root : Nat) (cs : List PGCons) (h : PortGraph)
    (fuel : Nat) (out : List PGMap)
    (hg : g.LinksOK) (hconn : pgConnected g = true) (hroot : (g.node? root).isSome = true)
    (hcs : pgConstraints g root = some cs) (hsr : pgSigMultiRoot cs = false) (hh : h.LinksOK)
    (hs : singleMatches pgDomain cs h fuel = .ok out) (m : PGMap) (hm : m ∈ out) :
    ∃ r, r ∈ h.nodesIter ∧ m = baseMap h r cs ∧ alGet m (.root 0) = some r ∧
      embedsPG g h (pgPhi g root h r) = true ∧ alGet (pgPhi g root h r) root = some r ∧
      BindingOf g root (pgPhi g root h r) m := by
  have hok := consOK_of_constraints hcs hsr
  have hne := pgConstraints_ne_nil hcs
  obtain ⟨r, h1, h2, rfl⟩ := (mem_single_iff h fuel cs hok hne out hs m).1 hm
  obtain ⟨e1, e2, e3⟩ := emb_of_anch hg hconn hroot hh hcs (patternKeys_nodeKeys hcs hsr) h1 h2
    (mapGets_baseMap h r cs hok hne)
  exact ⟨r, h1, rfl, (anchored_baseMap h r cs).root, e1, e2, e3⟩

/-- **Completeness of the baseline**: every embedding is reported, as `baseMap h r cs` for its
root image `r`, which is the binding it induces. -/
theorem c05_pg_complete (g : PortGraph) (root : Nat) (cs : List PGCons) (h : PortGraph)
    (fuel : Nat) (out : List PGMap) (hg : g.LinksOK)
    (hcs : pgConstraints g root = some cs) (hsr : pgSigMultiRoot cs = false) (hh : h.LinksOK)
    (hs : singleMatches pgDomain cs h fuel = .ok out) (φ : List (Nat × Nat)) (r : Nat)
    (hemb : embedsPG g h φ = true) (hr : alGet φ root = some r) :
    baseMap h r cs ∈ out ∧ BindingOf g root φ (baseMap h r cs) ∧
      alGet (baseMap h r cs) (.root 0) = some r := by
  have hok := consOK_of_constraints hcs hsr
  have hne := pgConstraints_ne_nil hcs
  obtain ⟨h1, h2, _, h4⟩ := anch_of_emb hg hh hcs hsr (patternKeys_nodeKeys hcs hsr) hemb hr
  exact ⟨(mem_single_iff h fuel cs hok hne out hs _).2 ⟨r, h1, h2, rfl⟩,
    (h4 _).2 (mapGets_baseMap h r cs hok hne), (anchored_baseMap h r cs).root⟩

/-- No binding is reported twice: one per root image. -/
theorem c05_pg_nodup (g : PortGraph) (root : Nat) (cs : List PGCons) (h : PortGraph) (fuel : Nat)
    (out : List PGMap) (hcs : pgConstraints g root = some cs) (hsr : pgSigMultiRoot cs = false)
    (hs : singleMatches pgDomain cs h fuel = .ok out) :
    out.Nodup ∧ (out.map fun m => alGet m (.root 0)).Nodup := by
  rw [c05_pg_exact g root cs h fuel out hcs hsr hs]
  have hnd : (h.nodesIter.filter fun r => cs.all (pgSigmaAnch h r)).Nodup :=
    List.Pairwise.filter _ h.nodesIter_nodup
  have hroot : ∀ r, alGet (baseMap h r cs) (.root 0) = some r :=
    fun r => (anchored_baseMap h r cs).root
  constructor
  · refine List.Pairwise.map _ (fun a b hab e => hab ?_) hnd
    have := hroot a
    rw [e, hroot b] at this
    exact (Option.some.inj this).symm
  · rw [List.map_map]
    refine List.Pairwise.map _ (fun a b hab e => hab ?_) hnd
    simp only [Function.comp, hroot] at e
    exact Option.some.inj e

/-- **`c02_pg_target` under link well-formedness** of pattern and host (connectedness of the
pattern is not needed for this direction): every root image is reported by the baseline. -/
theorem c02_pg_holds_wf :
    ∀ (g : PortGraph) (root : Nat) (cs : List PGCons) (h : PortGraph) (fuel : Nat)
      (out : List PGMap), g.LinksOK → h.LinksOK →
      pgConstraints g root = some cs → pgSigMultiRoot cs = false → pgConnected g = true →
      singleMatches pgDomain cs h fuel = .ok out →
        ∀ r ∈ pgRootImages g h root, ∃ m ∈ out, alGet m (.root 0) = some r := by
  intro g root cs h fuel out hg hh hcs hsr _ hs r hr
  obtain ⟨φ, hemb, hφ⟩ := mem_pgRootImages hr
  obtain ⟨h1, _, h3⟩ := c05_pg_complete g root cs h fuel out hg hcs hsr hh hs φ r hemb hφ
  exact ⟨_, h1, h3⟩

/-- Conversely, under the full pattern hypotheses, the root key of every binding the baseline
reports is a root image. -/
theorem c01_pg_baseline_rootImages (g : PortGraph) (root : Nat) (cs : List PGCons)
    (h : PortGraph) (fuel : Nat) (out : List PGMap)
    (hg : g.LinksOK) (hconn : pgConnected g = true) (hroot : (g.node? root).isSome = true)
    (hcs : pgConstraints g root = some cs) (hsr : pgSigMultiRoot cs = false) (hh : h.LinksOK)
    (hs : singleMatches pgDomain cs h fuel = .ok out) (m : PGMap) (hm : m ∈ out) :
    ∃ r φ, alGet m (.root 0) = some r ∧ embedsPG g h φ = true ∧ alGet φ root = some r := by
  obtain ⟨r, _, _, h3, h4, h5, _⟩ :=
    c05_pg_sound g root cs h fuel out hg hconn hroot hcs hsr hh hs m hm
  exact ⟨r, _, h3, h4, h5⟩

/-! ### the literal `c02_pg_target` is false -/

/-- An ill-formed host: the input port `(1, i0)` occurs in two links, from node 0 and from
node 2; node 2 has a predecessor (node 3), node 0 has none. -/
def cexHost : PortGraph :=
  ⟨[some ⟨0, 1⟩, some ⟨1, 0⟩, some ⟨1, 1⟩, some ⟨0, 1⟩],
   [((0, PGEx.o0), (1, PGEx.i0)), ((2, PGEx.o0), (1, PGEx.i0)), ((3, PGEx.o0), (2, PGEx.i0))]⟩

/-- `constraint_vec` of the path `0 → 1 → 2` rooted at its END node 2 (one line, walked against
the direction of the links). -/
def cexCs : List PGCons := (pgConstraints PGEx.gPath 2).getD []

/-- The pattern is well-formed, connected, single-root; the host is not `LinksOK`;
`3 → 2 → 1` is an embedding with root image 1 (`port_link` from an OUTPUT port finds the right
link), but the baseline reports nothing: the walk from node 1 against the links asks
`port_link` of the doubly linked INPUT port, gets node 0, and stops there. -/
theorem cex_facts :
    PGEx.gPath.LinksOK ∧ ¬ cexHost.LinksOK ∧ pgConstraints PGEx.gPath 2 = some cexCs ∧
    pgSigMultiRoot cexCs = false ∧ pgConnected PGEx.gPath = true ∧
    embedsPG PGEx.gPath cexHost [(2, 1), (1, 2), (0, 3)] = true ∧
    pgRootImages PGEx.gPath cexHost 2 = [1] ∧
    walkPathNodes cexHost 1 PGEx.i0 = [1, 0] := by
  decide

theorem cex_single : singleMatches pgDomain cexCs cexHost 20 = .ok [] := by rfl

/-- **The literal target is false** (no well-formedness hypothesis on the host). -/
theorem c02_pg_target_false : ¬ c02_pg_target := by
  intro H
  obtain ⟨_, _, h3, h4, h5, _, h7, _⟩ := cex_facts
  obtain ⟨m, hm, _⟩ := H PGEx.gPath 2 cexCs cexHost 20 [] h3 h4 h5 cex_single 1
    (by rw [h7]; exact List.mem_singleton.2 rfl)
  cases hm

/-! ## 3. C03: `ManyMatcher` versus the naive matcher -/

/-- `NaiveManyMatcher` on single-root port-graph patterns: the matches labelled `i` are — up
to the order of the entries — the bindings induced by the embeddings of the `i`-th pattern. -/
theorem c05_naive_pg (pats : List (PortGraph × Nat)) (css : List (List PGCons))
    (hcss : pats.map (fun p => pgConstraints p.1 p.2) = css.map some)
    (h : PortGraph) (fuel : Nat) (ns : List (Match PGMap))
    (hn : naiveMatches pgDomain h fuel css 0 = .ok ns)
    (i : Nat) (g : PortGraph) (root : Nat) (cs : List PGCons) (hi : pats[i]? = some (g, root))
    (hg : g.LinksOK) (hconn : pgConnected g = true) (hroot : (g.node? root).isSome = true)
    (hcs : pgConstraints g root = some cs) (hsr : pgSigMultiRoot cs = false) (hh : h.LinksOK)
    (m : PGMap) :
    (∃ m', (i, m') ∈ ns ∧ MapEqv m' m) ↔ ∃ φ, embedsPG g h φ = true ∧ BindingOf g root φ m := by
  have hci : css[i]? = some cs := by
    have := congrArg (fun l => l[i]?) hcss
    simp only [List.getElem?_map, hi, Option.map_some, hcs] at this
    cases hc : css[i]? with
    | none => rw [hc] at this; cases this
    | some cs' => rw [hc] at this; cases this; rfl
  obtain ⟨out, hs, hall⟩ := (tnaive_ids hn).2 i cs hci
  rw [← c05_pg_single g root cs h fuel out hg hconn hroot hcs hsr hh hs m]
  constructor
  · rintro ⟨m', hm', he⟩
    obtain ⟨cs', out', hc', hs', hmo⟩ := (c05_naive_ids pgDomain h fuel css ns hn i m').1 hm'
    rw [hci] at hc'
    cases hc'
    rw [hs] at hs'
    cases hs'
    exact ⟨m', hmo, he⟩
  · rintro ⟨m', hm', he⟩
    exact ⟨m', by simpa using hall m' hm', he⟩

/-- **C03 for single-root port-graph patterns, per pattern id.** A checked build of
`ManyMatcher` and `NaiveManyMatcher` report the same set of bindings for the pattern with id
`i` (up to the order of the entries of the bindings) on EVERY host: only the single-root
signature of that pattern is needed — no well-formedness of pattern or host. -/
theorem c03_pg_single (pats : List (PortGraph × Nat)) (css : List (List PGCons))
    (hcss : pats.map (fun p => pgConstraints p.1 p.2) = css.map some) (evs : List Ev)
    (fuelT fuel fuel' fuel'' : Nat) (M : Many PGKey PGPred) (h : PortGraph)
    (ms ns : List (Match PGMap))
    (hb : manyBuild (fun p : PortGraph × Nat => pgConstraints p.1 p.2) (fun _ => ([] : List PGKey))
      (fun cs => pgTree cs fuelT) pgReq fuel true pats evs = some (.ok M))
    (hok : pgProgramOK M.automaton (pats.map fun p => pgConstraints p.1 p.2) = true)
    (hf : M.findMatches pgDomain h fuel' = .ok ms)
    (hn : naiveMatches pgDomain h fuel'' css 0 = .ok ns)
    (i : Nat) (hsr : ∀ p cs, pats[i]? = some p → pgConstraints p.1 p.2 = some cs →
      pgSigMultiRoot cs = false) (m : PGMap) :
    (∃ m', (i, m') ∈ ms ∧ MapEqv m' m) ↔ (∃ m', (i, m') ∈ ns ∧ MapEqv m' m) := by
  rw [c01_c02_pg_checked_rooted pats evs fuelT fuel fuel' M h ms hb hok hf i m]
  have hci : ∀ p cs, pats[i]? = some p → pgConstraints p.1 p.2 = some cs → css[i]? = some cs := by
    intro p cs hp hc
    have := congrArg (fun l => l[i]?) hcss
    simp only [List.getElem?_map, hp, Option.map_some, hc] at this
    cases hc' : css[i]? with
    | none => rw [hc'] at this; cases this
    | some cs' => rw [hc'] at this; cases this; rfl
  constructor
  · rintro ⟨p, cs, hp, hc, hrest⟩
    obtain ⟨out, hs, hall⟩ := (tnaive_ids hn).2 i cs (hci p cs hp hc)
    obtain ⟨m', hm', he⟩ := (single_anch_iff h fuel'' cs
      (consOK_of_constraints hc (hsr p cs hp hc)) (pgConstraints_ne_nil hc) out hs m).2 hrest
    exact ⟨m', by simpa using hall m' hm', he⟩
  · rintro ⟨m', hm', he⟩
    obtain ⟨cs, out, hc, hs, hmo⟩ := (c05_naive_ids pgDomain h fuel'' css ns hn i m').1 hm'
    have hlen : (pats.map fun p => pgConstraints p.1 p.2)[i]? = some (some cs) := by
      rw [hcss, List.getElem?_map, hc]; rfl
    rw [List.getElem?_map] at hlen
    cases hp : pats[i]? with
    | none => rw [hp] at hlen; cases hlen
    | some p =>
      rw [hp] at hlen
      have hc' : pgConstraints p.1 p.2 = some cs := Option.some.inj hlen
      exact ⟨p, cs, rfl, hc', (single_anch_iff h fuel'' cs
        (consOK_of_constraints hc' (hsr p cs hp hc')) (pgConstraints_ne_nil hc') out hs m).1
        ⟨m', hmo, he⟩⟩

/-- **C03 for single-root port-graph pattern lists**: the two matchers report the same set of
`(id, binding)` up to the order of the entries of the bindings. -/
theorem c03_pg_all (pats : List (PortGraph × Nat)) (css : List (List PGCons))
    (hcss : pats.map (fun p => pgConstraints p.1 p.2) = css.map some) (evs : List Ev)
    (fuelT fuel fuel' fuel'' : Nat) (M : Many PGKey PGPred) (h : PortGraph)
    (ms ns : List (Match PGMap))
    (hb : manyBuild (fun p : PortGraph × Nat => pgConstraints p.1 p.2) (fun _ => ([] : List PGKey))
      (fun cs => pgTree cs fuelT) pgReq fuel true pats evs = some (.ok M))
    (hok : pgProgramOK M.automaton (pats.map fun p => pgConstraints p.1 p.2) = true)
    (hf : M.findMatches pgDomain h fuel' = .ok ms)
    (hn : naiveMatches pgDomain h fuel'' css 0 = .ok ns)
    (hsr : ∀ p ∈ pats, ∀ cs, pgConstraints p.1 p.2 = some cs → pgSigMultiRoot cs = false) :
    ∀ (i : Nat) (m : PGMap),
      (∃ m', (i, m') ∈ ms ∧ MapEqv m' m) ↔ (∃ m', (i, m') ∈ ns ∧ MapEqv m' m) :=
  fun i m => c03_pg_single pats css hcss evs fuelT fuel fuel' fuel'' M h ms ns hb hok hf hn i
    (fun p cs hp hc => hsr p (List.mem_of_getElem? hp) cs hc) m

/-! ## 4. C11 -/

theorem pair_map_eq (ρ : Nat → Nat) :
    (fun (x : Nat × Nat) => match x with | (n, v) => (n, ρ v)) = fun x => (x.1, ρ x.2) := by
  funext ⟨n, v⟩
  rfl

/-- **C11 self-match, `ManyMatcher`**: run on the pattern graph itself, pattern `i` is reported
with the identity binding (every node key bound to its own node; `root 0` to `root`). -/
theorem c11_many_pg_self (pats : List (PortGraph × Nat)) (evs : List Ev)
    (fuelT fuel fuel' : Nat) (M : Many PGKey PGPred) (ms : List (Match PGMap))
    (i : Nat) (g : PortGraph) (root : Nat) (cs : List PGCons) (hi : pats[i]? = some (g, root))
    (hg : g.LinksOK) (hroot : (g.node? root).isSome = true)
    (hcs : pgConstraints g root = some cs) (hsr : pgSigMultiRoot cs = false)
    (hb : manyBuild (fun p : PortGraph × Nat => pgConstraints p.1 p.2) (fun _ => ([] : List PGKey))
      (fun cs => pgTree cs fuelT) pgReq fuel true pats evs = some (.ok M))
    (hok : pgProgramOK M.automaton (pats.map fun p => pgConstraints p.1 p.2) = true)
    (hf : M.findMatches pgDomain g fuel' = .ok ms) :
    ∃ m, (i, m) ∈ ms ∧ BindingOf g root (g.nodesIter.map fun n => (n, n)) m ∧
      alGet m (.root 0) = some root :=
  c02_pg_single pats evs fuelT fuel fuel' M g ms hb hok hf i g root cs hi hg hcs hsr hg _ root
    (c11_embedsPG_self g hg) (alGet_diag_mem ((g.mem_nodesIter root).2 hroot))

/-- **C11 host extension, `ManyMatcher`**: a binding reported on `h` is reported, transported
along `ρ`, on every well-formed extension `h'` of `h` (relabelled nodes, more nodes, more ports,
more links) — by any checked build of the same pattern list. -/
theorem c11_many_pg_extend (pats : List (PortGraph × Nat)) (evs evs' : List Ev)
    (fuelT fuel fuel' fuelT2 fuel2 fuel2' : Nat) (M M' : Many PGKey PGPred)
    (h h' : PortGraph) (ρ : Nat → Nat) (ms ms' : List (Match PGMap))
    (i : Nat) (g : PortGraph) (root : Nat) (cs : List PGCons) (hi : pats[i]? = some (g, root))
    (hg : g.LinksOK) (hconn : pgConnected g = true) (hroot : (g.node? root).isSome = true)
    (hcs : pgConstraints g root = some cs) (hsr : pgSigMultiRoot cs = false)
    (hh : h.LinksOK) (hh' : h'.LinksOK) (hext : Extends h h' ρ)
    (hb : manyBuild (fun p : PortGraph × Nat => pgConstraints p.1 p.2) (fun _ => ([] : List PGKey))
      (fun cs => pgTree cs fuelT) pgReq fuel true pats evs = some (.ok M))
    (hok : pgProgramOK M.automaton (pats.map fun p => pgConstraints p.1 p.2) = true)
    (hb' : manyBuild (fun p : PortGraph × Nat => pgConstraints p.1 p.2)
      (fun _ => ([] : List PGKey)) (fun cs => pgTree cs fuelT2) pgReq fuel2 true pats evs'
        = some (.ok M'))
    (hok' : pgProgramOK M'.automaton (pats.map fun p => pgConstraints p.1 p.2) = true)
    (hf : M.findMatches pgDomain h fuel' = .ok ms)
    (hf' : M'.findMatches pgDomain h' fuel2' = .ok ms')
    (m : PGMap) (hm : (i, m) ∈ ms) :
    ∃ m', (i, m') ∈ ms' ∧ ∀ k, alGet m' k = (alGet m k).map ρ := by
  obtain ⟨⟨φ, hemb, hbind⟩, _⟩ := c01_pg_single pats evs fuelT fuel fuel' M h ms hb hok hf i g
    root cs hi hg hconn hroot hcs hsr hh m hm
  have hemb' := c11_embedsPG_extend g h h' φ ρ hemb hext hh'
  rw [pair_map_eq] at hemb'
  obtain ⟨m', hm', hbind'⟩ := c02_pg_single_live pats evs' fuelT2 fuel2 fuel2' M' h' ms' hb' hok'
    hf' i g root cs hi hg hroot hcs hsr hh' _ hemb'
  exact ⟨m', hm', hbind.map ρ hbind'⟩

/-- **C11 self-match, baseline.** -/
theorem c11_single_pg_self (g : PortGraph) (root : Nat) (cs : List PGCons) (fuel : Nat)
    (out : List PGMap) (hg : g.LinksOK) (hroot : (g.node? root).isSome = true)
    (hcs : pgConstraints g root = some cs) (hsr : pgSigMultiRoot cs = false)
    (hs : singleMatches pgDomain cs g fuel = .ok out) :
    ∃ m, m ∈ out ∧ BindingOf g root (g.nodesIter.map fun n => (n, n)) m ∧
      alGet m (.root 0) = some root :=
  ⟨_, c05_pg_complete g root cs g fuel out hg hcs hsr hg hs _ root (c11_embedsPG_self g hg)
    (alGet_diag_mem ((g.mem_nodesIter root).2 hroot))⟩

/-- **C11 host extension, baseline**: here the transported binding is reported literally,
`baseMap h' (ρ r) cs` for `baseMap h r cs`. -/
theorem c11_single_pg_extend (g : PortGraph) (root : Nat) (cs : List PGCons) (fuel fuel2 : Nat)
    (h h' : PortGraph) (ρ : Nat → Nat) (out out' : List PGMap)
    (hg : g.LinksOK) (hconn : pgConnected g = true) (hroot : (g.node? root).isSome = true)
    (hcs : pgConstraints g root = some cs) (hsr : pgSigMultiRoot cs = false)
    (hh : h.LinksOK) (hh' : h'.LinksOK) (hext : Extends h h' ρ)
    (hs : singleMatches pgDomain cs h fuel = .ok out)
    (hs' : singleMatches pgDomain cs h' fuel2 = .ok out') (m : PGMap) (hm : m ∈ out) :
    ∃ r, m = baseMap h r cs ∧ baseMap h' (ρ r) cs ∈ out' ∧
      ∀ k, alGet (baseMap h' (ρ r) cs) k = (alGet m k).map ρ := by
  obtain ⟨r, _, rfl, _, hemb, hφ, hbind⟩ :=
    c05_pg_sound g root cs h fuel out hg hconn hroot hcs hsr hh hs m hm
  have hemb' := c11_embedsPG_extend g h h' _ ρ hemb hext hh'
  rw [pair_map_eq] at hemb'
  have hφ' : alGet ((pgPhi g root h r).map fun x => (x.1, ρ x.2)) root = some (ρ r) := by
    rw [alGet_map_snd, hφ]; rfl
  obtain ⟨h1, h2, _⟩ := c05_pg_complete g root cs h' fuel2 out' hg hcs hsr hh' hs' _ (ρ r) hemb' hφ'
  exact ⟨r, rfl, h1, hbind.map ρ h2⟩

/-! ## Non-vacuity -/

open PGEx

/-- The real build `exPG_built` (`Props/TRunPG.lean`: the edge pattern and the path pattern,
both rooted at node 0, under a log that fuses and determinises) passes the check; on the path
host `gPath` the conclusion of `c01_c02_pg_single` holds for the path pattern (id 1), … -/
example : ∀ m, (∃ m', (1, m') ∈ [((0 : Nat), ([(.root 0, 0), (k1, 1)] : PGMap)),
      (0, [(.root 0, 1), (k1, 2)]), (1, [(.root 0, 0), (k1, 1), (k2, 2)])] ∧ MapEqv m' m) ↔
    ∃ φ, embedsPG gPath gPath φ = true ∧ BindingOf gPath 0 φ m := by
  obtain ⟨M, hb, _, hok, hf⟩ := exPG_built
  exact c01_c02_pg_single _ _ _ _ _ M _ _ hb hok hf 1 gPath 0 csPath (by decide) (by decide)
    (by decide) (by decide) (by decide) (by decide) (by decide)

/-- … its reported binding comes from an embedding (`c01_pg_single`), … -/
example : ∃ φ, embedsPG gPath gPath φ = true ∧
    BindingOf gPath 0 φ [(.root 0, 0), (k1, 1), (k2, 2)] := by
  obtain ⟨M, hb, _, hok, hf⟩ := exPG_built
  exact (c01_pg_single _ _ _ _ _ M _ _ hb hok hf 1 gPath 0 csPath (by decide) (by decide)
    (by decide) (by decide) (by decide) (by decide) (by decide) _ (by decide)).1

/-- … the identity embedding is reported (`c11_many_pg_self`; the host is the pattern), and
the edge pattern (id 0) is reported at both of its root images (`c02_pg_single_rootImages`). -/
example : ∃ m, (1, m) ∈ [((0 : Nat), ([(.root 0, 0), (k1, 1)] : PGMap)),
      (0, [(.root 0, 1), (k1, 2)]), (1, [(.root 0, 0), (k1, 1), (k2, 2)])] ∧
    BindingOf gPath 0 (gPath.nodesIter.map fun n => (n, n)) m ∧ alGet m (.root 0) = some 0 := by
  obtain ⟨M, hb, _, hok, hf⟩ := exPG_built
  exact c11_many_pg_self _ _ _ _ _ M _ 1 gPath 0 csPath (by decide) (by decide) (by decide)
    (by decide) (by decide) hb hok hf

example : pgRootImages exPGEdge gPath 0 = [0, 1] ∧
    ∀ r ∈ pgRootImages exPGEdge gPath 0, ∃ m, (0, m) ∈ [((0 : Nat), ([(.root 0, 0), (k1, 1)] : PGMap)),
      (0, [(.root 0, 1), (k1, 2)]), (1, [(.root 0, 0), (k1, 1), (k2, 2)])] ∧
      alGet m (.root 0) = some r := by
  obtain ⟨M, hb, _, hok, hf⟩ := exPG_built
  exact ⟨by decide, c02_pg_single_rootImages _ _ _ _ _ M _ _ hb hok hf 0 exPGEdge 0
    ((pgConstraints exPGEdge 0).getD []) (by decide) (by decide) (by decide) (by decide)
    (by decide)⟩

/-- The baseline on the path pattern in `gPathNode` (the path plus an isolated node): succeeds
by `c05_pg_total` (fuel `4 * 4 + 4`), and reports the one embedding. -/
example : singleMatches pgDomain csPath gPathNode 20 = .ok [[(.root 0, 0), (k1, 1), (k2, 2)]] :=
  (c05_pg_total gPath 0 csPath gPathNode 20 (by decide) (by decide) (by decide)).trans (congrArg Except.ok (by decide))
example : singleMatches pgDomain csPath gPathNode 20 = .ok [[(.root 0, 0), (k1, 1), (k2, 2)]] := by
  rfl

example : ∃ φ, embedsPG gPath gPathNode φ = true ∧
    BindingOf gPath 0 φ [(.root 0, 0), (k1, 1), (k2, 2)] :=
  (c05_pg_single gPath 0 csPath gPathNode 20 _ (by decide) (by decide) (by decide) (by decide)
    (by decide) (by decide) (by rfl) _).1 ⟨_, List.mem_singleton.2 rfl, fun _ => rfl⟩

/-- Host extension (`c11_single_pg_extend`): from `gPath` to the triangle `gCyc` (more ports,
one more link), identity relabelling; and to the reversed path `gPathRev` (relabelling
`n ↦ 2 - n`), where the reported binding is the transported one. -/
example : ∃ r, ([(.root 0, 0), (k1, 1), (k2, 2)] : PGMap) = baseMap gPath r csPath ∧
    baseMap gPathRev (2 - r) csPath ∈ [([(.root 0, 2), (k1, 1), (k2, 0)] : PGMap)] ∧
    ∀ k, alGet (baseMap gPathRev (2 - r) csPath) k =
      (alGet ([(.root 0, 0), (k1, 1), (k2, 2)] : PGMap) k).map (fun n => 2 - n) :=
  c11_single_pg_extend gPath 0 csPath 20 20 gPath gPathRev (fun n => 2 - n) _ _ (by decide)
    (by decide) (by decide) (by decide) (by decide) (by decide) (by decide)
    (extends_of_chk (by decide)) (by rfl) (by rfl) _ (List.mem_singleton.2 rfl)

/-- C03 on the real build: the naive matcher on the same two patterns reports the same set. -/
example : ∀ i m, (∃ m', (i, m') ∈ [((0 : Nat), ([(.root 0, 0), (k1, 1)] : PGMap)),
      (0, [(.root 0, 1), (k1, 2)]), (1, [(.root 0, 0), (k1, 1), (k2, 2)])] ∧ MapEqv m' m) ↔
    (∃ m', (i, m') ∈ [((0 : Nat), ([(.root 0, 0), (k1, 1)] : PGMap)),
      (0, [(.root 0, 1), (k1, 2)]), (1, [(.root 0, 0), (k1, 1), (k2, 2)])] ∧ MapEqv m' m) := by
  obtain ⟨M, hb, _, hok, hf⟩ := exPG_built
  exact c03_pg_all exPGPatterns [(pgConstraints exPGEdge 0).getD [], csPath] (by decide) _ _ _ _ 30
    M gPath _ _ hb hok hf (by rfl) (by decide)

end Pm
