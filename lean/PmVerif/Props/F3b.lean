/-
Props/F3b.lean — known finding F3b at a concrete witness, as checked facts about the model
(which reproduces the pinned secondary-root search; the harness runs the same witness on the
real code as a fixed case of stage `e2e.pg`, where it is reported as KNOWN-FINDING pg:multiRoot).

The pattern: nodes 0:(2 in, 0 out), 1:(2,1), 2:(1,2), 3:(0,2); links 1.out0→0.in0, 2.out0→0.in1,
3.out0→1.in0; root 3. Its constraint vector opens a second root (signature `pg:multiRoot`); the
identity embeds the graph in itself with root image 3; yet the matcher reports nothing on the
pattern itself: properties C02 and C11 (self-match) fail at this input, for the baseline and —
by `c03`-equivalence on the real code — for the automaton as well.
-/
import PmVerif.Model.ManyMatcher
import PmVerif.Spec.PGSpec
namespace Pm

def f3bG : PortGraph :=
  ⟨[some ⟨2, 0⟩, some ⟨2, 1⟩, some ⟨1, 2⟩, some ⟨0, 2⟩],
   [((1, ⟨.out, 0⟩), (0, ⟨.inc, 0⟩)), ((2, ⟨.out, 0⟩), (0, ⟨.inc, 1⟩)), ((3, ⟨.out, 0⟩), (1, ⟨.inc, 0⟩))]⟩

/-- The witness carries the signature of the finding. -/
theorem f3b_witness_signature : (pgConstraints f3bG 3).map pgSigMultiRoot = some true := by decide

/-- The pattern is connected and embeds in itself with root image 3 (brute-force search). -/
theorem f3b_witness_embeds : pgConnected f3bG = true ∧ pgRootImages f3bG f3bG 3 = [3] := by decide

/-- …but the model of the pinned code reports no match of the pattern on itself. -/
theorem f3b_witness_missed :
    (pgConstraints f3bG 3).map (fun cs => singleMatches pgDomain cs f3bG 64) = some (.ok []) := by
  rfl

end Pm
