/-
Props/C14.lean — property C14: the four `BindMap` implementations (generic hash/B-tree maps,
`StringPositionMap`, `MatrixPositionMap`, and the trait's default `retain_keys`).

A key successfully bound to a value the host offers is returned unchanged by `get` from then on,
`get` never returns a value for a key outside the extent of what has been bound, and a rejected
`bind` leaves the map as it was. The generic maps reject a second, different value for a key; the
position maps reject re-binding the start key and binding any key before it. `retain_keys`
preserves `get` on the listed keys, forgets every other key in the generic maps, and does not
panic on prerequisite-closed key sets whose iteration order puts the start key first.

Only property theorems and non-vacuity examples live here; proofs are in `Proofs/MapLemmas`.

Finding (reported): `c14_str_retain` / `c14_mat_retain` are *false* for orders that list the
start key twice (`c14_str_retain_dup_start_panics`); the Rust argument is a set, so the theorems
carry the hypothesis `order.count start ≤ 1` (implied by `order.Nodup`).
-/
import PmVerif.Proofs.MapLemmas
namespace Pm

/-! ### All implementations: a rejected `bind` leaves the map as it was -/

theorem c14_rejected_unchanged {K V M : Type} (O : MapOps K V M) (m : M) (k : K) (v : V)
    (e : BindErr) (h : O.bind m k v = .error e) : O.step m (.bind k v) = some m := by
  simp [MapOps.step, h]

theorem c14_accepted_step {K V M : Type} (O : MapOps K V M) (m m' : M) (k : K) (v : V)
    (h : O.bind m k v = .ok m') : O.step m (.bind k v) = some m' := by
  simp [MapOps.step, h]

/-! ### Generic maps -/

section Generic
variable {K V : Type} [DecidableEq K] [DecidableEq V]

theorem c14_generic_get_after_bind (m m' : List (K × V)) (k : K) (v : V)
    (h : alBind m k v = .ok m') : alGet m' k = some v := by
  rcases (alBind_ok_iff m m' k v).1 h with ⟨hg, rfl⟩ | ⟨hg, rfl⟩
  · exact hg
  · rw [alGet_append_of_none m _ k hg, alGet_singleton]; simp

theorem c14_generic_other_unchanged (m m' : List (K × V)) (k k' : K) (v : V)
    (h : alBind m k v = .ok m') (hk : k' ≠ k) : alGet m' k' = alGet m k' := by
  rcases (alBind_ok_iff m m' k v).1 h with ⟨_, rfl⟩ | ⟨_, rfl⟩
  · rfl
  · cases hg : alGet m k' with
    | some w => exact alGet_append_of_some m _ k' w hg
    | none =>
      rw [alGet_append_of_none m _ k' hg, alGet_singleton]
      have hne : ¬ k = k' := fun e => hk e.symm
      simp [hne]

theorem c14_generic_keeps (m m' : List (K × V)) (k k' : K) (v v' : V)
    (h : alBind m k v = .ok m') (hg : alGet m k' = some v') : alGet m' k' = some v' := by
  rcases (alBind_ok_iff m m' k v).1 h with ⟨_, rfl⟩ | ⟨_, rfl⟩
  · exact hg
  · exact alGet_append_of_some m _ k' v' hg

theorem c14_generic_conflict (m : List (K × V)) (k : K) (v v' : V)
    (hg : alGet m k = some v') (hv : v' ≠ v) : alBind m k v = .error .variableExists := by
  simp [alBind, hg, hv]

theorem c14_generic_same_value (m : List (K × V)) (k : K) (v : V)
    (hg : alGet m k = some v) : alBind m k v = .ok m := by
  simp [alBind, hg]

/-- A generic `bind` fails only with `VariableExists`, and only on a conflicting value. -/
theorem c14_generic_reject_iff (m : List (K × V)) (k : K) (v : V) (e : BindErr) :
    alBind m k v = .error e ↔ e = .variableExists ∧ ∃ v', alGet m k = some v' ∧ v' ≠ v := by
  unfold alBind
  cases hg : alGet m k with
  | none => simp
  | some w =>
    by_cases hw : w = v
    · simp [hw]
    · simp [hw]
      exact eq_comm

omit [DecidableEq V] in
theorem c14_generic_retain (m : List (K × V)) (ks : List K) (k : K) :
    alGet (alRetain m ks) k = if k ∈ ks then alGet m k else none :=
  alGet_retain m ks k

theorem c14_generic_run_total (m : List (K × V)) (ops : List (MapOp K V)) :
    ∃ m', assocMap.run m ops = some m' :=
  assoc_run_total ops m

theorem c14_generic_stable (ops : List (MapOp K V)) (m m' : List (K × V)) (k : K) (v : V)
    (hg : alGet m k = some v) (hl : ∀ order, MapOp.retain order ∈ ops → k ∈ order)
    (hr : assocMap.run m ops = some m') : alGet m' k = some v := by
  refine MapOps.run_stable assocMap k v ?_ ?_ ops m m' hl hg hr
  · intro m k' v' m1 hb hg
    exact c14_generic_keeps m m1 k' k v' v hb hg
  · intro m order m1 hret hk hg
    have e : m1 = alRetain m order := (Option.some.inj hret).symm
    show alGet m1 k = some v
    rw [e, alGet_retain]; simp [hk]; exact hg

theorem c14_generic_only_bound (ops : List (MapOp K V)) (m' : List (K × V)) (k : K) (v : V)
    (hr : assocMap.run ([] : List (K × V)) ops = some m') (hg : alGet m' k = some v) :
    MapOp.bind k v ∈ ops := by
  rcases assoc_run_only_bound k v ops [] m' hr hg with h | h
  · simp [alGet] at h
  · exact h

/-- The same from any starting map: a value read back was there at the start or was bound. -/
theorem c14_generic_only_bound_from (ops : List (MapOp K V)) (m m' : List (K × V)) (k : K) (v : V)
    (hr : assocMap.run m ops = some m') (hg : alGet m' k = some v) :
    alGet m k = some v ∨ MapOp.bind k v ∈ ops :=
  assoc_run_only_bound k v ops m m' hr hg

end Generic

/-! ### `StringPositionMap` -/

theorem c14_str_extent (m : StrPos) (k v : Nat) :
    StrPos.get m k = some v ↔ ∃ start len, m = .bound start len ∧ k < len ∧ v = start + k :=
  str_get_eq_some m k v

theorem c14_str_unbound (k : Nat) : StrPos.get .unbound k = none := rfl

theorem c14_str_get_after_bind (h : List Nat) (m m' : StrPos) (k v : Nat)
    (hv : v ∈ strOpts h k m) (hb : StrPos.bind m k v = .ok m') : StrPos.get m' k = some v := by
  cases m with
  | unbound =>
    obtain ⟨rfl, rfl⟩ := str_bind_unbound_ok k v m' hb
    simp [str_get_bound]
  | bound s l =>
    obtain ⟨hk, rfl⟩ := str_bind_bound_ok s l k v m' hb
    have hv' : v = s + k := by
      simp only [strOpts, hk, if_false] at hv
      split at hv <;> simp at hv
      exact hv
    have : k < max l (k + 1) := by omega
    simp [str_get_bound, this, hv']

theorem c14_str_keeps (m m' : StrPos) (k v k' v' : Nat) (hb : StrPos.bind m k v = .ok m')
    (hg : StrPos.get m k' = some v') : StrPos.get m' k' = some v' :=
  str_bind_keeps m m' k v k' v' hb hg

theorem c14_str_start_rejected (s l v : Nat) :
    StrPos.bind (.bound s l) 0 v = .error .variableExists := rfl

theorem c14_str_before_start (k v : Nat) (hk : k ≠ 0) :
    StrPos.bind .unbound k v = .error .invalidKey := by
  simp [StrPos.bind, hk]

/-- Along any history from the unbound map the length stays `≥ 1`, so the start key itself is
always readable. -/
theorem c14_str_len (ops : List (MapOp Nat Nat)) (start len : Nat)
    (hr : strPosMap.run .unbound ops = some (.bound start len)) :
    1 ≤ len ∧ StrPos.get (.bound start len) 0 = some start := by
  have h : StrInv (.bound start len) :=
    MapOps.run_inv strPosMap StrInv (fun m k v m' hi hb => strInv_bind m m' k v hi hb)
      (fun m order m' _ hret => (str_retain_preserves m m' order hret).1) ops .unbound _ trivial hr
  have h' : 1 ≤ len := h
  refine ⟨h', ?_⟩
  have : 0 < len := h'
  simp [str_get_bound, this]

/-- The same from any map satisfying the invariant. -/
theorem c14_str_len_from (ops : List (MapOp Nat Nat)) (m m' : StrPos)
    (hinv : ∀ s l, m = .bound s l → 1 ≤ l) (hr : strPosMap.run m ops = some m') :
    ∀ s l, m' = .bound s l → 1 ≤ l :=
  (strInv_iff m').1 <|
    MapOps.run_inv strPosMap StrInv (fun m k v m' hi hb => strInv_bind m m' k v hi hb)
      (fun m order m' _ hret => (str_retain_preserves m m' order hret).1) ops m m'
      ((strInv_iff m).2 hinv) hr

/-- `retain_keys` does not panic on a prerequisite-closed key list iterated start key first.
The hypothesis `order.count 0 ≤ 1` (the start key is listed at most once — true of every
iteration order of a set) cannot be dropped: see `c14_str_retain_dup_start_panics`. -/
theorem c14_str_retain (m : StrPos) (order : List Nat) (_hc : PrereqClosed strReq order)
    (hdup : order.count 0 ≤ 1)
    (hfirst : order = [] ∨ order.head? = some 0 ∨ ∀ k ∈ order, StrPos.get m k = none)
    (hinv : ∀ s l, m = .bound s l → 1 ≤ l) :
    ∃ m', strPosMap.retain m order = some m' ∧
      ∀ k ∈ order, StrPos.get m' k = StrPos.get m k :=
  str_retain_ok m order ((strInv_iff m).2 hinv) (count_start_le_one 0 order hdup) hfirst

/-- The duplicate-free form. -/
theorem c14_str_retain_nodup (m : StrPos) (order : List Nat) (_hc : PrereqClosed strReq order)
    (hnd : order.Nodup)
    (hfirst : order = [] ∨ order.head? = some 0 ∨ ∀ k ∈ order, StrPos.get m k = none)
    (hinv : ∀ s l, m = .bound s l → 1 ≤ l) :
    ∃ m', strPosMap.retain m order = some m' ∧
      ∀ k ∈ order, StrPos.get m' k = StrPos.get m k :=
  str_retain_ok m order ((strInv_iff m).2 hinv)
    (fun _ e => (List.nodup_cons.1 (e ▸ hnd)).1) hfirst

/-- Counterexample to the duplicate-agnostic statement: listing the start key twice panics
(the second re-bind of the start key is rejected and `unwrap`ped). -/
theorem c14_str_retain_dup_start_panics (s l : Nat) (rest : List Nat) (hl : 1 ≤ l)
    (h0 : 0 ∈ rest) : strPosMap.retain (.bound s l) (0 :: rest) = none := by
  rw [str_retain_head s l hl]
  exact str_loop_none s l hl rest 1 h0

/-- Whenever `retain_keys` does not panic — for every map and every order — it preserves `get`
on the listed bound keys. -/
theorem c14_str_retain_keeps (m m' : StrPos) (order : List Nat) (k v : Nat)
    (hret : strPosMap.retain m order = some m') (hk : k ∈ order)
    (hg : StrPos.get m k = some v) : StrPos.get m' k = some v :=
  (str_retain_preserves m m' order hret).2 k hk v hg

theorem c14_str_retain_order_irrelevant (m : StrPos) (o1 o2 : List Nat) (hp : o1.Perm o2)
    (h1 : o1.head? = some 0) (h2 : o2.head? = some 0) :
    strPosMap.retain m o1 = strPosMap.retain m o2 := by
  cases o1 with
  | nil => simp at h1
  | cons a r1 =>
    cases o2 with
    | nil => simp at h2
    | cons b r2 =>
      simp only [List.head?_cons, Option.some.injEq] at h1 h2
      subst h1; subst h2
      exact str_retain_mem_congr m r1 r2 (fun k => (List.Perm.cons_inv hp).mem_iff)

theorem c14_str_retain_bad_order (m : StrPos) (order rest : List Nat) (k : Nat)
    (ho : order = k :: rest) (hk : k ≠ 0) (hg : (StrPos.get m k).isSome) :
    strPosMap.retain m order = none := by
  subst ho
  obtain ⟨v, hv⟩ := Option.isSome_iff_exists.1 hg
  rw [strPosMap_retain]
  exact retainDefault_cons_err strGetP StrPos.bind m .unbound k v .invalidKey rest
    (by simp [strGetP, hv]) (by simp [StrPos.bind, hk])

theorem c14_str_stable (ops : List (MapOp Nat Nat)) (m m' : StrPos) (k v : Nat)
    (hg : StrPos.get m k = some v) (hl : ∀ order, MapOp.retain order ∈ ops → k ∈ order)
    (hr : strPosMap.run m ops = some m') : StrPos.get m' k = some v :=
  MapOps.run_stable strPosMap k v
    (fun m k' v' m1 hb hg => str_bind_keeps m m1 k' v' k v hb hg)
    (fun m order m1 hret hk hg => (str_retain_preserves m m1 order hret).2 k hk v hg)
    ops m m' hl hg hr

/-! ### `MatrixPositionMap` -/

theorem c14_mat_extent (m : MatPos) (k : Int × Int) (v : Nat × Nat) :
    m.getP k = some (some v) ↔
      ∃ sr sc minr minc maxr maxc, m = .bound sr sc minr minc maxr maxc ∧
        (minr ≤ k.1 ∧ k.1 ≤ maxr ∧ minc ≤ k.2 ∧ k.2 ≤ maxc) ∧
        0 ≤ (sr : Int) + k.1 ∧ 0 ≤ (sc : Int) + k.2 ∧
        (v.1 : Int) = (sr : Int) + k.1 ∧ (v.2 : Int) = (sc : Int) + k.2 :=
  mat_getP_eq_some m k v

/-- `MatPos.get` returns a value exactly when `getP` does (a panic reads as "unbound"). -/
theorem c14_mat_get_iff (m : MatPos) (k : Int × Int) (v : Nat × Nat) :
    MatPos.get m k = some v ↔ m.getP k = some (some v) :=
  mat_get_eq_some m k v

theorem c14_mat_unbound (k : Int × Int) :
    MatPos.getP .unbound k = some none ∧ MatPos.get .unbound k = none := ⟨rfl, rfl⟩

/-- (`MatInv m` is not needed for this one.) -/
theorem c14_mat_get_after_bind (h : MatHost) (m m' : MatPos) (k : Int × Int) (v : Nat × Nat)
    (hv : v ∈ matOpts h k m) (hb : MatPos.bind m k v = .ok m') :
    m'.getP k = some (some v) ∧ MatPos.get m' k = some v := by
  have key : m'.getP k = some (some v) := by
    cases m with
    | unbound =>
      obtain ⟨rfl, rfl⟩ := mat_bind_unbound_ok k v m' hb
      refine (mat_getP_eq_some _ _ v).2 ⟨v.1, v.2, 0, 0, 0, 0, rfl, ?_, ?_, ?_, ?_, ?_⟩
      · exact ⟨Int.le_refl _, Int.le_refl _, Int.le_refl _, Int.le_refl _⟩
      all_goals simp
    | bound sr sc a b c d =>
      obtain ⟨_, rfl⟩ := mat_bind_bound_ok sr sc a b c d k v m' hb
      obtain ⟨_, h1, h2⟩ := mat_opts_bound h k v sr sc a b c d hv
      exact mat_getP_in_some _ _ _ _ _ _ k v.1 v.2
        ⟨by omega, by omega, by omega, by omega⟩ h1 h2
  exact ⟨key, (mat_get_eq_some m' k v).2 key⟩

/-- (`MatInv m` is not needed for this one; it holds for `getP`, hence for `get`.) -/
theorem c14_mat_keeps (m m' : MatPos) (k k' : Int × Int) (v v' : Nat × Nat)
    (hb : MatPos.bind m k v = .ok m') (hg : MatPos.get m k' = some v') :
    MatPos.get m' k' = some v' :=
  (mat_get_eq_some m' k' v').2
    (mat_bind_keepsP m m' k k' v v' hb ((mat_get_eq_some m k' v').1 hg))

theorem c14_mat_start_rejected (sr sc : Nat) (minr minc maxr maxc : Int) (v : Nat × Nat) :
    MatPos.bind (.bound sr sc minr minc maxr maxc) (0, 0) v = .error .variableExists :=
  mat_bind_start_bound sr sc minr minc maxr maxc v

theorem c14_mat_before_start (k : Int × Int) (v : Nat × Nat) (hk : k ≠ (0, 0)) :
    MatPos.bind .unbound k v = .error .invalidKey := by
  obtain ⟨kr, kc⟩ := k
  obtain ⟨vr, vc⟩ := v
  have : ¬ (kr = 0 ∧ kc = 0) := fun ⟨e1, e2⟩ => hk (by rw [e1, e2])
  simp only [MatPos.bind, this, if_false]

theorem c14_mat_inv_bind (h : MatHost) (m m' : MatPos) (k : Int × Int) (v : Nat × Nat)
    (hi : MatInv m) (hv : v ∈ matOpts h k m) (hb : MatPos.bind m k v = .ok m') : MatInv m' := by
  cases m with
  | unbound =>
    obtain ⟨_, rfl⟩ := mat_bind_unbound_ok k v m' hb
    exact ⟨Int.le_refl _, Int.le_refl _, Int.le_refl _, Int.le_refl _, by omega, by omega⟩
  | bound sr sc a b c d =>
    obtain ⟨_, rfl⟩ := mat_bind_bound_ok sr sc a b c d k v m' hb
    obtain ⟨_, h1, h2⟩ := mat_opts_bound h k v sr sc a b c d hv
    obtain ⟨r1, _⟩ := (addSigned_eq_some _ _ _).1 h1
    obtain ⟨r2, _⟩ := (addSigned_eq_some _ _ _).1 h2
    obtain ⟨i1, i2, i3, i4, i5, i6⟩ := hi
    exact ⟨by omega, by omega, by omega, by omega, by omega, by omega⟩

theorem c14_mat_get_no_panic (m : MatPos) (k : Int × Int) (hi : MatInv m) : (m.getP k).isSome :=
  mat_getP_isSome m hi k

/-- `retain_keys` does not panic on a prerequisite-closed key list iterated start key first,
preserves `get` (panic-aware and collapsed) on the listed keys, and re-establishes `MatInv`.
As for strings, `order.count (0,0) ≤ 1` cannot be dropped. -/
theorem c14_mat_retain (m : MatPos) (order : List (Int × Int))
    (_hc : PrereqClosed matReq order) (hdup : order.count (0, 0) ≤ 1)
    (hfirst : order = [] ∨ order.head? = some (0, 0) ∨ ∀ k ∈ order, MatPos.get m k = none)
    (hinv : MatInv m) :
    ∃ m', matPosMap.retain m order = some m' ∧ MatInv m' ∧
      ∀ k ∈ order, m'.getP k = m.getP k ∧ MatPos.get m' k = MatPos.get m k := by
  obtain ⟨m', h1, h2, h3⟩ :=
    mat_retain_ok m order hinv (count_start_le_one (0, 0) order hdup) hfirst
  exact ⟨m', h1, h2, fun k hk => ⟨h3 k hk, mat_get_of_getP_eq m m' k (h3 k hk)⟩⟩

theorem c14_mat_retain_nodup (m : MatPos) (order : List (Int × Int))
    (_hc : PrereqClosed matReq order) (hnd : order.Nodup)
    (hfirst : order = [] ∨ order.head? = some (0, 0) ∨ ∀ k ∈ order, MatPos.get m k = none)
    (hinv : MatInv m) :
    ∃ m', matPosMap.retain m order = some m' ∧ MatInv m' ∧
      ∀ k ∈ order, m'.getP k = m.getP k ∧ MatPos.get m' k = MatPos.get m k := by
  obtain ⟨m', h1, h2, h3⟩ :=
    mat_retain_ok m order hinv (fun _ e => (List.nodup_cons.1 (e ▸ hnd)).1) hfirst
  exact ⟨m', h1, h2, fun k hk => ⟨h3 k hk, mat_get_of_getP_eq m m' k (h3 k hk)⟩⟩

theorem c14_mat_retain_bad_order (m : MatPos) (order rest : List (Int × Int)) (k : Int × Int)
    (ho : order = k :: rest) (hk : k ≠ (0, 0)) (hg : (MatPos.get m k).isSome) :
    matPosMap.retain m order = none := by
  subst ho
  obtain ⟨v, hv⟩ := Option.isSome_iff_exists.1 hg
  rw [matPosMap_retain]
  exact retainDefault_cons_err MatPos.getP MatPos.bind m .unbound k v .invalidKey rest
    ((mat_get_eq_some m k v).1 hv) (c14_mat_before_start k v hk)

/-- Whenever `retain_keys` does not panic — for every map and every order — it preserves `get`
on the listed bound keys. -/
theorem c14_mat_retain_keeps (m m' : MatPos) (order : List (Int × Int)) (k : Int × Int)
    (v : Nat × Nat) (hret : matPosMap.retain m order = some m') (hk : k ∈ order)
    (hg : MatPos.get m k = some v) : MatPos.get m' k = some v :=
  mat_retain_preserves m m' order hret k hk v hg

theorem c14_mat_stable (ops : List (MapOp (Int × Int) (Nat × Nat))) (m m' : MatPos)
    (k : Int × Int) (v : Nat × Nat) (hg : MatPos.get m k = some v)
    (hl : ∀ order, MapOp.retain order ∈ ops → k ∈ order)
    (hr : matPosMap.run m ops = some m') : MatPos.get m' k = some v :=
  MapOps.run_stable matPosMap k v
    (fun m k' v' m1 hb hg => c14_mat_keeps m m1 k' k v' v hb hg)
    (fun m order m1 hret hk hg => mat_retain_preserves m m1 order hret k hk v hg)
    ops m m' hl hg hr

/-! ### Non-vacuity -/

/-- A generic history with an accepted bind, a rejected one and a retain; key `1` satisfies the
hypotheses of `c14_generic_stable`. -/
example : assocMap.run ([] : List (Nat × Nat))
    [.bind 1 10, .bind 2 20, .bind 1 11, .retain [3, 1]] = some [(1, 10)] := by decide

/-- The hypotheses of `c14_str_retain` hold on a map of extent 4 reached by a history, with a
listed key (`7`) that is not bound. -/
example : strPosMap.run .unbound [.bind 0 5, .bind 3 8] = some (.bound 5 4) ∧
    PrereqClosed strReq [0, 3, 7] ∧ [0, 3, 7].count 0 ≤ 1 ∧ [0, 3, 7].head? = some 0 ∧
    strPosMap.retain (.bound 5 4) [0, 3, 7] = some (.bound 5 4) ∧
    strPosMap.retain (.bound 5 4) [3, 0, 7] = none ∧
    strPosMap.retain (.bound 5 4) [0, 3, 0] = none := by
  refine ⟨by decide, ?_, by decide, rfl, by decide, by decide, by decide⟩
  unfold PrereqClosed; decide

/-- The hypotheses of `c14_mat_retain` and `c14_mat_get_after_bind` hold on a concrete map with
negative offsets. -/
example : MatInv (.bound 2 3 (-1) (-2) 1 0) ∧
    PrereqClosed matReq [(0, 0), (-1, -2), (5, 5)] ∧
    matPosMap.retain (.bound 2 3 (-1) (-2) 1 0) [(0, 0), (-1, -2), (5, 5)]
      = some (.bound 2 3 (-1) (-2) 0 0) ∧
    matPosMap.retain (.bound 2 3 (-1) (-2) 1 0) [(-1, -2), (0, 0)] = none ∧
    (1, 2) ∈ matOpts [[1, 2, 3], [4, 5, 6], [7, 8, 9]] (0, -1) (.bound 1 3 0 0 0 0) ∧
    MatPos.bind (.bound 1 3 0 0 0 0) (0, -1) (1, 2) = .ok (.bound 1 3 0 (-1) 0 0) := by
  refine ⟨by unfold MatInv; decide, by unfold PrereqClosed; decide, by decide, by decide,
    by decide, rfl⟩

end Pm
