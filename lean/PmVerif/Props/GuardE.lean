/-
Props/GuardE.lean — GUARD E ALWAYS HOLDS for the flat string/matrix decomposition `charTree`
(namespace `Pm.GE`; proofs in `Proofs/GuardE*.lean`).

RESULT (A).  `guardE_always`:
    buildTL (charTree lt) req fuel inputs evs = .ok A → buildTG (charTree lt) req fuel inputs evs = .ok A
for EVERY key order `lt`, indexing scheme `req`, builder inputs (ids may repeat, constraints need
not be arity-correct) and event log.  So on a log the Rust loop can produce, guard E of
`TBL.makeDetE` never fires, `guardE_ok` is always true (`guardE_ok_always`), and the theorems
that were conditional on it hold for every lenient disciplined build:
`buildTL_acc_charTree` (T-BUILD for `buildTL`, every truth assignment) and
`c01_c02_string_lenient_always` (strings end to end, still modulo the per-program check
`strProgramOK`).  `guardE_always_flat`: the same for any decomposition that is flat
(`C07.FlatTreeHyp`), keeps a single constraint (`SingleKept`) and is faithful (`TreeOK`).
No `sorry`; axioms propext / Classical.choice / Quot.sound only.  No counterexample exists.

THE INVARIANT (`Proofs/GuardEInv.lean`), on transitions as triples (source, target, constraint);
`E` = list of emitted ids:
    Poor x   — x has no fallback transition and at most one (target, constraint) pair;
    Chain x  — every state reachable from x (x included) is poor: a raw trie chain;
    NodeOK p — p has no fallback transition, no CHILD of p has one, every GRANDCHILD of p is a chain;
    INV a E  — NodeOK p for every p whose id is NOT in E.
Nothing is required of a state whose id has been emitted — in particular nothing of a zombie (a
fresh state that got the id of an emitted, since removed state and is therefore never emitted,
`buildTL_topo_nodup`) — but the clauses for a pending p speak about ALL children of p, zombies
included.  That is why id reuse is harmless: whatever a later clone of a zombie can see below the
zombie, its not-yet-emitted parent already sees.  `INV` at the emission of `s` says that no child
of `s` has a fallback transition; this survives `make_constraints_unique` and
`insert_constraint_tree`, and at `make_det(s)` both the constraint children and the fail state are
children of `s`, so `badDetChild` is false (`Proofs/GuardECore.lean`, `guardE_of_c1G`: guard E
from the decidable emission-time condition c1G = "c1D, or no child of `s` has a fallback
transition", for every domain).
Why the observed deterministic children of zombies with a pending parent are always raw: they are
grandchildren of a pending state, hence chains; a chain state has one constraint, `charTree` keeps
it (`SingleKept`), no fail state is created, it stays a chain.  A deterministic state WITH a
fallback transition can sit under a zombie (`Ex4`), but then every ancestor of the zombie has been
emitted.

PROOF, step by step (each for every event log):
  * initially            `inv_addPatterns`            (GuardEInit: every non-root state of the trie
                                                       has at most one transition, nothing enters the root)
  * make_constraints_unique `makeConstraintsUnique_keepsJ` (GuardEFuse: the fused child gets the
                                                       transitions of children of `s`, so its children have no
                                                       fallback and its grandchildren are chains, whatever its id)
  * insert_constraint_tree `tree_keepsJ`, `treeKeeps_charTree` (GuardETree, on `C07.FlatCtx`: the fail
                                                       state gets transitions to children of `s`)
  * make_det (unguarded)  `detKeepsJ`                 (GuardEDet, via `C08.makeDetL_total`: a target gets the
                                                       transitions of a child of `s` and of the fail state)
  * merges                `doMerge_INV`               (GuardEMerge: the survivor and the removed state have
                                                       the same tuple, hence the same children — this is the step
                                                       where a zombie acquires a pending parent)
  * main loop             `iteration_keepsINV`, `mainLoop_imp_C`, `buildTL_imp_buildTLC_of` (GuardELoop),
    with `Inv` and acyclicity (`C08A`, needed to exclude `s` below one of its own children).
  The inside-iteration invariant `JInv` treats `s` separately: its children have no fallback
  transition, the children of its constraint children are chains, the fail state looks like a
  pending state, and (c1T) all parents of `s` are in `E`.

OTHER FACTS.
  * `guardE_of_c1G`, `buildTL_acc_c1G`, `c1D_imp_c1G` (`buildTD ⊑ buildTLC ⊑ buildTG ⊑ buildTL`):
    generic in the domain; c1G is a decidable per-log check weaker than c1D.  For NON-flat
    decompositions (port graphs) guard E is still open; c1G_ok / guardE_ok remain per-log checks.
  * `buildTL_topo_nodup` (`zombie_never_emitted`): the `Topo` ids of an accepted log are pairwise
    different, so a zombie is never normalised and survives to the final automaton.
  * Checked examples (`by rfl`, instrumented replay `zReplay` of Proofs/GuardECheck.lean):
    `Ex.zombie_report` — on `TBL.Ex` the only zombie is 16, its children 13 and 3 are
    deterministic raw states; `Ex.c1G_holds`.  `Ex4.zombie_report` — a log whose zombie 5 has a
    deterministic child WITH a fallback transition (state 10); all parents of the zombie had been
    emitted; `Ex4.strict_holds`, `Ex4.c1G_holds`.

TESTED before proving (scratch/GeS: compiled random generator of disciplined lenient logs with
exact zombie tracking; strings `charTree natLt`/`strReq`, 2–10 patterns of length ≤ 8 over 2–3
letters and 2–3 variables, and matrix-style constraint sets (holes, a self-equality for every
unreferenced variable cell; keys flattened row-major); random admissible emission orders biased
towards children of zombies, random heuristic answers, random sibling merges with random survivor
biased towards removing an emitted state).  ≈ 17 million logs, ≈ 0.6 million of them by splitting
(30 continuations from each of ≈ 20 000 states in which a deterministic state with a fallback
transition sits under a zombie): guard E and c1G held on all of them; the invariant `INV` was
checked at the iteration boundaries of ≈ 5.5 million of them and, in the `JInv` form, after every
sub-step of ≈ 3.7 million (1.5 million matrix-style): no violation.  c1D fails on ≈ 1 log in
2 400; a deterministic state with a fallback transition under a zombie occurs on ≈ 1 log in 50
with this (biased) generator, always under a zombie all of whose ancestors had been emitted.
-/
import PmVerif.Proofs.GuardEMain
import PmVerif.Proofs.GuardETree
import PmVerif.Proofs.GuardEDet
import PmVerif.Proofs.GuardEInit
import PmVerif.Proofs.GuardEZombie
import PmVerif.Proofs.GuardECheck
import PmVerif.Props.TBuildLCore
import PmVerif.Props.TBuildLStr
import PmVerif.Props.C03
namespace Pm
namespace GE
open Automaton TBL
variable {K P : Type} [DecidableEq K] [DecidableEq P]

/-- The decidable per-log check: c1G holds at every emission of the lenient disciplined replay. -/
def c1G_ok (toTree : List (Constraint K P) → Option (CTree (Constraint K P))) (req : K → List K)
    (fuel : Nat) (patterns : List (Nat × List (Constraint K P) × List K)) (evs : List Ev) : Bool :=
  match buildTLC toTree req fuel patterns evs with
  | .ok _ => true
  | .error _ => false

/-- `buildTLC` only adds a check to `buildTL`. -/
theorem buildTLC_imp_buildTL {σ : Constraint K P → Bool}
    {toTree : List (Constraint K P) → Option (CTree (Constraint K P))} (hT : TreeOK toTree σ)
    {req : K → List K} {fuel : Nat} {patterns : List (Nat × List (Constraint K P) × List K)}
    {evs : List Ev} {A : Automaton K P}
    (h : buildTLC toTree req fuel patterns evs = .ok A) :
    buildTL toTree req fuel patterns evs = .ok A :=
  buildTG_imp_buildTL toTree req fuel patterns evs A (buildTLC_imp_buildTG hT h)

/-- **Guard E from the emission-time condition c1G** (any domain): a log of the Rust loop on which
`c1G_ok` passes is accepted by the replay with guard E, with the same automaton. -/
theorem guardE_of_c1G {σ : Constraint K P → Bool}
    {toTree : List (Constraint K P) → Option (CTree (Constraint K P))} (hT : TreeOK toTree σ)
    {req : K → List K} {fuel : Nat} {patterns : List (Nat × List (Constraint K P) × List K)}
    {evs : List Ev} {A : Automaton K P}
    (h : buildTL toTree req fuel patterns evs = .ok A)
    (hc : c1G_ok toTree req fuel patterns evs = true) :
    buildTG toTree req fuel patterns evs = .ok A := by
  unfold c1G_ok at hc
  cases hb : buildTLC toTree req fuel patterns evs with
  | error e => rw [hb] at hc; cases hc
  | ok A' =>
    have hg := buildTLC_imp_buildTG hT hb
    have hl := buildTG_imp_buildTL toTree req fuel patterns evs A' hg
    rw [h] at hl
    cases hl
    exact hg

theorem guardE_ok_of_c1G {σ : Constraint K P → Bool}
    {toTree : List (Constraint K P) → Option (CTree (Constraint K P))} (hT : TreeOK toTree σ)
    {req : K → List K} {fuel : Nat} {patterns : List (Nat × List (Constraint K P) × List K)}
    {evs : List Ev} {A : Automaton K P}
    (h : buildTL toTree req fuel patterns evs = .ok A)
    (hc : c1G_ok toTree req fuel patterns evs = true) :
    guardE_ok toTree req fuel patterns evs = true := by
  unfold guardE_ok
  rw [guardE_of_c1G hT h hc]

/-- **`guardE_always`, partial**: for the string/matrix decomposition (any key order, any
indexing scheme), guard E holds on every log of the Rust loop that passes the emission-time
check c1G — no hypothesis on the constraints. -/
theorem guardE_charTree_partial {K : Type} [DecidableEq K] (lt : K → K → Bool)
    (req : K → List K) (fuel : Nat)
    (inputs : List (Nat × List (Constraint K CharPred) × List K)) (evs : List Ev)
    (A : Automaton K CharPred)
    (h : buildTL (charTree lt) req fuel inputs evs = .ok A)
    (hc : c1G_ok (charTree lt) req fuel inputs evs = true) :
    buildTG (charTree lt) req fuel inputs evs = .ok A :=
  guardE_of_c1G (c03_treeOK_char lt (fun _ => true)) h hc

/-- c1G is weaker than c1D: every log of the strict replay passes `c1G_ok`. -/
theorem c1D_imp_c1G
    (toTree : List (Constraint K P) → Option (CTree (Constraint K P))) (req : K → List K)
    (fuel : Nat) (patterns : List (Nat × List (Constraint K P) × List K)) (evs : List Ev)
    (A : Automaton K P) (h : buildTD toTree req fuel patterns evs = .ok A) :
    c1G_ok toTree req fuel patterns evs = true := by
  unfold c1G_ok
  rw [buildTD_imp_buildTLC h]

/-- **T-BUILD for the Rust loop under c1G.** -/
theorem buildTL_acc_c1G
    (toTree : List (Constraint K P) → Option (CTree (Constraint K P))) (req : K → List K)
    (fuel : Nat) (patterns : List (Nat × List (Constraint K P) × List K)) (evs : List Ev)
    (A : Automaton K P) (σ : Constraint K P → Bool) (hT : TreeOK toTree σ)
    (h : buildTL toTree req fuel patterns evs = .ok A)
    (hc : c1G_ok toTree req fuel patterns evs = true) (pid : Nat) :
    AccDet σ A A.root pid ↔
      ∃ cs extra, (pid, cs, extra) ∈ patterns ∧ ∀ c ∈ cs, σ c = true :=
  buildTG_acc toTree req fuel patterns evs A σ hT (guardE_of_c1G hT h hc) pid

/-! ### guard E always holds for flat decompositions -/

/-- **Guard E never fires on a log of the Rust loop**, for every decomposition that is flat
(`C07.FlatTreeHyp`), keeps a single constraint (`SingleKept`) and is faithful (`TreeOK`); no
hypothesis on the patterns, the indexing scheme or the log. -/
theorem guardE_always_flat {Mx : Constraint K P → Constraint K P → Prop}
    {σ : Constraint K P → Bool}
    {toTree : List (Constraint K P) → Option (CTree (Constraint K P))}
    (hF : C07.FlatTreeHyp Mx toTree) (hS : SingleKept toTree) (hT : TreeOK toTree σ)
    {req : K → List K} {fuel : Nat} {patterns : List (Nat × List (Constraint K P) × List K)}
    {evs : List Ev} {A : Automaton K P}
    (h : buildTL toTree req fuel patterns evs = .ok A) :
    buildTG toTree req fuel patterns evs = .ok A :=
  buildTLC_imp_buildTG hT
    (buildTL_imp_buildTLC_of (tree_keepsJ hF hS) detKeepsJ (fun _ h0 => inv_addPatterns h0) h)

/-- **`guardE_always`**: for the string/matrix decomposition `charTree` (any key order `lt`, any
indexing scheme `req`, ANY builder inputs and ANY event log), whenever the lenient disciplined
replay `buildTL` — the Rust loop — succeeds, the replay `buildTG` with guard E succeeds with the
same automaton: guard E never fires. -/
theorem guardE_always {K : Type} [DecidableEq K] (lt : K → K → Bool)
    (req : K → List K) (fuel : Nat)
    (inputs : List (Nat × List (Constraint K CharPred) × List K)) (evs : List Ev)
    (A : Automaton K CharPred)
    (h : buildTL (charTree lt) req fuel inputs evs = .ok A) :
    buildTG (charTree lt) req fuel inputs evs = .ok A :=
  guardE_always_flat (C07.flatTreeHyp_charTree lt) (singleKept_charTree lt)
    (c03_treeOK_char lt (fun _ => true)) h

/-- The per-log checks always pass on `charTree` logs. -/
theorem guardE_ok_always {K : Type} [DecidableEq K] (lt : K → K → Bool)
    (req : K → List K) (fuel : Nat)
    (inputs : List (Nat × List (Constraint K CharPred) × List K)) (evs : List Ev)
    (A : Automaton K CharPred)
    (h : buildTL (charTree lt) req fuel inputs evs = .ok A) :
    guardE_ok (charTree lt) req fuel inputs evs = true ∧
    c1G_ok (charTree lt) req fuel inputs evs = true := by
  constructor
  · unfold guardE_ok
    rw [guardE_always lt req fuel inputs evs A h]
  · unfold c1G_ok
    rw [buildTL_imp_buildTLC_of (treeKeeps_charTree lt) detKeepsJ
      (fun _ h0 => inv_addPatterns h0) h]

/-- **T-BUILD for the Rust loop, strings and matrices, unconditionally**: for every log the
lenient disciplined replay accepts, acceptance of the built automaton in the traversal's reading
is exactly "some pattern with that id has all its constraints true", for every truth assignment. -/
theorem buildTL_acc_charTree {K : Type} [DecidableEq K] (lt : K → K → Bool)
    (req : K → List K) (fuel : Nat)
    (inputs : List (Nat × List (Constraint K CharPred) × List K)) (evs : List Ev)
    (A : Automaton K CharPred) (σ : Constraint K CharPred → Bool)
    (h : buildTL (charTree lt) req fuel inputs evs = .ok A) (pid : Nat) :
    AccDet σ A A.root pid ↔
      ∃ cs extra, (pid, cs, extra) ∈ inputs ∧ ∀ c ∈ cs, σ c = true :=
  buildTG_acc (charTree lt) req fuel inputs evs A σ (c03_treeOK_char lt σ)
    (guardE_always lt req fuel inputs evs A h) pid

/-- Strings end to end for EVERY disciplined lenient log (the per-program check `strProgramOK`
remains): `run` reports exactly the occurrences. -/
theorem c01_c02_string_lenient_always (ps : List (List CharVar)) (evs : List Ev)
    (fuel fuel' : Nat) (inputs : List (Nat × List StrCons × List Nat))
    (A : Automaton Nat CharPred) (h : List Nat) (ms : List (Match StrPos))
    (seen : List (Nat × List (Option Nat)))
    (hi : strInputs ps = some inputs)
    (hb : buildTL (charTree natLt) strReq fuel inputs evs = .ok A)
    (hok : strProgramOK A ps = true)
    (hr : run strDomain A h fuel' = .ok (ms, seen)) (i : Nat) (m : StrPos) :
    (i, m) ∈ ms ↔ ∃ p, ps[i]? = some p ∧
      ((p = [] ∧ m = .unbound) ∨
       (p ≠ [] ∧ ∃ a, occursStr p h a = true ∧ m = .bound a p.length)) :=
  c01_c02_string_lenient_guardE ps evs fuel fuel' inputs A h ms seen hi hb
    (guardE_ok_always natLt strReq fuel inputs evs A hb).1 hok hr i m

/-- The emission-time fact behind it: at every emission of an accepted `charTree` log no child of
the emitted state has a fallback transition (c1G through its second disjunct; in fact the
invariant `INV` of `Proofs/GuardEInv.lean` holds at every iteration boundary). -/
theorem buildTL_imp_buildTLC_charTree {K : Type} [DecidableEq K] (lt : K → K → Bool)
    (req : K → List K) (fuel : Nat)
    (inputs : List (Nat × List (Constraint K CharPred) × List K)) (evs : List Ev)
    (A : Automaton K CharPred)
    (h : buildTL (charTree lt) req fuel inputs evs = .ok A) :
    buildTLC (charTree lt) req fuel inputs evs = .ok A :=
  buildTL_imp_buildTLC_of (treeKeeps_charTree lt) detKeepsJ (fun _ h0 => inv_addPatterns h0) h

/-! ### zombies are never emitted -/

/-- **`zombie_never_emitted`**: on every log accepted by the lenient disciplined build the `Topo`
ids are pairwise different — an id is the state of at most one iteration, so a state that
receives the id of an already emitted (and since removed) state is never normalised. -/
theorem buildTL_topo_nodup
    (toTree : List (Constraint K P) → Option (CTree (Constraint K P))) (req : K → List K)
    (fuel : Nat) (patterns : List (Nat × List (Constraint K P) × List K)) (evs : List Ev)
    (A : Automaton K P) (h : buildTL toTree req fuel patterns evs = .ok A) :
    (topoIds evs).Nodup := by
  unfold buildTL at h
  split at h
  · cases h
  · unfold finishWith at h
    split at h
    · cases h
    · rename_i a2 h2
      exact (topoIds_nodup _ h2).1

end GE

/-! ### checked examples -/

namespace GE.Ex
open Automaton TBL

set_option maxRecDepth 100000 in
/-- The log `TBL.Ex` (outside c1D and outside the `make_det` guard) passes c1G. -/
theorem c1G_holds : c1G_ok (charTree natLt) strReq 100 TBL.Ex.inputs TBL.Ex.evs = true := by rfl

set_option maxRecDepth 100000 in
/-- Its only zombie is 16 (parent 20; the other parent 6 was emitted in between); the children
3 and 13 are deterministic raw trie states: one constraint transition, no fallback. -/
theorem zombie_report :
    (zReplay (charTree natLt) strReq 100 TBL.Ex.inputs TBL.Ex.evs).map zombieReport =
      .ok [(16, [20], [(13, true, 1, 0), (3, true, 1, 0)])] := by rfl

end GE.Ex

namespace GE.Ex4
open Automaton TBL

/-- `a`, `$x$y$x`, `$x$y$yb`, `$y$x$x$y$x`, `b$yb`. -/
def pats : List (List CharVar) :=
  [[.lit 97], [.var 0, .var 1, .var 0], [.var 0, .var 1, .var 1, .lit 98],
   [.var 1, .var 0, .var 0, .var 1, .var 0], [.lit 98, .var 1, .lit 98]]

def inputs : List (Nat × List StrCons × List Nat) :=
  (manyInputs (K := Nat) (P := CharPred) (fun p => some (strConstraints p))
    (fun _ => ([] : List Nat)) true pats 0).getD []

/-- Found by the search: states 3, 11 and 5 are emitted and later removed by merges; in the
iteration of 10 fresh states reuse the ids 5 and 11. -/
def evs : List Ev :=
  [.topo 0, .group 0 [2, 4], .detAsk 0, .detYes 0, .iterEnd 0, .topo 1, .iterEnd 1,
   .topo 3, .iterEnd 3, .topo 5, .iterEnd 5, .topo 11, .iterEnd 11,
   .topo 8, .detAsk 8, .detYes 8, .iterEnd 8, .topo 12, .merge 11 [13, 3, 11], .iterEnd 12,
   .topo 13, .merge 12 [12, 5], .iterEnd 13, .topo 9, .iterEnd 9,
   .topo 10, .detAsk 10, .detYes 10, .merge 5 [5, 13], .iterEnd 10, .topo 4, .iterEnd 4,
   .topo 6, .iterEnd 6, .topo 2, .iterEnd 2, .topo 7, .iterEnd 7]

set_option maxRecDepth 100000 in
/-- Two zombies at the end of the main loop.  Zombie 5 has the child 10, deterministic with one
constraint and ONE FALLBACK transition; zombie 11 is the fail state of 10. -/
theorem zombie_report :
    (zReplay (charTree natLt) strReq 100 inputs evs).map zombieReport =
      .ok [(5, [12, 1, 9], [(10, true, 1, 1)]), (11, [10], [(6, false, 1, 0)])] := by rfl

set_option maxRecDepth 100000 in
/-- All parents of the zombie 5 had been emitted, so no clone of it is ever made: the log passes
even the strict replay … -/
theorem strict_holds : ∃ A, buildTD (charTree natLt) strReq 100 inputs evs = .ok A := ⟨_, rfl⟩

set_option maxRecDepth 100000 in
/-- … and c1G. -/
theorem c1G_holds : c1G_ok (charTree natLt) strReq 100 inputs evs = true := by rfl

end GE.Ex4
end Pm
