/-
Props/C09TL.lean — property C09 clause (c) / `C08.EpsLe1` ("every live state of a built automaton
has at most one epsilon (fallback) transition"), hence C09 IN FULL and C08 IN FULL, for the replay
of the Rust loop ITSELF: `Automaton.buildTL` (Model/BuilderT.lean: lenient `makeDetL`, exactly the
code path, with the discipline of the loop c1T / c1C / c4T — no model guard on `make_det`, no c1D,
no c1E), for the flat string/matrix decomposition `charTree`.

`Props/C09Eps.lean` proves the clause for the STRICT replay `buildTE` (= `buildTD` + the guard c1E:
at the emission of `s` neither `s` nor any of its children has a fallback transition); c1D fails on
≈ 0.03 % of real string builds, so a real log can be outside `buildTE`. `Props/GuardE.lean` proves
for `charTree` the invariant `GE.INV` of EVERY `buildTL` log; at an emission (c1T) it gives exactly
c1E. Here the two are combined: `C09E.E1All` is threaded alongside `GE.INV` through
`mainLoopWith makeDetL (charTree lt)` (Proofs/C09TLLoop.lean; `GE.iteration_keepsINV` is a black
box, the C09E step lemmas are reused, `make_det` restated for `makeDetL` in Proofs/C09TLDet.lean).
So for strings and matrices EVERY log the replay of the Rust loop accepts — 100 % of the real
builds, by replay — is inside the theorems:

* `c09_buildTL_oneEpsilon_char`  clause (c) for every `buildTL (charTree lt) req …` result: any key
                                  order `lt`, any scheme `req`, ANY inputs, every log
                                  (`_flat`: any flat single-kept decomposition; `_edges`; `_epsLe1`);
* `c09_buildTL_c1E_char`         the underlying fact: the replay `buildTLE` = `buildTL` + the guard
                                  c1E at every emission accepts the same logs with the same result;
* `c09_built_butC_TL`            every OTHER clause of `Automaton.WF` for `buildTL`, any
                                  decomposition at all (port graphs included), any rank-acyclic
                                  scheme (Proofs/C09TLReach.lean: `HasIn`, `HasId`, `MFrom` carried
                                  through the lenient loop; `Props/C09Reach.lean` has them for the
                                  guarded `build` only), and `wfCheck ↔ wfOneEpsilon`;
* `c09_built_wf_TL_char`, `_str`, `_mat`  hence the FULL `Automaton.WF` and `wfCheck = true`
                                  (`c09_built_pg_TL`, `c09_built_table_TL`: all clauses but (c) for
                                  port graphs / tables, where (c) stays a per-build check);
* `c08_str_run_no_panic_TL`, `c08_mat_run_no_panic_TL`  the traversal NEVER panics (every host,
                                  every fuel), `c08_*_run_errors_TL` its only error is the fuel
                                  error "traversal" and not above the explicit bound,
                                  `c08_*_find_matches_total_TL` totality above the bound;
* `manyBuildTL`, `c08_string_total_TL_final`, `c08_matrix_total_TL_final`  the final statements:
                                  for every pattern list and EVERY log the build never panics, and
                                  every returned matcher is fully well-formed, never panics, is
                                  total above the bound and reports exactly the occurrences
                                  (`c01_c02_string_TL`, `c01_c02_matrix_TL`; as SETS — multiplicity,
                                  C07, needs c1D and stays with `buildTD`).
Nothing is partial. Proofs: `Proofs/C09TLDet`, `C09TLLoop`, `C09TLReach` (namespace `Pm.C09TL`).
-/
import PmVerif.Proofs.C09TLLoop
import PmVerif.Proofs.C09TLReach
import PmVerif.Props.C09Eps
import PmVerif.Props.C08Acyc
import PmVerif.Props.C08Final
import PmVerif.Props.C01TL
import PmVerif.Model.ManyTL
namespace Pm
open Automaton

/-! ### clause (c) -/

/-- **C09 clause (c) for the replay of the Rust loop, strings and matrices.** Every live state of
every automaton `buildTL (charTree lt) req …` returns has at most one epsilon (fallback)
transition — any key order `lt`, any indexing scheme `req`, ANY builder inputs (ids may repeat,
constraints need not be arity-correct), every fuel and EVERY event log. -/
theorem c09_buildTL_oneEpsilon_char {K : Type} [DecidableEq K] (lt : K → K → Bool)
    (req : K → List K) (fuel : Nat)
    (inputs : List (Nat × List (Constraint K CharPred) × List K)) (evs : List Ev)
    (A : Automaton K CharPred)
    (h : Automaton.buildTL (charTree lt) req fuel inputs evs = .ok A) :
    ∀ s w, A.g.weight? s = some w → w.eorder.length ≤ 1 := by
  obtain ⟨inv, E⟩ := C09TL.buildTL_e1_char lt h
  exact E.eorder inv

/-- The same over edges: two epsilon transitions leaving the same state are the same
transition. -/
theorem c09_buildTL_oneEpsilon_edges_char {K : Type} [DecidableEq K] (lt : K → K → Bool)
    (req : K → List K) (fuel : Nat)
    (inputs : List (Nat × List (Constraint K CharPred) × List K)) (evs : List Ev)
    (A : Automaton K CharPred)
    (h : Automaton.buildTL (charTree lt) req fuel inputs evs = .ok A) :
    ∀ t1 t2 e1 e2, A.g.edge? t1 = some e1 → A.g.edge? t2 = some e2 → e1.src = e2.src →
      e1.w = none → e2.w = none → t1 = t2 := fun t1 t2 e1 e2 h1 h2 hs hn1 hn2 =>
  (C09TL.buildTL_e1_char lt h).2 e2.src t1 t2 e1 e2 h1 h2 hs rfl hn1 hn2

/-- Clause (c) in the three forms used elsewhere (`C08.EpsLe1`, its Boolean form, the Boolean
clause (c) of `wfCheck`). -/
theorem c09_buildTL_epsLe1_char {K : Type} [DecidableEq K] (lt : K → K → Bool)
    (req : K → List K) (fuel : Nat)
    (inputs : List (Nat × List (Constraint K CharPred) × List K)) (evs : List Ev)
    (A : Automaton K CharPred)
    (h : Automaton.buildTL (charTree lt) req fuel inputs evs = .ok A) :
    C08.EpsLe1 A ∧ C08.epsLe1 A = true ∧ A.wfOneEpsilon = true :=
  have hc := c09_buildTL_oneEpsilon_char lt req fuel inputs evs A h
  ⟨hc, (c08_epsLe1_iff A).2 hc, c09_oneEpsilon_complete A hc⟩

/-- **c1E is a theorem for `charTree` logs of the Rust loop**: the replay `C09TL.buildTLE` =
`buildTL` + the guard c1E of the strict replay (`Automaton.epsFreeAt`: at the emission of `s`
neither `s` nor any of its current children has a fallback transition) checked at EVERY emission
accepts exactly the same logs and returns the same automaton. (c1D is NOT a theorem: `TBL.Ex`.) -/
theorem c09_buildTL_c1E_char {K : Type} [DecidableEq K] (lt : K → K → Bool)
    (req : K → List K) (fuel : Nat)
    (inputs : List (Nat × List (Constraint K CharPred) × List K)) (evs : List Ev)
    (A : Automaton K CharPred) :
    Automaton.buildTL (charTree lt) req fuel inputs evs = .ok A ↔
      C09TL.buildTLE (charTree lt) req fuel inputs evs = .ok A :=
  C09TL.buildTL_iff_buildTLE_of (GE.treeKeeps_charTree lt) GE.detKeepsJ
    (fun _ h0 => GE.inv_addPatterns h0)

section Generic
variable {K P : Type} [DecidableEq K] [DecidableEq P]

/-- Clause (c) for the replay of the Rust loop over ANY decomposition that is flat
(`C07.FlatTreeHyp`) and keeps a single constraint (`GE.SingleKept`) — any domain. -/
theorem c09_buildTL_oneEpsilon_flat {Mx : Constraint K P → Constraint K P → Prop}
    (toTree : List (Constraint K P) → Option (CTree (Constraint K P)))
    (hF : C07.FlatTreeHyp Mx toTree) (hS : GE.SingleKept toTree) (req : K → List K)
    (fuel : Nat) (patterns : List (Nat × List (Constraint K P) × List K)) (evs : List Ev)
    (A : Automaton K P) (h : Automaton.buildTL toTree req fuel patterns evs = .ok A) :
    ∀ s w, A.g.weight? s = some w → w.eorder.length ≤ 1 := by
  obtain ⟨inv, E⟩ := C09TL.buildTL_e1_flat hF hS h
  exact E.eorder inv

/-! ### every other clause, any decomposition -/

/-- **Every clause of `WF` except (c)** holds of every automaton the replay of the Rust loop
returns on a rank-acyclic scheme — ANY decomposition `toTree` (no hypothesis; port graphs
included), any pattern list, any accepted log — and its checker reduces to clause (c).
(`c09_built_butC` is the statement for the guarded `build`, which rejects some `buildTL` logs.) -/
theorem c09_built_butC_TL
    (toTree : List (Constraint K P) → Option (CTree (Constraint K P))) (req : K → List K)
    (hacy : RankAcyclic req)
    (fuel : Nat) (patterns : List (Nat × List (Constraint K P) × List K)) (evs : List Ev)
    (A : Automaton K P) (h : Automaton.buildTL toTree req fuel patterns evs = .ok A) :
    A.WFButC req (patterns.map (·.1)) ∧
      (A.wfCheck req (patterns.map (·.1)) = true ↔ A.wfOneEpsilon = true) := by
  obtain ⟨hg, hw⟩ := C09TL.buildTL_butC hacy h
  refine ⟨hw, ?_⟩
  rw [c09_wfCheck_iff req A _ hg]
  exact ⟨fun hwf => c09_oneEpsilon_complete A hwf.oneEpsilon,
    fun hc => hw.wf (c09_oneEpsilon_sound A hc)⟩

/-- Full well-formedness from clause (c), for `buildTL`. -/
theorem c09_built_wf_TL_of_oneEpsilon
    (toTree : List (Constraint K P) → Option (CTree (Constraint K P))) (req : K → List K)
    (hacy : RankAcyclic req)
    (fuel : Nat) (patterns : List (Nat × List (Constraint K P) × List K)) (evs : List Ev)
    (A : Automaton K P) (h : Automaton.buildTL toTree req fuel patterns evs = .ok A)
    (hc : ∀ s w, A.g.weight? s = some w → w.eorder.length ≤ 1) :
    A.WF req (patterns.map (·.1)) ∧ A.wfCheck req (patterns.map (·.1)) = true := by
  obtain ⟨hw, hck⟩ := c09_built_butC_TL toTree req hacy fuel patterns evs A h
  exact ⟨hw.wf hc, hck.2 (c09_oneEpsilon_complete A hc)⟩

/-- **C09 in full for the replay of the Rust loop over a flat single-kept decomposition.** -/
theorem c09_built_wf_TL_flat {Mx : Constraint K P → Constraint K P → Prop}
    (toTree : List (Constraint K P) → Option (CTree (Constraint K P)))
    (hF : C07.FlatTreeHyp Mx toTree) (hS : GE.SingleKept toTree) (req : K → List K)
    (hacy : RankAcyclic req)
    (fuel : Nat) (patterns : List (Nat × List (Constraint K P) × List K)) (evs : List Ev)
    (A : Automaton K P) (h : Automaton.buildTL toTree req fuel patterns evs = .ok A) :
    A.WF req (patterns.map (·.1)) ∧ A.wfCheck req (patterns.map (·.1)) = true :=
  c09_built_wf_TL_of_oneEpsilon toTree req hacy fuel patterns evs A h
    (c09_buildTL_oneEpsilon_flat toTree hF hS req fuel patterns evs A h)

end Generic

/-! ### C09 in full: strings and matrices -/

/-- **C09 in full for the replay of the Rust loop**, `charTree` with any key order, any
rank-acyclic scheme: ALL clauses of `Automaton.WF` — (a) acyclic, (b) reachable, (c) at most one
fallback transition, (d) no self loop, (e) orders, (f) every id accepted, (g) key order, (h) scopes
cover — and `wfCheck = true`, for every pattern list and EVERY accepted log. -/
theorem c09_built_wf_TL_char {K : Type} [DecidableEq K] (lt : K → K → Bool) (req : K → List K)
    (hacy : RankAcyclic req) (fuel : Nat)
    (patterns : List (Nat × List (Constraint K CharPred) × List K)) (evs : List Ev)
    (A : Automaton K CharPred)
    (h : Automaton.buildTL (charTree lt) req fuel patterns evs = .ok A) :
    A.WF req (patterns.map (·.1)) ∧ A.wfCheck req (patterns.map (·.1)) = true :=
  c09_built_wf_TL_of_oneEpsilon (charTree lt) req hacy fuel patterns evs A h
    (c09_buildTL_oneEpsilon_char lt req fuel patterns evs A h)

/-- **Strings** (`charTree natLt`, `strReq`). -/
theorem c09_built_wf_TL_str (fuel : Nat) (patterns : List (Nat × List StrCons × List Nat))
    (evs : List Ev) (A : Automaton Nat CharPred)
    (h : Automaton.buildTL (charTree natLt) strReq fuel patterns evs = .ok A) :
    A.WF strReq (patterns.map (·.1)) ∧ A.wfCheck strReq (patterns.map (·.1)) = true :=
  c09_built_wf_TL_char natLt strReq StrProg.strReq_acyclic fuel patterns evs A h

/-- **Matrices** (`charTree mkeyLt`, `matReq`). -/
theorem c09_built_wf_TL_mat (fuel : Nat)
    (patterns : List (Nat × List (Constraint MKey CharPred) × List MKey)) (evs : List Ev)
    (A : Automaton MKey CharPred)
    (h : Automaton.buildTL (charTree mkeyLt) matReq fuel patterns evs = .ok A) :
    A.WF matReq (patterns.map (·.1)) ∧ A.wfCheck matReq (patterns.map (·.1)) = true :=
  c09_built_wf_TL_char mkeyLt matReq MatProg.matReq_acyclic fuel patterns evs A h

/-- **Port graphs** (`pgTree` — nested powerset trees included —, `pgReq`), the replay of the Rust
loop: every clause of `WF` but (c), and the checker reduces to clause (c). (Clause (c) itself is
open for non-flat decompositions: `GE.INV` is proved for flat ones only; it stays the per-build
check `wfOneEpsilon`, or the strict replay `c09_built_wf_TE_pg`.) -/
theorem c09_built_pg_TL (fuelT fuel : Nat) (patterns : List (Nat × List PGCons × List PGKey))
    (evs : List Ev) (A : Automaton PGKey PGPred)
    (h : Automaton.buildTL (fun cs => pgTree cs fuelT) pgReq fuel patterns evs = .ok A) :
    A.WFButC pgReq (patterns.map (·.1)) ∧
      (A.wfCheck pgReq (patterns.map (·.1)) = true ↔ A.wfOneEpsilon = true) :=
  c09_built_butC_TL _ pgReq c09_pgReq_acyclic fuel patterns evs A h

/-- The table domain, any strategy (flat, mutex, nested powerset), any rank-acyclic scheme, the
replay of the Rust loop: every clause of `WF` but (c). -/
theorem c09_built_table_TL (s : Nat) (tfuel : Nat)
    (req : Nat → List Nat) (hacy : RankAcyclic req) (fuel : Nat)
    (patterns : List (Nat × List TCons × List Nat)) (evs : List Ev) (A : Automaton Nat TPred)
    (h : Automaton.buildTL (fun cs => tTreeAll s cs tfuel) req fuel patterns evs = .ok A) :
    A.WFButC req (patterns.map (·.1)) ∧
      (A.wfCheck req (patterns.map (·.1)) = true ↔ A.wfOneEpsilon = true) :=
  c09_built_butC_TL _ req hacy fuel patterns evs A h

/-! ### C08: the traversal of every automaton built by the Rust code path -/

section Str
variable (ps : List (List CharVar)) (evs : List Ev) (fuel : Nat)
  (inputs : List (Nat × List StrCons × List Nat)) (A : Automaton Nat CharPred)

/-- **C08, strings, goal 1 at full strength for the Rust loop's replay**: the traversal of an
automaton built by `buildTL` never panics — every pattern list, every accepted log, every host,
every fuel; no epsilon hypothesis, no per-build check. -/
theorem c08_str_run_no_panic_TL (hi : TBL.strInputs ps = some inputs)
    (hb : buildTL (charTree natLt) strReq fuel inputs evs = .ok A) (h : List Nat) (fuel' : Nat) :
    ∀ tag, run strDomain A h fuel' ≠ .error (.panic tag) := fun tag ht =>
  ((c08_str_run_TL ps evs fuel inputs A hi hb h fuel').2.1 tag ht).2
    (c09_buildTL_oneEpsilon_char natLt strReq fuel inputs evs A hb)

/-- The only error the traversal can return is the fuel error, and not above the explicit
bound. -/
theorem c08_str_run_errors_TL (hi : TBL.strInputs ps = some inputs)
    (hb : buildTL (charTree natLt) strReq fuel inputs evs = .ok A) (h : List Nat) (fuel' : Nat) :
    (∀ e, run strDomain A h fuel' = .error e → e = .fuel "traversal") ∧
    (C08.strRunBound A h ≤ fuel' → ∀ e, run strDomain A h fuel' ≠ .error e) := by
  have heps := c09_buildTL_oneEpsilon_char natLt strReq fuel inputs evs A hb
  have hb' := hb
  rw [C08.buildTL_eq_buildWith] at hb'
  obtain ⟨hok, ok, hroot, _⟩ :=
    C08.strProg_builtWith ps C08.detOK_makeDetL C08.detMFrom_makeDetL evs fuel inputs A hi hb'
  refine ⟨fun e he => ?_, fun hf e he => ?_⟩
  · rcases C08.str_run_res h ok hroot hok fuel' with ⟨x, hx⟩ | hx | ⟨hne, _⟩
    · rw [hx] at he; cases he
    · rw [hx] at he; cases he; rfl
    · exact absurd heps hne
  · obtain ⟨ms, seen, hx⟩ := (c08_str_run_TL ps evs fuel inputs A hi hb h fuel').2.2.2.2 heps hf
    rw [hx] at he
    cases he

/-- **C08, strings: `find_matches` is total** for the Rust loop's replay: for every host and every
fuel above the explicit bound `C08.strRunBound`, `run` returns — no hypothesis — and it returns
exactly the occurrences. -/
theorem c08_str_find_matches_total_TL (hi : TBL.strInputs ps = some inputs)
    (hb : buildTL (charTree natLt) strReq fuel inputs evs = .ok A) (h : List Nat) (fuel' : Nat)
    (hf : C08.strRunBound A h ≤ fuel') :
    ∃ ms seen, run strDomain A h fuel' = .ok (ms, seen) ∧
      ∀ i m, (i, m) ∈ ms ↔ ∃ p, ps[i]? = some p ∧
        ((p = [] ∧ m = .unbound) ∨
         (p ≠ [] ∧ ∃ a, occursStr p h a = true ∧ m = .bound a p.length)) := by
  obtain ⟨ms, seen, hr⟩ := (c08_str_run_TL ps evs fuel inputs A hi hb h fuel').2.2.2.2
    (c09_buildTL_oneEpsilon_char natLt strReq fuel inputs evs A hb) hf
  exact ⟨ms, seen, hr, c01_c02_string_TL ps evs fuel fuel' inputs A h ms seen hi hb hr⟩

end Str

section Mat
variable (ps : List MatPattern) (evs : List Ev) (fuel : Nat)
  (inputs : List (Nat × List MatCons × List MKey)) (A : Automaton MKey CharPred)

/-- **C08, matrices, goal 1 at full strength for the Rust loop's replay** (ragged and empty hosts
included). -/
theorem c08_mat_run_no_panic_TL (hi : TBL.matInputs ps = some inputs)
    (hb : buildTL (charTree mkeyLt) matReq fuel inputs evs = .ok A) (h : MatHost) (fuel' : Nat) :
    ∀ tag, run matDomain A h fuel' ≠ .error (.panic tag) := fun tag ht =>
  ((c08_mat_run_TL ps evs fuel inputs A hi hb h fuel').2.1 tag ht).2
    (c09_buildTL_oneEpsilon_char mkeyLt matReq fuel inputs evs A hb)

theorem c08_mat_run_errors_TL (hi : TBL.matInputs ps = some inputs)
    (hb : buildTL (charTree mkeyLt) matReq fuel inputs evs = .ok A) (h : MatHost) (fuel' : Nat) :
    (∀ e, run matDomain A h fuel' = .error e → e = .fuel "traversal") ∧
    (C08.matRunBound A h ≤ fuel' → ∀ e, run matDomain A h fuel' ≠ .error e) := by
  have heps := c09_buildTL_oneEpsilon_char mkeyLt matReq fuel inputs evs A hb
  have hb' := hb
  rw [C08.buildTL_eq_buildWith] at hb'
  obtain ⟨hok, ok, hroot, _⟩ :=
    C08.matProg_builtWith C08.detOK_makeDetL C08.detMFrom_makeDetL ps evs fuel inputs A hi hb'
  refine ⟨fun e he => ?_, fun hf e he => ?_⟩
  · rcases C08.mat_run_res h ok hroot hok fuel' with ⟨x, hx⟩ | hx | ⟨hne, _⟩
    · rw [hx] at he; cases he
    · rw [hx] at he; cases he; rfl
    · exact absurd heps hne
  · obtain ⟨ms, seen, hx⟩ := (c08_mat_run_TL ps evs fuel inputs A hi hb h fuel').2.2.2.2 heps hf
    rw [hx] at he
    cases he

/-- **C08, matrices: `find_matches` is total** for the Rust loop's replay, no hypothesis, and it
returns exactly the occurrences. -/
theorem c08_mat_find_matches_total_TL (hi : TBL.matInputs ps = some inputs)
    (hb : buildTL (charTree mkeyLt) matReq fuel inputs evs = .ok A) (h : MatHost) (fuel' : Nat)
    (hf : C08.matRunBound A h ≤ fuel') :
    ∃ ms seen, run matDomain A h fuel' = .ok (ms, seen) ∧
      ∀ i m, (i, m) ∈ ms ↔ ∃ p, ps[i]? = some p ∧ ∃ r c, occursMat p h r c = true ∧
        m = .bound r c 0 0 ((matExtent p).1 : Int) ((matExtent p).2 : Int) := by
  obtain ⟨ms, seen, hr⟩ := (c08_mat_run_TL ps evs fuel inputs A hi hb h fuel').2.2.2.2
    (c09_buildTL_oneEpsilon_char mkeyLt matReq fuel inputs evs A hb) hf
  exact ⟨ms, seen, hr, c01_c02_matrix_TL ps evs fuel fuel' inputs A h ms seen hi hb hr⟩

end Mat

/-! ### the `ManyMatcher` form and the final statements -/


/-- `manyBuildTL` in terms of `buildTL` of the inputs. -/
theorem manyBuildTL_of_inputs {K P Pat : Type} [DecidableEq K] [DecidableEq P]
    {convert : Pat → Option (List (Constraint K P))} {extra : Pat → List K}
    (toTree : List (Constraint K P) → Option (CTree (Constraint K P))) (req : K → List K)
    (fuel : Nat) {ff : Bool} {pats : List Pat} (evs : List Ev)
    {inputs : List (Nat × List (Constraint K P) × List K)}
    (hin : manyInputs convert extra ff pats 0 = some inputs) :
    ∃ r, manyBuildTL convert extra toTree req fuel ff pats evs = some r ∧
      (∀ e, r = .error e → buildTL toTree req fuel inputs evs = .error e) ∧
      ∀ M, r = .ok M → buildTL toTree req fuel inputs evs = .ok M.automaton ∧
        M.ids = inputs.map (·.1) := by
  unfold manyBuildTL
  rw [hin]
  refine ⟨_, rfl, fun e he => ?_, fun M hM => ?_⟩
  · cases hb : buildTL toTree req fuel inputs evs with
    | error e' => rw [hb] at he; cases he; rfl
    | ok a => rw [hb] at he; cases he
  · cases hb : buildTL toTree req fuel inputs evs with
    | error e' => rw [hb] at hM; cases hM
    | ok a => rw [hb] at hM; cases hM; exact ⟨rfl, rfl⟩

/-- **C08 + C09 + C01/C02 for STRINGS, the Rust loop's replay — final statement.** For every list
`ps` of string patterns (ANY list: empty patterns, variables, duplicates), EVERY event log `evs`
and every builder fuel `fuel`:

(i) the replay `manyBuildTL` of the Rust loop returns (no conversion error) a result `r` that is
    never a panic; with `fuel ≥ 16` every error is a GUARD error (the log violates c1T / c1C / c4T
    or the event grammar: it is not a log the Rust loop can produce) — no fuel error;
for every matcher `M` it returns (`r = .ok M`):
(iv) the automaton satisfies ALL clauses of `Automaton.WF` and the executable `wfCheck` accepts it;
(ii) for EVERY host `h` and EVERY traversal fuel `fuel'`, `find_matches` never panics, its only
    possible error is the fuel error "traversal", and for `fuel' ≥ C08.strRunBound M.automaton h`
    it returns `.ok ms`;
(iii) whenever it returns `.ok ms` (any fuel), `ms` contains exactly the occurrences of the patterns
    (the empty pattern once, unbound) — as a SET; multiplicities (C07) need c1D and are stated for
    the strict replay (`c08_string_total_TE`).
ASSUMED: nothing beyond the quantifiers above; no guard on `make_det`, no c1D, no c1E, no
per-build check — every real build is inside by replay. -/
theorem c08_string_total_TL_final (ps : List (List CharVar)) (evs : List Ev) (fuel : Nat) :
    ∃ r, manyBuildTL (fun p => some (strConstraints p)) (fun _ => ([] : List Nat))
        (charTree natLt) strReq fuel true ps evs = some r ∧
      (∀ tag, r ≠ .error (.panic tag)) ∧
      (16 ≤ fuel → ∀ e, r = .error e → C08.IsGuard e) ∧
      ∀ M, r = .ok M →
        (M.automaton.WF strReq M.ids ∧ M.automaton.wfCheck strReq M.ids = true) ∧
        ∀ (h : List Nat) (fuel' : Nat),
          (∀ tag, M.findMatches strDomain h fuel' ≠ .error (.panic tag)) ∧
          (∀ e, M.findMatches strDomain h fuel' = .error e → e = .fuel "traversal") ∧
          (C08.strRunBound M.automaton h ≤ fuel' →
            ∃ ms, M.findMatches strDomain h fuel' = .ok ms) ∧
          (∀ ms, M.findMatches strDomain h fuel' = .ok ms →
            ∀ i m, (i, m) ∈ ms ↔ ∃ p, ps[i]? = some p ∧
              ((p = [] ∧ m = .unbound) ∨
               (p ≠ [] ∧ ∃ a, occursStr p h a = true ∧ m = .bound a p.length))) := by
  obtain ⟨inputs, hin⟩ := C08F.manyInputs_total (fun p : List CharVar => some (strConstraints p))
    (fun _ => ([] : List Nat)) true ps (fun _ _ => rfl) 0
  obtain ⟨r, hr, herr, hok⟩ := manyBuildTL_of_inputs (charTree natLt) strReq fuel evs hin
  refine ⟨r, hr, fun tag ht => (c08_str_build_no_panic ps evs fuel inputs hin tag).2 (herr _ ht),
    fun hfuel e he => (c08_str_build_guard_only ps evs fuel hfuel inputs hin).1 e (herr e he),
    fun M hM => ?_⟩
  obtain ⟨hb, hids⟩ := hok M hM
  refine ⟨hids ▸ c09_built_wf_TL_str fuel inputs evs M.automaton hb,
    fun h fuel' => ⟨fun tag ht => ?_, fun e he => ?_, fun hf => ?_, fun ms hms i m => ?_⟩⟩
  · exact c08_str_run_no_panic_TL ps evs fuel inputs M.automaton hin hb h fuel' tag
      (C08F.findMatches_error ht)
  · exact (c08_str_run_errors_TL ps evs fuel inputs M.automaton hin hb h fuel').1 e
      (C08F.findMatches_error he)
  · obtain ⟨ms, seen, hx, _⟩ :=
      c08_str_find_matches_total_TL ps evs fuel inputs M.automaton hin hb h fuel' hf
    exact ⟨ms, by simp [Many.findMatches, hx, Except.map]⟩
  · unfold Many.findMatches at hms
    cases hrun : run strDomain M.automaton h fuel' with
    | error e => rw [hrun] at hms; cases hms
    | ok x =>
      rw [hrun] at hms
      cases hms
      exact c01_c02_string_TL ps evs fuel fuel' inputs M.automaton h x.1 x.2 hin hb hrun i m

/-- **C08 + C09 + C01/C02 for MATRICES, the Rust loop's replay — final statement.** For every list
`ps` of matrix patterns (ANY list), EVERY event log and every builder fuel; hosts may be ragged or
empty: (i) `manyBuildTL` returns a result that is never a panic; with `fuel ≥ 16` every error is a
GUARD error; for every matcher `M` it returns: (iv) the automaton is fully well-formed
(`Automaton.WF`, `wfCheck = true`); (ii) for EVERY host and EVERY `fuel'`, `find_matches` never
panics, its only possible error is the fuel error "traversal", and for
`fuel' ≥ C08.matRunBound M.automaton h` it returns; (iii) whenever it returns `.ok ms`, `ms`
contains exactly the occurrences (anchor `(r, c)`, the pattern's bounding box as extent) — as a
set. ASSUMED: nothing beyond the quantifiers. -/
theorem c08_matrix_total_TL_final (ps : List MatPattern) (evs : List Ev) (fuel : Nat) :
    ∃ r, manyBuildTL (fun p => some (matConstraints p)) (fun _ => ([] : List MKey))
        (charTree mkeyLt) matReq fuel true ps evs = some r ∧
      (∀ tag, r ≠ .error (.panic tag)) ∧
      (16 ≤ fuel → ∀ e, r = .error e → C08.IsGuard e) ∧
      ∀ M, r = .ok M →
        (M.automaton.WF matReq M.ids ∧ M.automaton.wfCheck matReq M.ids = true) ∧
        ∀ (h : MatHost) (fuel' : Nat),
          (∀ tag, M.findMatches matDomain h fuel' ≠ .error (.panic tag)) ∧
          (∀ e, M.findMatches matDomain h fuel' = .error e → e = .fuel "traversal") ∧
          (C08.matRunBound M.automaton h ≤ fuel' →
            ∃ ms, M.findMatches matDomain h fuel' = .ok ms) ∧
          (∀ ms, M.findMatches matDomain h fuel' = .ok ms →
            ∀ i m, (i, m) ∈ ms ↔ ∃ p, ps[i]? = some p ∧ ∃ r c, occursMat p h r c = true ∧
              m = .bound r c 0 0 ((matExtent p).1 : Int) ((matExtent p).2 : Int)) := by
  obtain ⟨inputs, hin⟩ := C08F.manyInputs_total (fun p : MatPattern => some (matConstraints p))
    (fun _ => ([] : List MKey)) true ps (fun _ _ => rfl) 0
  obtain ⟨r, hr, herr, hok⟩ := manyBuildTL_of_inputs (charTree mkeyLt) matReq fuel evs hin
  refine ⟨r, hr, fun tag ht => (c08_mat_build_no_panic ps evs fuel inputs hin tag).2 (herr _ ht),
    fun hfuel e he => (c08_mat_build_guard_only ps evs fuel hfuel inputs hin).1 e (herr e he),
    fun M hM => ?_⟩
  obtain ⟨hb, hids⟩ := hok M hM
  refine ⟨hids ▸ c09_built_wf_TL_mat fuel inputs evs M.automaton hb,
    fun h fuel' => ⟨fun tag ht => ?_, fun e he => ?_, fun hf => ?_, fun ms hms i m => ?_⟩⟩
  · exact c08_mat_run_no_panic_TL ps evs fuel inputs M.automaton hin hb h fuel' tag
      (C08F.findMatches_error ht)
  · exact (c08_mat_run_errors_TL ps evs fuel inputs M.automaton hin hb h fuel').1 e
      (C08F.findMatches_error he)
  · obtain ⟨ms, seen, hx, _⟩ :=
      c08_mat_find_matches_total_TL ps evs fuel inputs M.automaton hin hb h fuel' hf
    exact ⟨ms, by simp [Many.findMatches, hx, Except.map]⟩
  · unfold Many.findMatches at hms
    cases hrun : run matDomain M.automaton h fuel' with
    | error e => rw [hrun] at hms; cases hms
    | ok x =>
      rw [hrun] at hms
      cases hms
      exact c01_c02_matrix_TL ps evs fuel fuel' inputs M.automaton h x.1 x.2 hin hb hrun i m

/-! ### Non-vacuity -/

set_option maxRecDepth 100000 in
/-- **Strings.** The log `TBL.Ex` is a log of the Rust loop that is OUTSIDE the strict replays (c1D
fails, the `make_det` guard of the guarded model fires: `TBL.Ex.strict_build_rejects`,
`TBL.Ex.guarded_build_rejects`) — hence outside `buildTE` and every theorem of Props/C09Eps.lean.
`manyBuildTL` accepts it: 22 live states, 7 of them deterministic, 8 with exactly one fallback
transition, none with two. -/
theorem c09_TL_example_str :
    buildTD (charTree natLt) strReq 100 TBL.Ex.inputs TBL.Ex.evs =
      .error (.guard "c1D: a child of the emitted state is already deterministic") ∧
    ∃ M, manyBuildTL (fun p => some (strConstraints p)) (fun _ => ([] : List Nat))
        (charTree natLt) strReq 100 true TBL.Ex.pats TBL.Ex.evs = some (.ok M) ∧
      M.automaton.liveStates.length = 22 ∧
      (M.automaton.liveStates.filter fun s => (M.automaton.stateD s).det) =
        [0, 2, 3, 13, 15, 18, 21] ∧
      (M.automaton.liveStates.map fun s => (M.automaton.stateD s).eorder.length) =
        [1, 0, 1, 0, 0, 1, 1, 1, 0, 0, 0, 0, 1, 0, 0, 1, 0, 0, 1, 0, 1, 0] ∧
      M.automaton.wfOneEpsilon = true :=
  ⟨TBL.Ex.strict_build_rejects, _, rfl, by decide, by decide, by decide, by rfl⟩

/-- The theorems applied to that build: clause (c) by `c09_buildTL_oneEpsilon_char` (not by
evaluation), full `WF`, `wfCheck = true`, the traversal of ANY host never panics, is total above
the explicit bound and reports exactly the occurrences. -/
example : ∃ A, buildTL (charTree natLt) strReq 100 TBL.Ex.inputs TBL.Ex.evs = .ok A ∧
    (∀ s w, A.g.weight? s = some w → w.eorder.length ≤ 1) ∧ A.wfOneEpsilon = true ∧
    A.WF strReq (TBL.Ex.inputs.map (·.1)) ∧ A.wfCheck strReq (TBL.Ex.inputs.map (·.1)) = true ∧
    (∀ h fuel' tag, run strDomain A h fuel' ≠ .error (.panic tag)) ∧
    ∀ h fuel', C08.strRunBound A h ≤ fuel' →
      ∃ ms seen, run strDomain A h fuel' = .ok (ms, seen) ∧
        ∀ i m, (i, m) ∈ ms ↔ ∃ p, TBL.Ex.pats[i]? = some p ∧
          ((p = [] ∧ m = .unbound) ∨
           (p ≠ [] ∧ ∃ a, occursStr p h a = true ∧ m = .bound a p.length)) := by
  obtain ⟨hi, A, hb, _⟩ := TBL.Ex.all_checks
  obtain ⟨hw, hck⟩ := c09_built_wf_TL_str 100 _ _ A hb
  exact ⟨A, hb, c09_buildTL_oneEpsilon_char natLt strReq 100 _ _ A hb,
    (c09_buildTL_epsLe1_char natLt strReq 100 _ _ A hb).2.2, hw, hck,
    fun h fuel' => c08_str_run_no_panic_TL _ _ _ _ A hi hb h fuel',
    fun h fuel' hf => c08_str_find_matches_total_TL _ _ _ _ A hi hb h fuel' hf⟩

set_option maxRecDepth 100000 in
/-- **Matrices.** The same log for the one-row matrix patterns `TBL.ExM.pats` (outside c1D and the
`make_det` guard: `TBL.ExM.strict_build_rejects`): accepted by `manyBuildTL`; 8 states with exactly
one fallback transition, none with two. -/
theorem c09_TL_example_mat :
    buildTD (charTree mkeyLt) matReq 100 TBL.ExM.inputs TBL.Ex.evs =
      .error (.guard "c1D: a child of the emitted state is already deterministic") ∧
    ∃ M, manyBuildTL (fun p => some (matConstraints p)) (fun _ => ([] : List MKey))
        (charTree mkeyLt) matReq 100 true TBL.ExM.pats TBL.Ex.evs = some (.ok M) ∧
      M.automaton.liveStates.length = 22 ∧
      (M.automaton.liveStates.map fun s => (M.automaton.stateD s).eorder.length) =
        [1, 0, 1, 0, 0, 1, 1, 1, 0, 0, 0, 0, 1, 0, 0, 1, 0, 0, 1, 0, 1, 0] ∧
      M.automaton.wfOneEpsilon = true :=
  ⟨TBL.ExM.strict_build_rejects, _, rfl, by decide, by decide, by rfl⟩

example : ∃ A, buildTL (charTree mkeyLt) matReq 100 TBL.ExM.inputs TBL.Ex.evs = .ok A ∧
    A.WF matReq (TBL.ExM.inputs.map (·.1)) ∧
    (∀ h fuel' tag, run matDomain A h fuel' ≠ .error (.panic tag)) ∧
    ∀ h fuel', C08.matRunBound A h ≤ fuel' →
      ∃ ms seen, run matDomain A h fuel' = .ok (ms, seen) ∧
        ∀ i m, (i, m) ∈ ms ↔ ∃ p, TBL.ExM.pats[i]? = some p ∧ ∃ r c,
          occursMat p h r c = true ∧
          m = .bound r c 0 0 ((matExtent p).1 : Int) ((matExtent p).2 : Int) := by
  obtain ⟨hi, A, hb, _⟩ := TBL.ExM.all_checks
  exact ⟨A, hb, (c09_built_wf_TL_mat 100 _ _ A hb).1,
    fun h fuel' => c08_mat_run_no_panic_TL _ _ _ _ A hi hb h fuel',
    fun h fuel' hf => c08_mat_find_matches_total_TL _ _ _ _ A hi hb h fuel' hf⟩

set_option maxRecDepth 100000 in
/-- The replay with the guard c1E accepts `TBL.Ex` (as `c09_buildTL_c1E_char` says it must), and
the log of the FINDING `C08.cexStr_panics` (a state with two epsilon transitions; the root is
emitted twice) is not a log of the Rust loop: `manyBuildTL` rejects it with c1T. -/
theorem c09_TL_example_guards :
    (∃ A, C09TL.buildTLE (charTree natLt) strReq 100 TBL.Ex.inputs TBL.Ex.evs = .ok A) ∧
    manyBuildTL (fun p => some (strConstraints p)) (fun _ => ([] : List Nat))
        (charTree natLt) strReq 50 true C08.cexStrPatterns C08.cexStrEvents =
      some (.error (.guard "c1T: state emitted twice or before one of its predecessors")) :=
  ⟨⟨_, rfl⟩, by rfl⟩

end Pm

section AxiomAudit
open Pm
#print axioms c09_buildTL_oneEpsilon_char
#print axioms c09_buildTL_oneEpsilon_edges_char
#print axioms c09_buildTL_epsLe1_char
#print axioms c09_buildTL_c1E_char
#print axioms c09_buildTL_oneEpsilon_flat
#print axioms c09_built_butC_TL
#print axioms c09_built_wf_TL_of_oneEpsilon
#print axioms c09_built_wf_TL_flat
#print axioms c09_built_wf_TL_char
#print axioms c09_built_wf_TL_str
#print axioms c09_built_wf_TL_mat
#print axioms c09_built_pg_TL
#print axioms c09_built_table_TL
#print axioms c08_str_run_no_panic_TL
#print axioms c08_str_run_errors_TL
#print axioms c08_str_find_matches_total_TL
#print axioms c08_mat_run_no_panic_TL
#print axioms c08_mat_run_errors_TL
#print axioms c08_mat_find_matches_total_TL
#print axioms manyBuildTL_of_inputs
#print axioms c08_string_total_TL_final
#print axioms c08_matrix_total_TL_final
#print axioms c09_TL_example_str
#print axioms c09_TL_example_mat
#print axioms c09_TL_example_guards
end AxiomAudit
