/-
Props/TBuildLPG.lean — end-to-end C01/C02 for SINGLE-ROOT PORT-GRAPH pattern sets on LENIENT
disciplined builds `buildTL` (the Rust code path, no `make_det` guard), i.e. also for the real
builds that trip the guard (377 of 864 720 in the harness runs) and were outside
`c01_c02_pg_rooted` / `c01_c02_pg_embeddings`.  Namespace `Pm.TBL`.  The port-graph analogue of
`Props/TBuildLStr.lean` / `Props/TBuildLMat.lean`; proofs in `Proofs/TBuildLPG.lean`.

* `pgTL_stateOK` — the lenient analogue of `pgProg_built_many`: EVERY automaton `buildTL` returns
  for single-root outputs of `constraint_vec` (other than the isolated-root vector) satisfies
  `AnchG.StateOK` in every live state, and none of its edges carries a corner constraint.  So NO
  per-program check `pgProgramOK` is needed.  (The step invariant `StrProg.SP` is carried through
  the lenient main loop under the conditional tree hypothesis `PGProg.TreeHypC` that `pgTree`
  satisfies: `TBLPG.mainLoopWith_biC`.)
* `pgTL_acc_sound` / `pgTL_acc_checked` / `pgTL_acc_guardE` — acceptance under the anchored
  truth assignment `AnchG.pgSigmaAnch' h r` (`pgTree` is faithful for it: `treeOK_sigma'`): no
  false positive for any `buildTL` log; exact given `accOK A`, resp. `guardE_ok …`.
* `c01_pg_lenientT` — **C01 for EVERY `buildTL` build, no check at all**.
* `c01_c02_pg_lenient_guardE`, `c01_c02_pg_lenient_checked` — statement shape of
  `c01_c02_pg_rooted`: the bindings reported for the `i`-th pattern are, up to the order of their
  entries, exactly the bindings of its key list from the live host nodes at which all its
  constraints hold.
* `c01_pg_lenientT_embeddings`, `c01_c02_pg_lenient_guardE_embeddings`,
  `c01_c02_pg_lenient_checked_embeddings` — statement shape of `c01_c02_pg_embeddings` (with
  T-DOM-PG `tdom_pg_iff_connected`): well-formed connected patterns, well-formed host; pattern `i`
  is reported exactly at the host nodes `r` such that it EMBEDS with its root sent to `r`.

For port graphs `accOK` is sound but incomplete (non-flat decompositions; it passes on ≈ 22 % of
the real outside builds), `guardE_ok` passed on every real outside build: the `_guardE` forms are
the ones to use.  NOT covered: the undisciplined `buildL` (any log) — there neither `StateOK` nor
"no corner constraint on an edge" is available from the build, and `pgProgramOK` does not check
the latter.
-/
import PmVerif.Proofs.TBuildLPG
import PmVerif.Props.TBuildLCore
import PmVerif.Props.PGProg
import PmVerif.Props.C08PG
namespace Pm
namespace TBL
open Automaton AnchG

/-- The builder inputs of a list of rooted port-graph patterns. -/
def pgInputs (pats : List (PortGraph × Nat)) : Option (List (Nat × List PGCons × List PGKey)) :=
  manyInputs (K := PGKey) (P := PGPred) (fun p : PortGraph × Nat => pgConstraints p.1 p.2)
    (fun _ => ([] : List PGKey)) true pats 0

section Built
variable {pats : List (PortGraph × Nat)} {inputs : List (Nat × List PGCons × List PGKey)}

/-- "Every root has a link, or its graph has none" excludes the isolated-root vector. -/
theorem pg_hiso (hiso : ∀ p ∈ pats, p.1.edgeCount = 0 ∨ p.1.allLinks p.2 ≠ []) :
    ∀ p ∈ pats, pgConstraints p.1 p.2 ≠ some PGProg.pgIsolatedVec := by
  intro p hp hc
  obtain ⟨h1, h2⟩ := (PGProg.pgConstraints_isolated_iff p.1 p.2).1 hc
  rcases hiso p hp with h3 | h3
  · exact h1 h3
  · exact h3 h2

/-- What `pgInputs` hands to the builder. -/
theorem pg_inputs_ok
    (hsr : ∀ p ∈ pats, ∀ cs, pgConstraints p.1 p.2 = some cs → pgSigMultiRoot cs = false)
    (hiso : ∀ p ∈ pats, p.1.edgeCount = 0 ∨ p.1.allLinks p.2 ≠ [])
    (hi : pgInputs pats = some inputs) :
    (∀ p ∈ inputs, ∀ c ∈ p.2.1, PGProg.CQ c) ∧ (∀ p ∈ inputs, p.2.2 = []) ∧
    (∀ p ∈ inputs,
      (pats.map fun p : PortGraph × Nat => pgConstraints p.1 p.2)[p.1]? = some (some p.2.1)) :=
  PGProg.many_inputs_ok (fun p : PortGraph × Nat => pgConstraints p.1 p.2) true pats
    (fun p _ _ hc => ⟨p.1, p.2, hc⟩) hsr (pg_hiso hiso) hi

/-- Specification in terms of builder inputs = specification in terms of the pattern list. -/
theorem pgSpec_iff (hi : pgInputs pats = some inputs) (i : Nat) (R : List PGCons → Prop) :
    (∃ cs ex, (i, cs, ex) ∈ inputs ∧ R cs) ↔
      ∃ p cs, pats[i]? = some p ∧ pgConstraints p.1 p.2 = some cs ∧ R cs := by
  have hpos := c06_ids_are_positions (fun p : PortGraph × Nat => pgConstraints p.1 p.2)
    (fun _ => ([] : List PGKey)) true pats 0 inputs hi
  constructor
  · rintro ⟨cs, ex, hmem, hR⟩
    obtain ⟨k, p, hk, hj, hcv, _⟩ := (hpos i cs ex).mp hmem
    simp only [Nat.zero_add] at hj
    subst hj
    exact ⟨p, cs, hk, hcv, hR⟩
  · rintro ⟨p, cs, hk, hcv, hR⟩
    exact ⟨cs, [], (hpos i cs []).mpr ⟨i, p, hk, by simp, hcv, rfl⟩, hR⟩

/-- **Every automaton returned by the disciplined LENIENT build of single-root port-graph patterns
is an OK program** (the lenient `pgProg_built_many`), and its edges carry no corner constraint. -/
theorem pgTL_stateOK (evs : List Ev) (fuelT fuel : Nat) (A : Automaton PGKey PGPred)
    (hsr : ∀ p ∈ pats, ∀ cs, pgConstraints p.1 p.2 = some cs → pgSigMultiRoot cs = false)
    (hiso : ∀ p ∈ pats, p.1.edgeCount = 0 ∨ p.1.allLinks p.2 ≠ [])
    (hi : pgInputs pats = some inputs)
    (hb : buildTL (fun cs => pgTree cs fuelT) pgReq fuel inputs evs = .ok A) :
    (∀ s w, A.g.weight? s = some w →
      AnchG.StateOK A (pats.map fun p : PortGraph × Nat => pgConstraints p.1 p.2) s w) ∧
    (∀ t e c, A.g.edge? t = some e → e.w = some c → pgNoCorner c = true) := by
  obtain ⟨_, hex, hcss⟩ := pg_inputs_ok hsr hiso hi
  rw [C08.buildTL_eq_buildWith] at hb
  obtain ⟨hok, hq⟩ := TBLPG.pgStateOK_builtWith
    (pats.map fun p : PortGraph × Nat => pgConstraints p.1 p.2)
    C08.detOK_makeDetL C08.detMFrom_makeDetL
    (by
      intro i cs hcs
      rw [List.getElem?_map] at hcs
      cases hp : pats[i]? with
      | none => rw [hp] at hcs; cases hcs
      | some p =>
        rw [hp] at hcs
        simp only [Option.map_some, Option.some.injEq] at hcs
        have hpm : p ∈ pats := List.mem_of_getElem? hp
        exact PGProg.pgConstraints_CQ hcs (hsr p hpm cs hcs)
          (fun e => pg_hiso hiso p hpm (e ▸ hcs)))
    (fun x hx => ⟨hcss x hx, hex x hx⟩) hb
  exact ⟨hok, fun t e c he hc => PGProg.noCorner_of_noUnary (hq t e c he hc).nu⟩

/-! ### acceptance under the anchored truth assignments -/

/-- No false positive at the automaton level, every log of the Rust loop. -/
theorem pgTL_acc_sound (evs : List Ev) (fuelT fuel : Nat) (A : Automaton PGKey PGPred)
    (hb : buildTL (fun cs => pgTree cs fuelT) pgReq fuel inputs evs = .ok A)
    (h : PortGraph) (r i : Nat) (hacc : AccDet (pgSigmaAnch' h r) A A.root i) :
    ∃ cs extra, (i, cs, extra) ∈ inputs ∧ ∀ c ∈ cs, pgSigmaAnch' h r c = true :=
  buildTL_acc_sound _ _ _ _ _ A _ (treeOK_sigma' h r fuelT) hb i hacc

/-- Exact acceptance for every build of the Rust loop whose automaton passes `accOK`. -/
theorem pgTL_acc_checked (evs : List Ev) (fuelT fuel : Nat) (A : Automaton PGKey PGPred)
    (hb : buildTL (fun cs => pgTree cs fuelT) pgReq fuel inputs evs = .ok A)
    (hc : accOK A = true) (h : PortGraph) (r i : Nat) :
    AccDet (pgSigmaAnch' h r) A A.root i ↔
      ∃ cs extra, (i, cs, extra) ∈ inputs ∧ ∀ c ∈ cs, pgSigmaAnch' h r c = true :=
  buildTL_acc_checked _ _ _ _ _ A hb hc _ (treeOK_sigma' h r fuelT) i

/-- Exact acceptance for every log of the Rust loop that passes guard E. -/
theorem pgTL_acc_guardE (evs : List Ev) (fuelT fuel : Nat) (A : Automaton PGKey PGPred)
    (hb : buildTL (fun cs => pgTree cs fuelT) pgReq fuel inputs evs = .ok A)
    (hg : guardE_ok (fun cs => pgTree cs fuelT) pgReq fuel inputs evs = true)
    (h : PortGraph) (r i : Nat) :
    AccDet (pgSigmaAnch' h r) A A.root i ↔
      ∃ cs extra, (i, cs, extra) ∈ inputs ∧ ∀ c ∈ cs, pgSigmaAnch' h r c = true :=
  buildTL_acc_partial _ _ _ _ _ A _ (treeOK_sigma' h r fuelT) hb hg i

/-! ### from acceptance to the reported bindings -/

/-- The builder-input form of the right-hand side, in terms of the pattern list (`constraint_vec`
never returns the empty vector). -/
theorem pg_rhs_iff (hi : pgInputs pats = some inputs) (h : PortGraph) (i : Nat) (m : PGMap) :
    (∃ cs ex, (i, cs, ex) ∈ inputs ∧
      ((cs = [] ∧ m = []) ∨
       (cs ≠ [] ∧ ∃ r, r ∈ h.nodesIter ∧ (∀ c ∈ cs, pgSigmaAnch h r c = true) ∧
         (∀ k ∈ pgPatternKeys cs, (pgVal h r k).isSome = true) ∧
         MapGets m (pgPatternKeys cs) (pgVal h r)))) ↔
      ∃ p cs, pats[i]? = some p ∧ pgConstraints p.1 p.2 = some cs ∧
        ∃ r, r ∈ h.nodesIter ∧ (∀ c ∈ cs, pgSigmaAnch h r c = true) ∧
          (∀ k ∈ pgPatternKeys cs, (pgVal h r k).isSome = true) ∧
          MapGets m (pgPatternKeys cs) (pgVal h r) := by
  rw [pgSpec_iff hi i]
  constructor
  · rintro ⟨p, cs, hk, hcv, hcase⟩
    rcases hcase with ⟨rfl, _⟩ | ⟨_, hrest⟩
    · exact absurd rfl (pgConstraints_ne_nil hcv)
    · exact ⟨p, cs, hk, hcv, hrest⟩
  · rintro ⟨p, cs, hk, hcv, hrest⟩
    exact ⟨p, cs, hk, hcv, .inr ⟨pgConstraints_ne_nil hcv, hrest⟩⟩

/-- Soundness of the traversal of a `buildTL` automaton from soundness of its acceptance. -/
theorem pgTL_run_sound_of_acc (evs : List Ev) (fuelT fuel fuel' : Nat)
    (A : Automaton PGKey PGPred) (h : PortGraph) (ms : List (Match PGMap))
    (seen : List (Nat × List (Option Nat)))
    (hsr : ∀ p ∈ pats, ∀ cs, pgConstraints p.1 p.2 = some cs → pgSigMultiRoot cs = false)
    (hiso : ∀ p ∈ pats, p.1.edgeCount = 0 ∨ p.1.allLinks p.2 ≠ [])
    (hi : pgInputs pats = some inputs)
    (hb : buildTL (fun cs => pgTree cs fuelT) pgReq fuel inputs evs = .ok A)
    (hr : run pgDomain A h fuel' = .ok (ms, seen)) (i : Nat)
    (hsound : ∀ r, AccDet (pgSigmaAnch' h r) A A.root i →
      ∃ cs extra, (i, cs, extra) ∈ inputs ∧ ∀ c ∈ cs, pgSigmaAnch' h r c = true)
    (m : PGMap) (hm : ∃ m', (i, m') ∈ ms ∧ MapEqv m' m) :
    ∃ p cs, pats[i]? = some p ∧ pgConstraints p.1 p.2 = some cs ∧
      ∃ r, r ∈ h.nodesIter ∧ (∀ c ∈ cs, pgSigmaAnch h r c = true) ∧
        (∀ k ∈ pgPatternKeys cs, (pgVal h r k).isSome = true) ∧
        MapGets m (pgPatternKeys cs) (pgVal h r) := by
  obtain ⟨hq, _, hcss⟩ := pg_inputs_ok hsr hiso hi
  obtain ⟨hok, hedge⟩ := pgTL_stateOK evs fuelT fuel A hsr hiso hi hb
  exact (pg_rhs_iff hi h i m).mp
    (TBLPG.pg_run_sound_of_acc fuel' ms seen
      (fun p hp c hc => PGProg.noCorner_of_noUnary (hq p hp c hc).nu) hedge hcss hok hr i hsound
      m hm)

/-- The traversal of a `buildTL` automaton reports exactly the specified bindings as soon as its
acceptance is exact. -/
theorem pgTL_run_of_acc (evs : List Ev) (fuelT fuel fuel' : Nat)
    (A : Automaton PGKey PGPred) (h : PortGraph) (ms : List (Match PGMap))
    (seen : List (Nat × List (Option Nat)))
    (hsr : ∀ p ∈ pats, ∀ cs, pgConstraints p.1 p.2 = some cs → pgSigMultiRoot cs = false)
    (hiso : ∀ p ∈ pats, p.1.edgeCount = 0 ∨ p.1.allLinks p.2 ≠ [])
    (hi : pgInputs pats = some inputs)
    (hb : buildTL (fun cs => pgTree cs fuelT) pgReq fuel inputs evs = .ok A)
    (hr : run pgDomain A h fuel' = .ok (ms, seen)) (i : Nat)
    (hacc : ∀ r, AccDet (pgSigmaAnch' h r) A A.root i ↔
      ∃ cs extra, (i, cs, extra) ∈ inputs ∧ ∀ c ∈ cs, pgSigmaAnch' h r c = true)
    (m : PGMap) :
    (∃ m', (i, m') ∈ ms ∧ MapEqv m' m) ↔
      ∃ p cs, pats[i]? = some p ∧ pgConstraints p.1 p.2 = some cs ∧
        ∃ r, r ∈ h.nodesIter ∧ (∀ c ∈ cs, pgSigmaAnch h r c = true) ∧
          (∀ k ∈ pgPatternKeys cs, (pgVal h r k).isSome = true) ∧
          MapGets m (pgPatternKeys cs) (pgVal h r) := by
  obtain ⟨hq, _, hcss⟩ := pg_inputs_ok hsr hiso hi
  obtain ⟨hok, hedge⟩ := pgTL_stateOK evs fuelT fuel A hsr hiso hi hb
  exact (TBLPG.pg_run_of_acc fuel' ms seen
    (fun p hp c hc => PGProg.noCorner_of_noUnary (hq p hp c hc).nu) hedge hcss hok hr i hacc
    m).trans (pg_rhs_iff hi h i m)

end Built

/-! ### the end-to-end statements, shape of `c01_c02_pg_rooted` -/

/-- **C01 for EVERY build of the Rust loop, single-root port graphs, no check at all**: whatever
the log `buildTL` accepts (in particular every real build that trips the `make_det` guard), every
binding `find_matches` reports for the `i`-th pattern on any host is — up to the order of its
entries — the binding of the pattern's key list from a live host node at which all constraints of
the pattern hold. -/
theorem c01_pg_lenientT (pats : List (PortGraph × Nat)) (evs : List Ev)
    (fuelT fuel fuel' : Nat) (inputs : List (Nat × List PGCons × List PGKey))
    (A : Automaton PGKey PGPred) (h : PortGraph) (ms : List (Match PGMap))
    (seen : List (Nat × List (Option Nat)))
    (hsr : ∀ p ∈ pats, ∀ cs, pgConstraints p.1 p.2 = some cs → pgSigMultiRoot cs = false)
    (hiso : ∀ p ∈ pats, p.1.edgeCount = 0 ∨ p.1.allLinks p.2 ≠ [])
    (hi : pgInputs pats = some inputs)
    (hb : buildTL (fun cs => pgTree cs fuelT) pgReq fuel inputs evs = .ok A)
    (hr : run pgDomain A h fuel' = .ok (ms, seen)) (i : Nat) (m : PGMap)
    (hm : ∃ m', (i, m') ∈ ms ∧ MapEqv m' m) :
    ∃ p cs, pats[i]? = some p ∧ pgConstraints p.1 p.2 = some cs ∧
      ∃ r, r ∈ h.nodesIter ∧ (∀ c ∈ cs, pgSigmaAnch h r c = true) ∧
        (∀ k ∈ pgPatternKeys cs, (pgVal h r k).isSome = true) ∧
        MapGets m (pgPatternKeys cs) (pgVal h r) :=
  pgTL_run_sound_of_acc evs fuelT fuel fuel' A h ms seen hsr hiso hi hb hr i
    (fun r => pgTL_acc_sound evs fuelT fuel A hb h r i) m hm

/-- **C01 + C02 for every log of the Rust loop passing `guardE_ok`, single-root port graphs**
(`c01_c02_pg_rooted` beyond the `make_det` guard): `run` reports — up to the order of the entries
of the bindings — for the `i`-th pattern with constraint vector `cs` exactly the bindings of
`pgPatternKeys cs` from the live host nodes `r` at which all constraints hold and all keys are
defined.  No `pgProgramOK`, no `accOK`. -/
theorem c01_c02_pg_lenient_guardE (pats : List (PortGraph × Nat)) (evs : List Ev)
    (fuelT fuel fuel' : Nat) (inputs : List (Nat × List PGCons × List PGKey))
    (A : Automaton PGKey PGPred) (h : PortGraph) (ms : List (Match PGMap))
    (seen : List (Nat × List (Option Nat)))
    (hsr : ∀ p ∈ pats, ∀ cs, pgConstraints p.1 p.2 = some cs → pgSigMultiRoot cs = false)
    (hiso : ∀ p ∈ pats, p.1.edgeCount = 0 ∨ p.1.allLinks p.2 ≠ [])
    (hi : pgInputs pats = some inputs)
    (hb : buildTL (fun cs => pgTree cs fuelT) pgReq fuel inputs evs = .ok A)
    (hg : guardE_ok (fun cs => pgTree cs fuelT) pgReq fuel inputs evs = true)
    (hr : run pgDomain A h fuel' = .ok (ms, seen)) (i : Nat) (m : PGMap) :
    (∃ m', (i, m') ∈ ms ∧ MapEqv m' m) ↔
      ∃ p cs, pats[i]? = some p ∧ pgConstraints p.1 p.2 = some cs ∧
        ∃ r, r ∈ h.nodesIter ∧ (∀ c ∈ cs, pgSigmaAnch h r c = true) ∧
          (∀ k ∈ pgPatternKeys cs, (pgVal h r k).isSome = true) ∧
          MapGets m (pgPatternKeys cs) (pgVal h r) :=
  pgTL_run_of_acc evs fuelT fuel fuel' A h ms seen hsr hiso hi hb hr i
    (fun r => pgTL_acc_guardE evs fuelT fuel A hb hg h r i) m

/-- **C01 + C02 per build of the Rust loop, single-root port graphs**: the same for every
`buildTL` automaton that passes `accOK` (sound but incomplete for port graphs). -/
theorem c01_c02_pg_lenient_checked (pats : List (PortGraph × Nat)) (evs : List Ev)
    (fuelT fuel fuel' : Nat) (inputs : List (Nat × List PGCons × List PGKey))
    (A : Automaton PGKey PGPred) (h : PortGraph) (ms : List (Match PGMap))
    (seen : List (Nat × List (Option Nat)))
    (hsr : ∀ p ∈ pats, ∀ cs, pgConstraints p.1 p.2 = some cs → pgSigMultiRoot cs = false)
    (hiso : ∀ p ∈ pats, p.1.edgeCount = 0 ∨ p.1.allLinks p.2 ≠ [])
    (hi : pgInputs pats = some inputs)
    (hb : buildTL (fun cs => pgTree cs fuelT) pgReq fuel inputs evs = .ok A)
    (hc : accOK A = true)
    (hr : run pgDomain A h fuel' = .ok (ms, seen)) (i : Nat) (m : PGMap) :
    (∃ m', (i, m') ∈ ms ∧ MapEqv m' m) ↔
      ∃ p cs, pats[i]? = some p ∧ pgConstraints p.1 p.2 = some cs ∧
        ∃ r, r ∈ h.nodesIter ∧ (∀ c ∈ cs, pgSigmaAnch h r c = true) ∧
          (∀ k ∈ pgPatternKeys cs, (pgVal h r k).isSome = true) ∧
          MapGets m (pgPatternKeys cs) (pgVal h r) :=
  pgTL_run_of_acc evs fuelT fuel fuel' A h ms seen hsr hiso hi hb hr i
    (fun r => pgTL_acc_checked evs fuelT fuel A hb hc h r i) m

/-! ### the end-to-end statements, shape of `c01_c02_pg_embeddings` -/

section Emb
variable {pats : List (PortGraph × Nat)} {h : PortGraph}

/-- Connected well-formed patterns never produce the isolated-root vector. -/
theorem pg_hiso_of_wf
    (hwf : ∀ p ∈ pats, p.1.LinksOK ∧ pgConnected p.1 = true ∧ (p.1.node? p.2).isSome = true) :
    ∀ p ∈ pats, p.1.edgeCount = 0 ∨ p.1.allLinks p.2 ≠ [] := fun p hp =>
  pg_root_has_link_of_connected p.1 p.2 (hwf p hp).1 (hwf p hp).2.1 (hwf p hp).2.2

/-- T-DOM-PG: "all constraints hold at the anchor `r`" is "the pattern embeds with its root sent
to `r`" (the step from `c01_c02_pg_rooted` to `c01_c02_pg_embeddings`). -/
theorem pg_sat_iff_embeds
    (hwf : ∀ p ∈ pats, p.1.LinksOK ∧ pgConnected p.1 = true ∧ (p.1.node? p.2).isSome = true)
    (hsr : ∀ p ∈ pats, ∀ cs, pgConstraints p.1 p.2 = some cs → pgSigMultiRoot cs = false)
    (hh : h.LinksOK) (i : Nat) (m : PGMap) :
    (∃ p cs, pats[i]? = some p ∧ pgConstraints p.1 p.2 = some cs ∧
      ∃ r, r ∈ h.nodesIter ∧ (∀ c ∈ cs, pgSigmaAnch h r c = true) ∧
        (∀ k ∈ pgPatternKeys cs, (pgVal h r k).isSome = true) ∧
        MapGets m (pgPatternKeys cs) (pgVal h r)) ↔
      ∃ p cs, pats[i]? = some p ∧ pgConstraints p.1 p.2 = some cs ∧
        ∃ r φ, embedsPG p.1 h φ = true ∧ alGet φ p.2 = some r ∧
          MapGets m (pgPatternKeys cs) (pgVal h r) := by
  constructor
  · rintro ⟨p, cs, hi, hcs, r, hrn, hsat, _, hmap⟩
    have hp : p ∈ pats := List.mem_of_getElem? hi
    obtain ⟨hl, hcn, hrt⟩ := hwf p hp
    have hrl : (h.node? r).isSome = true := (PortGraph.mem_nodesIter h r).1 hrn
    obtain ⟨φ, hemb, hroot⟩ := (tdom_pg_iff_connected p.1 h p.2 r cs hl hcn hrt hh hrl hcs
      (hsr p hp cs hcs)).1 hsat
    exact ⟨p, cs, hi, hcs, r, φ, hemb, hroot, hmap⟩
  · rintro ⟨p, cs, hi, hcs, r, φ, hemb, hroot, hmap⟩
    have hp : p ∈ pats := List.mem_of_getElem? hi
    obtain ⟨hl, hcn, hrt⟩ := hwf p hp
    have hrl : (h.node? r).isSome = true :=
      ((embedsPG_iff p.1 h φ).1 hemb).2.2.1 (p.2, r) (PGDom.alGet_mem hroot)
    have hsat := (tdom_pg_iff_connected p.1 h p.2 r cs hl hcn hrt hh hrl hcs
      (hsr p hp cs hcs)).2 ⟨φ, hemb, hroot⟩
    exact ⟨p, cs, hi, hcs, r, (PortGraph.mem_nodesIter h r).2 hrl, hsat,
      pgKeys_defined_of_sat h r cs hsat, hmap⟩

end Emb

/-- **C01 for EVERY build of the Rust loop, in terms of embeddings, no check at all**: for
well-formed connected single-root patterns and a well-formed host, every binding reported for the
`i`-th pattern is — up to the order of its entries — the binding of its key list to the nodes the
host walks reach from a host node `r` such that the pattern EMBEDS with its root sent to `r`. -/
theorem c01_pg_lenientT_embeddings (pats : List (PortGraph × Nat)) (evs : List Ev)
    (fuelT fuel fuel' : Nat) (inputs : List (Nat × List PGCons × List PGKey))
    (A : Automaton PGKey PGPred) (h : PortGraph) (ms : List (Match PGMap))
    (seen : List (Nat × List (Option Nat)))
    (hwf : ∀ p ∈ pats, p.1.LinksOK ∧ pgConnected p.1 = true ∧ (p.1.node? p.2).isSome = true)
    (hsr : ∀ p ∈ pats, ∀ cs, pgConstraints p.1 p.2 = some cs → pgSigMultiRoot cs = false)
    (hh : h.LinksOK)
    (hi : pgInputs pats = some inputs)
    (hb : buildTL (fun cs => pgTree cs fuelT) pgReq fuel inputs evs = .ok A)
    (hr : run pgDomain A h fuel' = .ok (ms, seen)) (i : Nat) (m : PGMap)
    (hm : ∃ m', (i, m') ∈ ms ∧ MapEqv m' m) :
    ∃ p cs, pats[i]? = some p ∧ pgConstraints p.1 p.2 = some cs ∧
      ∃ r φ, embedsPG p.1 h φ = true ∧ alGet φ p.2 = some r ∧
        MapGets m (pgPatternKeys cs) (pgVal h r) :=
  (pg_sat_iff_embeds hwf hsr hh i m).mp
    (c01_pg_lenientT pats evs fuelT fuel fuel' inputs A h ms seen hsr (pg_hiso_of_wf hwf) hi hb hr
      i m hm)

/-- **C01 + C02 for every log of the Rust loop passing `guardE_ok`, in terms of embeddings**
(`c01_c02_pg_embeddings` beyond the `make_det` guard). -/
theorem c01_c02_pg_lenient_guardE_embeddings (pats : List (PortGraph × Nat)) (evs : List Ev)
    (fuelT fuel fuel' : Nat) (inputs : List (Nat × List PGCons × List PGKey))
    (A : Automaton PGKey PGPred) (h : PortGraph) (ms : List (Match PGMap))
    (seen : List (Nat × List (Option Nat)))
    (hwf : ∀ p ∈ pats, p.1.LinksOK ∧ pgConnected p.1 = true ∧ (p.1.node? p.2).isSome = true)
    (hsr : ∀ p ∈ pats, ∀ cs, pgConstraints p.1 p.2 = some cs → pgSigMultiRoot cs = false)
    (hh : h.LinksOK)
    (hi : pgInputs pats = some inputs)
    (hb : buildTL (fun cs => pgTree cs fuelT) pgReq fuel inputs evs = .ok A)
    (hg : guardE_ok (fun cs => pgTree cs fuelT) pgReq fuel inputs evs = true)
    (hr : run pgDomain A h fuel' = .ok (ms, seen)) (i : Nat) (m : PGMap) :
    (∃ m', (i, m') ∈ ms ∧ MapEqv m' m) ↔
      ∃ p cs, pats[i]? = some p ∧ pgConstraints p.1 p.2 = some cs ∧
        ∃ r φ, embedsPG p.1 h φ = true ∧ alGet φ p.2 = some r ∧
          MapGets m (pgPatternKeys cs) (pgVal h r) :=
  (c01_c02_pg_lenient_guardE pats evs fuelT fuel fuel' inputs A h ms seen hsr (pg_hiso_of_wf hwf)
    hi hb hg hr i m).trans (pg_sat_iff_embeds hwf hsr hh i m)

/-- **C01 + C02 per build of the Rust loop (`accOK`), in terms of embeddings.** -/
theorem c01_c02_pg_lenient_checked_embeddings (pats : List (PortGraph × Nat)) (evs : List Ev)
    (fuelT fuel fuel' : Nat) (inputs : List (Nat × List PGCons × List PGKey))
    (A : Automaton PGKey PGPred) (h : PortGraph) (ms : List (Match PGMap))
    (seen : List (Nat × List (Option Nat)))
    (hwf : ∀ p ∈ pats, p.1.LinksOK ∧ pgConnected p.1 = true ∧ (p.1.node? p.2).isSome = true)
    (hsr : ∀ p ∈ pats, ∀ cs, pgConstraints p.1 p.2 = some cs → pgSigMultiRoot cs = false)
    (hh : h.LinksOK)
    (hi : pgInputs pats = some inputs)
    (hb : buildTL (fun cs => pgTree cs fuelT) pgReq fuel inputs evs = .ok A)
    (hc : accOK A = true)
    (hr : run pgDomain A h fuel' = .ok (ms, seen)) (i : Nat) (m : PGMap) :
    (∃ m', (i, m') ∈ ms ∧ MapEqv m' m) ↔
      ∃ p cs, pats[i]? = some p ∧ pgConstraints p.1 p.2 = some cs ∧
        ∃ r φ, embedsPG p.1 h φ = true ∧ alGet φ p.2 = some r ∧
          MapGets m (pgPatternKeys cs) (pgVal h r) :=
  (c01_c02_pg_lenient_checked pats evs fuelT fuel fuel' inputs A h ms seen hsr (pg_hiso_of_wf hwf)
    hi hb hc hr i m).trans (pg_sat_iff_embeds hwf hsr hh i m)

/-! ### non-vacuity -/

set_option maxRecDepth 100000 in
/-- The hypotheses of the theorems above hold of the complete disciplined log `c08PGExEvents`
(`Props/C08PG.lean`) for the edge pattern and the path pattern: the lenient build succeeds, guard E
holds on the log and the automaton passes `accOK`.  (An ordinary build, inside the `make_det`
guard: no real port-graph log outside the guard is replayed here.) -/
theorem ExPG.all_checks : ∃ inputs A, pgInputs exPGPatterns = some inputs ∧
    buildTL (fun cs => pgTree cs 50) pgReq 50 inputs c08PGExEvents = .ok A ∧
    guardE_ok (fun cs => pgTree cs 50) pgReq 50 inputs c08PGExEvents = true ∧ accOK A = true :=
  ⟨_, _, rfl, rfl, by rfl, by rfl⟩

/-- … so `c01_c02_pg_lenient_guardE_embeddings` applies: whenever the traversal of that automaton
returns, on ANY well-formed host, it reports exactly the embeddings. -/
theorem ExPG.exact (h : PortGraph) (hh : h.LinksOK) (fuel' : Nat) (ms : List (Match PGMap))
    (seen : List (Nat × List (Option Nat))) :
    ∃ inputs A, pgInputs exPGPatterns = some inputs ∧
      buildTL (fun cs => pgTree cs 50) pgReq 50 inputs c08PGExEvents = .ok A ∧
      (run pgDomain A h fuel' = .ok (ms, seen) → ∀ i m,
        ((∃ m', (i, m') ∈ ms ∧ MapEqv m' m) ↔
          ∃ p cs, exPGPatterns[i]? = some p ∧ pgConstraints p.1 p.2 = some cs ∧
            ∃ r φ, embedsPG p.1 h φ = true ∧ alGet φ p.2 = some r ∧
              MapGets m (pgPatternKeys cs) (pgVal h r))) := by
  obtain ⟨inputs, A, hi, hb, hg, _⟩ := ExPG.all_checks
  exact ⟨inputs, A, hi, hb, fun hr i m =>
    c01_c02_pg_lenient_guardE_embeddings exPGPatterns c08PGExEvents 50 50 fuel' inputs A h ms seen
      (by decide) exPG_patterns_ok.1 hh hi hb hg hr i m⟩

end TBL
end Pm
