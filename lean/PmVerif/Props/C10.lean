/-
Props/C10.lean — property C10: the constraint trees returned by the built-in decompositions
(`charTree`, the table domain's `tTree`) and by the helper constructors (`withChildren`,
`withTransitiveMutex`, `withPairwiseMutex`, `withPowerset`) contain the smallest constraint, use
only valid indices and are faithful: following satisfied edges from the root reaches a node
labelled `i` iff constraint `i` holds. Only property theorems and non-vacuity examples live
here; the proofs are in `Proofs/TreeLemmas.lean`.
-/
import PmVerif.Proofs.TreeLemmas
namespace Pm
open CTree

/-! ## A. Depth-one trees -/
section DepthOne
variable {C : Type} [DecidableEq C]

/-- A label of `withChildren children` is reached iff some child carrying it has a satisfied
constraint (children with equal constraints share one node, their labels accumulate). -/
theorem c10_withChildren_reach (children : List (C × List Nat)) (σ : C → Bool) (i : Nat) :
    (CTree.withChildren children).reachLabel σ i = true ↔
      ∃ ch ∈ children, i ∈ ch.2 ∧ σ ch.1 = true :=
  withChildren_reach children σ i

theorem c10_withChildren_labels (children : List (C × List Nat)) (i : Nat) :
    i ∈ (CTree.withChildren children).allLabels ↔ ∃ ch ∈ children, i ∈ ch.2 :=
  withChildren_labels children i

/-- **C10 for `with_transitive_mutex`**, for any relation `isMutex`: valid labels, the first
(smallest) constraint is present, and faithfulness when the indices are distinct. -/
theorem c10_transitive_mutex (cs : List (C × Nat)) (isMutex : C → C → Bool) (σ : C → Bool) :
    (∀ l ∈ (CTree.withTransitiveMutex cs isMutex).allLabels, ∃ c, (c, l) ∈ cs) ∧
    (∀ c₀ i₀ rest, cs = (c₀, i₀) :: rest → i₀ ∈ (CTree.withTransitiveMutex cs isMutex).allLabels) ∧
    ((cs.map (·.2)).Nodup → ∀ c i, (c, i) ∈ cs →
      i ∈ (CTree.withTransitiveMutex cs isMutex).allLabels →
      ((CTree.withTransitiveMutex cs isMutex).reachLabel σ i = true ↔ σ c = true)) := by
  obtain ⟨kept, p, hsub, hhead⟩ := withTransitiveMutex_pairs cs isMutex
  obtain ⟨h1, h2, h3⟩ := p.clauses hsub σ
  exact ⟨h1, fun c₀ i₀ rest hcs => h2 (c₀, i₀) (hhead _ _ hcs), h3⟩

/-- **C10 for `with_pairwise_mutex`**, for any relation `isMutex`. -/
theorem c10_pairwise_mutex (cs : List (C × Nat)) (isMutex : C → C → Bool) (σ : C → Bool) :
    (∀ l ∈ (CTree.withPairwiseMutex cs isMutex).allLabels, ∃ c, (c, l) ∈ cs) ∧
    (∀ c₀ i₀ rest, cs = (c₀, i₀) :: rest → i₀ ∈ (CTree.withPairwiseMutex cs isMutex).allLabels) ∧
    ((cs.map (·.2)).Nodup → ∀ c i, (c, i) ∈ cs →
      i ∈ (CTree.withPairwiseMutex cs isMutex).allLabels →
      ((CTree.withPairwiseMutex cs isMutex).reachLabel σ i = true ↔ σ c = true)) := by
  obtain ⟨kept, p, hsub, hhead⟩ := withPairwiseMutex_pairs cs isMutex
  obtain ⟨h1, h2, h3⟩ := p.clauses hsub σ
  exact ⟨h1, fun c₀ i₀ rest hcs => h2 (c₀, i₀) (hhead _ _ hcs), h3⟩

end DepthOne

section Sorting
variable {α : Type}

/-- `sort_with_indices` permutes the values paired with their original positions; hence the
indices are distinct and each pairs a value with the position it came from. -/
theorem c10_sort_perm (le : α → α → Bool) (xs : List α) :
    (sortWithIndices le xs).Perm (xs.zip (List.range xs.length)) ∧
    ((sortWithIndices le xs).map (·.2)).Nodup ∧
    (∀ x i, (x, i) ∈ sortWithIndices le xs ↔ xs[i]? = some x) :=
  ⟨sortWithIndices_perm le xs, sortWithIndices_nodup le xs, mem_sortWithIndices le xs⟩

/-- Under a total preorder the head of `sort_with_indices` is a minimum, and (stability) it is
the first of the elements equivalent to it. -/
theorem c10_sort_head_min {le : α → α → Bool} (tp : TotalPreorder le) (xs : List α)
    {x : α} {i : Nat} {rest : List (α × Nat)} (h : sortWithIndices le xs = (x, i) :: rest) :
    (∀ y ∈ xs, le x y = true) ∧ (∀ j y, xs[j]? = some y → le y x = true → i ≤ j) :=
  sortWithIndices_head_min tp xs h

/-- The whole output is sorted, ties in original order. -/
theorem c10_sort_sorted {le : α → α → Bool} (tp : TotalPreorder le) (xs : List α) :
    (sortWithIndices le xs).Pairwise
      fun a b => le a.1 b.1 = true ∧ (le b.1 a.1 = true → a.2 < b.2) :=
  sortWithIndices_sorted tp xs

end Sorting

/-- **C10 for `CharacterPredicate::to_constraints_tree`** (strings and matrices): valid indices,
faithfulness on every label, and the smallest constraint (head of the sorted list) is present. -/
theorem c10_charTree {K : Type} [DecidableEq K] (lt : K → K → Bool)
    (cs : List (Constraint K CharPred)) (t : CTree (Constraint K CharPred))
    (σ : Constraint K CharPred → Bool) (h : charTree lt cs = some t) :
    (∀ i ∈ t.allLabels, i < cs.length) ∧
    (∀ i ∈ t.allLabels, ∀ c, cs[i]? = some c → (t.reachLabel σ i = true ↔ σ c = true)) ∧
    (cs ≠ [] → ∃ x xs, sortWithIndices (strConsLe lt) cs = x :: xs ∧ x.2 ∈ t.allLabels) := by
  obtain ⟨kept, p, hsub, hhead⟩ := charTree_pairs lt cs t h
  exact p.sortedClauses (strConsLe lt) cs hsub hhead σ

/-- `to_constraints_tree` does not panic on arity-correct constraints. -/
theorem c10_charTree_total {K : Type} [DecidableEq K] (lt : K → K → Bool)
    (cs : List (Constraint K CharPred)) (har : ∀ c ∈ cs, c.args.length = c.pred.arity) :
    (charTree lt cs).isSome = true :=
  charTree_isSome lt cs har

/-- **C10 for the table domain's depth-one strategies** (`0` first only, `1` transitive mutex,
`2` pairwise mutex). -/
theorem c10_tTree_depth1 (s : Nat) (hs : s = 0 ∨ s = 1 ∨ s = 2) (cs : List TCons) (fuel : Nat)
    (t : CTree TCons) (σ : TCons → Bool) (h : tTree s cs fuel = some t) :
    (∀ i ∈ t.allLabels, i < cs.length) ∧
    (∀ i ∈ t.allLabels, ∀ c, cs[i]? = some c → (t.reachLabel σ i = true ↔ σ c = true)) ∧
    (cs ≠ [] → ∃ x xs, sortWithIndices tconsLe cs = x :: xs ∧ x.2 ∈ t.allLabels) := by
  obtain ⟨kept, p, hsub, hhead⟩ := tTree_pairs s (by omega) cs fuel t h
  exact p.sortedClauses tconsLe cs hsub hhead σ

/-! ## B. Powerset trees -/
section Powerset
variable {C : Type} [DecidableEq C]

/-- `with_powerset` terminates: `2^(n+1)` loop iterations suffice for `n` constraints. -/
theorem c10_powerset_terminates (cond : C → List C → Option C) (cs : List (C × Nat)) :
    ∃ fuel, ∀ fuel', fuel ≤ fuel' → (withPowerset cond cs fuel').isSome = true :=
  ⟨2 ^ (cs.length + 1), fun fuel' h => withPowerset_terminates cond cs fuel' h⟩

theorem c10_powerset_valid (cond : C → List C → Option C) (cs : List (C × Nat)) (fuel : Nat)
    (t : CTree C) (h : withPowerset cond cs fuel = some t) :
    ∀ l ∈ t.allLabels, ∃ c, (c, l) ∈ cs :=
  withPowerset_valid h

theorem c10_powerset_smallest (cond : C → List C → Option C) (cs : List (C × Nat)) (fuel : Nat)
    (t : CTree C) (h : withPowerset cond cs fuel = some t) (c₀ : C) (i₀ : Nat)
    (rest : List (C × Nat)) (hcs : cs = (c₀, i₀) :: rest) : i₀ ∈ t.allLabels :=
  withPowerset_smallest h hcs

/-- In fact every index of `cs` labels some node. -/
theorem c10_powerset_all_labels (cond : C → List C → Option C) (cs : List (C × Nat)) (fuel : Nat)
    (t : CTree C) (h : withPowerset cond cs fuel = some t) (c : C) (l : Nat)
    (hc : (c, l) ∈ cs) : l ∈ t.allLabels :=
  withPowerset_all_labels h hc

/-- **C10 for `with_powerset`**: under the conditioning law the tree is faithful for every
constraint of `cs` (all of which appear in the tree, `c10_powerset_all_labels`). -/
theorem c10_powerset_faithful (cond : C → List C → Option C) (cs : List (C × Nat)) (fuel : Nat)
    (t : CTree C) (σ : C → Bool) (hnd : (cs.map (·.2)).Nodup)
    (h : withPowerset cond cs fuel = some t) (law : CondLaw cond σ) :
    ∀ c l, (c, l) ∈ cs → l ∈ t.allLabels → (t.reachLabel σ l = true ↔ σ c = true) :=
  fun _ _ hc _ => withPowerset_faithful h (law.on _) hnd hc

/-- The same with the conditioning law only required on the constraints of `cs` (as `c`, and as
members of the `satisfied` list). -/
theorem c10_powerset_faithful_on (cond : C → List C → Option C) (cs : List (C × Nat)) (fuel : Nat)
    (t : CTree C) (σ : C → Bool) (hnd : (cs.map (·.2)).Nodup)
    (h : withPowerset cond cs fuel = some t)
    (law : CondLawOn cond σ (fun c => ∃ i, (c, i) ∈ cs)) :
    ∀ c l, (c, l) ∈ cs → (t.reachLabel σ l = true ↔ σ c = true) :=
  fun _ _ hc => withPowerset_faithful h law hnd hc

end Powerset

/-! ### The table domain's conditioning function -/

/-- `tSigma m c` is `c.is_satisfied(host, m) == Ok(true)` (the host plays no role). -/
theorem c10_tSigma_iff (m : TMap) (c : TCons) :
    tSigma m c = true ↔
      isSatisfied alGet TPred.check c (⟨false, []⟩ : THost) m = .ok (some true) :=
  tSigma_iff m c

/-- **Pointwise conditioning law for `tCond`**: for an arity-correct `c` whose argument keys are
bound in `m` and any `S` whose members hold under `m`, both clauses of `CondLaw` hold at `c S`.
(The members of `S` need no separate hypothesis: holding under `m` forces them to be
arity-correct and bound.) -/
theorem c10_tCond_law (m : TMap) (c : TCons) (S : List TCons)
    (harity : c.args.length = c.pred.arity) (hbound : ∀ k ∈ c.args, (alGet m k).isSome = true)
    (hS : ∀ s ∈ S, tSigma m s = true) :
    (tCond c S = none → tSigma m c = true) ∧
    (∀ c', tCond c S = some c' → tSigma m c' = tSigma m c) :=
  tCond_law m c S harity hbound hS

/-- **C10 for the table domain's powerset strategy** (`s ≥ 3`), end to end: on every binding
that binds the keys of the (arity-correct) constraints, the returned tree is faithful. -/
theorem c10_tTree_powerset (s : Nat) (hs : 3 ≤ s) (cs : List TCons) (fuel : Nat)
    (t : CTree TCons) (h : tTree s cs fuel = some t) (m : TMap)
    (hok : ∀ c ∈ cs, c.args.length = c.pred.arity ∧ ∀ k ∈ c.args, (alGet m k).isSome = true) :
    (∀ i ∈ t.allLabels, i < cs.length) ∧
    (∀ i ∈ t.allLabels, ∀ c, cs[i]? = some c →
      (t.reachLabel (tSigma m) i = true ↔ tSigma m c = true)) ∧
    (cs ≠ [] → ∃ x xs, sortWithIndices tconsLe cs = x :: xs ∧ x.2 ∈ t.allLabels) :=
  tTree_powerset hs h m hok

/-- The checker `faithfulAt` used by the harness is implied by the clauses above. -/
theorem c10_faithfulAt_of_clauses {C : Type} (t : CTree C) (cs : List C) (σ : C → Bool)
    (hvalid : ∀ i ∈ t.allLabels, i < cs.length)
    (hfaith : ∀ i ∈ t.allLabels, ∀ c, cs[i]? = some c → (t.reachLabel σ i = true ↔ σ c = true)) :
    t.faithfulAt cs σ = true :=
  faithfulAt_of_clauses t cs σ hvalid hfaith

/-- `tconsLe` (Rust's derived `Ord` on the sort key) is a total preorder, so
`c10_sort_head_min` applies to the table domain. -/
theorem c10_tconsLe_totalPreorder : TotalPreorder tconsLe := tconsLe_totalPreorder

/-- **Smallest constraint, table domain, every strategy**: the tree of a non-empty constraint
list contains the index of a `tconsLe`-minimal constraint (the first such in input order). -/
theorem c10_tTree_contains_min (s : Nat) (cs : List TCons) (fuel : Nat) (t : CTree TCons)
    (h : tTree s cs fuel = some t) (hne : cs ≠ []) :
    ∃ i c, i ∈ t.allLabels ∧ cs[i]? = some c ∧ (∀ y ∈ cs, tconsLe c y = true) ∧
      (∀ j y, cs[j]? = some y → tconsLe y c = true → i ≤ j) :=
  tTree_contains_min h hne

/-! ## Non-vacuity -/

/-- Three `notIn` constraints; the second is conditioned on the first (`notIn 2 [0,1,2]` becomes
`notIn 1 [0,2]` below the edge `notIn 1 [0,1]`). -/
example :
    withPowerset tCond
      [(⟨.notIn 1, [0, 1]⟩, 0), (⟨.notIn 2, [0, 1, 2]⟩, 1), (⟨.notIn 1, [3, 0]⟩, 2)] 20 =
    some ⟨[⟨[], [(⟨.notIn 1, [0, 1]⟩, 1), (⟨.notIn 2, [0, 1, 2]⟩, 2), (⟨.notIn 1, [3, 0]⟩, 4)]⟩,
           ⟨[0], [(⟨.notIn 1, [0, 2]⟩, 3), (⟨.notIn 1, [3, 0]⟩, 6)]⟩,
           ⟨[1], [(⟨.notIn 1, [3, 0]⟩, 5)]⟩,
           ⟨[1], [(⟨.notIn 1, [3, 0]⟩, 7)]⟩,
           ⟨[2], []⟩, ⟨[2], []⟩, ⟨[2], []⟩, ⟨[2], []⟩], true⟩ := by
  decide

/-- The table strategy `3` on these constraints, checked with `faithfulAt` on concrete bindings
(one satisfying all three constraints, one violating the second, one violating all). -/
example :
    (tTree 3 [⟨.notIn 1, [0, 1]⟩, ⟨.notIn 2, [0, 1, 2]⟩, ⟨.notIn 1, [3, 0]⟩] 20).map
      (fun t => (t.allLabels,
        t.faithfulAt [⟨.notIn 1, [0, 1]⟩, ⟨.notIn 2, [0, 1, 2]⟩, ⟨.notIn 1, [3, 0]⟩]
          (tSigma [(0, 5), (1, 6), (2, 7), (3, 8)]),
        t.reachLabel (tSigma [(0, 5), (1, 6), (2, 7), (3, 8)]) 1,
        t.faithfulAt [⟨.notIn 1, [0, 1]⟩, ⟨.notIn 2, [0, 1, 2]⟩, ⟨.notIn 1, [3, 0]⟩]
          (tSigma [(0, 5), (1, 6), (2, 5), (3, 8)]),
        t.reachLabel (tSigma [(0, 5), (1, 6), (2, 5), (3, 8)]) 1,
        t.faithfulAt [⟨.notIn 1, [0, 1]⟩, ⟨.notIn 2, [0, 1, 2]⟩, ⟨.notIn 1, [3, 0]⟩]
          (tSigma [(0, 5), (1, 5), (2, 5), (3, 5)]))) =
    some ([0, 1, 1, 2, 2, 2, 2], true, true, true, false, true) := by
  decide

/-- The hypotheses of `c10_tTree_powerset` are satisfiable, and `CondLaw` holds of the trivial
assignment (so the powerset theorems are not vacuous). -/
example : ∀ c ∈ ([⟨.notIn 1, [0, 1]⟩, ⟨.notIn 2, [0, 1, 2]⟩] : List TCons),
    c.args.length = c.pred.arity ∧
      ∀ k ∈ c.args, (alGet ([(0, 5), (1, 6), (2, 7)] : TMap) k).isSome = true := by
  decide

example : CondLaw tCond (fun _ => true) := condLaw_true tCond

/-- A depth-one example: equal constraints share a child, labels accumulate. -/
example :
    (CTree.withChildren [((7 : Nat), [0]), (8, [1]), (7, [2])]).allLabels = [0, 2, 1] ∧
    (CTree.withChildren [((7 : Nat), [0]), (8, [1]), (7, [2])]).reachLabel (fun c => c == 7) 2
      = true := by
  decide

end Pm
