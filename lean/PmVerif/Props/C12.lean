/-
Props/C12.lean — property C12: `missing_bindings` / `all_missing_bindings` list exactly the
unbound transitive prerequisites of the requested keys, without duplicates, prerequisites first.
Only property theorems live here; the proofs are in `Proofs/Missing.lean`.
-/
import PmVerif.Proofs.Missing
namespace Pm
variable {K : Type} [DecidableEq K] (req : K → List K)

/-- More fuel never changes a result. -/
theorem c12_fuel_mono (known : List K) (k : K) (fuel fuel' : Nat) (out : List K) :
    missingBindings req known k fuel = some out → fuel ≤ fuel' →
      missingBindings req known k fuel' = some out :=
  missingBindings_fuel_mono req known k fuel fuel' out

/-- A known key misses nothing. -/
theorem c12_known (known : List K) (k : K) (fuel : Nat) (hk : k ∈ known) :
    missingBindings req known k fuel = some [] := by
  simp only [missingBindings, hk, if_true]

/-- **C12, single key.** On an acyclic scheme `missing_bindings` terminates and its result
satisfies the three clauses of `MissingSpec`. -/
theorem c12_missing (hacy : RankAcyclic req) (known : List K) (k : K) :
    ∃ fuel out, missingBindings req known k fuel = some out ∧ MissingSpec req known [k] out :=
  missingBindings_spec req hacy known k

/-- Non-vacuity: the scheme `2 ↦ [0, 1]`, `1 ↦ [0]` is acyclic and the repaired algorithm lists
`0` before `1` before `2`. -/
example : RankAcyclic f1Scheme ∧ missingBindings f1Scheme [] 2 100 = some [0, 1, 2] :=
  ⟨f1Scheme_acyclic, by decide⟩

/-- Whatever fuel suffices, the result is the specified one. -/
theorem c12_missing_any_fuel (hacy : RankAcyclic req) (known : List K) (k : K) (fuel : Nat)
    (out : List K) :
    missingBindings req known k fuel = some out → MissingSpec req known [k] out := by
  intro h
  obtain ⟨fuel0, out0, h0, hs⟩ := c12_missing req hacy known k
  have e1 := c12_fuel_mono req known k fuel (max fuel fuel0) out h (Nat.le_max_left _ _)
  have e2 := c12_fuel_mono req known k fuel0 (max fuel fuel0) out0 h0 (Nat.le_max_right _ _)
  have e : out = out0 := Option.some.inj (e1.symm.trans e2)
  rw [e]
  exact hs

/-- **C12, several keys.** `all_missing_bindings` terminates and satisfies `MissingSpec` for the
whole list of requested keys. -/
theorem c12_all (hacy : RankAcyclic req) (keys known : List K) :
    ∃ fuel out, allMissingBindings req keys known fuel = some out ∧
      MissingSpec req known keys out :=
  allMissingBindings_spec req hacy keys known

theorem c12_all_any_fuel (hacy : RankAcyclic req) (keys known : List K) (fuel : Nat)
    (out : List K) :
    allMissingBindings req keys known fuel = some out → MissingSpec req known keys out := by
  intro h
  obtain ⟨fuel0, out0, h0, hs⟩ := c12_all req hacy keys known
  have e1 := allMissingLoop_fuel_mono req fuel (max fuel fuel0) (Nat.le_max_left _ _) _ _ _ _ h
  have e2 := allMissingLoop_fuel_mono req fuel0 (max fuel fuel0) (Nat.le_max_right _ _) _ _ _ _ h0
  have e : out = out0 := Option.some.inj (e1.symm.trans e2)
  rw [e]
  exact hs

/-- The driver's checker accepts only outputs satisfying `MissingSpec`. (The acyclicity
hypothesis is kept for the stated interface; the proof does not use it.) -/
theorem c12_check_sound (hacy : RankAcyclic req) (known ks out : List K) :
    checkMissing req known ks out = true → MissingSpec req known ks out :=
  have _ := hacy
  checkMissing_sound req known ks out

/-- The checker accepts every output satisfying `MissingSpec`. -/
theorem c12_check_complete (known ks out : List K) :
    MissingSpec req known ks out → checkMissing req known ks out = true :=
  checkMissing_complete req known ks out

/-- **Finding F1.** The pinned algorithm (visited marked at push time) lists key `1` before its
prerequisite `0` on an acyclic scheme. -/
theorem c12_old_misorders :
    ∃ (req : Nat → List Nat) (out : List Nat),
      RankAcyclic req ∧ missingBindingsOld req [] 2 100 = some out ∧
        ¬ MissingSpec req [] [2] out := by
  refine ⟨f1Scheme, [1, 0, 2], f1Scheme_acyclic, by decide, ?_⟩
  intro h
  have := (h.order 1 (by decide) 0 (by decide) (by decide)).2
  revert this
  decide

end Pm
