/-
Props/C01Str.lean — C01/C02 (and the string instances of C03, C04, C06) for string pattern
sets END TO END, without the per-program check `strProgramOK`.

`strProg_built`: EVERY successful guarded build of a string pattern list — any event log (any
heuristic answers and hash orders), any fuel — yields an automaton every live state of which
satisfies `Anch.StateOK`, the conditions under which the anchored traversal theorem holds:
(con) the entries of `constraint_order` are live edges carrying an arity-correct constraint all
of whose keys are in the state's scope; (scope_ne) a state with an outgoing transition has a
non-empty scope; (scope_shape) scopes are empty or start with the start key `0`, which does not
occur again; (matches_) the key list recorded for pattern `i` is `strPatternKeys` of the `i`-th
pattern, it has the same shape, and the empty key list is recorded at the root only.
`trun_str_stateOK` is T-RUN-ANCH-STR under that hypothesis (the clauses "at most one fallback" and
"fallback entries are constraint-free live edges" of `strProgramOK` are not needed);
`trun_str_built` its instance for built automata. Hence, for every build and EVERY host:

* `c01_c02_string` — `find_matches` reports exactly the occurrences of the patterns: the empty
  pattern with the unbound map, a non-empty pattern `p` at every character position `a` at which
  it occurs, with the position map `.bound a p.length`;
* `c03_string` — the same set as the baseline `NaiveManyMatcher`;
* `c04_string` — independent of the event log; `c06_string` — the matches labelled `i` depend on
  the `i`-th pattern only;
* the targets `c01_string_target`, `c02_string_target`, `c03_string_target`, `c04_string_target`
  of `Props/Targets.lean` are theorems (`c01_string_holds`, …). (`c07_string_target`, the
  multiplicities, is not addressed here.)

Only final statements and non-vacuity examples live here; proofs are in `Proofs/StrProg*.lean`
(`StrProgDefs`: the step-level invariant `SP`; `StrProgFuse`, `StrProgTreeStep`, `StrProgDet`,
`StrProgMerge`, `StrProgFrames`: `SP` through every step of the builder; `StrProgTree`: the
decomposition `charTree`; `StrProgKeys`: recorded key lists; `StrProgScopes`: `populate_scopes`;
`StrProgMain`: `strProg_built`; `StrProgRun`, `StrProgCor`: the traversal theorem and its
corollaries from `StateOK`).
-/
import PmVerif.Proofs.StrProgMain
import PmVerif.Proofs.StrProgCor
import PmVerif.Props.TRunStr
import PmVerif.Props.Targets
namespace Pm
open Automaton

/-- **Every built string automaton is an OK program.** No hypothesis on the event log, the fuel
or the patterns beyond the success of the guarded build. -/
theorem strProg_built (ps : List (List CharVar)) (evs : List Ev) (fuel : Nat)
    (M : Many Nat CharPred)
    (hb : manyBuild (fun p => some (strConstraints p)) (fun _ => ([] : List Nat))
      (charTree natLt) strReq fuel true ps evs = some (.ok M)) :
    ∀ s w, M.automaton.g.weight? s = some w → Pm.Anch.StateOK M.automaton ps s w :=
  StrProg.strProg_built ps evs fuel M hb

/-- **T-RUN-ANCH-STR from `StateOK`.** `trun_str` with the decidable check `strProgramOK A ps`
replaced by what its proof uses: every live state satisfies `Anch.StateOK`. -/
theorem trun_str_stateOK (A : Automaton Nat CharPred) (ps : List (List CharVar)) (h : List Nat)
    (fuel : Nat) (ms : List (Match StrPos)) (seen : List (Nat × List (Option Nat)))
    (hok : ∀ s w, A.g.weight? s = some w → Pm.Anch.StateOK A ps s w)
    (hr : run strDomain A h fuel = .ok (ms, seen)) (i : Nat) (m : StrPos) :
    (i, m) ∈ ms ↔
      (m = .unbound ∧ ∃ w, A.g.weight? A.root = some w ∧ (i, []) ∈ w.matches_) ∨
      (∃ a ks, a < strByteLen h ∧ ks ≠ [] ∧ AccDetK (strSigma h a) A A.root i ks ∧
        (∀ k ∈ ks, a + k < strByteLen h) ∧ m = .bound a (1 + ks.foldl max 0)) :=
  StrProg.trun_str_of_stateOK A ps h fuel ms seen hok hr i m

/-- The check implies the hypothesis of `trun_str_stateOK` (so `trun_str` is an instance). -/
theorem stateOK_of_strProgramOK (A : Automaton Nat CharPred) (ps : List (List CharVar))
    (hok : strProgramOK A ps = true) :
    ∀ s w, A.g.weight? s = some w → Pm.Anch.StateOK A ps s w :=
  StrProg.allOK_of_programOK hok

/-- **T-RUN-ANCH-STR for built automata.** The traversal of ANY successfully built string
automaton reports exactly anchored acceptance, on every host. -/
theorem trun_str_built (ps : List (List CharVar)) (evs : List Ev) (fuel fuel' : Nat)
    (M : Many Nat CharPred) (h : List Nat) (ms : List (Match StrPos))
    (seen : List (Nat × List (Option Nat)))
    (hb : manyBuild (fun p => some (strConstraints p)) (fun _ => ([] : List Nat))
      (charTree natLt) strReq fuel true ps evs = some (.ok M))
    (hr : run strDomain M.automaton h fuel' = .ok (ms, seen)) (i : Nat) (m : StrPos) :
    (i, m) ∈ ms ↔
      (m = .unbound ∧ ∃ w, M.automaton.g.weight? M.automaton.root = some w ∧
        (i, []) ∈ w.matches_) ∨
      (∃ a ks, a < strByteLen h ∧ ks ≠ [] ∧
        AccDetK (strSigma h a) M.automaton M.automaton.root i ks ∧
        (∀ k ∈ ks, a + k < strByteLen h) ∧ m = .bound a (1 + ks.foldl max 0)) :=
  trun_str_stateOK M.automaton ps h fuel' ms seen (strProg_built ps evs fuel M hb) hr i m

/-- **C01/C02 for string pattern sets.** Whatever the event log of the build, `find_matches`
reports exactly the occurrences of the patterns: the empty pattern with the unbound map, a
non-empty pattern `p` at every character position `a` at which it occurs, with the position map
`.bound a p.length`. -/
theorem c01_c02_string (ps : List (List CharVar)) (evs : List Ev) (fuel fuel' : Nat)
    (M : Many Nat CharPred) (h : List Nat) (ms : List (Match StrPos))
    (hb : manyBuild (fun p => some (strConstraints p)) (fun _ => ([] : List Nat))
      (charTree natLt) strReq fuel true ps evs = some (.ok M))
    (hf : M.findMatches strDomain h fuel' = .ok ms) (i : Nat) (m : StrPos) :
    (i, m) ∈ ms ↔ ∃ p, ps[i]? = some p ∧
      ((p = [] ∧ m = .unbound) ∨
       (p ≠ [] ∧ ∃ a, occursStr p h a = true ∧ m = .bound a p.length)) :=
  StrProg.c01_c02_of_allOK ps evs fuel fuel' M h ms hb (StrProg.allOK_built ps evs fuel M hb) hf i m

/-- **C03 for string pattern sets.** The automaton reports the same set of matches as the
baseline `NaiveManyMatcher` (whenever both succeed, with whatever fuels). -/
theorem c03_string (ps : List (List CharVar)) (evs : List Ev) (fuel fuel' fuel'' : Nat)
    (M : Many Nat CharPred) (h : List Nat) (ms ns : List (Match StrPos))
    (hb : manyBuild (fun p => some (strConstraints p)) (fun _ => ([] : List Nat))
      (charTree natLt) strReq fuel true ps evs = some (.ok M))
    (hf : M.findMatches strDomain h fuel' = .ok ms)
    (hn : naiveMatches strDomain h fuel'' (ps.map strConstraints) 0 = .ok ns)
    (x : Match StrPos) : x ∈ ms ↔ x ∈ ns := by
  obtain ⟨i, m⟩ := x
  rw [c01_c02_string ps evs fuel fuel' M h ms hb hf, StrProg.mem_naive_string ps h fuel'' ns hn]

/-- **C04 for string pattern sets.** Two builds of the same patterns under ANY two event logs
(heuristic answers, hash orders) and fuels report the same set of matches on every host. -/
theorem c04_string (ps : List (List CharVar)) (evs evs' : List Ev)
    (fuel₁ fuel₂ fuel₁' fuel₂' : Nat) (M M' : Many Nat CharPred) (h : List Nat)
    (ms ms' : List (Match StrPos))
    (hb : manyBuild (fun p => some (strConstraints p)) (fun _ => ([] : List Nat))
      (charTree natLt) strReq fuel₁ true ps evs = some (.ok M))
    (hb' : manyBuild (fun p => some (strConstraints p)) (fun _ => ([] : List Nat))
      (charTree natLt) strReq fuel₁' true ps evs' = some (.ok M'))
    (hf : M.findMatches strDomain h fuel₂ = .ok ms)
    (hf' : M'.findMatches strDomain h fuel₂' = .ok ms') (i : Nat) (m : StrPos) :
    (i, m) ∈ ms ↔ (i, m) ∈ ms' := by
  rw [c01_c02_string ps evs fuel₁ fuel₂ M h ms hb hf,
    c01_c02_string ps evs' fuel₁' fuel₂' M' h ms' hb' hf']

/-- **C06 for string pattern sets.** The matches labelled `i` depend only on the `i`-th pattern:
if position `i` of `ps` and position `j` of `ps'` hold the same pattern (or both nothing), then —
whatever else is compiled alongside, in whatever order and under whatever event logs — the
bindings reported with label `i` by the first matcher are those reported with label `j` by the
second. -/
theorem c06_string (ps ps' : List (List CharVar)) (evs evs' : List Ev)
    (fuel₁ fuel₂ fuel₁' fuel₂' : Nat) (M M' : Many Nat CharPred) (h : List Nat)
    (ms ms' : List (Match StrPos))
    (hb : manyBuild (fun p => some (strConstraints p)) (fun _ => ([] : List Nat))
      (charTree natLt) strReq fuel₁ true ps evs = some (.ok M))
    (hb' : manyBuild (fun p => some (strConstraints p)) (fun _ => ([] : List Nat))
      (charTree natLt) strReq fuel₁' true ps' evs' = some (.ok M'))
    (hf : M.findMatches strDomain h fuel₂ = .ok ms)
    (hf' : M'.findMatches strDomain h fuel₂' = .ok ms') (i j : Nat) (hij : ps[i]? = ps'[j]?)
    (m : StrPos) :
    (i, m) ∈ ms ↔ (j, m) ∈ ms' := by
  rw [c01_c02_string ps evs fuel₁ fuel₂ M h ms hb hf,
    c01_c02_string ps' evs' fuel₁' fuel₂' M' h ms' hb' hf', hij]

/-- The same for the packaged `strFindMatches` (build, then match, one fuel). -/
theorem c01_c02_strFindMatches (ps : List (List CharVar)) (evs : List Ev) (h : List Nat)
    (fuel : Nat) (ms : List (Match StrPos)) (hf : strFindMatches ps evs h fuel = .ok ms)
    (i : Nat) (m : StrPos) :
    (i, m) ∈ ms ↔ ∃ p, ps[i]? = some p ∧
      ((p = [] ∧ m = .unbound) ∨
       (p ≠ [] ∧ ∃ a, occursStr p h a = true ∧ m = .bound a p.length)) := by
  unfold strFindMatches at hf
  cases hb : manyBuild (fun p => some (strConstraints p)) (fun _ => ([] : List Nat))
      (charTree natLt) strReq fuel true ps evs with
  | none => rw [hb] at hf; cases hf
  | some r =>
    cases r with
    | error e => rw [hb] at hf; cases hf
    | ok M =>
      rw [hb] at hf
      exact c01_c02_string ps evs fuel fuel M h ms hb hf i m

/-! ### The targets of `Props/Targets.lean` -/

/-- **C01, strings** (`c01_string_target`) is a theorem. -/
theorem c01_string_holds : c01_string_target := by
  intro ps evs h fuel ms hf i m hm
  obtain ⟨p, hp, hor⟩ := (c01_c02_strFindMatches ps evs h fuel ms hf i m).mp hm
  refine ⟨p, hp, ?_⟩
  rcases hor with h1 | ⟨_, a, ho, hm'⟩
  · exact .inl h1
  · exact .inr ⟨a, hm', ho⟩

/-- **C02, strings** (`c02_string_target`) is a theorem. -/
theorem c02_string_holds : c02_string_target := by
  intro ps evs h fuel ms hf i p hp
  refine ⟨fun hnil => ?_, fun hne a ho => ?_⟩
  · exact (c01_c02_strFindMatches ps evs h fuel ms hf i .unbound).mpr ⟨p, hp, .inl ⟨hnil, rfl⟩⟩
  · exact (c01_c02_strFindMatches ps evs h fuel ms hf i (.bound a p.length)).mpr
      ⟨p, hp, .inr ⟨hne, a, ho, rfl⟩⟩

/-- **C03, strings** (`c03_string_target`) is a theorem: the automaton reports the same set as
the baseline. -/
theorem c03_string_holds : c03_string_target := by
  intro ps evs h fuel ms ns hf hn x
  obtain ⟨i, m⟩ := x
  rw [c01_c02_strFindMatches ps evs h fuel ms hf, StrProg.mem_naive_string ps h fuel ns hn]

/-- **C04, strings** (`c04_string_target`) is a theorem: the set of reported matches does not
depend on the event log. -/
theorem c04_string_holds : c04_string_target := by
  intro ps evs evs' h fuel ms ms' hf hf' x
  obtain ⟨i, m⟩ := x
  rw [c01_c02_strFindMatches ps evs h fuel ms hf, c01_c02_strFindMatches ps evs' h fuel ms' hf']

/-! ### Non-vacuity -/

/-- The real build of `Props/TRunStr.lean` (patterns `ab`, the empty pattern, `a$x$x`; a log that
fuses, determinises twice and creates a fallback state): `strProg_built` applies to it, so every
live state of its automaton satisfies `StateOK` — here without evaluating any check. -/
example : ∃ M, manyBuild (fun p => some (strConstraints p)) (fun _ => ([] : List Nat))
      (charTree natLt) strReq 50 true exStrPatterns2 exStrEvents = some (.ok M) ∧
    M.automaton.liveStates = [0, 2, 3, 4, 5] ∧
    ∀ s w, M.automaton.g.weight? s = some w → Pm.Anch.StateOK M.automaton exStrPatterns2 s w := by
  obtain ⟨M, hb, hl, _, _⟩ := exStr_built
  exact ⟨M, hb, hl, strProg_built _ _ _ M hb⟩

/-- The hypotheses of `c01_c02_string` hold of that build and its run on `xabbacc`; its conclusion
for that run (the check `strProgramOK` is no longer among the hypotheses). -/
example : ∀ i m, (i, m) ∈ [((1 : Nat), StrPos.unbound), (0, .bound 1 2), (2, .bound 1 3),
      (2, .bound 4 3)] ↔
    ∃ p, exStrPatterns2[i]? = some p ∧
      ((p = [] ∧ m = .unbound) ∨
       (p ≠ [] ∧ ∃ a, occursStr p [120, 97, 98, 98, 97, 99, 99] a = true ∧
         m = .bound a p.length)) := by
  obtain ⟨M, hb, _, _, hf⟩ := exStr_built
  exact c01_c02_string _ _ _ _ M _ _ hb hf

/-- The packaged matcher succeeds on that input, so the targets are not vacuous. -/
example : strFindMatches exStrPatterns2 exStrEvents [120, 97, 98, 98, 97, 99, 99] 100 =
    .ok [(1, .unbound), (0, .bound 1 2), (2, .bound 1 3), (2, .bound 4 3)] := by rfl

/-- … and so does the baseline, with the same set of matches (`c03_string_holds`). -/
example : naiveMatches strDomain [120, 97, 98, 98, 97, 99, 99] 100
      (exStrPatterns2.map strConstraints) 0 =
    .ok [(0, .bound 1 2), (1, .unbound), (2, .bound 1 3), (2, .bound 4 3)] := by rfl

end Pm
