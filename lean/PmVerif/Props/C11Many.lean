/-
Props/C11Many.lean — property C11 for the automaton matcher `ManyMatcher`, strings and matrices,
at full strength: for EVERY pattern list, event log (heuristic answers and hash orders), fuel:
a pattern is reported at its own start when the host is the pattern itself (variables
instantiated consistently by any `ρ`), and an occurrence that is reported keeps being reported,
at the transported anchor, after the host is extended (characters prepended/appended; rows added
below or above; rows extended to the right) — hence, by induction, after any sequence of such
steps. These are `c01_c02_string` / `c01_c02_matrix` (the reported set is exactly the set of
occurrences) composed with the monotonicity of the occurrence specification (`Props/TDom.lean`).
The two runs may use different builds (different logs and fuels) of the same pattern list.
-/
import PmVerif.Props.C01Str
import PmVerif.Props.C01Mat
import PmVerif.Props.C11
namespace Pm

/-- Self-match, strings: pattern `i` is reported at anchor 0 of its own instantiation. -/
theorem c11_many_string_self (ρ : Nat → Nat) (ps : List (List CharVar)) (evs : List Ev)
    (fuel fuel' : Nat) (M : Many Nat CharPred) (ms : List (Match StrPos)) (i : Nat)
    (p : List CharVar) (hi : ps[i]? = some p) (hp : p ≠ [])
    (hb : manyBuild (fun p => some (strConstraints p)) (fun _ => ([] : List Nat))
      (charTree natLt) strReq fuel true ps evs = some (.ok M))
    (hf : M.findMatches strDomain (instStr ρ p) fuel' = .ok ms) :
    (i, StrPos.bound 0 p.length) ∈ ms :=
  (c01_c02_string ps evs fuel fuel' M _ ms hb hf i _).mpr
    ⟨p, hi, .inr ⟨hp, 0, c11_occursStr_self ρ p, rfl⟩⟩

/-- Host extension, strings: a match reported on `h` is reported on `pre ++ h ++ post` with the
anchor shifted by `pre.length` — by any build of the same pattern list. -/
theorem c11_many_string_extend (ps : List (List CharVar)) (evs evs' : List Ev)
    (fuel fuel' fuel2 fuel2' : Nat) (M M' : Many Nat CharPred) (h pre post : List Nat)
    (ms ms' : List (Match StrPos)) (i : Nat) (p : List CharVar) (a : Nat)
    (hi : ps[i]? = some p)
    (hb : manyBuild (fun p => some (strConstraints p)) (fun _ => ([] : List Nat))
      (charTree natLt) strReq fuel true ps evs = some (.ok M))
    (hb' : manyBuild (fun p => some (strConstraints p)) (fun _ => ([] : List Nat))
      (charTree natLt) strReq fuel2 true ps evs' = some (.ok M'))
    (hf : M.findMatches strDomain h fuel' = .ok ms)
    (hf' : M'.findMatches strDomain (pre ++ h ++ post) fuel2' = .ok ms')
    (hm : (i, StrPos.bound a p.length) ∈ ms) :
    (i, StrPos.bound (a + pre.length) p.length) ∈ ms' := by
  obtain ⟨q, hq, hcase⟩ := (c01_c02_string ps evs fuel fuel' M h ms hb hf i _).mp hm
  have hqp : q = p := by rw [hi] at hq; exact (Option.some.inj hq).symm
  subst hqp
  rcases hcase with ⟨_, hcontra⟩ | ⟨hp, a', ho, heq⟩
  · cases hcontra
  · obtain ⟨rfl⟩ : a = a' := by injection heq
    exact (c01_c02_string ps evs' fuel2 fuel2' M' _ ms' hb' hf' i _).mpr
      ⟨q, hi, .inr ⟨hp, a + pre.length, c11_occursStr_extend q h pre post a ho, rfl⟩⟩

/-- The empty string pattern is reported (once as a set element) on every host. -/
theorem c11_many_string_empty (ps : List (List CharVar)) (evs : List Ev)
    (fuel fuel' : Nat) (M : Many Nat CharPred) (h : List Nat) (ms : List (Match StrPos)) (i : Nat)
    (hi : ps[i]? = some [])
    (hb : manyBuild (fun p => some (strConstraints p)) (fun _ => ([] : List Nat))
      (charTree natLt) strReq fuel true ps evs = some (.ok M))
    (hf : M.findMatches strDomain h fuel' = .ok ms) : (i, StrPos.unbound) ∈ ms :=
  (c01_c02_string ps evs fuel fuel' M h ms hb hf i _).mpr ⟨[], hi, .inl ⟨rfl, rfl⟩⟩

/-- Self-match, matrices: a pattern whose first row is non-empty is reported at (0,0) of its own
instantiation. -/
theorem c11_many_matrix_self (ρ : Nat → Nat) (ps : List MatPattern) (evs : List Ev)
    (fuel fuel' : Nat) (M : Many MKey CharPred) (ms : List (Match MatPos)) (i : Nat)
    (p : MatPattern) (hi : ps[i]? = some p) (hp : p ≠ []) (hrow : p.head hp ≠ [])
    (hb : manyBuild (fun p => some (matConstraints p)) (fun _ => ([] : List MKey))
      (charTree mkeyLt) matReq fuel true ps evs = some (.ok M))
    (hf : M.findMatches matDomain (instMat ρ p) fuel' = .ok ms) :
    (i, MatPos.bound 0 0 0 0 ((matExtent p).1 : Int) ((matExtent p).2 : Int)) ∈ ms :=
  (c01_c02_matrix ps evs fuel fuel' M _ ms hb hf i _).mpr
    ⟨p, hi, 0, 0, c11_occursMat_self ρ p hp hrow, rfl⟩

/-- The common shape of the three matrix extension steps: if every occurrence of every pattern
at `(r, c)` in `h` is an occurrence at `(r + dr, c)` in `h'`, every reported match is transported. -/
theorem c11_many_matrix_transport (ps : List MatPattern) (evs evs' : List Ev)
    (fuel fuel' fuel2 fuel2' : Nat) (M M' : Many MKey CharPred) (h h' : MatHost) (dr : Nat)
    (ms ms' : List (Match MatPos)) (i : Nat) (p : MatPattern) (r c : Nat)
    (hi : ps[i]? = some p)
    (hmono : ∀ r c, occursMat p h r c = true → occursMat p h' (r + dr) c = true)
    (hb : manyBuild (fun p => some (matConstraints p)) (fun _ => ([] : List MKey))
      (charTree mkeyLt) matReq fuel true ps evs = some (.ok M))
    (hb' : manyBuild (fun p => some (matConstraints p)) (fun _ => ([] : List MKey))
      (charTree mkeyLt) matReq fuel2 true ps evs' = some (.ok M'))
    (hf : M.findMatches matDomain h fuel' = .ok ms)
    (hf' : M'.findMatches matDomain h' fuel2' = .ok ms')
    (hm : (i, MatPos.bound r c 0 0 ((matExtent p).1 : Int) ((matExtent p).2 : Int)) ∈ ms) :
    (i, MatPos.bound (r + dr) c 0 0 ((matExtent p).1 : Int) ((matExtent p).2 : Int)) ∈ ms' := by
  obtain ⟨q, hq, r', c', ho, heq⟩ := (c01_c02_matrix ps evs fuel fuel' M h ms hb hf i _).mp hm
  have hqp : q = p := by rw [hi] at hq; exact (Option.some.inj hq).symm
  subst hqp
  obtain ⟨rfl, rfl⟩ : r = r' ∧ c = c' := by
    injection heq with h1 h2; exact ⟨h1, h2⟩
  exact (c01_c02_matrix ps evs' fuel2 fuel2' M' h' ms' hb' hf' i _).mpr
    ⟨q, hi, r + dr, c, hmono r c ho, rfl⟩

/-- Rows appended below. -/
theorem c11_many_matrix_extend_rows (ps : List MatPattern) (evs evs' : List Ev)
    (fuel fuel' fuel2 fuel2' : Nat) (M M' : Many MKey CharPred) (h below : MatHost)
    (ms ms' : List (Match MatPos)) (i : Nat) (p : MatPattern) (r c : Nat)
    (hi : ps[i]? = some p)
    (hb : manyBuild (fun p => some (matConstraints p)) (fun _ => ([] : List MKey))
      (charTree mkeyLt) matReq fuel true ps evs = some (.ok M))
    (hb' : manyBuild (fun p => some (matConstraints p)) (fun _ => ([] : List MKey))
      (charTree mkeyLt) matReq fuel2 true ps evs' = some (.ok M'))
    (hf : M.findMatches matDomain h fuel' = .ok ms)
    (hf' : M'.findMatches matDomain (h ++ below) fuel2' = .ok ms')
    (hm : (i, MatPos.bound r c 0 0 ((matExtent p).1 : Int) ((matExtent p).2 : Int)) ∈ ms) :
    (i, MatPos.bound r c 0 0 ((matExtent p).1 : Int) ((matExtent p).2 : Int)) ∈ ms' :=
  c11_many_matrix_transport ps evs evs' fuel fuel' fuel2 fuel2' M M' h (h ++ below) 0 ms ms' i p r c
    hi (fun r c ho => c11_occursMat_extend_rows p h below r c ho) hb hb' hf hf' hm

/-- Rows prepended: the anchor row shifts by their number. -/
theorem c11_many_matrix_extend_above (ps : List MatPattern) (evs evs' : List Ev)
    (fuel fuel' fuel2 fuel2' : Nat) (M M' : Many MKey CharPred) (h above : MatHost)
    (ms ms' : List (Match MatPos)) (i : Nat) (p : MatPattern) (r c : Nat)
    (hi : ps[i]? = some p)
    (hb : manyBuild (fun p => some (matConstraints p)) (fun _ => ([] : List MKey))
      (charTree mkeyLt) matReq fuel true ps evs = some (.ok M))
    (hb' : manyBuild (fun p => some (matConstraints p)) (fun _ => ([] : List MKey))
      (charTree mkeyLt) matReq fuel2 true ps evs' = some (.ok M'))
    (hf : M.findMatches matDomain h fuel' = .ok ms)
    (hf' : M'.findMatches matDomain (above ++ h) fuel2' = .ok ms')
    (hm : (i, MatPos.bound r c 0 0 ((matExtent p).1 : Int) ((matExtent p).2 : Int)) ∈ ms) :
    (i, MatPos.bound (r + above.length) c 0 0 ((matExtent p).1 : Int) ((matExtent p).2 : Int)) ∈ ms' :=
  c11_many_matrix_transport ps evs evs' fuel fuel' fuel2 fuel2' M M' h (above ++ h) above.length
    ms ms' i p r c hi (fun r c ho => c11_occursMat_extend_above p h above r c ho) hb hb' hf hf' hm

/-- Characters appended to the end of rows (`h'` has as many rows as `h` and every row of `h`
is a prefix of the corresponding row of `h'`). -/
theorem c11_many_matrix_extend_right (ps : List MatPattern) (evs evs' : List Ev)
    (fuel fuel' fuel2 fuel2' : Nat) (M M' : Many MKey CharPred) (h h' : MatHost)
    (ms ms' : List (Match MatPos)) (i : Nat) (p : MatPattern) (r c : Nat)
    (hi : ps[i]? = some p) (hlen : h'.length = h.length)
    (hpre : ∀ (i : Nat) (row row' : List Nat), h[i]? = some row → h'[i]? = some row' → row <+: row')
    (hb : manyBuild (fun p => some (matConstraints p)) (fun _ => ([] : List MKey))
      (charTree mkeyLt) matReq fuel true ps evs = some (.ok M))
    (hb' : manyBuild (fun p => some (matConstraints p)) (fun _ => ([] : List MKey))
      (charTree mkeyLt) matReq fuel2 true ps evs' = some (.ok M'))
    (hf : M.findMatches matDomain h fuel' = .ok ms)
    (hf' : M'.findMatches matDomain h' fuel2' = .ok ms')
    (hm : (i, MatPos.bound r c 0 0 ((matExtent p).1 : Int) ((matExtent p).2 : Int)) ∈ ms) :
    (i, MatPos.bound r c 0 0 ((matExtent p).1 : Int) ((matExtent p).2 : Int)) ∈ ms' :=
  c11_many_matrix_transport ps evs evs' fuel fuel' fuel2 fuel2' M M' h h' 0 ms ms' i p r c
    hi (fun r c ho => c11_occursMat_extend_right p h h' r c hlen hpre ho) hb hb' hf hf' hm

end Pm
