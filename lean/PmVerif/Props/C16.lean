/-
Props/C16.lean — property C16: constraints check arity and report unbound arguments instead
of evaluating. Only property theorems live here.
-/
import PmVerif.Model.MatrixDom
import PmVerif.Model.TableDom
namespace Pm
variable {K V P M H : Type}

/-- `try_new` succeeds exactly when the number of arguments equals the predicate's arity … -/
theorem c16_try_new_iff (arity : P → Nat) (p : P) (args : List K) :
    (∃ c, tryNew arity p args = .ok c) ↔ args.length = arity p := by
  unfold tryNew
  by_cases h : args.length = arity p <;> simp [h]

/-- … in which case it returns the constraint with exactly these arguments, in order … -/
theorem c16_try_new_ok (arity : P → Nat) (p : P) (args : List K) (h : args.length = arity p) :
    tryNew arity p args = .ok ⟨p, args⟩ := by
  simp [tryNew, h]

/-- … and otherwise the error carries both numbers. -/
theorem c16_try_new_err (arity : P → Nat) (p : P) (args : List K) (h : args.length ≠ arity p) :
    tryNew arity p args = .error (.invalidArity (arity p) args.length) := by
  simp [tryNew, h]

/-- `try_binary_from_triple l p r` is `try_new p [l, r]`; it succeeds iff the arity is 2. -/
theorem c16_triple (arity : P → Nat) (l r : K) (p : P) :
    tryBinaryFromTriple arity l p r = tryNew arity p [l, r] ∧
    ((∃ c, tryBinaryFromTriple arity l p r = .ok c) ↔ arity p = 2) := by
  refine ⟨rfl, ?_⟩
  unfold tryBinaryFromTriple
  rw [c16_try_new_iff]
  simp only [List.length_cons, List.length_nil]
  omega

/-- Argument resolution succeeds exactly when every argument is bound, and then yields the
bound values in argument order. -/
theorem c16_resolve_ok (get : M → K → Option V) (m : M) (args : List K) (vs : List V) :
    resolveArgs get m args = .ok vs ↔ args.map (get m) = vs.map some := by
  induction args generalizing vs with
  | nil => cases vs <;> simp [resolveArgs]
  | cons k ks ih =>
    cases hk : get m k with
    | none => cases vs <;> simp [resolveArgs, hk]
    | some v =>
      cases hr : resolveArgs get m ks with
      | error e =>
        have : ∀ ws : List V, ¬ ks.map (get m) = ws.map some := fun ws hws => by
          have := (ih ws).mpr hws; rw [hr] at this; cases this
        cases vs with
        | nil => simp [resolveArgs, hk, hr]
        | cons w ws => simp [resolveArgs, hk, hr, this ws]
      | ok ws =>
        have hws := (ih ws).mp hr
        cases vs with
        | nil => simp [resolveArgs, hk, hr]
        | cons w ws' =>
          simp only [resolveArgs, hk, hr, List.map_cons, List.cons.injEq, Option.some.injEq,
            Except.ok.injEq]
          constructor
          · rintro ⟨rfl, rfl⟩; exact ⟨rfl, hws⟩
          · rintro ⟨rfl, h2⟩
            refine ⟨rfl, ?_⟩
            have := (ih ws').mpr h2
            rw [hr] at this; cases this; rfl

/-- With every argument bound, `is_satisfied` returns the predicate's verdict on the bound
values in argument order, and the predicate is invoked exactly once, on exactly these values. -/
theorem c16_sat_bound (get : M → K → Option V) (check : P → H → List V → Option Bool)
    (c : Constraint K P) (h : H) (m : M) (vs : List V)
    (hb : c.args.map (get m) = vs.map some) :
    isSatisfiedLog get check c h m = (.ok (check c.pred h vs), [vs]) := by
  unfold isSatisfiedLog
  rw [(c16_resolve_ok get m c.args vs).mpr hb]

/-- With some argument unbound, `is_satisfied` reports the *first* unbound key … -/
theorem c16_sat_unbound (get : M → K → Option V) (check : P → H → List V → Option Bool)
    (c : Constraint K P) (h : H) (m : M) (pre post : List K) (k₀ : K)
    (hargs : c.args = pre ++ k₀ :: post)
    (hpre : ∀ k ∈ pre, (get m k).isSome) (hk₀ : get m k₀ = none) :
    isSatisfiedLog get check c h m = (.error (.unboundVariable k₀), []) := by
  unfold isSatisfiedLog
  have : resolveArgs get m (pre ++ k₀ :: post) = .error (.unboundVariable k₀) := by
    clear hargs
    induction pre with
    | nil => simp [resolveArgs, hk₀]
    | cons k ks ih =>
      obtain ⟨v, hv⟩ := Option.isSome_iff_exists.mp (hpre k (by simp))
      have ih' := ih (fun k' hk' => hpre k' (List.mem_cons_of_mem _ hk'))
      simp [resolveArgs, hv, ih']
  rw [hargs, this]

/-- … and whenever `is_satisfied` returns an error the predicate was not invoked at all. -/
theorem c16_no_call (get : M → K → Option V) (check : P → H → List V → Option Bool)
    (c : Constraint K P) (h : H) (m : M) (e : ConErr K) (calls : List (List V))
    (hr : isSatisfiedLog get check c h m = (.error e, calls)) : calls = [] := by
  unfold isSatisfiedLog at hr
  cases hres : resolveArgs get m c.args with
  | error e' => rw [hres] at hr; exact (Prod.mk.inj hr).2.symm
  | ok vs => rw [hres] at hr; cases (Prod.mk.inj hr).1

/-- The only error `is_satisfied` can return is `UnboundVariable` of an argument that is
unbound. -/
theorem c16_error_is_unbound (get : M → K → Option V) (check : P → H → List V → Option Bool)
    (c : Constraint K P) (h : H) (m : M) (e : ConErr K)
    (hr : isSatisfied get check c h m = .error e) :
    ∃ k ∈ c.args, e = .unboundVariable k ∧ get m k = none := by
  unfold isSatisfied isSatisfiedLog at hr
  cases hres : resolveArgs get m c.args with
  | ok vs => rw [hres] at hr; cases hr
  | error e' =>
    rw [hres] at hr
    have he : e' = e := by simpa using hr
    subst he
    clear hr
    generalize c.args = args at hres
    induction args with
    | nil => simp [resolveArgs] at hres
    | cons k ks ih =>
      cases hk : get m k with
      | none =>
        simp [resolveArgs, hk] at hres
        exact ⟨k, by simp, hres.symm, hk⟩
      | some v =>
        cases hr2 : resolveArgs get m ks with
        | ok ws => simp [resolveArgs, hk, hr2] at hres
        | error e2 =>
          simp [resolveArgs, hk, hr2] at hres
          subst hres
          obtain ⟨k', hk', h1, h2⟩ := ih hr2
          exact ⟨k', by simp [hk'], h1, h2⟩

/-! Built-in predicate families: arities, and with matching arity `check` never reaches the
`unwrap`/`panic!` on its argument slice. -/

theorem c16_char_arity : CharPred.bindingEq.arity = 2 ∧ ∀ c, (CharPred.constVal c).arity = 1 :=
  ⟨rfl, fun _ => rfl⟩

theorem c16_str_check_total (p : CharPred) (h : List Nat) (args : List Nat)
    (ha : args.length = p.arity) : (strCheck p h args).isSome := by
  cases p with
  | bindingEq =>
    match args, ha with
    | [a, b], _ => simp [strCheck]
  | constVal c =>
    match args, ha with
    | [a], _ => simp [strCheck]

theorem c16_mat_check_total (p : CharPred) (h : MatHost) (args : List MVal)
    (ha : args.length = p.arity) : (matCheck p h args).isSome := by
  cases p with
  | bindingEq =>
    match args, ha with
    | [(a, b), (c, d)], _ => simp [matCheck]
  | constVal c =>
    match args, ha with
    | [(a, b)], _ => simp [matCheck]

theorem c16_table_check_total (p : TPred) (h : THost) (args : List Nat)
    (ha : args.length = p.arity) : (TPred.check p h args).isSome := by
  cases p with
  | eq => match args, ha with | [a, b], _ => simp [TPred.check]
  | ne => match args, ha with | [a, b], _ => simp [TPred.check]
  | lt => match args, ha with | [a, b], _ => simp [TPred.check]
  | const c => match args, ha with | [a], _ => simp [TPred.check]
  | true_ n =>
    simp only [TPred.arity] at ha
    unfold TPred.check
    simp [ha]
  | notIn n =>
    simp only [TPred.arity] at ha
    match args, ha with
    | v :: vs, ha =>
      have : vs.length = n := by simpa using ha
      simp [TPred.check, this]

/-- Non-vacuity: a binary table constraint over a partial binding; first unbound key is 2. -/
example :
    isSatisfiedLog alGet TPred.check (⟨.eq, [2, 1]⟩ : Constraint Nat TPred) ⟨false, []⟩
      [(0, 5), (1, 5)] = (.error (.unboundVariable 2), []) := by rfl
example :
    isSatisfiedLog alGet TPred.check (⟨.lt, [1, 0]⟩ : Constraint Nat TPred) ⟨false, []⟩
      [(0, 5), (1, 3)] = (.ok (some true), [[3, 5]]) := by rfl

end Pm
