/-
Props/Render.lean — theorems about the model of `ConstraintAutomaton::dot_string()`
(`Model/Render.lean`, tied to the code by the correspondence stage `render`). Text is a list of
Unicode code points (`Render.Txt = List Nat`); `dotString` is `String.ofList` of `dotTxt`.

(a) counting — what check C09 cross-checks (`n_states()` and the number of arrows of
    `dot_string()` against the dump): the rendering has one node line per live node, one arrow
    line per live edge, and as many newline characters as lines.
(b) the rendering is a function of the automaton value and, conversely, is injective up to what
    it prints — for the STRING domain down to the code points of the output text
    (`trender_str_text_inj`): equal text ⇒ same live node ids, same flag / accepted list / scope
    per live node, same live edges (source, target, label) in edge-index order. For any key
    printer the structured level (`trender_items_inj`) and, given a uniquely decodable key
    printer (`KeyCode`), the line level are proved generically.
(c) petgraph's escaping never outputs a bare `"` or a raw newline (`wellEscaped`), and is
    injective.
-/
import PmVerif.Model.Render
namespace Pm
namespace Render

/-! ## digits -/

def isDigit (c : Nat) : Bool := decide (48 ≤ c) && decide (c ≤ 57)

theorem digitsRev_lt (f n : Nat) : ∀ d ∈ digitsRev f n, d < 10 := by
  induction f generalizing n with
  | zero => simp [digitsRev]
  | succ f ih =>
    intro d hd
    unfold digitsRev at hd
    split at hd
    · simp at hd; omega
    · simp at hd
      rcases hd with h | h
      · omega
      · exact ih _ _ h

theorem natTxt_isDigit (n : Nat) : ∀ c ∈ natTxt n, isDigit c = true := by
  intro c hc
  simp only [natTxt, List.mem_map, List.mem_reverse] at hc
  obtain ⟨d, hd, rfl⟩ := hc
  have := digitsRev_lt _ _ d hd
  simp [isDigit]; omega

/-- value of a little-endian digit list -/
def valRev : List Nat → Nat
  | [] => 0
  | d :: r => d + 10 * valRev r

theorem valRev_digitsRev (f n : Nat) (h : n < f) : valRev (digitsRev f n) = n := by
  induction f generalizing n with
  | zero => omega
  | succ f ih =>
    unfold digitsRev
    split
    · simp [valRev]
    · simp only [valRev]
      rw [ih (n / 10) (by omega)]; omega

theorem map_add_inj : ∀ (xs ys : List Nat), xs.map (48 + ·) = ys.map (48 + ·) → xs = ys := by
  intro xs
  induction xs with
  | nil => intro ys h; cases ys with
    | nil => rfl
    | cons y ys => simp at h
  | cons x xs ih => intro ys h; cases ys with
    | nil => simp at h
    | cons y ys =>
      simp only [List.map_cons, List.cons.injEq] at h
      rw [ih ys h.2, show x = y by omega]

theorem natTxt_inj {n m : Nat} (h : natTxt n = natTxt m) : n = m := by
  simp only [natTxt] at h
  have h1 := map_add_inj _ _ h
  have h2 := List.reverse_inj.mp h1
  have := congrArg valRev h2
  rwa [valRev_digitsRev _ _ (by omega), valRev_digitsRev _ _ (by omega)] at this

theorem natTxt_ne_nil (n : Nat) : ∃ d r, natTxt n = d :: r ∧ isDigit d = true := by
  have hne : natTxt n ≠ [] := by
    simp only [natTxt, ne_eq, List.map_eq_nil_iff, List.reverse_eq_nil_iff]
    unfold digitsRev; split <;> simp
  match h : natTxt n with
  | [] => exact absurd h hne
  | d :: r => exact ⟨d, r, rfl, natTxt_isDigit n d (by rw [h]; simp)⟩

/-- a run of characters satisfying `p` followed by one that does not is uniquely split -/
theorem run_split {p : Nat → Bool} :
    ∀ (xs ys : Txt) (c c' : Nat) (r r' : Txt),
      (∀ x ∈ xs, p x = true) → (∀ y ∈ ys, p y = true) → p c = false → p c' = false →
      xs ++ c :: r = ys ++ c' :: r' → xs = ys ∧ c :: r = c' :: r' := by
  intro xs
  induction xs with
  | nil =>
    intro ys c c' r r' _ hy hc _ h
    cases ys with
    | nil => exact ⟨rfl, by simpa using h⟩
    | cons y ys =>
      simp only [List.nil_append, List.cons_append, List.cons.injEq] at h
      have := hy y (by simp); rw [← h.1, hc] at this; cases this
  | cons x xs ih =>
    intro ys c c' r r' hx hy hc hc' h
    cases ys with
    | nil =>
      simp only [List.nil_append, List.cons_append, List.cons.injEq] at h
      have := hx x (by simp); rw [h.1, hc'] at this; cases this
    | cons y ys =>
      simp only [List.cons_append, List.cons.injEq] at h
      obtain ⟨h1, h2⟩ := ih ys c c' r r' (fun z hz => hx z (by simp [hz]))
        (fun z hz => hy z (by simp [hz])) hc hc' h.2
      exact ⟨by rw [h.1, h1], h2⟩

/-- a number followed by a non-digit is uniquely decodable -/
theorem natTxt_sep {n m c c' : Nat} {r r' : Txt} (hc : isDigit c = false)
    (hc' : isDigit c' = false) (h : natTxt n ++ c :: r = natTxt m ++ c' :: r') :
    n = m ∧ c :: r = c' :: r' := by
  obtain ⟨h1, h2⟩ := run_split _ _ _ _ _ _ (natTxt_isDigit n) (natTxt_isDigit m) hc hc' h
  exact ⟨natTxt_inj h1, h2⟩

/-! ## (c) escaping -/

/-- A DOT lexer's view of the inside of a double-quoted string: a backslash takes the next
character with it; outside such a pair neither `"` nor a raw newline may occur, and the text
must not end in a dangling backslash. The flag says "the previous character was a backslash that
is still waiting for its partner". -/
def wellEscapedAux : Bool → Txt → Bool
  | pending, [] => !pending
  | true, _ :: r => wellEscapedAux false r
  | false, c :: r =>
    if c = 92 then wellEscapedAux true r else c != 34 && c != 10 && wellEscapedAux false r

def wellEscaped (s : Txt) : Bool := wellEscapedAux false s

/-- **(c)** the escaped label never contains a bare `"`, a raw newline or a dangling `\`. -/
theorem trender_escape_wellEscaped (s : Txt) : wellEscaped (escape s) = true := by
  unfold wellEscaped
  induction s with
  | nil => rfl
  | cons c r ih =>
    simp only [escape, escChar, cQuote, cBackslash, cNewline, cLowerL]
    by_cases h1 : c = 34
    · subst h1; simp [wellEscapedAux, ih]
    · by_cases h2 : c = 92
      · subst h2; simp [wellEscapedAux, ih]
      · by_cases h3 : c = 10
        · subst h3; simp [wellEscapedAux, ih]
        · simp [h1, h2, h3, wellEscapedAux, ih]

-- non-vacuity: the three special characters, and a text that is NOT well escaped
example : escape [97, 34, 92, 10, 98] = [97, 92, 34, 92, 92, 92, 108, 98] := by decide
example : wellEscaped [97, 34] = false := by decide
example : wellEscaped [10] = false := by decide
example : wellEscaped [92] = false := by decide

/-- **(c)** no raw newline at all in an escaped label. -/
theorem trender_escape_no_newline (s : Txt) : 10 ∉ escape s := by
  induction s with
  | nil => simp [escape]
  | cons c r ih =>
    simp only [escape, escChar, cQuote, cBackslash, cNewline, cLowerL, List.mem_append]
    intro h
    rcases h with h | h
    · by_cases h1 : c = 34
      · simp [h1] at h
      · by_cases h2 : c = 92
        · simp [h2] at h
        · by_cases h3 : c = 10
          · simp [h3] at h
          · simp [h1, h2, h3] at h; omega
    · exact ih h

example : 10 ∈ [78, 68, 10, 115] ∧ 10 ∉ escape [78, 68, 10, 115] := by decide

/-- **(c)** the escaping loses nothing. -/
theorem trender_escape_inj : ∀ (s t : Txt), escape s = escape t → s = t := by
  have head_ne : ∀ c, ∃ a rest, escChar c = a :: rest := by
    intro c; simp only [escChar]; split
    · exact ⟨_, _, rfl⟩
    · split
      · exact ⟨_, _, rfl⟩
      · split <;> exact ⟨_, _, rfl⟩
  have key : ∀ c d (x y : Txt), escChar c ++ x = escChar d ++ y → c = d ∧ x = y := by
    intro c d x y h
    simp only [escChar, cQuote, cBackslash, cNewline, cLowerL] at h
    by_cases c1 : c = 34 <;> by_cases c2 : c = 92 <;> by_cases c3 : c = 10 <;>
    by_cases d1 : d = 34 <;> by_cases d2 : d = 92 <;> by_cases d3 : d = 10 <;>
    simp [c1, c2, c3, d1, d2, d3] at h <;> (try omega) <;>
    (first
      | (constructor <;> (first | omega | exact h | exact h.2 | exact h.1))
      | (exfalso; omega))
  intro s
  induction s with
  | nil =>
    intro t h
    cases t with
    | nil => rfl
    | cons d t =>
      obtain ⟨a, rest, ha⟩ := head_ne d
      simp [escape, ha] at h
  | cons c s ih =>
    intro t h
    cases t with
    | nil =>
      obtain ⟨a, rest, ha⟩ := head_ne c
      simp [escape, ha] at h
    | cons d t =>
      simp only [escape] at h
      obtain ⟨h1, h2⟩ := key c d _ _ h
      rw [h1, ih t h2]

example : escape [92, 108] ≠ escape [10] := by decide


/-! ## (a) counting -/

theorem filterMap_length_of_isSome {α β : Type} (f : α → Option β) :
    ∀ (l : List α), (∀ x ∈ l, (f x).isSome = true) → (l.filterMap f).length = l.length := by
  intro l
  induction l with
  | nil => intro _; rfl
  | cons x l ih =>
    intro h
    have hx := h x (by simp)
    match hfx : f x with
    | none => rw [hfx] at hx; cases hx
    | some y =>
      rw [List.filterMap_cons_some hfx]
      simp [ih (fun z hz => h z (by simp [hz]))]

section
variable {K P : Type}

theorem mem_nodeIndices_isSome (a : Automaton K P) : ∀ i ∈ a.g.nodeIndices,
    ((a.g.node? i).map fun nd => (DotItem.node i nd.w.det nd.w.matches_ nd.w.scope :
      DotItem K P)).isSome = true := by
  intro i hi
  simp only [SGraph.nodeIndices, List.mem_filter, SGraph.containsNode] at hi
  simpa using hi.2

theorem mem_edgeIndices_isSome (a : Automaton K P) : ∀ e ∈ edgeIndices a.g,
    ((a.g.edge? e).map fun ed => (DotItem.edge ed.src ed.dst ed.w : DotItem K P)).isSome
      = true := by
  intro e he
  simp only [edgeIndices, List.mem_filter] at he
  simpa using he.2

theorem nodeItems_length (a : Automaton K P) : (nodeItems a).length = a.g.nodeCount := by
  unfold nodeItems SGraph.nodeCount
  exact filterMap_length_of_isSome _ _ (mem_nodeIndices_isSome a)

theorem edgeItems_length (a : Automaton K P) :
    (edgeItems a).length = (edgeIndices a.g).length := by
  unfold edgeItems
  exact filterMap_length_of_isSome _ _ (mem_edgeIndices_isSome a)

theorem nodeItems_not_edge (a : Automaton K P) : ∀ it ∈ nodeItems a, it.isEdge = false := by
  intro it h
  simp only [nodeItems, List.mem_filterMap, Option.map_eq_some_iff] at h
  obtain ⟨i, _, nd, _, rfl⟩ := h
  rfl

theorem edgeItems_edge (a : Automaton K P) : ∀ it ∈ edgeItems a, it.isEdge = true := by
  intro it h
  simp only [edgeItems, List.mem_filterMap, Option.map_eq_some_iff] at h
  obtain ⟨i, _, ed, _, rfl⟩ := h
  rfl

theorem filter_edges (a : Automaton K P) :
    (dotItems a).filter (·.isEdge) = edgeItems a := by
  unfold dotItems
  rw [List.filter_append]
  have h1 : (nodeItems a).filter (·.isEdge) = [] := by
    rw [List.filter_eq_nil_iff]; intro x hx; simp [nodeItems_not_edge a x hx]
  have h2 : (edgeItems a).filter (·.isEdge) = edgeItems a := by
    rw [List.filter_eq_self]; intro x hx; exact edgeItems_edge a x hx
  rw [h1, h2]; rfl

theorem filter_nodes (a : Automaton K P) :
    (dotItems a).filter (fun it => !it.isEdge) = nodeItems a := by
  unfold dotItems
  rw [List.filter_append]
  have h1 : (nodeItems a).filter (fun it => !it.isEdge) = nodeItems a := by
    rw [List.filter_eq_self]; intro x hx; simp [nodeItems_not_edge a x hx]
  have h2 : (edgeItems a).filter (fun it => !it.isEdge) = [] := by
    rw [List.filter_eq_nil_iff]; intro x hx; simp [edgeItems_edge a x hx]
  rw [h1, h2]; simp

/-- **(a)** one node item per live state (`n_states()` = `node_count()` = `nodeCount`), one edge
item per live transition. -/
theorem trender_item_counts (a : Automaton K P) :
    ((dotItems a).filter (fun it => !it.isEdge)).length = a.g.nodeCount ∧
    ((dotItems a).filter (·.isEdge)).length = (edgeIndices a.g).length := by
  rw [filter_nodes, filter_edges]
  exact ⟨nodeItems_length a, edgeItems_length a⟩

/-- **(a)** the rendering has `live states + live transitions + 2` lines. -/
theorem trender_line_count (sk : K → Txt) (sp : P → Txt) (a : Automaton K P) :
    (dotLines sk sp a).length = a.g.nodeCount + (edgeIndices a.g).length + 2 := by
  simp only [dotLines, dotItems, List.length_cons, List.length_append, List.length_map,
    nodeItems_length, edgeItems_length, List.length_nil]

/-! ### recognising the lines in the text -/

/-- skip a run of digits -/
def afterDigits : Txt → Txt
  | [] => []
  | c :: r => if isDigit c then afterDigits r else c :: r

/-- `    <digits> -> …` -/
def isArrowLine (l : Txt) : Bool :=
  tIndent.isPrefixOf l && tArrow.isPrefixOf (afterDigits (l.drop 4))

/-- `    <digits> [ …` -/
def isNodeLine (l : Txt) : Bool :=
  tIndent.isPrefixOf l && [32, 91, 32].isPrefixOf (afterDigits (l.drop 4))

theorem afterDigits_run : ∀ (xs : Txt) (c : Nat) (r : Txt), (∀ x ∈ xs, isDigit x = true) →
    isDigit c = false → afterDigits (xs ++ c :: r) = c :: r := by
  intro xs
  induction xs with
  | nil => intro c r _ hc; simp [afterDigits, hc]
  | cons x xs ih =>
    intro c r hx hc
    simp only [List.cons_append, afterDigits, hx x (by simp), if_true]
    exact ih c r (fun z hz => hx z (by simp [hz])) hc

theorem isArrowLine_itemLine (sk : K → Txt) (sp : P → Txt) (it : DotItem K P) :
    isArrowLine (itemLine sk sp it) = it.isEdge := by
  cases it with
  | node id det ms sc =>
    simp only [isArrowLine, itemLine, itemHead, tIndent, tArrow, tLabelOpen, List.cons_append,
      List.nil_append, List.append_assoc, List.drop_succ_cons, List.drop_zero, DotItem.isEdge]
    rw [afterDigits_run _ _ _ (natTxt_isDigit id) (by decide)]
    simp [List.isPrefixOf]
  | edge s d c =>
    simp only [isArrowLine, itemLine, itemHead, tIndent, tArrow, tLabelOpen, List.cons_append,
      List.nil_append, List.append_assoc, List.drop_succ_cons, List.drop_zero, DotItem.isEdge]
    rw [afterDigits_run _ _ _ (natTxt_isDigit s) (by decide)]
    simp [List.isPrefixOf]

theorem isNodeLine_itemLine (sk : K → Txt) (sp : P → Txt) (it : DotItem K P) :
    isNodeLine (itemLine sk sp it) = !it.isEdge := by
  cases it with
  | node id det ms sc =>
    simp only [isNodeLine, itemLine, itemHead, tIndent, tLabelOpen, List.isPrefixOf, List.cons_append,
      List.nil_append, List.append_assoc, List.drop_succ_cons, List.drop_zero, DotItem.isEdge]
    rw [afterDigits_run _ _ _ (natTxt_isDigit id) (by decide)]
    simp [List.isPrefixOf]
  | edge s d c =>
    simp only [isNodeLine, itemLine, itemHead, tIndent, tArrow, tLabelOpen, List.isPrefixOf, List.cons_append,
      List.nil_append, List.append_assoc, List.drop_succ_cons, List.drop_zero, DotItem.isEdge]
    rw [afterDigits_run _ _ _ (natTxt_isDigit s) (by decide)]
    simp [List.isPrefixOf]

/-- **(a)** in the text: the number of arrow lines `    a -> b [ … ]` equals the number of live
transitions, the number of node lines `    i [ … ]` equals the number of live states. -/
theorem trender_arrow_and_node_lines (sk : K → Txt) (sp : P → Txt) (a : Automaton K P) :
    ((dotLines sk sp a).filter isArrowLine).length = (edgeIndices a.g).length ∧
    ((dotLines sk sp a).filter isNodeLine).length = a.g.nodeCount := by
  have hA : ((dotItems a).map (itemLine sk sp)).filter isArrowLine
      = ((dotItems a).filter (·.isEdge)).map (itemLine sk sp) := by
    rw [List.filter_map]; congr 1
    apply List.filter_congr; intro x _; simp [isArrowLine_itemLine]
  have hN : ((dotItems a).map (itemLine sk sp)).filter isNodeLine
      = ((dotItems a).filter (fun it => !it.isEdge)).map (itemLine sk sp) := by
    rw [List.filter_map]; congr 1
    apply List.filter_congr; intro x _; simp [isNodeLine_itemLine]
  have h1 : isArrowLine tHeader = false := by decide
  have h2 : isArrowLine tFooter = false := by decide
  have h3 : isNodeLine tHeader = false := by decide
  have h4 : isNodeLine tFooter = false := by decide
  constructor
  · simp only [dotLines, List.filter_cons, h1, List.filter_append, h2, hA, List.filter_nil]
    simp [(trender_item_counts a).2]
  · simp only [dotLines, List.filter_cons, h3, List.filter_append, h4, hN, List.filter_nil]
    simp [(trender_item_counts a).1]


/-! ## (b) the rendering as a function, and its injectivity -/

/-- **(b), easy direction**: the rendering depends only on the node and edge slots of the graph
(not on the free lists, not on the root): equal slots, equal text. In particular equal automata
render equally. -/
theorem trender_fun (sk : K → Txt) (sp : P → Txt) (a b : Automaton K P)
    (hn : a.g.nodes = b.g.nodes) (he : a.g.edges = b.g.edges) :
    dotString sk sp a = dotString sk sp b := by
  have hc : a.g.containsNode = b.g.containsNode := by
    funext i; simp only [SGraph.containsNode, SGraph.node?, hn]
  have : dotItems a = dotItems b := by
    simp only [dotItems, nodeItems, edgeItems, SGraph.nodeIndices, edgeIndices,
      SGraph.node?, SGraph.edge?, hn, he, hc]
  simp only [dotString, dotTxt, dotLines, this]

/-- the live transitions as printed: (source, target, label) in edge-index order -/
def edgeViews (a : Automaton K P) : List (Nat × Nat × Option (Constraint K P)) :=
  (edgeIndices a.g).filterMap fun e => (a.g.edge? e).map fun ed => (ed.src, ed.dst, ed.w)

def DotItem.id : DotItem K P → Nat
  | .node i .. => i
  | .edge s .. => s

theorem map_filterMap_self {α β : Type} (f : α → Option β) (g : β → α) :
    ∀ (l : List α), (∀ x ∈ l, ∃ y, f x = some y ∧ g y = x) → (l.filterMap f).map g = l := by
  intro l
  induction l with
  | nil => intro _; rfl
  | cons x l ih =>
    intro h
    obtain ⟨y, hy, hg⟩ := h x (by simp)
    rw [List.filterMap_cons_some hy, List.map_cons, hg, ih (fun z hz => h z (by simp [hz]))]

theorem map_inj_of_inj {α β : Type} (f : α → β) (hf : ∀ x y, f x = f y → x = y) :
    ∀ (l l' : List α), l.map f = l'.map f → l = l' := by
  intro l
  induction l with
  | nil => intro l' h; cases l' with
    | nil => rfl
    | cons y l' => simp at h
  | cons x l ih => intro l' h; cases l' with
    | nil => simp at h
    | cons y l' =>
      simp only [List.map_cons, List.cons.injEq] at h
      rw [hf x y h.1, ih l' h.2]

theorem nodeItems_ids (a : Automaton K P) : (nodeItems a).map DotItem.id = a.g.nodeIndices := by
  unfold nodeItems
  apply map_filterMap_self
  intro i hi
  have := mem_nodeIndices_isSome a i hi
  match h : a.g.node? i with
  | none => rw [h] at this; cases this
  | some nd => exact ⟨_, rfl, rfl⟩

theorem edgeItems_views (a : Automaton K P) :
    edgeItems a = (edgeViews a).map fun v => DotItem.edge v.1 v.2.1 v.2.2 := by
  simp only [edgeItems, edgeViews, List.map_filterMap, Option.map_map]
  rfl

/-- **(b), structured level** (any key / predicate type): if two automata produce the same
sequence of printed items, they have the same live state ids, every live state has the same
flag, accepted list and scope in both, and the live transitions (source, target, label) agree
in edge-index order. -/
theorem trender_items_inj (a b : Automaton K P) (h : dotItems a = dotItems b) :
    a.g.nodeIndices = b.g.nodeIndices ∧
    (∀ i nd, a.g.node? i = some nd → ∃ nd', b.g.node? i = some nd' ∧ nd'.w.det = nd.w.det ∧
        nd'.w.matches_ = nd.w.matches_ ∧ nd'.w.scope = nd.w.scope) ∧
    edgeViews a = edgeViews b := by
  have hN : nodeItems a = nodeItems b := by
    rw [← filter_nodes a, ← filter_nodes b, h]
  have hE : edgeItems a = edgeItems b := by
    rw [← filter_edges a, ← filter_edges b, h]
  refine ⟨?_, ?_, ?_⟩
  · rw [← nodeItems_ids a, ← nodeItems_ids b, hN]
  · intro i nd hnd
    have hi : i ∈ a.g.nodeIndices := by
      simp [SGraph.nodeIndices, SGraph.containsNode, hnd]
      simp only [SGraph.node?] at hnd
      match hq : a.g.nodes[i]? with
      | none => rw [hq] at hnd; cases hnd
      | some _ => exact (List.getElem?_eq_some_iff.mp hq).1
    have hmem : (DotItem.node i nd.w.det nd.w.matches_ nd.w.scope : DotItem K P) ∈ nodeItems a := by
      simp only [nodeItems, List.mem_filterMap, Option.map_eq_some_iff]
      exact ⟨i, hi, nd, hnd, rfl⟩
    rw [hN] at hmem
    simp only [nodeItems, List.mem_filterMap, Option.map_eq_some_iff] at hmem
    obtain ⟨j, _, nd', hnd', heq⟩ := hmem
    simp only [DotItem.node.injEq] at heq
    obtain ⟨rfl, h1, h2, h3⟩ := heq
    exact ⟨nd', hnd', h1, h2, h3⟩
  · rw [edgeItems_views a, edgeItems_views b] at hE
    apply map_inj_of_inj _ _ _ _ hE
    intro x y hxy
    simp only [DotItem.edge.injEq] at hxy
    obtain ⟨x1, x2, x3⟩ := x
    obtain ⟨y1, y2, y3⟩ := y
    simp_all

/-! ### uniquely decodable pieces -/

/-- `e` is uniquely decodable in front of a non-digit -/
def Code {α : Type} (e : α → Txt) : Prop :=
  ∀ x y c c' r r', isDigit c = false → isDigit c' = false →
    e x ++ c :: r = e y ++ c' :: r' → x = y ∧ c :: r = c' :: r'

theorem sepTail_head {α : Type} (e : α → Txt) (t : Nat) (ht : isDigit t = false) (r : Txt) :
    ∀ xs, ∃ c rest, sepTail e xs ++ t :: r = c :: rest ∧ isDigit c = false := by
  intro xs
  cases xs with
  | nil => exact ⟨t, r, rfl, ht⟩
  | cons x xs => exact ⟨44, _, rfl, by decide⟩

theorem sepTail_inj {α : Type} {e : α → Txt} (he : Code e) (t : Nat) (ht : isDigit t = false)
    (ht44 : t ≠ 44) : ∀ (xs ys : List α) (r r' : Txt),
      sepTail e xs ++ t :: r = sepTail e ys ++ t :: r' → xs = ys ∧ r = r' := by
  intro xs
  induction xs with
  | nil =>
    intro ys r r' h
    cases ys with
    | nil => simpa [sepTail] using h
    | cons y ys => simp [sepTail] at h; exact absurd h.1 ht44
  | cons x xs ih =>
    intro ys r r' h
    cases ys with
    | nil => simp [sepTail] at h; exact absurd h.1.symm ht44
    | cons y ys =>
      simp only [sepTail, List.cons_append, List.append_assoc, List.cons.injEq, true_and] at h
      obtain ⟨c, rest, hc, hcd⟩ := sepTail_head e t ht r xs
      obtain ⟨c', rest', hc', hcd'⟩ := sepTail_head e t ht r' ys
      rw [hc, hc'] at h
      obtain ⟨hxy, hrest⟩ := he x y c c' rest rest' hcd hcd' h
      rw [← hc, ← hc'] at hrest
      obtain ⟨h1, h2⟩ := ih ys r r' hrest
      exact ⟨by rw [hxy, h1], h2⟩

theorem sepBy_inj {α : Type} {e : α → Txt} (he : Code e) (t : Nat) (ht : isDigit t = false)
    (ht44 : t ≠ 44) (hhead : ∀ x, ∃ c rest, e x = c :: rest ∧ c ≠ t) :
    ∀ (xs ys : List α) (r r' : Txt),
      sepBy e xs ++ t :: r = sepBy e ys ++ t :: r' → xs = ys ∧ r = r' := by
  intro xs ys r r' h
  cases xs with
  | nil =>
    cases ys with
    | nil => simpa [sepBy] using h
    | cons y ys =>
      obtain ⟨c, rest, hc, hne⟩ := hhead y
      simp [sepBy, hc] at h; exact absurd h.1.symm hne
  | cons x xs =>
    cases ys with
    | nil =>
      obtain ⟨c, rest, hc, hne⟩ := hhead x
      simp [sepBy, hc] at h; exact absurd h.1 hne
    | cons y ys =>
      simp only [sepBy, List.append_assoc] at h
      obtain ⟨c, rest, hc, hcd⟩ := sepTail_head e t ht r xs
      obtain ⟨c', rest', hc', hcd'⟩ := sepTail_head e t ht r' ys
      rw [hc, hc'] at h
      obtain ⟨hxy, hrest⟩ := he x y c c' rest rest' hcd hcd' h
      rw [← hc, ← hc'] at hrest
      obtain ⟨h1, h2⟩ := sepTail_inj he t ht ht44 xs ys r r' hrest
      exact ⟨by rw [hxy, h1], h2⟩

/-- what the line-level injectivity needs from a key printer: it starts with `c` (of `char@`)
and is uniquely decodable in front of a non-digit -/
structure KeyCode (sk : K → Txt) : Prop where
  head : ∀ k, ∃ r, sk k = 99 :: r
  code : Code sk

/-- … and from a predicate printer: it does not start with `ε` and is uniquely decodable in
front of `(` -/
structure PredCode (sp : P → Txt) : Prop where
  head : ∀ p, ∃ c r, sp p = c :: r ∧ c ≠ 949
  code : ∀ p q r r', sp p ++ 40 :: r = sp q ++ 40 :: r' → p = q ∧ r = r'

theorem listTxt_inj {sk : K → Txt} (hk : KeyCode sk) (xs ys : List K) (r r' : Txt)
    (h : listTxt sk xs ++ r = listTxt sk ys ++ r') : xs = ys ∧ r = r' := by
  simp only [listTxt, List.cons_append, List.append_assoc, List.cons.injEq, true_and,
    List.nil_append] at h
  refine sepBy_inj hk.code 93 (by decide) (by decide) ?_ xs ys r r' h
  intro x; obtain ⟨rest, hr⟩ := hk.head x; exact ⟨99, rest, hr, by decide⟩

theorem matchTxt_code {sk : K → Txt} (hk : KeyCode sk) : Code (matchTxt sk) := by
  intro x y c c' r r' _ _ h
  simp only [matchTxt, tColon, List.append_assoc, List.cons_append, List.nil_append] at h
  obtain ⟨h1, h2⟩ := natTxt_sep (by decide) (by decide) h
  simp only [List.cons.injEq, true_and] at h2
  obtain ⟨h3, h4⟩ := listTxt_inj hk _ _ _ _ h2
  exact ⟨Prod.ext h1 h3, h4⟩

theorem matchTxt_head (sk : K → Txt) (m : Nat × List K) :
    ∃ c rest, matchTxt sk m = c :: rest ∧ c ≠ 125 := by
  obtain ⟨d, r, hd, hdig⟩ := natTxt_ne_nil m.1
  refine ⟨d, r ++ (tColon ++ listTxt sk m.2), by simp [matchTxt, hd], ?_⟩
  intro h; subst h; revert hdig; decide

/-- the `Debug` text of a state determines the three fields it prints -/
theorem stateTxt_inj {sk : K → Txt} (hk : KeyCode sk) (d d' : Bool) (ms ms' : List (Nat × List K))
    (sc sc' : List K) (h : stateTxt sk d ms sc = stateTxt sk d' ms' sc') :
    d = d' ∧ ms = ms' ∧ sc = sc' := by
  have tail : ∀ (x y : Txt), tScope ++ listTxt sk sc ++ x = tScope ++ listTxt sk sc' ++ y →
      sc = sc' := by
    intro x y hxy
    rw [List.append_assoc, List.append_assoc] at hxy
    exact (listTxt_inj hk _ _ _ _ (List.append_cancel_left hxy)).1
  have both : matchesTxt sk ms ++ cNewline :: (tScope ++ listTxt sk sc) =
      matchesTxt sk ms' ++ cNewline :: (tScope ++ listTxt sk sc') → ms = ms' ∧ sc = sc' := by
    intro hXY
    unfold matchesTxt at hXY
    cases ms with
    | nil =>
      cases ms' with
      | nil =>
        simp only [List.nil_append, List.cons.injEq, true_and] at hXY
        exact ⟨rfl, tail [] [] (by simpa using hXY)⟩
      | cons m' ms' => simp [cNewline] at hXY
    | cons m ms =>
      cases ms' with
      | nil => simp [cNewline] at hXY
      | cons m' ms' =>
        simp only [List.cons_append, List.append_assoc, List.cons.injEq, true_and,
          List.nil_append] at hXY
        obtain ⟨h1, h2⟩ := sepBy_inj (matchTxt_code hk) 125 (by decide) (by decide)
          (matchTxt_head sk) _ _ _ _ hXY
        simp only [List.cons.injEq, true_and] at h2
        exact ⟨h1, tail [] [] (by simpa using h2)⟩
  unfold stateTxt at h
  cases d <;> cases d'
  · simp only [Bool.false_eq_true, if_false, List.cons_append, List.nil_append,
      List.cons.injEq, true_and] at h
    exact ⟨rfl, both h⟩
  · simp at h
  · simp at h
  · simp only [if_true, List.cons_append, List.nil_append,
      List.cons.injEq, true_and] at h
    exact ⟨rfl, both h⟩

theorem transTxt_inj {sk : K → Txt} {sp : P → Txt} (hk : KeyCode sk) (hp : PredCode sp)
    (c c' : Option (Constraint K P)) (h : transTxt sk sp c = transTxt sk sp c') : c = c' := by
  cases c with
  | none =>
    cases c' with
    | none => rfl
    | some c' =>
      obtain ⟨x, r, hx, hne⟩ := hp.head c'.pred
      simp [transTxt, consTxt, hx, cEps] at h
  | some c =>
    cases c' with
    | none =>
      obtain ⟨x, r, hx, hne⟩ := hp.head c.pred
      simp [transTxt, consTxt, hx, cEps] at h
    | some c' =>
      simp only [transTxt, consTxt] at h
      obtain ⟨h1, h2⟩ := hp.code _ _ _ _ h
      have h3 := (sepBy_inj hk.code 41 (by decide) (by decide)
        (by intro x; obtain ⟨rest, hr⟩ := hk.head x; exact ⟨99, rest, hr, by decide⟩)
        _ _ [] [] h2).1
      cases c; cases c'; simp_all

/-- **(b), line level**: with uniquely decodable key and predicate printers, an output line
determines the item it prints — through the escaping. -/
theorem trender_itemLine_inj {sk : K → Txt} {sp : P → Txt} (hk : KeyCode sk) (hp : PredCode sp)
    (it it' : DotItem K P) (h : itemLine sk sp it = itemLine sk sp it') : it = it' := by
  have lab : ∀ (x y : Txt), tLabelOpen ++ (escape x ++ tLabelClose) =
      tLabelOpen ++ (escape y ++ tLabelClose) → x = y := by
    intro x y hxy
    exact trender_escape_inj _ _ (List.append_cancel_right (List.append_cancel_left hxy))
  cases it with
  | node i d ms sc =>
    cases it' with
    | node i' d' ms' sc' =>
      simp only [itemLine, itemHead, itemLabel, List.append_assoc] at h
      have h := List.append_cancel_left h
      simp only [tLabelOpen, List.cons_append] at h
      obtain ⟨h1, h2⟩ := natTxt_sep (by decide) (by decide) h
      have h3 := lab _ _ (by simpa [tLabelOpen] using h2)
      obtain ⟨h4, h5, h6⟩ := stateTxt_inj hk _ _ _ _ _ _ h3
      rw [h1, h4, h5, h6]
    | edge s' t' c' =>
      simp only [itemLine, itemHead, itemLabel, List.append_assoc] at h
      have h := List.append_cancel_left h
      simp only [tLabelOpen, tArrow, List.cons_append] at h
      obtain ⟨_, h2⟩ := natTxt_sep (by decide) (by decide) h
      simp at h2
  | edge s t c =>
    cases it' with
    | node i' d' ms' sc' =>
      simp only [itemLine, itemHead, itemLabel, List.append_assoc] at h
      have h := List.append_cancel_left h
      simp only [tLabelOpen, tArrow, List.cons_append] at h
      obtain ⟨_, h2⟩ := natTxt_sep (by decide) (by decide) h
      simp at h2
    | edge s' t' c' =>
      simp only [itemLine, itemHead, itemLabel, List.append_assoc] at h
      have h := List.append_cancel_left h
      simp only [tLabelOpen, tArrow, List.cons_append] at h
      obtain ⟨h1, h2⟩ := natTxt_sep (by decide) (by decide) h
      simp only [List.cons.injEq, true_and] at h2
      obtain ⟨h3, h4⟩ := natTxt_sep (by decide) (by decide) h2
      have h5 := lab _ _ (by simpa [tLabelOpen] using h4)
      rw [h1, h3, transTxt_inj hk hp _ _ h5]


/-! ### from the text back to the lines -/

theorem unlines_inj : ∀ (ls ls' : List Txt), (∀ l ∈ ls, 10 ∉ l) → (∀ l ∈ ls', 10 ∉ l) →
    unlines ls = unlines ls' → ls = ls' := by
  intro ls
  induction ls with
  | nil =>
    intro ls' _ _ h
    cases ls' with
    | nil => rfl
    | cons l' r' => simp [unlines] at h
  | cons l r ih =>
    intro ls' h1 h2 h
    cases ls' with
    | nil => simp [unlines] at h
    | cons l' r' =>
      simp only [unlines, cNewline] at h
      have hp : ∀ (x : Txt), 10 ∉ x → ∀ c ∈ x, (c != 10) = true := by
        intro x hx c hc; simp; intro hc10; exact hx (hc10 ▸ hc)
      obtain ⟨e1, e2⟩ := run_split (p := fun c => c != 10) l l' 10 10 _ _
        (hp l (h1 l (by simp))) (hp l' (h2 l' (by simp))) (by decide) (by decide) h
      simp only [List.cons.injEq, true_and] at e2
      rw [e1, ih r' (fun x hx => h1 x (by simp [hx])) (fun x hx => h2 x (by simp [hx])) e2]

theorem natTxt_no_newline (n : Nat) : 10 ∉ natTxt n := by
  intro h; have := natTxt_isDigit n 10 h; revert this; decide

theorem itemLine_no_newline (sk : K → Txt) (sp : P → Txt) (it : DotItem K P) :
    10 ∉ itemLine sk sp it := by
  have e := trender_escape_no_newline (itemLabel sk sp it)
  have hI : 10 ∉ tIndent := by decide
  have hO : 10 ∉ tLabelOpen := by decide
  have hC : 10 ∉ tLabelClose := by decide
  have hA : 10 ∉ tArrow := by decide
  cases it with
  | node i d ms sc =>
    simp only [itemLine, itemHead, List.mem_append, not_or]
    exact ⟨⟨⟨⟨hI, natTxt_no_newline i⟩, hO⟩, e⟩, hC⟩
  | edge s t c =>
    simp only [itemLine, itemHead, List.mem_append, not_or]
    exact ⟨⟨⟨⟨⟨⟨hI, natTxt_no_newline s⟩, hA⟩, natTxt_no_newline t⟩, hO⟩, e⟩, hC⟩

theorem dotLines_no_newline (sk : K → Txt) (sp : P → Txt) (a : Automaton K P) :
    ∀ l ∈ dotLines sk sp a, 10 ∉ l := by
  intro l hl
  simp only [dotLines, List.mem_cons, List.mem_append, List.mem_map, List.not_mem_nil,
    or_false] at hl
  rcases hl with rfl | ⟨it, _, rfl⟩ | rfl
  · decide
  · exact itemLine_no_newline sk sp it
  · decide

/-- the only newline characters of the text are the line terminators: as many as lines -/
theorem trender_newline_count (sk : K → Txt) (sp : P → Txt) (a : Automaton K P) :
    (dotTxt sk sp a).count 10 = a.g.nodeCount + (edgeIndices a.g).length + 2 := by
  have gen : ∀ (ls : List Txt), (∀ l ∈ ls, 10 ∉ l) → (unlines ls).count 10 = ls.length := by
    intro ls
    induction ls with
    | nil => intro _; rfl
    | cons l r ih =>
      intro h
      simp only [unlines, cNewline, List.count_append, List.count_cons_self, List.length_cons]
      rw [List.count_eq_zero.mpr (h l (by simp)), ih (fun x hx => h x (by simp [hx]))]
      omega
  rw [dotTxt, gen _ (dotLines_no_newline sk sp a), trender_line_count]

/-- **(b), text level, generic**: with uniquely decodable key and predicate printers, equal
rendered text means equal item sequences. -/
theorem trender_text_items {sk : K → Txt} {sp : P → Txt} (hk : KeyCode sk) (hp : PredCode sp)
    (a b : Automaton K P) (h : dotTxt sk sp a = dotTxt sk sp b) : dotItems a = dotItems b := by
  have hl := unlines_inj _ _ (dotLines_no_newline sk sp a) (dotLines_no_newline sk sp b) h
  simp only [dotLines, List.cons.injEq, true_and] at hl
  have hm := List.append_cancel_right hl
  exact map_inj_of_inj _ (trender_itemLine_inj hk hp) _ _ hm

end

/-! ### the two shipped domains -/

theorem strKeyCode : KeyCode strKeyTxt where
  head := fun k => ⟨_, rfl⟩
  code := by
    intro x y c c' r r' hc hc' h
    simp only [strKeyTxt, List.append_assoc] at h
    obtain ⟨h1, h2⟩ := natTxt_sep hc hc' (List.append_cancel_left h)
    exact ⟨h1, h2⟩

theorem intTxt_sep {i j : Int} {c c' : Nat} {r r' : Txt} (hc : isDigit c = false)
    (hc' : isDigit c' = false) (h : intTxt i ++ c :: r = intTxt j ++ c' :: r') :
    i = j ∧ c :: r = c' :: r' := by
  cases i with
  | ofNat n =>
    cases j with
    | ofNat m =>
      obtain ⟨h1, h2⟩ := natTxt_sep hc hc' h
      exact ⟨by rw [h1], h2⟩
    | negSucc m =>
      obtain ⟨d, rest, hd, hdig⟩ := natTxt_ne_nil n
      simp only [intTxt, hd, List.cons_append, List.cons.injEq] at h
      rw [h.1] at hdig; exact absurd hdig (by decide)
  | negSucc n =>
    cases j with
    | ofNat m =>
      obtain ⟨d, rest, hd, hdig⟩ := natTxt_ne_nil m
      simp only [intTxt, hd, List.cons_append, List.cons.injEq] at h
      rw [← h.1] at hdig; exact absurd hdig (by decide)
    | negSucc m =>
      simp only [intTxt, List.cons_append, List.cons.injEq, true_and] at h
      obtain ⟨h1, h2⟩ := natTxt_sep hc hc' h
      exact ⟨by rw [show n = m by omega], h2⟩

theorem matKeyCode : KeyCode matKeyTxt where
  head := fun k => ⟨_, rfl⟩
  code := by
    intro x y c c' r r' _ _ h
    simp only [matKeyTxt, List.append_assoc, List.cons_append] at h
    have h := List.append_cancel_left h
    simp only [List.cons.injEq, true_and] at h
    obtain ⟨h1, h2⟩ := intTxt_sep (by decide) (by decide) h
    simp only [List.cons.injEq, true_and] at h2
    obtain ⟨h3, h4⟩ := intTxt_sep (by decide) (by decide) h2
    simp only [List.cons.injEq, true_and, List.nil_append] at h4
    exact ⟨Prod.ext h1 h3, by rw [h4.1, h4.2]⟩

theorem charPredCode : PredCode charPredTxt where
  head := by
    intro p; cases p with
    | bindingEq => exact ⟨86, _, rfl, by decide⟩
    | constVal c => exact ⟨67, _, rfl, by decide⟩
  code := by
    intro p q r r' h
    cases p with
    | bindingEq =>
      cases q with
      | bindingEq => exact ⟨rfl, by simpa using List.append_cancel_left h⟩
      | constVal d => simp [charPredTxt, tVarEq, tConstOpen] at h
    | constVal c =>
      cases q with
      | bindingEq => simp [charPredTxt, tVarEq, tConstOpen] at h
      | constVal d =>
        simp only [charPredTxt, List.append_assoc] at h
        have h := List.append_cancel_left h
        simp only [List.cons_append, List.cons.injEq, true_and, List.nil_append] at h
        exact ⟨by rw [h.1], h.2⟩

/-- What a rendering shows of an automaton: live state ids; flag, accepted list (in printed
order) and scope of every live state; the live transitions as (source, target, label) in
edge-index order. -/
def SameShown {K P : Type} (a b : Automaton K P) : Prop :=
  a.g.nodeIndices = b.g.nodeIndices ∧
  (∀ i nd, a.g.node? i = some nd → ∃ nd', b.g.node? i = some nd' ∧ nd'.w.det = nd.w.det ∧
      nd'.w.matches_ = nd.w.matches_ ∧ nd'.w.scope = nd.w.scope) ∧
  edgeViews a = edgeViews b

/-- **(b) for C17, strings**: two string automata whose `dot_string()` texts are equal code
point by code point show the same automaton — injectivity of the rendering up to what it
prints, through petgraph's escaping. -/
theorem trender_str_text_inj (a b : Automaton Nat CharPred) (h : strDotTxt a = strDotTxt b) :
    SameShown a b :=
  trender_items_inj a b (trender_text_items strKeyCode charPredCode a b h)

/-- **(b) for C17, matrices**. -/
theorem trender_mat_text_inj (a b : Automaton MKey CharPred) (h : matDotTxt a = matDotTxt b) :
    SameShown a b :=
  trender_items_inj a b (trender_text_items matKeyCode charPredCode a b h)

/-- the same on the line level (`dotLines`), strings -/
theorem trender_str_lines_inj (a b : Automaton Nat CharPred)
    (h : dotLines strKeyTxt charPredTxt a = dotLines strKeyTxt charPredTxt b) : SameShown a b :=
  trender_str_text_inj a b (by simp only [strDotTxt, dotTxt, h])

/-! ## non-vacuity: a concrete automaton with a vacant node slot, a vacant edge slot, an
accepting state and a label that needs escaping -/

/-- states 0 (root, deterministic) and 2 (accepts pattern 0); slot 1 vacant; edge 0 is
`0 -[Const["](char@0)]-> 2`, edge slot 1 vacant -/
def exA : Automaton Nat CharPred :=
  ⟨⟨[some ⟨{ det := true, corder := [0], scope := [0] }, [0], []⟩, none,
     some ⟨{ matches_ := [(0, [0, 12])] }, [], [0]⟩],
    [some ⟨0, 2, some ⟨.constVal 34, [0]⟩⟩, none], [1], [1]⟩, 0⟩

/-- the same but the accepted keys differ -/
def exB : Automaton Nat CharPred :=
  ⟨⟨[some ⟨{ det := true, corder := [0], scope := [0] }, [0], []⟩, none,
     some ⟨{ matches_ := [(0, [0, 1])] }, [], [0]⟩],
    [some ⟨0, 2, some ⟨.constVal 34, [0]⟩⟩, none], [1], [1]⟩, 0⟩

/-- the same as `exA` up to free lists and root -/
def exA' : Automaton Nat CharPred := ⟨{ exA.g with freeNodes := [], freeEdges := [] }, 2⟩

-- the text, as the harness would receive it from `dot_string()`:
-- digraph {
--     0 [ label = "D\lscope: [char@0]" ]
--     2 [ label = "ND {0: [char@0, char@12]}\lscope: []" ]
--     0 -> 2 [ label = "Const[\"](char@0)" ]
-- }
example : strDotString exA =
    "digraph {\n    0 [ label = \"D\\lscope: [char@0]\" ]\n    2 [ label = \"ND {0: [char@0, char@12]}\\lscope: []\" ]\n    0 -> 2 [ label = \"Const[\\\"](char@0)\" ]\n}\n" := by
  decide +kernel

-- (a): 3 node slots but 2 node lines, 2 edge slots but 1 arrow line, 5 lines, 5 newlines
example : exA.g.nodes.length = 3 ∧ exA.g.edges.length = 2 ∧
    ((dotLines strKeyTxt charPredTxt exA).filter isNodeLine).length = 2 ∧
    ((dotLines strKeyTxt charPredTxt exA).filter isArrowLine).length = 1 ∧
    (strDotTxt exA).count 10 = 5 := by decide +kernel
example : exA.g.nodeCount = 2 ∧ (edgeIndices exA.g).length = 1 :=
  ⟨((trender_arrow_and_node_lines strKeyTxt charPredTxt exA).2).symm.trans (by decide +kernel),
   ((trender_arrow_and_node_lines strKeyTxt charPredTxt exA).1).symm.trans (by decide +kernel)⟩
-- (b): free lists and root do not matter; a different accepted key list gives a different text
example : strDotString exA' = strDotString exA := trender_fun _ _ _ _ rfl rfl
example : strDotTxt exA ≠ strDotTxt exB := by decide +kernel
example : ¬ SameShown exA exB := by
  intro h
  obtain ⟨nd', h1, _, h2, _⟩ := h.2.1 2 _ rfl
  have : nd' = ⟨{ matches_ := [(0, [0, 1])] }, [], [0]⟩ := by
    have : exB.g.node? 2 = some ⟨{ matches_ := [(0, [0, 1])] }, [], [0]⟩ := rfl
    rw [this] at h1; exact (Option.some.inj h1).symm
  subst this
  revert h2; decide
example : SameShown exA exA' := trender_str_text_inj exA exA' (by decide +kernel)
-- the hypotheses of the generic theorems are not vacuous: a key printer that is NOT uniquely
-- decodable (every key printed as `c`) makes different automata render equally
example : dotTxt (fun _ : Nat => [99]) charPredTxt exA = dotTxt (fun _ : Nat => [99]) charPredTxt exB := by
  decide +kernel

end Render

/-! ## statements under the names the manifest uses -/

export Render (trender_escape_wellEscaped trender_escape_no_newline trender_escape_inj
  trender_item_counts trender_line_count trender_arrow_and_node_lines trender_newline_count
  trender_fun trender_items_inj trender_itemLine_inj trender_text_items trender_str_text_inj
  trender_mat_text_inj trender_str_lines_inj)

end Pm

section AxiomAudit
open Pm
#print axioms trender_escape_wellEscaped
#print axioms trender_escape_no_newline
#print axioms trender_escape_inj
#print axioms trender_item_counts
#print axioms trender_line_count
#print axioms trender_arrow_and_node_lines
#print axioms trender_newline_count
#print axioms trender_fun
#print axioms trender_items_inj
#print axioms trender_itemLine_inj
#print axioms trender_text_items
#print axioms trender_str_text_inj
#print axioms trender_mat_text_inj
#print axioms trender_str_lines_inj
end AxiomAudit
