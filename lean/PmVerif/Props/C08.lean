/-
Props/C08.lean — property C08 (totality): "for every set of well-formed patterns, construction of
ManyMatcher returns, and find_matches on any host runs to exhaustion, without panic, overflow or
non-termination". Strings and matrices. Summary (details in the part headers below):

BUILD (parts 3, 4; every pattern list, EVERY event log, the disciplined replays `buildT` = guarded
and `buildTL` = the Rust code, Model/BuilderT.lean):
* `c08_str_buildT_panic_only`, `c08_mat_buildT_panic_only` — any fuel: the only panic a build can
  return is `expect("Graph should be acyclic")` of `populate_scopes`; all other panic sites of the
  builder are unreachable.
* `c08_str_build_errors`, `c08_mat_build_errors` — `fuel ≥ 16`: every error is a guard error of the
  replay (the log is not one the Rust loop can produce) or that panic; no fuel error.
* Remaining target: acyclicity of the automaton the main loop ends with
  (`c08_str_build_acyclic_target`; `c08_str_buildTL_no_panic_of_acyclic` shows it is exactly what
  is missing). T-BUILD certifies acyclicity only a posteriori.
* `c08_buildL_merge_dead_panics` — the undisciplined `build`/`buildL` panic ("unknown state") on a
  log whose `Merge` event names a vacant state; c4T excludes it.
* `c08_buildT_imp_build` — `buildT` refines `build`, `buildTL` refines `buildL`.
* `c08_fuse_unique` — (I1): after `make_constraints_unique(s)` the constraints at `s` are pairwise
  different (≤ 1 epsilon): the `assert!` of `fail_next_state` inside `make_det` cannot fail.

TRAVERSAL (parts 1, 2, 5; every automaton returned by `build`, `buildT` or `buildTL`, EVERY host —
matrix hosts may be ragged or empty — EVERY fuel):
* `c08_str_run_panic_only` / `c08_mat_run_panic_only` (guarded `build`), `c08_str_run_TL` /
  `c08_mat_run_TL` (lenient `buildTL`) — the ONLY panic `run` can return is the `assert!` of
  `fail_next_state`, and only if some live state has two epsilon transitions (`¬ C08.EpsLe1`);
  `run` never returns a guard error.
* FINDING `c08_str_run_no_panic_target_false`, `c08_mat_run_no_panic_target_false`: the
  unconditional statement is FALSE for the undisciplined `build`/`buildL`: `C08.cexStr_panics` is a
  pattern list, an accepted event log (it emits the root twice) and a host on which `run` returns
  that panic. `buildT`/`buildTL` reject that log (c1T), but `C08.EpsLe1` does not follow from the
  discipline by a step-by-step argument either: see "Where (I2) is NOT inductive" below.
* `c08_*_run_no_panic_partial` — with the decidable hypothesis `C08.EpsLe1 M.automaton`
  (`C08.epsLe1`; clause 1 of `strProgramOK`/`matProgramOK`, evaluated by the driver on every
  dumped automaton) the traversal never panics.
* `c08_str_run_terminates`, `c08_mat_run_terminates` — EXPLICIT fuel bound, no extra hypothesis:
  for `fuel' ≥ C08.strRunBound A h = geom (max 1 (strByteLen h) · outDeg A) |node slots of A|`
  (`geom b n = 1 + b + … + bⁿ`, `outDeg A` = 1 + the largest `constraint_order` length; matrices:
  the number of host cells instead of `strByteLen h`) the run does not return a fuel error.
* `c08_str_find_matches_total`, `c08_mat_find_matches_total`; `c08_run_generic` (any domain).
* `c08_mat_no_assert` — the `assert!` of the matrix `list_bind_options` is unreachable.
* COMBINED: `c08_str_total`, `c08_mat_total` (guarded disciplined build), `c08_str_total_TL`,
  `c08_mat_total_TL` (the Rust code path).

Proofs: `Proofs/C08Run.lean` (generic traversal), `C08Str`, `C08Mat`, `C08Cex` (counterexample),
`C08BuildT` (refinement), `C08Fuse` ((I1)), `C08Total1…6` (totality of every builder step),
`C08Fuel` (fuel), `C08Lenient` (`StateOK` etc. for `buildTL`).

PART 1 — the traversal (`run` / `find_matches`) of a built automaton, strings and matrices, for
EVERY pattern list, EVERY event log the guarded build accepts, EVERY host and EVERY fuel.
-/
import PmVerif.Proofs.C08Run
import PmVerif.Proofs.C08Str
import PmVerif.Proofs.C08Mat
import PmVerif.Proofs.C08Cex
import PmVerif.Proofs.C08BuildT
import PmVerif.Proofs.C08Fuse
import PmVerif.Proofs.C08Total6
import PmVerif.Proofs.C08Fuel
import PmVerif.Proofs.C08Lenient
import PmVerif.Props.C01Str
import PmVerif.Props.C01Mat
namespace Pm
open Automaton

/-! ### the epsilon check -/

/-- Decidable form of `C08.EpsLe1` (clause 1 of `strProgramOK` / `matProgramOK`). -/
def C08.epsLe1 {K P : Type} (a : Automaton K P) : Bool :=
  a.liveStates.all fun s => decide ((a.stateD s).eorder.length ≤ 1)

theorem c08_epsLe1_iff {K P : Type} (a : Automaton K P) : C08.epsLe1 a = true ↔ C08.EpsLe1 a := by
  unfold C08.epsLe1 C08.EpsLe1
  rw [liveStates_all a fun _ w => decide (w.eorder.length ≤ 1)]
  simp

/-! ### the generic theorem -/

/-- **C08, traversal, any domain.** Under `C08.RunSafe` (structural invariant, live root, an
invariant of binding maps under which `retain_keys` and predicate evaluation cannot panic), with a
rank decreasing along the transitions and at most `b` successors per expansion: `run` returns
`.ok`, or the fuel error (never, once `fuel ≥ geom b (rank root)`), or — only if some state has
two epsilon transitions — the `fail_next_state` panic. -/
theorem c08_run_generic {K V P H M : Type} [DecidableEq K] [DecidableEq V]
    (D : Domain K V P H M) (a : Automaton K P) (h : H) (I : M → Prop)
    (S : C08.RunSafe D a h I) (fuel : Nat) :
    C08.ResF a (run D a h fuel) ∧
    ∀ (rank : Nat → Nat) (b : Nat),
      (∀ t e, a.g.edge? t = some e → rank e.dst < rank e.src) →
      (∀ s m nexts, C08.Conf a I (s, m) → nextLegalStates D a h s m = .ok nexts →
        nexts.length ≤ b) →
      C08.geom b (rank a.root) ≤ fuel → C08.Res a (run D a h fuel) :=
  ⟨C08.run_res S fuel, fun rank b hr hb hf => C08.run_terminates S rank hr b hb fuel hf⟩

/-! ### strings -/

section Str
variable (ps : List (List CharVar)) (evs : List Ev) (fuel : Nat) (M : Many Nat CharPred)

/-- What the guarded build provides (strings). -/
theorem c08_str_built_facts
    (hb : manyBuild (fun p => some (strConstraints p)) (fun _ => ([] : List Nat))
      (charTree natLt) strReq fuel true ps evs = some (.ok M)) :
    OrdersOK M.automaton ∧ (∃ w, M.automaton.g.weight? M.automaton.root = some w) ∧
      ∃ rank : Nat → Nat, (∀ s, rank s ≤ M.automaton.g.nodes.length) ∧
        ∀ t e, M.automaton.g.edge? t = some e → rank e.dst < rank e.src := by
  unfold manyBuild at hb
  cases hi : manyInputs (fun p => some (strConstraints p)) (fun _ => ([] : List Nat)) true ps 0 with
  | none => simp [hi] at hb
  | some inputs =>
    simp only [hi] at hb
    cases hbd : build (charTree natLt) strReq fuel inputs evs with
    | error e => simp [hbd] at hb
    | ok A =>
      simp only [hbd, Option.some.injEq, Except.ok.injEq] at hb
      subst hb
      exact C08.built_facts (charTree natLt) (c03_treeOK_char natLt) strReq fuel inputs evs A hbd

/-- **C08, strings: the only reachable panic of the traversal.** -/
theorem c08_str_run_panic_only
    (hb : manyBuild (fun p => some (strConstraints p)) (fun _ => ([] : List Nat))
      (charTree natLt) strReq fuel true ps evs = some (.ok M)) (h : List Nat) (fuel' : Nat) :
    (∀ tag, run strDomain M.automaton h fuel' = .error (.panic tag) →
      tag = C08.failTag ∧ ¬ C08.EpsLe1 M.automaton) ∧
    (∀ tag, run strDomain M.automaton h fuel' ≠ .error (.guard tag)) ∧
    (∀ tag, run strDomain M.automaton h fuel' = .error (.fuel tag) → tag = "traversal") := by
  obtain ⟨ok, hroot, _⟩ := c08_str_built_facts ps evs fuel M hb
  have hres := C08.str_run_res h ok hroot (strProg_built ps evs fuel M hb) fuel'
  refine ⟨fun tag ht => ?_, fun tag ht => ?_, fun tag ht => ?_⟩ <;>
    rcases hres with ⟨x, hx⟩ | hx | ⟨hne, hx⟩ <;> rw [hx] at ht <;> cases ht
  · exact ⟨rfl, hne⟩
  · rfl

/-- **C08, strings, goal 1 with the epsilon hypothesis**: the traversal of a built automaton each
of whose states has at most one epsilon transition never panics. -/
theorem c08_str_run_no_panic_partial
    (hb : manyBuild (fun p => some (strConstraints p)) (fun _ => ([] : List Nat))
      (charTree natLt) strReq fuel true ps evs = some (.ok M))
    (heps : C08.EpsLe1 M.automaton) (h : List Nat) (fuel' : Nat) :
    ∀ tag, run strDomain M.automaton h fuel' ≠ .error (.panic tag) :=
  fun tag ht => ((c08_str_run_panic_only ps evs fuel M hb h fuel').1 tag ht).2 heps

/-- The per-program check `strProgramOK` (evaluated by the driver on every dumped automaton)
contains the epsilon clause. -/
theorem c08_epsLe1_of_strProgramOK (A : Automaton Nat CharPred)
    (hok : strProgramOK A ps = true) : C08.EpsLe1 A := by
  intro s w hw
  have hall := (liveStates_all A fun s w =>
    decide (w.eorder.length ≤ 1) &&
    (w.corder.all fun t => match A.g.edge? t with
      | some ⟨_, _, some c⟩ => decide (c.args.length = c.pred.arity) && c.args.all w.scope.contains
      | _ => false) &&
    (w.eorder.all fun t => match A.g.edge? t with
      | some ⟨_, _, none⟩ => true
      | _ => false) &&
    ((w.corder.isEmpty && w.eorder.isEmpty) || !w.scope.isEmpty) &&
    prereqOrdered strReq w.scope && decide w.scope.Nodup &&
    (w.matches_.all fun m =>
      prereqOrdered strReq m.2 && decide m.2.Nodup &&
      (s == A.root || !m.2.isEmpty) &&
      (match ps[m.1]? with
       | some p => decide (m.2 = strPatternKeys p)
       | none => false))).mp hok s w hw
  simp only [Bool.and_eq_true, decide_eq_true_eq] at hall
  exact hall.1.1.1.1.1.1

/-- **C08, strings, goal 2: explicit termination bound** (no epsilon hypothesis needed). -/
theorem c08_str_run_terminates
    (hb : manyBuild (fun p => some (strConstraints p)) (fun _ => ([] : List Nat))
      (charTree natLt) strReq fuel true ps evs = some (.ok M)) (h : List Nat) :
    ∀ fuel', C08.strRunBound M.automaton h ≤ fuel' →
      ∀ tag, run strDomain M.automaton h fuel' ≠ .error (.fuel tag) := by
  intro fuel' hf tag ht
  obtain ⟨ok, hroot, rank, hle, hrank⟩ := c08_str_built_facts ps evs fuel M hb
  rcases C08.str_run_total h ok hroot (strProg_built ps evs fuel M hb) rank hle hrank fuel' hf with
    ⟨x, hx⟩ | ⟨_, hx⟩ <;> rw [hx] at ht <;> cases ht

/-- **C08, strings: `find_matches` is total** on built automata with at most one epsilon
transition per state: for every host and every fuel above the explicit bound, `run` returns. -/
theorem c08_str_find_matches_total
    (hb : manyBuild (fun p => some (strConstraints p)) (fun _ => ([] : List Nat))
      (charTree natLt) strReq fuel true ps evs = some (.ok M))
    (heps : C08.EpsLe1 M.automaton) (h : List Nat) (fuel' : Nat)
    (hf : C08.strRunBound M.automaton h ≤ fuel') :
    ∃ ms seen, run strDomain M.automaton h fuel' = .ok (ms, seen) ∧
      M.findMatches strDomain h fuel' = .ok ms := by
  obtain ⟨ok, hroot, rank, hle, hrank⟩ := c08_str_built_facts ps evs fuel M hb
  rcases C08.str_run_total h ok hroot (strProg_built ps evs fuel M hb) rank hle hrank fuel' hf with
    ⟨⟨ms, seen⟩, hx⟩ | ⟨hne, _⟩
  · exact ⟨ms, seen, hx, by simp [Many.findMatches, hx, Except.map]⟩
  · exact absurd heps hne

end Str

/-- Goal 1 for strings at full strength (no epsilon hypothesis). -/
def c08_str_run_no_panic_target : Prop :=
  ∀ (ps : List (List CharVar)) (evs : List Ev) (fuel : Nat) (M : Many Nat CharPred),
    manyBuild (fun p => some (strConstraints p)) (fun _ => ([] : List Nat))
      (charTree natLt) strReq fuel true ps evs = some (.ok M) →
    ∀ (h : List Nat) (fuel' : Nat) tag, run strDomain M.automaton h fuel' ≠ .error (.panic tag)

/-- **FINDING.** The full-strength statement is false in the model: a log that emits the root
twice is accepted by the build and yields a reachable state with two epsilon transitions. -/
theorem c08_str_run_no_panic_target_false : ¬ c08_str_run_no_panic_target := by
  intro H
  obtain ⟨M, hb, hr⟩ := C08.cexStr_panics
  exact H _ _ _ M hb _ _ _ hr

/-! ### matrices -/

section Mat
variable (ps : List MatPattern) (evs : List Ev) (fuel : Nat) (M : Many MKey CharPred)

theorem c08_mat_built_facts
    (hb : manyBuild (fun p => some (matConstraints p)) (fun _ => ([] : List MKey))
      (charTree mkeyLt) matReq fuel true ps evs = some (.ok M)) :
    OrdersOK M.automaton ∧ (∃ w, M.automaton.g.weight? M.automaton.root = some w) ∧
      ∃ rank : Nat → Nat, (∀ s, rank s ≤ M.automaton.g.nodes.length) ∧
        ∀ t e, M.automaton.g.edge? t = some e → rank e.dst < rank e.src := by
  unfold manyBuild at hb
  cases hi : manyInputs (fun p => some (matConstraints p)) (fun _ => ([] : List MKey)) true ps 0 with
  | none => simp [hi] at hb
  | some inputs =>
    simp only [hi] at hb
    cases hbd : build (charTree mkeyLt) matReq fuel inputs evs with
    | error e => simp [hbd] at hb
    | ok A =>
      simp only [hbd, Option.some.injEq, Except.ok.injEq] at hb
      subst hb
      exact C08.built_facts (charTree mkeyLt) (c03_treeOK_char mkeyLt) matReq fuel inputs evs A hbd

/-- **C08, matrices: the only reachable panic of the traversal** (ragged and empty hosts
included). -/
theorem c08_mat_run_panic_only
    (hb : manyBuild (fun p => some (matConstraints p)) (fun _ => ([] : List MKey))
      (charTree mkeyLt) matReq fuel true ps evs = some (.ok M)) (h : MatHost) (fuel' : Nat) :
    (∀ tag, run matDomain M.automaton h fuel' = .error (.panic tag) →
      tag = C08.failTag ∧ ¬ C08.EpsLe1 M.automaton) ∧
    (∀ tag, run matDomain M.automaton h fuel' ≠ .error (.guard tag)) ∧
    (∀ tag, run matDomain M.automaton h fuel' = .error (.fuel tag) → tag = "traversal") := by
  obtain ⟨ok, hroot, _⟩ := c08_mat_built_facts ps evs fuel M hb
  have hres := C08.mat_run_res h ok hroot (matProg_built ps evs fuel M hb) fuel'
  refine ⟨fun tag ht => ?_, fun tag ht => ?_, fun tag ht => ?_⟩ <;>
    rcases hres with ⟨x, hx⟩ | hx | ⟨hne, hx⟩ <;> rw [hx] at ht <;> cases ht
  · exact ⟨rfl, hne⟩
  · rfl

theorem c08_mat_run_no_panic_partial
    (hb : manyBuild (fun p => some (matConstraints p)) (fun _ => ([] : List MKey))
      (charTree mkeyLt) matReq fuel true ps evs = some (.ok M))
    (heps : C08.EpsLe1 M.automaton) (h : MatHost) (fuel' : Nat) :
    ∀ tag, run matDomain M.automaton h fuel' ≠ .error (.panic tag) :=
  fun tag ht => ((c08_mat_run_panic_only ps evs fuel M hb h fuel').1 tag ht).2 heps

/-- **C08, matrices, goal 2: explicit termination bound.** -/
theorem c08_mat_run_terminates
    (hb : manyBuild (fun p => some (matConstraints p)) (fun _ => ([] : List MKey))
      (charTree mkeyLt) matReq fuel true ps evs = some (.ok M)) (h : MatHost) :
    ∀ fuel', C08.matRunBound M.automaton h ≤ fuel' →
      ∀ tag, run matDomain M.automaton h fuel' ≠ .error (.fuel tag) := by
  intro fuel' hf tag ht
  obtain ⟨ok, hroot, rank, hle, hrank⟩ := c08_mat_built_facts ps evs fuel M hb
  rcases C08.mat_run_total h ok hroot (matProg_built ps evs fuel M hb) rank hle hrank fuel' hf with
    ⟨x, hx⟩ | ⟨_, hx⟩ <;> rw [hx] at ht <;> cases ht

theorem c08_mat_find_matches_total
    (hb : manyBuild (fun p => some (matConstraints p)) (fun _ => ([] : List MKey))
      (charTree mkeyLt) matReq fuel true ps evs = some (.ok M))
    (heps : C08.EpsLe1 M.automaton) (h : MatHost) (fuel' : Nat)
    (hf : C08.matRunBound M.automaton h ≤ fuel') :
    ∃ ms seen, run matDomain M.automaton h fuel' = .ok (ms, seen) ∧
      M.findMatches matDomain h fuel' = .ok ms := by
  obtain ⟨ok, hroot, rank, hle, hrank⟩ := c08_mat_built_facts ps evs fuel M hb
  rcases C08.mat_run_total h ok hroot (matProg_built ps evs fuel M hb) rank hle hrank fuel' hf with
    ⟨⟨ms, seen⟩, hx⟩ | ⟨hne, _⟩
  · exact ⟨ms, seen, hx, by simp [Many.findMatches, hx, Except.map]⟩
  · exact absurd heps hne

/-- The `assert!` in the matrix `list_bind_options` is unreachable: `bind_all` asks for the
options of a key only when `get` reports it unbound, and every map the engine handles satisfies
`MatInv` (`C08.matSafe`). -/
theorem c08_mat_no_assert (h : MatHost) (k : MKey) (m : MatPos) (hi : MatInv m)
    (hg : MatPos.get m k = none) : (matOptsP h k m).isSome :=
  C08.matOptsP_no_assert h k m hi hg

end Mat

def c08_mat_run_no_panic_target : Prop :=
  ∀ (ps : List MatPattern) (evs : List Ev) (fuel : Nat) (M : Many MKey CharPred),
    manyBuild (fun p => some (matConstraints p)) (fun _ => ([] : List MKey))
      (charTree mkeyLt) matReq fuel true ps evs = some (.ok M) →
    ∀ (h : MatHost) (fuel' : Nat) tag, run matDomain M.automaton h fuel' ≠ .error (.panic tag)

theorem c08_mat_run_no_panic_target_false : ¬ c08_mat_run_no_panic_target := by
  intro H
  obtain ⟨M, hb, hr⟩ := C08.cexMat_panics
  exact H _ _ _ M hb _ _ _ hr


/-! ## PART 2 — the disciplined replays `buildT` / `buildTL` (Model/BuilderT.lean) -/

/-- **`buildT` refines `build`**: whenever the disciplined guarded build succeeds, the guarded
build returns the same automaton (the discipline c1T / c4T / c1C only adds guards), so every
theorem about `build` applies to `buildT`; likewise `buildTL` (the Rust code) and `buildL`. -/
theorem c08_buildT_imp_build {K P : Type} [DecidableEq K] [DecidableEq P]
    (toTree : List (Constraint K P) → Option (CTree (Constraint K P))) (req : K → List K)
    (fuel : Nat) (patterns : List (Nat × List (Constraint K P) × List K)) (evs : List Ev)
    (A : Automaton K P) :
    (buildT toTree req fuel patterns evs = .ok A → build toTree req fuel patterns evs = .ok A) ∧
    (buildTL toTree req fuel patterns evs = .ok A → buildL toTree req fuel patterns evs = .ok A) :=
  ⟨C08.buildT_imp_build, C08.buildTL_imp_buildL⟩

/-- **(I1)** After `make_constraints_unique(s)` — for ANY event log — the transitions of `s` carry
pairwise different constraints; in particular `s` has at most one epsilon transition, so the
`assert!` of `fail_next_state` inside `make_det(s)` cannot fail. -/
theorem c08_fuse_unique {K P : Type} [DecidableEq K] [DecidableEq P] (a a' : Automaton K P)
    (s : Nat) (evs evs' : List Ev) (inv : Inv a) (hs : a.Live s)
    (h : a.makeConstraintsUnique s evs = .ok (a', evs')) :
    C08.UniqueAt a' s ∧ ∀ w, a'.g.weight? s = some w → w.eorder.length ≤ 1 := by
  have hu := C08.makeConstraintsUnique_unique inv hs h
  obtain ⟨p, _⟩ := makeConstraintsUnique_spec (σ := fun _ => true) inv hs h
  exact ⟨hu, C08.eorder_le_one p.inv hu⟩

/-! ### Where (I2) — "the epsilon count of an emitted state never grows" — is NOT inductive

`C08.EpsLe1` of the final automaton does NOT follow from the discipline c1T + c4T + c1C by a
step-by-step argument; this is the place where a real defect of the Rust code would sit.

`make_det(s)` appends copies of ALL transitions of the fallback target `F` of `s` (constraint and
epsilon transitions alike) to every constraint child `c` of `s`: the epsilon count of `c` grows by
that of `F`. It stays `≤ 1` whenever `F` is the fail state created in this very iteration (it has
constraint transitions only) — the normal case. But:
(a) if `s` was emitted already carrying an epsilon transition (a `fuseGroup` / `split_target`
    clone of an already processed state: observed on real table-domain logs), the second
    `make_constraints_unique(s)` fuses the inherited epsilon target (an old, processed state that
    may have a fallback of its own) with the fresh fail state into one `newChild = F`, which
    inherits that fallback's epsilon transition; and
(b) a constraint child `c` of `s` may already be emitted (real logs: whenever the model guard
    "a constraint child is already deterministic" fires; it happens after `try_merge_new_nodes`
    re-routes not-yet-emitted parents to an emitted twin) and carry its own fallback.
With (a) and (b), if `c` has no other parent (no `split_target` copy is made) `c` ends with two
epsilon transitions and is never normalised again (c1T: emitted once) — `fail_next_state` then
panics when a traversal reaches `c`. If `c` has another parent, `split_target` creates a FRESH
copy that receives both epsilons; it is repaired when it is emitted later — unless the copy
reuses a `StableGraph` index that is already in the toposort's `visited` set (indices of removed
emitted states are recycled LIFO; such a node is never emitted; c1C holds for it by index). The
same holds for a `fuseGroup` clone of two epsilon-carrying processed children.
A random search over 24 000 disciplined logs (random emission order, `make_det` answers, merges;
generic constraints, first-constraint decomposition) found no final violation; the situation needs
two nested levels of clones of processed states. Near-miss guards worth scanning real logs for:
H1 (at `DetYes s`): the fallback target of `s` has an epsilon transition and some constraint child
of `s` is already emitted; H2 (after every iteration): a live state in `emitted` has two epsilon
transitions. Hence the traversal theorems keep `C08.EpsLe1` as a decidable per-build hypothesis
(clause 1 of `strProgramOK` / `matProgramOK`, evaluated by the driver on every dumped automaton). -/

/-- Part 1 for the disciplined builds: every theorem of part 1 applies to `buildT`. -/
theorem c08_str_run_panic_only_T (ps : List (List CharVar)) (evs : List Ev) (fuel : Nat)
    (inputs : List (Nat × List StrCons × List Nat)) (A : Automaton Nat CharPred)
    (hin : manyInputs (fun p => some (strConstraints p)) (fun _ => ([] : List Nat)) true ps 0 =
      some inputs)
    (hb : buildT (charTree natLt) strReq fuel inputs evs = .ok A) (h : List Nat) (fuel' : Nat) :
    (∀ tag, run strDomain A h fuel' = .error (.panic tag) →
      tag = C08.failTag ∧ ¬ C08.EpsLe1 A) ∧
    (C08.EpsLe1 A → C08.strRunBound A h ≤ fuel' →
      ∃ ms seen, run strDomain A h fuel' = .ok (ms, seen)) := by
  have hb' := C08.buildT_imp_build hb
  have hM : manyBuild (fun p => some (strConstraints p)) (fun _ => ([] : List Nat))
      (charTree natLt) strReq fuel true ps evs = some (.ok ⟨A, inputs.map (·.1)⟩) := by
    unfold manyBuild
    rw [hin]
    simp only [hb']
  refine ⟨(c08_str_run_panic_only ps evs fuel _ hM h fuel').1, fun heps hf => ?_⟩
  obtain ⟨ms, seen, hr, _⟩ := c08_str_find_matches_total ps evs fuel _ hM heps h fuel' hf
  exact ⟨ms, seen, hr⟩

theorem c08_mat_run_panic_only_T (ps : List MatPattern) (evs : List Ev) (fuel : Nat)
    (inputs : List (Nat × List MatCons × List MKey)) (A : Automaton MKey CharPred)
    (hin : manyInputs (fun p => some (matConstraints p)) (fun _ => ([] : List MKey)) true ps 0 =
      some inputs)
    (hb : buildT (charTree mkeyLt) matReq fuel inputs evs = .ok A) (h : MatHost) (fuel' : Nat) :
    (∀ tag, run matDomain A h fuel' = .error (.panic tag) →
      tag = C08.failTag ∧ ¬ C08.EpsLe1 A) ∧
    (C08.EpsLe1 A → C08.matRunBound A h ≤ fuel' →
      ∃ ms seen, run matDomain A h fuel' = .ok (ms, seen)) := by
  have hb' := C08.buildT_imp_build hb
  have hM : manyBuild (fun p => some (matConstraints p)) (fun _ => ([] : List MKey))
      (charTree mkeyLt) matReq fuel true ps evs = some (.ok ⟨A, inputs.map (·.1)⟩) := by
    unfold manyBuild
    rw [hin]
    simp only [hb']
  refine ⟨(c08_mat_run_panic_only ps evs fuel _ hM h fuel').1, fun heps hf => ?_⟩
  obtain ⟨ms, seen, hr, _⟩ := c08_mat_find_matches_total ps evs fuel _ hM heps h fuel' hf
  exact ⟨ms, seen, hr⟩

/-! ## PART 3 — the builder never panics (goal 3)

For EVERY pattern list, EVERY event log and EVERY fuel, the disciplined builds `buildTL` (lenient
`make_det` = the Rust code as it runs) and `buildT` (guarded) return `.ok`, a guard error (the
log is not one the Rust loop can produce), a fuel error, or — the ONE panic that is not excluded —
`expect("Graph should be acyclic")` of `populate_scopes`. Unreachable, for all logs:
`StableGraph::add_edge`, `invalid state`, `unknown state`, `invalid transition`,
`invalid transition (order)`, `graph index: edge`, `replace_order: unwrap on None`,
`removed_transition.unwrap()`, `children[ind]: index out of bounds`, `children[i]`,
`to_constraints_tree` (the decomposition `charTree` only sees arity-correct constraints),
`fail_next_state: more than one epsilon transition` (inside `make_det`: (I1)),
`constraints: unwrap on None`, `forward_scopes.remove(&node).unwrap()`.
Acyclicity of the automaton the main loop ends with is NOT an invariant carried by the proofs
(T-BUILD certifies it a posteriori from the success of `populate_scopes`); it is the remaining
target `c08_*_build_acyclic_target`. The undisciplined `build`/`buildL` additionally panic with
"unknown state" on a log whose `Merge` event names a vacant state (`c08_buildL_merge_dead_panics`);
c4T excludes that. -/

/-- The decomposition `charTree` satisfies the hypotheses of the totality proof. -/
theorem c08_treeFine_char {K : Type} [DecidableEq K] (lt : K → K → Bool) :
    C08.TreeFine (fun c : Constraint K CharPred => c.args.length = c.pred.arity) (charTree lt) :=
  C08.treeFine_char lt

/-- **Goal 3, generic**: a disciplined build over arity-correct character constraints panics at
most with "Graph should be acyclic". -/
theorem c08_char_buildT_panic_only {K : Type} [DecidableEq K] (lt : K → K → Bool)
    (req : K → List K) (fuel : Nat)
    (inputs : List (Nat × List (Constraint K CharPred) × List K))
    (har : ∀ p ∈ inputs, ∀ c ∈ p.2.1, c.args.length = c.pred.arity) (evs : List Ev) :
    (∀ tag, buildTL (charTree lt) req fuel inputs evs = .error (.panic tag) →
      tag = C08.acyclicTag) ∧
    (∀ tag, buildT (charTree lt) req fuel inputs evs = .error (.panic tag) →
      tag = C08.acyclicTag) :=
  ⟨C08.buildWith_fineEx (E := fun _ => False) C08.detOK_makeDetL (c08_treeFine_char lt) req fuel
      inputs (fun p hp => ⟨har p hp, fun h => h.elim⟩) evs,
    C08.buildWith_fineEx (E := fun _ => False) C08.detOK_makeDet (c08_treeFine_char lt) req fuel
      inputs (fun p hp => ⟨har p hp, fun h => h.elim⟩) evs⟩

/-- **Goal 3, strings** (`c08_str_buildL_no_panic` for the disciplined replay, up to the
acyclicity `expect`). -/
theorem c08_str_buildT_panic_only (ps : List (List CharVar)) (evs : List Ev) (fuel : Nat)
    (inputs : List (Nat × List StrCons × List Nat))
    (hin : manyInputs (fun p => some (strConstraints p)) (fun _ => ([] : List Nat)) true ps 0 =
      some inputs) :
    (∀ tag, buildTL (charTree natLt) strReq fuel inputs evs = .error (.panic tag) →
      tag = C08.acyclicTag) ∧
    (∀ tag, buildT (charTree natLt) strReq fuel inputs evs = .error (.panic tag) →
      tag = C08.acyclicTag) := by
  apply c08_char_buildT_panic_only
  rintro ⟨j, cs, ex⟩ hmem
  obtain ⟨k, p, _, _, hc, _⟩ := (c06_ids_are_positions (fun p => some (strConstraints p))
    (fun _ => ([] : List Nat)) true ps 0 inputs hin j cs ex).mp hmem
  simp only [Option.some.injEq] at hc
  subst hc
  exact tdom_str_arity p

/-- **Goal 3, matrices.** -/
theorem c08_mat_buildT_panic_only (ps : List MatPattern) (evs : List Ev) (fuel : Nat)
    (inputs : List (Nat × List MatCons × List MKey))
    (hin : manyInputs (fun p => some (matConstraints p)) (fun _ => ([] : List MKey)) true ps 0 =
      some inputs) :
    (∀ tag, buildTL (charTree mkeyLt) matReq fuel inputs evs = .error (.panic tag) →
      tag = C08.acyclicTag) ∧
    (∀ tag, buildT (charTree mkeyLt) matReq fuel inputs evs = .error (.panic tag) →
      tag = C08.acyclicTag) := by
  apply c08_char_buildT_panic_only
  rintro ⟨j, cs, ex⟩ hmem
  obtain ⟨k, p, _, _, hc, _⟩ := (c06_ids_are_positions (fun p => some (matConstraints p))
    (fun _ => ([] : List MKey)) true ps 0 inputs hin j cs ex).mp hmem
  simp only [Option.some.injEq] at hc
  subst hc
  exact tdom_mat_arity p

/-- Goal 3 at full strength (no excluded tag), strings, lenient disciplined build. -/
def c08_str_buildTL_no_panic_target : Prop :=
  ∀ (ps : List (List CharVar)) (evs : List Ev) (fuel : Nat)
    (inputs : List (Nat × List StrCons × List Nat)),
    manyInputs (fun p => some (strConstraints p)) (fun _ => ([] : List Nat)) true ps 0 =
      some inputs →
    ∀ tag, buildTL (charTree natLt) strReq fuel inputs evs ≠ .error (.panic tag)

/-- What is missing for it: the automaton the main loop ends with is acyclic (then the Kahn sort
of `populate_scopes` succeeds: `Automaton.topoOrder_isSome`). -/
def c08_str_build_acyclic_target : Prop :=
  ∀ (ps : List (List CharVar)) (evs : List Ev) (fuel : Nat)
    (inputs : List (Nat × List StrCons × List Nat)) (a1 a2 : Automaton Nat CharPred),
    manyInputs (fun p => some (strConstraints p)) (fun _ => ([] : List Nat)) true ps 0 =
      some inputs →
    addPatterns strReq fuel Automaton.new inputs = .ok a1 →
    mainLoopWith makeDetL (charTree natLt) fuel evs.length a1 [] evs = .ok a2 →
    a2.topoOrder.isSome = true

/-- The acyclicity target is exactly what is missing. -/
theorem c08_str_buildTL_no_panic_of_acyclic (hac : c08_str_build_acyclic_target) :
    c08_str_buildTL_no_panic_target := by
  intro ps evs fuel inputs hin tag ht
  have hp : ∀ p ∈ inputs, (∀ c ∈ p.2.1, c.args.length = c.pred.arity) ∧
      ((fun _ : Nat => False) p.1 → p.2.1 = []) := by
    rintro ⟨j, cs, ex⟩ hmem
    obtain ⟨k, p', _, _, hc, _⟩ := (c06_ids_are_positions
      (fun p => some (strConstraints p)) (fun _ => ([] : List Nat)) true ps 0 inputs hin
      j cs ex).mp hmem
    simp only [Option.some.injEq] at hc
    subst hc
    exact ⟨tdom_str_arity p', fun h => h.elim⟩
  unfold buildTL at ht
  cases h1 : addPatterns strReq fuel (Automaton.new : Automaton Nat CharPred) inputs with
  | error e =>
    rw [h1] at ht
    have : C08.Fine (addPatterns strReq fuel (Automaton.new : Automaton Nat CharPred) inputs) :=
      C08.addPatterns_only (C08.mbOK_noPanic strReq fuel) inputs
        (new_spec (K := Nat) (P := CharPred)).1 (new_spec (K := Nat) (P := CharPred)).2.2.1.1
    exact this.not_panic tag (by rw [h1]; exact ht)
  | ok a1 =>
    rw [h1] at ht
    simp only at ht
    unfold finishWith at ht
    have bi := C08.bi_addPatterns (E := fun _ => False)
      (Q := fun c : StrCons => c.args.length = c.pred.arity) (req := strReq) (fuel := fuel)
      (patterns := inputs) hp h1
    obtain ⟨hfm, hbm⟩ := C08.mainLoopWith_only (A := C08.NoPanic)
      (fun _ => C08.IsGuard.noPanic) C08.detOK_makeDetL (c08_treeFine_char natLt) fuel
      (C08.treeStepOK_fine _ fuel) evs.length [] evs bi (.inr (Nat.le_refl _))
    cases h2 : mainLoopWith makeDetL (charTree natLt) fuel evs.length a1 [] evs with
    | error e =>
      rw [h2] at ht
      have hfm' : C08.Fine (mainLoopWith makeDetL (charTree natLt) fuel evs.length a1 [] evs) :=
        hfm
      exact hfm'.not_panic tag (by rw [h2]; exact ht)
    | ok a2 =>
      rw [h2] at ht
      simp only at ht
      have hsome := hac ps evs fuel inputs a1 a2 hin h1 h2
      have : C08.Fine (populateScopes strReq fuel a2) :=
        C08.populateScopes_only_of_isSome (C08.mbOK_noPanic strReq fuel) (hbm a2 h2).inv hsome
      exact this.not_panic tag ht

/-- The undisciplined builds panic on a log whose `Merge` event names vacant states: `doMerge`
evaluates `state_tuple` of the log-supplied ids before any liveness check. (c4T excludes it.) -/
theorem c08_buildL_merge_dead_panics :
    buildL (charTree natLt) strReq 10 ([] : List (Nat × List StrCons × List Nat))
      [.topo 0, .merge 99 [99, 100]] = .error (.panic "unknown state") ∧
    build (charTree natLt) strReq 10 ([] : List (Nat × List StrCons × List Nat))
      [.topo 0, .merge 99 [99, 100]] = .error (.panic "unknown state") ∧
    buildTL (charTree natLt) strReq 10 ([] : List (Nat × List StrCons × List Nat))
      [.topo 0, .merge 99 [99, 100]] =
        .error (.guard "c4T: merge set member is not a sibling of the node") := by
  refine ⟨by rfl, by rfl, by rfl⟩


/-! ## PART 4 — fuel sufficiency of the build (goal 4) and the combined statement

Three loops of the build consume fuel: `all_missing_bindings` (the string and matrix schemes are
depth-one "star" schemes: 16 steps always suffice), `add_constraint_tree` (`charTree` returns
depth-one trees: one unit suffices) and the main loop (which `finishWith` gives the length of the
log). Hence for `fuel ≥ 16` a disciplined build returns `.ok`, a guard error (the log is not one
the Rust loop can produce), or the panic "Graph should be acyclic" — nothing else. -/

/-- **Goal 4, strings**: with `fuel ≥ 16` every error of the disciplined builds is a guard error
of the replay or the panic "Graph should be acyclic"; in particular no fuel error. -/
theorem c08_str_build_errors (ps : List (List CharVar)) (evs : List Ev) (fuel : Nat)
    (hfuel : 16 ≤ fuel) (inputs : List (Nat × List StrCons × List Nat))
    (hin : manyInputs (fun p => some (strConstraints p)) (fun _ => ([] : List Nat)) true ps 0 =
      some inputs) :
    (∀ e, buildTL (charTree natLt) strReq fuel inputs evs = .error e →
      C08.IsGuard e ∨ e = .panic C08.acyclicTag) ∧
    (∀ e, buildT (charTree natLt) strReq fuel inputs evs = .error e →
      C08.IsGuard e ∨ e = .panic C08.acyclicTag) := by
  have har : ∀ p ∈ inputs, ∀ c ∈ p.2.1, c.args.length = c.pred.arity := by
    rintro ⟨j, cs, ex⟩ hmem
    obtain ⟨k, p, _, _, hc, _⟩ := (c06_ids_are_positions (fun p => some (strConstraints p))
      (fun _ => ([] : List Nat)) true ps 0 inputs hin j cs ex).mp hmem
    simp only [Option.some.injEq] at hc
    subst hc
    exact tdom_str_arity p
  obtain ⟨h1, h2⟩ := C08.char_buildWith_errors natLt (0 : Nat) hfuel inputs har evs
  exact ⟨fun e he => h1 e he, fun e he => h2 e he⟩

/-- **Goal 4, matrices.** -/
theorem c08_mat_build_errors (ps : List MatPattern) (evs : List Ev) (fuel : Nat)
    (hfuel : 16 ≤ fuel) (inputs : List (Nat × List MatCons × List MKey))
    (hin : manyInputs (fun p => some (matConstraints p)) (fun _ => ([] : List MKey)) true ps 0 =
      some inputs) :
    (∀ e, buildTL (charTree mkeyLt) matReq fuel inputs evs = .error e →
      C08.IsGuard e ∨ e = .panic C08.acyclicTag) ∧
    (∀ e, buildT (charTree mkeyLt) matReq fuel inputs evs = .error e →
      C08.IsGuard e ∨ e = .panic C08.acyclicTag) := by
  have har : ∀ p ∈ inputs, ∀ c ∈ p.2.1, c.args.length = c.pred.arity := by
    rintro ⟨j, cs, ex⟩ hmem
    obtain ⟨k, p, _, _, hc, _⟩ := (c06_ids_are_positions (fun p => some (matConstraints p))
      (fun _ => ([] : List MKey)) true ps 0 inputs hin j cs ex).mp hmem
    simp only [Option.some.injEq] at hc
    subst hc
    exact tdom_mat_arity p
  obtain ⟨h1, h2⟩ := C08.char_buildWith_errors mkeyLt ((0 : Int), (0 : Int)) hfuel inputs har evs
  exact ⟨fun e he => h1 e he, fun e he => h2 e he⟩

/-- **C08 for strings, combined** (`c08_str_total`): for every pattern list, every event log and
`fuel ≥ 16`, the disciplined guarded build returns `.ok`, a guard error, or the panic
"Graph should be acyclic"; and the traversal of every automaton it returns, on every host, can only
panic in `fail_next_state` (and only if some state has two epsilon transitions); with at most one
epsilon transition per state (`C08.EpsLe1`, decidable) it returns `.ok` for every
`fuel' ≥ C08.strRunBound A h`. -/
theorem c08_str_total (ps : List (List CharVar)) (evs : List Ev) (fuel : Nat) (hfuel : 16 ≤ fuel)
    (inputs : List (Nat × List StrCons × List Nat))
    (hin : manyInputs (fun p => some (strConstraints p)) (fun _ => ([] : List Nat)) true ps 0 =
      some inputs) :
    (∀ e, buildT (charTree natLt) strReq fuel inputs evs = .error e →
      C08.IsGuard e ∨ e = .panic C08.acyclicTag) ∧
    ∀ A, buildT (charTree natLt) strReq fuel inputs evs = .ok A → ∀ (h : List Nat) (fuel' : Nat),
      (∀ tag, run strDomain A h fuel' = .error (.panic tag) →
        tag = C08.failTag ∧ ¬ C08.EpsLe1 A) ∧
      (C08.EpsLe1 A → C08.strRunBound A h ≤ fuel' →
        ∃ ms seen, run strDomain A h fuel' = .ok (ms, seen)) :=
  ⟨(c08_str_build_errors ps evs fuel hfuel inputs hin).2,
    fun A hb h fuel' => c08_str_run_panic_only_T ps evs fuel inputs A hin hb h fuel'⟩

/-- **C08 for matrices, combined.** -/
theorem c08_mat_total (ps : List MatPattern) (evs : List Ev) (fuel : Nat) (hfuel : 16 ≤ fuel)
    (inputs : List (Nat × List MatCons × List MKey))
    (hin : manyInputs (fun p => some (matConstraints p)) (fun _ => ([] : List MKey)) true ps 0 =
      some inputs) :
    (∀ e, buildT (charTree mkeyLt) matReq fuel inputs evs = .error e →
      C08.IsGuard e ∨ e = .panic C08.acyclicTag) ∧
    ∀ A, buildT (charTree mkeyLt) matReq fuel inputs evs = .ok A → ∀ (h : MatHost) (fuel' : Nat),
      (∀ tag, run matDomain A h fuel' = .error (.panic tag) →
        tag = C08.failTag ∧ ¬ C08.EpsLe1 A) ∧
      (C08.EpsLe1 A → C08.matRunBound A h ≤ fuel' →
        ∃ ms seen, run matDomain A h fuel' = .ok (ms, seen)) :=
  ⟨(c08_mat_build_errors ps evs fuel hfuel inputs hin).2,
    fun A hb h fuel' => c08_mat_run_panic_only_T ps evs fuel inputs A hin hb h fuel'⟩


/-! ## PART 5 — the LENIENT disciplined build `buildTL` (the Rust code as it runs)

Parts 1 and 2 are about automata returned by the guarded `build` / `buildT`. The model guard of
`make_det` ("a constraint child is already deterministic") is needed for the SEMANTIC theorems
(T-BUILD); totality does not need it: the per-state conditions `StateOK`, `OrdersOK`, the live root
and acyclicity hold of every automaton `buildTL` returns (`C08.strProg_builtWith`,
`C08.matProg_builtWith`), so all statements of part 1 hold for the lenient disciplined build. -/

/-- **C08, strings, traversal of every automaton built by the Rust code path** (`buildTL`). -/
theorem c08_str_run_TL (ps : List (List CharVar)) (evs : List Ev) (fuel : Nat)
    (inputs : List (Nat × List StrCons × List Nat)) (A : Automaton Nat CharPred)
    (hin : manyInputs (fun p => some (strConstraints p)) (fun _ => ([] : List Nat)) true ps 0 =
      some inputs)
    (hb : buildTL (charTree natLt) strReq fuel inputs evs = .ok A) (h : List Nat) (fuel' : Nat) :
    (∀ s w, A.g.weight? s = some w → Pm.Anch.StateOK A ps s w) ∧
    (∀ tag, run strDomain A h fuel' = .error (.panic tag) →
      tag = C08.failTag ∧ ¬ C08.EpsLe1 A) ∧
    (∀ tag, run strDomain A h fuel' ≠ .error (.guard tag)) ∧
    (C08.strRunBound A h ≤ fuel' → ∀ tag, run strDomain A h fuel' ≠ .error (.fuel tag)) ∧
    (C08.EpsLe1 A → C08.strRunBound A h ≤ fuel' →
      ∃ ms seen, run strDomain A h fuel' = .ok (ms, seen)) := by
  rw [C08.buildTL_eq_buildWith] at hb
  obtain ⟨hok, ok, hroot, rank, hle, hrank⟩ :=
    C08.strProg_builtWith ps C08.detOK_makeDetL C08.detMFrom_makeDetL evs fuel inputs A hin hb
  have hres := C08.str_run_res h ok hroot hok fuel'
  refine ⟨hok, fun tag ht => ?_, fun tag ht => ?_, fun hf tag ht => ?_, fun heps hf => ?_⟩
  · rcases hres with ⟨x, hx⟩ | hx | ⟨hne, hx⟩ <;> rw [hx] at ht <;> cases ht
    exact ⟨rfl, hne⟩
  · rcases hres with ⟨x, hx⟩ | hx | ⟨hne, hx⟩ <;> rw [hx] at ht <;> cases ht
  · rcases C08.str_run_total h ok hroot hok rank hle hrank fuel' hf with ⟨x, hx⟩ | ⟨_, hx⟩ <;>
      rw [hx] at ht <;> cases ht
  · rcases C08.str_run_total h ok hroot hok rank hle hrank fuel' hf with
      ⟨⟨ms, seen⟩, hx⟩ | ⟨hne, _⟩
    · exact ⟨ms, seen, hx⟩
    · exact absurd heps hne

/-- **C08, matrices, traversal of every automaton built by the Rust code path** (`buildTL`). -/
theorem c08_mat_run_TL (ps : List MatPattern) (evs : List Ev) (fuel : Nat)
    (inputs : List (Nat × List MatCons × List MKey)) (A : Automaton MKey CharPred)
    (hin : manyInputs (fun p => some (matConstraints p)) (fun _ => ([] : List MKey)) true ps 0 =
      some inputs)
    (hb : buildTL (charTree mkeyLt) matReq fuel inputs evs = .ok A) (h : MatHost) (fuel' : Nat) :
    (∀ s w, A.g.weight? s = some w → Pm.AnchM.StateOK A ps s w) ∧
    (∀ tag, run matDomain A h fuel' = .error (.panic tag) →
      tag = C08.failTag ∧ ¬ C08.EpsLe1 A) ∧
    (∀ tag, run matDomain A h fuel' ≠ .error (.guard tag)) ∧
    (C08.matRunBound A h ≤ fuel' → ∀ tag, run matDomain A h fuel' ≠ .error (.fuel tag)) ∧
    (C08.EpsLe1 A → C08.matRunBound A h ≤ fuel' →
      ∃ ms seen, run matDomain A h fuel' = .ok (ms, seen)) := by
  rw [C08.buildTL_eq_buildWith] at hb
  obtain ⟨hok, ok, hroot, rank, hle, hrank⟩ :=
    C08.matProg_builtWith C08.detOK_makeDetL C08.detMFrom_makeDetL ps evs fuel inputs A hin hb
  have hres := C08.mat_run_res h ok hroot hok fuel'
  refine ⟨hok, fun tag ht => ?_, fun tag ht => ?_, fun hf tag ht => ?_, fun heps hf => ?_⟩
  · rcases hres with ⟨x, hx⟩ | hx | ⟨hne, hx⟩ <;> rw [hx] at ht <;> cases ht
    exact ⟨rfl, hne⟩
  · rcases hres with ⟨x, hx⟩ | hx | ⟨hne, hx⟩ <;> rw [hx] at ht <;> cases ht
  · rcases C08.mat_run_total h ok hroot hok rank hle hrank fuel' hf with ⟨x, hx⟩ | ⟨_, hx⟩ <;>
      rw [hx] at ht <;> cases ht
  · rcases C08.mat_run_total h ok hroot hok rank hle hrank fuel' hf with
      ⟨⟨ms, seen⟩, hx⟩ | ⟨hne, _⟩
    · exact ⟨ms, seen, hx⟩
    · exact absurd heps hne

/-- **C08 for strings, the Rust code path, combined**: for every pattern list, every event log
and `fuel ≥ 16`, `buildTL` returns `.ok`, a guard error (the log is not one the Rust loop can
produce) or the panic "Graph should be acyclic"; the traversal of every automaton it returns, on
every host and with every fuel, returns `.ok`, the fuel error (never above the explicit bound), or
the `fail_next_state` panic (only if some state has two epsilon transitions). -/
theorem c08_str_total_TL (ps : List (List CharVar)) (evs : List Ev) (fuel : Nat)
    (hfuel : 16 ≤ fuel) (inputs : List (Nat × List StrCons × List Nat))
    (hin : manyInputs (fun p => some (strConstraints p)) (fun _ => ([] : List Nat)) true ps 0 =
      some inputs) :
    (∀ e, buildTL (charTree natLt) strReq fuel inputs evs = .error e →
      C08.IsGuard e ∨ e = .panic C08.acyclicTag) ∧
    ∀ A, buildTL (charTree natLt) strReq fuel inputs evs = .ok A → ∀ (h : List Nat) (fuel' : Nat),
      (∀ tag, run strDomain A h fuel' = .error (.panic tag) →
        tag = C08.failTag ∧ ¬ C08.EpsLe1 A) ∧
      (C08.strRunBound A h ≤ fuel' → ∀ tag, run strDomain A h fuel' ≠ .error (.fuel tag)) ∧
      (C08.EpsLe1 A → C08.strRunBound A h ≤ fuel' →
        ∃ ms seen, run strDomain A h fuel' = .ok (ms, seen)) :=
  ⟨(c08_str_build_errors ps evs fuel hfuel inputs hin).1, fun A hb h fuel' => by
    obtain ⟨_, h1, _, h3, h4⟩ := c08_str_run_TL ps evs fuel inputs A hin hb h fuel'
    exact ⟨h1, h3, h4⟩⟩

/-- **C08 for matrices, the Rust code path, combined.** -/
theorem c08_mat_total_TL (ps : List MatPattern) (evs : List Ev) (fuel : Nat)
    (hfuel : 16 ≤ fuel) (inputs : List (Nat × List MatCons × List MKey))
    (hin : manyInputs (fun p => some (matConstraints p)) (fun _ => ([] : List MKey)) true ps 0 =
      some inputs) :
    (∀ e, buildTL (charTree mkeyLt) matReq fuel inputs evs = .error e →
      C08.IsGuard e ∨ e = .panic C08.acyclicTag) ∧
    ∀ A, buildTL (charTree mkeyLt) matReq fuel inputs evs = .ok A → ∀ (h : MatHost) (fuel' : Nat),
      (∀ tag, run matDomain A h fuel' = .error (.panic tag) →
        tag = C08.failTag ∧ ¬ C08.EpsLe1 A) ∧
      (C08.matRunBound A h ≤ fuel' → ∀ tag, run matDomain A h fuel' ≠ .error (.fuel tag)) ∧
      (C08.EpsLe1 A → C08.matRunBound A h ≤ fuel' →
        ∃ ms seen, run matDomain A h fuel' = .ok (ms, seen)) :=
  ⟨(c08_mat_build_errors ps evs fuel hfuel inputs hin).1, fun A hb h fuel' => by
    obtain ⟨_, h1, _, h3, h4⟩ := c08_mat_run_TL ps evs fuel inputs A hin hb h fuel'
    exact ⟨h1, h3, h4⟩⟩

/-! ### Non-vacuity -/

/-- The real build of `Props/TRunStr.lean`: the hypotheses of the string theorems hold (the build
succeeds, every state has at most one epsilon transition), so its traversal of ANY host is total
above the bound; on `xabbacc` the bound is `geom (7·2) 6`. -/
example : ∃ M, manyBuild (fun p => some (strConstraints p)) (fun _ => ([] : List Nat))
      (charTree natLt) strReq 50 true exStrPatterns2 exStrEvents = some (.ok M) ∧
    C08.EpsLe1 M.automaton ∧
    C08.strRunBound M.automaton [120, 97, 98, 98, 97, 99, 99] = C08.geom 14 6 ∧
    ∀ h fuel', C08.strRunBound M.automaton h ≤ fuel' →
      ∃ ms seen, run strDomain M.automaton h fuel' = .ok (ms, seen) := by
  obtain ⟨M, hb, _, hok, _⟩ := exStr_built
  have heps := c08_epsLe1_of_strProgramOK exStrPatterns2 M.automaton hok
  refine ⟨M, hb, heps, ?_, fun h fuel' hf => ?_⟩
  · obtain ⟨M', hb', hl⟩ : ∃ M', manyBuild (fun p => some (strConstraints p))
        (fun _ => ([] : List Nat)) (charTree natLt) strReq 50 true exStrPatterns2 exStrEvents =
          some (.ok M') ∧
        C08.strRunBound M'.automaton [120, 97, 98, 98, 97, 99, 99] = C08.geom 14 6 :=
      ⟨_, rfl, by decide⟩
    rw [hb] at hb'
    cases hb'
    exact hl
  · obtain ⟨ms, seen, hr, _⟩ := c08_str_find_matches_total _ _ _ M hb heps h fuel' hf
    exact ⟨ms, seen, hr⟩

/-- The counterexample automaton fails the epsilon check, as it must. -/
example : ∃ M, manyBuild (fun p => some (strConstraints p)) (fun _ => ([] : List Nat))
      (charTree natLt) strReq 50 true C08.cexStrPatterns C08.cexStrEvents = some (.ok M) ∧
    C08.epsLe1 M.automaton = false := ⟨_, rfl, by decide⟩

/-- A disciplined log (c1T, c4T, c1C) for the patterns `ab`, the empty pattern, `a$x$x`: the log of
`Props/TRunStr.lean` with the fail state 3 emitted before its child 4. -/
def c08ExEvents : List Ev :=
  [.topo 0, .group 0 [0, 2], .detAsk 0, .detYes 0, .iterEnd 0, .topo 5, .detAsk 5, .detYes 5,
   .iterEnd 5, .topo 2, .iterEnd 2, .topo 3, .iterEnd 3, .topo 4, .iterEnd 4]

/-- The hypotheses of `c08_str_total` hold of it (`fuel = 50 ≥ 16`), the disciplined guarded and
lenient builds succeed, the built automaton has at most one epsilon transition per state, and so
its traversal of ANY host is total above the explicit bound. -/
example : ∃ inputs A,
    manyInputs (fun p => some (strConstraints p)) (fun _ => ([] : List Nat)) true
      exStrPatterns2 0 = some inputs ∧
    buildT (charTree natLt) strReq 50 inputs c08ExEvents = .ok A ∧
    buildTL (charTree natLt) strReq 50 inputs c08ExEvents = .ok A ∧
    C08.EpsLe1 A ∧
    ∀ h fuel', C08.strRunBound A h ≤ fuel' → ∃ ms seen, run strDomain A h fuel' = .ok (ms, seen) := by
  refine ⟨_, _, rfl, rfl, rfl, ?_, ?_⟩
  · exact (c08_epsLe1_iff _).1 (by decide)
  · intro h fuel' hf
    exact ((c08_str_total exStrPatterns2 c08ExEvents 50 (by decide) _ rfl).2 _ rfl h fuel').2
      ((c08_epsLe1_iff _).1 (by decide)) hf

/-- The log of `Props/TRunStr.lean` itself is not disciplined (it never emits the live state 3,
and emits 4 before its predecessor 3): the disciplined replay rejects it with a guard error — one
of the outcomes `c08_str_build_errors` allows. -/
example : buildT (charTree natLt) strReq 50
    ((manyInputs (fun p => some (strConstraints p)) (fun _ => ([] : List Nat)) true
      exStrPatterns2 0).getD []) exStrEvents =
    .error (.guard "c1T: state emitted twice or before one of its predecessors") := by rfl

/-- The counterexample log of part 1 emits the root twice: the disciplined replay rejects it. -/
example : buildTL (charTree natLt) strReq 50
    ((manyInputs (fun p => some (strConstraints p)) (fun _ => ([] : List Nat)) true
      C08.cexStrPatterns 0).getD []) C08.cexStrEvents =
    .error (.guard "c1T: state emitted twice or before one of its predecessors") := by rfl


end Pm
