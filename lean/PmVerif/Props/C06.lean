/-
Props/C06.lean — property C06: pattern ids are input positions; patterns never interfere;
fallback modes. Only property theorems live here.
-/
import PmVerif.Model.ManyMatcher
namespace Pm
variable {K P Pat : Type}

/-- With `PatternFallback::Fail`, construction returns the conversion error exactly when some
pattern cannot be converted (and then no automaton is built). -/
theorem c06_fail_iff (convert : Pat → Option (List (Constraint K P))) (extra : Pat → List K)
    (ps : List Pat) (i : Nat) :
    manyInputs convert extra true ps i = none ↔ ∃ p ∈ ps, convert p = none := by
  induction ps generalizing i with
  | nil => simp [manyInputs]
  | cons p ps ih =>
    cases hc : convert p with
    | none => simp [manyInputs, hc]
    | some cs =>
      cases hr : manyInputs convert extra true ps (i + 1) with
      | none =>
        have := (ih (i + 1)).mp hr
        simp only [manyInputs, hc, hr, List.mem_cons, true_iff]
        obtain ⟨q, hq, hqn⟩ := this
        exact ⟨q, .inr hq, hqn⟩
      | some rest =>
        have hne : ¬ ∃ q ∈ ps, convert q = none := fun h => by
          have := (ih (i + 1)).mpr h; rw [hr] at this; cases this
        simp only [manyInputs, hc, hr, List.mem_cons, false_iff, reduceCtorEq]
        rintro ⟨q, rfl | hq, hqn⟩
        · rw [hc] at hqn; cases hqn
        · exact hne ⟨q, hq, hqn⟩

/-- With `PatternFallback::Skip`, construction never fails on account of conversion. -/
theorem c06_skip_total (convert : Pat → Option (List (Constraint K P))) (extra : Pat → List K)
    (ps : List Pat) (i : Nat) : ∃ inputs, manyInputs convert extra false ps i = some inputs := by
  induction ps generalizing i with
  | nil => exact ⟨[], rfl⟩
  | cons p ps ih =>
    obtain ⟨rest, hr⟩ := ih (i + 1)
    cases hc : convert p with
    | none => exact ⟨rest, by simp [manyInputs, hc, hr]⟩
    | some cs => exact ⟨(i, cs, extra p) :: rest, by simp [manyInputs, hc, hr]⟩

/-- **Ids are input positions, never renumbered.** Whatever the fallback mode, the builder is
given exactly the entries `(i + k, constraints of the k-th pattern, its extra keys)` for the
convertible patterns, in input order: a skipped pattern leaves a gap, duplicates keep their own
positions. -/
theorem c06_ids_are_positions (convert : Pat → Option (List (Constraint K P)))
    (extra : Pat → List K) (ff : Bool) (ps : List Pat) (i : Nat)
    (inputs : List (Nat × List (Constraint K P) × List K))
    (h : manyInputs convert extra ff ps i = some inputs) :
    ∀ j cs ex, (j, cs, ex) ∈ inputs ↔
      ∃ k p, ps[k]? = some p ∧ j = i + k ∧ convert p = some cs ∧ ex = extra p := by
  induction ps generalizing i inputs with
  | nil =>
    simp only [manyInputs, Option.some.injEq] at h
    subst h
    intro j cs ex
    simp
  | cons p ps ih =>
    intro j cs ex
    cases hc : convert p with
    | none =>
      cases ff with
      | true => simp [manyInputs, hc] at h
      | false =>
        simp only [manyInputs, hc, Bool.false_eq_true, ↓reduceIte] at h
        rw [ih (i + 1) inputs h j cs ex]
        constructor
        · rintro ⟨k, q, hk, rfl, hq, rfl⟩
          exact ⟨k + 1, q, by simpa using hk, by omega, hq, rfl⟩
        · rintro ⟨k, q, hk, rfl, hq, rfl⟩
          cases k with
          | zero => simp at hk; subst hk; rw [hc] at hq; cases hq
          | succ k => exact ⟨k, q, by simpa using hk, by omega, hq, rfl⟩
    | some cs0 =>
      cases hr : manyInputs convert extra ff ps (i + 1) with
      | none => simp [manyInputs, hc, hr] at h
      | some rest =>
        simp only [manyInputs, hc, hr, Option.some.injEq] at h
        subst h
        rw [List.mem_cons, ih (i + 1) rest hr j cs ex]
        constructor
        · rintro (heq | ⟨k, q, hk, rfl, hq, rfl⟩)
          · obtain ⟨rfl, rfl, rfl⟩ : j = i ∧ cs = cs0 ∧ ex = extra p := by
              simpa using heq
            exact ⟨0, p, by simp, by omega, hc, rfl⟩
          · exact ⟨k + 1, q, by simpa using hk, by omega, hq, rfl⟩
        · rintro ⟨k, q, hk, rfl, hq, rfl⟩
          cases k with
          | zero =>
            simp at hk; subst hk
            rw [hc] at hq; cases hq
            exact .inl rfl
          | succ k => exact .inr ⟨k, q, by simpa using hk, by omega, hq, rfl⟩

/-- `get_pattern(i).is_some()` and `n_patterns()` reflect exactly the compiled patterns. -/
theorem c06_get_pattern [DecidableEq K] [DecidableEq P]
    (convert : Pat → Option (List (Constraint K P))) (extra : Pat → List K)
    (toTree : List (Constraint K P) → Option (CTree (Constraint K P))) (req : K → List K)
    (fuel : Nat) (ff : Bool) (ps : List Pat) (evs : List Ev) (m : Many K P)
    (h : manyBuild convert extra toTree req fuel ff ps evs = some (.ok m)) (i : Nat) :
    m.hasPattern i = true ↔ ∃ p, ps[i]? = some p ∧ (convert p).isSome := by
  unfold manyBuild at h
  cases hi : manyInputs convert extra ff ps 0 with
  | none => simp [hi] at h
  | some inputs =>
    simp only [hi] at h
    cases hb : Automaton.build toTree req fuel inputs evs with
    | error e => simp [hb] at h
    | ok a =>
      simp only [hb, Option.some.injEq, Except.ok.injEq] at h
      subst h
      have hpos := c06_ids_are_positions convert extra ff ps 0 inputs hi
      simp only [Many.hasPattern, List.contains_iff_mem, List.mem_map]
      constructor
      · rintro ⟨⟨j, cs, ex⟩, hmem, rfl⟩
        obtain ⟨k, p, hk, hj, hc, _⟩ := (hpos j cs ex).mp hmem
        simp only [Nat.zero_add] at hj
        subst hj
        exact ⟨p, hk, by simp [hc]⟩
      · rintro ⟨p, hk, hc⟩
        obtain ⟨cs, hcs⟩ := Option.isSome_iff_exists.mp hc
        exact ⟨(i, cs, extra p), (hpos i cs (extra p)).mpr ⟨i, p, hk, by omega, hcs, rfl⟩, rfl⟩

/-- Non-vacuity: the middle pattern of three cannot be converted; `Skip` keeps ids 0 and 2. -/
example :
    (manyInputs (K := Nat) (P := Nat) (fun p : Nat => if p = 7 then none else some [⟨p, []⟩])
      (fun _ => []) false [5, 7, 9] 0).map (fun l => l.map (·.1)) = some [0, 2] := by decide
example :
    (manyInputs (K := Nat) (P := Nat) (fun p : Nat => if p = 7 then none else some [⟨p, []⟩])
      (fun _ => []) true [5, 7, 9] 0) = none := by decide

end Pm
