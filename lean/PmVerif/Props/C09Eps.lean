/-
Props/C09Eps.lean — property C09 clause (c) / `C08.EpsLe1` ("every live state of a built automaton
has at most one epsilon (fallback) transition") for the strict replay `Automaton.buildTE`
(Model/BuilderT.lean: `buildTD` + the guard c1E — when a state is emitted, neither it nor any of its
current children has an epsilon transition yet; c1E held on every real string, matrix and
port-graph log examined).

The clause is FALSE for arbitrary logs (`C08.cexStr_panics`, `pgProgramOK_false_two_fallbacks`) and
not inductive under c1T + c4T + c1C (Props/C08.lean, "Where (I2) is NOT inductive"). Under c1E it is
an invariant of every builder step, for ALL logs, ALL tree decompositions (nested trees included —
no flatness or `TreeOK` hypothesis) and ALL domains; only c1E is used, none of c1T/c1C/c4T/c1D:

* `c09_buildTE_oneEpsilon`   clause (c) for every automaton `buildTE` returns;
* `c09_buildTE_epsLe1`       the same as `C08.EpsLe1`, `C08.epsLe1 = true`, `wfOneEpsilon = true`;
* `buildTE_imp_buildTD`, `buildTE_imp_build`  the strict replay only adds a guard;
* `c09_built_wf_TE`          hence, on a rank-acyclic scheme, the FULL `Automaton.WF` and
                              `wfCheck = true` — nothing is left to the per-automaton checker
                              (`_str`, `_mat`, `_pg`, `_table` instances);
* `manyBuildTE`, `manyBuildTE_inv`  the `ManyMatcher` form;
* `c08_str_run_no_panic_TE`, `c08_mat_run_no_panic_TE`   the traversal of such an automaton NEVER
                              panics (every host, every fuel; no epsilon hypothesis);
* `c08_str_find_matches_total_TE`, `c08_mat_find_matches_total_TE`  `find_matches` is total above
                              the explicit bound, no hypothesis;
* `c0708_str_TE`, `c0708_mat_TE`  with C07 (`c07_string_TD`, `c07_matrix_TD`): above the bound the
                              traversal returns every occurrence of every pattern exactly once.
Proofs: `Proofs/C09EpsCore` (vocabulary, guard, `make_constraints_unique`), `C09EpsTree`
(`insert_constraint_tree`), `C09EpsDet` (`make_det`), `C09EpsMerge` (merges), `C09EpsMain`.
-/
import PmVerif.Proofs.C09EpsMain
import PmVerif.Props.C09Reach
import PmVerif.Props.C08
import PmVerif.Props.C07Mat
import PmVerif.Props.PGProg
namespace Pm
open Automaton

section Generic
variable {K P : Type} [DecidableEq K] [DecidableEq P]

/-- **C09 clause (c) for the strict replay `buildTE`.** Every live state of every automaton
`buildTE` returns has at most one epsilon (fallback) transition — for every tree decomposition
`toTree` (flat or nested; no hypothesis), every indexing scheme, every fuel, every pattern list and
every event log. -/
theorem c09_buildTE_oneEpsilon
    (toTree : List (Constraint K P) → Option (CTree (Constraint K P))) (req : K → List K)
    (fuel : Nat) (patterns : List (Nat × List (Constraint K P) × List K)) (evs : List Ev)
    (A : Automaton K P) (h : Automaton.buildTE toTree req fuel patterns evs = .ok A) :
    ∀ s w, A.g.weight? s = some w → w.eorder.length ≤ 1 := by
  obtain ⟨inv, E⟩ := C09E.buildTE_e1 h
  exact E.eorder inv

/-- The same over edges: two epsilon transitions leaving the same state are the same
transition. -/
theorem c09_buildTE_oneEpsilon_edges
    (toTree : List (Constraint K P) → Option (CTree (Constraint K P))) (req : K → List K)
    (fuel : Nat) (patterns : List (Nat × List (Constraint K P) × List K)) (evs : List Ev)
    (A : Automaton K P) (h : Automaton.buildTE toTree req fuel patterns evs = .ok A) :
    ∀ t1 t2 e1 e2, A.g.edge? t1 = some e1 → A.g.edge? t2 = some e2 → e1.src = e2.src →
      e1.w = none → e2.w = none → t1 = t2 := fun t1 t2 e1 e2 h1 h2 hs hn1 hn2 =>
  (C09E.buildTE_e1 h).2 e2.src t1 t2 e1 e2 h1 h2 hs rfl hn1 hn2

/-- Clause (c) in the three forms used elsewhere: `C08.EpsLe1` (hypothesis of the traversal
theorems of Props/C08.lean), its Boolean form (clause 1 of `strProgramOK` / `matProgramOK`), and
the Boolean clause (c) of `wfCheck`. -/
theorem c09_buildTE_epsLe1
    (toTree : List (Constraint K P) → Option (CTree (Constraint K P))) (req : K → List K)
    (fuel : Nat) (patterns : List (Nat × List (Constraint K P) × List K)) (evs : List Ev)
    (A : Automaton K P) (h : Automaton.buildTE toTree req fuel patterns evs = .ok A) :
    C08.EpsLe1 A ∧ C08.epsLe1 A = true ∧ A.wfOneEpsilon = true :=
  have hc := c09_buildTE_oneEpsilon toTree req fuel patterns evs A h
  ⟨hc, (c08_epsLe1_iff A).2 hc, c09_oneEpsilon_complete A hc⟩

/-- **Whenever `buildTE` succeeds, the strict build `buildTD` returns the same automaton** (the
guard c1E only rejects logs). -/
theorem buildTE_imp_buildTD
    (toTree : List (Constraint K P) → Option (CTree (Constraint K P))) (req : K → List K)
    (fuel : Nat) (patterns : List (Nat × List (Constraint K P) × List K)) (evs : List Ev)
    (A : Automaton K P) (h : Automaton.buildTE toTree req fuel patterns evs = .ok A) :
    Automaton.buildTD toTree req fuel patterns evs = .ok A :=
  C09E.buildTE_imp_buildTD h

/-- … and so do the disciplined build `buildT` and the guarded build `build`: every theorem about
`buildTD`, `buildT` or `build` applies to `buildTE`. -/
theorem buildTE_imp_build
    (toTree : List (Constraint K P) → Option (CTree (Constraint K P))) (req : K → List K)
    (fuel : Nat) (patterns : List (Nat × List (Constraint K P) × List K)) (evs : List Ev)
    (A : Automaton K P) (h : Automaton.buildTE toTree req fuel patterns evs = .ok A) :
    Automaton.buildT toTree req fuel patterns evs = .ok A ∧
    Automaton.build toTree req fuel patterns evs = .ok A :=
  have hT := C07.buildTD_imp_buildT (C09E.buildTE_imp_buildTD h)
  ⟨hT, C08.buildT_imp_build hT⟩

/-- **C09 in full for the strict replay**: on a rank-acyclic scheme every automaton `buildTE`
returns satisfies ALL clauses of `Automaton.WF` — (a) acyclic, (b) reachable, (c) at most one
fallback transition, (d) no self loop, (e) orders, (f) every id accepted, (g) key order, (h) scopes
cover — and the executable checker `wfCheck` returns `true`: no per-automaton check is left. Any
tree decomposition, any pattern list, any event log. -/
theorem c09_built_wf_TE
    (toTree : List (Constraint K P) → Option (CTree (Constraint K P))) (req : K → List K)
    (hacy : RankAcyclic req)
    (fuel : Nat) (patterns : List (Nat × List (Constraint K P) × List K)) (evs : List Ev)
    (A : Automaton K P) (h : Automaton.buildTE toTree req fuel patterns evs = .ok A) :
    A.WF req (patterns.map (·.1)) ∧ A.wfCheck req (patterns.map (·.1)) = true := by
  have hb := (buildTE_imp_build toTree req fuel patterns evs A h).2
  have hc := c09_buildTE_oneEpsilon toTree req fuel patterns evs A h
  exact ⟨(c09_built_butC toTree req hacy fuel patterns evs A hb).wf hc,
    (c09_built_checked_c_only toTree req hacy fuel patterns evs A hb).2
      (c09_oneEpsilon_complete A hc)⟩

end Generic

/-! ### instances -/

/-- **Strings** (`charTree natLt`, `strReq`). -/
theorem c09_built_wf_TE_str (fuel : Nat) (patterns : List (Nat × List StrCons × List Nat))
    (evs : List Ev) (A : Automaton Nat CharPred)
    (h : Automaton.buildTE (charTree natLt) strReq fuel patterns evs = .ok A) :
    A.WF strReq (patterns.map (·.1)) ∧ A.wfCheck strReq (patterns.map (·.1)) = true :=
  c09_built_wf_TE (charTree natLt) strReq StrProg.strReq_acyclic fuel patterns evs A h

/-- Strings, any key order of the decomposition. -/
theorem c09_built_wf_TE_char {K : Type} [DecidableEq K] (lt : K → K → Bool) (req : K → List K)
    (hacy : RankAcyclic req) (fuel : Nat)
    (patterns : List (Nat × List (Constraint K CharPred) × List K)) (evs : List Ev)
    (A : Automaton K CharPred)
    (h : Automaton.buildTE (charTree lt) req fuel patterns evs = .ok A) :
    A.WF req (patterns.map (·.1)) ∧ A.wfCheck req (patterns.map (·.1)) = true :=
  c09_built_wf_TE (charTree lt) req hacy fuel patterns evs A h

/-- **Matrices** (`charTree mkeyLt`, `matReq`). -/
theorem c09_built_wf_TE_mat (fuel : Nat)
    (patterns : List (Nat × List (Constraint MKey CharPred) × List MKey)) (evs : List Ev)
    (A : Automaton MKey CharPred)
    (h : Automaton.buildTE (charTree mkeyLt) matReq fuel patterns evs = .ok A) :
    A.WF matReq (patterns.map (·.1)) ∧ A.wfCheck matReq (patterns.map (·.1)) = true :=
  c09_built_wf_TE (charTree mkeyLt) matReq MatProg.matReq_acyclic fuel patterns evs A h

/-- **Port graphs** (`pgTree` — transitive-mutex and NESTED powerset trees —, `pgReq`). -/
theorem c09_built_wf_TE_pg (fuelT fuel : Nat) (patterns : List (Nat × List PGCons × List PGKey))
    (evs : List Ev) (A : Automaton PGKey PGPred)
    (h : Automaton.buildTE (fun cs => pgTree cs fuelT) pgReq fuel patterns evs = .ok A) :
    A.WF pgReq (patterns.map (·.1)) ∧ A.wfCheck pgReq (patterns.map (·.1)) = true :=
  c09_built_wf_TE _ pgReq c09_pgReq_acyclic fuel patterns evs A h

/-- The table domain, any strategy (flat, mutex, nested powerset), any rank-acyclic scheme — for
the logs `buildTE` accepts (c1E can fail on real table-domain logs; those are outside). -/
theorem c09_built_wf_TE_table (s : Nat) (tfuel : Nat)
    (req : Nat → List Nat) (hacy : RankAcyclic req) (fuel : Nat)
    (patterns : List (Nat × List TCons × List Nat)) (evs : List Ev) (A : Automaton Nat TPred)
    (h : Automaton.buildTE (fun cs => tTreeAll s cs tfuel) req fuel patterns evs = .ok A) :
    A.WF req (patterns.map (·.1)) ∧ A.wfCheck req (patterns.map (·.1)) = true :=
  c09_built_wf_TE _ req hacy fuel patterns evs A h

/-! ### the `ManyMatcher` form and the traversal (C08) -/

/-- `ManyMatcher::try_from_patterns_with_det_heuristic` replayed with `Automaton.buildTE`
(`manyBuildTD` of Props/C07Str.lean + the guard c1E). -/
def manyBuildTE {K P Pat : Type} [DecidableEq K] [DecidableEq P]
    (convert : Pat → Option (List (Constraint K P))) (extra : Pat → List K)
    (toTree : List (Constraint K P) → Option (CTree (Constraint K P))) (req : K → List K)
    (fuel : Nat) (fallbackFail : Bool) (pats : List Pat) (evs : List Ev) :
    Option (R (Many K P)) :=
  match manyInputs convert extra fallbackFail pats 0 with
  | none => none
  | some inputs =>
    some (match Automaton.buildTE toTree req fuel inputs evs with
      | .error e => .error e
      | .ok a => .ok ⟨a, inputs.map (·.1)⟩)

/-- A successful `manyBuildTE` is a successful `manyBuildTD` and a successful `manyBuild` (so every
theorem about those applies), and its automaton has at most one epsilon transition per state. -/
theorem manyBuildTE_inv {K P Pat : Type} [DecidableEq K] [DecidableEq P]
    {convert : Pat → Option (List (Constraint K P))} {extra : Pat → List K}
    {toTree : List (Constraint K P) → Option (CTree (Constraint K P))} {req : K → List K}
    {fuel : Nat} {ff : Bool} {pats : List Pat} {evs : List Ev} {M : Many K P}
    (hb : manyBuildTE convert extra toTree req fuel ff pats evs = some (.ok M)) :
    manyBuildTD convert extra toTree req fuel ff pats evs = some (.ok M) ∧
    manyBuild convert extra toTree req fuel ff pats evs = some (.ok M) ∧
    C08.EpsLe1 M.automaton := by
  unfold manyBuildTE at hb
  unfold manyBuildTD manyBuild
  cases hi : manyInputs convert extra ff pats 0 with
  | none => simp [hi] at hb
  | some inputs =>
    simp only [hi] at hb ⊢
    cases hbb : Automaton.buildTE toTree req fuel inputs evs with
    | error e => simp [hbb] at hb
    | ok A =>
      simp only [hbb, Option.some.injEq, Except.ok.injEq] at hb
      subst hb
      have hTD := C09E.buildTE_imp_buildTD hbb
      have hbuild := C08.buildT_imp_build (C07.buildTD_imp_buildT hTD)
      simp only [hTD, hbuild]
      exact ⟨trivial, trivial, c09_buildTE_oneEpsilon toTree req fuel inputs evs A hbb⟩

/-- The `ManyMatcher` form of `c09_built_wf_TE`. -/
theorem c09_many_wf_TE {K P Pat : Type} [DecidableEq K] [DecidableEq P]
    (convert : Pat → Option (List (Constraint K P))) (extra : Pat → List K)
    (toTree : List (Constraint K P) → Option (CTree (Constraint K P))) (req : K → List K)
    (hacy : RankAcyclic req) (fuel : Nat) (ff : Bool) (pats : List Pat) (evs : List Ev)
    (M : Many K P) (hb : manyBuildTE convert extra toTree req fuel ff pats evs = some (.ok M)) :
    M.automaton.WF req M.ids ∧ M.automaton.wfCheck req M.ids = true := by
  obtain ⟨_, hb', hc⟩ := manyBuildTE_inv hb
  obtain ⟨hw, hck⟩ := c09_many_butC convert extra toTree req hacy fuel ff pats evs M hb'
  exact ⟨hw.wf hc, hck.2 (c09_oneEpsilon_complete _ hc)⟩

section Str
variable (ps : List (List CharVar)) (evs : List Ev) (fuel : Nat) (M : Many Nat CharPred)

/-- **C08, strings, goal 1 at full strength for the strict replay**: the traversal of an automaton
built through `buildTE` never panics — every pattern list, every accepted event log, every host,
every fuel; no epsilon hypothesis, no per-build check. -/
theorem c08_str_run_no_panic_TE
    (hb : manyBuildTE (fun p => some (strConstraints p)) (fun _ => ([] : List Nat))
      (charTree natLt) strReq fuel true ps evs = some (.ok M)) (h : List Nat) (fuel' : Nat) :
    ∀ tag, run strDomain M.automaton h fuel' ≠ .error (.panic tag) := by
  obtain ⟨_, hb', hc⟩ := manyBuildTE_inv hb
  exact c08_str_run_no_panic_partial ps evs fuel M hb' hc h fuel'

/-- The only error the traversal can return is the fuel error, and not above the explicit
bound. -/
theorem c08_str_run_errors_TE
    (hb : manyBuildTE (fun p => some (strConstraints p)) (fun _ => ([] : List Nat))
      (charTree natLt) strReq fuel true ps evs = some (.ok M)) (h : List Nat) (fuel' : Nat) :
    (∀ e, run strDomain M.automaton h fuel' = .error e → e = .fuel "traversal") ∧
    (C08.strRunBound M.automaton h ≤ fuel' → ∀ e, run strDomain M.automaton h fuel' ≠ .error e) := by
  obtain ⟨_, hb', hc⟩ := manyBuildTE_inv hb
  obtain ⟨_, hg, hf⟩ := c08_str_run_panic_only ps evs fuel M hb' h fuel'
  have hp := c08_str_run_no_panic_partial ps evs fuel M hb' hc h fuel'
  refine ⟨fun e he => ?_, fun hbd e he => ?_⟩
  · cases e with
    | panic tag => exact absurd he (hp tag)
    | guard tag => exact absurd he (hg tag)
    | fuel tag => rw [hf tag he]
  · cases e with
    | panic tag => exact hp tag he
    | guard tag => exact hg tag he
    | fuel tag => exact c08_str_run_terminates ps evs fuel M hb' h fuel' hbd tag he

/-- **C08, strings: `find_matches` is total** for the strict replay: for every host and every fuel
above the explicit bound `C08.strRunBound`, `run` returns — no hypothesis. -/
theorem c08_str_find_matches_total_TE
    (hb : manyBuildTE (fun p => some (strConstraints p)) (fun _ => ([] : List Nat))
      (charTree natLt) strReq fuel true ps evs = some (.ok M)) (h : List Nat) (fuel' : Nat)
    (hf : C08.strRunBound M.automaton h ≤ fuel') :
    ∃ ms seen, run strDomain M.automaton h fuel' = .ok (ms, seen) ∧
      M.findMatches strDomain h fuel' = .ok ms := by
  obtain ⟨_, hb', hc⟩ := manyBuildTE_inv hb
  exact c08_str_find_matches_total ps evs fuel M hb' hc h fuel' hf

/-- **C07 + C08, strings, strict replay**: above the bound `find_matches` returns a list without
duplicates that contains every occurrence of every pattern exactly once. -/
theorem c0708_str_TE
    (hb : manyBuildTE (fun p => some (strConstraints p)) (fun _ => ([] : List Nat))
      (charTree natLt) strReq fuel true ps evs = some (.ok M)) (h : List Nat) (fuel' : Nat)
    (hf : C08.strRunBound M.automaton h ≤ fuel') :
    ∃ ms, M.findMatches strDomain h fuel' = .ok ms ∧ ms.Nodup ∧ ∀ i p, ps[i]? = some p →
      (p = [] → ms.count (i, StrPos.unbound) = 1) ∧
      (p ≠ [] → ∀ a, ms.count (i, StrPos.bound a p.length) = if occursStr p h a then 1 else 0) := by
  obtain ⟨ms, _, _, hfm⟩ := c08_str_find_matches_total_TE ps evs fuel M hb h fuel' hf
  obtain ⟨hTD, _, _⟩ := manyBuildTE_inv hb
  obtain ⟨hnd, hcount⟩ := c07_string_TD ps evs fuel fuel' M h ms hTD hfm
  exact ⟨ms, hfm, hnd, hcount⟩

end Str

section Mat
variable (ps : List MatPattern) (evs : List Ev) (fuel : Nat) (M : Many MKey CharPred)

/-- **C08, matrices, goal 1 at full strength for the strict replay** (ragged and empty hosts
included). -/
theorem c08_mat_run_no_panic_TE
    (hb : manyBuildTE (fun p => some (matConstraints p)) (fun _ => ([] : List MKey))
      (charTree mkeyLt) matReq fuel true ps evs = some (.ok M)) (h : MatHost) (fuel' : Nat) :
    ∀ tag, run matDomain M.automaton h fuel' ≠ .error (.panic tag) := by
  obtain ⟨_, hb', hc⟩ := manyBuildTE_inv hb
  exact c08_mat_run_no_panic_partial ps evs fuel M hb' hc h fuel'

theorem c08_mat_run_errors_TE
    (hb : manyBuildTE (fun p => some (matConstraints p)) (fun _ => ([] : List MKey))
      (charTree mkeyLt) matReq fuel true ps evs = some (.ok M)) (h : MatHost) (fuel' : Nat) :
    (∀ e, run matDomain M.automaton h fuel' = .error e → e = .fuel "traversal") ∧
    (C08.matRunBound M.automaton h ≤ fuel' → ∀ e, run matDomain M.automaton h fuel' ≠ .error e) := by
  obtain ⟨_, hb', hc⟩ := manyBuildTE_inv hb
  obtain ⟨_, hg, hf⟩ := c08_mat_run_panic_only ps evs fuel M hb' h fuel'
  have hp := c08_mat_run_no_panic_partial ps evs fuel M hb' hc h fuel'
  refine ⟨fun e he => ?_, fun hbd e he => ?_⟩
  · cases e with
    | panic tag => exact absurd he (hp tag)
    | guard tag => exact absurd he (hg tag)
    | fuel tag => rw [hf tag he]
  · cases e with
    | panic tag => exact hp tag he
    | guard tag => exact hg tag he
    | fuel tag => exact c08_mat_run_terminates ps evs fuel M hb' h fuel' hbd tag he

/-- **C08, matrices: `find_matches` is total** for the strict replay, no hypothesis. -/
theorem c08_mat_find_matches_total_TE
    (hb : manyBuildTE (fun p => some (matConstraints p)) (fun _ => ([] : List MKey))
      (charTree mkeyLt) matReq fuel true ps evs = some (.ok M)) (h : MatHost) (fuel' : Nat)
    (hf : C08.matRunBound M.automaton h ≤ fuel') :
    ∃ ms seen, run matDomain M.automaton h fuel' = .ok (ms, seen) ∧
      M.findMatches matDomain h fuel' = .ok ms := by
  obtain ⟨_, hb', hc⟩ := manyBuildTE_inv hb
  exact c08_mat_find_matches_total ps evs fuel M hb' hc h fuel' hf

/-- **C07 + C08, matrices, strict replay.** -/
theorem c0708_mat_TE
    (hb : manyBuildTE (fun p => some (matConstraints p)) (fun _ => ([] : List MKey))
      (charTree mkeyLt) matReq fuel true ps evs = some (.ok M)) (h : MatHost) (fuel' : Nat)
    (hf : C08.matRunBound M.automaton h ≤ fuel') :
    ∃ ms, M.findMatches matDomain h fuel' = .ok ms ∧ ms.Nodup ∧ ∀ i p, ps[i]? = some p → ∀ r c,
      ms.count (i, MatPos.bound r c 0 0 (matExtent p).1 (matExtent p).2) =
        if occursMat p h r c then 1 else 0 := by
  obtain ⟨ms, _, _, hfm⟩ := c08_mat_find_matches_total_TE ps evs fuel M hb h fuel' hf
  obtain ⟨hTD, _, _⟩ := manyBuildTE_inv hb
  obtain ⟨hnd, hcount⟩ := c07_matrix_TD ps evs fuel fuel' M h ms hTD hfm
  exact ⟨ms, hfm, hnd, hcount⟩

end Mat

/-! ### Non-vacuity -/

namespace C09EpsEx

/-- A complete strict log (c1T, c1C, c4T, c1D, c1E) for the two port-graph patterns of
`Props/TRunPG.lean` (`exPGPatterns`; `exPGEvents` there stops after the root, which c1C rejects),
found by replaying the model with "smallest admissible state first, always determinise". -/
def pgEvsTE : List Ev :=
  [.topo 0, .group 0 [0, 2], .detAsk 0, .detYes 0, .iterEnd 0,
   .topo 7, .group 7 [0, 1], .detAsk 7, .detYes 7, .iterEnd 7,
   .topo 3, .detAsk 3, .detYes 3, .iterEnd 3, .topo 5, .detAsk 5, .detYes 5, .iterEnd 5,
   .topo 6, .iterEnd 6]

/-- A complete strict log for the four port-graph patterns `exEpsInputs` of `Props/PGProg.lean` —
the patterns of the FINDING `pgProgramOK_false_two_fallbacks`, whose undisciplined log (root and
state 11 emitted twice) yields a state with TWO fallback transitions. Same search strategy. -/
def pgEpsEvsTE : List Ev :=
  [.topo 0, .group 0 [0, 3], .group 0 [6, 8], .detAsk 0, .detYes 0, .iterEnd 0,
   .topo 9, .detAsk 9, .detYes 9, .iterEnd 9,
   .topo 11, .group 11 [0, 1, 4], .detAsk 11, .detYes 11, .iterEnd 11,
   .topo 4, .detAsk 4, .detYes 4, .iterEnd 4, .topo 2, .detAsk 2, .detYes 2, .iterEnd 2,
   .topo 5, .detAsk 5, .detYes 5, .iterEnd 5, .topo 7, .detAsk 7, .detYes 7, .iterEnd 7,
   .topo 1, .detAsk 1, .detYes 1, .iterEnd 1, .topo 3, .detAsk 3, .detYes 3, .iterEnd 3,
   .topo 8, .detAsk 8, .detYes 8, .iterEnd 8, .topo 12, .detAsk 12, .detYes 12, .iterEnd 12,
   .topo 13, .detAsk 13, .detYes 13, .iterEnd 13, .topo 14, .detAsk 14, .detYes 14, .iterEnd 14,
   .topo 6, .detAsk 6, .detYes 6, .iterEnd 6, .topo 15, .detAsk 15, .detYes 15, .iterEnd 15,
   .topo 16, .detAsk 16, .detYes 16, .iterEnd 16, .topo 17, .detAsk 17, .detYes 17, .iterEnd 17,
   .topo 18, .detAsk 18, .detYes 18, .iterEnd 18, .topo 19, .detAsk 19, .detYes 19, .iterEnd 19,
   .topo 20, .detAsk 20, .detYes 20, .iterEnd 20, .topo 21, .detAsk 21, .detYes 21, .iterEnd 21,
   .topo 10, .iterEnd 10]

/-- Table domain, strategy 3 (`with_powerset`): three patterns whose root constraints
`const 1 @0`, `true @0`, `const 2 @1` decompose into a NESTED tree with a labelled root — node 1
(below `const 1 @0`) has the child `const 2 @1`, and the trivially true constraint labels the root
and node 1. -/
def tIn : List (Nat × List TCons × List Nat) :=
  [(0, [⟨.const 1, [0]⟩], []), (1, [⟨.const 2, [1]⟩], []),
   (2, [⟨.true_ 1, [0]⟩, ⟨.const 3, [1]⟩], [])]

/-- A complete strict log for it (same search strategy). -/
def tEvs : List Ev :=
  [.topo 0, .group 0 [1, 0, 4], .detAsk 0, .detYes 0, .iterEnd 0,
   .topo 1, .detAsk 1, .detYes 1, .iterEnd 1, .topo 3, .detAsk 3, .detYes 3, .iterEnd 3,
   .topo 6, .group 6 [6, 7], .group 6 [7, 0], .detAsk 6, .detYes 6, .iterEnd 6,
   .topo 4, .iterEnd 4, .topo 8, .detAsk 8, .detYes 8, .iterEnd 8, .topo 5, .iterEnd 5]

end C09EpsEx

set_option maxRecDepth 8192 in
/-- **Strings.** `buildTE` accepts the two complete strict logs of Props/C07Str.lean: for `ab`,
the empty pattern, `a$x$x` (deterministic states 0 and 5; state 5 has a fallback transition), and
for `$x b`, `a b $x d`, `a b c d` (six deterministic states; the deterministic states 0 and 2 have
a fallback transition). It rejects the counterexample log of Props/C08.lean (a state with two
epsilon transitions; the root is emitted twice). -/
theorem c09_TE_examples_str :
    (∃ M, manyBuildTE (fun p => some (strConstraints p)) (fun _ => ([] : List Nat))
        (charTree natLt) strReq 100 true exStrPatterns2 C07.exEvsTD = some (.ok M) ∧
      M.automaton.liveStates = [0, 2, 3, 4, 5] ∧
      (M.automaton.liveStates.filter fun s => (M.automaton.stateD s).det) = [0, 5] ∧
      (M.automaton.liveStates.map fun s => (M.automaton.stateD s).eorder.length) =
        [0, 0, 0, 0, 1]) ∧
    (∃ M, manyBuildTE (fun p => some (strConstraints p)) (fun _ => ([] : List Nat))
        (charTree natLt) strReq 100 true C07.cexPats C07.cexEvsTD = some (.ok M) ∧
      M.automaton.liveStates = [0, 1, 2, 3, 4, 5, 6, 7, 9] ∧
      (M.automaton.liveStates.filter fun s => (M.automaton.stateD s).det) = [0, 2, 5, 6, 7, 9] ∧
      (M.automaton.liveStates.map fun s => (M.automaton.stateD s).eorder.length) =
        [1, 0, 1, 0, 0, 0, 0, 0, 0]) ∧
    manyBuildTE (fun p => some (strConstraints p)) (fun _ => ([] : List Nat))
        (charTree natLt) strReq 50 true C08.cexStrPatterns C08.cexStrEvents =
      some (.error (.guard "c1T: state emitted twice or before one of its predecessors")) :=
  ⟨⟨_, rfl, by decide, by decide, by decide⟩, ⟨_, rfl, by decide, by decide, by decide⟩, by rfl⟩

/-- The theorems applied to the second build: its automaton is well-formed in full (`WF`,
`wfCheck = true`), its traversal of ANY host never panics and is total above the explicit bound,
returning every occurrence of every pattern exactly once. -/
example : ∃ M, manyBuildTE (fun p => some (strConstraints p)) (fun _ => ([] : List Nat))
      (charTree natLt) strReq 100 true C07.cexPats C07.cexEvsTD = some (.ok M) ∧
    M.automaton.WF strReq M.ids ∧ M.automaton.wfCheck strReq M.ids = true ∧
    (∀ h fuel' tag, run strDomain M.automaton h fuel' ≠ .error (.panic tag)) ∧
    ∀ h fuel', C08.strRunBound M.automaton h ≤ fuel' →
      ∃ ms, M.findMatches strDomain h fuel' = .ok ms ∧ ms.Nodup ∧
        ∀ i p, C07.cexPats[i]? = some p →
          (p = [] → ms.count (i, StrPos.unbound) = 1) ∧
          (p ≠ [] → ∀ a, ms.count (i, StrPos.bound a p.length) =
            if occursStr p h a then 1 else 0) := by
  obtain ⟨M, hb, _⟩ := c09_TE_examples_str.2.1
  obtain ⟨hw, hck⟩ := c09_many_wf_TE _ _ _ strReq StrProg.strReq_acyclic 100 true _ _ M hb
  exact ⟨M, hb, hw, hck, fun h fuel' => c08_str_run_no_panic_TE _ _ _ M hb h fuel',
    fun h fuel' hf => c0708_str_TE _ _ _ M hb h fuel' hf⟩

set_option maxRecDepth 8192 in
/-- **Matrices.** `buildTE` accepts the complete strict log `C07M.exMatEvsTD3` of
Props/C07Mat.lean (`ab / c`, `a$x / _$x`, `$x$x`): deterministic states 0, 7, 9, each with a
fallback transition; the non-deterministic states 1 and 2 have one too. -/
theorem c09_TE_examples_mat :
    ∃ M, manyBuildTE (fun p => some (matConstraints p)) (fun _ => ([] : List MKey))
        (charTree mkeyLt) matReq 100 true C07M.exMatPatterns3 C07M.exMatEvsTD3 = some (.ok M) ∧
      M.automaton.liveStates = [0, 1, 2, 3, 4, 5, 6, 7, 8, 9, 10] ∧
      (M.automaton.liveStates.filter fun s => (M.automaton.stateD s).det) = [0, 7, 9] ∧
      (M.automaton.liveStates.map fun s => (M.automaton.stateD s).eorder.length) =
        [1, 1, 1, 0, 0, 0, 0, 1, 0, 1, 0] :=
  ⟨_, rfl, by decide, by decide, by decide⟩

example : ∃ M, manyBuildTE (fun p => some (matConstraints p)) (fun _ => ([] : List MKey))
      (charTree mkeyLt) matReq 100 true C07M.exMatPatterns3 C07M.exMatEvsTD3 = some (.ok M) ∧
    M.automaton.WF matReq M.ids ∧
    (∀ h fuel' tag, run matDomain M.automaton h fuel' ≠ .error (.panic tag)) ∧
    ∀ h fuel', C08.matRunBound M.automaton h ≤ fuel' →
      ∃ ms, M.findMatches matDomain h fuel' = .ok ms ∧ ms.Nodup ∧
        ∀ i p, C07M.exMatPatterns3[i]? = some p → ∀ r c,
          ms.count (i, MatPos.bound r c 0 0 (matExtent p).1 (matExtent p).2) =
            if occursMat p h r c then 1 else 0 := by
  obtain ⟨M, hb, _⟩ := c09_TE_examples_mat
  exact ⟨M, hb, (c09_many_wf_TE _ _ _ matReq MatProg.matReq_acyclic 100 true _ _ M hb).1,
    fun h fuel' => c08_mat_run_no_panic_TE _ _ _ M hb h fuel',
    fun h fuel' hf => c0708_mat_TE _ _ _ M hb h fuel' hf⟩

set_option maxRecDepth 16384 in
/-- **Port graphs.** `buildTE` accepts complete strict logs for the two patterns of
`Props/TRunPG.lean` (four deterministic states) and for the four patterns of the FINDING
`pgProgramOK_false_two_fallbacks` (22 states, 21 deterministic, nine with a fallback transition,
none with two), and rejects that finding's log. -/
theorem c09_TE_examples_pg :
    (∃ M, manyBuildTE (fun p : PortGraph × Nat => pgConstraints p.1 p.2)
        (fun _ => ([] : List PGKey)) (fun cs => pgTree cs 50) pgReq 50 true exPGPatterns
        C09EpsEx.pgEvsTE = some (.ok M) ∧
      M.automaton.liveStates = [0, 3, 5, 6, 7] ∧
      (M.automaton.liveStates.filter fun s => (M.automaton.stateD s).det) = [0, 3, 5, 7]) ∧
    (∃ A, buildTE (fun cs => pgTree cs 50) pgReq 50 exEpsInputs C09EpsEx.pgEpsEvsTE = .ok A ∧
      A.liveStates.length = 22 ∧
      (A.liveStates.filter fun s => (A.stateD s).det).length = 21 ∧
      (A.liveStates.map fun s => (A.stateD s).eorder.length) =
        [1, 1, 0, 1, 1, 0, 0, 1, 1, 0, 0, 0, 1, 1, 1, 0, 0, 0, 0, 0, 0, 0]) ∧
    buildTE (fun cs => pgTree cs 50) pgReq 50 exEpsInputs exEpsEvents =
      .error (.guard "c1T: state emitted twice or before one of its predecessors") :=
  ⟨⟨_, rfl, by decide, by decide⟩, ⟨_, rfl, by decide, by decide, by decide⟩, by rfl⟩

/-- `c09_built_wf_TE_pg` applied to the second build: full `WF`, checker `true` — whereas the
undisciplined log for the SAME patterns fails the check (`pgProgramOK_false_two_fallbacks`). -/
example : ∃ A, buildTE (fun cs => pgTree cs 50) pgReq 50 exEpsInputs C09EpsEx.pgEpsEvsTE = .ok A ∧
    A.WF pgReq (exEpsInputs.map (·.1)) ∧ A.wfCheck pgReq (exEpsInputs.map (·.1)) = true := by
  obtain ⟨A, hb, _⟩ := c09_TE_examples_pg.2.1
  exact ⟨A, hb, c09_built_wf_TE_pg 50 50 _ _ A hb⟩

set_option maxRecDepth 8192 in
/-- **Nested trees.** The decomposition of the root constraints of `C09EpsEx.tIn` is nested (node 1
has a child) with a labelled root; `buildTE` accepts the complete strict log `C09EpsEx.tEvs`; the
result has five deterministic states and the root has a fallback transition (the root label), the
state created for the inner tree node has none. -/
theorem c09_TE_examples_nested :
    tTree 3 [⟨.const 1, [0]⟩, ⟨.const 2, [1]⟩, ⟨.true_ 1, [0]⟩] 50 =
      some ⟨[⟨[2], [(⟨.const 1, [0]⟩, 1), (⟨.const 2, [1]⟩, 2)]⟩,
             ⟨[0, 2], [(⟨.const 2, [1]⟩, 3)]⟩, ⟨[1], []⟩, ⟨[1], []⟩], true⟩ ∧
    ∃ A, buildTE (fun cs => tTree 3 cs 50) (fun _ => ([] : List Nat)) 50 C09EpsEx.tIn
        C09EpsEx.tEvs = .ok A ∧
      A.liveStates = [0, 1, 3, 4, 5, 6, 8] ∧
      (A.liveStates.filter fun s => (A.stateD s).det) = [0, 1, 3, 6, 8] ∧
      (A.liveStates.map fun s => (A.stateD s).eorder.length) = [1, 0, 0, 0, 0, 0, 0] :=
  ⟨by decide, _, rfl, by decide, by decide, by decide⟩

example : ∃ A, buildTE (fun cs => tTree 3 cs 50) (fun _ => ([] : List Nat)) 50 C09EpsEx.tIn
      C09EpsEx.tEvs = .ok A ∧ A.WF (fun _ => ([] : List Nat)) [0, 1, 2] := by
  obtain ⟨A, hb, _⟩ := c09_TE_examples_nested.2
  exact ⟨A, hb, (c09_built_wf_TE _ _ ⟨fun _ => 0, fun _ _ h => by cases h⟩ 50 _ _ A hb).1⟩

end Pm

section AxiomAudit
open Pm
#print axioms c09_buildTE_oneEpsilon
#print axioms c09_buildTE_oneEpsilon_edges
#print axioms c09_buildTE_epsLe1
#print axioms buildTE_imp_buildTD
#print axioms buildTE_imp_build
#print axioms c09_built_wf_TE
#print axioms c09_built_wf_TE_str
#print axioms c09_built_wf_TE_char
#print axioms c09_built_wf_TE_mat
#print axioms c09_built_wf_TE_pg
#print axioms c09_built_wf_TE_table
#print axioms manyBuildTE_inv
#print axioms c09_many_wf_TE
#print axioms c08_str_run_no_panic_TE
#print axioms c08_str_run_errors_TE
#print axioms c08_str_find_matches_total_TE
#print axioms c0708_str_TE
#print axioms c08_mat_run_no_panic_TE
#print axioms c08_mat_run_errors_TE
#print axioms c08_mat_find_matches_total_TE
#print axioms c0708_mat_TE
#print axioms c09_TE_examples_str
#print axioms c09_TE_examples_mat
#print axioms c09_TE_examples_pg
#print axioms c09_TE_examples_nested
end AxiomAudit
