/-
Props/TDomPGWF.lean — the executable well-formedness check the driver runs on every port graph
of the correspondence stream is exactly the hypothesis `LinksOK` of T-DOM-PG.
-/
import PmVerif.Spec.PGWF
import PmVerif.Props.TDomPG
namespace Pm

theorem tdom_pg_linksOKb_iff (g : PortGraph) : g.linksOKb = true ↔ g.LinksOK := by
  unfold PortGraph.linksOKb PortGraph.LinksOK
  simp only [Bool.and_eq_true, List.all_eq_true, decide_eq_true_eq, Bool.or_eq_true,
    Bool.not_eq_true']
  constructor
  · rintro ⟨⟨h1, h2⟩, h3⟩
    refine ⟨h1, h2, fun l hl l' hl' he => ?_⟩
    rcases h3 l hl l' hl' with hn | he'
    · have : (decide (l.1 = l'.1) || decide (l.2 = l'.2)) = true := by
        rcases he with h | h <;> simp [h]
      rw [hn] at this; cases this
    · exact he'
  · rintro ⟨h1, h2, h3⟩
    refine ⟨⟨h1, h2⟩, fun l hl l' hl' => ?_⟩
    by_cases he : l.1 = l'.1 ∨ l.2 = l'.2
    · exact .inr (h3 l hl l' hl' he)
    · refine .inl ?_
      have h1' : ¬ l.1 = l'.1 := fun h => he (.inl h)
      have h2' : ¬ l.2 = l'.2 := fun h => he (.inr h)
      simp [h1', h2']

end Pm
