/-
Props/TRunStr.lean — theorem T-RUN-ANCH-STR and its corollaries for string pattern sets.

`trun_str`: for ANY string automaton `A` and pattern list `ps` passing the decidable
per-program check `strProgramOK A ps` (Spec/StrRun.lean; evaluated by the driver on every dumped
automaton) and ANY host `h`, the set of matches a successful traversal `run strDomain A h`
reports is exactly anchored acceptance: `(i, m)` is reported iff either `m` is the unbound map and
the root accepts `i` with the empty key list (the empty pattern), or there are an anchor `a`
(a byte offset `< strByteLen h`) and a non-empty key list `ks` such that the automaton accepts
`i` from its root — in the reading the traversal implements, under the truth assignment
`strSigma h a` ("key `k` denotes host position `a + k`") — at a state recording `ks`
(`AccDetK`), every key of `ks` can be bound at `a`, and `m = .bound a (1 + max ks)`.
In particular the visited-set pruning loses nothing and the hash-order of scopes and key lists
plays no role.

Corollaries, combining `trun_str` with T-BUILD for strings (`c03_string_prop`) and the string
domain theorems (`tdom_str_*`), for every build of `ps` — any event log, i.e. any heuristic
answers and hash orders — whose automaton passes `strProgramOK`:
* `c01_c02_string_checked` — the reported matches are exactly the occurrences: `(i, m)` is
  reported iff the `i`-th pattern `p` is empty and `m` is unbound, or `p` is non-empty, occurs
  at character position `a` of the host (`occursStr`) and `m = .bound a p.length`;
* `c04_string_checked` — two builds of the same patterns report the same set of matches;
* `c06_string_checked` — the matches labelled `i` depend only on the `i`-th pattern.

Only the final statements and non-vacuity examples live here; proofs are in
`Proofs/AnchBind.lean` (bindings in closed form, evaluation = `strSigma`), `Proofs/AnchReach.lean`
(reachable configurations), `Proofs/AnchRun.lean` (pruning is lossless; the theorem) and
`Proofs/AnchKeys.lean` (`strPatternKeys`, `AccDetK` vs `AccDet`).
-/
import PmVerif.Proofs.AnchKeys
import PmVerif.Props.C03
namespace Pm
open Automaton

/-- **T-RUN-ANCH-STR.** The traversal of an OK string program reports exactly anchored
acceptance. -/
theorem trun_str (A : Automaton Nat CharPred) (ps : List (List CharVar)) (h : List Nat) (fuel : Nat)
    (ms : List (Match StrPos)) (seen : List (Nat × List (Option Nat)))
    (hok : strProgramOK A ps = true) (hr : run strDomain A h fuel = .ok (ms, seen))
    (i : Nat) (m : StrPos) :
    (i, m) ∈ ms ↔
      (m = .unbound ∧ ∃ w, A.g.weight? A.root = some w ∧ (i, []) ∈ w.matches_) ∨
      (∃ a ks, a < strByteLen h ∧ ks ≠ [] ∧ AccDetK (strSigma h a) A A.root i ks ∧
        (∀ k ∈ ks, a + k < strByteLen h) ∧ m = .bound a (1 + ks.foldl max 0)) :=
  Anch.trun_str_main A ps h fuel ms seen hok hr i m

/-- `trun_str` does not depend on the visit log or the fuel: any two successful runs report the
same set of matches. -/
theorem trun_str_set (A : Automaton Nat CharPred) (ps : List (List CharVar)) (h : List Nat)
    (fuel fuel' : Nat) (ms ms' : List (Match StrPos)) (seen seen' : List (Nat × List (Option Nat)))
    (hok : strProgramOK A ps = true) (hr : run strDomain A h fuel = .ok (ms, seen))
    (hr' : run strDomain A h fuel' = .ok (ms', seen')) (i : Nat) (m : StrPos) :
    (i, m) ∈ ms ↔ (i, m) ∈ ms' := by
  rw [trun_str A ps h fuel ms seen hok hr, trun_str A ps h fuel' ms' seen' hok hr']

/-- **C01/C02 for checked string programs.** Whatever the event log of the build, if the built
automaton passes `strProgramOK` then `find_matches` reports exactly the occurrences of the
patterns: the empty pattern once with the unbound map, a non-empty pattern `p` once per character
position `a` at which it occurs, with the position map `.bound a p.length`. -/
theorem c01_c02_string_checked (ps : List (List CharVar)) (evs : List Ev) (fuel fuel' : Nat)
    (M : Many Nat CharPred) (h : List Nat) (ms : List (Match StrPos))
    (hb : manyBuild (fun p => some (strConstraints p)) (fun _ => ([] : List Nat))
      (charTree natLt) strReq fuel true ps evs = some (.ok M))
    (hok : strProgramOK M.automaton ps = true)
    (hf : M.findMatches strDomain h fuel' = .ok ms) (i : Nat) (m : StrPos) :
    (i, m) ∈ ms ↔ ∃ p, ps[i]? = some p ∧
      ((p = [] ∧ m = .unbound) ∨
       (p ≠ [] ∧ ∃ a, occursStr p h a = true ∧ m = .bound a p.length)) := by
  obtain ⟨seen, hr⟩ : ∃ seen, run strDomain M.automaton h fuel' = .ok (ms, seen) := by
    unfold Many.findMatches at hf
    cases hrun : run strDomain M.automaton h fuel' with
    | error e => rw [hrun] at hf; cases hf
    | ok r =>
      rw [hrun] at hf
      cases hf
      exact ⟨r.2, rfl⟩
  rw [trun_str M.automaton ps h fuel' ms seen hok hr]
  -- the key list recorded for pattern `i` anywhere in the automaton
  have hrec : ∀ {σ : StrCons → Bool} {s : Nat} {ks : List Nat},
      AccDetK σ M.automaton s i ks → ∃ s' w', M.automaton.g.weight? s' = some w' ∧
        (i, ks) ∈ w'.matches_ ∧ (s' = M.automaton.root ∨ ks ≠ []) ∧
        ∃ p, ps[i]? = some p ∧ ks = strPatternKeys p := by
    intro σ s ks hacc
    obtain ⟨s', w', hw', hmem⟩ := Anch.accDetK_recorded hacc
    obtain ⟨_, hroot, hp⟩ := (Anch.stateOK_of_programOK hok hw').matches_ i ks hmem
    exact ⟨s', w', hw', hmem, hroot, hp⟩
  constructor
  · rintro (⟨rfl, w, hw, hmem⟩ | ⟨a, ks, ha, hne, hacc, hbnd, rfl⟩)
    · obtain ⟨_, _, p, hps, hks⟩ := (Anch.stateOK_of_programOK hok hw).matches_ i [] hmem
      refine ⟨p, hps, .inl ⟨?_, rfl⟩⟩
      by_cases hp : p = []
      · exact hp
      · exact absurd hks.symm (Anch.strPatternKeys_ne p hp)
    · obtain ⟨_, _, _, _, _, p, hps, hks⟩ := hrec hacc
      have hp : p ≠ [] := by
        rintro rfl
        exact hne (hks.trans Anch.strPatternKeys_nil)
      obtain ⟨p', hps', hall⟩ :=
        (c03_string_prop ps evs fuel M (strSigma h a) hb i).mp (Anch.accDet_of_accDetK hacc)
      rw [hps] at hps'
      cases hps'
      refine ⟨p, hps, .inr ⟨hp, a, (Anch.sigma_iff_occurs p h a).mp hall, ?_⟩⟩
      rw [hks, Anch.strPatternKeys_extent p hp]
  · rintro ⟨p, hps, ⟨rfl, rfl⟩ | ⟨hp, a, ho, rfl⟩⟩
    · left
      have hacc : AccDet (strSigma h 0) M.automaton M.automaton.root i :=
        (c03_string_prop ps evs fuel M (strSigma h 0) hb i).mpr
          ⟨[], hps, fun c hc => by
            have he : strConstraints [] = [] := by decide
            rw [he] at hc
            cases hc⟩
      obtain ⟨ks, hK⟩ := Anch.accDetK_of_accDet hacc
      obtain ⟨s', w', hw', hmem, hroot, p', hps', hks⟩ := hrec hK
      rw [hps] at hps'
      cases hps'
      rw [Anch.strPatternKeys_nil] at hks
      subst hks
      have hs : s' = M.automaton.root := by
        rcases hroot with h | h
        · exact h
        · exact absurd rfl h
      subst hs
      exact ⟨rfl, w', hw', hmem⟩
    · right
      have hshort := tdom_str_sat_short p h a ho hp
      have hlen := Anch.length_le_byteLen h
      have hpos : 0 < p.length := List.length_pos_iff.mpr hp
      have hacc : AccDet (strSigma h a) M.automaton M.automaton.root i :=
        (c03_string_prop ps evs fuel M (strSigma h a) hb i).mpr
          ⟨p, hps, (Anch.sigma_iff_occurs p h a).mpr ho⟩
      obtain ⟨ks, hK⟩ := Anch.accDetK_of_accDet hacc
      obtain ⟨_, _, _, _, _, p', hps', hks⟩ := hrec hK
      rw [hps] at hps'
      cases hps'
      subst hks
      refine ⟨a, _, by omega, Anch.strPatternKeys_ne p hp, hK, ?_, ?_⟩
      · intro k hk
        have := Anch.strPatternKeys_lt p k hk
        omega
      · rw [Anch.strPatternKeys_extent p hp]

/-- **C04 for checked string programs.** Two builds of the same patterns under ANY two event
logs (heuristic answers, hash orders), both passing `strProgramOK`, report the same set of
matches on every host. -/
theorem c04_string_checked (ps : List (List CharVar)) (evs evs' : List Ev)
    (fuel₁ fuel₂ fuel₁' fuel₂' : Nat) (M M' : Many Nat CharPred) (h : List Nat)
    (ms ms' : List (Match StrPos))
    (hb : manyBuild (fun p => some (strConstraints p)) (fun _ => ([] : List Nat))
      (charTree natLt) strReq fuel₁ true ps evs = some (.ok M))
    (hb' : manyBuild (fun p => some (strConstraints p)) (fun _ => ([] : List Nat))
      (charTree natLt) strReq fuel₁' true ps evs' = some (.ok M'))
    (hok : strProgramOK M.automaton ps = true) (hok' : strProgramOK M'.automaton ps = true)
    (hf : M.findMatches strDomain h fuel₂ = .ok ms)
    (hf' : M'.findMatches strDomain h fuel₂' = .ok ms') (i : Nat) (m : StrPos) :
    (i, m) ∈ ms ↔ (i, m) ∈ ms' := by
  rw [c01_c02_string_checked ps evs fuel₁ fuel₂ M h ms hb hok hf,
    c01_c02_string_checked ps evs' fuel₁' fuel₂' M' h ms' hb' hok' hf']

/-- **C06 for checked string programs.** The matches labelled `i` depend only on the `i`-th
pattern: if position `i` of `ps` and position `j` of `ps'` hold the same pattern (or both
nothing), then — whatever else is compiled alongside, in whatever order and under whatever event
logs — the bindings reported with label `i` by the first matcher are those reported with label
`j` by the second. -/
theorem c06_string_checked (ps ps' : List (List CharVar)) (evs evs' : List Ev)
    (fuel₁ fuel₂ fuel₁' fuel₂' : Nat) (M M' : Many Nat CharPred) (h : List Nat)
    (ms ms' : List (Match StrPos))
    (hb : manyBuild (fun p => some (strConstraints p)) (fun _ => ([] : List Nat))
      (charTree natLt) strReq fuel₁ true ps evs = some (.ok M))
    (hb' : manyBuild (fun p => some (strConstraints p)) (fun _ => ([] : List Nat))
      (charTree natLt) strReq fuel₁' true ps' evs' = some (.ok M'))
    (hok : strProgramOK M.automaton ps = true) (hok' : strProgramOK M'.automaton ps' = true)
    (hf : M.findMatches strDomain h fuel₂ = .ok ms)
    (hf' : M'.findMatches strDomain h fuel₂' = .ok ms') (i j : Nat) (hij : ps[i]? = ps'[j]?)
    (m : StrPos) :
    (i, m) ∈ ms ↔ (j, m) ∈ ms' := by
  rw [c01_c02_string_checked ps evs fuel₁ fuel₂ M h ms hb hok hf,
    c01_c02_string_checked ps' evs' fuel₁' fuel₂' M' h ms' hb' hok' hf', hij]

/-- The same for the packaged `strFindMatches` (build, then match, one fuel), towards the targets
`c01_string_target`/`c02_string_target` of `Props/Targets.lean`: they hold of every run whose
built automaton passes the check. -/
theorem c01_c02_strFindMatches_checked (ps : List (List CharVar)) (evs : List Ev) (h : List Nat)
    (fuel : Nat) (ms : List (Match StrPos)) (hf : strFindMatches ps evs h fuel = .ok ms)
    (hok : ∀ M, manyBuild (fun p => some (strConstraints p)) (fun _ => ([] : List Nat))
      (charTree natLt) strReq fuel true ps evs = some (.ok M) →
      strProgramOK M.automaton ps = true) (i : Nat) (m : StrPos) :
    (i, m) ∈ ms ↔ ∃ p, ps[i]? = some p ∧
      ((p = [] ∧ m = .unbound) ∨
       (p ≠ [] ∧ ∃ a, occursStr p h a = true ∧ m = .bound a p.length)) := by
  unfold strFindMatches at hf
  cases hb : manyBuild (fun p => some (strConstraints p)) (fun _ => ([] : List Nat))
      (charTree natLt) strReq fuel true ps evs with
  | none => rw [hb] at hf; cases hf
  | some r =>
    cases r with
    | error e => rw [hb] at hf; cases hf
    | ok M =>
      rw [hb] at hf
      exact c01_c02_string_checked ps evs fuel fuel M h ms hb (hok M hb) hf i m

/-- `c04_string_target` for checked runs. -/
theorem c04_strFindMatches_checked (ps : List (List CharVar)) (evs evs' : List Ev) (h : List Nat)
    (fuel : Nat) (ms ms' : List (Match StrPos)) (hf : strFindMatches ps evs h fuel = .ok ms)
    (hf' : strFindMatches ps evs' h fuel = .ok ms')
    (hok : ∀ M, manyBuild (fun p => some (strConstraints p)) (fun _ => ([] : List Nat))
      (charTree natLt) strReq fuel true ps evs = some (.ok M) →
      strProgramOK M.automaton ps = true)
    (hok' : ∀ M, manyBuild (fun p => some (strConstraints p)) (fun _ => ([] : List Nat))
      (charTree natLt) strReq fuel true ps evs' = some (.ok M) →
      strProgramOK M.automaton ps = true) (x : Match StrPos) :
    x ∈ ms ↔ x ∈ ms' := by
  obtain ⟨i, m⟩ := x
  rw [c01_c02_strFindMatches_checked ps evs h fuel ms hf hok,
    c01_c02_strFindMatches_checked ps evs' h fuel ms' hf' hok']

/-! ### Non-vacuity -/

/-- Three states: the root (scope `[0]`) accepts the empty pattern (id 1, no keys) and has a
transition `'a' at key 0` to a state (scope `[0, 1]`) with a transition `'b' at key 1` to a leaf
accepting pattern 0 = `ab` with keys `[0, 1]`. -/
def exStrAutomaton : Automaton Nat CharPred :=
  { g := { nodes := [some ⟨{ matches_ := [(1, [])], corder := [0], scope := [0] }, [0], []⟩,
                     some ⟨{ corder := [1], scope := [0, 1] }, [1], [0]⟩,
                     some ⟨{ matches_ := [(0, [0, 1])] }, [], [1]⟩],
           edges := [some ⟨0, 1, some ⟨.constVal 97, [0]⟩⟩, some ⟨1, 2, some ⟨.constVal 98, [1]⟩⟩],
           freeNodes := [], freeEdges := [] },
    root := 0 }

def exStrPatterns : List (List CharVar) := [[.lit 97, .lit 98], []]

/-- The program passes the check … -/
example : strProgramOK exStrAutomaton exStrPatterns = true := by decide

/-- … and on the host `xaba` the traversal reports the empty pattern once and `ab` at anchor 1
(the second `a`, anchor 3, fails at key 1: position 4 is outside the host). -/
example : run strDomain exStrAutomaton [120, 97, 98, 97] 10 =
    .ok ([(1, .unbound), (0, .bound 1 2)],
      [(0, [none]), (1, [some 1, none]), (1, [some 3, none]), (2, [some 1, some 2])]) := by rfl

/-- The right-hand side of `trun_str` for the second match: anchor 1, keys `[0, 1]`. -/
example : AccDetK (strSigma [120, 97, 98, 97] 1) exStrAutomaton exStrAutomaton.root 0 [0, 1] :=
  .con (w := { matches_ := [(1, [])], corder := [0], scope := [0] }) (t := 0)
    (e := ⟨0, 1, some ⟨.constVal 97, [0]⟩⟩) rfl (by decide) rfl rfl (by decide)
    (.con (w := { corder := [1], scope := [0, 1] }) (t := 1)
      (e := ⟨1, 2, some ⟨.constVal 98, [1]⟩⟩) rfl (by decide) rfl rfl (by decide)
      (.here (w := { matches_ := [(0, [0, 1])] }) rfl (by decide)))

/-- `trun_str` applied to that run: membership of `(0, .bound 1 2)` from the acceptance path. -/
example : (0, StrPos.bound 1 2) ∈ [((1 : Nat), StrPos.unbound), (0, .bound 1 2)] :=
  (trun_str exStrAutomaton exStrPatterns [120, 97, 98, 97] 10 _ _ (by decide) (by rfl) 0
    (.bound 1 2)).mpr (.inr ⟨1, [0, 1], by decide, by decide,
      .con (w := { matches_ := [(1, [])], corder := [0], scope := [0] }) (t := 0)
        (e := ⟨0, 1, some ⟨.constVal 97, [0]⟩⟩) rfl (by decide) rfl rfl (by decide)
        (.con (w := { corder := [1], scope := [0, 1] }) (t := 1)
          (e := ⟨1, 2, some ⟨.constVal 98, [1]⟩⟩) rfl (by decide) rfl rfl (by decide)
          (.here (w := { matches_ := [(0, [0, 1])] }) rfl (by decide))),
      by decide, rfl⟩)

/-- The keys recorded for `ab` and for a pattern whose middle cell is an unconstrained variable;
`1 + max` is the pattern's length. -/
example : strPatternKeys [.lit 97, .lit 98] = [0, 1] ∧
    strPatternKeys [.lit 97, .var 0, .lit 98] = [0, 2] ∧ strPatternKeys [] = [] := by decide

/-- A real build: the patterns `ab`, the empty pattern and `a$x$x`, under an event log that fuses
the two `'a' at key 0` transitions of the root, determinises the root and the fused child (which
gets a fallback transition) and leaves the rest non-deterministic. The built automaton has five
live states (one slot vacated), passes the check, and on `xabbacc` reports the four
occurrences. -/
def exStrPatterns2 : List (List CharVar) := [[.lit 97, .lit 98], [], [.lit 97, .var 0, .var 0]]

def exStrEvents : List Ev :=
  [.topo 0, .group 0 [0, 2], .detAsk 0, .detYes 0, .iterEnd 0, .topo 5, .detAsk 5, .detYes 5,
   .iterEnd 5, .topo 2, .iterEnd 2, .topo 4, .iterEnd 4]

theorem exStr_built : ∃ M, manyBuild (fun p => some (strConstraints p)) (fun _ => ([] : List Nat))
      (charTree natLt) strReq 50 true exStrPatterns2 exStrEvents = some (.ok M) ∧
    M.automaton.liveStates = [0, 2, 3, 4, 5] ∧
    strProgramOK M.automaton exStrPatterns2 = true ∧
    M.findMatches strDomain [120, 97, 98, 98, 97, 99, 99] 100 =
      .ok [(1, .unbound), (0, .bound 1 2), (2, .bound 1 3), (2, .bound 4 3)] :=
  ⟨_, rfl, by decide, by decide, by rfl⟩

/-- The hypotheses of `c01_c02_string_checked` hold of it; its conclusion for that run. -/
example : ∀ i m, (i, m) ∈ [((1 : Nat), StrPos.unbound), (0, .bound 1 2), (2, .bound 1 3),
      (2, .bound 4 3)] ↔
    ∃ p, exStrPatterns2[i]? = some p ∧
      ((p = [] ∧ m = .unbound) ∨
       (p ≠ [] ∧ ∃ a, occursStr p [120, 97, 98, 98, 97, 99, 99] a = true ∧
         m = .bound a p.length)) := by
  obtain ⟨M, hb, _, hok, hf⟩ := exStr_built
  exact c01_c02_string_checked _ _ _ _ M _ _ hb hok hf

end Pm
