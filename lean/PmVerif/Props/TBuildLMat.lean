/-
Props/TBuildLMat.lean — end-to-end C01/C02 for MATRIX pattern sets on LENIENT builds (the Rust
code path, no `make_det` guard), i.e. also for the real builds that trip the guard (76 of
1 080 720 in the harness runs) and were outside `c01_c02_matrix`.  Namespace `Pm.TBL`.
The matrix analogue of `Props/TBuildLStr.lean` / `Props/TBuildLStrT.lean`.

* `matL_acc_sound` / `matL_acc_checked` / `matTL_acc_guardE`: propositional acceptance of a
  leniently built matrix automaton — no false positive for ANY log; exact for every build whose
  automaton passes `accOK`, resp. every disciplined log that passes `guardE_ok`.
* `mat_keysWitnessed_of_acc`: `AnchM.KeysWitnessed A h` (the extra hypothesis of the matrix
  traversal theorem) from `StateOK` and SOUNDNESS of acceptance alone — so it holds for every
  lenient build, whatever the log.
* `mat_run_sound_of_acc`, `mat_run_of_acc`: `trun_mat_sound_stateOK` / `trun_mat_stateOK` turned
  into occurrences for ANY automaton all of whose live states satisfy `AnchM.StateOK` and whose
  acceptance is sound / exact.
* `matTL_stateOK`: every automaton `buildTL` returns satisfies `StateOK` (from `c08_mat_run_TL`,
  i.e. `C08.matProg_builtWith`) — so NO per-program check is needed for the Rust loop.
* End to end, for the disciplined lenient build `buildTL` (the Rust loop), no `matProgramOK`:
  `c01_matrix_lenientT` (C01, NO check at all), `c01_c02_matrix_lenient_checked'` (`accOK`),
  `c01_c02_matrix_lenient_guardE` (`guardE_ok`).
* End to end, for the undisciplined `buildL` (ANY log), with the per-program check
  `matProgramOK A ps` (there `StateOK` is not available from the build: the invariant `SP` is
  carried by the disciplined main loop only): `c01_matrix_lenient`,
  `c01_c02_matrix_lenient_checked`.
-/
import PmVerif.Props.TBuildLCore
import PmVerif.Props.TBuildLStrT
import PmVerif.Props.C01Mat
import PmVerif.Props.C06
import PmVerif.Props.C08
namespace Pm
namespace TBL
open Automaton

/-- The builder inputs of a matrix pattern list. -/
def matInputs (ps : List MatPattern) : Option (List (Nat × List MatCons × List MKey)) :=
  manyInputs (K := MKey) (P := CharPred) (fun p => some (matConstraints p))
    (fun _ => ([] : List MKey)) true ps 0

/-- Specification in terms of builder inputs = specification in terms of the pattern list. -/
theorem matSpec_iff {ps : List MatPattern} {inputs : List (Nat × List MatCons × List MKey)}
    (hi : matInputs ps = some inputs) (σ : MatCons → Bool) (i : Nat) :
    (∃ cs extra, (i, cs, extra) ∈ inputs ∧ ∀ c ∈ cs, σ c = true) ↔
      ∃ p, ps[i]? = some p ∧ ∀ c ∈ matConstraints p, σ c = true := by
  have hpos := c06_ids_are_positions (fun p => some (matConstraints p))
    (fun _ => ([] : List MKey)) true ps 0 inputs hi
  constructor
  · rintro ⟨cs, ex, hmem, hall⟩
    obtain ⟨k, p, hk, hj, hc, _⟩ := (hpos i cs ex).mp hmem
    simp only [Nat.zero_add] at hj
    subst hj
    simp only [Option.some.injEq] at hc
    subst hc
    exact ⟨p, hk, hall⟩
  · rintro ⟨p, hk, hall⟩
    exact ⟨matConstraints p, [], (hpos i _ _).mpr ⟨i, p, hk, by omega, rfl, rfl⟩, hall⟩

/-- No false positive at the automaton level, for every lenient matrix build and every log. -/
theorem matL_acc_sound (ps : List MatPattern) (evs : List Ev) (fuel : Nat)
    (inputs : List (Nat × List MatCons × List MKey)) (A : Automaton MKey CharPred)
    (hi : matInputs ps = some inputs)
    (hb : buildL (charTree mkeyLt) matReq fuel inputs evs = .ok A) (σ : MatCons → Bool) (i : Nat)
    (hacc : AccDet σ A A.root i) : ∃ p, ps[i]? = some p ∧ ∀ c ∈ matConstraints p, σ c = true :=
  (matSpec_iff hi σ i).1
    (buildL_acc_sound _ _ _ _ _ A σ (c03_treeOK_char mkeyLt σ) hb i hacc)

/-- Exact acceptance for every lenient matrix build whose automaton passes `accOK`. -/
theorem matL_acc_checked (ps : List MatPattern) (evs : List Ev) (fuel : Nat)
    (inputs : List (Nat × List MatCons × List MKey)) (A : Automaton MKey CharPred)
    (hi : matInputs ps = some inputs)
    (hb : buildL (charTree mkeyLt) matReq fuel inputs evs = .ok A) (hc : accOK A = true)
    (σ : MatCons → Bool) (i : Nat) :
    AccDet σ A A.root i ↔ ∃ p, ps[i]? = some p ∧ ∀ c ∈ matConstraints p, σ c = true :=
  (buildL_acc_checked _ _ _ _ _ A hb hc σ (c03_treeOK_char mkeyLt σ) i).trans (matSpec_iff hi σ i)

/-- Exact acceptance for every disciplined lenient matrix log that passes guard E. -/
theorem matTL_acc_guardE (ps : List MatPattern) (evs : List Ev) (fuel : Nat)
    (inputs : List (Nat × List MatCons × List MKey)) (A : Automaton MKey CharPred)
    (hi : matInputs ps = some inputs)
    (hb : buildTL (charTree mkeyLt) matReq fuel inputs evs = .ok A)
    (hg : guardE_ok (charTree mkeyLt) matReq fuel inputs evs = true)
    (σ : MatCons → Bool) (i : Nat) :
    AccDet σ A A.root i ↔ ∃ p, ps[i]? = some p ∧ ∀ c ∈ matConstraints p, σ c = true :=
  (buildTL_acc_partial _ _ _ _ _ A σ (c03_treeOK_char mkeyLt σ) hb hg i).trans (matSpec_iff hi σ i)

/-- Every automaton returned by the disciplined lenient matrix build is an OK program: no
per-program check is needed for the Rust loop. -/
theorem matTL_stateOK (ps : List MatPattern) (evs : List Ev) (fuel : Nat)
    (inputs : List (Nat × List MatCons × List MKey)) (A : Automaton MKey CharPred)
    (hi : matInputs ps = some inputs)
    (hb : buildTL (charTree mkeyLt) matReq fuel inputs evs = .ok A) :
    ∀ s w, A.g.weight? s = some w → Pm.AnchM.StateOK A ps s w :=
  (c08_mat_run_TL ps evs fuel inputs A hi hb [] 0).1

/-! ### from acceptance to occurrences, for any automaton all of whose states are OK -/

/-- The key list recorded for pattern `i` anywhere along an acceptance derivation. -/
theorem mat_recorded {A : Automaton MKey CharPred} {ps : List MatPattern}
    (hok : ∀ s w, A.g.weight? s = some w → Pm.AnchM.StateOK A ps s w)
    {σ : MatCons → Bool} {s i : Nat} {ks : List MKey} (hacc : AccDetK σ A s i ks) :
    ∃ p, ps[i]? = some p ∧ ks = matPatternKeys p := by
  obtain ⟨s', w', hw', hmem⟩ := Anch.accDetK_recorded hacc
  obtain ⟨_, _, _, hp⟩ := (hok _ _ hw').matches_ i ks hmem
  exact hp

/-- **Witnessed keys from SOUND acceptance.** The extra hypothesis `AnchM.KeysWitnessed A h` of the
matrix traversal theorem (derived from T-BUILD for guarded builds, `trun_mat_witnessed_of_built`)
only needs the no-false-positive half of T-BUILD — which holds for every lenient build. -/
theorem mat_keysWitnessed_of_acc (A : Automaton MKey CharPred) (ps : List MatPattern)
    (hok : ∀ s w, A.g.weight? s = some w → Pm.AnchM.StateOK A ps s w)
    (hsound : ∀ (σ : MatCons → Bool) i, AccDet σ A A.root i →
      ∃ p, ps[i]? = some p ∧ ∀ c ∈ matConstraints p, σ c = true)
    (h : MatHost) : AnchM.KeysWitnessed A h := by
  intro r c i ks hcell hacc
  obtain ⟨p, hps, hks⟩ := mat_recorded hok hacc
  obtain ⟨p', hps', hall⟩ := hsound (matSigma h r c) i (Anch.accDet_of_accDetK hacc)
  rw [hps] at hps'
  cases hps'
  rw [hks]
  exact AnchM.keys_on_host p h r c hcell hall

/-- **Soundness of the traversal from soundness of acceptance**: every reported match is an
occurrence. -/
theorem mat_run_sound_of_acc (A : Automaton MKey CharPred) (ps : List MatPattern)
    (h : MatHost) (fuel : Nat) (ms : List (Match MatPos)) (seen : List (Nat × List (Option MVal)))
    (hok : ∀ s w, A.g.weight? s = some w → Pm.AnchM.StateOK A ps s w)
    (hr : run matDomain A h fuel = .ok (ms, seen))
    (hsound : ∀ (σ : MatCons → Bool) i, AccDet σ A A.root i →
      ∃ p, ps[i]? = some p ∧ ∀ c ∈ matConstraints p, σ c = true)
    (i : Nat) (m : MatPos) (hm : (i, m) ∈ ms) :
    ∃ p, ps[i]? = some p ∧ ∃ r c, occursMat p h r c = true ∧
      m = .bound r c 0 0 ((matExtent p).1 : Int) ((matExtent p).2 : Int) := by
  rcases trun_mat_sound_stateOK A ps h fuel ms seen hok hr i m hm with
    ⟨rfl, w, hw, hmem⟩ | ⟨r, c, ks, hcell, hne, hacc, rfl⟩
  · obtain ⟨_, _, _, p, _, hks⟩ := (hok _ _ hw).matches_ i [] hmem
    exact absurd hks.symm (AnchM.matPatternKeys_ne p)
  · obtain ⟨p, hps, hks⟩ := mat_recorded hok hacc
    obtain ⟨p', hps', hall⟩ := hsound (matSigma h r c) i (Anch.accDet_of_accDetK hacc)
    rw [hps] at hps'
    cases hps'
    refine ⟨p, hps, r, c, (AnchM.sigma_iff_occurs p h r c).mp ⟨hcell, hall⟩, ?_⟩
    rw [hks, AnchM.matPatternKeys_extent p]

/-- **The traversal reports exactly the occurrences** as soon as acceptance is exact. -/
theorem mat_run_of_acc (A : Automaton MKey CharPred) (ps : List MatPattern)
    (h : MatHost) (fuel : Nat) (ms : List (Match MatPos)) (seen : List (Nat × List (Option MVal)))
    (hok : ∀ s w, A.g.weight? s = some w → Pm.AnchM.StateOK A ps s w)
    (hr : run matDomain A h fuel = .ok (ms, seen))
    (hacc : ∀ (σ : MatCons → Bool) i, AccDet σ A A.root i ↔
      ∃ p, ps[i]? = some p ∧ ∀ c ∈ matConstraints p, σ c = true)
    (i : Nat) (m : MatPos) :
    (i, m) ∈ ms ↔ ∃ p, ps[i]? = some p ∧ ∃ r c, occursMat p h r c = true ∧
      m = .bound r c 0 0 ((matExtent p).1 : Int) ((matExtent p).2 : Int) := by
  constructor
  · exact mat_run_sound_of_acc A ps h fuel ms seen hok hr (fun σ i => (hacc σ i).1) i m
  · rintro ⟨p, hps, r, c, ho, rfl⟩
    have hwit := mat_keysWitnessed_of_acc A ps hok (fun σ i => (hacc σ i).1) h
    rw [trun_mat_stateOK A ps h fuel ms seen hok hwit hr]
    right
    obtain ⟨hcell, hall⟩ := (AnchM.sigma_iff_occurs p h r c).mpr ho
    have hA : AccDet (matSigma h r c) A A.root i :=
      (hacc (matSigma h r c) i).mpr ⟨p, hps, hall⟩
    obtain ⟨ks, hK⟩ := Anch.accDetK_of_accDet hA
    obtain ⟨p', hps', hks⟩ := mat_recorded hok hK
    rw [hps] at hps'
    cases hps'
    subst hks
    refine ⟨r, c, _, hcell, AnchM.matPatternKeys_ne p, hK,
      AnchM.keys_on_host p h r c hcell hall, ?_⟩
    rw [AnchM.matPatternKeys_extent p]

/-! ### the end-to-end statements for the Rust loop `buildTL`: no per-program check -/

/-- **C01 for EVERY build of the Rust loop, matrices, no check at all**: whatever the log
`buildTL` accepts (in particular every real build that trips the `make_det` guard), every match
`find_matches` reports on any (ragged) host is an occurrence of the pattern with that id. -/
theorem c01_matrix_lenientT (ps : List MatPattern) (evs : List Ev) (fuel fuel' : Nat)
    (inputs : List (Nat × List MatCons × List MKey)) (A : Automaton MKey CharPred)
    (h : MatHost) (ms : List (Match MatPos)) (seen : List (Nat × List (Option MVal)))
    (hi : matInputs ps = some inputs)
    (hb : buildTL (charTree mkeyLt) matReq fuel inputs evs = .ok A)
    (hr : run matDomain A h fuel' = .ok (ms, seen))
    (i : Nat) (m : MatPos) (hm : (i, m) ∈ ms) :
    ∃ p, ps[i]? = some p ∧ ∃ r c, occursMat p h r c = true ∧
      m = .bound r c 0 0 ((matExtent p).1 : Int) ((matExtent p).2 : Int) :=
  mat_run_sound_of_acc A ps h fuel' ms seen (matTL_stateOK ps evs fuel inputs A hi hb) hr
    (fun σ i => matL_acc_sound ps evs fuel inputs A hi (C08.buildTL_imp_buildL hb) σ i) i m hm

/-- **C01 + C02 per build of the Rust loop, matrices**: a matrix automaton built by `buildTL`
that passes `accOK` reports, on every host, exactly the occurrences of the patterns — pattern `p`
once per host cell `(r, c)` at which it occurs, with the position map
`.bound r c 0 0 (matExtent p)`.  No `matProgramOK`. -/
theorem c01_c02_matrix_lenient_checked' (ps : List MatPattern) (evs : List Ev)
    (fuel fuel' : Nat) (inputs : List (Nat × List MatCons × List MKey))
    (A : Automaton MKey CharPred) (h : MatHost) (ms : List (Match MatPos))
    (seen : List (Nat × List (Option MVal)))
    (hi : matInputs ps = some inputs)
    (hb : buildTL (charTree mkeyLt) matReq fuel inputs evs = .ok A)
    (hc : accOK A = true)
    (hr : run matDomain A h fuel' = .ok (ms, seen)) (i : Nat) (m : MatPos) :
    (i, m) ∈ ms ↔ ∃ p, ps[i]? = some p ∧ ∃ r c, occursMat p h r c = true ∧
      m = .bound r c 0 0 ((matExtent p).1 : Int) ((matExtent p).2 : Int) :=
  mat_run_of_acc A ps h fuel' ms seen (matTL_stateOK ps evs fuel inputs A hi hb) hr
    (fun σ i => matL_acc_checked ps evs fuel inputs A hi (C08.buildTL_imp_buildL hb) hc σ i) i m

/-- **C01 + C02 for every log of the Rust loop passing `guardE_ok`, matrices.**  No
`matProgramOK`, no `accOK`: the decidable replay check `guardE_ok` on the log is the only
hypothesis beyond the success of the build. -/
theorem c01_c02_matrix_lenient_guardE (ps : List MatPattern) (evs : List Ev)
    (fuel fuel' : Nat) (inputs : List (Nat × List MatCons × List MKey))
    (A : Automaton MKey CharPred) (h : MatHost) (ms : List (Match MatPos))
    (seen : List (Nat × List (Option MVal)))
    (hi : matInputs ps = some inputs)
    (hb : buildTL (charTree mkeyLt) matReq fuel inputs evs = .ok A)
    (hg : guardE_ok (charTree mkeyLt) matReq fuel inputs evs = true)
    (hr : run matDomain A h fuel' = .ok (ms, seen)) (i : Nat) (m : MatPos) :
    (i, m) ∈ ms ↔ ∃ p, ps[i]? = some p ∧ ∃ r c, occursMat p h r c = true ∧
      m = .bound r c 0 0 ((matExtent p).1 : Int) ((matExtent p).2 : Int) :=
  mat_run_of_acc A ps h fuel' ms seen (matTL_stateOK ps evs fuel inputs A hi hb) hr
    (fun σ i => matTL_acc_guardE ps evs fuel inputs A hi hb hg σ i) i m

/-! ### the end-to-end statements for the undisciplined `buildL` (ANY log): with `matProgramOK` -/

/-- **C01 for every lenient matrix build** (ANY event log, disciplined or not): if the built
automaton passes the per-program check `matProgramOK`, every reported match is an occurrence. -/
theorem c01_matrix_lenient (ps : List MatPattern) (evs : List Ev) (fuel fuel' : Nat)
    (inputs : List (Nat × List MatCons × List MKey)) (A : Automaton MKey CharPred)
    (h : MatHost) (ms : List (Match MatPos)) (seen : List (Nat × List (Option MVal)))
    (hi : matInputs ps = some inputs)
    (hb : buildL (charTree mkeyLt) matReq fuel inputs evs = .ok A)
    (hok : matProgramOK A ps = true) (hr : run matDomain A h fuel' = .ok (ms, seen))
    (i : Nat) (m : MatPos) (hm : (i, m) ∈ ms) :
    ∃ p, ps[i]? = some p ∧ ∃ r c, occursMat p h r c = true ∧
      m = .bound r c 0 0 ((matExtent p).1 : Int) ((matExtent p).2 : Int) :=
  mat_run_sound_of_acc A ps h fuel' ms seen (stateOK_of_matProgramOK A ps hok) hr
    (fun σ i => matL_acc_sound ps evs fuel inputs A hi hb σ i) i m hm

/-- **C01 + C02 per build, lenient, ANY log**: a leniently built matrix automaton that passes
`accOK` and `matProgramOK` reports, on every host, exactly the occurrences of the patterns. -/
theorem c01_c02_matrix_lenient_checked (ps : List MatPattern) (evs : List Ev)
    (fuel fuel' : Nat) (inputs : List (Nat × List MatCons × List MKey))
    (A : Automaton MKey CharPred) (h : MatHost) (ms : List (Match MatPos))
    (seen : List (Nat × List (Option MVal)))
    (hi : matInputs ps = some inputs)
    (hb : buildL (charTree mkeyLt) matReq fuel inputs evs = .ok A)
    (hc : accOK A = true) (hok : matProgramOK A ps = true)
    (hr : run matDomain A h fuel' = .ok (ms, seen)) (i : Nat) (m : MatPos) :
    (i, m) ∈ ms ↔ ∃ p, ps[i]? = some p ∧ ∃ r c, occursMat p h r c = true ∧
      m = .bound r c 0 0 ((matExtent p).1 : Int) ((matExtent p).2 : Int) :=
  mat_run_of_acc A ps h fuel' ms seen (stateOK_of_matProgramOK A ps hok) hr
    (fun σ i => matL_acc_checked ps evs fuel inputs A hi hb hc σ i) i m

/-! ### non-vacuity: a disciplined matrix log outside the `make_det` guard -/

namespace ExM

/-- The guard-tripping string example `TBL.Ex` transliterated to one-row matrix patterns (a
variable that occurs once and is not last becomes a hole, so that the constraint lists — and hence
the builder's behaviour on the log `Ex.evs` — are those of the string patterns with key `j`
renamed to `(0, j)`): `$y`, `$yb_$yb`, `b`, `ab`, `$y$y$ya$x`, `_b_bb`. -/
def pats : List MatPattern :=
  [[[some (.var 1)]],
   [[some (.var 1), some (.lit 98), none, some (.var 1), some (.lit 98)]],
   [[some (.lit 98)]],
   [[some (.lit 97), some (.lit 98)]],
   [[some (.var 1), some (.var 1), some (.var 1), some (.lit 97), some (.var 0)]],
   [[none, some (.lit 98), none, some (.lit 98), some (.lit 98)]]]

def inputs : List (Nat × List MatCons × List MKey) := (matInputs pats).getD []

set_option maxRecDepth 100000 in
/-- The guarded model rejects the log `Ex.evs` with the `make_det` guard … -/
theorem guarded_build_rejects :
    build (charTree mkeyLt) matReq 100 inputs Ex.evs =
      .error (.guard "make_det: a constraint child is already deterministic") := by rfl

set_option maxRecDepth 100000 in
/-- … and the strict replay with c1D; -/
theorem strict_build_rejects :
    buildTD (charTree mkeyLt) matReq 100 inputs Ex.evs =
      .error (.guard "c1D: a child of the emitted state is already deterministic") := by rfl

set_option maxRecDepth 100000 in
/-- … guard E holds on it, -/
theorem guardE_holds : guardE_ok (charTree mkeyLt) matReq 100 inputs Ex.evs = true := by rfl

set_option maxRecDepth 100000 in
/-- … and the lenient disciplined build succeeds with an automaton that passes `accOK` (and
`matProgramOK`, which the theorems for `buildTL` do not need). -/
theorem all_checks :
    matInputs pats = some inputs ∧
    ∃ A, buildTL (charTree mkeyLt) matReq 100 inputs Ex.evs = .ok A ∧ accOK A = true ∧
      matProgramOK A pats = true :=
  ⟨by rfl, _, rfl, by rfl, by rfl⟩

/-- `c01_c02_matrix_lenient_guardE` applies to this build: whenever the traversal of its
automaton returns, on ANY host, it returns exactly the occurrences. -/
theorem exact (h : MatHost) (fuel' : Nat) (ms : List (Match MatPos))
    (seen : List (Nat × List (Option MVal))) :
    ∃ A, buildTL (charTree mkeyLt) matReq 100 inputs Ex.evs = .ok A ∧
      (run matDomain A h fuel' = .ok (ms, seen) → ∀ i m,
        ((i, m) ∈ ms ↔ ∃ p, pats[i]? = some p ∧ ∃ r c, occursMat p h r c = true ∧
          m = .bound r c 0 0 ((matExtent p).1 : Int) ((matExtent p).2 : Int))) := by
  obtain ⟨hi, A, hb, _, _⟩ := all_checks
  exact ⟨A, hb, fun hr i m =>
    c01_c02_matrix_lenient_guardE pats Ex.evs 100 fuel' inputs A h ms seen hi hb
      guardE_holds hr i m⟩

set_option maxRecDepth 100000 in
/-- … and the traversal does return, e.g. on the ragged host `cbabb / ab`: 14 matches. -/
theorem run_example :
    ∃ A seen, buildTL (charTree mkeyLt) matReq 100 inputs Ex.evs = .ok A ∧
      run matDomain A [[99, 98, 97, 98, 98], [97, 98]] 1000 =
        .ok ([(2, .bound 0 1 0 0 0 0), (2, .bound 0 3 0 0 0 0), (2, .bound 0 4 0 0 0 0),
          (2, .bound 1 1 0 0 0 0), (0, .bound 0 0 0 0 0 0), (0, .bound 0 1 0 0 0 0),
          (0, .bound 0 2 0 0 0 0), (0, .bound 0 3 0 0 0 0), (0, .bound 0 4 0 0 0 0),
          (0, .bound 1 0 0 0 0 0), (0, .bound 1 1 0 0 0 0), (3, .bound 0 2 0 0 0 1),
          (3, .bound 1 0 0 0 0 1), (5, .bound 0 0 0 0 0 4)], seen) :=
  ⟨_, _, rfl, rfl⟩

end ExM

end TBL
end Pm
