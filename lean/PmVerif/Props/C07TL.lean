/-
Props/C07TL.lean — C07 ("each occurrence of each pattern is reported EXACTLY ONCE") for strings
and matrices for EVERY log the replay of the Rust loop accepts: `buildTL` = the lenient builder
(no `make_det` guard, exactly the code path) with the discipline of the loop (c1T, c1C, c4T).
The guard c1D of the strict replay `buildTD` ("no child of an emitted state is already
deterministic", which fails on ≈ 1 real build in 3000, `TBL.Ex`) is NOT needed: no per-log check,
no per-build check, no flagged builds are left for C07 in the string and matrix domains.

WHY c1D WAS NEEDED, AND WHY IT IS NOT.  The structural invariant `C07.XB` (Proofs/C07XDefs.lean)
says that two transitions of a state towards different targets are syntactically exclusive
(`C07.Excl`: their constraints are in the mutual-exclusion relation, OR the state is deterministic
and exactly one of them is the fallback transition) or accept nothing in common below.
`fuseGroup` at `s` clones the transitions of the absorbed children of `s` onto a fresh
NON-deterministic state, and `make_det(s)` copies the transitions of the fallback state onto the
constraint children; both lose the second disjunct of `Excl` at a deterministic child.  But that
disjunct only ever applies to a state that HAS a fallback transition: for a state without one the
deterministic and the non-deterministic reading coincide (`C07TL.excl_mx_of_detEF`).  So the fuse
step only needs "every DETERMINISTIC absorbed child is free of fallback transitions"
(`C07TL.xb_fused_L`), and `make_det(s)` only needs guard E (`TBL.EOK`) for the constraint children
and the same for the fallback state (`C07TL.xb_round_L`, `C07TL.xb_makeDetE`).  Both follow from
the emission-time condition c1G = "no child of `s` is deterministic OR no child of `s` has a
fallback transition" (`GE.LocalOK`, preserved by the sub-steps of the iteration), and guard E's
invariant (`Props/GuardE.lean`: at every emission of EVERY `charTree` log of `buildTL` no child of
the emitted state has a fallback transition, `GE.buildTL_imp_buildTLC_charTree`) provides c1G.

STATEMENTS.
* `c07_buildTL_xinv` — every `charTree` build of `buildTL` (any key order, any indexing scheme,
  pairwise different ids) satisfies the structural unambiguity invariant `C07.XInv` for `charMx`.
* `c07_buildTL_xinv_of_c1G` — the same for ANY flat faithful decomposition (`C07.FlatTreeHyp`,
  `TreeOK`) and any `buildTL` log that passes the decidable check `GE.c1G_ok` (generic domain).
* `c07_string_TL`, `c07_matrix_TL` — for every pattern list, every log `buildTL` accepts, every
  host: the list reported by the traversal is `Nodup` and counts each occurrence exactly once.
* `c07_string_nodup_TL`, `c07_string_holds_TL` (= `c07_string_target_TL`), `c07_matrix_nodup_TL`,
  `c07_matrix_holds_TL` (= `c07_matrix_target_TL`) — the packaged forms (`strFindMatchesTL`,
  `matFindMatchesTL` = the `ManyMatcher` replayed with `buildTL`), statement shapes of
  `c07_string_target_TD` / `c07_matrix_target_TD`.
* `buildTD_imp_buildTL`, `strFindMatchesTD_imp_TL`, `matFindMatchesTD_imp_TL` — the strict replay
  is a restriction of the Rust loop's replay, so these theorems subsume `c07_*_TD`.
* Non-vacuity: `c07_TL_example_str`, `c07_TL_example_mat` — the log `TBL.Ex` (a log of the Rust
  loop OUTSIDE `buildTD` and outside the `make_det` guard: `TBL.Ex.strict_build_rejects`) and its
  matrix transliteration `TBL.ExM`; `c07_TL_example_check` — the built automaton passes the
  independent executable check `strUnambOK` (validated before proving).
Proofs: `Proofs/C07TLFuse.lean`, `Proofs/C07TLDet.lean`, `Proofs/C07TLMain.lean` (namespace
`Pm.C07TL`); everything else is reused from `Proofs/C07*.lean`, `Proofs/GuardE*.lean`.
-/
import PmVerif.Proofs.C07TLMain
import PmVerif.Props.C07Str
import PmVerif.Props.C07Mat
import PmVerif.Props.C01TL
import PmVerif.Model.ManyTL
namespace Pm
open Automaton

/-! ### the structural invariant for every build of the Rust loop's replay -/

/-- **Every `charTree` build of the Rust loop's replay is structurally unambiguous** (no c1D, no
per-log check): any key order `lt`, any indexing scheme `req`, inputs with pairwise different ids,
EVERY log `buildTL` accepts. -/
theorem c07_buildTL_xinv {K : Type} [DecidableEq K] (lt : K → K → Bool) (req : K → List K)
    (fuel : Nat) (inputs : List (Nat × List (Constraint K CharPred) × List K)) (evs : List Ev)
    (A : Automaton K CharPred) (hnd : (inputs.map (·.1)).Nodup)
    (h : buildTL (charTree lt) req fuel inputs evs = .ok A) :
    C07.XInv (fun k1 k2 => C07.charMx k1 k2 = true) A := by
  obtain ⟨X, hN⟩ := C07TL.buildTL_xb_charTree lt hnd h
  exact X.xinv hN

/-- The same for ANY flat faithful decomposition and any domain, for a log of the Rust loop's
replay that passes the decidable emission-time check c1G (`GE.c1G_ok`: at every emission, no child
of the emitted state is deterministic or no child of it has a fallback transition — weaker than
c1D, `GE.c1D_imp_c1G`). -/
theorem c07_buildTL_xinv_of_c1G {K P : Type} [DecidableEq K] [DecidableEq P]
    {Mx : Constraint K P → Constraint K P → Prop}
    {toTree : List (Constraint K P) → Option (CTree (Constraint K P))}
    (hirr : ∀ k, ¬ Mx k k) (hT : C07.FlatTreeHyp Mx toTree) (hTok : TreeOK toTree (fun _ => true))
    (req : K → List K) (fuel : Nat) (patterns : List (Nat × List (Constraint K P) × List K))
    (evs : List Ev) (A : Automaton K P) (hnd : (patterns.map (·.1)).Nodup)
    (h : buildTL toTree req fuel patterns evs = .ok A)
    (hc : GE.c1G_ok toTree req fuel patterns evs = true) : C07.XInv Mx A := by
  obtain ⟨X, hN⟩ := C07TL.buildTL_xb_of_c1G hirr hT hTok hnd h hc
  exact X.xinv hN

/-! ### C07 for strings -/

/-- **C07, strings, the Rust loop's replay, every accepted log, every host**: the reported list
has no duplicate and counts every occurrence of every pattern exactly once. -/
theorem c07_string_TL (ps : List (List CharVar)) (evs : List Ev) (fuel fuel' : Nat)
    (inputs : List (Nat × List StrCons × List Nat)) (A : Automaton Nat CharPred) (h : List Nat)
    (ms : List (Match StrPos)) (seen : List (Nat × List (Option Nat)))
    (hi : TBL.strInputs ps = some inputs)
    (hb : buildTL (charTree natLt) strReq fuel inputs evs = .ok A)
    (hr : run strDomain A h fuel' = .ok (ms, seen)) :
    ms.Nodup ∧ ∀ i p, ps[i]? = some p →
      (p = [] → ms.count (i, StrPos.unbound) = 1) ∧
      (p ≠ [] → ∀ a, ms.count (i, StrPos.bound a p.length) = if occursStr p h a then 1 else 0) := by
  have hnd := (C07.manyInputs_ids _ _ _ ps 0 inputs hi).1
  have X := c07_buildTL_xinv natLt strReq fuel inputs evs A hnd hb
  have ok : OrdersOK A :=
    TBL.buildL_ordersOK _ _ _ _ _ A (fun _ => true) (c03_treeOK_char natLt _)
      (C08.buildTL_imp_buildL hb)
  have hndp : ms.Nodup :=
    c07_string_nodup_of_unamb A ps h fuel' ms seen (TBL.strTL_stateOK ps evs fuel inputs A hi hb)
      (fun a => c07_unamb_of_xinv A ok X h a) X.nodup hr
  exact ⟨hndp, c07_counts_of_nodup ps h ms hndp
    (c01_c02_string_TL ps evs fuel fuel' inputs A h ms seen hi hb hr)⟩


/-- `strFindMatches` with the Rust loop's replay. -/
def strFindMatchesTL (ps : List (List CharVar)) (evs : List Ev) (h : List Nat) (fuel : Nat) :
    R (List (Match StrPos)) :=
  match manyBuildTL (fun p => some (strConstraints p)) (fun _ => []) (charTree natLt) strReq fuel
      true ps evs with
  | none => .error (.panic "unreachable: string patterns always convert")
  | some (.error e) => .error e
  | some (.ok m) => m.findMatches strDomain h fuel

/-- C07, strings, for the Rust loop's replay: … exactly once. -/
def c07_string_target_TL : Prop :=
  ∀ (ps : List (List CharVar)) (evs : List Ev) (h : List Nat) (fuel : Nat) ms,
    strFindMatchesTL ps evs h fuel = .ok ms → ∀ i p, ps[i]? = some p →
      (p = [] → ms.count (i, StrPos.unbound) = 1) ∧
      (p ≠ [] → ∀ a, ms.count (i, StrPos.bound a p.length) = if occursStr p h a then 1 else 0)

/-- Unfolding of the packaged string matcher. -/
theorem c07_strFindMatchesTL_inv {ps : List (List CharVar)} {evs : List Ev} {h : List Nat}
    {fuel : Nat} {ms : List (Match StrPos)} (hf : strFindMatchesTL ps evs h fuel = .ok ms) :
    ∃ inputs A seen, TBL.strInputs ps = some inputs ∧
      buildTL (charTree natLt) strReq fuel inputs evs = .ok A ∧
      run strDomain A h fuel = .ok (ms, seen) := by
  unfold strFindMatchesTL manyBuildTL at hf
  cases hi : manyInputs (fun p => some (strConstraints p)) (fun _ => ([] : List Nat)) true ps 0 with
  | none => simp [hi] at hf
  | some inputs =>
    simp only [hi] at hf
    cases hbb : Automaton.buildTL (charTree natLt) strReq fuel inputs evs with
    | error e => simp [hbb] at hf
    | ok A =>
      simp only [hbb] at hf
      unfold Many.findMatches at hf
      cases hrun : run strDomain A h fuel with
      | error e => rw [hrun] at hf; cases hf
      | ok r =>
        obtain ⟨ms', seen⟩ := r
        rw [hrun] at hf
        cases hf
        exact ⟨inputs, A, seen, hi, hbb, hrun⟩

/-- **C07, strings: no match is reported twice** by the matcher built by the Rust loop's replay,
whatever the heuristic answers, hash orders (accepted event log) and host. -/
theorem c07_string_nodup_TL (ps : List (List CharVar)) (evs : List Ev) (h : List Nat) (fuel : Nat)
    (ms : List (Match StrPos)) (hr : strFindMatchesTL ps evs h fuel = .ok ms) : ms.Nodup := by
  obtain ⟨inputs, A, seen, hi, hb, hrun⟩ := c07_strFindMatchesTL_inv hr
  exact (c07_string_TL ps evs fuel fuel inputs A h ms seen hi hb hrun).1

/-- **C07, strings** (`c07_string_target_TL`) is a theorem: each occurrence of each pattern is
reported exactly once, for every log the Rust loop's replay accepts. -/
theorem c07_string_holds_TL : c07_string_target_TL := by
  intro ps evs h fuel ms hf
  obtain ⟨inputs, A, seen, hi, hb, hrun⟩ := c07_strFindMatchesTL_inv hf
  exact (c07_string_TL ps evs fuel fuel inputs A h ms seen hi hb hrun).2

/-! ### C07 for matrices -/

/-- **C07, matrices, the Rust loop's replay, every accepted log, every (ragged) host**: the
reported list has no duplicate and counts every occurrence of every pattern exactly once. -/
theorem c07_matrix_TL (ps : List MatPattern) (evs : List Ev) (fuel fuel' : Nat)
    (inputs : List (Nat × List MatCons × List MKey)) (A : Automaton MKey CharPred) (h : MatHost)
    (ms : List (Match MatPos)) (seen : List (Nat × List (Option MVal)))
    (hi : TBL.matInputs ps = some inputs)
    (hb : buildTL (charTree mkeyLt) matReq fuel inputs evs = .ok A)
    (hr : run matDomain A h fuel' = .ok (ms, seen)) :
    ms.Nodup ∧ ∀ i p, ps[i]? = some p → ∀ r c,
      ms.count (i, MatPos.bound r c 0 0 (matExtent p).1 (matExtent p).2) =
        if occursMat p h r c then 1 else 0 := by
  have hnd := (C07.manyInputs_ids _ _ _ ps 0 inputs hi).1
  have X := c07_buildTL_xinv mkeyLt matReq fuel inputs evs A hnd hb
  have ok : OrdersOK A :=
    TBL.buildL_ordersOK _ _ _ _ _ A (fun _ => true) (c03_treeOK_char mkeyLt _)
      (C08.buildTL_imp_buildL hb)
  have hndp : ms.Nodup :=
    c07_matrix_nodup_of_unamb A ps h fuel' ms seen (TBL.matTL_stateOK ps evs fuel inputs A hi hb)
      (fun r c => c07_pathUnique_of_xinv A ok X h r c) X.nodup hr
  exact ⟨hndp, fun i p hp r c => c07_counts_of_nodup_mat ps h ms hndp
    (c01_c02_matrix_TL ps evs fuel fuel' inputs A h ms seen hi hb hr) i p hp r c⟩

/-- `matFindMatches` with the Rust loop's replay. -/
def matFindMatchesTL (ps : List MatPattern) (evs : List Ev) (h : MatHost) (fuel : Nat) :
    R (List (Match MatPos)) :=
  match manyBuildTL (fun p => some (matConstraints p)) (fun _ => []) (charTree mkeyLt) matReq fuel
      true ps evs with
  | none => .error (.panic "unreachable: matrix patterns always convert")
  | some (.error e) => .error e
  | some (.ok m) => m.findMatches matDomain h fuel

/-- C07, matrices, for the Rust loop's replay: … exactly once. -/
def c07_matrix_target_TL : Prop :=
  ∀ (ps : List MatPattern) (evs : List Ev) (h : MatHost) (fuel : Nat) ms,
    matFindMatchesTL ps evs h fuel = .ok ms → ∀ i p, ps[i]? = some p → ∀ r c,
      ms.count (i, MatPos.bound r c 0 0 (matExtent p).1 (matExtent p).2) =
        if occursMat p h r c then 1 else 0

/-- Unfolding of the packaged matrix matcher. -/
theorem c07_matFindMatchesTL_inv {ps : List MatPattern} {evs : List Ev} {h : MatHost}
    {fuel : Nat} {ms : List (Match MatPos)} (hf : matFindMatchesTL ps evs h fuel = .ok ms) :
    ∃ inputs A seen, TBL.matInputs ps = some inputs ∧
      buildTL (charTree mkeyLt) matReq fuel inputs evs = .ok A ∧
      run matDomain A h fuel = .ok (ms, seen) := by
  unfold matFindMatchesTL manyBuildTL at hf
  cases hi : manyInputs (fun p => some (matConstraints p)) (fun _ => ([] : List MKey)) true ps 0 with
  | none => simp [hi] at hf
  | some inputs =>
    simp only [hi] at hf
    cases hbb : Automaton.buildTL (charTree mkeyLt) matReq fuel inputs evs with
    | error e => simp [hbb] at hf
    | ok A =>
      simp only [hbb] at hf
      unfold Many.findMatches at hf
      cases hrun : run matDomain A h fuel with
      | error e => rw [hrun] at hf; cases hf
      | ok r =>
        obtain ⟨ms', seen⟩ := r
        rw [hrun] at hf
        cases hf
        exact ⟨inputs, A, seen, hi, hbb, hrun⟩

/-- **C07, matrices: no match is reported twice** by the matcher built by the Rust loop's replay,
whatever the heuristic answers, hash orders (accepted event log) and host. -/
theorem c07_matrix_nodup_TL (ps : List MatPattern) (evs : List Ev) (h : MatHost) (fuel : Nat)
    (ms : List (Match MatPos)) (hr : matFindMatchesTL ps evs h fuel = .ok ms) : ms.Nodup := by
  obtain ⟨inputs, A, seen, hi, hb, hrun⟩ := c07_matFindMatchesTL_inv hr
  exact (c07_matrix_TL ps evs fuel fuel inputs A h ms seen hi hb hrun).1

/-- **C07, matrices** (`c07_matrix_target_TL`) is a theorem: each occurrence of each pattern is
reported exactly once, for every log the Rust loop's replay accepts. -/
theorem c07_matrix_holds_TL : c07_matrix_target_TL := by
  intro ps evs h fuel ms hf
  obtain ⟨inputs, A, seen, hi, hb, hrun⟩ := c07_matFindMatchesTL_inv hf
  exact (c07_matrix_TL ps evs fuel fuel inputs A h ms seen hi hb hrun).2

/-! ### the strict replay is a restriction: these theorems subsume `c07_*_TD` -/

/-- Whenever the strict build (c1D, `make_det` guard) succeeds, the Rust loop's replay returns the
same automaton. -/
theorem buildTD_imp_buildTL {K P : Type} [DecidableEq K] [DecidableEq P]
    (toTree : List (Constraint K P) → Option (CTree (Constraint K P))) (req : K → List K)
    (fuel : Nat) (patterns : List (Nat × List (Constraint K P) × List K)) (evs : List Ev)
    (A : Automaton K P) (h : Automaton.buildTD toTree req fuel patterns evs = .ok A) :
    Automaton.buildTL toTree req fuel patterns evs = .ok A :=
  TBL.buildTG_imp_buildTL toTree req fuel patterns evs A
    (TBL.buildT_imp_buildTG toTree req fuel patterns evs A (C07.buildTD_imp_buildT h))

theorem manyBuildTD_imp_TL {K P Pat : Type} [DecidableEq K] [DecidableEq P]
    (convert : Pat → Option (List (Constraint K P))) (extra : Pat → List K)
    (toTree : List (Constraint K P) → Option (CTree (Constraint K P))) (req : K → List K)
    (fuel : Nat) (ff : Bool) (pats : List Pat) (evs : List Ev) (M : Many K P)
    (h : manyBuildTD convert extra toTree req fuel ff pats evs = some (.ok M)) :
    manyBuildTL convert extra toTree req fuel ff pats evs = some (.ok M) := by
  unfold manyBuildTD at h
  unfold manyBuildTL
  cases hi : manyInputs convert extra ff pats 0 with
  | none => simp [hi] at h
  | some inputs =>
    simp only [hi] at h ⊢
    cases hbb : Automaton.buildTD toTree req fuel inputs evs with
    | error e => simp [hbb] at h
    | ok A =>
      simp only [hbb] at h
      rw [buildTD_imp_buildTL toTree req fuel inputs evs A hbb]
      exact h

theorem strFindMatchesTD_imp_TL (ps : List (List CharVar)) (evs : List Ev) (h : List Nat)
    (fuel : Nat) (ms : List (Match StrPos)) (hf : strFindMatchesTD ps evs h fuel = .ok ms) :
    strFindMatchesTL ps evs h fuel = .ok ms := by
  obtain ⟨M, hb, hfm⟩ := c07_strFindMatchesTD_inv hf
  unfold strFindMatchesTL
  rw [manyBuildTD_imp_TL _ _ _ _ _ _ _ _ M hb]
  exact hfm

theorem matFindMatchesTD_imp_TL (ps : List MatPattern) (evs : List Ev) (h : MatHost)
    (fuel : Nat) (ms : List (Match MatPos)) (hf : matFindMatchesTD ps evs h fuel = .ok ms) :
    matFindMatchesTL ps evs h fuel = .ok ms := by
  obtain ⟨M, hb, hfm⟩ := c07_matFindMatchesTD_inv hf
  unfold matFindMatchesTL
  rw [manyBuildTD_imp_TL _ _ _ _ _ _ _ _ M hb]
  exact hfm

/-! ### Non-vacuity: a log of the Rust loop OUTSIDE the strict replay -/

/-- The host `abaabbbab`. -/
def C07TL.exHost : List Nat := [97, 98, 97, 97, 98, 98, 98, 97, 98]

set_option maxRecDepth 100000 in
/-- The log `TBL.Ex` (patterns `$y`, `$yb$x$yb`, `b`, `ab`, `$y$y$ya$x`, `$yb$xbb`; state 15 is
emitted with the DETERMINISTIC children 3 and 13 and determinised with 13 as a constraint child)
is rejected by the strict replay (c1D) and accepted by the Rust loop's replay, which reports 19
matches on `abaabbbab`. -/
theorem c07_TL_example_str :
    strFindMatchesTD TBL.Ex.pats TBL.Ex.evs C07TL.exHost 200 =
      .error (.guard "c1D: a child of the emitted state is already deterministic") ∧
    strFindMatchesTL TBL.Ex.pats TBL.Ex.evs C07TL.exHost 200 =
      .ok [(2, .bound 1 1), (2, .bound 4 1), (2, .bound 5 1), (2, .bound 6 1), (2, .bound 8 1),
        (0, .bound 0 1), (0, .bound 1 1), (0, .bound 2 1), (0, .bound 3 1), (0, .bound 4 1),
        (0, .bound 5 1), (0, .bound 6 1), (0, .bound 7 1), (0, .bound 8 1),
        (3, .bound 0 2), (3, .bound 3 2), (3, .bound 7 2), (1, .bound 0 5), (4, .bound 4 5)] :=
  ⟨by rfl, by rfl⟩

/-- `c07_string_nodup_TL` / `c07_string_holds_TL` applied to that run: no duplicates, and pattern
1 (`$yb$x$yb`) is counted once at anchor 0, where it occurs, and zero times at anchor 1. -/
example :
    ∃ ms, strFindMatchesTL TBL.Ex.pats TBL.Ex.evs C07TL.exHost 200 = .ok ms ∧ ms.Nodup ∧
      ms.count (1, .bound 0 5) = 1 ∧ ms.count (1, .bound 1 5) = 0 := by
  refine ⟨_, c07_TL_example_str.2, c07_string_nodup_TL _ _ _ _ _ c07_TL_example_str.2, ?_, ?_⟩
  · exact ((c07_string_holds_TL _ _ _ _ _ c07_TL_example_str.2 1
      [.var 1, .lit 98, .var 0, .var 1, .lit 98] (by decide)).2 (by decide) 0).trans (by decide)
  · exact ((c07_string_holds_TL _ _ _ _ _ c07_TL_example_str.2 1
      [.var 1, .lit 98, .var 0, .var 1, .lit 98] (by decide)).2 (by decide) 1).trans (by decide)

set_option maxRecDepth 100000 in
/-- The automaton built from `TBL.Ex` passes the independent executable check of the structural
invariant (`strUnambOK`, Props/C07Str.lean) — the validation of the weakened fuse hypothesis that
was run BEFORE proving it; its child 3 of the emitted state 15 IS deterministic (c1D fails). -/
theorem c07_TL_example_check :
    ∃ A, buildTL (charTree natLt) strReq 100 TBL.Ex.inputs TBL.Ex.evs = .ok A ∧
      strUnambOK A = true :=
  ⟨_, rfl, by rfl⟩

set_option maxRecDepth 100000 in
/-- The matrix transliteration `TBL.ExM` of the same log on the ragged host `cbabb / ab`: rejected
by the strict replay, 14 matches by the Rust loop's replay. -/
theorem c07_TL_example_mat :
    matFindMatchesTD TBL.ExM.pats TBL.Ex.evs [[99, 98, 97, 98, 98], [97, 98]] 1000 =
      .error (.guard "c1D: a child of the emitted state is already deterministic") ∧
    matFindMatchesTL TBL.ExM.pats TBL.Ex.evs [[99, 98, 97, 98, 98], [97, 98]] 1000 =
      .ok [(2, .bound 0 1 0 0 0 0), (2, .bound 0 3 0 0 0 0), (2, .bound 0 4 0 0 0 0),
          (2, .bound 1 1 0 0 0 0), (0, .bound 0 0 0 0 0 0), (0, .bound 0 1 0 0 0 0),
          (0, .bound 0 2 0 0 0 0), (0, .bound 0 3 0 0 0 0), (0, .bound 0 4 0 0 0 0),
          (0, .bound 1 0 0 0 0 0), (0, .bound 1 1 0 0 0 0), (3, .bound 0 2 0 0 0 1),
          (3, .bound 1 0 0 0 0 1), (5, .bound 0 0 0 0 0 4)] :=
  ⟨by rfl, by rfl⟩

/-- `c07_matrix_nodup_TL` applied to that run. -/
example :
    ∃ ms, matFindMatchesTL TBL.ExM.pats TBL.Ex.evs [[99, 98, 97, 98, 98], [97, 98]] 1000 = .ok ms ∧
      ms.Nodup :=
  ⟨_, c07_TL_example_mat.2, c07_matrix_nodup_TL _ _ _ _ _ c07_TL_example_mat.2⟩

end Pm

section AxiomAudit
open Pm
#print axioms c07_buildTL_xinv
#print axioms c07_buildTL_xinv_of_c1G
#print axioms c07_string_TL
#print axioms c07_string_nodup_TL
#print axioms c07_string_holds_TL
#print axioms c07_matrix_TL
#print axioms c07_matrix_nodup_TL
#print axioms c07_matrix_holds_TL
#print axioms strFindMatchesTD_imp_TL
#print axioms matFindMatchesTD_imp_TL
#print axioms c07_TL_example_str
#print axioms c07_TL_example_check
#print axioms c07_TL_example_mat
end AxiomAudit
