/-
Props/TBuildLCore.lean — T-BUILD for the lenient build, generic statements (any domain) and the
non-vacuity example `TBL.Ex`.  See `Props/TBuildL.lean` for the overview.
-/
import PmVerif.Proofs.TBuildLMain
import PmVerif.Proofs.TBuildLND
import PmVerif.Proofs.TBuildLCheck
import PmVerif.Model.ManyMatcher
namespace Pm
namespace TBL
open Automaton
variable {K P : Type} [DecidableEq K] [DecidableEq P]

/-- Non-deterministic reading for `buildTG`. -/
theorem buildTG_accND
    (toTree : List (Constraint K P) → Option (CTree (Constraint K P))) (req : K → List K)
    (fuel : Nat) (patterns : List (Nat × List (Constraint K P) × List K)) (evs : List Ev)
    (A : Automaton K P) (σ : Constraint K P → Bool) (hT : TreeOK toTree σ)
    (h : buildTG toTree req fuel patterns evs = .ok A) (pid : Nat) :
    AccND σ A A.root pid ↔
      ∃ cs extra, (pid, cs, extra) ∈ patterns ∧ ∀ c ∈ cs, σ c = true := by
  unfold buildTG at h
  split at h
  · cases h
  · rename_i a1 h1
    exact (buildWith_sem (stepLemmas hT) (detKeeps_makeDetE σ) h1 h).2.2.2 pid

theorem buildTG_ordersOK
    (toTree : List (Constraint K P) → Option (CTree (Constraint K P))) (req : K → List K)
    (fuel : Nat) (patterns : List (Nat × List (Constraint K P) × List K)) (evs : List Ev)
    (A : Automaton K P) (σ : Constraint K P → Bool) (hT : TreeOK toTree σ)
    (h : buildTG toTree req fuel patterns evs = .ok A) : OrdersOK A := by
  unfold buildTG at h
  split at h
  · cases h
  · rename_i a1 h1
    exact (buildWith_sem (stepLemmas hT) (detKeeps_makeDetE σ) h1 h).1.ok

/-- The determinisation invariant holds of the automaton built under guard E. -/
theorem buildTG_detOK
    (toTree : List (Constraint K P) → Option (CTree (Constraint K P))) (req : K → List K)
    (fuel : Nat) (patterns : List (Nat × List (Constraint K P) × List K)) (evs : List Ev)
    (A : Automaton K P) (σ : Constraint K P → Bool) (hT : TreeOK toTree σ)
    (h : buildTG toTree req fuel patterns evs = .ok A) : DetOK σ A := by
  unfold buildTG at h
  split at h
  · cases h
  · rename_i a1 h1
    exact (buildWith_sem (stepLemmas hT) (detKeeps_makeDetE σ) h1 h).2.1

theorem buildTG_acyclic
    (toTree : List (Constraint K P) → Option (CTree (Constraint K P))) (req : K → List K)
    (fuel : Nat) (patterns : List (Nat × List (Constraint K P) × List K)) (evs : List Ev)
    (A : Automaton K P) (σ : Constraint K P → Bool) (hT : TreeOK toTree σ)
    (h : buildTG toTree req fuel patterns evs = .ok A) :
    ∃ rank : Nat → Nat, ∀ t e, A.g.edge? t = some e → rank e.dst < rank e.src := by
  unfold buildTG at h
  split at h
  · cases h
  · rename_i a1 h1
    exact (buildWith_sem (stepLemmas hT) (detKeeps_makeDetE σ) h1 h).2.2.1

/-- **T-BUILD under guard E**: acceptance from the root of the automaton built by the disciplined
replay with guard E, in the reading the traversal implements, is exactly "some pattern with that
id has all its constraints true". -/
theorem buildTG_acc
    (toTree : List (Constraint K P) → Option (CTree (Constraint K P))) (req : K → List K)
    (fuel : Nat) (patterns : List (Nat × List (Constraint K P) × List K)) (evs : List Ev)
    (A : Automaton K P) (σ : Constraint K P → Bool) (hT : TreeOK toTree σ)
    (h : buildTG toTree req fuel patterns evs = .ok A) (pid : Nat) :
    AccDet σ A A.root pid ↔
      ∃ cs extra, (pid, cs, extra) ∈ patterns ∧ ∀ c ∈ cs, σ c = true := by
  have h' := h
  unfold buildTG at h'
  split at h'
  · cases h'
  · rename_i a1 h1
    obtain ⟨inv, dok, ⟨rank, hr⟩, hl⟩ :=
      buildWith_sem (stepLemmas hT) (detKeeps_makeDetE σ) h1 h'
    rw [accDet_iff_accND inv.ok dok rank hr]
    exact hl pid

/-- The strongly guarded disciplined build is a restriction of `buildTG` … -/
theorem buildT_imp_buildTG
    (toTree : List (Constraint K P) → Option (CTree (Constraint K P))) (req : K → List K)
    (fuel : Nat) (patterns : List (Nat × List (Constraint K P) × List K)) (evs : List Ev)
    (A : Automaton K P) (h : buildT toTree req fuel patterns evs = .ok A) :
    buildTG toTree req fuel patterns evs = .ok A := by
  unfold buildT at h
  unfold buildTG
  split at h
  · cases h
  · rename_i a1 h1
    rw [h1]
    exact finishWith_mono (fun _ _ _ hm => makeDetE_of_makeDet hm) h

/-- … and `buildTG` is a restriction of the lenient disciplined build `buildTL` (the Rust loop). -/
theorem buildTG_imp_buildTL
    (toTree : List (Constraint K P) → Option (CTree (Constraint K P))) (req : K → List K)
    (fuel : Nat) (patterns : List (Nat × List (Constraint K P) × List K)) (evs : List Ev)
    (A : Automaton K P) (h : buildTG toTree req fuel patterns evs = .ok A) :
    buildTL toTree req fuel patterns evs = .ok A := by
  unfold buildTG at h
  unfold buildTL
  split at h
  · cases h
  · rename_i a1 h1
    rw [h1]
    exact finishWith_mono (fun _ _ _ hm => makeDetL_of_makeDetE hm) h

/-- The decidable per-log check: the replay with guard E succeeds. -/
def guardE_ok (toTree : List (Constraint K P) → Option (CTree (Constraint K P))) (req : K → List K)
    (fuel : Nat) (patterns : List (Nat × List (Constraint K P) × List K)) (evs : List Ev) : Bool :=
  match buildTG toTree req fuel patterns evs with
  | .ok _ => true
  | .error _ => false

/-- **T-BUILD for the lenient disciplined replay, partial**: for every log the Rust loop can
produce (`buildTL` succeeds) on which guard E never fires (`guardE_ok`, decidable by replay),
acceptance of the built automaton in the traversal's reading is exactly the specification. -/
theorem buildTL_acc_partial
    (toTree : List (Constraint K P) → Option (CTree (Constraint K P))) (req : K → List K)
    (fuel : Nat) (patterns : List (Nat × List (Constraint K P) × List K)) (evs : List Ev)
    (A : Automaton K P) (σ : Constraint K P → Bool) (hT : TreeOK toTree σ)
    (h : buildTL toTree req fuel patterns evs = .ok A)
    (hg : guardE_ok toTree req fuel patterns evs = true) (pid : Nat) :
    AccDet σ A A.root pid ↔
      ∃ cs extra, (pid, cs, extra) ∈ patterns ∧ ∀ c ∈ cs, σ c = true := by
  unfold guardE_ok at hg
  cases hb : buildTG toTree req fuel patterns evs with
  | error e => rw [hb] at hg; cases hg
  | ok A' =>
    have h2 := buildTG_imp_buildTL toTree req fuel patterns evs A' hb
    rw [h] at h2
    cases h2
    exact buildTG_acc toTree req fuel patterns evs A σ hT hb pid

/-! ### the unconditional half: every lenient build, every log -/

/-- ND reading of EVERY successful lenient build (the Rust code path; any log). -/
theorem buildL_accND
    (toTree : List (Constraint K P) → Option (CTree (Constraint K P))) (req : K → List K)
    (fuel : Nat) (patterns : List (Nat × List (Constraint K P) × List K)) (evs : List Ev)
    (A : Automaton K P) (σ : Constraint K P → Bool) (hT : TreeOK toTree σ)
    (h : buildL toTree req fuel patterns evs = .ok A) (pid : Nat) :
    AccND σ A A.root pid ↔
      ∃ cs extra, (pid, cs, extra) ∈ patterns ∧ ∀ c ∈ cs, σ c = true :=
  (buildL_sem0 (stepLemmas hT) h).2.2 pid

theorem buildL_ordersOK
    (toTree : List (Constraint K P) → Option (CTree (Constraint K P))) (req : K → List K)
    (fuel : Nat) (patterns : List (Nat × List (Constraint K P) × List K)) (evs : List Ev)
    (A : Automaton K P) (σ : Constraint K P → Bool) (hT : TreeOK toTree σ)
    (h : buildL toTree req fuel patterns evs = .ok A) : OrdersOK A :=
  (buildL_sem0 (stepLemmas hT) h).1.ok

theorem buildL_acyclic
    (toTree : List (Constraint K P) → Option (CTree (Constraint K P))) (req : K → List K)
    (fuel : Nat) (patterns : List (Nat × List (Constraint K P) × List K)) (evs : List Ev)
    (A : Automaton K P) (σ : Constraint K P → Bool) (hT : TreeOK toTree σ)
    (h : buildL toTree req fuel patterns evs = .ok A) :
    ∃ rank : Nat → Nat, ∀ t e, A.g.edge? t = some e → rank e.dst < rank e.src :=
  (buildL_sem0 (stepLemmas hT) h).2.1

/-- **No false positive, unconditionally**: whatever the log, an id accepted by the traversal
reading of a leniently built automaton belongs to a pattern all of whose constraints hold. -/
theorem buildL_acc_sound
    (toTree : List (Constraint K P) → Option (CTree (Constraint K P))) (req : K → List K)
    (fuel : Nat) (patterns : List (Nat × List (Constraint K P) × List K)) (evs : List Ev)
    (A : Automaton K P) (σ : Constraint K P → Bool) (hT : TreeOK toTree σ)
    (h : buildL toTree req fuel patterns evs = .ok A) (pid : Nat)
    (hacc : AccDet σ A A.root pid) :
    ∃ cs extra, (pid, cs, extra) ∈ patterns ∧ ∀ c ∈ cs, σ c = true := by
  obtain ⟨inv, _, hl⟩ := buildL_sem0 (stepLemmas hT) h
  exact (hl pid).1 (AccDet.accND inv.ok hacc)

/-- **T-BUILD for the lenient build reduces to `DetOK` of the final automaton.** -/
theorem buildL_acc_of_detOK
    (toTree : List (Constraint K P) → Option (CTree (Constraint K P))) (req : K → List K)
    (fuel : Nat) (patterns : List (Nat × List (Constraint K P) × List K)) (evs : List Ev)
    (A : Automaton K P) (σ : Constraint K P → Bool) (hT : TreeOK toTree σ)
    (h : buildL toTree req fuel patterns evs = .ok A) (dok : DetOK σ A) (pid : Nat) :
    AccDet σ A A.root pid ↔
      ∃ cs extra, (pid, cs, extra) ∈ patterns ∧ ∀ c ∈ cs, σ c = true := by
  obtain ⟨inv, ⟨rank, hr⟩, hl⟩ := buildL_sem0 (stepLemmas hT) h
  rw [accDet_iff_accND inv.ok dok rank hr]
  exact hl pid

/-- The per-build acceptance check: the syntactic `DetOK` check of `Proofs/TBuildLCheck.lean`
(host independent, independent of `σ`, no hypothesis on the log). -/
def accOK (A : Automaton K P) : Bool := detOKc A

/-- **T-BUILD per build**: every leniently built automaton (any log) that passes `accOK` accepts,
in the traversal's reading and under EVERY truth assignment for which the decompositions are
faithful, exactly the ids of the patterns whose constraints all hold. -/
theorem buildL_acc_checked
    (toTree : List (Constraint K P) → Option (CTree (Constraint K P))) (req : K → List K)
    (fuel : Nat) (patterns : List (Nat × List (Constraint K P) × List K)) (evs : List Ev)
    (A : Automaton K P) (h : buildL toTree req fuel patterns evs = .ok A)
    (hc : accOK A = true) (σ : Constraint K P → Bool) (hT : TreeOK toTree σ) (pid : Nat) :
    AccDet σ A A.root pid ↔
      ∃ cs extra, (pid, cs, extra) ∈ patterns ∧ ∀ c ∈ cs, σ c = true :=
  buildL_acc_of_detOK toTree req fuel patterns evs A σ hT h (detOKc_sound hc σ) pid

/-! ### the same for the disciplined lenient replay `buildTL` (what the driver replays) -/

theorem buildTL_accND
    (toTree : List (Constraint K P) → Option (CTree (Constraint K P))) (req : K → List K)
    (fuel : Nat) (patterns : List (Nat × List (Constraint K P) × List K)) (evs : List Ev)
    (A : Automaton K P) (σ : Constraint K P → Bool) (hT : TreeOK toTree σ)
    (h : buildTL toTree req fuel patterns evs = .ok A) (pid : Nat) :
    AccND σ A A.root pid ↔
      ∃ cs extra, (pid, cs, extra) ∈ patterns ∧ ∀ c ∈ cs, σ c = true :=
  buildL_accND toTree req fuel patterns evs A σ hT (C08.buildTL_imp_buildL h) pid

/-- No false positive for any build of the Rust loop. -/
theorem buildTL_acc_sound
    (toTree : List (Constraint K P) → Option (CTree (Constraint K P))) (req : K → List K)
    (fuel : Nat) (patterns : List (Nat × List (Constraint K P) × List K)) (evs : List Ev)
    (A : Automaton K P) (σ : Constraint K P → Bool) (hT : TreeOK toTree σ)
    (h : buildTL toTree req fuel patterns evs = .ok A) (pid : Nat)
    (hacc : AccDet σ A A.root pid) :
    ∃ cs extra, (pid, cs, extra) ∈ patterns ∧ ∀ c ∈ cs, σ c = true :=
  buildL_acc_sound toTree req fuel patterns evs A σ hT (C08.buildTL_imp_buildL h) pid hacc

theorem buildTL_acc_of_detOK
    (toTree : List (Constraint K P) → Option (CTree (Constraint K P))) (req : K → List K)
    (fuel : Nat) (patterns : List (Nat × List (Constraint K P) × List K)) (evs : List Ev)
    (A : Automaton K P) (σ : Constraint K P → Bool) (hT : TreeOK toTree σ)
    (h : buildTL toTree req fuel patterns evs = .ok A) (dok : DetOK σ A) (pid : Nat) :
    AccDet σ A A.root pid ↔
      ∃ cs extra, (pid, cs, extra) ∈ patterns ∧ ∀ c ∈ cs, σ c = true :=
  buildL_acc_of_detOK toTree req fuel patterns evs A σ hT (C08.buildTL_imp_buildL h) dok pid

/-- **T-BUILD per build for the Rust loop**: `buildTL … = .ok A` and `accOK A = true` give
acceptance-correctness of `A` for every faithful `σ`. -/
theorem buildTL_acc_checked
    (toTree : List (Constraint K P) → Option (CTree (Constraint K P))) (req : K → List K)
    (fuel : Nat) (patterns : List (Nat × List (Constraint K P) × List K)) (evs : List Ev)
    (A : Automaton K P) (h : buildTL toTree req fuel patterns evs = .ok A)
    (hc : accOK A = true) (σ : Constraint K P → Bool) (hT : TreeOK toTree σ) (pid : Nat) :
    AccDet σ A A.root pid ↔
      ∃ cs extra, (pid, cs, extra) ∈ patterns ∧ ∀ c ∈ cs, σ c = true :=
  buildL_acc_checked toTree req fuel patterns evs A (C08.buildTL_imp_buildL h) hc σ hT pid

end TBL

/-! ### non-vacuity: a disciplined log outside the `make_det` guard that passes both checks -/

namespace TBL.Ex
open Automaton

/-- `$y`, `$yb$x$yb`, `b`, `ab`, `$y$y$ya$x`, `$yb$xbb` (`a` = 97, `b` = 98; variable `$x` = 0,
`$y` = 1). -/
def pats : List (List CharVar) :=
  [[.var 1], [.var 1, .lit 98, .var 0, .var 1, .lit 98], [.lit 98], [.lit 97, .lit 98],
   [.var 1, .var 1, .var 1, .lit 97, .var 0], [.var 1, .lit 98, .var 0, .lit 98, .lit 98]]

def inputs : List (Nat × List StrCons × List Nat) :=
  (manyInputs (K := Nat) (P := CharPred) (fun p => some (strConstraints p))
    (fun _ => ([] : List Nat)) true pats 0).getD []

/-- A disciplined log found by the search.  State 16 is emitted, then removed by
`.merge 19 [19, 16]` (iteration of 18); in the iteration of 20 the fresh fallback state reuses the
id 16 — the toposort will never emit it — and `.merge 16 [16, 15]` makes it a child of the
unemitted state 6; its children 13 and 3 are emitted and determinised; the fuse at 6 clones its
transitions into the fresh state 15, which is emitted with the deterministic children 3 and 13
(c1D) and determinised with 13 as a constraint child (the `make_det` guard): `split_target`
gives 15 the deterministic copy 21 of 13, onto which the fallback transition `eq[3,0] → 3` of 15
is copied.  13 has no fallback transition, so nothing can be shadowed at 21 (guard E). -/
def evs : List Ev :=
  [.topo 0, .group 0 [1, 11], .detAsk 0, .detYes 0, .iterEnd 0, .topo 12, .iterEnd 12,
   .topo 2, .detAsk 2, .detYes 2, .iterEnd 2, .topo 5, .iterEnd 5, .topo 16, .iterEnd 16,
   .topo 18, .detAsk 18, .detYes 18, .merge 20 [20, 17], .merge 19 [19, 16], .iterEnd 18,
   .topo 20, .merge 16 [16, 15], .iterEnd 20, .topo 13, .detAsk 13, .detYes 13, .iterEnd 13,
   .topo 3, .detAsk 3, .detYes 3, .iterEnd 3, .topo 4, .iterEnd 4,
   .topo 6, .group 6 [6, 19], .iterEnd 6, .topo 19, .iterEnd 19, .topo 1, .iterEnd 1,
   .topo 7, .detAsk 7, .merge 17 [19, 17], .iterEnd 7, .topo 15, .detAsk 15, .detYes 15,
   .iterEnd 15, .topo 8, .iterEnd 8, .topo 21, .iterEnd 21, .topo 17, .iterEnd 17,
   .topo 9, .detAsk 9, .iterEnd 9, .topo 14, .iterEnd 14, .topo 10, .iterEnd 10,
   .topo 11, .iterEnd 11]

set_option maxRecDepth 100000 in
/-- The guarded model rejects the log with the `make_det` guard … -/
theorem guarded_build_rejects :
    build (charTree natLt) strReq 100 inputs evs =
      .error (.guard "make_det: a constraint child is already deterministic") := by rfl

set_option maxRecDepth 100000 in
/-- … and the strict replay with c1D; -/
theorem strict_build_rejects :
    buildTD (charTree natLt) strReq 100 inputs evs =
      .error (.guard "c1D: a child of the emitted state is already deterministic") := by rfl

set_option maxRecDepth 100000 in
/-- … guard E holds on it, so `buildTL_acc_partial` applies, -/
theorem guardE_holds : guardE_ok (charTree natLt) strReq 100 inputs evs = true := by rfl

set_option maxRecDepth 100000 in
/-- … and the lenient disciplined build succeeds with an automaton that passes `accOK`, so
`buildTL_acc_checked` applies as well. -/
theorem lenient_build_checked :
    ∃ A, buildTL (charTree natLt) strReq 100 inputs evs = .ok A ∧ accOK A = true :=
  ⟨_, rfl, by rfl⟩

end TBL.Ex
end Pm
