/-
Props/C01TL.lean — C01 + C02 (hence C03, C04 as sets, C06) for strings and matrices for EVERY
log the replay of the Rust loop accepts: `buildTL` = the lenient builder (no `make_det` guard,
exactly the code path) with the discipline of the loop (c1T, c1C, c4T; validated on every real
log and checked again on every run by the exact replay). No per-program check, no guard on
`make_det`, no per-log check: `GE.guardE_ok_always` (guard E never fires on a `charTree` log)
discharges the hypothesis of `TBL.c01_c02_string_lenient_guardE'` /
`TBL.c01_c02_matrix_lenient_guardE`. These are the strongest end-to-end statements of the
development: every real build observed (100 %) is inside them by replay.
-/
import PmVerif.Props.GuardE
import PmVerif.Props.TBuildLStrT
import PmVerif.Props.TBuildLMat
import PmVerif.Proofs.StrProgCor
import PmVerif.Proofs.MatProgCor
namespace Pm
open Automaton

/-- **Strings, the Rust loop's replay, every accepted log, every host**: the traversal reports
exactly the occurrences. -/
theorem c01_c02_string_TL (ps : List (List CharVar)) (evs : List Ev)
    (fuel fuel' : Nat) (inputs : List (Nat × List StrCons × List Nat))
    (A : Automaton Nat CharPred) (h : List Nat) (ms : List (Match StrPos))
    (seen : List (Nat × List (Option Nat)))
    (hi : TBL.strInputs ps = some inputs)
    (hb : buildTL (charTree natLt) strReq fuel inputs evs = .ok A)
    (hr : run strDomain A h fuel' = .ok (ms, seen)) (i : Nat) (m : StrPos) :
    (i, m) ∈ ms ↔ ∃ p, ps[i]? = some p ∧
      ((p = [] ∧ m = .unbound) ∨
       (p ≠ [] ∧ ∃ a, occursStr p h a = true ∧ m = .bound a p.length)) :=
  TBL.c01_c02_string_lenient_guardE' ps evs fuel fuel' inputs A h ms seen hi hb
    (GE.guardE_ok_always natLt strReq fuel inputs evs A hb).1 hr i m

/-- **Matrices, the Rust loop's replay, every accepted log, every host (ragged included)**. -/
theorem c01_c02_matrix_TL (ps : List MatPattern) (evs : List Ev)
    (fuel fuel' : Nat) (inputs : List (Nat × List MatCons × List MKey))
    (A : Automaton MKey CharPred) (h : MatHost) (ms : List (Match MatPos))
    (seen : List (Nat × List (Option MVal)))
    (hi : TBL.matInputs ps = some inputs)
    (hb : buildTL (charTree mkeyLt) matReq fuel inputs evs = .ok A)
    (hr : run matDomain A h fuel' = .ok (ms, seen)) (i : Nat) (m : MatPos) :
    (i, m) ∈ ms ↔ ∃ p, ps[i]? = some p ∧ ∃ r c, occursMat p h r c = true ∧
      m = .bound r c 0 0 ((matExtent p).1 : Int) ((matExtent p).2 : Int) :=
  TBL.c01_c02_matrix_lenient_guardE ps evs fuel fuel' inputs A h ms seen hi hb
    (GE.guardE_ok_always mkeyLt matReq fuel inputs evs A hb).1 hr i m

/-- **C04 as sets, strings**: two builds of the same patterns under ANY two logs the Rust loop's
replay accepts report the same set of matches on every host. -/
theorem c04_string_TL (ps : List (List CharVar)) (evs evs' : List Ev)
    (fuel fuel' fuel2 fuel2' : Nat) (inputs : List (Nat × List StrCons × List Nat))
    (A A' : Automaton Nat CharPred) (h : List Nat) (ms ms' : List (Match StrPos))
    (seen seen' : List (Nat × List (Option Nat)))
    (hi : TBL.strInputs ps = some inputs)
    (hb : buildTL (charTree natLt) strReq fuel inputs evs = .ok A)
    (hb' : buildTL (charTree natLt) strReq fuel2 inputs evs' = .ok A')
    (hr : run strDomain A h fuel' = .ok (ms, seen))
    (hr' : run strDomain A' h fuel2' = .ok (ms', seen')) (x : Match StrPos) :
    x ∈ ms ↔ x ∈ ms' := by
  obtain ⟨i, m⟩ := x
  rw [c01_c02_string_TL ps evs fuel fuel' inputs A h ms seen hi hb hr,
    c01_c02_string_TL ps evs' fuel2 fuel2' inputs A' h ms' seen' hi hb' hr']

/-- **C04 as sets, matrices**. -/
theorem c04_matrix_TL (ps : List MatPattern) (evs evs' : List Ev)
    (fuel fuel' fuel2 fuel2' : Nat) (inputs : List (Nat × List MatCons × List MKey))
    (A A' : Automaton MKey CharPred) (h : MatHost) (ms ms' : List (Match MatPos))
    (seen seen' : List (Nat × List (Option MVal)))
    (hi : TBL.matInputs ps = some inputs)
    (hb : buildTL (charTree mkeyLt) matReq fuel inputs evs = .ok A)
    (hb' : buildTL (charTree mkeyLt) matReq fuel2 inputs evs' = .ok A')
    (hr : run matDomain A h fuel' = .ok (ms, seen))
    (hr' : run matDomain A' h fuel2' = .ok (ms', seen')) (x : Match MatPos) :
    x ∈ ms ↔ x ∈ ms' := by
  obtain ⟨i, m⟩ := x
  rw [c01_c02_matrix_TL ps evs fuel fuel' inputs A h ms seen hi hb hr,
    c01_c02_matrix_TL ps evs' fuel2 fuel2' inputs A' h ms' seen' hi hb' hr']

/-- **C03, strings**: on every log the Rust loop's replay accepts, the automaton reports the same
set of (id, match data) as the baseline `NaiveManyMatcher`, on every host. -/
theorem c03_string_TL (ps : List (List CharVar)) (evs : List Ev)
    (fuel fuel' fuel'' : Nat) (inputs : List (Nat × List StrCons × List Nat))
    (A : Automaton Nat CharPred) (h : List Nat) (ms ns : List (Match StrPos))
    (seen : List (Nat × List (Option Nat)))
    (hi : TBL.strInputs ps = some inputs)
    (hb : buildTL (charTree natLt) strReq fuel inputs evs = .ok A)
    (hr : run strDomain A h fuel' = .ok (ms, seen))
    (hn : naiveMatches strDomain h fuel'' (ps.map strConstraints) 0 = .ok ns)
    (x : Match StrPos) : x ∈ ms ↔ x ∈ ns := by
  obtain ⟨i, m⟩ := x
  rw [c01_c02_string_TL ps evs fuel fuel' inputs A h ms seen hi hb hr,
    StrProg.mem_naive_string ps h fuel'' ns hn]

/-- **C03, matrices**. -/
theorem c03_matrix_TL (ps : List MatPattern) (evs : List Ev)
    (fuel fuel' fuel'' : Nat) (inputs : List (Nat × List MatCons × List MKey))
    (A : Automaton MKey CharPred) (h : MatHost) (ms ns : List (Match MatPos))
    (seen : List (Nat × List (Option MVal)))
    (hi : TBL.matInputs ps = some inputs)
    (hb : buildTL (charTree mkeyLt) matReq fuel inputs evs = .ok A)
    (hr : run matDomain A h fuel' = .ok (ms, seen))
    (hn : naiveMatches matDomain h fuel'' (ps.map matConstraints) 0 = .ok ns)
    (x : Match MatPos) : x ∈ ms ↔ x ∈ ns := by
  obtain ⟨i, m⟩ := x
  rw [c01_c02_matrix_TL ps evs fuel fuel' inputs A h ms seen hi hb hr,
    MatProg.mem_naive_matrix ps h fuel'' ns hn]

/-- **C06, strings**: the matches labelled `i` depend only on the `i`-th pattern — whatever else
is compiled with it, in whatever order, under whatever log of the loop's replay. -/
theorem c06_string_TL (ps ps' : List (List CharVar)) (evs evs' : List Ev)
    (fuel fuel' fuel2 fuel2' : Nat) (inputs inputs' : List (Nat × List StrCons × List Nat))
    (A A' : Automaton Nat CharPred) (h : List Nat) (ms ms' : List (Match StrPos))
    (seen seen' : List (Nat × List (Option Nat)))
    (hi : TBL.strInputs ps = some inputs) (hi' : TBL.strInputs ps' = some inputs')
    (hb : buildTL (charTree natLt) strReq fuel inputs evs = .ok A)
    (hb' : buildTL (charTree natLt) strReq fuel2 inputs' evs' = .ok A')
    (hr : run strDomain A h fuel' = .ok (ms, seen))
    (hr' : run strDomain A' h fuel2' = .ok (ms', seen'))
    (i j : Nat) (hij : ps[i]? = ps'[j]?) (m : StrPos) :
    (i, m) ∈ ms ↔ (j, m) ∈ ms' := by
  rw [c01_c02_string_TL ps evs fuel fuel' inputs A h ms seen hi hb hr,
    c01_c02_string_TL ps' evs' fuel2 fuel2' inputs' A' h ms' seen' hi' hb' hr', hij]

/-- **C06, matrices**. -/
theorem c06_matrix_TL (ps ps' : List MatPattern) (evs evs' : List Ev)
    (fuel fuel' fuel2 fuel2' : Nat) (inputs inputs' : List (Nat × List MatCons × List MKey))
    (A A' : Automaton MKey CharPred) (h : MatHost) (ms ms' : List (Match MatPos))
    (seen seen' : List (Nat × List (Option MVal)))
    (hi : TBL.matInputs ps = some inputs) (hi' : TBL.matInputs ps' = some inputs')
    (hb : buildTL (charTree mkeyLt) matReq fuel inputs evs = .ok A)
    (hb' : buildTL (charTree mkeyLt) matReq fuel2 inputs' evs' = .ok A')
    (hr : run matDomain A h fuel' = .ok (ms, seen))
    (hr' : run matDomain A' h fuel2' = .ok (ms', seen'))
    (i j : Nat) (hij : ps[i]? = ps'[j]?) (m : MatPos) :
    (i, m) ∈ ms ↔ (j, m) ∈ ms' := by
  rw [c01_c02_matrix_TL ps evs fuel fuel' inputs A h ms seen hi hb hr,
    c01_c02_matrix_TL ps' evs' fuel2 fuel2' inputs' A' h ms' seen' hi' hb' hr', hij]

end Pm
