/-
Props/Targets.lean — the end-to-end statements of C01, C02, C03, C04, C07 at full strength, as
`Prop`s (DESIGN §5: "where the full statement is not reached it stays visible as the target").
They are *not* theorems yet: what is proved towards them is listed per property in
`props.py` / MANIFEST.json (T-RUN-SOUND, BFS closure, T-SINGLE, T-DOM, T-BUILD, …); the checks
decide them per compiled automaton and host through the oracles.
-/
import PmVerif.Model.ManyMatcher
import PmVerif.Spec.Occurs
import PmVerif.Spec.PGSpec
namespace Pm

/-- C01, strings: every reported match names a pattern that occurs at the reported anchor, with
the canonical extent; the empty pattern is reported as the unbound map. -/
def c01_string_target : Prop :=
  ∀ (ps : List (List CharVar)) (evs : List Ev) (h : List Nat) (fuel : Nat) ms,
    strFindMatches ps evs h fuel = .ok ms → ∀ i m, (i, m) ∈ ms →
      ∃ p, ps[i]? = some p ∧
        ((p = [] ∧ m = .unbound) ∨ ∃ a, m = .bound a p.length ∧ occursStr p h a = true)

/-- C02, strings: every occurrence is reported. -/
def c02_string_target : Prop :=
  ∀ (ps : List (List CharVar)) (evs : List Ev) (h : List Nat) (fuel : Nat) ms,
    strFindMatches ps evs h fuel = .ok ms → ∀ i p, ps[i]? = some p →
      (p = [] → (i, StrPos.unbound) ∈ ms) ∧
      (p ≠ [] → ∀ a, occursStr p h a = true → (i, StrPos.bound a p.length) ∈ ms)

/-- C07, strings: … exactly once. -/
def c07_string_target : Prop :=
  ∀ (ps : List (List CharVar)) (evs : List Ev) (h : List Nat) (fuel : Nat) ms,
    strFindMatches ps evs h fuel = .ok ms → ∀ i p, ps[i]? = some p →
      (p = [] → ms.count (i, StrPos.unbound) = 1) ∧
      (p ≠ [] → ∀ a, ms.count (i, StrPos.bound a p.length) = if occursStr p h a then 1 else 0)

/-- C01, matrices. -/
def c01_matrix_target : Prop :=
  ∀ (ps : List MatPattern) (evs : List Ev) (h : MatHost) (fuel : Nat) ms,
    matFindMatches ps evs h fuel = .ok ms → ∀ i m, (i, m) ∈ ms →
      ∃ p, ps[i]? = some p ∧ ∃ r c, occursMat p h r c = true ∧
        m = .bound r c 0 0 (matExtent p).1 (matExtent p).2

/-- C02, matrices. -/
def c02_matrix_target : Prop :=
  ∀ (ps : List MatPattern) (evs : List Ev) (h : MatHost) (fuel : Nat) ms,
    matFindMatches ps evs h fuel = .ok ms → ∀ i p, ps[i]? = some p →
      ∀ r c, occursMat p h r c = true →
        (i, MatPos.bound r c 0 0 (matExtent p).1 (matExtent p).2) ∈ ms

/-- C04: the set of reported matches does not depend on the event log (heuristic answers and
hash-order choices), for strings; with C07 not even the multiplicities. -/
def c04_string_target : Prop :=
  ∀ (ps : List (List CharVar)) (evs evs' : List Ev) (h : List Nat) (fuel : Nat) ms ms',
    strFindMatches ps evs h fuel = .ok ms → strFindMatches ps evs' h fuel = .ok ms' →
      ∀ x, x ∈ ms ↔ x ∈ ms'

/-- C03, strings: the automaton reports the same set as the baseline. -/
def c03_string_target : Prop :=
  ∀ (ps : List (List CharVar)) (evs : List Ev) (h : List Nat) (fuel : Nat) ms ns,
    strFindMatches ps evs h fuel = .ok ms →
    naiveMatches strDomain h fuel (ps.map strConstraints) 0 = .ok ns →
      ∀ x, x ∈ ms ↔ x ∈ ns

/-- C02, port graphs, on the complement of the known-finding signature: a connected pattern
with a single root (its constraint vector mentions no root index ≥ 1) that embeds into the host
is reported with its root image. (C01's port-graph target is the converse with `embedsPG`.)
NOTE: as literally stated (arbitrary `PortGraph` values) this is FALSE — `c02_pg_target_false` in
`Props/C01PG.lean`: on a host whose input port is linked twice `port_link` is asymmetric; with the
well-formedness hypotheses `LinksOK` it is the theorem `c02_pg_holds_wf`. -/
def c02_pg_target : Prop :=
  ∀ (g : PortGraph) (root : Nat) (cs : List PGCons) (h : PortGraph) (fuel : Nat) (out : List PGMap),
    pgConstraints g root = some cs → pgSigMultiRoot cs = false → pgConnected g = true →
    singleMatches pgDomain cs h fuel = .ok out →
      ∀ r ∈ pgRootImages g h root, ∃ m ∈ out, alGet m (.root 0) = some r

end Pm
