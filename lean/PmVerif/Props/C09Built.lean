/-
Props/C09Built.lean — property C09 for EVERY automaton the builder can produce.

Props/C09.lean states the well-formedness `Automaton.WF` and proves the executable checker
`Automaton.wfCheck` sound and complete, i.e. C09 "checked per automaton". Here clauses of `WF`
are proved once and for all of every automaton returned by a successful guarded `build`, for
every pattern list and every event log (every hash-iteration order and heuristic answer):

* `c09_built_graph_wf`   the underlying `StableGraph` model is structurally well-formed — this
                          discharges the hypothesis `hg` of `c09_wfCheck_sound`;
* `c09_built_acyclic`    clause (a);
* `c09_built_noSelfLoop` clause (d);
* `c09_built_orders`     clause (e);
* `c09_built_accepted`   clause (f), for `ids := patterns.map (·.1)`;
* `c09_built_scopeCovers` clause (h), for a rank-acyclic indexing scheme;
* `c09_built_partial`    the five clauses together;
* `c09_built_checked`    if moreover the checker accepts, the full `WF` holds: the remaining
                          clauses (b) reachability, (c) at most one fallback, (g) key order are
                          the ones decided per automaton by the verified checker;
* `c09_built_matchKeys`  clause (g), second half, for a rank-acyclic scheme: every recorded key
                          list is prerequisite-ordered (the builder only ever copies recorded
                          `(pattern id, key list)` pairs between states; no tree hypothesis);
* `c09_built_matches_only_patterns` converse of (f): every recorded id is a compiled one;
* `c09_built_root`       "rooted": the root is live and has no incoming transition;
* `c09_built_wf_of_rest` so what is left per automaton is (b), (c) and "scopes are
                          prerequisite-ordered" (first half of (g)).

Hypotheses: `hT` — the tree decomposition is faithful under some assignment `σ` (needed by the
T-BUILD invariant); `hT1` (clause (f) only) — it is faithful under the all-true assignment. Both
hold for the shipped string/matrix decomposition `charTree` and the depth-one table strategies
for every assignment (`c03_treeOK_char`, `c03_treeOK_table`): `c09_built_partial_char`,
`c09_built_partial_table`.

Only final theorems and non-vacuity examples live here; proofs are in `Proofs/C09BuiltLemmas`.
-/
import PmVerif.Proofs.C09BuiltLemmas
import PmVerif.Props.C03
namespace Pm
open Automaton
variable {K P : Type} [DecidableEq K] [DecidableEq P]

/-- **1.** The graph of every built automaton is structurally well-formed: the hypothesis `hg`
of `c09_wfCheck_sound` / `c09_wfCheck_iff` holds of every built automaton. -/
theorem c09_built_graph_wf
    (toTree : List (Constraint K P) → Option (CTree (Constraint K P))) (req : K → List K)
    (fuel : Nat) (patterns : List (Nat × List (Constraint K P) × List K)) (evs : List Ev)
    (A : Automaton K P) (σ : Constraint K P → Bool) (hT : Automaton.TreeOK toTree σ)
    (h : Automaton.build toTree req fuel patterns evs = .ok A) : A.g.WF :=
  (Automaton.build_sem (Automaton.stepLemmas hT) h).1.wf

/-- **2.** Clause (a): a rank function strictly increasing along every live transition. -/
theorem c09_built_acyclic
    (toTree : List (Constraint K P) → Option (CTree (Constraint K P))) (req : K → List K)
    (fuel : Nat) (patterns : List (Nat × List (Constraint K P) × List K)) (evs : List Ev)
    (A : Automaton K P) (σ : Constraint K P → Bool) (hT : Automaton.TreeOK toTree σ)
    (h : Automaton.build toTree req fuel patterns evs = .ok A) :
    ∃ rank : Nat → Nat, ∀ t e, A.g.edge? t = some e → rank e.src < rank e.dst := by
  obtain ⟨rank, hr⟩ := build_acyclic toTree req fuel patterns evs A σ hT h
  exact c09b_reverse_rank A.g rank hr

/-- **3.** Clause (d): no transition from a state to itself. -/
theorem c09_built_noSelfLoop
    (toTree : List (Constraint K P) → Option (CTree (Constraint K P))) (req : K → List K)
    (fuel : Nat) (patterns : List (Nat × List (Constraint K P) × List K)) (evs : List Ev)
    (A : Automaton K P) (σ : Constraint K P → Bool) (hT : Automaton.TreeOK toTree σ)
    (h : Automaton.build toTree req fuel patterns evs = .ok A) :
    ∀ s, A.g.containsNode s = true → ∀ t d, (t, d) ∈ A.g.outEdges s → d ≠ s :=
  c09b_noSelfLoop_of_inv (Automaton.build_sem (Automaton.stepLemmas hT) h).1

/-- **4.** Clause (e): the two orders of every live state are duplicate-free and list exactly
its outgoing constraint transitions resp. its outgoing fallback transitions. -/
theorem c09_built_orders
    (toTree : List (Constraint K P) → Option (CTree (Constraint K P))) (req : K → List K)
    (fuel : Nat) (patterns : List (Nat × List (Constraint K P) × List K)) (evs : List Ev)
    (A : Automaton K P) (σ : Constraint K P → Bool) (hT : Automaton.TreeOK toTree σ)
    (h : Automaton.build toTree req fuel patterns evs = .ok A) :
    ∀ s w, A.g.weight? s = some w →
      w.corder.Nodup ∧ w.eorder.Nodup ∧
      (∀ t, t ∈ w.corder ↔
        ∃ d e c, (t, d) ∈ A.g.outEdges s ∧ A.g.edge? t = some e ∧ e.w = some c) ∧
      (∀ t, t ∈ w.eorder ↔
        ∃ d e, (t, d) ∈ A.g.outEdges s ∧ A.g.edge? t = some e ∧ e.w = none) :=
  c09b_orders_of_inv (Automaton.build_sem (Automaton.stepLemmas hT) h).1

/-- **5.** Clause (f): every compiled pattern id is accepted by some live state. Uses T-BUILD
under the all-true assignment, hence `hT1` (`_hT` is not needed). -/
theorem c09_built_accepted
    (toTree : List (Constraint K P) → Option (CTree (Constraint K P))) (req : K → List K)
    (fuel : Nat) (patterns : List (Nat × List (Constraint K P) × List K)) (evs : List Ev)
    (A : Automaton K P) (σ : Constraint K P → Bool) (_hT : Automaton.TreeOK toTree σ)
    (hT1 : Automaton.TreeOK toTree (fun _ => true))
    (h : Automaton.build toTree req fuel patterns evs = .ok A) :
    ∀ pid ∈ patterns.map (·.1), ∃ s w keys, A.g.weight? s = some w ∧ (pid, keys) ∈ w.matches_ := by
  intro pid hpid
  obtain ⟨⟨pid', cs, extra⟩, hmem, rfl⟩ := List.mem_map.1 hpid
  exact c09b_accND_accepted
    ((build_accND toTree req fuel patterns evs A (fun _ => true) hT1 h pid').2
      ⟨cs, extra, hmem, fun _ _ => rfl⟩)

/-- **6.** Clause (h), on a rank-acyclic indexing scheme: the scope of every live state contains
every key used by one of its outgoing constraints (`build` ends with `populate_scopes`). -/
theorem c09_built_scopeCovers
    (toTree : List (Constraint K P) → Option (CTree (Constraint K P))) (req : K → List K)
    (hacy : RankAcyclic req)
    (fuel : Nat) (patterns : List (Nat × List (Constraint K P) × List K)) (evs : List Ev)
    (A : Automaton K P) (σ : Constraint K P → Bool) (_hT : Automaton.TreeOK toTree σ)
    (h : Automaton.build toTree req fuel patterns evs = .ok A) :
    ∀ s w, A.g.weight? s = some w → ∀ t ∈ w.corder,
      ∀ e c, A.g.edge? t = some e → e.w = some c → ∀ k ∈ c.args, k ∈ w.scope := by
  unfold Automaton.build at h
  split at h
  · cases h
  · unfold Automaton.finish at h
    split at h
    · cases h
    · exact c09_populateScopes_scopeCovers hacy h

/-- **7a.** Clauses (a), (d), (e), (f), (h) of `Automaton.WF req A (patterns.map (·.1))` hold of
every built automaton (together with the graph well-formedness). -/
theorem c09_built_partial
    (toTree : List (Constraint K P) → Option (CTree (Constraint K P))) (req : K → List K)
    (hacy : RankAcyclic req)
    (fuel : Nat) (patterns : List (Nat × List (Constraint K P) × List K)) (evs : List Ev)
    (A : Automaton K P) (σ : Constraint K P → Bool) (hT : Automaton.TreeOK toTree σ)
    (hT1 : Automaton.TreeOK toTree (fun _ => true))
    (h : Automaton.build toTree req fuel patterns evs = .ok A) :
    A.g.WF ∧
    -- (a)
    (∃ rank : Nat → Nat, ∀ t e, A.g.edge? t = some e → rank e.src < rank e.dst) ∧
    -- (d)
    (∀ s, A.g.containsNode s = true → ∀ t d, (t, d) ∈ A.g.outEdges s → d ≠ s) ∧
    -- (e)
    (∀ s w, A.g.weight? s = some w →
      w.corder.Nodup ∧ w.eorder.Nodup ∧
      (∀ t, t ∈ w.corder ↔
        ∃ d e c, (t, d) ∈ A.g.outEdges s ∧ A.g.edge? t = some e ∧ e.w = some c) ∧
      (∀ t, t ∈ w.eorder ↔
        ∃ d e, (t, d) ∈ A.g.outEdges s ∧ A.g.edge? t = some e ∧ e.w = none)) ∧
    -- (f)
    (∀ pid ∈ patterns.map (·.1),
      ∃ s w keys, A.g.weight? s = some w ∧ (pid, keys) ∈ w.matches_) ∧
    -- (h)
    (∀ s w, A.g.weight? s = some w → ∀ t ∈ w.corder,
      ∀ e c, A.g.edge? t = some e → e.w = some c → ∀ k ∈ c.args, k ∈ w.scope) :=
  ⟨c09_built_graph_wf toTree req fuel patterns evs A σ hT h,
    c09_built_acyclic toTree req fuel patterns evs A σ hT h,
    c09_built_noSelfLoop toTree req fuel patterns evs A σ hT h,
    c09_built_orders toTree req fuel patterns evs A σ hT h,
    c09_built_accepted toTree req fuel patterns evs A σ hT hT1 h,
    c09_built_scopeCovers toTree req hacy fuel patterns evs A σ hT h⟩

/-- **7b.** For a built automaton the Boolean checker alone establishes the full C09: the
structural hypothesis `hg` of `c09_wfCheck_sound` is a theorem (`c09_built_graph_wf`). By
`c09_built_partial` the clauses the checker actually decides here are (b) reachability, (c) at
most one fallback transition and (g) key order. -/
theorem c09_built_checked
    (toTree : List (Constraint K P) → Option (CTree (Constraint K P))) (req : K → List K)
    (fuel : Nat) (patterns : List (Nat × List (Constraint K P) × List K)) (evs : List Ev)
    (A : Automaton K P) (σ : Constraint K P → Bool) (hT : Automaton.TreeOK toTree σ)
    (h : Automaton.build toTree req fuel patterns evs = .ok A)
    (hc : A.wfCheck req (patterns.map (·.1)) = true) : A.WF req (patterns.map (·.1)) :=
  c09_wfCheck_sound req A (patterns.map (·.1))
    (c09_built_graph_wf toTree req fuel patterns evs A σ hT h) hc

/-- ... and conversely the checker raises no false alarm on a built automaton: on built
automata `wfCheck` decides `WF`, with no side condition. -/
theorem c09_built_checked_iff
    (toTree : List (Constraint K P) → Option (CTree (Constraint K P))) (req : K → List K)
    (fuel : Nat) (patterns : List (Nat × List (Constraint K P) × List K)) (evs : List Ev)
    (A : Automaton K P) (σ : Constraint K P → Bool) (hT : Automaton.TreeOK toTree σ)
    (h : Automaton.build toTree req fuel patterns evs = .ok A) :
    A.wfCheck req (patterns.map (·.1)) = true ↔ A.WF req (patterns.map (·.1)) := by
  have hg := c09_built_graph_wf toTree req fuel patterns evs A σ hT h
  exact ⟨c09_wfCheck_sound req A _ hg, c09_wfCheck_complete req A _ hg⟩

/-- **8.** Clause (g), second half, on a rank-acyclic indexing scheme: every key list recorded
for an accepted pattern is prerequisite-ordered. `add_pattern` records ordered lists
(`c09_addPatterns_matches_ordered`) and every later step of the builder only copies recorded
pairs between states (`c09b_mfrom_mainLoop`); no hypothesis on the decomposition (`_hT` is not
needed). -/
theorem c09_built_matchKeys
    (toTree : List (Constraint K P) → Option (CTree (Constraint K P))) (req : K → List K)
    (hacy : RankAcyclic req)
    (fuel : Nat) (patterns : List (Nat × List (Constraint K P) × List K)) (evs : List Ev)
    (A : Automaton K P) (σ : Constraint K P → Bool) (_hT : Automaton.TreeOK toTree σ)
    (h : Automaton.build toTree req fuel patterns evs = .ok A) :
    ∀ s w, A.g.weight? s = some w → ∀ m ∈ w.matches_, PrereqOrdered req m.2 :=
  c09b_mfrom_build (S := fun m => PrereqOrdered req m.2) hacy h
    fun _ _ keys hk => (c09_prereqOrdered_iff req keys).1 hk

/-- Converse of clause (f): every pattern id recorded at a state of a built automaton is the id
of a compiled pattern. -/
theorem c09_built_matches_only_patterns
    (toTree : List (Constraint K P) → Option (CTree (Constraint K P))) (req : K → List K)
    (hacy : RankAcyclic req)
    (fuel : Nat) (patterns : List (Nat × List (Constraint K P) × List K)) (evs : List Ev)
    (A : Automaton K P) (σ : Constraint K P → Bool) (_hT : Automaton.TreeOK toTree σ)
    (h : Automaton.build toTree req fuel patterns evs = .ok A) :
    ∀ s w, A.g.weight? s = some w → ∀ m ∈ w.matches_, m.1 ∈ patterns.map (·.1) := by
  have H : c09b_MFrom (fun m : Nat × List K => m.1 ∈ patterns.map (·.1)) A :=
    c09b_mfrom_build hacy h fun p hp _ _ => List.mem_map.2 ⟨p, hp, rfl⟩
  exact H

/-- "Rooted": the root of a built automaton is a live state without incoming transition. -/
theorem c09_built_root
    (toTree : List (Constraint K P) → Option (CTree (Constraint K P))) (req : K → List K)
    (fuel : Nat) (patterns : List (Nat × List (Constraint K P) × List K)) (evs : List Ev)
    (A : Automaton K P) (σ : Constraint K P → Bool) (hT : Automaton.TreeOK toTree σ)
    (h : Automaton.build toTree req fuel patterns evs = .ok A) :
    A.g.containsNode A.root = true ∧ ∀ t e, A.g.edge? t = some e → e.dst ≠ A.root :=
  c09b_build_rootSrc (Automaton.stepLemmas hT) h

/-- What is left to establish per automaton: a built automaton satisfying (b), (c) and the first
half of (g) (scopes are prerequisite-ordered) satisfies `WF`. -/
theorem c09_built_wf_of_rest
    (toTree : List (Constraint K P) → Option (CTree (Constraint K P))) (req : K → List K)
    (hacy : RankAcyclic req)
    (fuel : Nat) (patterns : List (Nat × List (Constraint K P) × List K)) (evs : List Ev)
    (A : Automaton K P) (σ : Constraint K P → Bool) (hT : Automaton.TreeOK toTree σ)
    (hT1 : Automaton.TreeOK toTree (fun _ => true))
    (h : Automaton.build toTree req fuel patterns evs = .ok A)
    (hb : ∀ s, A.g.containsNode s = true → Path A A.root s)
    (hc : ∀ s w, A.g.weight? s = some w → w.eorder.length ≤ 1)
    (hg : ∀ s w, A.g.weight? s = some w → PrereqOrdered req w.scope) :
    A.WF req (patterns.map (·.1)) := by
  obtain ⟨_, ha, hd, he, hf, hh⟩ :=
    c09_built_partial toTree req hacy fuel patterns evs A σ hT hT1 h
  exact ⟨ha, hb, hc, hd, he, hf,
    fun s w hw => ⟨hg s w hw,
      c09_built_matchKeys toTree req hacy fuel patterns evs A σ hT h s w hw⟩, hh⟩

/-! ### Instances: the shipped decompositions -/

/-- String / matrix pattern sets (`charTree`): no hypothesis on the decomposition is left. -/
theorem c09_built_partial_char {K : Type} [DecidableEq K] (lt : K → K → Bool)
    (req : K → List K) (hacy : RankAcyclic req) (fuel : Nat)
    (patterns : List (Nat × List (Constraint K CharPred) × List K)) (evs : List Ev)
    (A : Automaton K CharPred)
    (h : Automaton.build (charTree lt) req fuel patterns evs = .ok A) :
    A.g.WF ∧
    (∃ rank : Nat → Nat, ∀ t e, A.g.edge? t = some e → rank e.src < rank e.dst) ∧
    (∀ s, A.g.containsNode s = true → ∀ t d, (t, d) ∈ A.g.outEdges s → d ≠ s) ∧
    (∀ s w, A.g.weight? s = some w →
      w.corder.Nodup ∧ w.eorder.Nodup ∧
      (∀ t, t ∈ w.corder ↔
        ∃ d e c, (t, d) ∈ A.g.outEdges s ∧ A.g.edge? t = some e ∧ e.w = some c) ∧
      (∀ t, t ∈ w.eorder ↔
        ∃ d e, (t, d) ∈ A.g.outEdges s ∧ A.g.edge? t = some e ∧ e.w = none)) ∧
    (∀ pid ∈ patterns.map (·.1),
      ∃ s w keys, A.g.weight? s = some w ∧ (pid, keys) ∈ w.matches_) ∧
    (∀ s w, A.g.weight? s = some w → ∀ t ∈ w.corder,
      ∀ e c, A.g.edge? t = some e → e.w = some c → ∀ k ∈ c.args, k ∈ w.scope) :=
  c09_built_partial (charTree lt) req hacy fuel patterns evs A (fun _ => true)
    (c03_treeOK_char lt _) (c03_treeOK_char lt _) h

/-- The depth-one strategies of the table domain. -/
theorem c09_built_partial_table (s : Nat) (hs : s = 0 ∨ s = 1 ∨ s = 2) (tfuel : Nat)
    (req : Nat → List Nat) (hacy : RankAcyclic req) (fuel : Nat)
    (patterns : List (Nat × List TCons × List Nat)) (evs : List Ev)
    (A : Automaton Nat TPred)
    (h : Automaton.build (fun cs => tTree s cs tfuel) req fuel patterns evs = .ok A) :
    A.g.WF ∧
    (∃ rank : Nat → Nat, ∀ t e, A.g.edge? t = some e → rank e.src < rank e.dst) ∧
    (∀ s, A.g.containsNode s = true → ∀ t d, (t, d) ∈ A.g.outEdges s → d ≠ s) ∧
    (∀ s w, A.g.weight? s = some w →
      w.corder.Nodup ∧ w.eorder.Nodup ∧
      (∀ t, t ∈ w.corder ↔
        ∃ d e c, (t, d) ∈ A.g.outEdges s ∧ A.g.edge? t = some e ∧ e.w = some c) ∧
      (∀ t, t ∈ w.eorder ↔
        ∃ d e, (t, d) ∈ A.g.outEdges s ∧ A.g.edge? t = some e ∧ e.w = none)) ∧
    (∀ pid ∈ patterns.map (·.1),
      ∃ s w keys, A.g.weight? s = some w ∧ (pid, keys) ∈ w.matches_) ∧
    (∀ s w, A.g.weight? s = some w → ∀ t ∈ w.corder,
      ∀ e c, A.g.edge? t = some e → e.w = some c → ∀ k ∈ c.args, k ∈ w.scope) :=
  c09_built_partial (fun cs => tTree s cs tfuel) req hacy fuel patterns evs A (fun _ => true)
    (c03_treeOK_table s hs tfuel _) (c03_treeOK_table s hs tfuel _) h

/-- On built string / matrix automata the checker decides `WF` outright. -/
theorem c09_built_checked_char {K : Type} [DecidableEq K] (lt : K → K → Bool)
    (req : K → List K) (fuel : Nat)
    (patterns : List (Nat × List (Constraint K CharPred) × List K)) (evs : List Ev)
    (A : Automaton K CharPred)
    (h : Automaton.build (charTree lt) req fuel patterns evs = .ok A) :
    A.wfCheck req (patterns.map (·.1)) = true ↔ A.WF req (patterns.map (·.1)) :=
  c09_built_checked_iff (charTree lt) req fuel patterns evs A (fun _ => true)
    (c03_treeOK_char lt _) h

/-! ### Non-vacuity -/

namespace C09BuiltEx

/-- The string patterns `"ab"` (id 0) and `"ac"` (id 1) as constraint lists. -/
def pats : List (Nat × List StrCons × List Nat) :=
  [(0, [⟨.constVal 97, [0]⟩, ⟨.constVal 98, [1]⟩], []),
   (1, [⟨.constVal 97, [0]⟩, ⟨.constVal 99, [1]⟩], [])]

/-- A complete log: the root fuses its two equal `'a'` transitions (new state 5) and is made
deterministic, so is state 5; the two accepting states have nothing to do. -/
def evs : List Ev :=
  [.topo 0, .group 0 [0, 2], .detAsk 0, .detYes 0, .iterEnd 0,
   .topo 5, .detAsk 5, .detYes 5, .iterEnd 5, .topo 2, .iterEnd 2, .topo 4, .iterEnd 4]

/-- The automaton built from `pats` along `evs`: `0 —'a'@0→ 5`, `5 —'b'@1→ 2`, `5 —'c'@1→ 4`. -/
def A : Automaton Nat CharPred :=
  { g :=
      { nodes :=
          [some { w := { matches_ := [], det := true, corder := [2], eorder := [], scope := [0] },
                  out := [2], inc := [] },
           none,
           some { w := { matches_ := [(0, [0, 1])], det := false, corder := [], eorder := [],
                         scope := [] },
                  out := [], inc := [1] },
           none,
           some { w := { matches_ := [(1, [0, 1])], det := false, corder := [], eorder := [],
                         scope := [] },
                  out := [], inc := [0] },
           some { w := { matches_ := [], det := true, corder := [1, 0], eorder := [],
                         scope := [0, 1] },
                  out := [0, 1], inc := [2] }],
        edges :=
          [some { src := 5, dst := 4, w := some ⟨.constVal 99, [1]⟩ },
           some { src := 5, dst := 2, w := some ⟨.constVal 98, [1]⟩ },
           some { src := 0, dst := 5, w := some ⟨.constVal 97, [0]⟩ },
           none],
        freeNodes := [3, 1],
        freeEdges := [3] },
    root := 0 }

theorem built : Automaton.build (charTree natLt) strReq 16 pats evs = .ok A := by rfl

theorem strReq_acyclic : RankAcyclic strReq :=
  ⟨id, fun k p hp => by
    unfold strReq at hp
    split at hp
    · cases hp
    · rename_i hk
      rw [List.mem_singleton.1 hp]
      exact Nat.pos_of_ne_zero hk⟩

end C09BuiltEx

/-- The hypotheses of `c09_built_partial` are jointly satisfiable by a build that runs the whole
main loop (fusion, two determinisations). -/
example :
    Automaton.TreeOK (charTree natLt) (fun _ => true) ∧ RankAcyclic strReq ∧
      Automaton.build (charTree natLt) strReq 16 C09BuiltEx.pats C09BuiltEx.evs = .ok C09BuiltEx.A :=
  ⟨c03_treeOK_char natLt _, C09BuiltEx.strReq_acyclic, C09BuiltEx.built⟩

/-- ... so its conclusion holds of `C09BuiltEx.A` ... -/
example : ∀ pid ∈ [0, 1], ∃ s w keys,
    C09BuiltEx.A.g.weight? s = some w ∧ (pid, keys) ∈ w.matches_ :=
  (c09_built_partial_char natLt strReq C09BuiltEx.strReq_acyclic 16 C09BuiltEx.pats
    C09BuiltEx.evs C09BuiltEx.A C09BuiltEx.built).2.2.2.2.1

/-- ... likewise for `c09_built_matchKeys` (key `1` requires key `0`, listed first) ... -/
example : ∀ s w, C09BuiltEx.A.g.weight? s = some w → ∀ m ∈ w.matches_,
    PrereqOrdered strReq m.2 :=
  c09_built_matchKeys (charTree natLt) strReq C09BuiltEx.strReq_acyclic 16 C09BuiltEx.pats
    C09BuiltEx.evs C09BuiltEx.A (fun _ => true) (c03_treeOK_char natLt _) C09BuiltEx.built

/-- ... and, the checker accepting it, the full `WF`. -/
example : C09BuiltEx.A.WF strReq [0, 1] :=
  c09_built_checked (charTree natLt) strReq 16 C09BuiltEx.pats C09BuiltEx.evs C09BuiltEx.A
    (fun _ => true) (c03_treeOK_char natLt _) C09BuiltEx.built (by decide)

/-- The clauses are not trivially true: the automaton has live transitions, non-empty orders,
accepted patterns and constraint keys to cover. -/
example :
    C09BuiltEx.A.g.nodeIndices = [0, 2, 4, 5] ∧
      C09BuiltEx.A.g.outEdges 5 = [(0, 4), (1, 2)] ∧
      (C09BuiltEx.A.stateD 5).corder = [1, 0] ∧ (C09BuiltEx.A.stateD 5).scope = [0, 1] ∧
      (C09BuiltEx.A.stateD 4).matches_ = [(1, [0, 1])] := by decide

/-- The hypothesis `h` matters: an automaton that is not the result of a build (state `0` has a
transition to itself) violates clause (d). -/
example : ∃ a : Automaton Nat CharPred,
    ¬ ∀ s, a.g.containsNode s = true → ∀ t d, (t, d) ∈ a.g.outEdges s → d ≠ s :=
  ⟨⟨⟨[some ⟨{ eorder := [0] }, [0], [0]⟩], [some ⟨0, 0, none⟩], [], []⟩, 0⟩,
    fun h => h 0 (by decide) 0 0 (by decide) rfl⟩

end Pm
