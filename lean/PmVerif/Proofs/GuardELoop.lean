/-
Proofs/GuardELoop.lean — the main induction for the invariant `GE.INV` (namespace `Pm.GE`):
an iteration of the lenient disciplined replay keeps `Inv`, acyclicity and `INV`, given the
contracts `TreeKeeps` for `insert_constraint_tree` (proved for flat decompositions in
Proofs/GuardETree.lean) and `DetKeepsJ` for `make_det` (proved in Proofs/GuardEDet.lean); the steps
`make_constraints_unique` (Proofs/GuardEFuse.lean) and the merges (Proofs/GuardEMerge.lean) are
used directly.  Consequently (`mainLoop_imp_C`, `buildTL_imp_buildTLC_of`)
every log accepted by `buildTL` passes the emission-time check c1G, hence guard E.
-/
import PmVerif.Proofs.GuardEFuse
import PmVerif.Proofs.GuardEMerge
import PmVerif.Proofs.C08AcycMain
namespace Pm
namespace GE
open Automaton TBL C08A
variable {K P : Type} [DecidableEq K] [DecidableEq P]
set_option linter.unusedSectionVars false

/-- Contract of step `insert_constraint_tree(s)` (the only one that depends on the decomposition;
`GE.tree_keepsJ`): it keeps the invariant inside the iteration, given
that `s` has no fallback transition yet. -/
def TreeKeeps (toTree : List (Constraint K P) → Option (CTree (Constraint K P))) : Prop :=
  ∀ {a a' : Automaton K P} {s fuel : Nat} {td : Bool} {E : List Nat}, Inv a → a.Live s →
    Acyclic a → C08.UniqueAt a s → JInv a E s → EFt a s →
    insertConstraintTree toTree a s fuel = .ok (a', td) → JInv a' E s

/-- Contract of step `make_det(s)` (`GE.detKeepsJ`): the unguarded `make_det` ends the iteration with the invariant for
`s :: E`. -/
def DetKeepsJ (K P : Type) [DecidableEq K] [DecidableEq P] : Prop :=
  ∀ {a a' : Automaton K P} {s : Nat} {E : List Nat}, Inv a → a.Live s → Acyclic a →
    (∀ w, a.g.weight? s = some w → w.eorder.length ≤ 1) → JInv a E s →
    a.makeDetL s = .ok a' → INV a' (s :: E)

/-- c1T in triple form. -/
theorem preds_of_admissible {a : Automaton K P} {E : List Nat} {s : Nat} (inv : Inv a)
    (h : a.topoAdmissible E s = true) : s ∉ E ∧ ∀ p k, HasEdge a p s k → p ∈ E := by
  unfold topoAdmissible at h
  rw [Bool.and_eq_true] at h
  obtain ⟨h1, h2⟩ := h
  refine ⟨fun hm => ?_, fun p k hp => ?_⟩
  · have : E.contains s = true := List.contains_iff_mem.2 hm
    rw [this] at h1
    cases h1
  · obtain ⟨t, ht⟩ := hp
    obtain ⟨nd, hnd, hin⟩ := inv.wf.edge_dst t _ ht
    have hm : p ∈ a.g.preds s := SGraph.mem_preds.2 ⟨nd, t, _, hnd, hin, ht, rfl⟩
    exact List.contains_iff_mem.1 (List.all_eq_true.1 h2 p hm)

/-- **One iteration keeps `Inv`, acyclicity and the invariant** (given the two step contracts). -/
theorem iteration_keepsINV
    {toTree : List (Constraint K P) → Option (CTree (Constraint K P))} (TK : TreeKeeps toTree)
    (DK : DetKeepsJ K P) {fuel : Nat} {a a' : Automaton K P} {s : Nat} {evs evs' : List Ev}
    {E : List Nat} (inv : Inv a) (H : Acyclic a) (hI : INV a E)
    (hadm : a.topoAdmissible E s = true)
    (h : iterationWith makeDetL toTree fuel a s evs = .ok (a', evs')) :
    Inv a' ∧ Acyclic a' ∧ INV a' (s :: E) := by
  obtain ⟨hsE, hpreds⟩ := preds_of_admissible inv hadm
  obtain ⟨J0, e0⟩ := hI.jInv hsE hpreds
  unfold iterationWith at h
  split at h
  · cases h
  · rename_i hlive
    have hs : a.Live s := by
      unfold Live; cases hx : a.g.containsNode s <;> simp_all
    split at h
    · cases h
    · rename_i a1 evs1 h1
      split at h
      · cases h
      · rename_i a2 treeDet h2
        split at h
        · cases h
        · rename_i a3 evs3 h3
          obtain ⟨inv3, hs3, H3, hle⟩ := acyclic_normalise inv hs H h1 h2 h3
          obtain ⟨H1, J1, inv1, hs1⟩ := makeConstraintsUnique_keepsJ inv hs H J0 h1
          have hu1 := C08.makeConstraintsUnique_unique inv hs h1
          have e1 := makeConstraintsUnique_eft inv hs e0 h1
          obtain ⟨inv2, hs2, H2⟩ := acyclic_insertConstraintTree inv1 hs1 H1 h2
          have J2 := TK inv1 hs1 H1 hu1 J1 e1 h2
          obtain ⟨_, J3, _, _⟩ := makeConstraintsUnique_keepsJ inv2 hs2 H2 J2 h3
          dsimp only at h
          split at h
          · cases h
          · rename_i a4 evs4 h4
            have H4 : Inv a4 ∧ Acyclic a4 :=
              acyclic_afterDet detAcyc_makeDetL inv3 hs3 H3 hle h4
            have I4 : INV a4 (s :: E) := by
              split at h4
              · split at h4
                · split at h4
                  · cases hm : a3.makeDetL s with
                    | error e => rw [hm] at h4; cases h4
                    | ok a4' =>
                      rw [hm] at h4
                      cases h4
                      exact DK inv3 hs3 H3 hle J3 hm
                  · cases h4
                · split at h4
                  · cases h4; exact J3.inv_cons
                  · cases h4
                · cases h4
              · cases h4; exact J3.inv_cons
            split at h
            · cases h
            · rename_i a5 s' evs5 h5
              split at h
              · cases h
                obtain ⟨inv5, H5⟩ := acyclic_mergesLoggedT _ H4.1 H4.2 h5
                exact ⟨inv5, H5, (mergesLoggedT_INV _ H4.1 I4 h5).2⟩
              · cases h
            · cases h

/-- The main loop of the Rust code passes the emission-time check c1G at every emission. -/
theorem mainLoop_imp_C
    {toTree : List (Constraint K P) → Option (CTree (Constraint K P))} (TK : TreeKeeps toTree)
    (DK : DetKeepsJ K P) {fuel : Nat} :
    ∀ (n : Nat) {a a' : Automaton K P} {E : List Nat} {evs : List Ev},
      Inv a → Acyclic a → INV a E →
      mainLoopWith makeDetL toTree fuel n a E evs = .ok a' →
      mainLoopC toTree fuel n a E evs = .ok a' := by
  intro n
  induction n with
  | zero =>
    intro a a' E evs _ _ _ h
    cases evs with
    | nil => unfold mainLoopWith at h; unfold mainLoopC; exact h
    | cons e es => unfold mainLoopWith at h; cases h
  | succ n ih =>
    intro a a' E evs inv H hI h
    cases evs with
    | nil => unfold mainLoopWith at h; unfold mainLoopC; exact h
    | cons e es =>
      cases e with
      | topo s =>
        unfold mainLoopWith at h
        unfold mainLoopC
        split at h
        · cases h
        · rename_i hadm
          rw [if_neg hadm]
          have hadm' : a.topoAdmissible E s = true := by
            cases hx : a.topoAdmissible E s <;> simp_all
          have hc : (!c1G a s) = false := by
            rw [c1G_of_INV inv hI (preds_of_admissible inv hadm').1]
            rfl
          rw [hc]
          simp only [Bool.false_eq_true, if_false]
          split at h
          · cases h
          · rename_i a1 evs1 h1
            rw [h1]
            simp only
            obtain ⟨inv1, H1, I1⟩ := iteration_keepsINV TK DK inv H hI hadm' h1
            exact ih inv1 H1 I1 h
      | _ => unfold mainLoopWith at h; cases h

/-- **Every log of the Rust loop passes c1G at every emission** — given the two step contracts
and the initial invariant (`GE.inv_addPatterns`). -/
theorem buildTL_imp_buildTLC_of
    {toTree : List (Constraint K P) → Option (CTree (Constraint K P))} (TK : TreeKeeps toTree)
    (DK : DetKeepsJ K P) {req : K → List K} {fuel : Nat}
    {patterns : List (Nat × List (Constraint K P) × List K)} {evs : List Ev} {A : Automaton K P}
    (hinit : ∀ a0, addPatterns req fuel (new : Automaton K P) patterns = .ok a0 → INV a0 [])
    (h : buildTL toTree req fuel patterns evs = .ok A) :
    buildTLC toTree req fuel patterns evs = .ok A := by
  unfold buildTL at h
  unfold buildTLC
  split at h
  · cases h
  · rename_i a1 h1
    rw [h1]
    simp only
    obtain ⟨inv1, _, H1⟩ := acyclic_addPatterns h1
    unfold finishWith at h
    unfold finishC
    cases h2 : mainLoopWith makeDetL toTree fuel evs.length a1 [] evs with
    | error e => rw [h2] at h; cases h
    | ok a2 =>
      rw [h2] at h
      rw [mainLoop_imp_C TK DK _ inv1 H1 (hinit a1 h1) h2]
      exact h

end GE
end Pm
