/-
Proofs/C09TLReach.lean — every clause of `Automaton.WF` except (c) for the replay of the Rust loop
itself (`buildTL`: lenient `makeDetL`, disciplined merges `mergesLoggedT`), for EVERY decomposition
`toTree`, scheme, pattern list and event log.

`Props/C09Reach.lean` proves these clauses for the guarded `build`; a log of `buildTL` need not be a
log of `build` (the model guard of `make_det` can fire), so the invariants of `Proofs/C09Reach*.lean`
— `C09R.HasIn` (every live state but the root has an incoming transition), `C09R.HasId` (every
compiled id is recorded somewhere), `c09b_MFrom` (recorded key lists) — are carried through
`iterationWith makeDetL` / `mainLoopWith makeDetL` here. The step lemmas are those of
`Proofs/C09Reach*.lean`; only `make_det` is restated (the guard is never used) and the disciplined
merges are merges (`C08.mergesLogged_of_T`).
Everything lives in `namespace Pm.C09TL`.
-/
import PmVerif.Proofs.C09ReachScopes
import PmVerif.Proofs.C09ReachIds
import PmVerif.Proofs.C08Lenient
import PmVerif.Props.C09Reach
namespace Pm
namespace C09TL
open Automaton Pm.C09R
variable {K P : Type} [DecidableEq K] [DecidableEq P]
set_option linter.unusedSectionVars false

/-! ### the unguarded `make_det` -/

theorem hasIn_makeDetL {a a' : Automaton K P} {s : Nat} (inv : Inv a) (H : HasIn a)
    (h : a.makeDetL s = .ok a') : Inv a' ∧ HasIn a' := by
  unfold makeDetL at h
  split at h
  · cases h
  · rename_i a0 wd hsd
    obtain ⟨w, _, r⟩ := setDeterministic_reflag inv hsd
    have H0 := hasIn_reflag r H
    split at h
    · cases h; exact ⟨r.inv, H0⟩
    · split at h
      · cases h
      · cases h; exact ⟨r.inv, H0⟩
      · split at h
        · exact hasIn_makeDetLoop _ r.inv H0 h
        · cases h
        · cases h
        · cases h

theorem hasId_makeDetL {a a' : Automaton K P} {s : Nat} (inv : Inv a) {pid : Nat}
    (H : HasId a pid) (h : a.makeDetL s = .ok a') : HasId a' pid := by
  unfold makeDetL at h
  split at h
  · cases h
  · rename_i a0 wd hsd
    obtain ⟨w, _, r⟩ := setDeterministic_reflag inv hsd
    have H0 := hasId_reflag r H
    split at h
    · cases h; exact H0
    · split at h
      · cases h
      · cases h; exact H0
      · split at h
        · exact hasId_makeDetLoop _ r.inv H0 h
        · cases h
        · cases h
        · cases h

/-! ### one iteration, the main loop -/

variable {toTree : List (Constraint K P) → Option (CTree (Constraint K P))}

/-- One iteration of the Rust loop's replay keeps `Inv`, `HasIn` and every `HasId`. -/
theorem hasIn_iterationWithL {fuel : Nat} {a a' : Automaton K P} {s : Nat} {evs evs' : List Ev}
    (inv : Inv a) (H : HasIn a) (h : iterationWith makeDetL toTree fuel a s evs = .ok (a', evs')) :
    Inv a' ∧ HasIn a' ∧ ∀ pid, HasId a pid → HasId a' pid := by
  unfold iterationWith at h
  split at h
  · cases h
  · rename_i hlive
    have hs : a.Live s := by
      unfold Live; cases hx : a.g.containsNode s <;> simp_all
    split at h
    · cases h
    · rename_i a1 evs1 h1
      have p1 := (makeConstraintsUnique_spec (σ := fun _ => true) inv hs h1).1
      have H1 := hasIn_makeConstraintsUnique inv hs H h1
      split at h
      · cases h
      · rename_i a2 treeDet h2
        obtain ⟨inv2, hs2, H2⟩ := hasIn_insertConstraintTree p1.inv p1.live_s H1 h2
        split at h
        · cases h
        · rename_i a3 evs3 h3
          have p3 := (makeConstraintsUnique_spec (σ := fun _ => true) inv2 hs2 h3).1
          have H3 := hasIn_makeConstraintsUnique inv2 hs2 H2 h3
          have I3 : ∀ pid, HasId a pid → HasId a3 pid := fun pid hp =>
            hasId_makeConstraintsUnique inv2 hs2
              (hasId_insertConstraintTree p1.inv (hasId_makeConstraintsUnique inv hs hp h1) h2) h3
          dsimp only at h
          split at h
          · cases h
          · rename_i a4 evs4 h4
            have H4 : Inv a4 ∧ HasIn a4 ∧ ∀ pid, HasId a pid → HasId a4 pid := by
              split at h4
              · split at h4
                · split at h4
                  · obtain ⟨a5, hm, he⟩ := c09b_map_ok h4
                    cases he
                    obtain ⟨inv5, H5⟩ := hasIn_makeDetL p3.inv H3 hm
                    exact ⟨inv5, H5, fun pid hp => hasId_makeDetL p3.inv (I3 pid hp) hm⟩
                  · cases h4
                · split at h4
                  · cases h4; exact ⟨p3.inv, H3, I3⟩
                  · cases h4
                · cases h4
              · cases h4; exact ⟨p3.inv, H3, I3⟩
            split at h
            · cases h
            · rename_i a5 s' evs5 h5
              split at h
              · cases h
                have h5' := C08.mergesLogged_of_T _ h5
                exact ⟨(mergesLogged_spec (σ := fun _ => true) _ H4.1 h5').1.inv,
                  hasIn_mergesLogged _ H4.1 H4.2.1 h5',
                  fun pid hp => hasId_mergesLogged _ H4.1 (H4.2.2 pid hp) h5'⟩
              · cases h
            · cases h

theorem hasIn_mainLoopWithL {fuel : Nat} :
    ∀ (n : Nat) {a a' : Automaton K P} (emitted : List Nat) (evs : List Ev), Inv a → HasIn a →
    mainLoopWith makeDetL toTree fuel n a emitted evs = .ok a' →
    Inv a' ∧ HasIn a' ∧ ∀ pid, HasId a pid → HasId a' pid := by
  intro n
  induction n with
  | zero =>
    intro a a' emitted evs inv H h
    cases evs with
    | nil =>
      unfold mainLoopWith at h
      split at h
      · cases h; exact ⟨inv, H, fun _ hp => hp⟩
      · cases h
    | cons e es => unfold mainLoopWith at h; cases h
  | succ n ih =>
    intro a a' emitted evs inv H h
    cases evs with
    | nil =>
      unfold mainLoopWith at h
      split at h
      · cases h; exact ⟨inv, H, fun _ hp => hp⟩
      · cases h
    | cons e es =>
      cases e with
      | topo s =>
        unfold mainLoopWith at h
        split at h
        · cases h
        · split at h
          · cases h
          · rename_i a1 evs1 h1
            obtain ⟨inv1, H1, I1⟩ := hasIn_iterationWithL inv H h1
            obtain ⟨inv2, H2, I2⟩ := ih _ evs1 inv1 H1 h
            exact ⟨inv2, H2, fun pid hp => I2 pid (I1 pid hp)⟩
      | _ => unfold mainLoopWith at h; cases h

/-! ### the build -/

/-- `Inv`, `HasIn` and a rank along the transitions for every automaton `buildTL` returns. -/
theorem buildTL_inv_hasIn {req : K → List K} {fuel : Nat}
    {patterns : List (Nat × List (Constraint K P) × List K)} {evs : List Ev} {A : Automaton K P}
    (h : buildTL toTree req fuel patterns evs = .ok A) :
    Inv A ∧ HasIn A ∧
      (∃ rank : Nat → Nat, ∀ t e, A.g.edge? t = some e → rank e.src < rank e.dst) ∧
      ∀ pid ∈ patterns.map (·.1), HasId A pid := by
  rw [C08.buildTL_eq_buildWith] at h
  obtain ⟨a1, a2, h1, h2, h3⟩ := C08.buildWith_parts h
  obtain ⟨inv0, _, rs0, nd0, _⟩ := new_spec (K := K) (P := P)
  have H1 : HasIn a1 := hasIn_addPatterns patterns inv0 rs0 nd0 hasIn_new h1
  have I1 := (hasId_addPatterns patterns inv0 rs0 nd0 h1).1
  obtain ⟨inv1, _, _, _, _⟩ := addPatterns_spec (σ := fun _ => true) h1
  obtain ⟨inv2, H2, I2⟩ := hasIn_mainLoopWithL _ _ _ inv1 H1 h2
  obtain ⟨inv3, _, he3, _⟩ := populateScopes_frame inv2 h3
  obtain ⟨rank, hrank⟩ := populateScopes_rank inv2 h3
  refine ⟨inv3, hasIn_populateScopes h3 H2, ?_, fun pid hp =>
    hasId_populateScopes h3 (I2 pid (I1 pid hp))⟩
  exact c09b_reverse_rank A.g rank fun t e he => by
    rw [he3] at he; exact hrank t e he

/-- Recorded `(pattern id, key list)` pairs of every automaton `buildTL` returns. -/
theorem mfrom_buildTL {S : Nat × List K → Prop} {req : K → List K} (hacy : RankAcyclic req)
    {fuel : Nat} {patterns : List (Nat × List (Constraint K P) × List K)} {evs : List Ev}
    {A : Automaton K P} (h : buildTL toTree req fuel patterns evs = .ok A)
    (hS : ∀ p ∈ patterns, ∀ keys, prereqOrdered req keys = true → S (p.1, keys)) :
    c09b_MFrom S A := by
  rw [C08.buildTL_eq_buildWith] at h
  obtain ⟨a1, a2, h1, h2, h3⟩ := C08.buildWith_parts h
  have H1 : c09b_MFrom S a1 := by
    refine c09b_mfrom_addPatterns hacy fuel patterns new a1 hS h1 ?_
    intro s w hw m hm
    rw [new_no_matches s w hw] at hm
    cases hm
  exact c09b_mfrom_populateScopes h3 (C08.mfrom_mainLoopWith C08.detMFrom_makeDetL _ _ _ h2 H1)

/-- **Every clause of `WF` except (c)** for every automaton the replay of the Rust loop returns on
a rank-acyclic scheme: any decomposition, any pattern list, any accepted event log. -/
theorem buildTL_butC {req : K → List K} (hacy : RankAcyclic req) {fuel : Nat}
    {patterns : List (Nat × List (Constraint K P) × List K)} {evs : List Ev} {A : Automaton K P}
    (h : buildTL toTree req fuel patterns evs = .ok A) :
    A.g.WF ∧ A.WFButC req (patterns.map (·.1)) := by
  obtain ⟨inv, H, ⟨rank, hr⟩, I⟩ := buildTL_inv_hasIn h
  have hm : c09b_MFrom (fun m : Nat × List K => PrereqOrdered req m.2) A :=
    mfrom_buildTL hacy h fun _ _ keys hk => (prereqOrdered_iff req keys).1 hk
  have h' := h
  rw [C08.buildTL_eq_buildWith] at h'
  obtain ⟨a1, a2, _, _, h3⟩ := C08.buildWith_parts h'
  have hsame := populateScopes_sameButScope h3
  refine ⟨inv.wf, ⟨rank, hr⟩, path_of_hasIn inv H rank hr, c09b_noSelfLoop_of_inv inv,
    c09b_orders_of_inv inv, fun pid hp => ?_, fun s w hw => ⟨?_, hm s w hw⟩,
    c09_populateScopes_scopeCovers hacy h3⟩
  · obtain ⟨s, w, hw, hp'⟩ := I pid hp
    obtain ⟨m, hm', rfl⟩ := List.mem_map.1 hp'
    exact ⟨s, w, m.2, hw, hm'⟩
  · refine populateScopes_po hacy h3 ?_ s w hw
    intro s' w' hw' m hmem
    obtain ⟨w'', hw'', he⟩ := hsame.weight?_symm hw'
    refine hm s' w'' hw'' m ?_
    rw [he]; exact hmem

end C09TL
end Pm
