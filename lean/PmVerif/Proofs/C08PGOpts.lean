/-
Proofs/C08PGOpts.lean — the one panic of the port-graph domain that the engine model does not
see: `pgDomain.opts = (pgOptsP · · ·).getD []` collapses the `expect` of `find_root_candidates`
(`nodes_with_free_ports`: the root of a traversed path is not bound) into "no options".
It is unreachable on EVERY built automaton (single- or MULTI-root):
* `PathRoots m` — whenever a key `along r _ _` is bound in `m`, so is `root r`;
* `pgOptsP_isSome` — on such a binding `list_bind_options` never reaches the `expect`;
* `pgSafe_roots` — `PathRoots` is an invariant of the traversal (`C08.RunSafe`): it holds of the
  empty binding, is kept by every bind of a value the host offers (`list_bind_options` offers
  nothing for `along r _ _` while `root r` is unbound) and by `retain_keys` of a
  prerequisite-ordered scope (`c09_built_scopes_ordered`: every scope of a built automaton is);
  hence (`C08.bindAll_inv`, `C08.conf_succ`) every binding the engine ever hands to
  `list_bind_options` satisfies it.
Everything lives in `namespace Pm.C08PG`.
-/
import PmVerif.Proofs.C08PGRun
import PmVerif.Props.C09Reach
namespace Pm
namespace C08PG
open Automaton C08

/-- The root of every bound path key is bound. -/
def PathRoots (m : PGMap) : Prop :=
  ∀ r p l, (alGet m (.along r p l)).isSome = true → (alGet m (.root r)).isSome = true

theorem pathRoots_nil : PathRoots [] := fun _ _ _ h => by cases h

theorem alGet_isSome_of_mem {m : PGMap} {k : PGKey} {v : Nat} (h : (k, v) ∈ m) :
    (alGet m k).isSome = true := by
  induction m with
  | nil => cases h
  | cons kv m ih =>
    obtain ⟨k', v'⟩ := kv
    by_cases hk : k' = k
    · simp [alGet, hk]
    · simp only [alGet, hk, if_false]
      rcases List.mem_cons.1 h with h | h
      · cases h; exact absurd rfl hk
      · exact ih h

/-! ### `nodes_with_free_ports` does not hit its `expect` -/

theorem foldl_inv_mem {α β : Type} (f : β → α → β) (P : β → Prop) :
    ∀ (l : List α) (init : β), (∀ b a, a ∈ l → P b → P (f b a)) → P init → P (l.foldl f init)
  | [], init, _, h0 => h0
  | a :: l, init, hstep, h0 => by
    rw [List.foldl_cons]
    exact foldl_inv_mem f P l (f init a)
      (fun b a' ha' => hstep b a' (List.mem_cons_of_mem _ ha'))
      (hstep init a List.mem_cons_self h0)

theorem nodesWithFreePorts_isSome (g : PortGraph) {m : PGMap} (hI : PathRoots m) :
    (nodesWithFreePorts g m).isSome = true := by
  unfold nodesWithFreePorts
  extract_lets roots paths step
  have hpaths : ∀ x ∈ paths, (alGet m (.root x.1.1)).isSome = true := by
    have hP : ∀ x ∈ paths, ∃ l v, (PGKey.along x.1.1 x.1.2 l, v) ∈ m := by
      refine foldl_inv_mem _ (fun acc : List ((Nat × POff) × Nat) =>
        ∀ x ∈ acc, ∃ l v, (PGKey.along x.1.1 x.1.2 l, v) ∈ m) m [] ?_ (fun x hx => by cases hx)
      intro acc kv hkv hacc x hx
      obtain ⟨k, v⟩ := kv
      cases k with
      | root i => exact hacc x hx
      | along r p l =>
        simp only at hx
        split at hx
        · obtain ⟨y, hy, rfl⟩ := List.mem_map.1 hx
          split
          · next he =>
            obtain ⟨l', v', h'⟩ := hacc y hy
            exact ⟨l', v', h'⟩
          · exact hacc y hy
        · rcases List.mem_append.1 hx with h1 | h1
          · exact hacc x h1
          · rw [List.mem_singleton.1 h1]
            exact ⟨l, v, hkv⟩
    intro x hx
    obtain ⟨l, v, hmem⟩ := hP x hx
    exact hI _ _ _ (alGet_isSome_of_mem hmem)
  have hfold : ∀ (l : List ((Nat × POff) × Nat)) (acc : List (Nat × List Port)),
      (∀ x ∈ l, (alGet m (.root x.1.1)).isSome = true) →
      (l.foldl step (some acc)).isSome = true := by
    intro l
    induction l with
    | nil => intro acc _; rfl
    | cons pl l ih =>
      intro acc hl
      rw [List.foldl_cons]
      obtain ⟨rn, hrn⟩ := Option.isSome_iff_exists.1 (hl pl List.mem_cons_self)
      have : ∃ acc', step (some acc) pl = some acc' := by
        simp only [step, hrn]
        exact ⟨_, rfl⟩
      obtain ⟨acc', hacc'⟩ := this
      rw [hacc']
      exact ih acc' fun x hx => hl x (List.mem_cons_of_mem _ hx)
  have := hfold paths [] hpaths
  obtain ⟨fp, hfp⟩ := Option.isSome_iff_exists.1 this
  rw [hfp]
  rfl

/-- `find_root_candidates` does not panic on a binding with bound path roots. -/
theorem findRootCandidates_isSome (g : PortGraph) {m : PGMap} (hI : PathRoots m) :
    (findRootCandidates g m).isSome = true := by
  unfold findRootCandidates
  obtain ⟨free, hfree⟩ := Option.isSome_iff_exists.1 (nodesWithFreePorts_isSome g hI)
  simp only [hfree]
  rfl

/-- **`list_bind_options` never reaches the `expect`** on a binding with bound path roots. -/
theorem pgOptsP_isSome (g : PortGraph) (k : PGKey) {m : PGMap} (hI : PathRoots m) :
    (pgOptsP g k m).isSome = true := by
  unfold pgOptsP
  split
  · rfl
  · split
    · rfl
    · split
      · rfl
      · exact findRootCandidates_isSome g hI
    · split <;> rfl

/-! ### the invariant through the engine -/

theorem pathRoots_bind {g : PortGraph} {m m' : PGMap} {k : PGKey} {v : Nat} (hI : PathRoots m)
    (hv : v ∈ pgOpts g k m) (hb : alBind m k v = .ok m') : PathRoots m' := by
  unfold alBind at hb
  cases hg : alGet m k with
  | some v' =>
    rw [hg] at hb
    simp only at hb
    split at hb
    · cases hb; exact hI
    · cases hb
  | none =>
    rw [hg] at hb
    cases hb
    -- a bound key stays bound
    have hmono : ∀ k', (alGet m k').isSome = true → (alGet (m ++ [(k, v)]) k').isSome = true := by
      intro k' hk'
      obtain ⟨w, hw⟩ := Option.isSome_iff_exists.1 hk'
      rw [alGet_append_of_some m _ _ w hw]
      rfl
    intro r p l hbound
    cases hold : alGet m (.along r p l) with
    | some w => exact hmono _ (hI r p l (by rw [hold]; rfl))
    | none =>
      -- the path key was bound just now: its root is bound, else nothing was offered
      rw [alGet_append_of_none m _ _ hold, alGet_singleton] at hbound
      split at hbound
      · next hk =>
        subst hk
        cases hroot : alGet m (.root r) with
        | some w => exact hmono _ (by rw [hroot]; rfl)
        | none =>
          exfalso
          have : pgOpts g (.along r p l) m = [] := by
            simp [pgOpts, pgOptsP, hold, hroot]
          rw [this] at hv
          cases hv
      · cases hbound

/-- A key list is closed under the path-root prerequisite. -/
def RootClosed (ks : List PGKey) : Prop := ∀ r p l, PGKey.along r p l ∈ ks → PGKey.root r ∈ ks

theorem rootClosed_of_prereqOrdered {ks : List PGKey} (h : PrereqOrdered pgReq ks) :
    RootClosed ks := by
  intro r p l hmem
  obtain ⟨i, hi⟩ := List.mem_iff_getElem?.1 hmem
  have := h i _ hi (.root r) (by simp [pgReq])
  exact List.mem_of_mem_take this

theorem pathRoots_retain {m : PGMap} {ks : List PGKey} (hI : PathRoots m) (hc : RootClosed ks) :
    PathRoots (alRetain m ks) := by
  intro r p l hb
  rw [alGet_retain] at hb ⊢
  split at hb
  · next hk =>
    rw [if_pos (hc r p l hk)]
    exact hI r p l hb
  · cases hb

/-- **`PathRoots` is an invariant of the traversal** of every port-graph automaton with
`OrdersOK`, a live root, arity-correct constraints and prerequisite-ordered scopes, on any host. -/
theorem pgSafe_roots {A : Automaton PGKey PGPred} (h : PortGraph) (ok : OrdersOK A)
    (hroot : ∃ w, A.g.weight? A.root = some w) (har : ArityOK A)
    (hsc : ∀ s w, A.g.weight? s = some w → PrereqOrdered pgReq w.scope) :
    RunSafe pgDomain A h PathRoots where
  ok := ok
  root := hroot
  empty := pathRoots_nil
  bind := fun _ _ _ _ hI hv hb => pathRoots_bind hI hv hb
  scope := fun s w hw m hI =>
    ⟨alRetain m w.scope, rfl, pathRoots_retain hI (rootClosed_of_prereqOrdered (hsc s w hw))⟩
  keys := fun _ _ _ _ ks _ m _ => ⟨alRetain m ks, rfl⟩
  sat := by
    intro s w hw t ht e c he hc m _
    apply satOrFalse_isSome
    intro vs hvs
    exact tpg_check_total c.pred h vs (hvs.trans (har s w hw t ht e c he hc))


/-! ### generic: the invariant of `RunSafe` holds of every reachable configuration -/

theorem reach_inv_of_runSafe {K V P H M : Type} [DecidableEq K] [DecidableEq V] [DecidableEq P]
    {D : Domain K V P H M} {a : Automaton K P} {h : H} {I : M → Prop} (S : RunSafe D a h I)
    {s : Nat} {m : M} (hr : Reach D a h s m) : I m := by
  have step : ∀ {s m w cands m'}, I m → a.g.weight? s = some w →
      stepCands D h w m = .ok cands → m' ∈ cands → I m' := by
    intro s m w cands m' hm hw hc hm'
    unfold stepCands at hc
    obtain ⟨x, hx, hret⟩ := (mem_retainAll hc m').mp hm'
    have hall := bindAll_inv D.map D.opts h true I S.bind m hm w.scope x hx
    obtain ⟨m'', h1, h2⟩ := S.scope s w hw x hall
    rw [h1] at hret
    cases hret
    exact h2
  induction hr with
  | root => exact S.empty
  | con _ hw hc hm' _ _ _ _ ih => exact step ih hw hc hm'
  | eps _ hw hc hm' _ _ _ ih => exact step ih hw hc hm'


/-! ### the baseline -/

/-- Every candidate binding of the baseline, at every level, has bound path roots. -/
theorem singleLevels_pathRoots (h : PortGraph) (mbFuel : Nat) :
    ∀ (cs : List PGCons) (ms : List PGMap), (∀ m ∈ ms, PathRoots m) →
      ∀ m ∈ singleLevels pgDomain h mbFuel cs ms, PathRoots m
  | [], ms, hms => hms
  | c :: cs, ms, hms => by
    unfold singleLevels
    apply singleLevels_pathRoots h mbFuel cs
    intro m' hm'
    obtain ⟨m, hm, hm''⟩ := List.mem_flatMap.1 hm'
    have hmem := (List.mem_filter.1 hm'').1
    exact bindAll_inv assocMap pgOpts h false PathRoots
      (fun _ _ _ _ hI hv hb => pathRoots_bind hI hv hb) m (hms m hm) _ m' hmem

end C08PG
end Pm
