/-
Proofs/C08PGFuel.lean — C08 for port graphs, fuel sufficiency of the build, generic part 1:
`add_pattern` and `populate_scopes` with the policy for the fuel of `all_missing_bindings`
RELATIVISED to the keys satisfying a predicate `Pk` (`MBOKOn`): `Proofs/C08Total6.lean` asks that
`all_missing_bindings` cannot run out of fuel on ANY key list (`MBOK`), which is false of `pgReq`
for every fixed fuel (`root i` needs fuel growing with `i`), but all key lists the build ever
passes are arguments of pattern constraints, extra keys, or arguments of edge constraints.
`pgReq` restricted to single-root keys is the star scheme with centre `root 0`
(`allMissing_pg_eq_star`): 16 steps suffice (`mbOKOn_pg`).
Everything lives in `namespace Pm.C08PG`.
-/
import PmVerif.Proofs.C08PGBuildT
import PmVerif.Proofs.C08Fuel
import PmVerif.Proofs.MatProgScopes
import PmVerif.Proofs.AnchGBind
namespace Pm
namespace C08PG
open Automaton C08 AnchG
variable {K P : Type} [DecidableEq K] [DecidableEq P]
set_option linter.unusedSectionVars false

variable {A : Err → Prop} {Pk : K → Prop}

/-- The policy allows the fuel error of `all_missing_bindings` whenever it can occur on a list of
`Pk` keys. -/
def MBOKOn (Pk : K → Prop) (A : Err → Prop) (req : K → List K) (fuel : Nat) : Prop :=
  ∀ keys known, (∀ k ∈ keys, Pk k) → allMissingBindings req keys known fuel = none →
    ∀ t, A (.fuel t)

theorem mbOKOn_of_mbOK {req : K → List K} {fuel : Nat} (h : MBOK A req fuel) :
    MBOKOn Pk A req fuel := fun keys known _ hn => h keys known hn

/-! ### `add_pattern` -/

theorem addPatternLoop_onlyOn {req : K → List K} {fuel : Nat} (hmb : MBOKOn Pk A req fuel) :
    ∀ (cs : List (Constraint K P)) {a : Automaton K P} (s : Nat) (keys : List K),
      (∀ c ∈ cs, ∀ k ∈ c.args, Pk k) → Inv a →
      a.Live s → Only A (addPatternLoop req fuel a s keys cs) ∧
        ∀ r, addPatternLoop req fuel a s keys cs = .ok r →
          Inv r.1 ∧ r.1.Live r.2.1 ∧ r.1.root = a.root ∧ ∀ x, a.Live x → r.1.Live x
  | [], a, s, keys, _, inv, hs => by
    unfold addPatternLoop
    exact ⟨Only.ok _ _, fun r h => by cases h; exact ⟨inv, hs, rfl, fun _ h => h⟩⟩
  | c :: cs, a, s, keys, hcs, inv, hs => by
    unfold addPatternLoop
    cases hm : allMissingBindings req c.args keys fuel with
    | none => exact ⟨Only.err (hmb _ _ (hcs c List.mem_cons_self) hm _), fun r h => by cases h⟩
    | some more =>
      simp only
      obtain ⟨⟨a1, s'⟩, h1⟩ := addTransition_total inv (some c) hs
      rw [h1]
      simp only
      obtain ⟨e, sp⟩ := addTransition_spec inv hs h1
      have hl1 : ∀ x, a.Live x → a1.Live x := by
        intro x hx
        obtain ⟨w, hw⟩ := live_iff.1 hx
        rw [live_iff, sp.wt]
        split
        · exact ⟨_, rfl⟩
        · split
          · rename_i hxp; subst hxp; rw [hw]; exact ⟨_, rfl⟩
          · exact ⟨w, hw⟩
      obtain ⟨hf, hk⟩ := addPatternLoop_onlyOn hmb cs s' (keys ++ more)
        (fun c' hc' => hcs c' (List.mem_cons_of_mem _ hc'))
        sp.inv (live_of_weight (by rw [sp.wt, if_pos rfl]))
      refine ⟨hf, fun r h => ?_⟩
      obtain ⟨i1, i2, i3, i4⟩ := hk r h
      exact ⟨i1, i2, i3.trans sp.root, fun x hx => i4 x (hl1 x hx)⟩

theorem addPattern_onlyOn {req : K → List K} {fuel : Nat} (hmb : MBOKOn Pk A req fuel)
    {a : Automaton K P}
    (cs : List (Constraint K P)) (pid : Nat) (extra : List K)
    (hcs : ∀ c ∈ cs, ∀ k ∈ c.args, Pk k) (hex : ∀ k ∈ extra, Pk k) (inv : Inv a)
    (hroot : a.Live a.root) : Only A (addPattern req fuel a cs pid extra) ∧
      ∀ a', addPattern req fuel a cs pid extra = .ok a' → Inv a' ∧ a'.Live a'.root := by
  unfold addPattern
  cases hm : allMissingBindings req extra [] fuel with
  | none => exact ⟨Only.err (hmb _ _ hex hm _), fun a' h => by cases h⟩
  | some keys0 =>
    simp only
    obtain ⟨hf, hk⟩ := addPatternLoop_onlyOn hmb cs a.root keys0 hcs inv hroot
    cases hl : addPatternLoop req fuel a a.root keys0 cs with
    | error e => exact ⟨hf.error hl, fun a' h => by cases h⟩
    | ok v =>
      obtain ⟨a1, s, keys⟩ := v
      simp only
      obtain ⟨inv1, hs1, hr1, hl1⟩ := hk _ hl
      obtain ⟨a2, h2⟩ := addMatch_total (a := a1) pid keys hs1
      rw [h2]
      refine ⟨Only.ok _ _, fun a' h => ?_⟩
      cases h
      have sp := addMatch_spec inv1 h2
      refine ⟨sp.inv, ?_⟩
      rw [sp.root]
      have hr : a1.Live a1.root := hr1 ▸ hl1 _ hroot
      obtain ⟨w, hw⟩ := live_iff.1 hr
      by_cases hx : a1.root = s
      · obtain ⟨_, w', _, hw', _⟩ := sp.wt
        have hw'' : a2.g.weight? s = some w' := hw'
        rw [hx]
        exact live_of_weight hw''
      · exact live_of_weight ((sp.wt_ne _ hx).trans hw)

theorem addPatterns_onlyOn {req : K → List K} {fuel : Nat} (hmb : MBOKOn Pk A req fuel) :
    ∀ (patterns : List (Nat × List (Constraint K P) × List K)) {a : Automaton K P},
      (∀ p ∈ patterns, (∀ c ∈ p.2.1, ∀ k ∈ c.args, Pk k) ∧ ∀ k ∈ p.2.2, Pk k) → Inv a →
      a.Live a.root → Only A (addPatterns req fuel a patterns)
  | [], a, _, _, _ => by unfold addPatterns; exact Only.ok _ _
  | (pid, cs, extra) :: ps, a, hp, inv, hroot => by
    unfold addPatterns
    obtain ⟨h1, h2⟩ := hp _ List.mem_cons_self
    obtain ⟨hf, hk⟩ := addPattern_onlyOn hmb cs pid extra h1 h2 inv hroot
    cases h1 : addPattern req fuel a cs pid extra with
    | error e => exact hf.error h1
    | ok a1 =>
      simp only
      obtain ⟨inv1, hr1⟩ := hk a1 h1
      exact addPatterns_onlyOn hmb ps (fun p hp' => hp p (List.mem_cons_of_mem _ hp')) inv1 hr1

/-! ### `populate_scopes` -/

theorem forwardScopes_onlyOn {req : K → List K} {fuel : Nat} (hmb : MBOKOn Pk A req fuel)
    {a : Automaton K P} (inv : Inv a) (hQ : MatProg.EdgeKeys Pk a) :
    ∀ (ns : List Nat) (acc : List (Nat × List K)),
      Only A (forwardScopes req fuel a ns acc) ∧
      ∀ fwd, forwardScopes req fuel a ns acc = .ok fwd →
        ∀ x, (x ∈ ns ∨ (alGet acc x).isSome) → (alGet fwd x).isSome
  | [], acc => by
    unfold forwardScopes
    refine ⟨Only.ok _ _, fun fwd h x hx => ?_⟩
    cases h
    rcases hx with hx | hx
    · cases hx
    · exact hx
  | n :: ns, acc => by
    unfold forwardScopes
    simp only
    have hfine : Only A (mapR (fun (es : Nat × Nat) =>
        match a.constraintOf es.1 with
        | .error e => (.error e : R (List K))
        | .ok c =>
          match allMissingBindings req (match c with | some c => c.args | none => [])
            ((alGet acc es.2).getD []) fuel with
          | none => .error (.fuel "all_missing_bindings")
          | some more => .ok ((alGet acc es.2).getD [] ++ more)) (a.g.inEdges n)) := by
      apply mapR_only
      intro es hes
      obtain ⟨t, p⟩ := es
      obtain ⟨ed, hed, _, _⟩ := (SGraph.mem_inEdges inv.wf).1 hes
      simp only [constraintOf_ok_iff.2 ⟨ed, hed, rfl⟩]
      split
      · rename_i hm
        refine Only.err (hmb _ _ ?_ hm _)
        cases hw : ed.w with
        | none => intro k hk; cases hk
        | some c => exact hQ t ed c hed hw
      · exact Only.ok _ _
    split
    · rename_i e he
      exact ⟨Only.error hfine he, fun fwd h => by cases h⟩
    · rename_i scopes hsc
      obtain ⟨hf, hk⟩ := forwardScopes_onlyOn hmb inv hQ ns
        (acc ++ [(n, (reduceOpt (fun x y => x.filter fun k => y.contains k) scopes).getD [])])
      refine ⟨hf, fun fwd h x hx => hk fwd h x ?_⟩
      rcases hx with hx | hx
      · rcases List.mem_cons.1 hx with hx | hx
        · exact .inr (alGet_isSome_append acc n _ x (.inl hx))
        · exact .inl hx
      · exact .inr (alGet_isSome_append acc n _ x (.inr hx))

theorem setScopes_onlyOn {req : K → List K} {fuel : Nat} (hmb : MBOKOn Pk A req fuel)
    {fwd bwd : List (Nat × List K)} :
    ∀ (ns : List Nat) {a : Automaton K P}, Inv a → MatProg.EdgeKeys Pk a →
      (∀ n ∈ ns, a.Live n ∧ (alGet fwd n).isSome ∧ (alGet bwd n).isSome) →
      Only A (setScopes req fuel fwd bwd a ns)
  | [], a, _, _, _ => by unfold setScopes; exact Only.ok _ _
  | n :: ns, a, inv, hQ, hns => by
    obtain ⟨hl, hf, hb⟩ := hns n List.mem_cons_self
    obtain ⟨f, hf'⟩ := Option.isSome_iff_exists.1 hf
    obtain ⟨b, hb'⟩ := Option.isSome_iff_exists.1 hb
    unfold setScopes
    rw [hf', hb']
    simp only
    obtain ⟨cs, hcs⟩ := constraintsAt_total inv hl
    rw [hcs]
    simp only
    cases hm : allMissingBindings req (cs.flatMap (·.args)) (f.filter fun k => b.contains k)
        fuel with
    | none =>
      refine Only.err (hmb _ _ ?_ hm _)
      intro k hk
      obtain ⟨c, hc, hkc⟩ := List.mem_flatMap.1 hk
      obtain ⟨t, e, he, hw⟩ := MatProg.constraintsAt_mem hcs c hc
      exact hQ t e c he hw k hkc
    | some more =>
      simp only
      rw [modifyState_of_live _ hl]
      simp only
      obtain ⟨inv1, hw1⟩ := setScope_frame inv n ((f.filter fun k => b.contains k) ++ more)
      refine setScopes_onlyOn hmb ns inv1 (fun t e c he hw => hQ t e c he hw) fun m hm => ?_
      obtain ⟨hlm, h2, h3⟩ := hns m (List.mem_cons_of_mem _ hm)
      refine ⟨?_, h2, h3⟩
      obtain ⟨w, hw⟩ := live_iff.1 hlm
      have := hw1 m
      rw [hw] at this
      rw [live_iff]
      cases hx : (a.g.setWeight n fun w =>
          { w with scope := (f.filter fun k => b.contains k) ++ more }).weight? m with
      | none => rw [hx] at this; cases this
      | some w' => exact ⟨w', rfl⟩

/-- **`populate_scopes`** with the relativised policy. -/
theorem populateScopes_onlyOn {req : K → List K} {fuel : Nat} (hmb : MBOKOn Pk A req fuel)
    {a : Automaton K P} (inv : Inv a) (hQ : MatProg.EdgeKeys Pk a) :
    Only (OrAcyclic A) (populateScopes req fuel a) := by
  unfold populateScopes
  cases ho : a.topoOrder with
  | none => exact Only.err (.inr rfl)
  | some order =>
    simp only
    obtain ⟨_, hmem, _⟩ := topoOrder_spec ho
    obtain ⟨hff, hfk⟩ := forwardScopes_onlyOn hmb inv hQ order []
    obtain ⟨hbf, hbk⟩ := backwardScopes_only (A := A) inv order.reverse []
    cases hfw : forwardScopes req fuel a order [] with
    | error e => exact (hff.error hfw).mono fun _ h => .inl h
    | ok fwd =>
      cases hbw : backwardScopes a order.reverse [] with
      | error e => exact (hbf.error hbw).mono fun _ h => .inl h
      | ok bwd =>
        simp only
        refine (setScopes_onlyOn hmb _ inv hQ fun n hn => ?_).mono fun _ h => .inl h
        have hl : a.g.containsNode n = true := SGraph.mem_nodeIndices.1 hn
        refine ⟨hl, hfk fwd hfw n (.inl ((hmem n).2 hl)), hbk bwd hbw n (.inl ?_)⟩
        exact List.mem_reverse.2 ((hmem n).2 hl)

/-! ### the disciplined builds -/

variable {Q : Constraint K P → Prop}

/-- **The disciplined build** with the relativised `all_missing_bindings` policy and the
informed `add_constraint_tree` policy. -/
theorem buildWith_onlyOn (hg : ∀ e, IsGuard e → A e)
    {det : Automaton K P → Nat → R (Automaton K P)} (hdet : DetOKQ Q det)
    {σ : Constraint K P → Bool}
    {toTree : List (Constraint K P) → Option (CTree (Constraint K P))} (hT : TreeQ σ Q toTree)
    (htot : TreeTot A Q toTree)
    (req : K → List K) (fuel : Nat) (htree : TreeStepOKQ A Q toTree fuel)
    (hmb : MBOKOn Pk A req fuel) (hQk : ∀ c, Q c → ∀ k ∈ c.args, Pk k)
    (patterns : List (Nat × List (Constraint K P) × List K))
    (hp : ∀ p ∈ patterns, ∀ c ∈ p.2.1, Q c) (hex : ∀ p ∈ patterns, ∀ k ∈ p.2.2, Pk k)
    (evs : List Ev) :
    Only (OrAcyclic A) (buildWith det toTree req fuel patterns evs) := by
  unfold buildWith
  obtain ⟨inv0, _, rs0, _, _⟩ := new_spec (K := K) (P := P)
  have hf := addPatterns_onlyOn hmb patterns
    (fun p hpm => ⟨fun c hc => hQk c (hp p hpm c hc), hex p hpm⟩) inv0 rs0.1
  cases h : addPatterns req fuel (new : Automaton K P) patterns with
  | error e => exact (hf.error h).mono fun _ h => .inl h
  | ok a =>
    simp only
    have bi := bq_addPatterns hp h
    unfold finishWith
    obtain ⟨hfm, hb⟩ := mainLoopWith_onlyQ hg hdet hT htot fuel htree evs.length [] evs bi
      (.inr (Nat.le_refl _))
    cases hm : mainLoopWith det toTree fuel evs.length a [] evs with
    | error e => exact (hfm.error hm).mono fun _ h => .inl h
    | ok a2 =>
      have bi2 := hb a2 hm
      exact populateScopes_onlyOn hmb bi2.inv fun t e c he hw => hQk c (bi2.eq t e c he hw)

end C08PG

/-! ### the port-graph scheme on single-root keys is the star scheme -/

namespace C08PG
open Automaton C08 AnchG

/-- The key of a frame. -/
def frameKey {K : Type} : Frame K → K
  | .enter k => k
  | .exit k => k

theorem pgReq_eq_star {k : PGKey} (hk : SR k) : pgReq k = Baseline.starReq (PGKey.root 0) k := by
  rcases hk with rfl | ⟨p, l, rfl⟩
  · rfl
  · rfl

theorem mbLoop_pg_eq_star (known : List PGKey) :
    ∀ (fuel : Nat) (st : List (Frame PGKey)) (vis out : List PGKey),
      (∀ f ∈ st, SR (frameKey f)) →
      mbLoop pgReq known fuel st vis out =
        mbLoop (Baseline.starReq (PGKey.root 0)) known fuel st vis out := by
  intro fuel
  induction fuel with
  | zero =>
    intro st vis out _
    cases st <;> rfl
  | succ fuel ih =>
    intro st vis out hst
    cases st with
    | nil => rfl
    | cons f st =>
      have hst' : ∀ f' ∈ st, SR (frameKey f') := fun f' hf' => hst f' (List.mem_cons_of_mem _ hf')
      cases f with
      | enter k =>
        have hk : SR k := hst _ List.mem_cons_self
        simp only [mbLoop]
        rw [← pgReq_eq_star hk]
        split
        · exact ih st vis out hst'
        · apply ih
          intro f' hf'
          rcases List.mem_append.1 hf' with h1 | h1
          · obtain ⟨r, hr, rfl⟩ := List.mem_map.1 h1
            have hr' : r ∈ pgReq k := (List.mem_filter.1 (List.mem_reverse.1 hr)).1
            rcases hk with rfl | ⟨p, l, rfl⟩
            · cases hr'
            · rw [List.mem_singleton.1 hr']
              exact .inl rfl
          · rcases List.mem_cons.1 h1 with rfl | h1
            · exact hk
            · exact hst' f' h1
      | exit k =>
        simp only [mbLoop]
        exact ih st vis _ hst'

theorem allMissingLoop_pg_eq_star (fuel : Nat) :
    ∀ (keys known out : List PGKey), (∀ k ∈ keys, SR k) →
      allMissingLoop pgReq fuel keys known out =
        allMissingLoop (Baseline.starReq (PGKey.root 0)) fuel keys known out := by
  intro keys
  induction keys with
  | nil => intro known out _; rfl
  | cons k ks ih =>
    intro known out hks
    have hks' : ∀ k' ∈ ks, SR k' := fun k' hk' => hks k' (List.mem_cons_of_mem _ hk')
    simp only [allMissingLoop]
    split
    · exact ih known out hks'
    · have hm : missingBindings pgReq known k fuel =
          missingBindings (Baseline.starReq (PGKey.root 0)) known k fuel := by
        unfold missingBindings
        split
        · rfl
        · apply mbLoop_pg_eq_star
          intro f hf
          rw [List.mem_singleton.1 hf]
          exact hks k List.mem_cons_self
      rw [hm]
      cases missingBindings (Baseline.starReq (PGKey.root 0)) known k fuel with
      | none => rfl
      | some missing => exact ih _ _ hks'

/-- On single-root keys `all_missing_bindings` of the port-graph scheme is that of the star scheme
with centre `root 0`. -/
theorem allMissing_pg_eq_star (keys known : List PGKey) (fuel : Nat) (hks : ∀ k ∈ keys, SR k) :
    allMissingBindings pgReq keys known fuel =
      allMissingBindings (Baseline.starReq (PGKey.root 0)) keys known fuel :=
  allMissingLoop_pg_eq_star fuel keys known [] hks

/-- `all_missing_bindings` of the port-graph scheme does not run out of fuel `≥ 16` on single-root
keys. -/
theorem mbOKOn_pg (A : Err → Prop) {fuel : Nat} (hfuel : 16 ≤ fuel) : MBOKOn SR A pgReq fuel := by
  intro keys known hks hnone
  rw [allMissing_pg_eq_star keys known fuel hks] at hnone
  exact mbOK_star A (PGKey.root 0) hfuel keys known hnone

end C08PG
end Pm
