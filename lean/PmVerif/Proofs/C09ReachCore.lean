/-
Proofs/C09ReachCore.lean — clause (b) of C09 (every live state is reachable from the root) for
every build: the LOCAL invariant `HasIn` ("every live state other than the root is the target of
a live transition"), its preservation by the primitive and composite edits of
Model/Automaton.lean, by `make_constraints_unique`, `make_det` and `try_merge_new_nodes`
(Model/Builder.lean), and the passage from `HasIn` + acyclicity to reachability.

`insert_constraint_tree` is in Proofs/C09ReachTree.lean, the main loop in Proofs/C09ReachMain.lean.
-/
import PmVerif.Proofs.C09BuiltLemmas
namespace Pm
namespace C09R
open Automaton
variable {K P : Type}

/-- Every live state other than the root is the target of a live transition. -/
def HasIn (a : Automaton K P) : Prop :=
  ∀ x, a.Live x → x ≠ a.root → ∃ t e, a.g.edge? t = some e ∧ e.dst = x

/-- `HasIn` except for the states listed in `R` (states waiting to be re-attached or removed). -/
def HasInEx (a : Automaton K P) (R : List Nat) : Prop :=
  ∀ x, a.Live x → x ≠ a.root → x ∉ R → ∃ t e, a.g.edge? t = some e ∧ e.dst = x

theorem hasInEx_nil {a : Automaton K P} : HasInEx a [] ↔ HasIn a :=
  ⟨fun h x hx hr => h x hx hr (by simp), fun h x hx hr _ => h x hx hr⟩

/-- The generic transfer: new states come with an incoming transition, and every old transition
into a surviving state has a substitute. -/
theorem hasIn_transfer {a a' : Automaton K P} (H : HasIn a) (hroot : a'.root = a.root)
    (hlive : ∀ x, a'.Live x → a.Live x ∨ ∃ t e, a'.g.edge? t = some e ∧ e.dst = x)
    (hedge : ∀ t e, a.g.edge? t = some e → a'.Live e.dst →
      ∃ t' e', a'.g.edge? t' = some e' ∧ e'.dst = e.dst) : HasIn a' := by
  intro x hx hxr
  rcases hlive x hx with h | h
  · obtain ⟨t, e, he, hd⟩ := H x h (fun hr => hxr (hr.trans hroot.symm))
    subst hd
    exact hedge t e he hx
  · exact h

/-! ### primitive and composite edits -/

theorem hasIn_grows {a a' : Automaton K P} {dst : Nat}
    {New : Option (Constraint K P) → Nat → Prop} (g : Grows a a' dst New) (H : HasIn a) :
    HasIn a' :=
  hasIn_transfer H g.root (fun x hx => .inl ((g.live_iff x).1 hx))
    (fun t e he _ => ⟨t, e, g.old t e he, rfl⟩)

theorem hasIn_addMatches {a a' : Automaton K P} {s : Nat} {ids : List Nat}
    (sp : AddMatchesSpec a a' s ids) (H : HasIn a) : HasIn a' :=
  hasIn_transfer H sp.root (fun x hx => .inl ((sp.live_iff x).1 hx))
    (fun t e he _ => ⟨t, e, by rw [sp.edge]; exact he, rfl⟩)

theorem addMatchSpec_live {a a' : Automaton K P} {s pid : Nat} (sp : AddMatchSpec a a' s pid)
    {x : Nat} (h : a'.Live x) : a.Live x := by
  by_cases hx : x = s
  · obtain ⟨w, _, hw, _⟩ := sp.wt
    exact hx ▸ live_of_weight hw
  · obtain ⟨w, hw⟩ := live_iff.1 h
    exact live_of_weight ((sp.wt_ne x hx).symm.trans hw)

theorem hasIn_addMatch {a a' : Automaton K P} {s pid : Nat} (sp : AddMatchSpec a a' s pid)
    (H : HasIn a) : HasIn a' :=
  hasIn_transfer H sp.root (fun _ hx => .inl (addMatchSpec_live sp hx))
    (fun t e he _ => ⟨t, e, by rw [sp.edge]; exact he, rfl⟩)

/-- A state live after `add_transition` is the fresh child or was live before. -/
theorem addTransitionSpec_live {a a' : Automaton K P} {p ch e : Nat}
    {c : Option (Constraint K P)} (sp : AddTransitionSpec a a' p ch c e) {x : Nat}
    (h : a'.Live x) : x = ch ∨ a.Live x := by
  by_cases hxc : x = ch
  · exact .inl hxc
  · right
    obtain ⟨w, hw⟩ := live_iff.1 h
    rw [sp.wt, if_neg hxc] at hw
    by_cases hxp : x = p
    · exact hxp ▸ sp.livep
    · rw [if_neg hxp] at hw
      exact live_of_weight hw

theorem addTransitionSpec_edge_child {a a' : Automaton K P} {p ch e : Nat}
    {c : Option (Constraint K P)} (sp : AddTransitionSpec a a' p ch c e) :
    a'.g.edge? e = some ⟨p, ch, c⟩ := by rw [sp.edge, if_pos rfl]

theorem hasIn_addTransition {a a' : Automaton K P} {p ch e : Nat}
    {c : Option (Constraint K P)} (sp : AddTransitionSpec a a' p ch c e) (H : HasIn a) :
    HasIn a' :=
  hasIn_transfer H sp.root
    (fun x hx => by
      rcases addTransitionSpec_live sp hx with h | h
      · exact .inr ⟨e, _, addTransitionSpec_edge_child sp, h.symm⟩
      · exact .inl h)
    (fun t ed he _ => ⟨t, ed, sp.old_edge he, rfl⟩)

theorem hasIn_split {a a' : Automaton K P} {t n : Nat} {ed : GEdge (Option (Constraint K P))}
    (sp : SplitSpec a a' t n ed) (H : HasIn a) : HasIn a' :=
  hasIn_transfer H sp.root
    (fun x hx => by
      by_cases hxn : x = n
      · exact .inr ⟨t, _, sp.edge_t, hxn.symm⟩
      · obtain ⟨w, hw⟩ := live_iff.1 hx
        exact .inl (live_of_weight ((sp.wt_ne x hxn).symm.trans hw)))
    (fun t0 e0 he0 _ => by
      by_cases ht : t0 = t
      · subst ht
        have := sp.live
        rw [he0] at this
        cases this
        obtain ⟨t', hne, e', he', hd'⟩ := sp.other
        exact ⟨t', e', sp.old t' e' hne he', hd'⟩
      · exact ⟨t0, e0, sp.old t0 e0 ht he0, rfl⟩)

theorem hasIn_splitTarget {a a' : Automaton K P} (inv : Inv a) {t tgt : Nat}
    (h : a.splitTarget t = .ok (a', tgt)) (H : HasIn a) : Inv a' ∧ HasIn a' := by
  rcases splitTarget_spec inv h with ⟨rfl, _, _⟩ | ⟨ed, sp⟩
  · exact ⟨inv, H⟩
  · exact ⟨sp.inv, hasIn_split sp H⟩

theorem hasIn_reflag {a a0 : Automaton K P} {s : Nat} {w : AState K} (r : Reflag a a0 s w)
    (H : HasIn a) : HasIn a0 :=
  hasIn_transfer H r.root (fun x hx => .inl ((r.live_iff x).1 hx))
    (fun t e he _ => ⟨t, e, by rw [r.edge]; exact he, rfl⟩)

/-- Folding `n` into its twin `first`: the children of `n` are children of `first`. -/
theorem hasIn_fold {a a' : Automaton K P} {first n : Nat} (f : Fold a a' first n)
    (tw : Twin a first n) (hne : first ≠ n) (H : HasIn a) : HasIn a' :=
  hasIn_transfer H f.root (fun x hx => .inl ((f.live_iff x).1 hx).1)
    (fun t e he hl => by
      have hdn : e.dst ≠ n := ((f.live_iff _).1 hl).2
      have hed := HasEdge.of_edge he
      by_cases hs : e.src = n
      · rw [hs] at hed
        obtain ⟨t', ht'⟩ := f.keep _ _ _ ((tw.out _ _).2 hed) hne hdn
        exact ⟨t', _, ht', rfl⟩
      · obtain ⟨t', ht'⟩ := f.keep _ _ _ hed hs hdn
        exact ⟨t', _, ht', rfl⟩)

/-! ### `make_det` -/

section Builder
variable [DecidableEq K] [DecidableEq P]
set_option linter.unusedSectionVars false

theorem hasIn_makeDetLoop {failTs : List Nat} {fm : List (Nat × List K)} :
    ∀ (ts : List Nat) {a a' : Automaton K P}, Inv a → HasIn a →
    a.makeDetLoop failTs fm ts = .ok a' → Inv a' ∧ HasIn a'
  | [], a, a', inv, H, h => by
    rw [makeDetLoop] at h; cases h; exact ⟨inv, H⟩
  | t :: ts, a, a', inv, H, h => by
    rw [makeDetLoop] at h
    split at h
    · cases h
    · rename_i a1 tgt hsp
      obtain ⟨inv1, H1⟩ := hasIn_splitTarget inv hsp H
      split at h
      · cases h
      · rename_i a2 hac
        obtain ⟨g, _⟩ := appendCopies_grows _ inv1 hac
        split at h
        · cases h
        · rename_i a3 ham
          have am := addMatches_spec _ g.inv ham
          exact hasIn_makeDetLoop ts am.inv (hasIn_addMatches am (hasIn_grows g H1)) h

/-- `make_det(s)` preserves the structural invariant and `HasIn` (no semantic hypothesis). -/
theorem hasIn_makeDet {a a' : Automaton K P} {s : Nat} (inv : Inv a) (H : HasIn a)
    (h : a.makeDet s = .ok a') : Inv a' ∧ HasIn a' := by
  unfold makeDet makeDetWith at h
  split at h
  · cases h
  · rename_i a0 wd hsd
    obtain ⟨w, _, r⟩ := setDeterministic_reflag inv hsd
    have H0 := hasIn_reflag r H
    split at h
    · cases h; exact ⟨r.inv, H0⟩
    · split at h
      · cases h
      · cases h; exact ⟨r.inv, H0⟩
      · split at h
        · rw [if_pos rfl] at h
          dsimp only at h
          split at h
          · cases h
          · exact hasIn_makeDetLoop _ r.inv H0 h
        · cases h
        · cases h
        · cases h

/-! ### `try_merge_new_nodes` -/

theorem hasIn_mergeLoop {first : Nat} :
    ∀ (rest : List Nat) {a a' : Automaton K P}, Inv a → (first :: rest).Nodup →
    (∀ m ∈ rest, Twin a first m) → HasIn a → a.mergeLoop first rest = .ok a' → HasIn a'
  | [], a, a', _, _, _, H, h => by
    unfold mergeLoop at h; cases h; exact H
  | n :: ns, a, a', inv, hnd, htw, H, h => by
    unfold mergeLoop at h
    split at h
    · cases h
    · rename_i a1 hmv
      have tw : Twin a first n := htw n List.mem_cons_self
      rw [List.nodup_cons] at hnd
      obtain ⟨hfn, hnd'⟩ := hnd
      rw [List.nodup_cons] at hnd'
      have hne : first ≠ n := fun hx => hfn (hx ▸ List.mem_cons_self)
      have f := fold_of_merge inv hne (tw.no_edge inv) hmv
      refine hasIn_mergeLoop ns f.inv ?_ ?_ (hasIn_fold f tw hne H) h
      · exact List.nodup_cons.2 ⟨fun hm => hfn (List.mem_cons_of_mem _ hm), hnd'.2⟩
      · intro m hm
        have hmn : m ≠ n := fun hx => hnd'.1 (hx ▸ hm)
        exact f.twin inv hne hmn tw (htw m (List.mem_cons_of_mem _ hm))

theorem hasIn_doMerge {a a' : Automaton K P} {node : Nat} {nodes : List Nat} (inv : Inv a)
    (H : HasIn a) (h : a.doMerge node nodes = .ok a') : HasIn a' := by
  unfold doMerge at h
  split at h
  · cases h; exact H
  · cases h; exact H
  · rename_i first rest _
    split at h
    · cases h
    · split at h
      · cases h
      · rename_i hnd
        split at h
        · cases h
        · rename_i same hsame
          split at h
          · cases h
          · rename_i hall
            split at h
            · cases h
            · split at h
              · cases h
              · have hnd' : (first :: rest).Nodup := by
                  cases hd : decide (first :: rest).Nodup
                  · rw [hd] at hnd; exact absurd rfl hnd
                  · exact of_decide_eq_true hd
                have hall' : ∀ y ∈ same, y = true := by
                  cases hd : same.all id
                  · rw [hd] at hall; exact absurd rfl hall
                  · intro y hy
                    exact List.all_eq_true.1 hd y hy
                have htw : ∀ n ∈ first :: rest, Twin a node n := by
                  intro n hn
                  obtain ⟨y, hy, hf⟩ := mapR_mem_in hsame n hn
                  rw [hall' y hy] at hf
                  exact sameTuple_twin inv hf
                have hfirst := htw first List.mem_cons_self
                refine hasIn_mergeLoop rest inv hnd' ?_ H h
                intro m hm
                exact hfirst.symm.trans (htw m (List.mem_cons_of_mem _ hm))

theorem hasIn_mergesLogged : ∀ (evs : List Ev) {a a' : Automaton K P} {evs' : List Ev},
    Inv a → HasIn a → a.mergesLogged evs = .ok (a', evs') → HasIn a' := by
  intro evs
  induction evs with
  | nil =>
    intro a a' evs' _ H h
    unfold mergesLogged at h
    cases h
    exact H
  | cons ev evs0 ih =>
    intro a a' evs' inv H h
    cases ev with
    | merge n nodes =>
      unfold mergesLogged at h
      split at h
      · cases h
      · rename_i a1 hdm
        have s1 : MergeStep (fun _ => true) a a1 := doMerge_spec inv hdm
        exact ih s1.inv (hasIn_doMerge inv H hdm) h
    | _ =>
      unfold mergesLogged at h
      cases h
      exact H

/-! ### `make_constraints_unique` -/

/-- The loop `absorbChildren _ N olds`: the old children still to be absorbed are exempt; `N` keeps
an incoming transition from a state that is not an old child. -/
theorem hasIn_absorbChildren {N : Nat} : ∀ (olds : List Nat) {b b' : Automaton K P},
    Inv b → (∀ old ∈ olds, old ≠ N) →
    (∃ t e, b.g.edge? t = some e ∧ e.dst = N ∧ e.src ∉ olds) →
    HasInEx b olds → b.absorbChildren N olds = .ok b' → HasIn b'
  | [], b, b', _, _, _, H, h => by
    unfold absorbChildren at h; cases h
    exact hasInEx_nil.1 H
  | old :: olds, b, b', inv, hne, hN, H, h => by
    unfold absorbChildren at h
    split at h
    · cases h
    · rename_i c1 hcl
      split at h
      · cases h
      · rename_i w hw
        split at h
        · cases h
        · rename_i c2 ham
          simp only at h
          obtain ⟨g, cov⟩ := cloneOutgoing_grows inv hcl
          have am := addMatches_spec w.matches_ g.inv ham
          have hneo : old ≠ N := hne old List.mem_cons_self
          have hlive2 : ∀ x, c2.Live x ↔ b.Live x :=
            fun x => (am.live_iff x).trans (g.live_iff x)
          have hroot2 : c2.root = b.root := am.root.trans g.root
          have hold2 : ∀ t e, b.g.edge? t = some e → c2.g.edge? t = some e :=
            fun t e he => by rw [am.edge]; exact g.old t e he
          obtain ⟨tN, eN, heN, hdN, hsN⟩ := hN
          have hsN1 : eN.src ≠ old := fun hx => hsN (hx ▸ List.mem_cons_self)
          have hsN2 : eN.src ∉ olds := fun hm => hsN (List.mem_cons_of_mem _ hm)
          have hne' : ∀ o ∈ olds, o ≠ N := fun o ho => hne o (List.mem_cons_of_mem _ ho)
          by_cases hu : c2.isUnreachable old = true
          · rw [if_pos hu] at h
            have hin := am.inv.isUnreachable_iff.1 hu
            obtain ⟨hwt, hedge, hroot, inv3⟩ := removeState_spec am.inv old hin
            have hlive3 : ∀ x, (c2.removeState old).Live x → x ≠ old ∧ c2.Live x := by
              intro x hx
              obtain ⟨w3, hw3⟩ := live_iff.1 hx
              rw [hwt] at hw3
              split at hw3
              · cases hw3
              · exact ⟨‹_›, live_of_weight hw3⟩
            refine hasIn_absorbChildren olds inv3 hne'
              ⟨tN, eN, (hedge tN eN).2 ⟨hold2 tN eN heN, hsN1⟩, hdN, hsN2⟩ ?_ h
            intro x hx hxr hxo
            obtain ⟨hxold, hx2⟩ := hlive3 x hx
            by_cases hxN : x = N
            · exact ⟨tN, eN, (hedge tN eN).2 ⟨hold2 tN eN heN, hsN1⟩, hdN.trans hxN.symm⟩
            · have hxb : b.Live x := (hlive2 x).1 hx2
              have hxr' : x ≠ b.root := fun hr => hxr (by rw [hroot, hroot2]; exact hr)
              have hxo' : x ∉ old :: olds := fun hm => by
                rcases List.mem_cons.1 hm with hm | hm
                · exact hxold hm
                · exact hxo hm
              obtain ⟨t, e, he, hd⟩ := H x hxb hxr' hxo'
              by_cases hs : e.src = old
              · obtain ⟨t', ht'⟩ := cov t e he hs (fun hd' => hxN (hd.symm.trans hd'))
                exact ⟨t', ⟨N, e.dst, e.w⟩,
                  (hedge t' _).2 ⟨by rw [am.edge]; exact ht', Ne.symm hneo⟩, hd⟩
              · exact ⟨t, e, (hedge t e).2 ⟨hold2 t e he, hs⟩, hd⟩
          · rw [if_neg hu] at h
            refine hasIn_absorbChildren olds am.inv hne'
              ⟨tN, eN, hold2 tN eN heN, hdN, hsN2⟩ ?_ h
            intro x hx hxr hxo
            by_cases hxold : x = old
            · subst hxold
              refine Classical.byContradiction fun hcon => hu ?_
              refine am.inv.isUnreachable_iff.2 fun t e he hd => hcon ⟨t, e, he, hd⟩
            · have hxb : b.Live x := (hlive2 x).1 hx
              have hxr' : x ≠ b.root := fun hr => hxr (by rw [hroot2]; exact hr)
              have hxo' : x ∉ old :: olds := fun hm => by
                rcases List.mem_cons.1 hm with hm | hm
                · exact hxold hm
                · exact hxo hm
              obtain ⟨t, e, he, hd⟩ := H x hxb hxr' hxo'
              exact ⟨t, e, hold2 t e he, hd⟩

theorem hasIn_fuseGroup {a a' : Automaton K P} {s : Nat} {ts : List Nat}
    {c0 : Option (Constraint K P)} (inv : Inv a) (hs : a.Live s)
    (hg : ∀ t ∈ ts, ∃ e, a.g.edge? t = some e ∧ e.src = s ∧ e.w = c0) (H : HasIn a)
    (h : a.fuseGroup s ts = .ok a') : HasIn a' := by
  unfold fuseGroup at h
  split at h
  · cases h
  · rename_i targets htg
    simp only at h
    have hold : ∀ x, x ∈ dedup targets ↔ IsOld a ts x := by
      intro x
      rw [mem_dedup]
      constructor
      · intro hx
        obtain ⟨t, ht, hn⟩ := mapR_mem_out htg x hx
        obtain ⟨e, he, hd⟩ := nextState_ok_iff.1 hn
        exact ⟨t, ht, e, he, hd⟩
      · rintro ⟨t, ht, e, he, hd⟩
        obtain ⟨y, hy, hf⟩ := mapR_mem_in htg t ht
        rw [nextState_ok_iff.2 ⟨e, he, hd⟩] at hf
        cases hf
        exact hy
    split at h
    · cases h
    · cases h
    · rename_i a1 c hrm
      split at h
      · cases h
      · rename_i a2 N hat
        obtain ⟨sh, _, _⟩ := removeTransitions_shrinks ts inv hrm
        obtain ⟨tN, sp⟩ := addTransition_spec sh.inv ((sh.live_iff s).2 hs) hat
        have hdeadN : ¬ a.Live N := fun hl => sp.deadc ((sh.live_iff N).2 hl)
        have hold_live : ∀ x, IsOld a ts x → a.Live x := by
          rintro x ⟨t, _, e, he, rfl⟩; exact inv.ok.dst_live he
        have hold_ne_s : ∀ x, IsOld a ts x → x ≠ s := by
          rintro x ⟨t, ht, e, he, rfl⟩ hx
          obtain ⟨e', he', hs', _⟩ := hg t ht
          rw [he] at he'; cases he'
          exact inv.noloop t e he (hs'.trans hx.symm)
        refine hasIn_absorbChildren (N := N) (dedup targets) sp.inv
          (fun o ho hx => hdeadN (hx ▸ hold_live o ((hold o).1 ho)))
          ⟨tN, _, addTransitionSpec_edge_child sp, rfl,
            fun hm => hold_ne_s s ((hold s).1 hm) rfl⟩ ?_ h
        intro x hx hxr hxo
        rcases addTransitionSpec_live sp hx with hxN | hx1
        · exact ⟨tN, _, addTransitionSpec_edge_child sp, hxN.symm⟩
        · have hxa : a.Live x := (sh.live_iff x).1 hx1
          have hxr' : x ≠ a.root := fun hr => hxr (by rw [sp.root, sh.root]; exact hr)
          obtain ⟨t, e, he, hd⟩ := H x hxa hxr'
          have hts : t ∉ ts := fun hm => hxo ((hold x).2 ⟨t, hm, e, he, hd⟩)
          refine ⟨t, e, sp.old_edge ?_, hd⟩
          rw [sh.edge, if_neg hts]; exact he

theorem sublist_flatten' {α : Type} : ∀ {l₁ l₂ : List (List α)}, l₁.Sublist l₂ →
    l₁.flatten.Sublist l₂.flatten
  | _, _, .slnil => List.Sublist.refl _
  | _, _, .cons a h => by
    rw [List.flatten_cons]
    exact (sublist_flatten' h).trans (List.sublist_append_right _ _)
  | _, _, .cons_cons a h => by
    rw [List.flatten_cons, List.flatten_cons]
    exact List.Sublist.append (List.Sublist.refl a) (sublist_flatten' h)

theorem disjoint_of_mem_erase' : ∀ (pending : List (List Nat)) {ts ts' : List Nat},
    pending.flatten.Nodup → ts ∈ pending → ts' ∈ pending.erase ts → ∀ t ∈ ts', t ∉ ts
  | [], _, _, _, h, _, _, _, _ => by cases h
  | p :: rest, ts, ts', hnd, hts, hts', t, ht', ht => by
    rw [List.flatten_cons, List.nodup_append] at hnd
    obtain ⟨_, h2, h3⟩ := hnd
    by_cases hp : p = ts
    · subst hp
      rw [List.erase_cons_head] at hts'
      exact h3 t ht t (List.mem_flatten.2 ⟨ts', hts', ht'⟩) rfl
    · have hne : ¬ (p == ts) = true := by simpa using hp
      rw [List.erase_cons_tail hne] at hts'
      have hts0 : ts ∈ rest := by
        rcases List.mem_cons.1 hts with h | h
        · exact absurd h.symm hp
        · exact h
      rcases List.mem_cons.1 hts' with h | h
      · subst h
        exact h3 t ht' t (List.mem_flatten.2 ⟨ts, hts0, ht⟩) rfl
      · exact disjoint_of_mem_erase' rest h2 hts0 h t ht' ht

theorem hasIn_fuseLogged {s : Nat} :
    ∀ (evs : List Ev) (pending : List (List Nat)) {a a' : Automaton K P} {evs' : List Ev},
    Inv a → a.Live s → pending.flatten.Nodup → (∀ l ∈ pending, GroupOK a s l) → HasIn a →
    a.fuseLogged s pending evs = .ok (a', evs') → HasIn a'
  | evs, [], a, a', evs', _, _, _, _, H, h => by
    unfold fuseLogged at h
    cases h
    exact H
  | [], p :: ps, a, a', evs', _, _, _, _, _, h => by
    unfold fuseLogged at h
    cases h
  | ev :: evs, p :: ps, a, a', evs', inv, hs, hnd, hgrp, H, h => by
    cases ev with
    | group s' ts =>
      unfold fuseLogged at h
      split at h
      · rename_i hcond
        obtain ⟨_, hmem⟩ := hcond
        split at h
        · cases h
        · rename_i a1 hf
          obtain ⟨st, hkeep⟩ :=
            fuseGroup_spec (σ := fun _ => true) inv hs (hgrp ts hmem) hf
          obtain ⟨c0, hc0⟩ := hgrp ts hmem
          have H1 := hasIn_fuseGroup inv hs hc0 H hf
          have hnd' : ((p :: ps).erase ts).flatten.Nodup :=
            hnd.sublist (sublist_flatten' List.erase_sublist)
          have hgrp' : ∀ l ∈ (p :: ps).erase ts, GroupOK a1 s l := by
            intro l hl
            obtain ⟨c, hc⟩ := hgrp l (List.mem_of_mem_erase hl)
            refine ⟨c, fun t ht => ?_⟩
            obtain ⟨e, he, hsrc, hw⟩ := hc t ht
            exact ⟨e, hkeep t e he hsrc (disjoint_of_mem_erase' _ hnd hmem hl t ht), hsrc, hw⟩
          exact hasIn_fuseLogged evs _ st.inv st.live_s hnd' hgrp' H1 h
      · cases h
    | topo _ => unfold fuseLogged at h; cases h
    | detAsk _ => unfold fuseLogged at h; cases h
    | detYes _ => unfold fuseLogged at h; cases h
    | merge _ _ => unfold fuseLogged at h; cases h
    | iterEnd _ => unfold fuseLogged at h; cases h

theorem hasIn_makeConstraintsUnique {a a' : Automaton K P} {s : Nat} {evs evs' : List Ev}
    (inv : Inv a) (hs : a.Live s) (H : HasIn a)
    (h : a.makeConstraintsUnique s evs = .ok (a', evs')) : HasIn a' := by
  unfold makeConstraintsUnique at h
  split at h
  · cases h
  · rename_i ts0 hts0
    split at h
    · cases h
    · rename_i groups hgr
      obtain ⟨w, hw, rfl⟩ := allTransitions_ok_iff.1 hts0
      have gi := groupTransitions_gi (s := s) _ [] groups (inv.ok.nodup s w hw)
        (fun t ht => inv.listed_live hw ht) ⟨by simp, by simp⟩ hgr
      have hfl : ((groups.map (·.2)).flatten).Nodup :=
        groups_flatten_nodup groups gi.1 fun g hg =>
          ⟨(gi.2 g hg).1, fun t ht => by
            obtain ⟨_, e, he, _, hw'⟩ := (gi.2 g hg).2 t ht
            exact ⟨e, he, hw'⟩⟩
      refine hasIn_fuseLogged evs _ inv hs ?_ ?_ H h
      · exact hfl.sublist (sublist_flatten' (List.Sublist.map _ List.filter_sublist))
      · intro l hl
        obtain ⟨g, hg, rfl⟩ := List.mem_map.1 hl
        have hg' := (List.mem_filter.1 hg).1
        exact ⟨g.1, fun t ht => ((gi.2 g hg').2 t ht).2⟩

end Builder

end C09R
end Pm
