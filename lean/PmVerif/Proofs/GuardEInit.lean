/-
Proofs/GuardEInit.lean — the invariant `GE.INV` holds of the automaton `addPatterns` builds
(namespace `Pm.GE`): every transition carries a constraint, nothing enters the root, and every
state other than the root has at most one transition (each pattern is a chain hanging off the
root), so every non-root state is a chain.  No hypothesis on the patterns (ids may repeat,
constraints are arbitrary).
-/
import PmVerif.Proofs.GuardEInv
import PmVerif.Proofs.C07XAdd
import PmVerif.Proofs.C09EpsMain
import PmVerif.Proofs.C08AcycCore
namespace Pm
namespace GE
open Automaton TBL
variable {K P : Type} [DecidableEq K] [DecidableEq P]
set_option linter.unusedSectionVars false

/-- Every state other than the root has at most one `(target, constraint)` pair. -/
def Uniq (a : Automaton K P) : Prop :=
  ∀ x d1 d2 c1 c2, x ≠ a.root → HasEdge a x d1 c1 → HasEdge a x d2 c2 → d1 = d2 ∧ c1 = c2

theorem uniq_addPattern {req : K → List K} {fuel : Nat} {a a' : Automaton K P}
    {cs : List (Constraint K P)} {pid : Nat} {extra : List K} (inv : Inv a) (rs : RootSrc a)
    (U : Uniq a) (h : addPattern req fuel a cs pid extra = .ok a') : Uniq a' := by
  have ch := C07.addPattern_chainE inv rs h
  intro x d1 d2 c1 c2 hx h1 h2
  rw [ch.root] at hx
  by_cases hl : a.Live x
  · have old : ∀ d c, HasEdge a' x d c → HasEdge a x d c := by
      intro d c hd
      rcases ch.edges x d c hd with h0 | ⟨_, h0 | h0⟩
      · exact h0
      · exact absurd h0 hx
      · exact absurd hl h0
    exact U x d1 d2 c1 c2 hx (old _ _ h1) (old _ _ h2)
  · exact ch.out_new x d1 d2 c1 c2 hl h1 h2

theorem uniq_addPatterns {req : K → List K} {fuel : Nat} :
    ∀ (patterns : List (Nat × List (Constraint K P) × List K)) {a0 a : Automaton K P},
      Inv a0 → RootSrc a0 → NoDet a0 → Uniq a0 → addPatterns req fuel a0 patterns = .ok a →
      Uniq a
  | [], a0, a, _, _, _, U, h => by
    unfold addPatterns at h
    cases h
    exact U
  | (pid0, cs0, extra0) :: ps, a0, a, inv, rs, nd, U, h => by
    unfold addPatterns at h
    split at h
    · cases h
    · rename_i a1 hadd
      have U1 := uniq_addPattern inv rs U hadd
      have h1 : addPatterns req fuel a0 [(pid0, cs0, extra0)] = .ok a1 := by
        unfold addPatterns
        rw [hadd]
        unfold addPatterns
        rfl
      obtain ⟨inv1, _, rs1, nd1, _⟩ :=
        addPatterns_spec_from (σ := fun _ => true) _ inv rs nd h1
      exact uniq_addPatterns ps inv1 rs1 nd1 U1 h

/-- **The invariant holds initially.** -/
theorem inv_addPatterns {req : K → List K} {fuel : Nat}
    {patterns : List (Nat × List (Constraint K P) × List K)} {a : Automaton K P}
    (h : addPatterns req fuel (new : Automaton K P) patterns = .ok a) : INV a [] := by
  obtain ⟨inv0, _, rs0, nd0, _⟩ := new_spec (K := K) (P := P)
  obtain ⟨inv, _, rs, _, _⟩ := addPatterns_spec (σ := fun _ => true) h
  have U0 : Uniq (new : Automaton K P) := by
    intro x d1 d2 c1 c2 _ h1 _
    obtain ⟨t, ht⟩ := h1
    rw [C08A.new_edge t] at ht
    cases ht
  have U := uniq_addPatterns patterns inv0 rs0 nd0 U0 h
  obtain ⟨_, hc⟩ := C09E.allCons_addPatterns patterns inv0 rs0.1 C09E.allCons_new h
  have eft : ∀ x, EFt a x := by
    rintro x d ⟨t, ht⟩
    exact hc t _ ht rfl
  have nroot : ∀ x y, Reach a x y → x ≠ a.root → y ≠ a.root := by
    intro x y hr
    induction hr with
    | refl x => exact id
    | @head x m z c h1 _ ih =>
      intro _
      obtain ⟨t, ht⟩ := h1
      exact ih (rs.2 t _ ht)
  have chain : ∀ g, g ≠ a.root → Chain a g := by
    intro g hg y hy
    exact ⟨eft y, fun d c d' c' h1 h2 => U y d d' c c' (nroot g y hy hg) h1 h2⟩
  intro p _
  refine ⟨eft p, fun c _ _ => eft c, fun c k _ g k' hg => chain g ?_⟩
  obtain ⟨t, ht⟩ := hg
  exact rs.2 t _ ht

end GE
end Pm
