/-
Proofs/C08PGBuildT.lean — C08 (totality) of the DISCIPLINED builds `buildT` / `buildTL`
(= `C08.buildWith makeDet` / `makeDetL`), generic part, for decompositions that do NOT satisfy the
tree-shape clauses of `StrProg.TreeHyp` (such as `pgTree`, which labels the root of its tree on a
one-key `isNotEqual` constraint). `Proofs/C08Total4…6.lean` carry `BI = Inv ∧ RootSrc ∧ SP E Q`
through the main loop; the totality proofs only use `Inv` (and liveness of the root), `SP` is a
passenger. Here the passenger is the edge invariant `AnchG.EQ Q` alone ("every constraint carried
by a live edge satisfies `Q`", Proofs/AnchGCorner1.lean), which needs from the decomposition only
that the edge constraints of its trees satisfy `Q` (`AnchG.TreeEdgesQ`) — so the statements hold
for EVERY input list whose constraints satisfy `Q` (`Q := True` is allowed).

Two more differences with `C08.insertConstraintTree_only`:
* `to_constraints_tree` may fail (`toTree cs = none`, in the model: the fuel of `with_powerset` ran
  out — the Rust loop has no fuel and terminates, `tpg_tree_terminates`): `TreeTot A Q toTree`
  says that the policy `A` allows the tag "to_constraints_tree", or that `toTree` succeeds on
  every DUPLICATE-FREE list of `Q` constraints;
* indeed the list handed to `to_constraints_tree` is duplicate-free (`drained_nodup`): the
  iteration calls it right after `make_constraints_unique` (`C08.makeConstraintsUnique_unique`).
Everything lives in `namespace Pm.C08PG`.
-/
import PmVerif.Proofs.C08Total6
import PmVerif.Proofs.C08Lenient
import PmVerif.Proofs.AnchGCorner1
namespace Pm
namespace C08PG
open Automaton C08 AnchG
variable {K P : Type} [DecidableEq K] [DecidableEq P]
set_option linter.unusedSectionVars false

variable {Q : Constraint K P → Prop} {A : Err → Prop}

/-- The tag of the `none` result of `to_constraints_tree`. -/
def treeTag : String := "to_constraints_tree"

/-- The invariant carried through the main loop: structural invariant, live source root, and
"every edge constraint satisfies `Q`". -/
structure BQ (Q : Constraint K P → Prop) (a : Automaton K P) : Prop where
  inv : Inv a
  rs : RootSrc a
  eq : EQ Q a

/-! ### `make_det` -/

/-- Both variants of `make_det` return `.ok` or a guard error, and preserve `BQ`. -/
def DetOKQ (Q : Constraint K P → Prop)
    (det : Automaton K P → Nat → R (Automaton K P)) : Prop :=
  ∀ (a : Automaton K P) (s : Nat), BQ Q a → a.Live s →
    (∀ w, a.g.weight? s = some w → w.eorder.length ≤ 1) →
    Only IsGuard (det a s) ∧ ∀ a', det a s = .ok a' → BQ Q a'

theorem detOKQ_makeDetL : DetOKQ Q (makeDetL (K := K) (P := P)) := by
  intro a s bi hs hle
  obtain ⟨a', h', inv', hΦ'⟩ := makeDetL_total (Φ := fun b => RootSrc b ∧ EQ Q b) (s := s)
    (fun r h => ⟨r.rootSrc h.1, eq_reflag r h.2⟩)
    (fun pre rs h => ⟨(rs.rootSrc pre h.1).1, eq_round pre rs h.2⟩) bi.inv hs hle ⟨bi.rs, bi.eq⟩
  refine ⟨by rw [h']; exact Only.ok _ _, fun a'' h'' => ?_⟩
  rw [h'] at h''
  cases h''
  exact ⟨inv', hΦ'.1, hΦ'.2⟩

theorem detOKQ_makeDet : DetOKQ Q (makeDet (K := K) (P := P)) := by
  intro a s bi hs hle
  rcases makeDet_total (Φ := fun b => RootSrc b ∧ EQ Q b) (s := s)
    (fun r h => ⟨r.rootSrc h.1, eq_reflag r h.2⟩)
    (fun pre rs h => ⟨(rs.rootSrc pre h.1).1, eq_round pre rs h.2⟩) bi.inv hs hle
    ⟨bi.rs, bi.eq⟩ with ⟨a', h', inv', hΦ'⟩ | h'
  · refine ⟨by rw [h']; exact Only.ok _ _, fun a'' h'' => ?_⟩
    rw [h'] at h''
    cases h''
    exact ⟨inv', hΦ'.1, hΦ'.2⟩
  · refine ⟨by rw [h']; exact Only.err ⟨_, rfl⟩, fun a'' h'' => ?_⟩
    rw [h'] at h''
    cases h''

/-! ### merges under c4T -/

theorem mergesLoggedT_onlyQ : ∀ (evs : List Ev) {a : Automaton K P}, BQ Q a →
    Only IsGuard (a.mergesLoggedT evs) ∧ ∀ r, a.mergesLoggedT evs = .ok r → BQ Q r.1 := by
  intro evs
  induction evs with
  | nil =>
    intro a bi
    unfold mergesLoggedT
    exact ⟨Only.ok _ _, fun r h => by cases h; exact bi⟩
  | cons ev evs ih =>
    intro a bi
    cases ev with
    | merge n nodes =>
      unfold mergesLoggedT
      split
      · exact ⟨Only.err ⟨_, rfl⟩, fun r h => by cases h⟩
      · rename_i hadm
        have hadm' : a.mergeAdmissible n nodes = true := by
          cases hx : a.mergeAdmissible n nodes
          · rw [hx] at hadm; exact absurd rfl hadm
          · rfl
        have hf := doMerge_guardOnly bi.inv hadm'
        cases hd : a.doMerge n nodes with
        | error e => exact ⟨hf.error hd, fun r h => by cases h⟩
        | ok a1 =>
          simp only
          have ms := doMerge_spec (σ := fun _ => true) bi.inv hd
          obtain ⟨inv1, eq1⟩ := eq_doMerge bi.inv bi.eq hd
          exact ih ⟨inv1, ms.rootSrc bi.rs, eq1⟩
    | topo _ => unfold mergesLoggedT; exact ⟨Only.ok _ _, fun r h => by cases h; exact bi⟩
    | group _ _ => unfold mergesLoggedT; exact ⟨Only.ok _ _, fun r h => by cases h; exact bi⟩
    | detAsk _ => unfold mergesLoggedT; exact ⟨Only.ok _ _, fun r h => by cases h; exact bi⟩
    | detYes _ => unfold mergesLoggedT; exact ⟨Only.ok _ _, fun r h => by cases h; exact bi⟩
    | iterEnd _ => unfold mergesLoggedT; exact ⟨Only.ok _ _, fun r h => by cases h; exact bi⟩

/-! ### the decomposition -/

/-- What the totality proof needs from `to_constraints_tree`: valid labels (the first half of the
tree contract of T-BUILD, for some truth assignment) and edge constraints satisfying `Q`. -/
structure TreeQ (σ : Constraint K P → Bool) (Q : Constraint K P → Prop)
    (toTree : List (Constraint K P) → Option (CTree (Constraint K P))) : Prop where
  ok : TreeOK toTree σ
  edges : TreeEdgesQ Q toTree

/-- Either the policy allows the failure of `to_constraints_tree`, or the decomposition succeeds
on every duplicate-free list of `Q` constraints. -/
def TreeTot (A : Err → Prop) (Q : Constraint K P → Prop)
    (toTree : List (Constraint K P) → Option (CTree (Constraint K P))) : Prop :=
  A (.panic treeTag) ∨
    ∀ cs : List (Constraint K P), cs.Nodup → (∀ c ∈ cs, Q c) → (toTree cs).isSome = true

/-- The constraint list handed to `to_constraints_tree` at a state whose transitions carry
pairwise different constraints is duplicate-free. -/
theorem drained_nodup {a : Automaton K P} (ok : OrdersOK a) {s : Nat} {w : AState K}
    (hw : a.g.weight? s = some w) (hu : UniqueAt a s)
    (g : Option (Constraint K P) × Nat → Option (Constraint K P × Nat))
    (hg : ∀ c d, g (c, d) = c.map fun c => (c, d))
    (drained : List (Option (Constraint K P) × Nat))
    (hmap : w.corder.map (edgeInfo a) = drained.map some) :
    ((drained.filterMap g).map (·.1)).Nodup := by
  have hsome : ∀ t ∈ w.corder, ∃ e, a.g.edge? t = some e ∧ e.w.isSome = true := by
    intro t ht
    obtain ⟨e, he, _, hc⟩ := ok.corder_edge s w hw t ht
    exact ⟨e, he, hc⟩
  obtain ⟨hlen, hidx⟩ := drain_index a g hg w.corder drained hmap hsome
  have hnd : w.corder.Nodup := (List.nodup_append.1 (ok.nodup s w hw)).1
  have hnd' := List.pairwise_iff_getElem.1 hnd
  unfold List.Nodup
  rw [List.pairwise_iff_getElem]
  intro i j hi hj hij heq
  simp only [List.length_map] at hi hj
  have hi' : i < w.corder.length := hlen ▸ hi
  have hj' : j < w.corder.length := hlen ▸ hj
  obtain ⟨e1, c1, he1, hc1, hp1⟩ := hidx i _ (List.getElem?_eq_getElem hi')
  obtain ⟨e2, c2, he2, hc2, hp2⟩ := hidx j _ (List.getElem?_eq_getElem hj')
  have h1 : ((drained.filterMap g).map (·.1))[i]'(by simpa using hi) = c1 := by
    rw [List.getElem_map]
    obtain ⟨_, h⟩ := List.getElem?_eq_some_iff.1 hp1
    rw [h]
  have h2 : ((drained.filterMap g).map (·.1))[j]'(by simpa using hj) = c2 := by
    rw [List.getElem_map]
    obtain ⟨_, h⟩ := List.getElem?_eq_some_iff.1 hp2
    rw [h]
  rw [h1, h2] at heq
  obtain ⟨e1', he1', hs1, _⟩ := ok.corder_edge s w hw _ (List.getElem_mem hi')
  obtain ⟨e2', he2', hs2, _⟩ := ok.corder_edge s w hw _ (List.getElem_mem hj')
  rw [he1] at he1'; cases he1'
  rw [he2] at he2'; cases he2'
  have := hu _ _ e1 e2 he1 he2 hs1 hs2 (by rw [hc1, hc2, heq])
  exact hnd' i j hi' hj' hij this

/-- `C08.TreeStepOK` with the information that the constraint list is duplicate-free and consists
of `Q` constraints: what the iteration needs from `add_constraint_tree` for an error policy `A`. -/
def TreeStepOKQ (A : Err → Prop) (Q : Constraint K P → Prop)
    (toTree : List (Constraint K P) → Option (CTree (Constraint K P))) (fuel : Nat) : Prop :=
  ∀ (a1 : Automaton K P) (cs : List (Constraint K P)) (tree : CTree (Constraint K P)) (s : Nat)
    (ch : List Nat), cs.Nodup → (∀ c ∈ cs, Q c) → toTree cs = some tree → Inv a1 → a1.Live s →
    (∀ d ∈ ch, a1.Live d) → LabelsValid tree ch.length →
    Only A (a1.addConstraintTree tree s ch fuel)

theorem treeStepOKQ_of {toTree : List (Constraint K P) → Option (CTree (Constraint K P))}
    {fuel : Nat} (h : TreeStepOK A toTree fuel) : TreeStepOKQ A Q toTree fuel :=
  fun a1 cs tree s ch _ _ htree inv hs hch hv => h a1 cs tree s ch htree inv hs hch hv

/-! ### `insert_constraint_tree` -/

/-- **`insert_constraint_tree(s)`** at a state whose transitions carry pairwise different
constraints, all satisfying `Q`: every error comes from `add_constraint_tree` (its fuel) or is the
failure of `to_constraints_tree`, if `TreeTot` allows it. -/
theorem insertConstraintTree_onlyQ
    {toTree : List (Constraint K P) → Option (CTree (Constraint K P))}
    {a : Automaton K P} {s : Nat} (fuel : Nat) (hact : TreeStepOKQ A Q toTree fuel) (inv : Inv a)
    (hs : a.Live s) (hu : UniqueAt a s) (hq : EQ Q a)
    (hlab : ∀ cs t, toTree cs = some t → ∀ i ∈ t.allLabels, i < cs.length)
    (htot : TreeTot A Q toTree) :
    Only A (insertConstraintTree toTree a s fuel) := by
  unfold insertConstraintTree
  obtain ⟨w, hw⟩ := live_iff.1 hs
  rw [state_ok_iff.2 hw]
  simp only
  split
  · exact Only.ok _ _
  · split
    · exact Only.ok _ _
    · obtain ⟨⟨a1, drained⟩, hdr⟩ := drainConstraints_total inv hs
      rw [hdr]
      simp only
      obtain ⟨w', hw', sh, hmap⟩ := drainConstraints_shrinks inv hdr
      rw [hw] at hw'; cases hw'
      obtain ⟨hie, _⟩ := drain_ctx inv.ok hw
        (fun (x : Option (Constraint K P) × Nat) => x.1.map fun c => (c, x.2))
        (by intro _ _; rfl) drained hmap
      have hnodup := drained_nodup inv.ok hw hu
        (fun (x : Option (Constraint K P) × Nat) => x.1.map fun c => (c, x.2))
        (by intro _ _; rfl) drained hmap
      obtain ⟨pairs, hp⟩ : ∃ pairs, pairs = List.filterMap
          (fun (x : Option (Constraint K P) × Nat) => x.1.map fun c => (c, x.2)) drained :=
        ⟨_, rfl⟩
      rw [← hp] at hie hnodup ⊢
      have hlen : (pairs.map (·.2)).length = (pairs.map (·.1)).length := by simp
      -- the drained constraints sit on edges leaving `s`; the children are live
      have hcs : ∀ c ∈ pairs.map (·.1), Q c := by
        intro c hc
        obtain ⟨i, hi⟩ := List.mem_iff_getElem?.1 hc
        have hi' : i < (pairs.map (·.2)).length := by
          rw [hlen]; exact (List.getElem?_eq_some_iff.1 hi).1
        obtain ⟨t, _, he⟩ := hie i c (pairs.map (·.2))[i] hi (List.getElem?_eq_getElem hi')
        exact hq t _ c he rfl
      have hchl : ∀ d ∈ pairs.map (·.2), a1.Live d := by
        intro d hd
        obtain ⟨i, hi⟩ := List.mem_iff_getElem?.1 hd
        have hi' : i < (pairs.map (·.1)).length := by
          rw [← hlen]; exact (List.getElem?_eq_some_iff.1 hi).1
        obtain ⟨t, _, he⟩ := hie i (pairs.map (·.1))[i] d (List.getElem?_eq_getElem hi') hi
        exact (sh.live_iff d).2 (inv.ok.dst_live he)
      cases htree : toTree (pairs.map (·.1)) with
      | none =>
        rcases htot with hA | htot
        · exact Only.err hA
        · have := htot _ hnodup hcs
          rw [htree] at this; cases this
      | some tree =>
        simp only
        have hv : LabelsValid tree (pairs.map (·.2)).length := by
          intro z i hi
          rw [hlen]
          exact hlab _ tree htree i (labelsAt_sub_allLabels tree z i hi)
        have hs1 : a1.Live s := (sh.live_iff s).2 hs
        have hfine := hact a1 _ tree s (pairs.map (·.2)) hnodup hcs htree sh.inv hs1 hchl hv
        cases hadd : a1.addConstraintTree tree s (pairs.map (·.2)) fuel with
        | error e => exact hfine.error hadd
        | ok r =>
          obtain ⟨a2, added⟩ := r
          simp only
          obtain ⟨Rep, tb⟩ := addConstraintTree_built a1 a2 tree s _ fuel added sh.inv hs1 hadd
          have hl2 : ∀ x, a1.Live x → a2.Live x := fun x hx => live2_of' tb hx
          split
          · exact Only.ok _ _
          · obtain ⟨⟨a3, f⟩, h3⟩ := addTransition_total tb.inv none (hl2 s hs1)
            rw [h3]
            simp only
            obtain ⟨e, sp⟩ := addTransition_spec tb.inv (hl2 s hs1) h3
            have hl3 : ∀ x, a2.Live x → a3.Live x := by
              intro x hx
              obtain ⟨wx, hwx⟩ := live_iff.1 hx
              rw [live_iff, sp.wt]
              split
              · exact ⟨_, rfl⟩
              · split
                · rename_i hxp; subst hxp; rw [hwx]; exact ⟨_, rfl⟩
                · exact ⟨wx, hwx⟩
            have hf3 : a3.Live f := live_of_weight (by rw [sp.wt, if_pos rfl])
            obtain ⟨a4, h4⟩ := addRest_total (cs := pairs.map (·.1)) (ch := pairs.map (·.2))
              (List.filter (fun i => !added.contains i)
                (List.range (pairs.map (·.1)).length)) sp.inv hf3
              (fun d hd => hl3 d (hl2 d (hchl d hd))) (fun i hi => by
                have : i < (pairs.map (·.1)).length := by
                  have := (List.mem_filter.1 hi).1
                  simpa using this
                exact ⟨this, hlen ▸ this⟩)
            rw [h4]
            exact Only.ok _ _

/-! ### one iteration, the main loop -/

theorem iteration_tail_onlyQ (hg : ∀ e, IsGuard e → A e) {s : Nat}
    (x : R (Automaton K P × List Ev)) (hx : Only A x)
    (hbi : ∀ a4 evs4, x = .ok (a4, evs4) → BQ Q a4) :
    Only A (match (generalizing := false) x with
      | .error e => .error e
      | .ok (a, evs) =>
        match a.mergesLoggedT evs with
        | .error e => .error e
        | .ok (a, .iterEnd s' :: evs) =>
          if s' = s then .ok (a, evs) else .error (.guard "IterEnd for another state")
        | .ok _ => .error (.guard "missing IterEnd event") : R (Automaton K P × List Ev)) ∧
    ∀ r, (match (generalizing := false) x with
      | .error e => .error e
      | .ok (a, evs) =>
        match a.mergesLoggedT evs with
        | .error e => .error e
        | .ok (a, .iterEnd s' :: evs) =>
          if s' = s then .ok (a, evs) else .error (.guard "IterEnd for another state")
        | .ok _ => .error (.guard "missing IterEnd event") : R (Automaton K P × List Ev)) = .ok r →
      BQ Q r.1 := by
  cases x with
  | error e => exact ⟨hx.error rfl, fun r h => by cases h⟩
  | ok v =>
    obtain ⟨a4, evs4⟩ := v
    have bi4 := hbi a4 evs4 rfl
    obtain ⟨hf, hb⟩ := mergesLoggedT_onlyQ evs4 bi4
    simp only
    cases hm : a4.mergesLoggedT evs4 with
    | error e => exact ⟨(hf.mono hg).error hm, fun r h => by cases h⟩
    | ok v5 =>
      obtain ⟨a5, evs5⟩ := v5
      have bi5 : BQ Q a5 := hb _ hm
      constructor
      · split
        · rename_i heq; cases heq
        · split
          · exact Only.ok _ _
          · exact Only.err (hg _ ⟨_, rfl⟩)
        · exact Only.err (hg _ ⟨_, rfl⟩)
      · intro r h
        split at h
        · cases h
        · rename_i a6 s' evs6 heq
          cases heq
          split at h
          · cases h; exact bi5
          · cases h
        · cases h

theorem afterDet_onlyQ (hg : ∀ e, IsGuard e → A e)
    {det : Automaton K P → Nat → R (Automaton K P)} (hdet : DetOKQ Q det)
    {a3 : Automaton K P} {s : Nat} (treeDet : Bool) (evs3 : List Ev) (bi3 : BQ Q a3)
    (hs3 : a3.Live s) (hle : ∀ w, a3.g.weight? s = some w → w.eorder.length ≤ 1) :
    Only A (if treeDet then
        match evs3 with
        | .detAsk s' :: .detYes s'' :: evs' =>
          if s' = s ∧ s'' = s then (det a3 s).map (·, evs')
          else .error (.guard "c5: DetAsk/DetYes for another state")
        | .detAsk s' :: evs' =>
          if s' = s then .ok (a3, evs') else .error (.guard "c5: DetAsk for another state")
        | _ => .error (.guard "c5: missing DetAsk event")
      else .ok (a3, evs3) : R (Automaton K P × List Ev)) ∧
    ∀ a4 evs4, (if treeDet then
        match evs3 with
        | .detAsk s' :: .detYes s'' :: evs' =>
          if s' = s ∧ s'' = s then (det a3 s).map (·, evs')
          else .error (.guard "c5: DetAsk/DetYes for another state")
        | .detAsk s' :: evs' =>
          if s' = s then .ok (a3, evs') else .error (.guard "c5: DetAsk for another state")
        | _ => .error (.guard "c5: missing DetAsk event")
      else .ok (a3, evs3) : R (Automaton K P × List Ev)) = .ok (a4, evs4) → BQ Q a4 := by
  obtain ⟨hfd, hbd⟩ := hdet a3 s bi3 hs3 hle
  constructor
  · split
    · split
      · split
        · cases hd : det a3 s with
          | error e => exact (hfd.mono hg).error hd
          | ok a4 => exact Only.ok _ _
        · exact Only.err (hg _ ⟨_, rfl⟩)
      · split
        · exact Only.ok _ _
        · exact Only.err (hg _ ⟨_, rfl⟩)
      · exact Only.err (hg _ ⟨_, rfl⟩)
    · exact Only.ok _ _
  · intro a4 evs4 h
    split at h
    · split at h
      · split at h
        · cases hd : det a3 s with
          | error e => rw [hd] at h; cases h
          | ok a4' =>
            rw [hd] at h
            cases h
            exact hbd _ hd
        · cases h
      · split at h
        · cases h; exact bi3
        · cases h
      · cases h
    · cases h; exact bi3

/-- **One iteration of the main loop**: every error is a guard error, an error of
`add_constraint_tree`, or the failure of `to_constraints_tree` (if allowed); `BQ` is
preserved. -/
theorem iterationWith_onlyQ (hg : ∀ e, IsGuard e → A e)
    {det : Automaton K P → Nat → R (Automaton K P)} (hdet : DetOKQ Q det)
    {σ : Constraint K P → Bool}
    {toTree : List (Constraint K P) → Option (CTree (Constraint K P))} (hT : TreeQ σ Q toTree)
    (htot : TreeTot A Q toTree)
    (fuel : Nat) (htree : TreeStepOKQ A Q toTree fuel) {a : Automaton K P} (s : Nat) (evs : List Ev)
    (bi : BQ Q a) :
    Only A (iterationWith det toTree fuel a s evs) ∧
      ∀ r, iterationWith det toTree fuel a s evs = .ok r → BQ Q r.1 := by
  unfold iterationWith
  split
  · exact ⟨Only.err (hg _ ⟨_, rfl⟩), fun r h => by cases h⟩
  · rename_i hlive
    have hs : a.Live s := by
      unfold Live; cases hx : a.g.containsNode s <;> simp_all
    have hf1 := (makeConstraintsUnique_guardOnly evs bi.inv hs).mono hg
    cases h1 : a.makeConstraintsUnique s evs with
    | error e => exact ⟨hf1.error h1, fun r h => by cases h⟩
    | ok v1 =>
      obtain ⟨a1, evs1⟩ := v1
      simp only
      obtain ⟨p1, _⟩ := makeConstraintsUnique_spec (σ := σ) bi.inv hs h1
      have bi1 : BQ Q a1 :=
        ⟨p1.inv, (p1.rootSrc bi.rs).1, eq_makeConstraintsUnique bi.inv hs bi.eq h1⟩
      have hu1 := makeConstraintsUnique_unique bi.inv hs h1
      have hf2 := insertConstraintTree_onlyQ (toTree := toTree) fuel htree p1.inv p1.live_s
        hu1 bi1.eq (fun cs t h => (hT.ok cs t h).1) htot
      cases h2 : insertConstraintTree toTree a1 s fuel with
      | error e => exact ⟨hf2.error h2, fun r h => by cases h⟩
      | ok v2 =>
        obtain ⟨a2, treeDet⟩ := v2
        simp only
        obtain ⟨st2, _⟩ := insertConstraintTree_spec_of addConstraintTree_built hT.ok p1.inv
          p1.live_s h2
        have bi2 : BQ Q a2 :=
          ⟨st2.inv, st2.rootSrc bi1.rs, eq_insertConstraintTree hT.ok hT.edges p1.inv bi1.eq h2⟩
        have hf3 := (makeConstraintsUnique_guardOnly evs1 st2.inv st2.live_s).mono hg
        cases h3 : a2.makeConstraintsUnique s evs1 with
        | error e => exact ⟨hf3.error h3, fun r h => by cases h⟩
        | ok v3 =>
          obtain ⟨a3, evs3⟩ := v3
          simp only
          obtain ⟨p3, _⟩ := makeConstraintsUnique_spec (σ := σ) st2.inv st2.live_s h3
          have bi3 : BQ Q a3 :=
            ⟨p3.inv, (p3.rootSrc bi2.rs).1,
              eq_makeConstraintsUnique st2.inv st2.live_s bi2.eq h3⟩
          have hu := makeConstraintsUnique_unique st2.inv st2.live_s h3
          obtain ⟨hfa, hba⟩ := afterDet_onlyQ hg hdet treeDet evs3 bi3 p3.live_s
            (eorder_le_one p3.inv hu)
          exact iteration_tail_onlyQ hg (s := s) _ hfa hba

/-- An iteration returns a log that is not longer than the one it was given. -/
theorem iterationWith_lengthQ {σ : Constraint K P → Bool}
    {det : Automaton K P → Nat → R (Automaton K P)}
    {toTree : List (Constraint K P) → Option (CTree (Constraint K P))} {fuel : Nat}
    {a : Automaton K P} {s : Nat} {evs : List Ev} (inv : Inv a)
    {r : Automaton K P × List Ev} (h : iterationWith det toTree fuel a s evs = .ok r)
    (hT : TreeOK toTree σ) : r.2.length ≤ evs.length := by
  unfold iterationWith at h
  split at h
  · cases h
  · rename_i hlive
    have hs : a.Live s := by
      unfold Live; cases hx : a.g.containsNode s <;> simp_all
    cases h1 : a.makeConstraintsUnique s evs with
    | error e => rw [h1] at h; cases h
    | ok v1 =>
      obtain ⟨a1, evs1⟩ := v1
      rw [h1] at h
      simp only at h
      obtain ⟨p1, pre1, hpre1⟩ := makeConstraintsUnique_spec (σ := σ) inv hs h1
      cases h2 : insertConstraintTree toTree a1 s fuel with
      | error e => rw [h2] at h; cases h
      | ok v2 =>
        obtain ⟨a2, treeDet⟩ := v2
        rw [h2] at h
        simp only at h
        obtain ⟨st2, _⟩ := insertConstraintTree_spec_of addConstraintTree_built hT p1.inv
          p1.live_s h2
        cases h3 : a2.makeConstraintsUnique s evs1 with
        | error e => rw [h3] at h; cases h
        | ok v3 =>
          obtain ⟨a3, evs3⟩ := v3
          rw [h3] at h
          simp only at h
          obtain ⟨_, pre3, hpre3⟩ :=
            makeConstraintsUnique_spec (σ := σ) st2.inv st2.live_s h3
          have hlen3 : evs3.length ≤ evs.length := by
            rw [hpre1, hpre3]
            simp only [List.length_append]
            omega
          refine iteration_tail_length (s := s) _ ?_ h
          intro a4 evs4 h4
          split at h4
          · split at h4
            · split at h4
              · cases hd : det a3 s with
                | error e => rw [hd] at h4; cases h4
                | ok a4' =>
                  rw [hd] at h4
                  cases h4
                  simp only [List.length_cons] at hlen3
                  omega
              · cases h4
            · split at h4
              · cases h4
                simp only [List.length_cons] at hlen3
                omega
              · cases h4
            · cases h4
          · cases h4
            exact hlen3

/-- **The main loop**: every error is a guard error, an error of `add_constraint_tree`, the
failure of `to_constraints_tree` (if allowed), or the fuel of the loop — which cannot run out
when it is at least the length of the log. -/
theorem mainLoopWith_onlyQ (hg : ∀ e, IsGuard e → A e)
    {det : Automaton K P → Nat → R (Automaton K P)} (hdet : DetOKQ Q det)
    {σ : Constraint K P → Bool}
    {toTree : List (Constraint K P) → Option (CTree (Constraint K P))} (hT : TreeQ σ Q toTree)
    (htot : TreeTot A Q toTree)
    (fuel : Nat) (htree : TreeStepOKQ A Q toTree fuel) :
    ∀ (n : Nat) {a : Automaton K P} (emitted : List Nat) (evs : List Ev), BQ Q a →
      ((∀ t, A (.fuel t)) ∨ evs.length ≤ n) →
      Only A (mainLoopWith det toTree fuel n a emitted evs) ∧
        ∀ a', mainLoopWith det toTree fuel n a emitted evs = .ok a' → BQ Q a' := by
  intro n
  induction n with
  | zero =>
    intro a emitted evs bi hmain
    cases evs with
    | nil =>
      unfold mainLoopWith
      split
      · exact ⟨Only.ok _ _, fun a' h => by cases h; exact bi⟩
      · exact ⟨Only.err (hg _ ⟨_, rfl⟩), fun a' h => by cases h⟩
    | cons e es =>
      unfold mainLoopWith
      rcases hmain with hfu | hlen
      · exact ⟨Only.err (hfu _), fun a' h => by cases h⟩
      · simp at hlen
  | succ n ih =>
    intro a emitted evs bi hmain
    cases evs with
    | nil =>
      unfold mainLoopWith
      split
      · exact ⟨Only.ok _ _, fun a' h => by cases h; exact bi⟩
      · exact ⟨Only.err (hg _ ⟨_, rfl⟩), fun a' h => by cases h⟩
    | cons e es =>
      cases e with
      | topo s =>
        unfold mainLoopWith
        split
        · exact ⟨Only.err (hg _ ⟨_, rfl⟩), fun a' h => by cases h⟩
        · obtain ⟨hf, hb⟩ := iterationWith_onlyQ hg hdet hT htot fuel htree s es bi
          cases hi : iterationWith det toTree fuel a s es with
          | error e => exact ⟨hf.error hi, fun a' h => by cases h⟩
          | ok v =>
            obtain ⟨a1, evs1⟩ := v
            simp only
            refine ih (s :: emitted) evs1 (hb _ hi) ?_
            rcases hmain with hfu | hlen
            · exact .inl hfu
            · right
              have := iterationWith_lengthQ bi.inv hi hT.ok
              simp only [List.length_cons] at hlen
              exact Nat.le_trans this (by omega)
      | group _ _ =>
        unfold mainLoopWith; exact ⟨Only.err (hg _ ⟨_, rfl⟩), fun a' h => by cases h⟩
      | detAsk _ =>
        unfold mainLoopWith; exact ⟨Only.err (hg _ ⟨_, rfl⟩), fun a' h => by cases h⟩
      | detYes _ =>
        unfold mainLoopWith; exact ⟨Only.err (hg _ ⟨_, rfl⟩), fun a' h => by cases h⟩
      | merge _ _ =>
        unfold mainLoopWith; exact ⟨Only.err (hg _ ⟨_, rfl⟩), fun a' h => by cases h⟩
      | iterEnd _ =>
        unfold mainLoopWith; exact ⟨Only.err (hg _ ⟨_, rfl⟩), fun a' h => by cases h⟩

/-! ### the disciplined builds -/

theorem bq_addPatterns {req : K → List K} {fuel : Nat}
    {patterns : List (Nat × List (Constraint K P) × List K)} {a : Automaton K P}
    (hp : ∀ p ∈ patterns, ∀ c ∈ p.2.1, Q c)
    (h : addPatterns req fuel (new : Automaton K P) patterns = .ok a) : BQ Q a := by
  obtain ⟨inv1, _, rs1, _, _⟩ := addPatterns_spec (σ := fun _ => true) h
  exact ⟨inv1, rs1, eq_addPatterns hp h⟩

/-- **`finishWith`** (main loop with the length of the log as fuel, then `populate_scopes`). -/
theorem finishWith_onlyQ (hg : ∀ e, IsGuard e → A e)
    {det : Automaton K P → Nat → R (Automaton K P)} (hdet : DetOKQ Q det)
    {σ : Constraint K P → Bool}
    {toTree : List (Constraint K P) → Option (CTree (Constraint K P))} (hT : TreeQ σ Q toTree)
    (htot : TreeTot A Q toTree)
    (req : K → List K) (fuel : Nat) (htree : TreeStepOKQ A Q toTree fuel) (hmb : MBOK A req fuel)
    {a : Automaton K P} (evs : List Ev) (bi : BQ Q a) :
    Only (OrAcyclic A) (finishWith det toTree req fuel a evs) := by
  unfold finishWith
  obtain ⟨hf, hb⟩ := mainLoopWith_onlyQ hg hdet hT htot fuel htree evs.length [] evs bi
    (.inr (Nat.le_refl _))
  cases hm : mainLoopWith det toTree fuel evs.length a [] evs with
  | error e => exact (hf.error hm).mono fun _ h => .inl h
  | ok a2 => exact populateScopes_only hmb (hb a2 hm).inv

/-- **The disciplined build**, for every decomposition satisfying `TreeQ`, every pattern list
whose constraints satisfy `Q`, every event log and every fuel — with the guarded or the lenient
`make_det`: every error is allowed by the policy `A` or is the panic "Graph should be acyclic". -/
theorem buildWith_onlyQ (hg : ∀ e, IsGuard e → A e)
    {det : Automaton K P → Nat → R (Automaton K P)} (hdet : DetOKQ Q det)
    {σ : Constraint K P → Bool}
    {toTree : List (Constraint K P) → Option (CTree (Constraint K P))} (hT : TreeQ σ Q toTree)
    (htot : TreeTot A Q toTree)
    (req : K → List K) (fuel : Nat) (htree : TreeStepOKQ A Q toTree fuel) (hmb : MBOK A req fuel)
    (patterns : List (Nat × List (Constraint K P) × List K))
    (hp : ∀ p ∈ patterns, ∀ c ∈ p.2.1, Q c) (evs : List Ev) :
    Only (OrAcyclic A) (buildWith det toTree req fuel patterns evs) := by
  unfold buildWith
  obtain ⟨inv0, _, rs0, _, _⟩ := new_spec (K := K) (P := P)
  have hf := addPatterns_only hmb patterns inv0 rs0.1
  cases h : addPatterns req fuel (new : Automaton K P) patterns with
  | error e => exact (hf.error h).mono fun _ h => .inl h
  | ok a => exact finishWith_onlyQ hg hdet hT htot req fuel htree hmb evs (bq_addPatterns hp h)

/-- What a SUCCESSFUL disciplined build (guarded or lenient) provides: the automaton `a2` the main
loop ends with satisfies `BQ`, the result is `populate_scopes` of it, `OrdersOK`, a live root and a
bounded rank decreasing along the edges. (`C08.builtWith_facts` for `BQ`.) -/
theorem builtWith_factsQ {det : Automaton K P → Nat → R (Automaton K P)} (hdet : DetOKQ Q det)
    {σ : Constraint K P → Bool}
    {toTree : List (Constraint K P) → Option (CTree (Constraint K P))} (hT : TreeQ σ Q toTree)
    {req : K → List K} {fuel : Nat} {patterns : List (Nat × List (Constraint K P) × List K)}
    (hp : ∀ p ∈ patterns, ∀ c ∈ p.2.1, Q c) {evs : List Ev} {A : Automaton K P}
    (h : buildWith det toTree req fuel patterns evs = .ok A) :
    ∃ a1 a2, addPatterns req fuel (new : Automaton K P) patterns = .ok a1 ∧
      mainLoopWith det toTree fuel evs.length a1 [] evs = .ok a2 ∧
      populateScopes req fuel a2 = .ok A ∧ BQ Q a2 ∧ EQ Q A ∧
      OrdersOK A ∧ (∃ w, A.g.weight? A.root = some w) ∧
      ∃ rank : Nat → Nat, (∀ s, rank s ≤ A.g.nodes.length) ∧
        ∀ t e, A.g.edge? t = some e → rank e.dst < rank e.src := by
  obtain ⟨a1, a2, h1, h2, h3⟩ := buildWith_parts h
  have bi1 : BQ Q a1 := bq_addPatterns hp h1
  have bi2 : BQ Q a2 := (mainLoopWith_onlyQ (A := fun _ => True) (fun _ _ => trivial) hdet hT
    (.inl trivial) fuel (fun _ _ _ _ _ _ _ _ _ _ _ _ _ _ => trivial) evs.length [] evs bi1
    (.inl fun _ => trivial)).2 a2 h2
  obtain ⟨inv3, hr3, he3, hw3⟩ := populateScopes_frame bi2.inv h3
  obtain ⟨rank, hrank⟩ := populateScopes_rank bi2.inv h3
  have hrankA : ∀ t e, A.g.edge? t = some e → rank e.dst < rank e.src := by
    intro t e he
    rw [he3] at he
    exact hrank t e he
  have heqA : EQ Q A := by
    intro t e c he hc
    rw [he3] at he
    exact bi2.eq t e c he hc
  refine ⟨a1, a2, h1, h2, h3, bi2, heqA, inv3.ok, ?_, compressRank A rank, compressRank_le A rank,
    compressRank_lt A inv3.ok rank hrankA⟩
  obtain ⟨w2, hw2⟩ := live_iff.mp bi2.rs.1
  have := hw3 a2.root
  rw [hw2] at this
  rw [hr3]
  cases hA : A.g.weight? a2.root with
  | none => rw [hA] at this; cases this
  | some w => exact ⟨w, rfl⟩

end C08PG
end Pm
