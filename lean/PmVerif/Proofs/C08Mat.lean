/-
Proofs/C08Mat.lean — C08 (totality) of the traversal for matrix automata (hosts may be ragged or
empty): the hypotheses `RunSafe` from `OrdersOK`, a live root and `AnchM.StateOK` (`matSafe`), with
the representation invariant `MatInv` of the position map as invariant of bindings (so that no
`checked_add_signed(..).unwrap()` of `get` inside `retain_keys` panics); the candidate bound; and
the unreachability of the `assert!` in `list_bind_options` (`matOptsP_no_assert`).
Everything lives in `namespace Pm.C08`.
-/
import PmVerif.Proofs.C08Str
import PmVerif.Proofs.MatProgMain
namespace Pm
namespace C08
open Automaton

/-- `retain_keys` on a key list of the shape the builder produces succeeds on every invariant
map and re-establishes the invariant. -/
theorem mat_retain_shape (m : MatPos) (ks : List MKey) (hi : MatInv m)
    (hs : ks = [] ∨ ∃ rest, ks = (0, 0) :: rest ∧ (0, 0) ∉ rest) :
    ∃ m', matPosMap.retain m ks = some m' ∧ MatInv m' := by
  have hdup : ∀ rest, ks = (0, 0) :: rest → (0, 0) ∉ rest := by
    intro rest he
    rcases hs with h | ⟨rest', h, h0⟩
    · rw [h] at he; cases he
    · rw [h] at he; cases he; exact h0
  have hfirst : ks = [] ∨ ks.head? = some (0, 0) ∨ ∀ k ∈ ks, MatPos.get m k = none := by
    rcases hs with h | ⟨rest', h, _⟩
    · exact .inl h
    · exact .inr (.inl (by rw [h]; rfl))
  obtain ⟨m', hm', hi', _⟩ := mat_retain_ok m ks hi hdup hfirst
  exact ⟨m', hm', hi'⟩

/-- The hypotheses of the generic traversal theorems for a matrix automaton all of whose live
states satisfy `AnchM.StateOK`. -/
theorem matSafe {A : Automaton MKey CharPred} {ps : List MatPattern} (h : MatHost)
    (ok : OrdersOK A) (hroot : ∃ w, A.g.weight? A.root = some w)
    (hok : ∀ s w, A.g.weight? s = some w → AnchM.StateOK A ps s w) :
    RunSafe matDomain A h MatInv where
  ok := ok
  root := hroot
  empty := trivial
  bind := fun m k v m' hi hv hb => c14_mat_inv_bind h m m' k v hi hv hb
  scope := fun s w hw m hi => mat_retain_shape m w.scope hi (hok s w hw).scope_shape
  keys := fun s w hw pid ks hmem m hi =>
    (mat_retain_shape m ks hi ((hok s w hw).matches_ pid ks hmem).1).imp fun _ h => h.1
  sat := by
    intro s w hw t ht e c he hc m _
    obtain ⟨e', c', he', hc', har, _⟩ := (hok s w hw).con t ht
    rw [he] at he'; cases he'
    rw [hc] at hc'; cases hc'
    apply satOrFalse_isSome
    intro vs hvs
    exact c16_mat_check_total c.pred h vs (hvs.trans har)

/-! ### the `assert!` of `list_bind_options` -/

/-- `bind_all` asks `list_bind_options` only for a key that `get` reports unbound; on a map
satisfying `MatInv` (all maps the engine handles do, see `matSafe`) the start key is unbound only
in the unbound map, so `assert!(matches!(known_bindings, Unbound))` cannot fail: the collapse of
the assertion in `matOpts` is never used. -/
theorem matOptsP_no_assert (h : MatHost) (k : MKey) (m : MatPos) (hi : MatInv m)
    (hg : MatPos.get m k = none) : (matOptsP h k m).isSome := by
  unfold matOptsP
  by_cases hk : k = (0, 0)
  · subst hk
    cases m with
    | unbound => rfl
    | bound sr sc minr minc maxr maxc =>
      exfalso
      obtain ⟨i1, i2, i3, i4, i5, i6⟩ := hi
      have : MatPos.get (.bound sr sc minr minc maxr maxc) (0, 0) = some (sr, sc) := by
        rw [c14_mat_get_iff, c14_mat_extent]
        refine ⟨sr, sc, minr, minc, maxr, maxc, rfl, ⟨i1, i3, i2, i4⟩, ?_, ?_, ?_, ?_⟩ <;> simp
      rw [this] at hg; cases hg
  · rw [if_neg hk]
    cases m with
    | unbound => rfl
    | bound sr sc minr minc maxr maxc =>
      simp only
      split
      · split <;> rfl
      · rfl

/-! ### how many step candidates -/

theorem matOpts_bound_le (h : MatHost) (k : MKey) (sr sc : Nat) (a b c d : Int) :
    (matOpts h k (.bound sr sc a b c d)).length ≤ 1 := by
  unfold matOpts matOptsP
  by_cases hk : k = (0, 0)
  · rw [if_pos hk]; simp
  · rw [if_neg hk]
    simp only
    split
    · split <;> simp
    · simp

theorem matOpts_unbound_le (h : MatHost) (k : MKey) :
    (matOpts h k .unbound).length ≤ (matAllCells h).length := by
  unfold matOpts matOptsP
  by_cases hk : k = (0, 0)
  · rw [if_pos hk]; simp
  · rw [if_neg hk]; simp

theorem extend_mat_bound (h : MatHost) (inc : Bool) (k : MKey) (m : MatPos)
    (hm : ∃ sr sc a b c d, m = MatPos.bound sr sc a b c d) :
    (extend matPosMap matOpts h inc k m).length ≤ 1 ∧
      ∀ m' ∈ extend matPosMap matOpts h inc k m, ∃ sr sc a b c d, m' = MatPos.bound sr sc a b c d := by
  obtain ⟨sr, sc, a, b, c, d, rfl⟩ := hm
  unfold extend
  split
  · exact ⟨Nat.le_refl _, fun m hm => ⟨sr, sc, a, b, c, d, List.mem_singleton.mp hm⟩⟩
  · simp only
    split
    · exact ⟨Nat.le_refl _, fun m hm => ⟨sr, sc, a, b, c, d, List.mem_singleton.mp hm⟩⟩
    · constructor
      · exact Nat.le_trans (List.length_filterMap_le _ _) (matOpts_bound_le h k sr sc a b c d)
      · intro m hm
        obtain ⟨v, _, hv⟩ := List.mem_filterMap.mp hm
        split at hv
        · rename_i m' hb
          cases hv
          have hb' : MatPos.bind (.bound sr sc a b c d) k v = .ok m := hb
          exact ⟨sr, sc, _, _, _, _, (mat_bind_bound_ok sr sc a b c d k v m hb').2⟩
        · cases hv

theorem extend_mat_unbound (h : MatHost) (inc : Bool) (k : MKey) :
    extend matPosMap matOpts h inc k .unbound = [.unbound] ∨
      ((extend matPosMap matOpts h inc k .unbound).length ≤ (matAllCells h).length ∧
        ∀ m' ∈ extend matPosMap matOpts h inc k .unbound,
          ∃ sr sc a b c d, m' = MatPos.bound sr sc a b c d) := by
  unfold extend
  have hg : (matPosMap.get .unbound k).isSome = false := rfl
  rw [hg]
  simp only [Bool.false_eq_true, if_false]
  split
  · exact .inl rfl
  · right
    constructor
    · exact Nat.le_trans (List.length_filterMap_le _ _) (matOpts_unbound_le h k)
    · intro m hm
      obtain ⟨v, _, hv⟩ := List.mem_filterMap.mp hm
      split at hv
      · rename_i m' hb
        cases hv
        have hb' : MatPos.bind .unbound k v = .ok m := hb
        exact ⟨v.1, v.2, 0, 0, 0, 0, (mat_bind_unbound_ok k v m hb').2⟩
      · cases hv

theorem bindAll_mat_length (h : MatHost) (m : MatPos) (ks : List MKey) (inc : Bool) :
    (bindAll matPosMap matOpts h m ks inc).length ≤ max 1 (matAllCells h).length := by
  apply bindAll_length (Bd := fun m => ∃ sr sc a b c d, m = MatPos.bound sr sc a b c d)
  · intro inc k m hm
    exact extend_mat_bound h inc k m hm
  · intro inc k m hm
    cases m with
    | unbound => exact extend_mat_unbound h inc k
    | bound sr sc a b c d => exact absurd ⟨sr, sc, a, b, c, d, rfl⟩ hm

theorem stepCands_mat_length {h : MatHost} {w : AState MKey} {m : MatPos} {cands : List MatPos}
    (hc : stepCands matDomain h w m = .ok cands) :
    cands.length ≤ max 1 (matAllCells h).length := by
  unfold stepCands at hc
  rw [retainAll_length hc]
  exact bindAll_mat_length h m w.scope true

/-- The explicit fuel bound of the matrix traversal. -/
def matRunBound (A : Automaton MKey CharPred) (h : MatHost) : Nat :=
  geom (max 1 (matAllCells h).length * outDeg A) A.g.nodes.length

theorem mat_succ_bound {A : Automaton MKey CharPred} {h : MatHost} {s : Nat} {m : MatPos}
    {nexts : List (Nat × MatPos)} (hn : nextLegalStates matDomain A h s m = .ok nexts) :
    nexts.length ≤ max 1 (matAllCells h).length * outDeg A := by
  obtain ⟨w, cands, hw, hc, hlen⟩ := nextLegalStates_length hn
  refine Nat.le_trans hlen (Nat.mul_le_mul (stepCands_mat_length hc) (le_outDeg hw))

theorem mat_run_res {A : Automaton MKey CharPred} {ps : List MatPattern} (h : MatHost)
    (ok : OrdersOK A) (hroot : ∃ w, A.g.weight? A.root = some w)
    (hok : ∀ s w, A.g.weight? s = some w → AnchM.StateOK A ps s w) (fuel : Nat) :
    ResF A (run matDomain A h fuel) :=
  run_res (matSafe h ok hroot hok) fuel

theorem mat_run_total {A : Automaton MKey CharPred} {ps : List MatPattern} (h : MatHost)
    (ok : OrdersOK A) (hroot : ∃ w, A.g.weight? A.root = some w)
    (hok : ∀ s w, A.g.weight? s = some w → AnchM.StateOK A ps s w)
    (rank : Nat → Nat) (hle : ∀ s, rank s ≤ A.g.nodes.length)
    (hrank : ∀ t e, A.g.edge? t = some e → rank e.dst < rank e.src)
    (fuel : Nat) (hf : matRunBound A h ≤ fuel) : Res A (run matDomain A h fuel) := by
  apply run_terminates (matSafe h ok hroot hok) rank hrank
    (max 1 (matAllCells h).length * outDeg A) (fun s m nexts _ hn => mat_succ_bound hn) fuel
  exact Nat.le_trans (geom_mono _ (hle A.root)) hf

end C08
end Pm
