/-
Proofs/C08PGBuildPG.lean — C08 (totality) of the disciplined builds over the PORT-GRAPH
decomposition `pgTree`:
* `pg_buildWith_panics` — EVERY input list (no hypothesis), every log, every fuels, any indexing
  scheme: the only panic tags of `buildT` / `buildTL` are "Graph should be acyclic" and
  "to_constraints_tree" (= `pgTree … fuelT = none`: the model's fuel for `with_powerset` ran out);
* `pgUniverse inputs` — an explicit finite list containing every constraint that can ever sit on an
  edge of an automaton built from `inputs`: the input constraints and, for every input
  `isNotEqual` constraint `first ∉ others`, all constraints `first ∉ ks` with `ks` a list of at
  most `|others|` keys of `others` (a crude superset of the conditioned forms
  `PGPredicate::conditioned` can return: `pgCond_universe`);
* `pgTree_tot_universe` — the list handed to `to_constraints_tree` is duplicate-free and drawn from
  the universe, hence at most `|pgUniverse inputs|` long: for
  `fuelT ≥ 2 ^ (|pgUniverse inputs| + 1)` it never fails (`tpg_tree_terminates`'s bound);
  `pg_buildWith_panics_universe`: then the only panic tag is "Graph should be acyclic";
* `pg_builtWith_facts` — the traversal facts (`OrdersOK`, live root, rank, `ArityOK`, scope and
  key-list shapes) for automata returned by the disciplined builds, the LENIENT `buildTL` (the
  Rust code as it runs) included.
Everything lives in `namespace Pm.C08PG`.
-/
import PmVerif.Proofs.C08PGBuildT
import PmVerif.Proofs.C08PGBuilt
namespace Pm
namespace C08PG
open Automaton C08 AnchG

/-! ### `pgTree` satisfies `TreeQ` -/

/-- The truth assignment for which `pgTree` satisfies the tree contract (any anchor does). -/
def pgSigma0 : PGCons → Bool := pgSigmaAnch' ⟨[], []⟩ 0

theorem treeQ_pg {Q : PGCons → Prop}
    (hcond : ∀ c c' S, pgCond c S = some c' → Q c → Q c') (fuelT : Nat) :
    TreeQ pgSigma0 Q (fun cs => pgTree cs fuelT) :=
  ⟨treeOK_sigma' ⟨[], []⟩ 0 fuelT, treeEdgesQ_pgTree_of hcond fuelT⟩

/-! ### any fuels: the two panic tags -/

/-- No panic, or the failure of `to_constraints_tree`. -/
def PanicA (e : Err) : Prop := NoPanic e ∨ e = .panic treeTag

theorem panicA_of_noPanic {e : Err} (h : NoPanic e) : PanicA e := .inl h

/-- **Port graphs, any inputs, any log, any fuels**: the disciplined build with the guarded or
the lenient `make_det` panics at most with "Graph should be acyclic" or "to_constraints_tree". -/
theorem pg_buildWith_panics {det : Automaton PGKey PGPred → Nat → R (Automaton PGKey PGPred)}
    (hdet : DetOKQ (fun _ : PGCons => True) det) (req : PGKey → List PGKey) (fuel fuelT : Nat)
    (inputs : List (Nat × List PGCons × List PGKey)) (evs : List Ev) :
    ∀ tag, buildWith det (fun cs => pgTree cs fuelT) req fuel inputs evs = .error (.panic tag) →
      tag = acyclicTag ∨ tag = treeTag := by
  have h := buildWith_onlyQ (A := PanicA) (Q := fun _ : PGCons => True)
    (fun _ hg => .inl hg.noPanic) hdet (treeQ_pg (fun _ _ _ _ _ => trivial) fuelT)
    (.inl (.inr rfl)) req fuel
    (fun a1 cs tree s ch _ _ htree inv hs hch hv =>
      (treeStepOK_fine (fun cs => pgTree cs fuelT) fuel a1 cs tree s ch htree inv hs hch
        hv).mono fun _ => panicA_of_noPanic)
    (fun _ _ _ t => .inl fun tag h => by cases h) inputs (fun _ _ _ _ => trivial) evs
  intro tag ht
  rcases h _ ht with (h1 | h1) | h1
  · exact absurd rfl (h1 tag)
  · cases h1; exact .inr rfl
  · cases h1; exact .inl rfl

/-! ### the universe of edge constraints -/

/-- All lists of length at most `n` over the alphabet `alpha`. -/
def listsUpTo (alpha : List PGKey) : Nat → List (List PGKey)
  | 0 => [[]]
  | n + 1 => [] :: alpha.flatMap fun k => (listsUpTo alpha n).map (k :: ·)

theorem mem_listsUpTo (alpha : List PGKey) : ∀ (n : Nat) (ks : List PGKey),
    ks ∈ listsUpTo alpha n ↔ ks.length ≤ n ∧ ∀ k ∈ ks, k ∈ alpha
  | 0, ks => by
    simp only [listsUpTo, List.mem_singleton]
    constructor
    · rintro rfl; exact ⟨Nat.le_refl _, fun _ h => by cases h⟩
    · rintro ⟨h, _⟩
      exact List.eq_nil_of_length_eq_zero (Nat.le_zero.1 h)
  | n + 1, ks => by
    simp only [listsUpTo, List.mem_cons, List.mem_flatMap, List.mem_map]
    constructor
    · rintro (rfl | ⟨k, hk, ks', hks', rfl⟩)
      · exact ⟨Nat.zero_le _, fun _ h => by cases h⟩
      · obtain ⟨h1, h2⟩ := (mem_listsUpTo alpha n ks').1 hks'
        refine ⟨by simp only [List.length_cons]; omega, fun k' hk' => ?_⟩
        rcases List.mem_cons.1 hk' with rfl | hk'
        · exact hk
        · exact h2 k' hk'
    · rintro ⟨h1, h2⟩
      cases ks with
      | nil => exact .inl rfl
      | cons k ks' =>
        right
        refine ⟨k, h2 k List.mem_cons_self, ks', (mem_listsUpTo alpha n ks').2 ⟨?_, ?_⟩, rfl⟩
        · simp only [List.length_cons] at h1; omega
        · exact fun k' hk' => h2 k' (List.mem_cons_of_mem _ hk')

/-- The number of such lists: `1 + a + … + aⁿ`. -/
theorem length_listsUpTo (alpha : List PGKey) : ∀ n,
    (listsUpTo alpha n).length = geom alpha.length n
  | 0 => rfl
  | n + 1 => by
    have ih := length_listsUpTo alpha n
    have : ∀ l : List PGKey, (l.flatMap fun k => (listsUpTo alpha n).map (k :: ·)).length =
        l.length * (listsUpTo alpha n).length := by
      intro l
      induction l with
      | nil => simp
      | cons x xs ihx =>
        rw [List.flatMap_cons, List.length_append, ihx, List.length_map, List.length_cons,
          Nat.succ_mul]
        omega
    simp only [listsUpTo, List.length_cons, this, ih, geom]
    omega

/-- The constraints `first ∉ ks` for the lists `ks` of at most `|others|` keys of `others`. -/
def condForms (c : PGCons) : List PGCons :=
  match c.pred, c.args with
  | .isNotEqual _, first :: others =>
    (listsUpTo others others.length).map fun ks => ⟨.isNotEqual ks.length, first :: ks⟩
  | _, _ => []

/-- **The universe of edge constraints** of the automata built from `inputs`. -/
def pgUniverse (inputs : List (Nat × List PGCons × List PGKey)) : List PGCons :=
  inputs.flatMap fun p => p.2.1.flatMap fun c => c :: condForms c

theorem mem_pgUniverse {inputs : List (Nat × List PGCons × List PGKey)} {c : PGCons} :
    c ∈ pgUniverse inputs ↔ ∃ p ∈ inputs, ∃ c0 ∈ p.2.1, c = c0 ∨ c ∈ condForms c0 := by
  simp only [pgUniverse, List.mem_flatMap, List.mem_cons]

theorem mem_condForms {c0 c : PGCons} : c ∈ condForms c0 ↔
    ∃ n first others ks, c0.pred = .isNotEqual n ∧ c0.args = first :: others ∧
      c = ⟨.isNotEqual ks.length, first :: ks⟩ ∧ ks.length ≤ others.length ∧
      ∀ k ∈ ks, k ∈ others := by
  unfold condForms
  split
  · next n first others hp ha =>
    simp only [List.mem_map, mem_listsUpTo]
    constructor
    · rintro ⟨ks, ⟨h1, h2⟩, rfl⟩
      exact ⟨n, first, others, ks, hp, ha, rfl, h1, h2⟩
    · rintro ⟨n', first', others', ks, hp', ha', rfl, h1, h2⟩
      rw [ha] at ha'
      cases ha'
      exact ⟨ks, ⟨h1, h2⟩, rfl⟩
  · next hno =>
    constructor
    · intro h; cases h
    · rintro ⟨n, first, others, ks, hp, ha, _⟩
      exact absurd ha (hno n first others hp)

/-! ### `PGPredicate::conditioned` stays in the universe -/

theorem length_insertKeySet (x : PGKey) : ∀ l : List PGKey,
    (insertKeySet x l).length ≤ l.length + 1
  | [] => by simp [insertKeySet]
  | y :: ys => by
    simp only [insertKeySet]
    split
    · simp
    · split
      · simp
      · have := length_insertKeySet x ys
        simp only [List.length_cons]
        omega

theorem length_insertKeySet_fold : ∀ (others acc : List PGKey),
    (others.foldl (fun s k => insertKeySet k s) acc).length ≤ acc.length + others.length
  | [], acc => by simp
  | k :: ks, acc => by
    rw [List.foldl_cons]
    have h1 := length_insertKeySet_fold ks (insertKeySet k acc)
    have h2 := length_insertKeySet k acc
    simp only [List.length_cons]
    omega

theorem length_removed_fold (first : PGKey) : ∀ (S : List PGCons) (ks : List PGKey),
    (S.foldl (fun (ks : List PGKey) s =>
      match s.args with
      | f :: os => if f = first then ks.filter (fun k => !os.contains k) else ks
      | [] => ks) ks).length ≤ ks.length
  | [], ks => Nat.le_refl _
  | s :: S, ks => by
    rw [List.foldl_cons]
    refine Nat.le_trans (length_removed_fold first S _) ?_
    split
    · split
      · exact List.length_filter_le _ _
      · exact Nat.le_refl _
    · exact Nat.le_refl _

/-- The shape of a conditioned constraint. -/
theorem pgCond_form {c c' : PGCons} {S : List PGCons} (h : pgCond c S = some c') :
    c' = c ∨ ∃ n first others keys, c.pred = .isNotEqual n ∧ c.args = first :: others ∧
      c' = ⟨.isNotEqual keys.length, first :: keys⟩ ∧ keys.length ≤ others.length ∧
      ∀ k ∈ keys, k ∈ others := by
  unfold pgCond at h
  split at h
  · next n first others hp ha =>
    simp only at h
    have hsub : ∀ k, k ∈ S.foldl (fun (ks : List PGKey) s =>
        match s.args with
        | f :: os => if f = first then ks.filter (fun k => !os.contains k) else ks
        | [] => ks) (others.foldl (fun s k => insertKeySet k s) []) → k ∈ others := by
      intro k hk
      have h1 := ((pg_mem_removed_fold first S _ k).1 hk).1
      rw [mem_insertKeySet_fold] at h1
      simpa using h1
    have hlen : (S.foldl (fun (ks : List PGKey) s =>
        match s.args with
        | f :: os => if f = first then ks.filter (fun k => !os.contains k) else ks
        | [] => ks) (others.foldl (fun s k => insertKeySet k s) [])).length ≤ others.length := by
      refine Nat.le_trans (length_removed_fold first S _) ?_
      have := length_insertKeySet_fold others []
      simpa using this
    generalize S.foldl (fun (ks : List PGKey) s =>
        match s.args with
        | f :: os => if f = first then ks.filter (fun k => !os.contains k) else ks
        | [] => ks) (others.foldl (fun s k => insertKeySet k s) []) = keys at h hsub hlen
    split at h
    · cases h
    · cases h
      exact .inr ⟨n, first, others, keys, hp, ha, rfl, hlen, hsub⟩
  · cases h
    exact .inl rfl

/-- **The universe is closed under `PGPredicate::conditioned`.** -/
theorem pgCond_universe (inputs : List (Nat × List PGCons × List PGKey)) {c c' : PGCons}
    {S : List PGCons} (h : pgCond c S = some c') (hc : c ∈ pgUniverse inputs) :
    c' ∈ pgUniverse inputs := by
  rcases pgCond_form h with rfl | ⟨n, first, others, keys, hp, ha, rfl, hlen, hsub⟩
  · exact hc
  · obtain ⟨p, hp', c0, hc0, hor⟩ := mem_pgUniverse.1 hc
    refine mem_pgUniverse.2 ⟨p, hp', c0, hc0, .inr ?_⟩
    rcases hor with rfl | hcf
    · exact mem_condForms.2 ⟨n, first, others, keys, hp, ha, rfl, hlen, hsub⟩
    · obtain ⟨n0, first0, others0, ks, hp0, ha0, rfl, hl0, hs0⟩ := mem_condForms.1 hcf
      simp only at ha
      cases ha
      exact mem_condForms.2 ⟨n0, first, others0, keys, hp0, ha0, rfl, Nat.le_trans hlen hl0,
        fun k hk => hs0 k (hsub k hk)⟩

theorem inputs_sub_universe (inputs : List (Nat × List PGCons × List PGKey)) :
    ∀ p ∈ inputs, ∀ c ∈ p.2.1, c ∈ pgUniverse inputs :=
  fun p hp c hc => mem_pgUniverse.2 ⟨p, hp, c, hc, .inl rfl⟩

/-- **`to_constraints_tree` never fails above the universe bound**: on every duplicate-free list
of constraints of the universe `pgTree` returns a tree once
`fuelT ≥ 2 ^ (|pgUniverse inputs| + 1)`. -/
theorem pgTree_tot_universe (A : Err → Prop) (inputs : List (Nat × List PGCons × List PGKey))
    {fuelT : Nat} (hfT : 2 ^ ((pgUniverse inputs).length + 1) ≤ fuelT) :
    TreeTot A (fun c => c ∈ pgUniverse inputs) (fun cs => pgTree cs fuelT) := by
  right
  intro cs hnd hsub
  apply pgTree_terminates
  have hlen : cs.length ≤ (pgUniverse inputs).length :=
    hnd.length_le_of_subset fun c hc => hsub c hc
  exact Nat.le_trans (Nat.pow_le_pow_right (by decide) (by omega)) hfT

/-- **Port graphs, any inputs, any log, `fuelT` above the universe bound**: the only panic tag of
the disciplined builds is "Graph should be acyclic". -/
theorem pg_buildWith_panics_universe
    {det : Automaton PGKey PGPred → Nat → R (Automaton PGKey PGPred)}
    (inputs : List (Nat × List PGCons × List PGKey))
    (hdet : DetOKQ (fun c : PGCons => c ∈ pgUniverse inputs) det) (req : PGKey → List PGKey)
    (fuel fuelT : Nat) (hfT : 2 ^ ((pgUniverse inputs).length + 1) ≤ fuelT) (evs : List Ev) :
    FineEx (buildWith det (fun cs => pgTree cs fuelT) req fuel inputs evs) :=
  FineEx.of_only (buildWith_onlyQ (A := NoPanic) (Q := fun c : PGCons => c ∈ pgUniverse inputs)
    (fun _ hg => hg.noPanic) hdet
    (treeQ_pg (fun _ _ _ h hc => pgCond_universe inputs h hc) fuelT)
    (pgTree_tot_universe NoPanic inputs hfT) req fuel (treeStepOKQ_of (treeStepOK_fine _ fuel))
    (mbOK_noPanic req fuel) inputs (inputs_sub_universe inputs) evs)

/-- **What is missing for "no panic at all"**: with `fuelT` above the universe bound, if the
automaton the main loop ends with is acyclic (the Kahn sort of `populate_scopes` succeeds), the
disciplined build does not panic. -/
theorem pg_buildWith_noPanic_of_acyclic
    {det : Automaton PGKey PGPred → Nat → R (Automaton PGKey PGPred)}
    (inputs : List (Nat × List PGCons × List PGKey))
    (hdet : DetOKQ (fun c : PGCons => c ∈ pgUniverse inputs) det) (req : PGKey → List PGKey)
    (fuel fuelT : Nat) (hfT : 2 ^ ((pgUniverse inputs).length + 1) ≤ fuelT) (evs : List Ev)
    (hac : ∀ a1 a2, addPatterns req fuel (new : Automaton PGKey PGPred) inputs = .ok a1 →
      mainLoopWith det (fun cs => pgTree cs fuelT) fuel evs.length a1 [] evs = .ok a2 →
      a2.topoOrder.isSome = true) :
    Fine (buildWith det (fun cs => pgTree cs fuelT) req fuel inputs evs) := by
  unfold buildWith
  obtain ⟨inv0, _, rs0, _, _⟩ := new_spec (K := PGKey) (P := PGPred)
  have hf := addPatterns_only (mbOK_noPanic req fuel) inputs inv0 rs0.1
  cases h1 : addPatterns req fuel (new : Automaton PGKey PGPred) inputs with
  | error e => exact hf.error h1
  | ok a1 =>
    simp only
    unfold finishWith
    have bi := bq_addPatterns (Q := fun c : PGCons => c ∈ pgUniverse inputs)
      (inputs_sub_universe inputs) h1
    obtain ⟨hfm, hb⟩ := mainLoopWith_onlyQ (A := NoPanic) (fun _ hg => hg.noPanic) hdet
      (treeQ_pg (fun _ _ _ h hc => pgCond_universe inputs h hc) fuelT)
      (pgTree_tot_universe NoPanic inputs hfT) fuel (treeStepOKQ_of (treeStepOK_fine _ fuel))
      evs.length [] evs bi (.inr (Nat.le_refl _))
    cases h2 : mainLoopWith det (fun cs => pgTree cs fuelT) fuel evs.length a1 [] evs with
    | error e => exact hfm.error h2
    | ok a2 =>
      exact populateScopes_only_of_isSome (mbOK_noPanic req fuel) (hb a2 h2).inv
        (hac a1 a2 h1 h2)

/-! ### traversal facts for the disciplined builds (guarded and lenient) -/

/-- The conjunction of the two predicates the traversal theorems need on edge constraints. -/
def AS (c : PGCons) : Prop := c.args.length = c.pred.arity ∧ ∀ k ∈ c.args, SR k

theorem pgCond_AS {c c' : PGCons} {S : List PGCons} (h : pgCond c S = some c') (hc : AS c) :
    AS c' :=
  ⟨pgCond_arity h hc.1, fun k hk => hc.2 k (pgCond_args_sub h k hk)⟩

/-- **Arity-correct inputs give arity-correct edge constraints, `OrdersOK`, a live root and a
bounded rank**, for every successful DISCIPLINED build (guarded or lenient) over `pgTree`. -/
theorem pg_builtWith_arity {det : Automaton PGKey PGPred → Nat → R (Automaton PGKey PGPred)}
    (hdet : DetOKQ (fun c : PGCons => c.args.length = c.pred.arity) det)
    {req : PGKey → List PGKey} {fuelT fuel : Nat}
    {inputs : List (Nat × List PGCons × List PGKey)} {evs : List Ev} {A : Automaton PGKey PGPred}
    (hp : ∀ p ∈ inputs, ∀ c ∈ p.2.1, c.args.length = c.pred.arity)
    (hb : buildWith det (fun cs => pgTree cs fuelT) req fuel inputs evs = .ok A) :
    OrdersOK A ∧ (∃ w, A.g.weight? A.root = some w) ∧ ArityOK A ∧
      ∃ rank : Nat → Nat, (∀ s, rank s ≤ A.g.nodes.length) ∧
        ∀ t e, A.g.edge? t = some e → rank e.dst < rank e.src := by
  obtain ⟨_, _, _, _, _, _, heq, ok, hroot, hrank⟩ := builtWith_factsQ hdet
    (treeQ_pg (fun _ _ _ h hc => pgCond_arity h hc) fuelT) hp hb
  exact ⟨ok, hroot, fun s w _ t _ e c he hc => heq t e c he hc, hrank⟩

/-- **Single-root inputs give single-root scopes and recorded key lists**, for every successful
DISCIPLINED build (guarded or lenient) over `pgTree` with the port-graph indexing scheme. -/
theorem pg_builtWith_shapes {det : Automaton PGKey PGPred → Nat → R (Automaton PGKey PGPred)}
    (hdet : DetOKQ (fun c : PGCons => ∀ k ∈ c.args, SR k) det) (hdm : DetMFrom det)
    {fuelT fuel : Nat} {inputs : List (Nat × List PGCons × List PGKey)} {evs : List Ev}
    {A : Automaton PGKey PGPred} (css : List (Option (List PGCons)))
    (hcss : ∀ (i : Nat) (cs : List PGCons), css[i]? = some (some cs) →
      ∀ c ∈ cs, ∀ k ∈ c.args, SR k)
    (hin : ∀ x ∈ inputs, css[x.1]? = some (some x.2.1) ∧ x.2.2 = [] ∧
      ∀ c ∈ x.2.1, ∀ k ∈ c.args, SR k)
    (hb : buildWith det (fun cs => pgTree cs fuelT) pgReq fuel inputs evs = .ok A) :
    (∀ s w, A.g.weight? s = some w → AnchG.Sh w.scope) ∧
    (∀ s w, A.g.weight? s = some w → ∀ m ∈ w.matches_, AnchG.Sh m.2) := by
  obtain ⟨a1, a2, h1, h2, hps, bi2, _, _, _, _⟩ := builtWith_factsQ hdet
    (treeQ_pg (fun _ _ _ h hc k hk => hc k (pgCond_args_sub h k hk)) fuelT)
    (fun p hp => (hin p hp).2.2) hb
  have H1 : c09b_MFrom (PGProg.KeysOf css) a1 := by
    refine PGProg.pgKeys_addPatterns css fuel inputs new a1 hin h1 ?_
    intro s w hw m hm
    rw [new_no_matches s w hw] at hm
    cases hm
  have hkeys : c09b_MFrom (PGProg.KeysOf css) A :=
    c09b_mfrom_populateScopes hps (mfrom_mainLoopWith hdm _ _ _ h2 H1)
  have hsame := populateScopes_sameButScope hps
  have hmsh : ∀ s w, A.g.weight? s = some w → ∀ m ∈ w.matches_, AnchG.Sh m.2 := by
    intro s w hw m hm
    obtain ⟨cs, hcs, hk⟩ := hkeys s w hw m hm
    rw [hk]
    exact PGProg.anchSh_of_shP (PGProg.shP_pgPatternKeys _ (hcss _ _ hcs))
  have hk2 : ∀ s w, a2.g.weight? s = some w → ∀ m ∈ w.matches_, m.2 ≠ [] →
      PGKey.root 0 ∈ m.2 := by
    intro s w2 hw2 m hm hne
    obtain ⟨w, hw, he⟩ := hsame.weight?_symm hw2
    have hm' : m ∈ w.matches_ := by rw [he]; exact hm
    exact (hmsh s w hw m hm').root_mem hne
  have hshape := PGProg.populateScopes_shPOn PGProg.pgReq_starOn hps
    (fun t e c he hw => bi2.eq t e c he hw) hk2
  exact ⟨fun s w hw => PGProg.anchSh_of_shP (hshape s w hw), hmsh⟩

end C08PG
end Pm
