/-
Proofs/C07Ids.lean — C07 (multiplicities): every step of the builder preserves `IdsNodup`
("each pattern id is recorded at most once per state", Proofs/C07Unamb.lean).

All the existing structural specs describe the weights of the result exactly up to the transition
orders (`w'.matches_ = w.matches_`, or `matches_ = []` for a fresh state), so `IdsNodup` is read
off them (`idsNodup_of_wt`). The only places where a `matches_` list really changes are
`addMatch` / `addMatches` (in `addPattern`, `absorbChildren`, `makeDetLoop`); there the
"first writer wins" test of `addMatch` gives `Nodup` directly from the definition.
Everything lives in `namespace Pm.C07`.
-/
import PmVerif.Proofs.C07Unamb
import PmVerif.Proofs.BuildFuse
import PmVerif.Proofs.BuildDet
import PmVerif.Proofs.BuildMerge
import PmVerif.Proofs.BuildTreeSem
import PmVerif.Proofs.BuildTreeLoop
import PmVerif.Proofs.BuildScopes
import PmVerif.Proofs.BuildAddPattern
import PmVerif.Proofs.StrProgFuse
import PmVerif.Proofs.C08BuildT
namespace Pm
namespace C07
open Automaton
variable {K P : Type} [DecidableEq K] [DecidableEq P]
set_option linter.unusedSectionVars false

/-! ### the generic transfer lemma and its instances for the structural specs -/

/-- If every weight of `a'` records nothing or exactly what some weight of `a` records, `IdsNodup`
is transferred. -/
theorem idsNodup_of_wt {a a' : Automaton K P} (hn : IdsNodup a)
    (h : ∀ x w', a'.g.weight? x = some w' →
      w'.matches_ = [] ∨ ∃ y w, a.g.weight? y = some w ∧ w'.matches_ = w.matches_) :
    IdsNodup a' := by
  intro x w' hw'
  rcases h x w' hw' with h0 | ⟨y, w, hw, hm⟩
  · rw [h0]; exact List.nodup_nil
  · rw [hm]; exact hn y w hw

theorem idsNodup_grows {a a' : Automaton K P} {dst : Nat}
    {New : Option (Constraint K P) → Nat → Prop} (g : Grows a a' dst New) (hn : IdsNodup a) :
    IdsNodup a' :=
  idsNodup_of_wt hn fun x _ hw' => by
    obtain ⟨w, hw, hm, _⟩ := g.weight_some' hw'
    exact .inr ⟨x, w, hw, hm⟩

theorem idsNodup_shrinks {a a' : Automaton K P} {S : List Nat} (sh : Shrinks a a' S)
    (hn : IdsNodup a) : IdsNodup a' :=
  idsNodup_of_wt hn fun x w' hw' => by
    cases h : a.g.weight? x with
    | none => rw [sh.dead x h] at hw'; cases hw'
    | some w =>
      obtain ⟨w'', hw'', h1, _⟩ := sh.wt x w h
      rw [hw'] at hw''; cases hw''
      exact .inr ⟨x, w, h, h1⟩

theorem idsNodup_moved {a a' : Automaton K P} {s : Nat} {ts : List Nat} (m : Moved a a' s ts)
    (hn : IdsNodup a) : IdsNodup a' :=
  idsNodup_of_wt hn fun x w' hw' => by
    cases h : a.g.weight? x with
    | none => rw [m.dead x h] at hw'; cases hw'
    | some w =>
      obtain ⟨w'', hw'', h1, _⟩ := m.wt x w h
      rw [hw'] at hw''; cases hw''
      exact .inr ⟨x, w, h, h1⟩

theorem idsNodup_addTransition {a a' : Automaton K P} {p ch e : Nat}
    {c : Option (Constraint K P)} (sp : AddTransitionSpec a a' p ch c e) (hn : IdsNodup a) :
    IdsNodup a' :=
  idsNodup_of_wt hn fun x w' hw' => by
    rw [sp.wt] at hw'
    split at hw'
    · cases hw'; exact .inl rfl
    · split at hw'
      · cases h : a.g.weight? p with
        | none => rw [h] at hw'; cases hw'
        | some w =>
          rw [h] at hw'; cases hw'
          exact .inr ⟨p, w, h, addOrder_matches c e w⟩
      · exact .inr ⟨x, w', hw', rfl⟩

theorem idsNodup_removeState {a : Automaton K P} (hn : IdsNodup a) (s : Nat) :
    IdsNodup (a.removeState s) :=
  idsNodup_of_wt hn fun x w' hw' => by
    change (a.g.removeNode s).weight? x = some w' at hw'
    rw [SGraph.removeNode_weight?] at hw'
    split at hw'
    · cases hw'
    · exact .inr ⟨x, w', hw', rfl⟩

theorem idsNodup_reflag {a a0 : Automaton K P} {s : Nat} {w : AState K} (r : Reflag a a0 s w)
    (hn : IdsNodup a) : IdsNodup a0 :=
  idsNodup_of_wt hn fun x w' hw' => by
    by_cases hx : x = s
    · subst hx
      rw [r.wt0] at hw'; cases hw'
      exact .inr ⟨x, w, r.wt, rfl⟩
    · exact .inr ⟨x, w', (r.wt_ne x hx).symm.trans hw', rfl⟩

theorem idsNodup_split {a a' : Automaton K P} {t n : Nat}
    {ed : GEdge (Option (Constraint K P))} (sp : SplitSpec a a' t n ed) (hn : IdsNodup a) :
    IdsNodup a' :=
  idsNodup_of_wt hn fun x w' hw' => by
    by_cases hx : x = n
    · subst hx
      obtain ⟨ws, w1, hws, hw1, hm, _⟩ := sp.wt
      rw [hw'] at hw1; cases hw1
      exact .inr ⟨ed.dst, ws, hws, hm⟩
    · exact .inr ⟨x, w', (sp.wt_ne x hx).symm.trans hw', rfl⟩

/-! ### `addMatch`, `addMatches`: first writer wins -/

/-- `add_match` keeps the ids of every state duplicate free: either nothing changes, or
`(pid, keys)` is appended to a list without an entry for `pid`. -/
theorem idsNodup_addMatch {a a' : Automaton K P} {s pid : Nat} {keys : List K}
    (hn : IdsNodup a) (h : a.addMatch s pid keys = .ok a') : IdsNodup a' := by
  unfold addMatch at h
  split at h
  · cases h
  · rename_i w hw
    rw [state_ok_iff] at hw
    split at h
    · cases h; exact hn
    · rename_i hany
      obtain ⟨_, rfl⟩ := modifyState_ok h
      intro x w' hw'
      change (a.g.setWeight s _).weight? x = some w' at hw'
      rw [SGraph.setWeight_weight?] at hw'
      split at hw'
      · rename_i hsx
        subst hsx
        rw [hw] at hw'
        simp only [Option.map_some, Option.some.injEq] at hw'
        subst hw'
        show ((w.matches_ ++ [(pid, keys)]).map (·.1)).Nodup
        rw [List.map_append, List.nodup_append]
        refine ⟨hn s w hw, by simp, ?_⟩
        intro u hu v hv
        simp only [List.map_cons, List.map_nil, List.mem_singleton] at hv
        subst hv
        intro huv
        subst huv
        apply hany
        rw [List.any_eq_true]
        obtain ⟨m, hm, hm1⟩ := List.mem_map.1 hu
        exact ⟨m, hm, by simpa using hm1⟩
      · exact hn x w' hw'

theorem idsNodup_addMatches {s : Nat} : ∀ (ms : List (Nat × List K)) {a a' : Automaton K P},
    IdsNodup a → a.addMatches s ms = .ok a' → IdsNodup a'
  | [], a, a', hn, h => by
    unfold addMatches at h; cases h; exact hn
  | (pid, keys) :: ms, a, a', hn, h => by
    unfold addMatches at h
    split at h
    · cases h
    · rename_i a1 h1
      exact idsNodup_addMatches ms (idsNodup_addMatch hn h1) h

/-! ### `Automaton.new`, `addPattern(s)` -/

theorem idsNodup_new : IdsNodup (Automaton.new : Automaton K P) := by
  obtain ⟨_, hwt, _, _⟩ :=
    addNode_frame (inv_empty (K := K) (P := P)) ({} : AState K) rfl rfl
  intro x w hw
  change ((SGraph.empty : SGraph (AState K) (Option (Constraint K P))).addNode {}).1.weight? x =
    some w at hw
  rw [hwt] at hw
  split at hw
  · cases hw; exact List.nodup_nil
  · simp [SGraph.weight?, SGraph.node?, SGraph.empty] at hw

theorem idsNodup_addPatternLoop {req : K → List K} {fuel : Nat} :
    ∀ (cs : List (Constraint K P)) {a a1 : Automaton K P} {s s1 : Nat} {keys keys1 : List K},
      Inv a → a.Live s → IdsNodup a →
      addPatternLoop req fuel a s keys cs = .ok (a1, s1, keys1) → IdsNodup a1
  | [], a, a1, s, s1, keys, keys1, _, _, hn, h => by
    unfold addPatternLoop at h
    cases h
    exact hn
  | c :: cs, a, a1, s, s1, keys, keys1, inv, hs, hn, h => by
    unfold addPatternLoop at h
    split at h
    · cases h
    · split at h
      · cases h
      · rename_i a2 s' hadd
        obtain ⟨e, sp⟩ := addTransition_spec inv hs hadd
        exact idsNodup_addPatternLoop cs sp.inv sp.live_child (idsNodup_addTransition sp hn) h

/-- One `add_pattern` (`hs`: the root is live, part of `RootSrc a`). -/
theorem idsNodup_addPattern {req : K → List K} {fuel : Nat} {a a' : Automaton K P}
    {cs : List (Constraint K P)} {pid : Nat} {extra : List K} (inv : Inv a) (hs : a.Live a.root)
    (hn : IdsNodup a) (h : addPattern req fuel a cs pid extra = .ok a') : IdsNodup a' := by
  unfold addPattern at h
  split at h
  · cases h
  · split at h
    · cases h
    · rename_i a1 s1 keys1 hloop
      exact idsNodup_addMatch (idsNodup_addPatternLoop cs inv hs hn hloop) h

/-- The first phase of the builder. `Inv`, `RootSrc`, `NoDet` are what `addPattern_spec` needs to
carry the structural invariant from one pattern to the next; they hold for `Automaton.new`
(`new_spec`). -/
theorem idsNodup_addPatterns {req : K → List K} {fuel : Nat} :
    ∀ (patterns : List (Nat × List (Constraint K P) × List K)) {a0 a : Automaton K P},
      Inv a0 → RootSrc a0 → NoDet a0 → IdsNodup a0 →
      addPatterns req fuel a0 patterns = .ok a → IdsNodup a
  | [], a0, a, _, _, _, hn, h => by
    unfold addPatterns at h
    cases h
    exact hn
  | (pid0, cs0, extra0) :: ps, a0, a, inv, rs, nd, hn, h => by
    unfold addPatterns at h
    split at h
    · cases h
    · rename_i a1 hadd
      obtain ⟨inv1, _, rs1, nd1, _⟩ := addPattern_spec (σ := fun _ => true) inv rs nd hadd
      exact idsNodup_addPatterns ps inv1 rs1 nd1 (idsNodup_addPattern inv rs.1 hn hadd) h

/-- `addPatterns` from the initial automaton. -/
theorem idsNodup_addPatterns_new {req : K → List K} {fuel : Nat}
    {patterns : List (Nat × List (Constraint K P) × List K)} {a : Automaton K P}
    (h : addPatterns req fuel (Automaton.new : Automaton K P) patterns = .ok a) : IdsNodup a := by
  obtain ⟨inv0, _, rs0, nd0, _⟩ := new_spec (K := K) (P := P)
  exact idsNodup_addPatterns patterns inv0 rs0 nd0 idsNodup_new h

/-! ### `make_constraints_unique` -/

/-- The loop `absorbChildren` (same induction as `absorbChildren_abs`, carrying only `Inv`). -/
theorem absorbChildren_ids {N : Nat} : ∀ (olds : List Nat) {b b' : Automaton K P},
    Inv b → IdsNodup b → b.absorbChildren N olds = .ok b' → Inv b' ∧ IdsNodup b'
  | [], b, b', inv, hn, h => by
    unfold absorbChildren at h; cases h
    exact ⟨inv, hn⟩
  | old :: olds, b, b', inv, hn, h => by
    unfold absorbChildren at h
    split at h
    · cases h
    · rename_i c1 hcl
      split at h
      · cases h
      · rename_i w hw
        split at h
        · cases h
        · rename_i c2 ham
          simp only at h
          obtain ⟨g, _⟩ := cloneOutgoing_grows inv hcl
          have am := addMatches_spec w.matches_ g.inv ham
          have hn2 : IdsNodup c2 := idsNodup_addMatches _ (idsNodup_grows g hn) ham
          have h3 : Inv (if c2.isUnreachable old then c2.removeState old else c2) ∧
              IdsNodup (if c2.isUnreachable old then c2.removeState old else c2) := by
            split
            · rename_i hu
              exact ⟨(removeState_spec am.inv old (am.inv.isUnreachable_iff.1 hu)).2.2.2,
                idsNodup_removeState hn2 old⟩
            · exact ⟨am.inv, hn2⟩
          exact absorbChildren_ids olds h3.1 h3.2 h

/-- Fusing one group. -/
theorem idsNodup_fuseGroup {a a' : Automaton K P} {s : Nat} {ts : List Nat} (inv : Inv a)
    (hs : a.Live s) (hn : IdsNodup a) (h : a.fuseGroup s ts = .ok a') : IdsNodup a' := by
  unfold fuseGroup at h
  split at h
  · cases h
  · simp only at h
    split at h
    · cases h
    · cases h
    · rename_i a1 c hrm
      split at h
      · cases h
      · rename_i a2 N hat
        obtain ⟨sh, _, _⟩ := removeTransitions_shrinks ts inv hrm
        obtain ⟨tN, sp⟩ := addTransition_spec sh.inv ((sh.live_iff s).2 hs) hat
        exact (absorbChildren_ids _ sp.inv
          (idsNodup_addTransition sp (idsNodup_shrinks sh hn)) h).2

/-- One pass of `make_constraints_unique(s)`. -/
theorem idsNodup_makeConstraintsUnique {a a' : Automaton K P} {s : Nat} {evs evs' : List Ev}
    (inv : Inv a) (hs : a.Live s) (hn : IdsNodup a)
    (h : a.makeConstraintsUnique s evs = .ok (a', evs')) : IdsNodup a' :=
  StrProg.makeConstraintsUnique_induct (fun b => IdsNodup b) (s := s)
    (fun {_ _ _ _} inv hs _ hf hΦ => idsNodup_fuseGroup inv hs hΦ hf) inv hs hn h

/-! ### `insert_constraint_tree` -/

theorem idsNodup_treeBuilt {a1 a2 : Automaton K P} {tree : CTree (Constraint K P)} {s : Nat}
    {children : List Nat} {fuel : Nat} {added : List Nat} {Rep : Nat → Nat → Prop}
    (tb : TreeBuilt a1 a2 tree s children fuel added Rep) (hn : IdsNodup a1) : IdsNodup a2 :=
  idsNodup_of_wt hn fun x w' hw' => by
    by_cases hx : a1.Live x
    · by_cases hxs : x = s
      · subst hxs
        obtain ⟨w1, hw1⟩ := live_iff.1 hx
        obtain ⟨w'', hw'', hm, _⟩ := tb.wt_s w1 hw1
        rw [hw'] at hw''; cases hw''
        exact .inr ⟨x, w1, hw1, hm⟩
      · exact .inr ⟨x, w', (tb.wt_old x hx hxs).symm.trans hw', rfl⟩
    · exact .inl (tb.wt_new x w' hx hw').1

/-- `insert_constraint_tree(s)`, for ANY tree decomposition `toTree` (no `TreeOK` needed: only
the weights of the result matter, and `TreeBuilt` describes them for every tree). -/
theorem idsNodup_insertConstraintTree
    {toTree : List (Constraint K P) → Option (CTree (Constraint K P))}
    {a a' : Automaton K P} {s fuel : Nat} {det : Bool} (inv : Inv a) (hn : IdsNodup a)
    (h : insertConstraintTree toTree a s fuel = .ok (a', det)) : IdsNodup a' := by
  have hA : AddTreeStmt K P := addConstraintTree_built
  unfold insertConstraintTree at h
  split at h
  · cases h
  · rename_i w hw
    rw [state_ok_iff] at hw
    split at h
    · cases h; exact hn
    · split at h
      · cases h; exact hn
      · split at h
        · cases h
        · rename_i a1 drained hdr
          extract_lets pairs cs ch at h
          split at h
          · cases h
          · rename_i tree htree
            split at h
            · cases h
            · rename_i a2 added hadd
              extract_lets notAdded at h
              obtain ⟨w', _, sh, _⟩ := drainConstraints_shrinks inv hdr
              have hs1 : a1.Live s := (sh.live_iff s).2 (live_of_weight hw)
              obtain ⟨Rep, tb⟩ := hA a1 a2 tree s _ fuel added sh.inv hs1 hadd
              have hn2 : IdsNodup a2 := idsNodup_treeBuilt tb (idsNodup_shrinks sh hn)
              split at h
              · cases h; exact hn2
              · split at h
                · cases h
                · rename_i a3 f h1
                  cases hrest : insertConstraintTree.addRest cs ch f a3 notAdded with
                  | error e => rw [hrest] at h; cases h
                  | ok a4 =>
                    rw [hrest] at h
                    cases h
                    have hs2 : a2.Live s := tb.rep_live 0 s tb.rep_root
                    obtain ⟨e0, sp⟩ := addTransition_spec tb.inv hs2 h1
                    obtain ⟨g, _⟩ := addRest_grows notAdded sp.inv hrest
                    exact idsNodup_grows g (idsNodup_addTransition sp hn2)

/-! ### `make_det` -/

/-- The loop of `make_det` (the induction of `makeDetLoop_inv`, carrying only `Inv`), for any
lists of fallback transitions and fallback matches. -/
theorem makeDetLoop_ids {fts : List Nat} {fms : List (Nat × List K)} :
    ∀ (ts : List Nat) {b a' : Automaton K P}, Inv b → IdsNodup b →
    b.makeDetLoop fts fms ts = .ok a' → Inv a' ∧ IdsNodup a'
  | [], b, a', inv, hn, h => by
    unfold makeDetLoop at h; cases h
    exact ⟨inv, hn⟩
  | t :: ts, b, a', inv, hn, h => by
    unfold makeDetLoop at h
    split at h
    · cases h
    · rename_i b1 tgt hsp
      split at h
      · cases h
      · rename_i b2 hcp
        split at h
        · cases h
        · rename_i b3 hm
          have h1 : Inv b1 ∧ IdsNodup b1 := by
            rcases splitTarget_spec inv hsp with ⟨rfl, _⟩ | ⟨ed, sp⟩
            · exact ⟨inv, hn⟩
            · exact ⟨sp.inv, idsNodup_split sp hn⟩
          obtain ⟨g, _⟩ := appendCopies_grows _ h1.1 hcp
          have am := addMatches_spec _ g.inv hm
          exact makeDetLoop_ids ts am.inv (idsNodup_addMatches _ (idsNodup_grows g h1.2) hm) h

/-- `make_det(s)` (the guarded model function; no hypothesis beyond `Inv` is needed). -/
theorem idsNodup_makeDet {a a' : Automaton K P} {s : Nat} (inv : Inv a) (hn : IdsNodup a)
    (h : a.makeDet s = .ok a') : IdsNodup a' := by
  unfold makeDet makeDetWith at h
  split at h
  · cases h
  · rename_i a0 wd hsd
    obtain ⟨w, rfl, r⟩ := setDeterministic_reflag inv hsd
    have hn0 : IdsNodup a0 := idsNodup_reflag r hn
    split at h
    · cases h; exact hn0
    · split at h
      · cases h
      · cases h; exact hn0
      · split at h
        · rw [if_pos rfl] at h
          dsimp only at h
          split at h
          · cases h
          · exact (makeDetLoop_ids _ r.inv hn0 h).2
        · cases h
        · cases h
        · cases h

/-- `make_det(s)` as the Rust code runs it (no guard on deterministic constraint children). -/
theorem idsNodup_makeDetL {a a' : Automaton K P} {s : Nat} (inv : Inv a) (hn : IdsNodup a)
    (h : a.makeDetL s = .ok a') : IdsNodup a' := by
  unfold makeDetL at h
  split at h
  · cases h
  · rename_i a0 wd hsd
    obtain ⟨w, rfl, r⟩ := setDeterministic_reflag inv hsd
    have hn0 : IdsNodup a0 := idsNodup_reflag r hn
    split at h
    · cases h; exact hn0
    · split at h
      · cases h
      · cases h; exact hn0
      · split at h
        · exact (makeDetLoop_ids _ r.inv hn0 h).2
        · cases h
        · cases h
        · cases h

/-! ### `try_merge_new_nodes` -/

theorem mergeLoop_ids {first : Nat} : ∀ (rest : List Nat) {a a' : Automaton K P}, Inv a →
    first ∉ rest → IdsNodup a → a.mergeLoop first rest = .ok a' → Inv a' ∧ IdsNodup a'
  | [], a, a', inv, _, hn, h => by
    unfold mergeLoop at h; cases h
    exact ⟨inv, hn⟩
  | n :: ns, a, a', inv, hf, hn, h => by
    unfold mergeLoop at h
    split at h
    · cases h
    · rename_i a1 hmv
      have m := moveIncoming_moved inv hmv
      have hne : first ≠ n := fun hx => hf (hx ▸ List.mem_cons_self)
      have hin : ∀ t e, a1.g.edge? t = some e → e.dst ≠ n := by
        intro t e he
        rcases m.sound t e he with ⟨h0, hx⟩ | ⟨_, _, e0, _, _, rfl⟩
        · exact fun hd => hx (inv.mem_incoming.2 ⟨e, h0, hd⟩)
        · exact hne
      obtain ⟨_, _, _, inv2⟩ := removeState_spec m.inv n hin
      exact mergeLoop_ids ns inv2 (fun hm => hf (List.mem_cons_of_mem _ hm))
        (idsNodup_removeState (idsNodup_moved m hn) n) h

/-- One `Merge(node, nodes)` event. -/
theorem idsNodup_doMerge {a a' : Automaton K P} {node : Nat} {nodes : List Nat} (inv : Inv a)
    (hn : IdsNodup a) (h : a.doMerge node nodes = .ok a') : IdsNodup a' := by
  unfold doMerge at h
  split at h
  · cases h; exact hn
  · cases h; exact hn
  · rename_i first rest _
    split at h
    · cases h
    · split at h
      · cases h
      · rename_i hnd
        split at h
        · cases h
        · split at h
          · cases h
          · split at h
            · cases h
            · split at h
              · cases h
              · have hnd' : (first :: rest).Nodup := by
                  cases hd : decide (first :: rest).Nodup
                  · rw [hd] at hnd; exact absurd rfl hnd
                  · exact of_decide_eq_true hd
                exact (mergeLoop_ids rest inv (List.nodup_cons.1 hnd').1 hn h).2

theorem idsNodup_mergesLogged : ∀ (evs : List Ev) {a a' : Automaton K P} {evs' : List Ev},
    Inv a → IdsNodup a → a.mergesLogged evs = .ok (a', evs') → IdsNodup a' := by
  intro evs
  induction evs with
  | nil =>
    intro a a' evs' _ hn h
    unfold mergesLogged at h
    cases h
    exact hn
  | cons ev evs0 ih =>
    intro a a' evs' inv hn h
    cases ev with
    | merge n nodes =>
      unfold mergesLogged at h
      split at h
      · cases h
      · rename_i a1 hdm
        have s1 : MergeStep (fun _ => true) a a1 := doMerge_spec inv hdm
        exact ih s1.inv (idsNodup_doMerge inv hn hdm) h
    | _ =>
      unfold mergesLogged at h
      cases h
      exact hn

/-- The disciplined merges (`Model/BuilderT.lean`): they are merges of `mergesLogged`. -/
theorem idsNodup_mergesLoggedT (evs : List Ev) {a a' : Automaton K P} {evs' : List Ev}
    (inv : Inv a) (hn : IdsNodup a) (h : a.mergesLoggedT evs = .ok (a', evs')) : IdsNodup a' :=
  idsNodup_mergesLogged evs inv hn (C08.mergesLogged_of_T evs h)

/-! ### `populate_scopes` -/

theorem idsNodup_populateScopes {req : K → List K} {fuel : Nat} {a a' : Automaton K P}
    (inv : Inv a) (hn : IdsNodup a) (h : populateScopes req fuel a = .ok a') : IdsNodup a' := by
  obtain ⟨_, _, _, hw⟩ := populateScopes_frame inv h
  refine idsNodup_of_wt hn fun x w' hw' => ?_
  have := hw x
  rw [hw'] at this
  cases h0 : a.g.weight? x with
  | none => rw [h0] at this; cases this
  | some w =>
    rw [h0] at this
    simp only [Option.map_some, Option.some.injEq, Prod.mk.injEq] at this
    exact .inr ⟨x, w, h0, this.1⟩

end C07
end Pm
