/-
Proofs/C01GenTable.lean — the atom system of the table domain's powerset strategy (strategy 3,
`with_powerset` over `tCond`): a second, differently shaped instance of `AtomSys` —
`true_` constraints are implied outright (no atoms), `notIn` constraints are conjunctions of binary
ones, everything else is its own atom; well-formedness `ok` is arity-correctness (needed because a
`true_`/`notIn` predicate called with the wrong number of values panics instead of answering).
-/
import PmVerif.Proofs.C01GenDoms
namespace Pm.C01G
open Automaton CTree

/-- The binary constraint `f ∉ {x}`. -/
def tne1 (f x : Nat) : TCons := ⟨.notIn 1, [f, x]⟩

def tAtoms (c : TCons) : List TCons :=
  match c.pred, c.args with
  | .true_ _, _ => []
  | .notIn _, f :: os => os.map (tne1 f)
  | _, _ => [c]

theorem tAtoms_true (n : Nat) (args : List Nat) : tAtoms ⟨.true_ n, args⟩ = [] := rfl
theorem tAtoms_notIn (n f : Nat) (os : List Nat) : tAtoms ⟨.notIn n, f :: os⟩ = os.map (tne1 f) :=
  rfl

theorem tAtoms_cases (c : TCons) :
    (∃ n args, c = ⟨.true_ n, args⟩) ∨ (∃ n f os, c = ⟨.notIn n, f :: os⟩) ∨ tAtoms c = [c] := by
  obtain ⟨p, args⟩ := c
  cases p with
  | true_ n => exact .inl ⟨n, args, rfl⟩
  | notIn n =>
    cases args with
    | nil => exact .inr (.inr rfl)
    | cons f os => exact .inr (.inl ⟨n, f, os, rfl⟩)
  | eq => exact .inr (.inr rfl)
  | ne => exact .inr (.inr rfl)
  | const c => exact .inr (.inr rfl)
  | lt => exact .inr (.inr rfl)

theorem sat_notIn_iff (n f : Nat) (os : List Nat) (h : THost) (m : TMap) :
    satOrFalse alGet TPred.check (⟨.notIn n, f :: os⟩ : TCons) h m = some true ↔
      os.length = n ∧ ∃ v, alGet m f = some v ∧ ∀ x ∈ os, ∃ vx, alGet m x = some vx ∧ vx ≠ v := by
  rw [sat_iff_vals]
  constructor
  · rintro ⟨vs, hb, hc⟩
    cases vs with
    | nil => simp at hb
    | cons v vs =>
      simp only [List.map_cons, List.cons.injEq] at hb
      obtain ⟨hf, hos⟩ := hb
      have hlen : vs.length = os.length := by
        have := congrArg List.length hos
        simpa using this.symm
      have hc' : (if vs.length = n then some (!vs.contains v) else none) = some true := hc
      split at hc'
      · next hn =>
        have hnot : v ∉ vs := by simpa using hc'
        refine ⟨by omega, v, hf, fun x hx => ?_⟩
        obtain ⟨vx, hvx, e⟩ := (mem_of_map_some hos).1 x hx
        exact ⟨vx, e, fun e' => hnot (e' ▸ hvx)⟩
      · cases hc'
  · rintro ⟨hn, v, hf, hos⟩
    obtain ⟨vs, hvs⟩ := map_some_of_bound (alGet m) os fun x hx => by
      obtain ⟨vx, e, _⟩ := hos x hx
      rw [e]; rfl
    refine ⟨v :: vs, by simp [hf, hvs], ?_⟩
    have hlen : vs.length = n := by
      have := congrArg List.length hvs
      simp only [List.length_map] at this
      omega
    have hnot : v ∉ vs := by
      intro hv
      obtain ⟨x, hx, e⟩ := (mem_of_map_some hvs).2 v hv
      obtain ⟨vx, e', hne⟩ := hos x hx
      rw [e] at e'
      exact hne (Option.some.inj e').symm
    show (if vs.length = n then some (!vs.contains v) else none) = some true
    rw [if_pos hlen]
    simp [hnot]

theorem sat_tne1_iff (f x : Nat) (h : THost) (m : TMap) :
    satOrFalse alGet TPred.check (tne1 f x) h m = some true ↔
      ∃ v vx, alGet m f = some v ∧ alGet m x = some vx ∧ vx ≠ v := by
  unfold tne1
  rw [sat_notIn_iff]
  constructor
  · rintro ⟨_, v, hf, hos⟩
    obtain ⟨vx, e, hne⟩ := hos x List.mem_cons_self
    exact ⟨v, vx, hf, e, hne⟩
  · rintro ⟨v, vx, hf, e, hne⟩
    refine ⟨rfl, v, hf, fun x' hx' => ?_⟩
    rw [List.mem_singleton.1 hx']
    exact ⟨vx, e, hne⟩

theorem tAtoms_args_sub (c a : TCons) (ha : a ∈ tAtoms c) : ∀ k ∈ a.args, k ∈ c.args := by
  rcases tAtoms_cases c with ⟨n, args, rfl⟩ | ⟨n, f, os, rfl⟩ | hc
  · rw [tAtoms_true] at ha; cases ha
  · rw [tAtoms_notIn] at ha
    obtain ⟨x, hx, rfl⟩ := List.mem_map.1 ha
    intro k hk
    simp only [tne1, List.mem_cons, List.not_mem_nil, or_false] at hk
    rcases hk with rfl | rfl
    · exact List.mem_cons_self
    · exact List.mem_cons_of_mem _ hx
  · rw [hc] at ha
    rw [List.mem_singleton.1 ha]
    exact fun _ hk => hk

theorem tAtoms_sat_atoms (c : TCons) (h : THost) (m : TMap)
    (hs : satOrFalse alGet TPred.check c h m = some true) :
    ∀ a ∈ tAtoms c, satOrFalse alGet TPred.check a h m = some true := by
  rcases tAtoms_cases c with ⟨n, args, rfl⟩ | ⟨n, f, os, rfl⟩ | hc
  · intro a ha; rw [tAtoms_true] at ha; cases ha
  · intro a ha
    rw [tAtoms_notIn] at ha
    obtain ⟨x, hx, rfl⟩ := List.mem_map.1 ha
    obtain ⟨_, v, hf, hos⟩ := (sat_notIn_iff n f os h m).1 hs
    obtain ⟨vx, e, hne⟩ := hos x hx
    exact (sat_tne1_iff f x h m).2 ⟨v, vx, hf, e, hne⟩
  · intro a ha
    rw [hc] at ha
    rw [List.mem_singleton.1 ha]
    exact hs

theorem tAtoms_atoms_sat (c : TCons) (h : THost) (m : TMap)
    (hok : c.args.length = c.pred.arity)
    (hb : ∀ k ∈ c.args, (alGet m k).isSome = true)
    (ha : ∀ a ∈ tAtoms c, satOrFalse alGet TPred.check a h m = some true) :
    satOrFalse alGet TPred.check c h m = some true := by
  rcases tAtoms_cases c with ⟨n, args, rfl⟩ | ⟨n, f, os, rfl⟩ | hc
  · rw [sat_iff_vals]
    obtain ⟨vs, hvs⟩ := map_some_of_bound (alGet m) args hb
    refine ⟨vs, hvs, ?_⟩
    have hlen : vs.length = n := by
      have := congrArg List.length hvs
      simp only [List.length_map] at this
      have hok' : args.length = n := hok
      omega
    show (if vs.length = n then some true else none) = some true
    rw [if_pos hlen]
  · obtain ⟨v, hv⟩ := Option.isSome_iff_exists.1 (hb f List.mem_cons_self)
    have hlen : os.length = n := by
      have : os.length + 1 = n + 1 := hok
      omega
    refine (sat_notIn_iff n f os h m).2 ⟨hlen, v, hv, fun x hx => ?_⟩
    have := ha (tne1 f x) (by rw [tAtoms_notIn]; exact List.mem_map.2 ⟨x, hx, rfl⟩)
    obtain ⟨v', vx, hf, e, hne⟩ := (sat_tne1_iff f x h m).1 this
    rw [hv] at hf
    cases hf
    exact ⟨vx, e, hne⟩
  · exact ha c (by rw [hc]; exact List.mem_cons_self)

/-! ### the conditioning law -/

def tSigQ (Q : TCons → Bool) (c : TCons) : Bool := (tAtoms c).all Q

theorem tSigQ_notIn (Q : TCons → Bool) (n f : Nat) (os : List Nat) :
    tSigQ Q ⟨.notIn n, f :: os⟩ = true ↔ ∀ k ∈ os, Q (tne1 f k) = true := by
  unfold tSigQ
  rw [tAtoms_notIn, List.all_eq_true]
  constructor
  · intro h k hk
    exact h _ (List.mem_map.2 ⟨k, hk, rfl⟩)
  · intro h a ha
    obtain ⟨k, hk, rfl⟩ := List.mem_map.1 ha
    exact h k hk

/-- **The conditioning law of `tCond` for the atom assignments** (no arity, no binding). -/
theorem tCond_law_atoms (Q : TCons → Bool) (c : TCons) (S : List TCons)
    (hS : ∀ s ∈ S, tSigQ Q s = true) :
    (tCond c S = none → tSigQ Q c = true) ∧
    (∀ c', tCond c S = some c' → tSigQ Q c' = tSigQ Q c) := by
  obtain ⟨pred, args⟩ := c
  unfold tCond
  simp only
  split
  · next n => exact ⟨fun _ => rfl, fun c' h => by cases h⟩
  · next n =>
    cases args with
    | nil => exact ⟨fun h => (by cases h), fun c' h => (by cases h; rfl)⟩
    | cons first others =>
      simp only
      have hrem : ∀ k, k ∈ S.foldl (fun (ks : List Nat) s =>
          match s.pred, s.args with
          | .notIn _, f :: os => if f = first then ks.filter (fun k => !os.contains k) else ks
          | _, _ => ks) (others.foldl (fun s k => insertSet k s) []) ↔
          k ∈ others ∧ ∀ s ∈ S, ¬ tCovered first s k := by
        intro k
        refine (mem_removed_fold first S _ k).trans ?_
        rw [mem_insertSet_fold]
        simp
      generalize S.foldl (fun (ks : List Nat) s =>
          match s.pred, s.args with
          | .notIn _, f :: os => if f = first then ks.filter (fun k => !os.contains k) else ks
          | _, _ => ks) (others.foldl (fun s k => insertSet k s) []) = removed at hrem
      have hcov : ∀ k, k ∈ others → k ∉ removed → Q (tne1 first k) = true := by
        intro k hk hnr
        have h1 : ¬ ∀ s ∈ S, ¬ tCovered first s k := fun h => hnr ((hrem k).2 ⟨hk, h⟩)
        have h2 : ∃ s ∈ S, tCovered first s k := by
          apply Classical.byContradiction
          intro hne
          exact h1 (fun s hs hc => hne ⟨s, hs, hc⟩)
        obtain ⟨s, hs, n', os, rfl, hkos⟩ := h2
        exact (tSigQ_notIn Q n' first os).1 (hS _ hs) k hkos
      split
      · next hemp =>
        have hnil : removed = [] := by simpa using hemp
        refine ⟨fun _ => ?_, fun c' h => by cases h⟩
        rw [tSigQ_notIn]
        intro k hk
        exact hcov k hk (by rw [hnil]; simp)
      · refine ⟨fun h => (by cases h), ?_⟩
        intro c' hc'
        cases hc'
        rw [Bool.eq_iff_iff, tSigQ_notIn, tSigQ_notIn]
        constructor
        · intro hall k hk
          by_cases hr : k ∈ removed
          · exact hall k hr
          · exact hcov k hk hr
        · intro hall k hk
          exact hall k ((hrem k).1 hk).1
  · exact ⟨fun h => (by cases h), fun c' h => (by cases h; rfl)⟩

/-- The powerset strategy is faithful for every atom assignment. -/
theorem tTree_treeOK_atoms {s : Nat} (hs : 3 ≤ s) (tfuel : Nat) (Q : TCons → Bool) :
    TreeOK (fun cs => tTree s cs tfuel) (fun c => (tAtoms c).all Q) := by
  intro cs t h
  have h : tTree s cs tfuel = some t := h
  unfold tTree at h
  split at h
  · next hemp =>
    have : cs = [] := by simpa using hemp
    subst this
    cases h
    constructor <;> simp [allLabels, CTree.new]
  · simp only at h
    split at h
    · omega
    · omega
    · omega
    · have hsub : ∀ c i, (c, i) ∈ (sortWithIndices tconsLe cs).take 4 → cs[i]? = some c :=
        fun c i hci => (mem_sortWithIndices tconsLe cs c i).1 (List.mem_of_mem_take hci)
      have hnd : (((sortWithIndices tconsLe cs).take 4).map (·.2)).Nodup := by
        rw [List.map_take]
        exact (sortWithIndices_nodup tconsLe cs).sublist (List.take_sublist _ _)
      have law : CondLawOn tCond (tSigQ Q)
          (fun c => ∃ i, (c, i) ∈ (sortWithIndices tconsLe cs).take 4) :=
        fun c S _ _ hS => tCond_law_atoms Q c S hS
      refine ⟨?_, ?_⟩
      · intro i hi
        obtain ⟨c, hc⟩ := withPowerset_valid h i hi
        exact (List.getElem?_eq_some_iff.1 (hsub c i hc)).1
      · intro i hi c hc
        obtain ⟨c', hc'⟩ := withPowerset_valid h i hi
        have : c' = c := Option.some.inj ((hsub c' i hc').symm.trans hc)
        subst this
        exact withPowerset_faithful h law hnd hc'

/-- **The atom system of the table domain's powerset strategy.** -/
def tAtomSys (sch : TScheme) (h : THost) {s : Nat} (hs : 3 ≤ s) (tfuel : Nat) :
    AtomSys (tDomain sch) h (fun cs => tTree s cs tfuel) where
  atoms := tAtoms
  ok c := c.args.length = c.pred.arity
  args_sub := tAtoms_args_sub
  sat_atoms c m hsat := tAtoms_sat_atoms c h m hsat
  atoms_sat c m hok hb ha := tAtoms_atoms_sat c h m hok hb ha
  treeOK Q := tTree_treeOK_atoms hs tfuel Q

end Pm.C01G
