/-
Proofs/C08Fuel.lean — C08, goal 4 (fuel sufficiency of the build): the three fuel-consuming loops
of the build cannot run out once `fuel ≥ 16`, for the string and matrix instances:
* `all_missing_bindings` on a star scheme (`strReq`, `matReq`) terminates within 16 steps
  (`mbOK_star`);
* `add_constraint_tree` on the depth-one trees returned by `charTree` needs one unit
  (`charTree_depthOne`, `treeStepOK_depthOne`);
* the main loop is given the length of the log as fuel (`mainLoopWith_only`).
Hence every error of a disciplined build is a guard error of the replay or the panic
"Graph should be acyclic" (`char_buildWith_errors`).
Everything lives in `namespace Pm.C08`.
-/
import PmVerif.Proofs.C08Total6
import PmVerif.Proofs.AnchMKeys
import PmVerif.Proofs.StrProgTree
import PmVerif.Props.C10
import PmVerif.Props.C03
namespace Pm
namespace C08
open Automaton StrProg

/-- `all_missing_bindings` on a star scheme does not run out of fuel `≥ 16`. -/
theorem mbOK_star {K : Type} [DecidableEq K] (A : Err → Prop) (s : K) {fuel : Nat}
    (hfuel : 16 ≤ fuel) : MBOK A (Baseline.starReq s) fuel := by
  intro keys known hnone
  exfalso
  obtain ⟨res, hres, _⟩ := AnchM.allMissingLoop_star s keys known []
  have := allMissingLoop_fuel_mono (Baseline.starReq s) 16 fuel hfuel _ _ _ _ hres
  unfold allMissingBindings at hnone
  rw [this] at hnone
  cases hnone

theorem strReq_eq_star : strReq = Baseline.starReq (0 : Nat) := rfl

/-- The trees returned by `charTree` have depth one. -/
theorem charTree_depthOne {K : Type} [DecidableEq K] (lt : K → K → Bool)
    (cs : List (Constraint K CharPred)) (tree : CTree (Constraint K CharPred))
    (h : charTree lt cs = some tree) : DepthOne tree := by
  obtain ⟨kept, b, rfl, _, _⟩ := charTree_shape lt cs tree h
  intro c z hcz
  have hcz' : (c, z) ∈ (CTree.withChildren (kept.map fun ci => (ci.1, [ci.2]))).childrenAt 0 := hcz
  show (CTree.withChildren (kept.map fun ci => (ci.1, [ci.2]))).childrenAt z = []
  rw [List.eq_nil_iff_forall_not_mem]
  rintro ⟨c', m'⟩ hm
  obtain ⟨hz, _⟩ := chRoot_withChildren _ z c' m' hm
  subst hz
  have d := CTree.D1_withChildren (kept.map fun ci : Constraint K CharPred × Nat => (ci.1, [ci.2]))
  exact absurd (d.wf.lt _ _ _ hcz').1 (Nat.lt_irrefl 0)

variable {K : Type} [DecidableEq K]

theorem treeFine_char (lt : K → K → Bool) :
    TreeFine (fun c : Constraint K CharPred => c.args.length = c.pred.arity) (charTree lt) where
  tot := fun cs h => c10_charTree_total lt cs h
  hyp := treeHyp_charTree lt _
  ok := c03_treeOK_char lt _

/-- **Goal 4, character constraints over a star scheme**: with `fuel ≥ 16` every error of a
disciplined build (lenient or guarded) is a guard error of the replay or the panic
"Graph should be acyclic" — in particular no fuel error and no other panic. -/
theorem char_buildWith_errors (lt : K → K → Bool) (s : K) {fuel : Nat} (hfuel : 16 ≤ fuel)
    (inputs : List (Nat × List (Constraint K CharPred) × List K))
    (har : ∀ p ∈ inputs, ∀ c ∈ p.2.1, c.args.length = c.pred.arity) (evs : List Ev) :
    Only (OrAcyclic IsGuard) (buildTL (charTree lt) (Baseline.starReq s) fuel inputs evs) ∧
    Only (OrAcyclic IsGuard) (buildT (charTree lt) (Baseline.starReq s) fuel inputs evs) :=
  ⟨buildWith_only (E := fun _ => False) (fun _ h => h) detOK_makeDetL (treeFine_char lt) _ fuel
      (treeStepOK_depthOne _ (by omega) (charTree_depthOne lt)) (mbOK_star _ s hfuel) inputs
      (fun p hp => ⟨har p hp, fun h => h.elim⟩) evs,
    buildWith_only (E := fun _ => False) (fun _ h => h) detOK_makeDet (treeFine_char lt) _ fuel
      (treeStepOK_depthOne _ (by omega) (charTree_depthOne lt)) (mbOK_star _ s hfuel) inputs
      (fun p hp => ⟨har p hp, fun h => h.elim⟩) evs⟩

end C08
end Pm
