/-
Proofs/C01GenRun.lean — the run-time half of `c01_generic_sound`: for an automaton satisfying
`Facts` and a lawful domain, every reachable configuration `(s, m)` satisfies the invariant
`Live`:

  for every path `τ` from `s` to a state recording a pattern `pid`, every atom of every constraint
  of `pid` either is an atom of a constraint on `τ` (it will still be evaluated), or is satisfied
  by `m` (it was evaluated, and its keys were kept with their values).

At the root this is `Facts.rootFact`; a step keeps it because a satisfied atom can only be lost
when one of its keys leaves the scope, which by `Facts.scope` means that some path into the state
never mentions the key — then `Facts.rootFact` on that path followed by `τ` shows the atom is on
`τ` (or on the transition just taken, where it has just been evaluated). At an accepting state
(`τ` empty) every atom, hence every constraint, holds of the emitted binding.
-/
import PmVerif.Proofs.C01GenDefs
namespace Pm.C01G
open Automaton

section Run
variable {K V P H M : Type} [DecidableEq K] [DecidableEq V] [DecidableEq P]
variable {D : Domain K V P H M} {h : H} {A : Automaton K P}
  {inputs : List (Nat × List (Constraint K P) × List K)}
  {atoms : Constraint K P → List (Constraint K P)}

/-- The invariant of reachable configurations. -/
def Live (D : Domain K V P H M) (h : H) (A : Automaton K P)
    (inputs : List (Nat × List (Constraint K P) × List K))
    (atoms : Constraint K P → List (Constraint K P)) (s : Nat) (m : M) : Prop :=
  ∀ (Q : Constraint K P → Bool) u wu pid keys cs ex,
    PathP A (fun c => ∀ a ∈ atoms c, Q a = true) s u → A.g.weight? u = some wu →
    (pid, keys) ∈ wu.matches_ → (pid, cs, ex) ∈ inputs →
    ∀ c ∈ cs, ∀ a ∈ atoms c, Q a = true ∨ satOrFalse D.map.get D.check a h m = some true

omit [DecidableEq K] [DecidableEq V] [DecidableEq P] in
theorem live_root (F : Facts A inputs atoms) : Live D h A inputs atoms A.root D.map.empty :=
  fun Q u wu pid keys cs ex hp hw hm hin c hc a ha =>
    .inl (F.rootFact Q u wu pid keys hp hw hm cs ex hin c hc a ha)

omit [DecidableEq K] [DecidableEq V] [DecidableEq P] in
/-- A step candidate keeps the values of the scope keys. -/
theorem stepCands_keeps (L : LawfulDomain D h) {w : AState K} {m m' : M} {cands : List M}
    (hc : stepCands D h w m = .ok cands) (hm' : m' ∈ cands) :
    ∀ k ∈ w.scope, ∀ v, D.map.get m k = some v → D.map.get m' k = some v := by
  unfold stepCands at hc
  obtain ⟨m₁, hm₁, hr⟩ := (mem_retainAll hc m').mp hm'
  intro k hk v hg
  exact L.retain_keeps _ _ _ hr k hk v (c13_extends D.map D.opts h true L.keeps _ m m₁ hm₁ k v hg)

omit [DecidableEq K] [DecidableEq V] [DecidableEq P] in
theorem pathP_forget {Q : Constraint K P → Prop} {s u : Nat} (hp : PathP A Q s u) :
    PathP A (fun _ => True) s u :=
  hp.mono fun _ _ => trivial

omit [DecidableEq V] in
/-- One step of the traversal keeps the invariant. `hsat`: the constraint of the transition taken
(if any) evaluates to `true` on the candidate. -/
theorem live_step (S : AtomSys D h toTree) (L : LawfulDomain D h) (F : Facts A inputs S.atoms)
    {s : Nat} {m m' : M} {w : AState K} {cands : List M} {t : Nat}
    {e : GEdge (Option (Constraint K P))}
    (hl : Live D h A inputs S.atoms s m) (hw : A.g.weight? s = some w)
    (hc : stepCands D h w m = .ok cands) (hm' : m' ∈ cands) (ht : t ∈ w.corder ++ w.eorder)
    (he : A.g.edge? t = some e)
    (hsat : ∀ c, e.w = some c → satOrFalse D.map.get D.check c h m' = some true) :
    Live D h A inputs S.atoms e.dst m' := by
  intro Q u wu pid keys cs ex hp hwu hmem hin c hcc a ha
  -- the atoms of the constraint just evaluated
  let onEdge : Constraint K P → Bool := fun x =>
    match e.w with
    | some ce => decide (x ∈ S.atoms ce)
    | none => false
  let Q' : Constraint K P → Bool := fun x => Q x || onEdge x
  have honEdge : ∀ x, onEdge x = true → satOrFalse D.map.get D.check x h m' = some true := by
    intro x hx
    simp only [onEdge] at hx
    split at hx
    · next ce hce => exact S.sat_atoms ce m' (hsat ce hce) x (of_decide_eq_true hx)
    · cases hx
  have hQ' : ∀ x, Q' x = true → Q x = true ∨ satOrFalse D.map.get D.check x h m' = some true := by
    intro x hx
    rcases Bool.or_eq_true _ _ ▸ hx with h1 | h1
    · exact .inl h1
    · exact .inr (honEdge x h1)
  -- the path from `s` through the transition taken
  have hp' : PathP A (fun c => ∀ a ∈ S.atoms c, Q' a = true) s u := by
    refine .cons hw ht he ?_ (hp.mono fun c hq a ha => ?_)
    · intro ce hce a ha
      have : onEdge a = true := by
        simp only [onEdge, hce]
        exact decide_eq_true ha
      simp only [Q', this, Bool.or_true]
    · simp only [Q', hq a ha, Bool.true_or]
  rcases hl Q' u wu pid keys cs ex hp' hwu hmem hin c hcc a ha with h1 | h1
  · exact hQ' a h1
  · -- `a` holds of `m`: either all its keys are kept, or a key-free path gives it again
    by_cases hk : ∀ k ∈ a.args, k ∈ w.scope
    · refine .inr (sat_congr _ _ a h m m' (fun k hka v hg => ?_) h1)
      exact stepCands_keeps L hc hm' k (hk k hka) v hg
    · have hk' : ∃ k, k ∈ a.args ∧ k ∉ w.scope := by
        apply Classical.byContradiction
        intro hno
        apply hk
        intro k hka
        apply Classical.byContradiction
        intro hks
        exact hno ⟨k, hka, hks⟩
      obtain ⟨k, hka, hks⟩ := hk'
      have hkeys : k ∈ keys :=
        F.keys u wu pid keys hwu hmem cs ex hin c hcc k (S.args_sub c a ha k hka)
      rcases F.scope s w hw t ht e he u wu pid keys (pathP_forget hp) hwu hmem k hkeys with h2 | h2
      · exact absurd h2 hks
      · let Q'' : Constraint K P → Bool := fun x => Q' x || decide (k ∉ x.args)
        have hroot : PathP A (fun c => ∀ a ∈ S.atoms c, Q'' a = true) A.root u := by
          refine PathP.trans (h2.mono fun c hc a ha => ?_) (hp'.mono fun c hq a ha => ?_)
          · have : decide (k ∉ a.args) = true :=
              decide_eq_true fun hka => hc (S.args_sub c a ha k hka)
            simp only [Q'', this, Bool.or_true]
          · simp only [Q'', hq a ha, Bool.true_or]
        have := F.rootFact Q'' u wu pid keys hroot hwu hmem cs ex hin c hcc a ha
        rcases Bool.or_eq_true _ _ ▸ this with h3 | h3
        · exact hQ' a h3
        · exact absurd hka (of_decide_eq_true h3)

omit [DecidableEq V] in
/-- Every reachable configuration satisfies the invariant. -/
theorem live_of_reach (S : AtomSys D h toTree) (L : LawfulDomain D h) (F : Facts A inputs S.atoms)
    {s : Nat} {m : M} (hr : Reach D A h s m) : Live D h A inputs S.atoms s m := by
  induction hr with
  | root => exact live_root F
  | con _ hw hc hm' ht he hcw hsat ih =>
    refine live_step S L F ih hw hc hm' (List.mem_append_left _ ht) he ?_
    intro c hc'
    rw [hcw] at hc'
    cases hc'
    exact hsat
  | eps _ hw hc hm' ht he _ ih =>
    refine live_step S L F ih hw hc hm' (List.mem_append_right _ ht) he ?_
    intro c hc'
    rw [F.eps_none _ _ hw _ ht _ he] at hc'
    cases hc'

omit [DecidableEq K] [DecidableEq V] [DecidableEq P] in
/-- **Emission.** What is reported at a reachable accepting configuration satisfies every
constraint of the pattern, and binds every recorded key. -/
theorem emit_sound (S : AtomSys D h toTree) (L : LawfulDomain D h) (F : Facts A inputs S.atoms)
    (hok : ∀ x ∈ inputs, ∀ c ∈ x.2.1, S.ok c) {s : Nat} {m m₁ mm : M} {w : AState K} {pid : Nat} {keys : List K}
    (hl : Live D h A inputs S.atoms s m) (hw : A.g.weight? s = some w)
    (hmem : (pid, keys) ∈ w.matches_)
    (hm₁ : m₁ ∈ bindAll D.map D.opts h m (keys.filter fun k => (D.map.get m k).isNone) false)
    (hret : D.map.retain m₁ keys = some mm) :
    (∀ k ∈ keys, (D.map.get mm k).isSome = true) ∧
    ∀ cs ex, (pid, cs, ex) ∈ inputs →
      ∀ c ∈ cs, satOrFalse D.map.get D.check c h mm = some true := by
  have hext := c13_extends D.map D.opts h false L.keeps _ m m₁ hm₁
  have hall := c13_binds_all D.map D.opts h L.keeps L.binds _ m m₁ hm₁
  have hbound₁ : ∀ k ∈ keys, (D.map.get m₁ k).isSome = true := by
    intro k hk
    cases hg : D.map.get m k with
    | some v => rw [hext k v hg]; rfl
    | none => exact hall k (List.mem_filter.2 ⟨hk, by rw [hg]; rfl⟩)
  have hbound : ∀ k ∈ keys, (D.map.get mm k).isSome = true := by
    intro k hk
    obtain ⟨v, hv⟩ := Option.isSome_iff_exists.1 (hbound₁ k hk)
    rw [L.retain_keeps _ _ _ hret k hk v hv]; rfl
  refine ⟨hbound, fun cs ex hin c hc => ?_⟩
  have hargs : ∀ k ∈ c.args, k ∈ keys := F.keys s w pid keys hw hmem cs ex hin c hc
  refine S.atoms_sat c mm (hok _ hin c hc) (fun k hk => hbound k (hargs k hk)) (fun a ha => ?_)
  rcases hl (fun _ => false) s w pid keys cs ex (.nil s) hw hmem hin c hc a ha with h1 | h1
  · cases h1
  · refine sat_congr _ _ a h m mm (fun k hka v hg => ?_) h1
    exact L.retain_keeps _ _ _ hret k (hargs k (S.args_sub c a ha k hka)) v (hext k v hg)

/-- The run-time half, assembled: every match reported by a successful run satisfies all the
constraints of its pattern and binds all recorded keys. -/
theorem run_sound (S : AtomSys D h toTree) (L : LawfulDomain D h) (F : Facts A inputs S.atoms)
    (hok : ∀ x ∈ inputs, ∀ c ∈ x.2.1, S.ok c) {fuel : Nat} {ms : List (Match M)} {seen : List (Nat × List (Option V))}
    (hr : run D A h fuel = .ok (ms, seen)) {i : Nat} {mm : M} (hm : (i, mm) ∈ ms) :
    ∃ cs ex keys, (i, cs, ex) ∈ inputs ∧
      (∀ c ∈ cs, satOrFalse D.map.get D.check c h mm = some true) ∧
      (∀ c ∈ cs, ∀ k ∈ c.args, k ∈ keys) ∧ (∀ k ∈ keys, (D.map.get mm k).isSome = true) ∧
      (∃ s w, A.g.weight? s = some w ∧ (i, keys) ∈ w.matches_) ∧
      ∃ m₁, D.map.retain m₁ keys = some mm := by
  obtain ⟨s, m, w, keys, hreach, hw, hmem, m₁, hm₁, hret⟩ := trun_sound hr i mm hm
  obtain ⟨cs, ex, hin⟩ := F.recorded s w i keys hw hmem
  obtain ⟨hb, hs⟩ := emit_sound S L F hok (live_of_reach S L F hreach) hw hmem hm₁ hret
  exact ⟨cs, ex, keys, hin, hs cs ex hin, F.keys s w i keys hw hmem cs ex hin, hb,
    ⟨s, w, hw, hmem⟩, m₁, hret⟩

end Run
end Pm.C01G
