/-
Proofs/GuardECore.lean — guard E (Proofs/TBuildLDet.lean) from an EMISSION-TIME condition
(namespace `Pm.GE`).

`c1G a s` — evaluated when `s` is emitted, before anything is done to it:
  no current child of `s` is deterministic (c1D), OR no current child of `s` has a fallback
  (epsilon) transition.
It is weaker than c1D (`Model/BuilderT.lean`), decidable on the log, and it implies guard E at the
`make_det(s)` of the same iteration:
* `childEF_makeConstraintsUnique`, `childEF_insertConstraintTree` — "no child of `s` has a
  fallback transition" survives both passes of `make_constraints_unique(s)` and
  `insert_constraint_tree(s)` (the fused child only gets copies of transitions of old children,
  the fail state and the states of inner tree nodes only get constraint transitions);
* `NonDetChildren` survives them by the step lemmas of T-BUILD (`Pres.ndc`);
* `makeDetE_of_makeDetL`: under either, `badDetChild` is false, so `makeDetE` = `makeDetL`.
-/
import PmVerif.Proofs.TBuildLMain
import PmVerif.Proofs.C09EpsTree
namespace Pm
namespace GE
open Automaton TBL C09E
variable {K P : Type}

/-- No current child of `s` has a fallback transition. -/
def childEpsFree (a : Automaton K P) (s : Nat) : Bool :=
  (a.g.succs s).all fun x => match a.g.weight? x with | some w => w.eorder.isEmpty | none => true

/-- c1G: c1D, or no child of `s` has a fallback transition. -/
def c1G (a : Automaton K P) (s : Nat) : Bool := a.noDetChild s || childEpsFree a s

section Basic
variable [DecidableEq K] [DecidableEq P]
set_option linter.unusedSectionVars false

theorem childEF_of_childEpsFree {a : Automaton K P} {s : Nat} (inv : Inv a)
    (h : childEpsFree a s = true) : ChildEF a s := by
  unfold childEpsFree at h
  rw [List.all_eq_true] at h
  intro t e he hsrc
  obtain ⟨nd, hnd, hout⟩ := inv.wf.edge_src t e he
  rw [hsrc] at hnd
  have hmem : e.dst ∈ a.g.succs s := SGraph.mem_succs.2 ⟨nd, t, e, hnd, hout, he, rfl⟩
  exact ef_of_eo inv (h e.dst hmem)

/-- A state without outgoing epsilon edge has an empty fallback order. -/
theorem eorder_nil_of_ef {a : Automaton K P} (inv : Inv a) {x : Nat} {w : AState K}
    (hw : a.g.weight? x = some w) (h : EF a x) : w.eorder = [] := by
  cases heo : w.eorder with
  | nil => rfl
  | cons t ts =>
    exfalso
    have hm : t ∈ w.eorder := by rw [heo]; exact List.mem_cons_self
    obtain ⟨e, he, hs, hn⟩ := (mem_eorder_iff inv.ok hw).1 hm
    exact h t e he hs hn

/-! ### the sub-steps keep `ChildEF a s` -/

/-- One fused group. -/
theorem childEF_fuse {a a' : Automaton K P} {s : Nat} {ts : List Nat}
    {c0 : Option (Constraint K P)} {N tN : Nat} (inv : Inv a)
    (hg : ∀ t ∈ ts, ∃ e, a.g.edge? t = some e ∧ e.src = s ∧ e.w = c0)
    (fe : C08.FuseEdges a a' s ts N tN c0) (L : ChildEF a s) : ChildEF a' s := by
  have hold : ∀ old, IsOld a ts old → EF a old := by
    rintro old ⟨t, ht, e, he, hd⟩
    obtain ⟨e', he', hs', _⟩ := hg t ht
    rw [he] at he'; cases he'
    exact hd ▸ L t e he hs'
  have hN : EF a' N := by
    intro t e he hsrc hn
    rcases fe.all t e he with ⟨_, h0⟩ | ⟨_, _, h0⟩ | ⟨_, _, old, ho, t0, h0⟩
    · subst h0; exact fe.nes hsrc.symm
    · exact fe.deadN (hsrc ▸ inv.ok.src_live h0)
    · exact hold old ho t0 _ h0 rfl hn
  have hback : ∀ x, x ≠ N → x ≠ s → ∀ t e, a'.g.edge? t = some e → e.src = x →
      a.g.edge? t = some e := by
    intro x hxN hxs t e he hsrc
    rcases fe.all t e he with ⟨_, h0⟩ | ⟨_, _, h0⟩ | ⟨_, h0, _⟩
    · subst h0; exact absurd hsrc.symm hxs
    · exact h0
    · exact absurd (hsrc.symm.trans h0) hxN
  intro t e he hsrc
  rcases fe.all t e he with ⟨_, h0⟩ | ⟨_, _, h0⟩ | ⟨_, h0, _⟩
  · subst h0; exact hN
  · have hdN : e.dst ≠ N := fun hd => fe.deadN (hd ▸ inv.ok.dst_live h0)
    have hds : e.dst ≠ s := fun hd => inv.noloop t e h0 (hsrc.trans hd.symm)
    intro t' e' he' hsrc' hn'
    exact L t e h0 hsrc t' e' (hback e.dst hdN hds t' e' he' hsrc') hsrc' hn'
  · exact absurd (h0.symm.trans hsrc) fe.nes

theorem childEF_makeConstraintsUnique {a a' : Automaton K P} {s : Nat} {evs evs' : List Ev}
    (inv : Inv a) (hs : a.Live s) (L : ChildEF a s)
    (h : a.makeConstraintsUnique s evs = .ok (a', evs')) : ChildEF a' s := by
  have := C07.makeConstraintsUnique_induct2 (fun b => ChildEF b s) (s := s)
    (fun {a a' ts c0} inv hs hg _ hf hΦ => by
      obtain ⟨N, tN, fe⟩ := C08.fuseGroup_edges inv hs hg hf
      exact childEF_fuse inv hg fe hΦ) inv hs L h
  exact this.1

theorem treeFrame_childEF {a a' : Automaton K P} {s : Nat} (fr : TreeFrame a a' s) (inv : Inv a)
    (L : ChildEF a s) : ChildEF a' s := by
  intro t e he hsrc t' e' he' hsrc' hn'
  have hds : e.dst ≠ s := fun hd => fr.inv.noloop t e he (hsrc.trans hd.symm)
  have h0 : a.g.edge? t' = some e' := fr.eps_old t' e' he' (hsrc' ▸ hds) hn'
  rcases fr.children t e he hsrc with hdead | ⟨t0, e0, he0, hs0, hd0⟩
  · exact hdead (hsrc' ▸ inv.ok.src_live h0)
  · exact L t0 e0 he0 hs0 t' e' h0 (hsrc'.trans hd0.symm) hn'

theorem childEF_insertConstraintTree
    {toTree : List (Constraint K P) → Option (CTree (Constraint K P))}
    {a a' : Automaton K P} {s fuel : Nat} {det : Bool} (inv : Inv a) (hs : a.Live s)
    (L : ChildEF a s) (h : insertConstraintTree toTree a s fuel = .ok (a', det)) :
    ChildEF a' s :=
  treeFrame_childEF (insertConstraintTree_frame inv hs h) inv L

/-! ### guard E from the local condition -/

/-- The local condition at `make_det(s)` time. -/
def LocalOK (a : Automaton K P) (s : Nat) : Prop := NonDetChildren a s ∨ ChildEF a s

theorem not_bad_of_localOK {a a0 : Automaton K P} {s : Nat} {w ws fw : AState K} {F tε : Nat}
    {eε : GEdge (Option (Constraint K P))} (inv : Inv a) (hl : LocalOK a s)
    (r : Reflag a a0 s w) (hws : a0.g.weight? s = some ws) (hε : ws.eorder = [tε])
    (heε : a0.g.edge? tε = some eε) (hF : eε.dst = F) (hfw : a0.g.weight? F = some fw) :
    badDetChild a0 ws.corder fw = false := by
  cases hb : badDetChild a0 ws.corder fw with
  | false => rfl
  | true =>
    exfalso
    unfold badDetChild at hb
    rw [List.any_eq_true] at hb
    obtain ⟨t, ht, hbt⟩ := hb
    obtain ⟨e, he, hsrc, _⟩ := r.inv.ok.corder_edge s ws hws t ht
    rw [he] at hbt
    simp only at hbt
    have he3 : a.g.edge? t = some e := by rw [← r.edge t]; exact he
    have hds : e.dst ≠ s := fun hd => inv.noloop t e he3 (hsrc.trans hd.symm)
    cases hwd : a0.g.weight? e.dst with
    | none => rw [hwd] at hbt; cases hbt
    | some wx =>
      rw [hwd] at hbt
      simp only [Bool.and_eq_true] at hbt
      obtain ⟨hdet, hne⟩ := hbt
      have hwd3 : a.g.weight? e.dst = some wx := by rw [← r.wt_ne e.dst hds]; exact hwd
      rcases hl with hnd | hc
      · exact hnd t e he3 hsrc ⟨wx, hwd3, hdet⟩
      · -- both the child and the fail state are children of `s`: no epsilon
        have h1 : wx.eorder = [] := eorder_nil_of_ef inv hwd3 (hc t e he3 hsrc)
        have hmem : tε ∈ ws.eorder := by rw [hε]; exact List.mem_singleton.2 rfl
        obtain ⟨e2, he2, hs2, _⟩ := (mem_eorder_iff r.inv.ok hws).1 hmem
        rw [heε] at he2; cases he2
        have he23 : a.g.edge? tε = some eε := by rw [← r.edge tε]; exact heε
        have hFs : F ≠ s := fun hd => inv.noloop tε eε he23 (hs2.trans (hF.trans hd).symm)
        have hfw3 : a.g.weight? F = some fw := by rw [← r.wt_ne F hFs]; exact hfw
        have h2 : fw.eorder = [] :=
          eorder_nil_of_ef inv hfw3 (hF ▸ hc tε eε he23 hs2)
        rw [h1, h2] at hne
        simp at hne

/-- Under the local condition the unguarded `make_det` and the one with guard E agree. -/
theorem makeDetE_of_makeDetL {a a' : Automaton K P} {s : Nat} (inv : Inv a)
    (hl : LocalOK a s) (h : a.makeDetL s = .ok a') : makeDetE a s = .ok a' := by
  unfold makeDetL at h
  unfold makeDetE
  cases hsd : a.setDeterministic s with
  | error e => rw [hsd] at h; cases h
  | ok v =>
    obtain ⟨a0, wasDet⟩ := v
    rw [hsd] at h
    simp only at h ⊢
    obtain ⟨w, _, r⟩ := setDeterministic_reflag inv hsd
    by_cases hw : wasDet = true
    · rw [if_pos hw] at h ⊢; exact h
    · rw [if_neg hw] at h ⊢
      cases hf : a0.failNextState s with
      | error e => rw [hf] at h; cases h
      | ok o =>
        rw [hf] at h
        cases o with
        | none => exact h
        | some failState =>
          simp only at h ⊢
          cases h1 : a0.allTransitions failState with
          | error e => rw [h1] at h; simp only at h; cases h
          | ok failTs =>
            cases h2 : a0.corderOf s with
            | error e => rw [h1, h2] at h; simp only at h; cases h
            | ok cts =>
              cases h3 : a0.state failState with
              | error e => rw [h1, h2, h3] at h; simp only at h; cases h
              | ok fw =>
                rw [h1, h2, h3] at h
                simp only at h ⊢
                obtain ⟨ws, hws, hr | ⟨tε, eε, hε, heε, hr⟩⟩ := Automaton.failNextState_ok hf
                · cases hr.1
                · cases hr
                  obtain ⟨ws', hws', rfl⟩ := corderOf_ok_iff.1 h2
                  rw [hws] at hws'; cases hws'
                  rw [state_ok_iff] at h3
                  rw [not_bad_of_localOK inv hl r hws hε heε rfl h3]
                  exact h

end Basic
end GE
end Pm
