/-
Proofs/TBuildLPG.lean — ingredients of `Props/TBuildLPG.lean` (end-to-end C01/C02 for single-root
port-graph pattern sets on LENIENT disciplined builds).  Namespace `Pm.TBLPG`.

1. The invariant `C08.BI E Q = Inv ∧ RootSrc ∧ StrProg.SP E Q` through the DISCIPLINED main loop
   `mainLoopWith det` (guarded, guard E or lenient `make_det`: any `det` with `C08.DetOK' E Q det`)
   under the CONDITIONAL tree hypothesis `PGProg.TreeHypC` (which `pgTree` satisfies, whereas it
   does not satisfy the unconditional `TreeHyp` of `C08.mainLoopWith_only`):
   `iterationWith_biC`, `mainLoopWith_biC`, `builtWith_biC`.
2. `pgStateOK_builtWith` — the lenient analogue of `PGProg.stateOK_build`: every live state of an
   automaton returned by a disciplined build (guarded or LENIENT) of `CQ` inputs satisfies
   `AnchG.StateOK`, and every edge constraint satisfies `CQ` (hence is corner-free).
3. `pg_run_sound_of_acc` / `pg_run_of_acc` — `PGProg.pg_built_of_allOK` with T-BUILD replaced by
   a hypothesis on acceptance (sound / exact, for the corner-insensitive reading `pgSigmaAnch'`).
-/
import PmVerif.Proofs.C08Lenient
import PmVerif.Proofs.C08PGErrors
import PmVerif.Proofs.PGProgCor
import PmVerif.Proofs.PGProgEmb
namespace Pm
namespace TBLPG
open Automaton C08 StrProg

/-! ### `BI` through the disciplined main loop under the conditional tree hypothesis -/

section Generic
variable {K P : Type} [DecidableEq K] [DecidableEq P]
variable {E : Nat → Prop} {Q : Constraint K P → Prop}

/-- One iteration of the disciplined main loop preserves `BI` (`C08.iterationWith_only`, second
half, with `TreeFine` replaced by `TreeOK` for some `σ` and `TreeHypC`). -/
theorem iterationWith_biC {det : Automaton K P → Nat → R (Automaton K P)} (hdet : DetOK' E Q det)
    {σ : Constraint K P → Bool}
    {toTree : List (Constraint K P) → Option (CTree (Constraint K P))} (hT : TreeOK toTree σ)
    (hH : PGProg.TreeHypC Q toTree) (fuel : Nat) {a : Automaton K P} (s : Nat) (evs : List Ev)
    (bi : BI E Q a) :
    ∀ r, iterationWith det toTree fuel a s evs = .ok r → BI E Q r.1 := by
  unfold iterationWith
  split
  · exact fun r h => by cases h
  · rename_i hlive
    have hs : a.Live s := by
      unfold Live; cases hx : a.g.containsNode s <;> simp_all
    cases h1 : a.makeConstraintsUnique s evs with
    | error e => exact fun r h => by cases h
    | ok v1 =>
      obtain ⟨a1, evs1⟩ := v1
      simp only
      obtain ⟨p1, _⟩ := makeConstraintsUnique_spec (σ := σ) bi.inv hs h1
      have bi1 : BI E Q a1 :=
        ⟨p1.inv, (p1.rootSrc bi.rs).1, sp_makeConstraintsUnique bi.inv hs bi.rs bi.sp h1⟩
      cases h2 : insertConstraintTree toTree a1 s fuel with
      | error e => exact fun r h => by cases h
      | ok v2 =>
        obtain ⟨a2, treeDet⟩ := v2
        simp only
        obtain ⟨st2, _⟩ := insertConstraintTree_spec_of addConstraintTree_built hT p1.inv
          p1.live_s h2
        have bi2 : BI E Q a2 :=
          ⟨st2.inv, st2.rootSrc bi1.rs, PGProg.sp_insertConstraintTreeC hT hH p1.inv bi1.sp h2⟩
        cases h3 : a2.makeConstraintsUnique s evs1 with
        | error e => exact fun r h => by cases h
        | ok v3 =>
          obtain ⟨a3, evs3⟩ := v3
          simp only
          obtain ⟨p3, _⟩ := makeConstraintsUnique_spec (σ := σ) st2.inv st2.live_s h3
          have bi3 : BI E Q a3 :=
            ⟨p3.inv, (p3.rootSrc bi2.rs).1,
              sp_makeConstraintsUnique st2.inv st2.live_s bi2.rs bi2.sp h3⟩
          have hu := makeConstraintsUnique_unique st2.inv st2.live_s h3
          obtain ⟨hfa, hba⟩ := afterDet_only (A := fun _ => True) (fun _ _ => trivial) hdet
            treeDet evs3 bi3 p3.live_s (eorder_le_one p3.inv hu)
          exact (iteration_tail_only (A := fun _ => True) (fun _ _ => trivial) (s := s) _ hfa
            hba).2

/-- The disciplined main loop preserves `BI`. -/
theorem mainLoopWith_biC {det : Automaton K P → Nat → R (Automaton K P)} (hdet : DetOK' E Q det)
    {σ : Constraint K P → Bool}
    {toTree : List (Constraint K P) → Option (CTree (Constraint K P))} (hT : TreeOK toTree σ)
    (hH : PGProg.TreeHypC Q toTree) (fuel : Nat) :
    ∀ (n : Nat) {a a' : Automaton K P} (emitted : List Nat) (evs : List Ev),
    mainLoopWith det toTree fuel n a emitted evs = .ok a' → BI E Q a → BI E Q a' := by
  intro n
  induction n with
  | zero =>
    intro a a' emitted evs h H
    cases evs with
    | nil =>
      unfold mainLoopWith at h
      split at h
      · cases h; exact H
      · cases h
    | cons e es => unfold mainLoopWith at h; cases h
  | succ n ih =>
    intro a a' emitted evs h H
    cases evs with
    | nil =>
      unfold mainLoopWith at h
      split at h
      · cases h; exact H
      · cases h
    | cons e es =>
      cases e with
      | topo s =>
        unfold mainLoopWith at h
        split at h
        · cases h
        · split at h
          · cases h
          · rename_i a1 evs1 h1
            exact ih _ evs1 h (iterationWith_biC hdet hT hH fuel s es H _ h1)
      | _ => unfold mainLoopWith at h; cases h

/-- The parts of a successful disciplined build, with `BI` of the automaton the main loop ends
with (`C08.builtWith_facts` under the conditional tree hypothesis). -/
theorem builtWith_biC {det : Automaton K P → Nat → R (Automaton K P)} (hdet : DetOK' E Q det)
    {σ : Constraint K P → Bool}
    {toTree : List (Constraint K P) → Option (CTree (Constraint K P))} (hT : TreeOK toTree σ)
    (hH : PGProg.TreeHypC Q toTree)
    {req : K → List K} {fuel : Nat} {patterns : List (Nat × List (Constraint K P) × List K)}
    (hp : ∀ p ∈ patterns, (∀ c ∈ p.2.1, Q c) ∧ (E p.1 → p.2.1 = [])) {evs : List Ev}
    {A : Automaton K P}
    (h : buildWith det toTree req fuel patterns evs = .ok A) :
    ∃ a1 a2, addPatterns req fuel (new : Automaton K P) patterns = .ok a1 ∧
      mainLoopWith det toTree fuel evs.length a1 [] evs = .ok a2 ∧
      populateScopes req fuel a2 = .ok A ∧ BI E Q a2 := by
  obtain ⟨a1, a2, h1, h2, h3⟩ := buildWith_parts h
  exact ⟨a1, a2, h1, h2, h3,
    mainLoopWith_biC hdet hT hH fuel _ _ _ h2 (bi_addPatterns hp h1)⟩

end Generic

/-! ### `AnchG.StateOK` for every disciplined port-graph build, guarded or lenient -/

open AnchG MatProg PGProg

/-- **Every automaton returned by a disciplined single-root port-graph build — guarded or
LENIENT — is an OK program**, and all its edge constraints satisfy `CQ`.  (`PGProg.stateOK_build`
for `C08.buildWith det`.) -/
theorem pgStateOK_builtWith (css : List (Option (List PGCons)))
    {det : Automaton PGKey PGPred → Nat → R (Automaton PGKey PGPred)}
    (hdet : DetOK' (fun pid => css[pid]? = some (some [])) CQ det) (hdm : DetMFrom det)
    {fuelT fuel : Nat} {inputs : List (Nat × List PGCons × List PGKey)} {evs : List Ev}
    {A : Automaton PGKey PGPred}
    (hcssQ : ∀ (i : Nat) (cs : List PGCons), css[i]? = some (some cs) → ∀ c ∈ cs, CQ c)
    (hin : ∀ x ∈ inputs, css[x.1]? = some (some x.2.1) ∧ x.2.2 = [])
    (hb : buildWith det (fun cs => pgTree cs fuelT) pgReq fuel inputs evs = .ok A) :
    (∀ s w, A.g.weight? s = some w → StateOK A css s w) ∧
    (∀ t e c, A.g.edge? t = some e → e.w = some c → CQ c) := by
  have hT := treeOK_sigma' ⟨[], []⟩ 0 fuelT
  have hq : ∀ x ∈ inputs, ∀ c ∈ x.2.1, CQ c := fun x hx => hcssQ _ _ (hin x hx).1
  obtain ⟨a1, a2, h1, h2, hps, bi2⟩ :=
    builtWith_biC (E := fun pid => css[pid]? = some (some [])) (Q := CQ) hdet hT
      (treeHypC_pgTree fuelT)
      (by
        intro p hp
        refine ⟨hq p hp, fun hE => ?_⟩
        have hE' : css[p.1]? = some (some []) := hE
        rw [(hin p hp).1] at hE'
        simpa using hE') hb
  have inv2 := bi2.inv
  have sp2 := bi2.sp
  -- recorded key lists
  have H1 : c09b_MFrom (KeysOf css) a1 := by
    refine pgKeys_addPatterns css fuel inputs new a1
      (fun x hx => ⟨(hin x hx).1, (hin x hx).2, fun c hc => (hq x hx c hc).sr⟩) h1 ?_
    intro s w hw m hm
    rw [new_no_matches s w hw] at hm
    cases hm
  have hkeys : c09b_MFrom (KeysOf css) A :=
    c09b_mfrom_populateScopes hps (mfrom_mainLoopWith hdm _ _ _ h2 H1)
  have hrec : ∀ s w, A.g.weight? s = some w → ∀ m ∈ w.matches_,
      ∃ cs, css[m.1]? = some (some cs) ∧ m.2 = pgPatternKeys cs ∧ ∀ c ∈ cs, CQ c := by
    intro s w hw m hm
    obtain ⟨cs, hcs, hk⟩ := hkeys s w hw m hm
    exact ⟨cs, hcs, hk, hcssQ _ _ hcs⟩
  have hsame := populateScopes_sameButScope hps
  have hcov := c09_populateScopes_scopeCovers pgReq_acyclic hps
  have hk2 : ∀ s w, a2.g.weight? s = some w → ∀ m ∈ w.matches_, m.2 ≠ [] → PGKey.root 0 ∈ m.2 := by
    intro s w2 hw2 m hm hne
    obtain ⟨w, hw, he⟩ := hsame.weight?_symm hw2
    have hm' : m ∈ w.matches_ := by rw [he]; exact hm
    obtain ⟨cs, _, hmk, hcq⟩ := hrec s w hw m hm'
    exact sh_mem_start (hmk ▸ (shP_pgPatternKeys cs fun c hc => (hcq c hc).sr).1) hne
  have hshape := populateScopes_shPOn pgReq_starOn hps
    (fun t e c he hw => (sp2.efrom t e c he hw).sr) hk2
  refine ⟨?_, fun t e c he hc => sp2.efrom t e c (by rw [← hsame.edge?]; exact he) hc⟩
  intro s w hw
  obtain ⟨w2, hw2, he⟩ := hsame.weight? hw
  have hco : w.corder = w2.corder := by rw [he]
  have heo : w.eorder = w2.eorder := by rw [he]
  have hma : w.matches_ = w2.matches_ := by rw [he]
  have hcon : ∀ t ∈ w.corder, ∃ e c, A.g.edge? t = some e ∧ e.w = some c ∧
      c.args.length = c.pred.arity ∧ ∀ k ∈ c.args, k ∈ w.scope := by
    intro t ht
    obtain ⟨e, he2, _, hsome⟩ := inv2.ok.corder_edge s w2 hw2 t (hco ▸ ht)
    obtain ⟨c, hc⟩ := Option.isSome_iff_exists.1 hsome
    have heA : A.g.edge? t = some e := by rw [hsame.edge?]; exact he2
    exact ⟨e, c, heA, hc, (sp2.efrom t e c he2 hc).arity, hcov s w hw t ht e c heA hc⟩
  refine ⟨hcon, ?_, anchSh_of_shP (hshape s w hw), ?_⟩
  · intro hor
    have hcne : w.corder ≠ [] := by
      rcases hor with h | h
      · exact h
      · obtain ⟨t, ht⟩ := List.exists_mem_of_ne_nil _ h
        obtain ⟨e, he2, hsrc, hnone⟩ := inv2.ok.eorder_edge s w2 hw2 t (heo ▸ ht)
        have hn : e.w = none := Option.isNone_iff_eq_none.1 hnone
        obtain ⟨t', e', he', hs', hw'⟩ := sp2.noEps t e he2 hn
        have : t' ∈ w2.corder := (mem_corder_iff inv2.ok hw2).2 ⟨e', he', hs'.trans hsrc, hw'⟩
        rw [hco]
        exact List.ne_nil_of_mem this
    obtain ⟨t, ht⟩ := List.exists_mem_of_ne_nil _ hcne
    obtain ⟨e, c, _, _, har, hsc⟩ := hcon t ht
    have hpos' : 0 < c.args.length := by rw [har]; exact pgArity_pos _
    obtain ⟨k, hk⟩ := List.exists_mem_of_ne_nil _ (List.ne_nil_of_length_pos hpos')
    exact List.ne_nil_of_mem (hsc k hk)
  · intro pid ks hm
    obtain ⟨cs, hcs, hks, hcq⟩ := hrec s w hw (pid, ks) hm
    simp only at hcs hks
    refine ⟨hks ▸ anchSh_of_shP (shP_pgPatternKeys cs fun c hc => (hcq c hc).sr), ?_, cs, hcs, hks⟩
    by_cases hnil : ks = []
    · left
      have hcnil : cs = [] := by
        refine Classical.byContradiction fun hcne => ?_
        exact pgPatternKeys_ne_nil hcne hcq (hks ▸ hnil)
      subst hcnil
      have hid : a2.Ids s pid :=
        ⟨w2, hw2, List.mem_map.2 ⟨(pid, ks), hma ▸ hm, rfl⟩⟩
      rw [hsame.root]
      exact sp2.emp s pid hid hcs
    · exact .inr hnil

/-! ### from acceptance to matches, for any automaton all of whose states are OK -/

section Run
variable {inputs : List (Nat × List PGCons × List PGKey)} {A : Automaton PGKey PGPred}
  {css : List (Option (List PGCons))} {h : PortGraph}

/-- The key list recorded for pattern `i` anywhere along an acceptance derivation. -/
theorem pg_recorded (hcss : ∀ p ∈ inputs, css[p.1]? = some (some p.2.1)) (hok : AllOK A css)
    {σ : PGCons → Bool} {s i : Nat} {ks : List PGKey} {cs : List PGCons} {ex : List PGKey}
    (hacc : AccDetK σ A s i ks) (hmem : (i, cs, ex) ∈ inputs) :
    ks = pgPatternKeys cs ∧ ∃ s' w', A.g.weight? s' = some w' ∧ (i, ks) ∈ w'.matches_ ∧
      (s' = A.root ∨ ks ≠ []) := by
  obtain ⟨s', w', hw', hm'⟩ := Anch.accDetK_recorded hacc
  obtain ⟨_, hroot, cs', hcs', hks⟩ := (hok _ _ hw').matches_ i ks hm'
  have := hcss _ hmem
  simp only at this
  rw [this] at hcs'
  cases hcs'
  exact ⟨hks, s', w', hw', hm', hroot⟩

/-- **Soundness of the traversal from soundness of acceptance** (`PGProg.pg_built_of_allOK`, left
to right, with T-BUILD replaced by its no-false-positive half). -/
theorem pg_run_sound_of_acc (fuel' : Nat) (ms : List (Match PGMap))
    (seen : List (Nat × List (Option Nat)))
    (hnc : ∀ p ∈ inputs, ∀ c ∈ p.2.1, pgNoCorner c = true)
    (hedge : ∀ t e c, A.g.edge? t = some e → e.w = some c → pgNoCorner c = true)
    (hcss : ∀ p ∈ inputs, css[p.1]? = some (some p.2.1))
    (hok : AllOK A css) (hr : run pgDomain A h fuel' = .ok (ms, seen)) (i : Nat)
    (hsound : ∀ r, AccDet (pgSigmaAnch' h r) A A.root i →
      ∃ cs extra, (i, cs, extra) ∈ inputs ∧ ∀ c ∈ cs, pgSigmaAnch' h r c = true)
    (m : PGMap) (hm : ∃ m', (i, m') ∈ ms ∧ MapEqv m' m) :
    ∃ cs ex, (i, cs, ex) ∈ inputs ∧
      ((cs = [] ∧ m = []) ∨
       (cs ≠ [] ∧ ∃ r, r ∈ h.nodesIter ∧ (∀ c ∈ cs, pgSigmaAnch h r c = true) ∧
         (∀ k ∈ pgPatternKeys cs, (pgVal h r k).isSome = true) ∧
         MapGets m (pgPatternKeys cs) (pgVal h r))) := by
  rw [trun_pg_of_allOK A css h fuel' ms seen hok hr] at hm
  have hin : ∀ r cs ex, (i, cs, ex) ∈ inputs → ∀ c ∈ cs,
      pgSigmaAnch' h r c = pgSigmaAnch h r c := fun r cs ex hmem c hc =>
    sigma'_eq_of_noCorner (hnc _ hmem c hc)
  rcases hm with ⟨rfl, w, hw, hmem⟩ | ⟨r, ks, hrn, hne, hacc, hb', hmap⟩
  · have hacc : AccDetK (pgSigmaAnch' h 0) A A.root i [] := .here hw hmem
    obtain ⟨cs, ex, hmem', hall⟩ := hsound 0 (Anch.accDet_of_accDetK hacc)
    obtain ⟨hks, _⟩ := pg_recorded hcss hok hacc hmem'
    refine ⟨cs, ex, hmem', .inl ⟨?_, rfl⟩⟩
    refine Classical.byContradiction fun hcs => ?_
    exact patternKeys_ne (h := h) (r := 0) hcs
      (fun c hc => (hin 0 cs ex hmem' c hc) ▸ hall c hc) hks.symm
  · have hacc' : AccDetK (pgSigmaAnch' h r) A A.root i ks :=
      (accDetK_congr fun t e c he hc => (sigma'_eq_of_noCorner (hedge t e c he hc)).symm).mp hacc
    obtain ⟨cs, ex, hmem', hall⟩ := hsound r (Anch.accDet_of_accDetK hacc')
    obtain ⟨hks, _⟩ := pg_recorded hcss hok hacc hmem'
    subst hks
    refine ⟨cs, ex, hmem', .inr ⟨?_, r, hrn, ?_, hb', hmap⟩⟩
    · rintro rfl
      exact hne patternKeys_nil
    · exact fun c hc => (hin r cs ex hmem' c hc) ▸ hall c hc

/-- **The traversal reports exactly the specified bindings** as soon as acceptance is exact
(`PGProg.pg_built_of_allOK` with T-BUILD as a hypothesis). -/
theorem pg_run_of_acc (fuel' : Nat) (ms : List (Match PGMap))
    (seen : List (Nat × List (Option Nat)))
    (hnc : ∀ p ∈ inputs, ∀ c ∈ p.2.1, pgNoCorner c = true)
    (hedge : ∀ t e c, A.g.edge? t = some e → e.w = some c → pgNoCorner c = true)
    (hcss : ∀ p ∈ inputs, css[p.1]? = some (some p.2.1))
    (hok : AllOK A css) (hr : run pgDomain A h fuel' = .ok (ms, seen)) (i : Nat)
    (hbuild : ∀ r, AccDet (pgSigmaAnch' h r) A A.root i ↔
      ∃ cs extra, (i, cs, extra) ∈ inputs ∧ ∀ c ∈ cs, pgSigmaAnch' h r c = true)
    (m : PGMap) :
    (∃ m', (i, m') ∈ ms ∧ MapEqv m' m) ↔
      ∃ cs ex, (i, cs, ex) ∈ inputs ∧
        ((cs = [] ∧ m = []) ∨
         (cs ≠ [] ∧ ∃ r, r ∈ h.nodesIter ∧ (∀ c ∈ cs, pgSigmaAnch h r c = true) ∧
           (∀ k ∈ pgPatternKeys cs, (pgVal h r k).isSome = true) ∧
           MapGets m (pgPatternKeys cs) (pgVal h r))) := by
  constructor
  · exact pg_run_sound_of_acc fuel' ms seen hnc hedge hcss hok hr i (fun r => (hbuild r).mp) m
  · rw [trun_pg_of_allOK A css h fuel' ms seen hok hr]
    have hin : ∀ r cs ex, (i, cs, ex) ∈ inputs → ∀ c ∈ cs,
        pgSigmaAnch' h r c = pgSigmaAnch h r c := fun r cs ex hmem c hc =>
      sigma'_eq_of_noCorner (hnc _ hmem c hc)
    rintro ⟨cs, ex, hmem, ⟨rfl, rfl⟩ | ⟨hcs, r, hrn, hall, hb', hmap⟩⟩
    · left
      have hacc : AccDet (pgSigmaAnch' h 0) A A.root i :=
        (hbuild 0).mpr ⟨[], ex, hmem, fun c hc => by cases hc⟩
      obtain ⟨ks, hK⟩ := Anch.accDetK_of_accDet hacc
      obtain ⟨hks, s', w', hw', hm', hroot⟩ := pg_recorded hcss hok hK hmem
      rw [patternKeys_nil] at hks
      subst hks
      have hs : s' = A.root := by
        rcases hroot with h | h
        · exact h
        · exact absurd rfl h
      subst hs
      exact ⟨rfl, w', hw', hm'⟩
    · right
      have hacc : AccDet (pgSigmaAnch' h r) A A.root i :=
        (hbuild r).mpr ⟨cs, ex, hmem, fun c hc => (hin r cs ex hmem c hc).symm ▸ hall c hc⟩
      obtain ⟨ks, hK⟩ := Anch.accDetK_of_accDet hacc
      obtain ⟨hks, _⟩ := pg_recorded hcss hok hK hmem
      subst hks
      exact ⟨r, _, hrn, patternKeys_ne hcs hall,
        (accDetK_congr fun t e c he hc =>
          (sigma'_eq_of_noCorner (hedge t e c he hc)).symm).mpr hK, hb', hmap⟩

end Run

end TBLPG
end Pm
