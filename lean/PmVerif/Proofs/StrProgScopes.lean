/-
Proofs/StrProgScopes.lean — `populate_scopes` on the STRING indexing scheme `strReq`
(`strReq k = if k = 0 then [] else [0]`): every scope it computes has the shape `Sh`
(`Proofs/StrProgDefs.lean`): it is empty, or it is the start key `0` followed by keys different
from `0`.

* `sh_append_missing` / `sh_append_allMissing` — appending the missing bindings of any key list
  to a known list of shape `Sh` keeps the shape.
* `sh_filter` / `sh_reduce` — the order-preserving intersections of `forward_scopes` keep it.
* `forwardScopes_sh` — every forward scope satisfies `Sh`.
* `backwardScopes_zero` — every non-empty backward scope contains `0`, provided every non-empty
  recorded key list does.
* `setScopes_sh`, `populateScopes_sh` — the final scopes satisfy `Sh`.
Everything lives in `namespace Pm.StrProg`.
-/
import PmVerif.Proofs.StrProgDefs
import PmVerif.Proofs.WFLemmas
import PmVerif.Props.C09
namespace Pm
namespace StrProg
open Automaton

/-! ### The shape `Sh` -/

theorem sh_nil : Sh [] := .inl rfl

theorem sh_mem_zero {ks : List Nat} (h : Sh ks) (hne : ks ≠ []) : 0 ∈ ks := by
  rcases h with h | ⟨rest, h, _⟩
  · exact absurd h hne
  · rw [h]; exact List.mem_cons_self

/-- The string scheme is rank-acyclic (rank := the key itself). -/
theorem strReq_acyclic : RankAcyclic strReq :=
  ⟨id, fun k p hp => by
    unfold strReq at hp
    split at hp
    · cases hp
    · rename_i hk
      rw [List.mem_singleton.1 hp]
      exact Nat.pos_of_ne_zero hk⟩

theorem strReq_ne_zero {x : Nat} (hx : x ≠ 0) : strReq x = [0] := by
  unfold strReq
  rw [if_neg hx]

theorem sh_append_missing {known keys more : List Nat} (hk : Sh known)
    (hm : MissingSpec strReq known keys more) : Sh (known ++ more) := by
  rcases hk with rfl | ⟨rest, rfl, hr⟩
  · rw [List.nil_append]
    cases more with
    | nil => exact .inl rfl
    | cons x tl =>
      have hx0 : x = 0 := by
        by_cases hx : x = 0
        · exact hx
        · exfalso
          have h2 := (hm.order x List.mem_cons_self 0
            (by rw [strReq_ne_zero hx]; exact List.mem_singleton.2 rfl)
            (fun h => by cases h)).2
          rw [List.idxOf_cons_self] at h2
          exact Nat.not_lt_zero _ h2
      subst hx0
      exact .inr ⟨tl, rfl, (List.nodup_cons.1 hm.nodup).1⟩
  · refine .inr ⟨rest ++ more, rfl, ?_⟩
    intro h
    rcases List.mem_append.1 h with h | h
    · exact hr h
    · exact ((hm.exact 0).1 h).not_known List.mem_cons_self

theorem sh_append_allMissing {known keys more : List Nat} {fuel : Nat} (hk : Sh known)
    (h : allMissingBindings strReq keys known fuel = some more) : Sh (known ++ more) :=
  sh_append_missing hk (c12_all_any_fuel strReq strReq_acyclic keys known fuel more h)

/-- A prerequisite-ordered key list of the string scheme starts with the start key `0`. -/
theorem head_zero_of_prereqOrdered {k : Nat} {tl : List Nat}
    (h : PrereqOrdered strReq (k :: tl)) : k = 0 := by
  by_cases hk : k = 0
  · exact hk
  · exfalso
    have := h 0 k rfl 0 (by rw [strReq_ne_zero hk]; exact List.mem_singleton.2 rfl)
    rw [List.take_zero] at this
    cases this

/-- The hypothesis of `populateScopes_sh` holds of prerequisite-ordered key lists. -/
theorem zero_mem_of_prereqOrdered {ks : List Nat} (h : PrereqOrdered strReq ks)
    (hne : ks ≠ []) : 0 ∈ ks := by
  cases ks with
  | nil => exact absurd rfl hne
  | cons k tl =>
    rw [head_zero_of_prereqOrdered h]
    exact List.mem_cons_self

/-- A duplicate-free prerequisite-ordered key list of the string scheme has the shape `Sh`. -/
theorem sh_of_prereqOrdered {ks : List Nat} (h : PrereqOrdered strReq ks) (hnd : ks.Nodup) :
    Sh ks := by
  cases ks with
  | nil => exact sh_nil
  | cons k tl =>
    have hk := head_zero_of_prereqOrdered h
    subst hk
    exact .inr ⟨tl, rfl, (List.nodup_cons.1 hnd).1⟩

/-- The order-preserving intersection with a list that is empty or contains `0`. -/
theorem sh_filter {x y : List Nat} (hx : Sh x) (hy : y ≠ [] → 0 ∈ y) :
    Sh (x.filter fun k => y.contains k) := by
  rcases hx with rfl | ⟨rest, rfl, hr⟩
  · exact .inl rfl
  · by_cases hy0 : y = []
    · subst hy0
      refine .inl ?_
      rw [List.filter_eq_nil_iff]
      intro a _
      simp
    · have h0 := hy hy0
      refine .inr ⟨rest.filter fun k => y.contains k, ?_, ?_⟩
      · rw [List.filter_cons_of_pos]
        exact List.contains_iff_mem.2 h0
      · intro h
        exact hr (List.mem_filter.1 h).1

theorem sh_foldl_filter :
    ∀ (xs : List (List Nat)) (x : List Nat), Sh x → (∀ y ∈ xs, Sh y) →
      Sh (xs.foldl (fun x y => x.filter fun k => y.contains k) x)
  | [], _, hx, _ => hx
  | y :: xs, x, hx, hxs => by
    rw [List.foldl_cons]
    exact sh_foldl_filter xs _
      (sh_filter hx (sh_mem_zero (hxs y List.mem_cons_self)))
      (fun z hz => hxs z (List.mem_cons_of_mem _ hz))

/-- The `reduce` of `forward_scopes` keeps the shape. -/
theorem sh_reduce {scopes : List (List Nat)} (h : ∀ y ∈ scopes, Sh y) :
    Sh ((reduceOpt (fun x y => x.filter fun k => y.contains k) scopes).getD []) := by
  cases scopes with
  | nil => exact sh_nil
  | cons x xs =>
    show Sh (xs.foldl _ x)
    exact sh_foldl_filter xs x (h x List.mem_cons_self)
      (fun z hz => h z (List.mem_cons_of_mem _ hz))

/-! ### Small list / `Except` helpers -/

theorem mapR_out {α β} {f : α → R β} :
    ∀ {xs : List α} {ys : List β}, mapR f xs = .ok ys → ∀ y ∈ ys, ∃ x ∈ xs, f x = .ok y
  | [], ys, h, y, hy => by
    rw [mapR] at h; cases h; cases hy
  | x0 :: xs, ys, h, y, hy => by
    rw [mapR] at h
    split at h
    · cases h
    · rename_i y0 hy0
      split at h
      · cases h
      · rename_i ys' hys
        cases h
        rcases List.mem_cons.1 hy with rfl | hy
        · exact ⟨x0, List.mem_cons_self, hy0⟩
        · obtain ⟨x, hx, hf⟩ := mapR_out hys y hy
          exact ⟨x, List.mem_cons_of_mem _ hx, hf⟩

/-- An `alGet` hit is the value of a member. -/
theorem alGet_some_mem {V : Type} :
    ∀ {l : List (Nat × V)} {k : Nat} {v : V}, alGet l k = some v → ∃ p ∈ l, p.2 = v
  | [], _, _, h => by cases h
  | (k', v') :: rest, k, v, h => by
    rw [alGet] at h
    split at h
    · cases h
      exact ⟨(k', v'), List.mem_cons_self, rfl⟩
    · obtain ⟨p, hp, hv⟩ := alGet_some_mem h
      exact ⟨p, List.mem_cons_of_mem _ hp, hv⟩

/-- `(alGet acc n).getD []` inherits every property of the values of `acc` that `[]` has. -/
theorem alGet_getD_prop {Q : List Nat → Prop} (hnil : Q []) {acc : List (Nat × List Nat)}
    (h : ∀ p ∈ acc, Q p.2) (n : Nat) : Q ((alGet acc n).getD []) := by
  cases hg : alGet acc n with
  | none => exact hnil
  | some v =>
    obtain ⟨p, hp, hv⟩ := alGet_some_mem hg
    exact hv ▸ h p hp

/-! ### Forward scopes -/

variable {P : Type}

theorem forwardScopes_sh (fuel : Nat) (a : Automaton Nat P) :
    ∀ (ns : List Nat) (acc fwd : List (Nat × List Nat)),
      forwardScopes strReq fuel a ns acc = .ok fwd → (∀ p ∈ acc, Sh p.2) → ∀ p ∈ fwd, Sh p.2
  | [], acc, fwd, h, hacc => by
    rw [forwardScopes] at h
    cases h
    exact hacc
  | n :: ns, acc, fwd, h, hacc => by
    rw [forwardScopes] at h
    split at h
    · cases h
    · rename_i scopes hscopes
      refine forwardScopes_sh fuel a ns _ fwd h ?_
      intro p hp
      rcases List.mem_append.1 hp with hp | hp
      · exact hacc p hp
      · rw [List.mem_singleton.1 hp]
        refine sh_reduce ?_
        intro y hy
        obtain ⟨es, _, hf⟩ := mapR_out hscopes y hy
        simp only at hf
        split at hf
        · cases hf
        · split at hf
          · cases hf
          · rename_i more hmore
            cases hf
            exact sh_append_allMissing (alGet_getD_prop sh_nil hacc es.2) hmore

theorem forwardScopes_get_sh {fuel : Nat} {a : Automaton Nat P} {ns : List Nat}
    {fwd : List (Nat × List Nat)} (h : forwardScopes strReq fuel a ns [] = .ok fwd)
    {n : Nat} {f : List Nat} (hf : alGet fwd n = some f) : Sh f := by
  obtain ⟨p, hp, hv⟩ := alGet_some_mem hf
  exact hv ▸ forwardScopes_sh fuel a ns [] fwd h (fun p hp => by cases hp) p hp

/-! ### Backward scopes -/

/-- "Empty or contains the start key". -/
def Z (ks : List Nat) : Prop := ks ≠ [] → 0 ∈ ks

theorem z_nil : Z [] := fun h => absurd rfl h

theorem z_append {x y : List Nat} (hx : Z x) (hy : Z y) : Z (x ++ y) := by
  intro hne
  by_cases hx0 : x = []
  · subst hx0
    rw [List.nil_append] at hne ⊢
    exact hy hne
  · exact List.mem_append_left _ (hx hx0)

theorem z_flatten {ls : List (List Nat)} (h : ∀ l ∈ ls, Z l) : Z ls.flatten := by
  intro hne
  obtain ⟨x, hx⟩ := List.exists_mem_of_ne_nil _ hne
  obtain ⟨l, hl, hxl⟩ := List.mem_flatten.1 hx
  exact List.mem_flatten.2 ⟨l, hl, h l hl (fun h0 => by rw [h0] at hxl; cases hxl)⟩

theorem z_flatMap {α} {ms : List α} {g : α → List Nat} (h : ∀ m ∈ ms, Z (g m)) :
    Z (ms.flatMap g) := by
  rw [List.flatMap_def]
  refine z_flatten ?_
  intro l hl
  obtain ⟨m, hm, rfl⟩ := List.mem_map.1 hl
  exact h m hm

theorem backwardScopes_zero (a : Automaton Nat P)
    (hk : ∀ s w, a.g.weight? s = some w → ∀ m ∈ w.matches_, m.2 ≠ [] → 0 ∈ m.2) :
    ∀ (ns : List Nat) (acc bwd : List (Nat × List Nat)),
      backwardScopes a ns acc = .ok bwd → (∀ p ∈ acc, Z p.2) → ∀ p ∈ bwd, Z p.2
  | [], acc, bwd, h, hacc => by
    rw [backwardScopes] at h
    cases h
    exact hacc
  | n :: ns, acc, bwd, h, hacc => by
    rw [backwardScopes] at h
    split at h
    · cases h
    · rename_i scopes hscopes
      refine backwardScopes_zero a hk ns _ bwd h ?_
      intro p hp
      rcases List.mem_append.1 hp with hp | hp
      · exact hacc p hp
      · rw [List.mem_singleton.1 hp]
        refine z_flatten ?_
        intro y hy
        obtain ⟨es, _, hf⟩ := mapR_out hscopes y hy
        split at hf
        · cases hf
        · rename_i w hw
          cases hf
          have hw' : a.g.weight? es.2 = some w := by
            unfold Automaton.state at hw
            split at hw
            · rename_i w' hw'
              cases hw
              exact hw'
            · cases hw
          exact z_append (alGet_getD_prop z_nil hacc es.2)
            (z_flatMap fun m hm => hk es.2 w hw' m hm)

theorem backwardScopes_get_zero {a : Automaton Nat P}
    (hk : ∀ s w, a.g.weight? s = some w → ∀ m ∈ w.matches_, m.2 ≠ [] → 0 ∈ m.2)
    {ns : List Nat} {bwd : List (Nat × List Nat)} (h : backwardScopes a ns [] = .ok bwd)
    {n : Nat} {b : List Nat} (hb : alGet bwd n = some b) : b ≠ [] → 0 ∈ b := by
  obtain ⟨p, hp, hv⟩ := alGet_some_mem hb
  exact hv ▸ backwardScopes_zero a hk ns [] bwd h (fun p hp => by cases hp) p hp

/-! ### `setScopes` and `populateScopes` -/

theorem setScopes_sh (fuel : Nat) (fwd bwd : List (Nat × List Nat))
    (hfwd : ∀ n f, alGet fwd n = some f → Sh f)
    (hbwd : ∀ n b, alGet bwd n = some b → b ≠ [] → 0 ∈ b) :
    ∀ (ns : List Nat) (a a' : Automaton Nat P), ns.Nodup →
      setScopes strReq fuel fwd bwd a ns = .ok a' →
      ∀ n ∈ ns, ∀ w, a'.g.weight? n = some w → Sh w.scope
  | [], _, _, _, _, n, hn => by cases hn
  | m :: ns, a, a', hnd, h, n, hn => by
    rw [List.nodup_cons] at hnd
    obtain ⟨f, b, cs, more, a1, hf, hb, _, hmore, hmod, hrest⟩ := setScopes_cons_ok h
    rcases List.mem_cons.1 hn with rfl | hn
    · intro w' hw'
      obtain ⟨hlive, _⟩ := modifyState_ok_wf hmod
      have hw := weight?_of_live hlive
      have hw1 := modifyState_weight?_self hmod hw
      have hnode := setScopes_untouched strReq fuel fwd bwd n ns a1 a' hnd.1 hrest
      have : a'.g.weight? n = a1.g.weight? n := by
        unfold SGraph.weight?; rw [hnode]
      rw [this, hw1] at hw'
      cases hw'
      show Sh (_ ++ more)
      exact sh_append_allMissing (sh_filter (hfwd n f hf) (hbwd n b hb)) hmore
    · exact setScopes_sh fuel fwd bwd hfwd hbwd ns a1 a' hnd.2 hrest n hn

/-- **Every scope computed by `populate_scopes` on the string scheme has the shape `Sh`**,
provided every non-empty recorded key list contains the start key `0`. -/
theorem populateScopes_sh {P : Type} {fuel : Nat} {a A : Automaton Nat P}
    (h : Automaton.populateScopes strReq fuel a = .ok A)
    (hk : ∀ s w, a.g.weight? s = some w → ∀ m ∈ w.matches_, m.2 ≠ [] → 0 ∈ m.2) :
    ∀ s w, A.g.weight? s = some w → Sh w.scope := by
  intro s w hw
  have hsame := populateScopes_sameButScope h
  have hlive : s ∈ a.g.nodeIndices := by
    rw [SGraph.mem_nodeIndices, ← hsame.containsNode]
    exact live_of_weight? hw
  unfold populateScopes at h
  split at h
  · cases h
  · split at h
    · rename_i fwd bwd hfwd hbwd
      exact setScopes_sh fuel fwd bwd
        (fun n f hf => forwardScopes_get_sh hfwd hf)
        (fun n b hb => backwardScopes_get_zero hk hbwd hb)
        _ a A (SGraph.nodup_nodeIndices a.g) h s hlive w hw
    · cases h
    · cases h

end StrProg
end Pm
