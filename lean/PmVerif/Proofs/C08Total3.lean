/-
Proofs/C08Total3.lean — C08 (totality) of the builder, part 3: `insert_constraint_tree(s)`
(`drainConstraints`, `to_constraints_tree`, `add_constraint_tree` = `appendEdges` / `treeChildren`
/ `treeLoop`, the fail state and `addRest`) never panics on an automaton satisfying `Inv` at a
live state, provided the decomposition `toTree` returns a tree on the drained constraints and
the labels of its trees are valid indices. The only possible error is the fuel of
`add_constraint_tree`.
Everything lives in `namespace Pm.C08`.
-/
import PmVerif.Proofs.C08Total2
import PmVerif.Proofs.BuildTreeLoop
import PmVerif.Proofs.BuildTreeSem
namespace Pm
namespace C08
open Automaton
variable {K P : Type} [DecidableEq K] [DecidableEq P]
set_option linter.unusedSectionVars false

/-! ### `appendEdges` -/

theorem appendEdges_total {src : Nat} {children : List Nat} (c : Option (Constraint K P)) :
    ∀ (inds : List Nat) {a : Automaton K P}, Inv a → a.Live src →
    (∀ d ∈ children, a.Live d) → (∀ i ∈ inds, i < children.length) →
    ∃ a', a.appendEdges src children c inds = .ok a'
  | [], a, _, _, _, _ => ⟨a, rfl⟩
  | i :: inds, a, inv, hs, hch, hin => by
    have hi := hin i List.mem_cons_self
    unfold appendEdges
    rw [List.getElem?_eq_getElem hi]
    simp only
    obtain ⟨a1, h1⟩ := appendEdge_total inv c hs (hch _ (List.getElem_mem hi))
    rw [h1]
    simp only
    obtain ⟨g1, _⟩ := appendEdge_grows inv h1
    exact appendEdges_total c inds g1.inv ((g1.live_iff src).2 hs)
      (fun d hd => (g1.live_iff d).2 (hch d hd))
      (fun j hj => hin j (List.mem_cons_of_mem _ hj))

/-- Liveness only grows along `appendEdges`. -/
theorem appendEdges_live {src : Nat} {children : List Nat} {c : Option (Constraint K P)}
    {inds : List Nat} {a a' : Automaton K P} (inv : Inv a)
    (h : a.appendEdges src children c inds = .ok a') : Inv a' ∧ ∀ x, a'.Live x ↔ a.Live x := by
  obtain ⟨g, _⟩ := appendEdges_grows inds inv h
  exact ⟨g.inv, g.live_iff⟩

/-! ### `treeChildren`, `treeLoop`, `addConstraintTree` -/

/-- What the tree loops need: valid labels everywhere. -/
def LabelsValid (tree : CTree (Constraint K P)) (n : Nat) : Prop :=
  ∀ z, ∀ i ∈ tree.labelsAt z, i < n

theorem treeChildren_total {tree : CTree (Cons K P)} {children : List Nat} {m : Nat}
    (hv : LabelsValid tree children.length) :
    ∀ (rest : List (Cons K P × Nat)) {a : Automaton K P} (stack : List (Nat × Nat))
      (added : List Nat), Inv a → a.Live m → (∀ d ∈ children, a.Live d) →
      (∀ p ∈ stack, a.Live p.2) →
      ∃ a' stack' added', treeChildren tree children m a rest stack added =
          .ok (a', stack', added') ∧ Inv a' ∧ (∀ x, a.Live x → a'.Live x) ∧
        (∀ p ∈ stack', a'.Live p.2)
  | [], a, stack, added, inv, _, _, hst => by
    unfold treeChildren
    exact ⟨a, stack, added, rfl, inv, fun _ h => h, hst⟩
  | (c, z) :: rest, a, stack, added, inv, hm, hch, hst => by
    unfold treeChildren
    simp only
    by_cases hlen : (tree.childrenAt z).length > 0
    · rw [if_pos hlen]
      obtain ⟨⟨b1, cm⟩, hadd⟩ := addTransition_total inv (some c) hm
      rw [hadd]
      simp only
      obtain ⟨e, sp⟩ := addTransition_spec inv hm hadd
      have hl1 : ∀ x, a.Live x → b1.Live x := by
        intro x hx
        obtain ⟨w, hw⟩ := live_iff.1 hx
        rw [live_iff, sp.wt]
        split
        · exact ⟨_, rfl⟩
        · split
          · rename_i hxp; subst hxp; rw [hw]; exact ⟨_, rfl⟩
          · exact ⟨w, hw⟩
      have hcm : b1.Live cm := live_of_weight (by rw [sp.wt, if_pos rfl])
      obtain ⟨b2, happ⟩ := appendEdges_total (some c) (tree.labelsAt z) sp.inv (hl1 m hm)
        (fun d hd => hl1 d (hch d hd)) (hv z)
      rw [happ]
      simp only
      obtain ⟨inv2, hl2⟩ := appendEdges_live sp.inv happ
      obtain ⟨a', stack', added', h', inv', hl', hst'⟩ :=
        treeChildren_total hv rest (stack ++ [(z, cm)]) (added ++ tree.labelsAt z) inv2
          ((hl2 m).2 (hl1 m hm)) (fun d hd => (hl2 d).2 (hl1 d (hch d hd)))
          (fun p hp => by
            rcases List.mem_append.1 hp with hp | hp
            · exact (hl2 _).2 (hl1 _ (hst p hp))
            · rw [List.mem_singleton] at hp
              subst hp
              exact (hl2 _).2 hcm)
      exact ⟨a', stack', added', h', inv', fun x hx => hl' x ((hl2 x).2 (hl1 x hx)), hst'⟩
    · rw [if_neg hlen]
      simp only
      obtain ⟨b2, happ⟩ := appendEdges_total (some c) (tree.labelsAt z) inv hm hch (hv z)
      rw [happ]
      simp only
      obtain ⟨inv2, hl2⟩ := appendEdges_live inv happ
      obtain ⟨a', stack', added', h', inv', hl', hst'⟩ :=
        treeChildren_total hv rest stack (added ++ tree.labelsAt z) inv2
          ((hl2 m).2 hm) (fun d hd => (hl2 d).2 (hch d hd))
          (fun p hp => (hl2 _).2 (hst p hp))
      exact ⟨a', stack', added', h', inv', fun x hx => hl' x ((hl2 x).2 hx), hst'⟩

theorem treeLoop_fine {tree : CTree (Cons K P)} {children : List Nat}
    (hv : LabelsValid tree children.length) :
    ∀ (fuel : Nat) {a : Automaton K P} (stack : List (Nat × Nat)) (added : List Nat),
      Inv a → (∀ d ∈ children, a.Live d) → (∀ p ∈ stack, a.Live p.2) →
      Fine (treeLoop tree children fuel a stack added) := by
  intro fuel
  induction fuel with
  | zero =>
    intro a stack added _ _ _
    cases stack with
    | nil => unfold treeLoop; exact Fine.ok _
    | cons st stack => unfold treeLoop; exact Fine.fuel _
  | succ fuel ih =>
    intro a stack added inv hch hst
    cases stack with
    | nil => unfold treeLoop; exact Fine.ok _
    | cons st stack =>
      unfold treeLoop
      simp only
      cases hlast : (st :: stack).getLast? with
      | none => exact Fine.ok _
      | some tm =>
        obtain ⟨tstate, mstate⟩ := tm
        simp only
        have hmem : (tstate, mstate) ∈ st :: stack := List.mem_of_getLast? hlast
        obtain ⟨a', stack', added', h', inv', hl', hst'⟩ :=
          treeChildren_total hv (tree.childrenAt tstate) (st :: stack).dropLast added inv
            (hst _ hmem) hch (fun p hp => hst p (List.dropLast_subset _ hp))
        rw [h']
        simp only
        exact ih stack' added' inv' (fun d hd => hl' d (hch d hd)) hst'

theorem addConstraintTree_fine {a : Automaton K P} {tree : CTree (Cons K P)} {s : Nat}
    {children : List Nat} (fuel : Nat) (inv : Inv a) (hs : a.Live s)
    (hch : ∀ d ∈ children, a.Live d) (hv : LabelsValid tree children.length) :
    Fine (a.addConstraintTree tree s children fuel) := by
  unfold addConstraintTree
  simp only
  obtain ⟨a1, h1⟩ := appendEdges_total none (tree.labelsAt 0) inv hs hch (hv 0)
  rw [h1]
  simp only
  obtain ⟨inv1, hl1⟩ := appendEdges_live inv h1
  refine treeLoop_fine hv fuel _ _ inv1 (fun d hd => (hl1 d).2 (hch d hd)) fun p hp => ?_
  rw [List.mem_singleton] at hp
  subst hp
  exact (hl1 s).2 hs

theorem live2_of' {a1 a2 : Automaton K P} {tree : CTree (Constraint K P)} {s fuel : Nat}
    {children added : List Nat} {Rep : Nat → Nat → Prop}
    (tb : TreeBuilt a1 a2 tree s children fuel added Rep) {x : Nat} (h : a1.Live x) :
    a2.Live x := by
  obtain ⟨w, hw⟩ := live_iff.1 h
  by_cases hx : x = s
  · subst hx
    obtain ⟨w', hw', _⟩ := tb.wt_s w hw
    exact live_of_weight hw'
  · exact live_of_weight ((tb.wt_old x h hx).trans hw)

/-! ### `addRest` -/

theorem addRest_total {cs : List (Constraint K P)} {ch : List Nat} {f : Nat} :
    ∀ (is : List Nat) {a : Automaton K P}, Inv a → a.Live f → (∀ d ∈ ch, a.Live d) →
    (∀ i ∈ is, i < cs.length ∧ i < ch.length) →
    ∃ a', insertConstraintTree.addRest cs ch f a is = .ok a'
  | [], a, _, _, _, _ => ⟨a, rfl⟩
  | i :: is, a, inv, hf, hch, his => by
    obtain ⟨h1, h2⟩ := his i List.mem_cons_self
    unfold insertConstraintTree.addRest
    rw [List.getElem?_eq_getElem h1, List.getElem?_eq_getElem h2]
    simp only
    obtain ⟨a1, ha1⟩ := appendEdge_total inv (some cs[i]) hf (hch _ (List.getElem_mem h2))
    rw [ha1]
    simp only
    obtain ⟨g1, _⟩ := appendEdge_grows inv ha1
    exact addRest_total is g1.inv ((g1.live_iff f).2 hf) (fun d hd => (g1.live_iff d).2 (hch d hd))
      (fun j hj => his j (List.mem_cons_of_mem _ hj))

/-! ### `insertConstraintTree` -/

theorem labelsAt_sub_allLabels {C : Type} (t : CTree C) (z : Nat) :
    ∀ i ∈ t.labelsAt z, i ∈ t.allLabels := by
  intro i hi
  unfold CTree.labelsAt at hi
  unfold CTree.allLabels
  cases hn : t.nodes[z]? with
  | none => rw [hn] at hi; cases hi
  | some nd =>
    rw [hn] at hi
    exact List.mem_flatMap.2 ⟨nd, List.mem_of_getElem? hn, hi⟩

/-- What the iteration needs from `add_constraint_tree` for an error policy `A`: all its errors
satisfy `A`, on the trees `toTree` returns. -/
def TreeStepOK (A : Err → Prop)
    (toTree : List (Constraint K P) → Option (CTree (Constraint K P))) (fuel : Nat) : Prop :=
  ∀ (a1 : Automaton K P) (cs : List (Constraint K P)) (tree : CTree (Constraint K P)) (s : Nat)
    (ch : List Nat), toTree cs = some tree → Inv a1 → a1.Live s → (∀ d ∈ ch, a1.Live d) →
    LabelsValid tree ch.length → Only A (a1.addConstraintTree tree s ch fuel)

/-- **`insert_constraint_tree(s)`**: given that the decomposition succeeds on the constraints
that leave `s` (`htot`) and returns valid labels (`hlab`), every error comes from
`add_constraint_tree` (its fuel). -/
theorem insertConstraintTree_only {A : Err → Prop}
    {toTree : List (Constraint K P) → Option (CTree (Constraint K P))}
    {a : Automaton K P} {s : Nat} (fuel : Nat) (hact : TreeStepOK A toTree fuel) (inv : Inv a)
    (hs : a.Live s)
    (hlab : ∀ cs t, toTree cs = some t → ∀ i ∈ t.allLabels, i < cs.length)
    (htot : ∀ cs : List (Constraint K P),
      (∀ c ∈ cs, ∃ t e, a.g.edge? t = some e ∧ e.src = s ∧ e.w = some c) →
      (toTree cs).isSome = true) :
    Only A (insertConstraintTree toTree a s fuel) := by
  unfold insertConstraintTree
  obtain ⟨w, hw⟩ := live_iff.1 hs
  rw [state_ok_iff.2 hw]
  simp only
  split
  · exact Only.ok _ _
  · split
    · exact Only.ok _ _
    · obtain ⟨⟨a1, drained⟩, hdr⟩ := drainConstraints_total inv hs
      rw [hdr]
      simp only
      obtain ⟨w', hw', sh, hmap⟩ := drainConstraints_shrinks inv hdr
      rw [hw] at hw'; cases hw'
      obtain ⟨hie, _⟩ := drain_ctx inv.ok hw
        (fun (x : Option (Constraint K P) × Nat) => x.1.map fun c => (c, x.2))
        (by intro _ _; rfl) drained hmap
      obtain ⟨pairs, hp⟩ : ∃ pairs, pairs = List.filterMap
          (fun (x : Option (Constraint K P) × Nat) => x.1.map fun c => (c, x.2)) drained :=
        ⟨_, rfl⟩
      rw [← hp] at hie ⊢
      have hlen : (pairs.map (·.2)).length = (pairs.map (·.1)).length := by simp
      -- the drained constraints sit on edges leaving `s`; the children are live
      have hcs : ∀ c ∈ pairs.map (·.1),
          ∃ t e, a.g.edge? t = some e ∧ e.src = s ∧ e.w = some c := by
        intro c hc
        obtain ⟨i, hi⟩ := List.mem_iff_getElem?.1 hc
        have hi' : i < (pairs.map (·.2)).length := by
          rw [hlen]; exact (List.getElem?_eq_some_iff.1 hi).1
        obtain ⟨t, _, he⟩ := hie i c (pairs.map (·.2))[i] hi (List.getElem?_eq_getElem hi')
        exact ⟨t, _, he, rfl, rfl⟩
      have hchl : ∀ d ∈ pairs.map (·.2), a1.Live d := by
        intro d hd
        obtain ⟨i, hi⟩ := List.mem_iff_getElem?.1 hd
        have hi' : i < (pairs.map (·.1)).length := by
          rw [← hlen]; exact (List.getElem?_eq_some_iff.1 hi).1
        obtain ⟨t, _, he⟩ := hie i (pairs.map (·.1))[i] d (List.getElem?_eq_getElem hi') hi
        exact (sh.live_iff d).2 (inv.ok.dst_live he)
      cases htree : toTree (pairs.map (·.1)) with
      | none =>
        have := htot _ hcs
        rw [htree] at this; cases this
      | some tree =>
        simp only
        have hv : LabelsValid tree (pairs.map (·.2)).length := by
          intro z i hi
          rw [hlen]
          exact hlab _ tree htree i (labelsAt_sub_allLabels tree z i hi)
        have hs1 : a1.Live s := (sh.live_iff s).2 hs
        have hfine := hact a1 _ tree s (pairs.map (·.2)) htree sh.inv hs1 hchl hv
        cases hadd : a1.addConstraintTree tree s (pairs.map (·.2)) fuel with
        | error e => exact hfine.error hadd
        | ok r =>
          obtain ⟨a2, added⟩ := r
          simp only
          obtain ⟨Rep, tb⟩ := addConstraintTree_built a1 a2 tree s _ fuel added sh.inv hs1 hadd
          have hl2 : ∀ x, a1.Live x → a2.Live x := fun x hx => live2_of' tb hx
          split
          · exact Only.ok _ _
          · obtain ⟨⟨a3, f⟩, h3⟩ := addTransition_total tb.inv none (hl2 s hs1)
            rw [h3]
            simp only
            obtain ⟨e, sp⟩ := addTransition_spec tb.inv (hl2 s hs1) h3
            have hl3 : ∀ x, a2.Live x → a3.Live x := by
              intro x hx
              obtain ⟨wx, hwx⟩ := live_iff.1 hx
              rw [live_iff, sp.wt]
              split
              · exact ⟨_, rfl⟩
              · split
                · rename_i hxp; subst hxp; rw [hwx]; exact ⟨_, rfl⟩
                · exact ⟨wx, hwx⟩
            have hf3 : a3.Live f := live_of_weight (by rw [sp.wt, if_pos rfl])
            obtain ⟨a4, h4⟩ := addRest_total (cs := pairs.map (·.1)) (ch := pairs.map (·.2))
              (List.filter (fun i => !added.contains i)
                (List.range (pairs.map (·.1)).length)) sp.inv hf3
              (fun d hd => hl3 d (hl2 d (hchl d hd))) (fun i hi => by
                have : i < (pairs.map (·.1)).length := by
                  have := (List.mem_filter.1 hi).1
                  simpa using this
                exact ⟨this, hlen ▸ this⟩)
            rw [h4]
            exact Only.ok _ _

/-- `add_constraint_tree` never panics on any tree with valid labels. -/
theorem treeStepOK_fine
    (toTree : List (Constraint K P) → Option (CTree (Constraint K P))) (fuel : Nat) :
    TreeStepOK NoPanic toTree fuel :=
  fun _ _ _ _ _ _ inv hs hch hv => addConstraintTree_fine fuel inv hs hch hv

/-! ### depth-one trees: one unit of fuel suffices -/

/-- Only the root has children. -/
def DepthOne (tree : CTree (Constraint K P)) : Prop :=
  ∀ c z, (c, z) ∈ tree.childrenAt 0 → tree.childrenAt z = []

theorem treeChildren_stack_eq {tree : CTree (Cons K P)} {children : List Nat} {m : Nat} :
    ∀ (rest : List (Cons K P × Nat)) {a a' : Automaton K P} {stack stack' : List (Nat × Nat)}
      {added added' : List Nat}, (∀ c z, (c, z) ∈ rest → tree.childrenAt z = []) →
      treeChildren tree children m a rest stack added = .ok (a', stack', added') →
      stack' = stack
  | [], a, a', stack, stack', added, added', _, h => by
    unfold treeChildren at h; cases h; rfl
  | (c, z) :: rest, a, a', stack, stack', added, added', hd, h => by
    obtain ⟨b1, b2, stack1, hcase, _, hrest⟩ := treeChildren_cons_inv h
    have h1 : stack1 = stack := by
      rcases hcase with ⟨hne, _⟩ | ⟨_, _, rfl⟩
      · exact absurd (hd c z List.mem_cons_self) hne
      · rfl
    rw [h1] at hrest
    exact treeChildren_stack_eq rest (fun c' z' hm => hd c' z' (List.mem_cons_of_mem _ hm)) hrest

/-- On a depth-one tree `add_constraint_tree` does not fail at all once `fuel ≥ 1`. -/
theorem addConstraintTree_total_depthOne {a : Automaton K P} {tree : CTree (Cons K P)}
    {s : Nat} {children : List Nat} {fuel : Nat} (hfuel : 1 ≤ fuel) (hd : DepthOne tree)
    (inv : Inv a) (hs : a.Live s) (hch : ∀ d ∈ children, a.Live d)
    (hv : LabelsValid tree children.length) :
    ∃ r, a.addConstraintTree tree s children fuel = .ok r := by
  unfold addConstraintTree
  simp only
  obtain ⟨a1, h1⟩ := appendEdges_total none (tree.labelsAt 0) inv hs hch (hv 0)
  rw [h1]
  simp only
  obtain ⟨inv1, hl1⟩ := appendEdges_live inv h1
  obtain ⟨f, rfl⟩ : ∃ f, fuel = f + 1 := ⟨fuel - 1, by omega⟩
  unfold treeLoop
  simp only [List.getLast?_singleton, List.dropLast_singleton]
  obtain ⟨a', stack', added', h', _, _, _⟩ :=
    treeChildren_total hv (tree.childrenAt 0) (m := s) ([] : List (Nat × Nat)) (tree.labelsAt 0)
      inv1 ((hl1 s).2 hs) (fun d hd => (hl1 d).2 (hch d hd)) (fun p hp => by cases hp)
  rw [h']
  simp only
  have : stack' = [] := treeChildren_stack_eq _ (fun c z hm => hd c z hm) h'
  subst this
  unfold treeLoop
  exact ⟨_, rfl⟩

/-- With depth-one trees and `fuel ≥ 1` `add_constraint_tree` has no errors at all. -/
theorem treeStepOK_depthOne (A : Err → Prop)
    {toTree : List (Constraint K P) → Option (CTree (Constraint K P))} {fuel : Nat}
    (hfuel : 1 ≤ fuel) (hd : ∀ cs tree, toTree cs = some tree → DepthOne tree) :
    TreeStepOK A toTree fuel :=
  fun _ cs tree _ _ htree inv hs hch hv =>
    Only.of_ok (addConstraintTree_total_depthOne hfuel (hd cs tree htree) inv hs hch hv)

/-- In particular `insert_constraint_tree` never panics. -/
theorem insertConstraintTree_fine
    {toTree : List (Constraint K P) → Option (CTree (Constraint K P))}
    {a : Automaton K P} {s : Nat} (fuel : Nat) (inv : Inv a) (hs : a.Live s)
    (hlab : ∀ cs t, toTree cs = some t → ∀ i ∈ t.allLabels, i < cs.length)
    (htot : ∀ cs : List (Constraint K P),
      (∀ c ∈ cs, ∃ t e, a.g.edge? t = some e ∧ e.src = s ∧ e.w = some c) →
      (toTree cs).isSome = true) :
    Fine (insertConstraintTree toTree a s fuel) :=
  insertConstraintTree_only fuel (treeStepOK_fine toTree fuel) inv hs hlab htot

end C08
end Pm
