/-
Proofs/StrProgFuse.lean — the step-level invariant `SP` (Proofs/StrProgDefs.lean) is preserved
by `make_constraints_unique`: from the structural description `Fused` of one `fuseGroup`
(Proofs/BuildFuse.lean) and an induction principle for `fuseLogged` / `makeConstraintsUnique`.
Everything lives in `namespace Pm.StrProg`.
-/
import PmVerif.Proofs.StrProgDefs
import PmVerif.Proofs.BuildFuse
namespace Pm
namespace StrProg
open Automaton
variable {K P : Type} [DecidableEq K] [DecidableEq P]
set_option linter.unusedSectionVars false

section Fused
variable {E : Nat → Prop} {Q : Constraint K P → Prop}

/-- One fused group. -/
theorem sp_fused {a a' : Automaton K P} {s N : Nat} {ts : List Nat}
    {c0 : Option (Constraint K P)} (f : Fused a a' s ts N c0) (hne : ts ≠ [])
    (rs : RootSrc a) (sp : SP E Q a) : SP E Q a' := by
  obtain ⟨t1, ht1⟩ := List.exists_mem_of_ne_nil ts hne
  obtain ⟨e1, he1, hs1, hw1⟩ := f.grp t1 ht1
  refine ⟨?_, ?_, ?_⟩
  · intro t e c he hc
    rcases f.sound t e he with h0 | h0 | ⟨_, old, _, t0, h0⟩
    · exact sp.efrom t e c h0 hc
    · subst h0
      exact sp.efrom t1 e1 c he1 (hw1.trans hc)
    · exact sp.efrom t0 _ c h0 hc
  · intro x pid hi hE
    rw [f.root]
    by_cases hx : x = N
    · subst hx
      obtain ⟨w, hw, _, hiff⟩ := f.wtN
      obtain ⟨w', hw', hp⟩ := hi
      rw [hw] at hw'; cases hw'
      obtain ⟨old, ho, hio⟩ := (hiff pid).1 hp
      have hroot := sp.emp old pid hio hE
      obtain ⟨t, e, he, _, _, hd⟩ := f.isOld_edge ho
      exact absurd (hd.trans hroot) (rs.2 t e he)
    · obtain ⟨w', hw', hp⟩ := hi
      obtain ⟨w, hw, hm, _⟩ := f.wt x w' hx hw'
      exact sp.emp x pid ⟨w, hw, hm ▸ hp⟩ hE
  · intro t e he hn
    have hlsrc : a'.Live e.src := f.inv'.ok.src_live he
    -- a constraint edge of `a` leaving a state that survives gives one of `a'`
    have key : ∀ x, a'.Live x →
        (∃ t' e', a.g.edge? t' = some e' ∧ e'.src = x ∧ e'.w.isSome = true) →
        ∃ t' e', a'.g.edge? t' = some e' ∧ e'.src = x ∧ e'.w.isSome = true := by
      rintro x hlx ⟨t', e', he', hs', hw'⟩
      by_cases hts : t' ∈ ts
      · obtain ⟨e2, he2, hs2, hw2⟩ := f.grp t' hts
        rw [he'] at he2; cases he2
        obtain ⟨tN, htN⟩ := f.fusedEdge
        refine ⟨tN, _, htN, ?_, ?_⟩
        · show s = x
          rw [← hs2, hs']
        · show c0.isSome = true
          rw [← hw2]; exact hw'
      · exact ⟨t', e', f.keep t' e' he' hts (hs' ▸ hlx), hs', hw'⟩
    rcases f.sound t e he with h0 | h0 | ⟨hsrc, old, ho, t0, h0⟩
    · exact key e.src hlsrc (sp.noEps t e h0 hn)
    · subst h0
      obtain ⟨t', e', he', hs', hw'⟩ := sp.noEps t1 e1 he1 (hw1.trans hn)
      exact key s f.live_s ⟨t', e', he', hs'.trans hs1, hw'⟩
    · obtain ⟨t', e', he', hs', hw'⟩ := sp.noEps t0 _ h0 hn
      obtain ⟨t'', ht''⟩ := f.copies old ho t' e' he' hs'
      exact ⟨t'', _, ht'', hsrc.symm, hw'⟩

end Fused

/-! ### an induction principle for `makeConstraintsUnique` -/

private theorem sublist_flatten' {α : Type} : ∀ {l₁ l₂ : List (List α)}, l₁.Sublist l₂ →
    l₁.flatten.Sublist l₂.flatten
  | _, _, .slnil => List.Sublist.refl _
  | _, _, .cons a h => by
    rw [List.flatten_cons]
    exact (sublist_flatten' h).trans (List.sublist_append_right _ _)
  | _, _, .cons_cons a h => by
    rw [List.flatten_cons, List.flatten_cons]
    exact List.Sublist.append (List.Sublist.refl a) (sublist_flatten' h)

private theorem disjoint_of_mem_erase' : ∀ (pending : List (List Nat)) {ts ts' : List Nat},
    pending.flatten.Nodup → ts ∈ pending → ts' ∈ pending.erase ts → ∀ t ∈ ts', t ∉ ts
  | [], _, _, _, h, _, _, _, _ => by cases h
  | p :: rest, ts, ts', hnd, hts, hts', t, ht', ht => by
    rw [List.flatten_cons, List.nodup_append] at hnd
    obtain ⟨_, h2, h3⟩ := hnd
    by_cases hp : p = ts
    · subst hp
      rw [List.erase_cons_head] at hts'
      exact h3 t ht t (List.mem_flatten.2 ⟨ts', hts', ht'⟩) rfl
    · have hne : ¬ (p == ts) = true := by simpa using hp
      rw [List.erase_cons_tail hne] at hts'
      have hts0 : ts ∈ rest := by
        rcases List.mem_cons.1 hts with h | h
        · exact absurd h.symm hp
        · exact h
      rcases List.mem_cons.1 hts' with h | h
      · subst h
        exact h3 t ht' t (List.mem_flatten.2 ⟨ts, hts0, ht⟩) rfl
      · exact disjoint_of_mem_erase' rest h2 hts0 h t ht' ht

/-- Whatever is preserved by fusing one well-formed group (all its transitions leave `s` and
carry the same constraint) is preserved by the logged sequence of fusions. -/
theorem fuseLogged_induct (Φ : Automaton K P → Prop) {s : Nat}
    (hstep : ∀ {a a' : Automaton K P} {ts : List Nat} {c0 : Option (Constraint K P)},
      Inv a → a.Live s → (∀ t ∈ ts, ∃ e, a.g.edge? t = some e ∧ e.src = s ∧ e.w = c0) →
      a.fuseGroup s ts = .ok a' → Φ a → Φ a') :
    ∀ (evs : List Ev) (pending : List (List Nat)) {a a' : Automaton K P} {evs' : List Ev},
    Inv a → a.Live s → pending.flatten.Nodup → (∀ l ∈ pending, GroupOK a s l) → Φ a →
    a.fuseLogged s pending evs = .ok (a', evs') → Φ a'
  | evs, [], a, a', evs', _, _, _, _, hΦ, h => by
    unfold fuseLogged at h
    cases h
    exact hΦ
  | [], p :: ps, a, a', evs', _, _, _, _, _, h => by
    unfold fuseLogged at h
    cases h
  | ev :: evs, p :: ps, a, a', evs', inv, hs, hnd, hgrp, hΦ, h => by
    cases ev with
    | group s' ts =>
      unfold fuseLogged at h
      split at h
      · rename_i hcond
        obtain ⟨_, hmem⟩ := hcond
        split at h
        · cases h
        · rename_i a1 hf
          obtain ⟨st, hkeep⟩ :=
            fuseGroup_spec (σ := fun _ => true) inv hs (hgrp ts hmem) hf
          obtain ⟨c0, hc0⟩ := hgrp ts hmem
          have hΦ1 : Φ a1 := hstep inv hs hc0 hf hΦ
          have hnd' : ((p :: ps).erase ts).flatten.Nodup :=
            hnd.sublist (sublist_flatten' List.erase_sublist)
          have hgrp' : ∀ l ∈ (p :: ps).erase ts, GroupOK a1 s l := by
            intro l hl
            obtain ⟨c, hc⟩ := hgrp l (List.mem_of_mem_erase hl)
            refine ⟨c, fun t ht => ?_⟩
            obtain ⟨e, he, hsrc, hw⟩ := hc t ht
            exact ⟨e, hkeep t e he hsrc (disjoint_of_mem_erase' _ hnd hmem hl t ht), hsrc, hw⟩
          exact fuseLogged_induct Φ hstep evs _ st.inv st.live_s hnd' hgrp' hΦ1 h
      · cases h
    | topo _ => unfold fuseLogged at h; cases h
    | detAsk _ => unfold fuseLogged at h; cases h
    | detYes _ => unfold fuseLogged at h; cases h
    | merge _ _ => unfold fuseLogged at h; cases h
    | iterEnd _ => unfold fuseLogged at h; cases h

theorem makeConstraintsUnique_induct (Φ : Automaton K P → Prop) {s : Nat}
    (hstep : ∀ {a a' : Automaton K P} {ts : List Nat} {c0 : Option (Constraint K P)},
      Inv a → a.Live s → (∀ t ∈ ts, ∃ e, a.g.edge? t = some e ∧ e.src = s ∧ e.w = c0) →
      a.fuseGroup s ts = .ok a' → Φ a → Φ a')
    {a a' : Automaton K P} {evs evs' : List Ev} (inv : Inv a) (hs : a.Live s) (hΦ : Φ a)
    (h : a.makeConstraintsUnique s evs = .ok (a', evs')) : Φ a' := by
  unfold makeConstraintsUnique at h
  split at h
  · cases h
  · rename_i ts0 hts0
    split at h
    · cases h
    · rename_i groups hgr
      obtain ⟨w, hw, rfl⟩ := allTransitions_ok_iff.1 hts0
      have gi := groupTransitions_gi (s := s) _ [] groups (inv.ok.nodup s w hw)
        (fun t ht => inv.listed_live hw ht) ⟨by simp, by simp⟩ hgr
      have hfl : ((groups.map (·.2)).flatten).Nodup :=
        groups_flatten_nodup groups gi.1 fun g hg =>
          ⟨(gi.2 g hg).1, fun t ht => by
            obtain ⟨_, e, he, _, hw'⟩ := (gi.2 g hg).2 t ht
            exact ⟨e, he, hw'⟩⟩
      refine fuseLogged_induct Φ hstep evs _ inv hs ?_ ?_ hΦ h
      · exact hfl.sublist (sublist_flatten' (List.Sublist.map _ List.filter_sublist))
      · intro l hl
        obtain ⟨g, hg, rfl⟩ := List.mem_map.1 hl
        have hg' := (List.mem_filter.1 hg).1
        exact ⟨g.1, fun t ht => ((gi.2 g hg').2 t ht).2⟩

/-- `make_constraints_unique` preserves `SP` (together with `RootSrc`). -/
theorem sp_makeConstraintsUnique {E : Nat → Prop} {Q : Constraint K P → Prop}
    {a a' : Automaton K P} {s : Nat} {evs evs' : List Ev} (inv : Inv a) (hs : a.Live s)
    (rs : RootSrc a) (sp : SP E Q a) (h : a.makeConstraintsUnique s evs = .ok (a', evs')) :
    SP E Q a' := by
  have := makeConstraintsUnique_induct (fun b => RootSrc b ∧ SP E Q b) (s := s)
    (fun {a a' ts c0} inv hs hg hf hΦ => by
      obtain ⟨N, hne, f⟩ := fuseGroup_fused inv hs hg hf
      exact ⟨f.rootSrc hΦ.1, sp_fused f hne hΦ.1 hΦ.2⟩) inv hs ⟨rs, sp⟩ h
  exact this.2

end StrProg
end Pm
