/-
Proofs/C07XMain.lean — C07 (multiplicities), builder part: the main induction. Every automaton
returned by the STRICT disciplined build `buildTD` (Model/BuilderT.lean: guards c1T, c1C, c4T and
c1D — no child of an emitted state is deterministic) from patterns with pairwise different ids
satisfies the structural unambiguity invariant `XB` and records every id once per state
(`buildTD_xb`), for a tree decomposition that is flat (`FlatTreeHyp`) and faithful under the
all-true assignment. `buildTD_imp_buildT`: the strict build only adds a guard.

The loop invariant `GX` is T-BUILD's `Good` (for the all-true assignment, under which `AccND` is
`Below`) together with `XB` and `IdsNodup`; the iteration follows `iteration_keeps`
(Proofs/BuildMain.lean), with the per-step lemmas of Proofs/C07XFuse.lean, C07XTree.lean,
C07XDet.lean, C07XMerge.lean and C07Ids.lean.
Everything lives in `namespace Pm.C07`.
-/
import PmVerif.Proofs.C07XFuse
import PmVerif.Proofs.C07XTree
import PmVerif.Proofs.C07XDet
import PmVerif.Proofs.C07XMerge
import PmVerif.Proofs.C07XAdd
import PmVerif.Proofs.C07Ids
import PmVerif.Proofs.C08BuildT
import PmVerif.Props.TBuild
namespace Pm
namespace C07
open Automaton
variable {K P : Type} [DecidableEq K] [DecidableEq P]
set_option linter.unusedSectionVars false

/-! ### small bridges -/

/-- The guard c1D gives `NonDetChildren`. -/
theorem ndc_of_noDetChild {a : Automaton K P} {s : Nat} (inv : Inv a)
    (h : a.noDetChild s = true) : NonDetChildren a s := by
  intro t e he hsrc hdet
  obtain ⟨nd, hnd, hout⟩ := inv.wf.edge_src t e he
  rw [hsrc] at hnd
  have hmem : e.dst ∈ a.g.succs s := SGraph.mem_succs.2 ⟨nd, t, e, hnd, hout, he, rfl⟩
  unfold noDetChild at h
  have := List.all_eq_true.1 h e.dst hmem
  obtain ⟨w, hw, hd⟩ := hdet
  rw [hw] at this
  simp only [hd] at this
  cases this

section
variable {Mx : Constraint K P → Constraint K P → Prop}

/-- `make_constraints_unique(s)` does not change the set of constraints on the transitions of
`s`. -/
theorem mxEqAt_makeConstraintsUnique {a a' : Automaton K P} {s : Nat} {evs evs' : List Ev}
    (inv : Inv a) (hs : a.Live s) (hm : MxEqAt Mx a s)
    (h : a.makeConstraintsUnique s evs = .ok (a', evs')) : MxEqAt Mx a' s := by
  have := makeConstraintsUnique_induct2 (fun b => MxEqAt Mx b s) (s := s)
    (fun {a a' ts c0} inv hs hg _ hf hΦ => by
      obtain ⟨N, tN, fe⟩ := C08.fuseGroup_edges inv hs hg hf
      -- a constraint transition of `s` in `a'` carries a constraint of a transition of `s` in `a`
      have back : ∀ {d : Nat} {k : Constraint K P}, HasEdge a' s d (some k) →
          ∃ d0, HasEdge a s d0 (some k) := by
        rintro d k ⟨t, ht⟩
        rcases fe.all t _ ht with ⟨_, he⟩ | ⟨_, _, he⟩ | ⟨_, hsrc, _⟩
        · obtain ⟨u, hu⟩ := List.exists_mem_of_ne_nil ts fe.ne
          obtain ⟨eu, heu, hsu, hwu⟩ := hg u hu
          cases he
          refine ⟨eu.dst, u, ?_⟩
          rw [heu]; cases eu; simp only at hsu hwu; subst hsu hwu; rfl
        · exact ⟨d, t, he⟩
        · exact absurd hsrc.symm fe.nes
      intro d1 k1 d2 k2 h1 h2
      obtain ⟨e1, he1⟩ := back h1
      obtain ⟨e2, he2⟩ := back h2
      exact hΦ e1 k1 e2 k2 he1 he2) inv hs hm h
  exact this.1

/-- Pairwise equal-or-exclusive constraints that are pairwise different are exclusive. -/
theorem mxAt_of {a : Automaton K P} {s : Nat} (hm : MxEqAt Mx a s) (hu : C08.UniqueAt a s) :
    MxAt Mx a s := by
  intro t1 t2 e1 e2 k1 k2 h1 h2 hs1 hs2 hw1 hw2 hne
  have e1' : HasEdge a s e1.dst (some k1) := by
    refine ⟨t1, ?_⟩
    rw [h1]; cases e1; simp only at hs1 hw1; subst hs1 hw1; rfl
  have e2' : HasEdge a s e2.dst (some k2) := by
    refine ⟨t2, ?_⟩
    rw [h2]; cases e2; simp only at hs2 hw2; subst hs2 hw2; rfl
  rcases hm _ _ _ _ e1' e2' with heq | hmx
  · exact absurd (hu t1 t2 e1 e2 h1 h2 hs1 hs2 (by rw [hw1, hw2, heq])) hne
  · exact hmx

/-- `XB` only reads the edges, the ids and the flags. -/
theorem xb_of_view {a a' : Automaton K P}
    (he : ∀ t, a'.g.edge? t = a.g.edge? t)
    (hw : ∀ x, (a'.g.weight? x).map (fun w => (w.matches_, w.det, w.corder, w.eorder)) =
          (a.g.weight? x).map (fun w => (w.matches_, w.det, w.corder, w.eorder)))
    (X : XB Mx a) : XB Mx a' := by
  have hedge : ∀ {x d : Nat} {c : Option (Constraint K P)}, HasEdge a' x d c → HasEdge a x d c := by
    rintro x d c ⟨t, ht⟩
    exact ⟨t, (he t).symm.trans ht⟩
  have hbelow : ∀ {x i : Nat}, Below a' x i → Below a x i :=
    fun h => ((sem_congr he hw (fun _ => true)).1 _ _).1 h
  have hw' : ∀ x, (a.g.weight? x).map (fun w => (w.matches_, w.det, w.corder, w.eorder)) =
      (a'.g.weight? x).map (fun w => (w.matches_, w.det, w.corder, w.eorder)) :=
    fun x => (hw x).symm
  have hids : ∀ {x i : Nat}, a'.Ids x i → a.Ids x i := by
    rintro x i ⟨w', hw1, hp⟩
    obtain ⟨w, hw2, hm, _⟩ := weight_of_view hw' hw1
    exact ⟨w, hw2, hm ▸ hp⟩
  have hdet : ∀ x, IsDet a x → IsDet a' x := by
    rintro x ⟨w, hw1, hd⟩
    obtain ⟨w', hw2, _, hd', _⟩ := weight_of_view hw hw1
    exact ⟨w', hw2, hd'.trans hd⟩
  have hexcl : ∀ {x : Nat} {c1 c2 : Option (Constraint K P)}, ¬ Excl Mx a' x c1 c2 →
      ¬ Excl Mx a x c1 c2 := fun hex h => hex (h.mono (hdet _))
  exact ⟨fun x d1 d2 c1 c2 h1 h2 hd hex i hb1 hb2 =>
      X.sib x d1 d2 c1 c2 (hedge h1) (hedge h2) hd (hexcl hex) i (hbelow hb1) (hbelow hb2),
    fun x i d c hi hed hb => X.down x i d c (hids hi) (hedge hed) (hbelow hb),
    fun x d c1 c2 h1 h2 hc hex i hb =>
      X.par x d c1 c2 (hedge h1) (hedge h2) hc (hexcl hex) i (hbelow hb)⟩

/-! ### the loop invariant -/

/-- T-BUILD's invariant for the all-true assignment, `XB`, and `IdsNodup`. -/
structure GX (Mx : Constraint K P → Constraint K P → Prop) (a : Automaton K P) : Prop where
  good : Good (fun _ => true) a
  xb : XB Mx a
  ids : IdsNodup a

variable {toTree : List (Constraint K P) → Option (CTree (Constraint K P))}

/-- The determinisation step of an iteration. -/
theorem afterDet_gx (L : StepLemmas (fun _ => true) toTree)
    {a3 a4 : Automaton K P} {s : Nat} {treeDet : Bool} {evs3 evs4 : List Ev}
    (g3 : GX Mx a3) (hnd : NonDetChildren a3 s) (hmx : treeDet = true → MxAt Mx a3 s)
    (h : (if treeDet then
        match evs3 with
        | .detAsk s' :: .detYes s'' :: evs' =>
          if s' = s ∧ s'' = s then (a3.makeDet s).map (·, evs')
          else .error (.guard "c5: DetAsk/DetYes for another state")
        | .detAsk s' :: evs' =>
          if s' = s then .ok (a3, evs') else .error (.guard "c5: DetAsk for another state")
        | _ => .error (.guard "c5: missing DetAsk event")
      else .ok (a3, evs3) : R (Automaton K P × List Ev)) = .ok (a4, evs4)) : GX Mx a4 := by
  split at h
  · rename_i htd
    split at h
    · split at h
      · cases hm : a3.makeDet s with
        | error e => rw [hm] at h; cases h
        | ok a4' =>
          rw [hm] at h
          cases h
          exact ⟨(L.det g3.good hm).1,
            xb_makeDet g3.good.inv g3.good.rs g3.good.det g3.xb hnd (hmx htd) hm,
            idsNodup_makeDet g3.good.inv g3.ids hm⟩
      · cases h
    · split at h
      · cases h; exact g3
      · cases h
    · cases h
  · cases h; exact g3

/-- The merges and the `IterEnd` event of an iteration. -/
theorem tail_gx (L : StepLemmas (fun _ => true) toTree)
    {a' : Automaton K P} {s : Nat} {evs' : List Ev} (r : R (Automaton K P × List Ev))
    (hr : ∀ a4 evs4, r = .ok (a4, evs4) → GX Mx a4)
    (h : (match r with
      | .error e => .error e
      | .ok (a, evs) =>
        match a.mergesLoggedT evs with
        | .error e => .error e
        | .ok (a, .iterEnd s' :: evs) =>
          if s' = s then .ok (a, evs) else .error (.guard "IterEnd for another state")
        | .ok _ => .error (.guard "missing IterEnd event")) = Except.ok (a', evs')) :
    GX Mx a' := by
  split at h
  · cases h
  · rename_i a4 evs4
    have g4 := hr a4 evs4 rfl
    split at h
    · cases h
    · rename_i a5 s' evs5 h5
      split at h
      · cases h
        have h5' := C08.mergesLogged_of_T _ h5
        exact ⟨(L.merge _ g4.good h5').1, xb_mergesLogged _ g4.good.inv g4.xb h5',
          idsNodup_mergesLogged _ g4.good.inv g4.ids h5'⟩
      · cases h
    · cases h

/-- One iteration of the strict main loop preserves `GX`. -/
theorem iterationWith_gx (hirr : ∀ k, ¬ Mx k k) (hT : FlatTreeHyp Mx toTree)
    (hTok : TreeOK toTree (fun _ => true)) {fuel : Nat} {a a' : Automaton K P} {s : Nat}
    {evs evs' : List Ev} (g : GX Mx a) (hnd : NonDetChildren a s)
    (h : iterationWith makeDet toTree fuel a s evs = .ok (a', evs')) : GX Mx a' := by
  have L : StepLemmas (fun _ => true) toTree := Automaton.stepLemmas hTok
  unfold iterationWith at h
  split at h
  · cases h
  · rename_i hlive
    have hs : a.Live s := by
      unfold Live; cases hx : a.g.containsNode s <;> simp_all
    split at h
    · cases h
    · rename_i a1 evs1 h1
      have p1 := L.fuse g.good.inv hs h1
      have k1 := Keeps.of_pres g.good p1
      obtain ⟨x1, ndc1, u1⟩ := xb_makeConstraintsUnique hirr g.good.inv hs hnd g.xb h1
      have i1 := idsNodup_makeConstraintsUnique g.good.inv hs g.ids h1
      split at h
      · cases h
      · rename_i a2 treeDet h2
        have st2 := L.tree p1.inv p1.live_s h2
        have p2 := st2.pres
        have k2 := k1.trans (Keeps.of_pres k1.1 p2)
        obtain ⟨x2, mx2⟩ := xb_insertConstraintTree hT hTok p1.inv p1.live_s u1 x1 h2
        have ndc2 := st2.nonDetChildren ndc1
        have i2 := idsNodup_insertConstraintTree p1.inv i1 h2
        split at h
        · cases h
        · rename_i a3 evs3 h3
          have p3 := L.fuse p2.inv p2.live_s h3
          have k3 := k2.trans (Keeps.of_pres k2.1 p3)
          obtain ⟨x3, ndc3, u3⟩ := xb_makeConstraintsUnique hirr p2.inv p2.live_s ndc2 x2 h3
          have i3 := idsNodup_makeConstraintsUnique p2.inv p2.live_s i2 h3
          have g3 : GX Mx a3 := ⟨k3.1, x3, i3⟩
          have hmx : treeDet = true → MxAt Mx a3 s := fun htd =>
            mxAt_of (mxEqAt_makeConstraintsUnique p2.inv p2.live_s (mx2 htd) h3) u3
          exact tail_gx L _ (fun a4 evs4 h4 => afterDet_gx L g3 ndc3 hmx h4) h

/-- The strict main loop preserves `GX`. -/
theorem mainLoopD_gx (hirr : ∀ k, ¬ Mx k k) (hT : FlatTreeHyp Mx toTree)
    (hTok : TreeOK toTree (fun _ => true)) {fuel : Nat} :
    ∀ (n : Nat) {a a' : Automaton K P} (emitted : List Nat) (evs : List Ev), GX Mx a →
    mainLoopD makeDet toTree fuel n a emitted evs = .ok a' → GX Mx a' := by
  intro n
  induction n with
  | zero =>
    intro a a' emitted evs g h
    cases evs with
    | nil =>
      unfold mainLoopD at h
      split at h
      · cases h; exact g
      · cases h
    | cons e es => unfold mainLoopD at h; cases h
  | succ n ih =>
    intro a a' emitted evs g h
    cases evs with
    | nil =>
      unfold mainLoopD at h
      split at h
      · cases h; exact g
      · cases h
    | cons e es =>
      cases e with
      | topo s =>
        unfold mainLoopD at h
        split at h
        · cases h
        · split at h
          · cases h
          · rename_i hnd
            have hnd' : a.noDetChild s = true := by
              cases hx : a.noDetChild s
              · rw [hx] at hnd; exact absurd rfl hnd
              · rfl
            split at h
            · cases h
            · rename_i a1 evs1 h1
              exact ih _ evs1
                (iterationWith_gx hirr hT hTok g (ndc_of_noDetChild g.good.inv hnd') h1) h
      | _ => unfold mainLoopD at h; cases h

/-- **Every strictly disciplined build is structurally unambiguous.** -/
theorem buildTD_xb (hirr : ∀ k, ¬ Mx k k) (hT : FlatTreeHyp Mx toTree)
    (hTok : TreeOK toTree (fun _ => true)) {req : K → List K} {fuel : Nat}
    {patterns : List (Nat × List (Constraint K P) × List K)} {evs : List Ev} {A : Automaton K P}
    (hnd : (patterns.map (·.1)).Nodup)
    (h : buildTD toTree req fuel patterns evs = .ok A) : XB Mx A ∧ IdsNodup A := by
  unfold buildTD at h
  split at h
  · cases h
  · rename_i a1 h1
    obtain ⟨inv1, _, rs1, nd1, _⟩ := addPatterns_spec (σ := fun _ => true) h1
    have g1 : GX Mx a1 := ⟨⟨inv1, rs1, detOKE_of_noDet nd1⟩, xb_addPatterns hnd h1,
      idsNodup_addPatterns_new h1⟩
    unfold finishD at h
    split at h
    · cases h
    · rename_i a2 h2
      have g2 := mainLoopD_gx hirr hT hTok _ _ _ g1 h2
      obtain ⟨_, _, he3, hw3⟩ := populateScopes_frame g2.good.inv h
      exact ⟨xb_of_view he3 hw3 g2.xb, idsNodup_populateScopes g2.good.inv g2.ids h⟩

end

/-! ### the strict build only adds a guard -/

theorem mainLoopD_imp_mainLoopWith {det : Automaton K P → Nat → R (Automaton K P)}
    {toTree : List (Constraint K P) → Option (CTree (Constraint K P))} {fuel : Nat} :
    ∀ (n : Nat) {a a' : Automaton K P} (emitted : List Nat) (evs : List Ev),
    mainLoopD det toTree fuel n a emitted evs = .ok a' →
    mainLoopWith det toTree fuel n a emitted evs = .ok a' := by
  intro n
  induction n with
  | zero =>
    intro a a' emitted evs h
    cases evs with
    | nil => unfold mainLoopD at h; unfold mainLoopWith; exact h
    | cons e es => unfold mainLoopD at h; cases h
  | succ n ih =>
    intro a a' emitted evs h
    cases evs with
    | nil => unfold mainLoopD at h; unfold mainLoopWith; exact h
    | cons e es =>
      cases e with
      | topo s =>
        unfold mainLoopD at h
        unfold mainLoopWith
        split at h
        · cases h
        · rename_i hadm
          rw [if_neg hadm]
          split at h
          · cases h
          · split at h
            · cases h
            · rename_i a1 evs1 h1
              exact ih _ _ h
      | _ => unfold mainLoopD at h; cases h

/-- **Whenever the strict build succeeds, the disciplined build returns the same automaton.** -/
theorem buildTD_imp_buildT
    {toTree : List (Constraint K P) → Option (CTree (Constraint K P))} {req : K → List K}
    {fuel : Nat} {patterns : List (Nat × List (Constraint K P) × List K)} {evs : List Ev}
    {A : Automaton K P} (h : buildTD toTree req fuel patterns evs = .ok A) :
    buildT toTree req fuel patterns evs = .ok A := by
  unfold buildTD at h
  unfold buildT
  cases h1 : addPatterns req fuel (new : Automaton K P) patterns with
  | error e => rw [h1] at h; cases h
  | ok a1 =>
    rw [h1] at h
    simp only at h ⊢
    unfold finishD at h
    unfold finishWith
    cases h2 : mainLoopD makeDet toTree fuel evs.length a1 [] evs with
    | error e => rw [h2] at h; cases h
    | ok a2 =>
      rw [h2] at h
      rw [mainLoopD_imp_mainLoopWith _ _ _ h2]
      exact h

end C07
end Pm
