/-
Proofs/C01GenPGEmb.lean — soundness half of T-DOM-PG for an ARBITRARY valuation of the keys
(`Proofs/PGDomSound.lean` proves it for the anchored valuation `pgVal h r` of single-root
patterns): if a valuation `val : PGKey → Option Nat` satisfies every constraint of
`pgConstraints p root` — any number of roots — then the node map `n ↦ val (key n)` is defined on
every keyed node, injective, preserves every link lying on a line, and maps every keyed node other
than the root to a live host node. With coverage (connected patterns) and a live image of the
root it is an embedding.

Also: `reach_good`, a generic run invariant ("every bound value was offered by the host"), used
for the image of the root.
-/
import PmVerif.Proofs.C01GenPG
import PmVerif.Props.TDomPG
namespace Pm.C01G

/-! ### valuations -/

section Val
variable (h : PortGraph) (val : PGKey → Option Nat)

/-- `c` holds under the valuation `val`: all keys are defined and the predicate holds. -/
def SatV (c : PGCons) : Prop :=
  ∃ vs, c.args.map val = vs.map some ∧ pgCheck c.pred h vs = some true

theorem satV_conn (lo ro : POff) (kl kr : PGKey) :
    SatV h val ⟨.isConnected lo ro, [kl, kr]⟩ ↔
      ∃ a b, val kl = some a ∧ val kr = some b ∧
        h.portExists (a, lo) = true ∧ h.portLink (a, lo) = some (b, ro) := by
  constructor
  · rintro ⟨vs, hb, hc⟩
    match vs, hb with
    | [a, b], hb =>
      simp only [List.map_cons, List.map_nil, List.cons.injEq, and_true] at hb
      exact ⟨a, b, hb.1, hb.2, (pgCheck_connected lo ro h a b).1 hc⟩
  · rintro ⟨a, b, ha, hb, hc⟩
    exact ⟨[a, b], by simp [ha, hb], (pgCheck_connected lo ro h a b).2 hc⟩

theorem satV_ne (n : Nat) (k : PGKey) (ks : List PGKey) :
    SatV h val ⟨.isNotEqual n, k :: ks⟩ ↔
      ∃ (v : Nat) (vs : List Nat), val k = some v ∧ ks.map val = vs.map some ∧ v ∉ vs := by
  constructor
  · rintro ⟨vs, hb, hc⟩
    match vs, hb with
    | v :: vs, hb =>
      simp only [List.map_cons, List.cons.injEq] at hb
      exact ⟨v, vs, hb.1, hb.2, (pgCheck_notEqual n h v vs).1 hc⟩
  · rintro ⟨v, vs, hv, hvs, hne⟩
    exact ⟨v :: vs, by simp [hv, hvs], (pgCheck_notEqual n h v vs).2 hne⟩

/-- The node map induced by a valuation: pattern node ↦ value of its key. -/
def phiV (p : PortGraph) (root : Nat) : List (Nat × Nat) :=
  (pgNodeKeys p root).filterMap fun x => (val x.2).map fun v => (x.1, v)

theorem phiV_map_snd (p : PortGraph) (root : Nat) :
    (phiV val p root).map (·.2) = (pgNodeKeys p root).filterMap fun x => val x.2 := by
  unfold phiV
  rw [List.map_filterMap]
  congr 1
  funext x
  cases val x.2 <;> rfl

/-- What satisfaction of the constraints emitted so far says about the keys assigned so far and
the links processed so far (`PGDom.SoundInv` for an arbitrary valuation), plus: every keyed node
other than the root is the right-hand end of a link of some line. -/
structure SoundInvV (root : Nat) (full : List (List PLink)) (done : List PLink)
    (n2k : List (Nat × PGKey)) : Prop where
  defined : ∀ x ∈ n2k, (val x.2).isSome = true
  inj : (n2k.map fun x => val x.2).Nodup
  links : ∀ l ∈ done, ∃ kl kr a b, alGet n2k l.1.1 = some kl ∧ alGet n2k l.2.1 = some kr ∧
    val kl = some a ∧ val kr = some b ∧
    h.portExists (a, l.1.2) = true ∧ h.portLink (a, l.1.2) = some (b, l.2.2)
  ends : ∀ x ∈ n2k, x.1 = root ∨ ∃ line ∈ full, ∃ l ∈ line, l.2.1 = x.1

theorem consLines_soundV (p : PortGraph) (root : Nat) (cs : List PGCons)
    (hroot0 : (val (.root 0)).isSome = true)
    (hc : consLines (linePartition p root) [(root, .root 0)] [(root, 0)] [] = some cs)
    (hsat : ∀ c ∈ cs, SatV h val c) :
    SoundInvV h val root (linePartition p root) (linePartition p root).flatten
      (pgNodeKeys p root) := by
  rw [PGDom.pgNodeKeys_eq]
  have key := PGDom.consLines_induct root (linePartition p root)
    (fun done n2k cs => (∀ c ∈ cs, SatV h val c) →
      SoundInvV h val root (linePartition p root) done n2k)
    ?_ ?_ _ _ _ [] [] cs (fun _ h => h) (PGDom.RootsOK.init root) hc ?_
  · simpa using key hsat
  · intro line hline first ri _ _ done n2k cs j l lk hj hP hnone _ hsat'
    have inv := hP (fun c hc => hsat' c (List.mem_append_left _ hc))
    have hne := hsat' _ (List.mem_append_right _ (List.mem_singleton.2 rfl))
    obtain ⟨v, vs, hv, hvs, hnot⟩ := (satV_ne h val _ _ _).1 hne
    refine ⟨?_, ?_, ?_, ?_⟩
    · intro x hx
      rcases List.mem_append.1 hx with hx | hx
      · exact inv.defined x hx
      · rw [List.mem_singleton] at hx; subst hx
        simp [hv]
    · rw [List.map_append, List.nodup_append]
      refine ⟨inv.inj, by simp, ?_⟩
      intro a ha b hb e
      simp only [List.map_cons, List.map_nil, List.mem_singleton] at hb
      subst hb; subst e
      rw [hv] at ha
      have : some v ∈ (n2k.map (·.2)).map val := by
        rw [List.map_map]; exact ha
      rw [hvs] at this
      obtain ⟨w, hw, hwv⟩ := List.mem_map.1 this
      cases hwv
      exact hnot hw
    · intro l' hl'
      obtain ⟨kl, kr, a, b, h1, h2, h3⟩ := inv.links l' hl'
      exact ⟨kl, kr, a, b, PGDom.alGet_append_of_some h1 _, PGDom.alGet_append_of_some h2 _, h3⟩
    · intro x hx
      rcases List.mem_append.1 hx with hx | hx
      · exact inv.ends x hx
      · rw [List.mem_singleton] at hx; subst hx
        exact .inr ⟨line, hline, l, List.mem_of_getElem? hj, rfl⟩
  · intro line _ done n2k cs j l kl kr _ hP hkl hkr hsat'
    have inv := hP (fun c hc => hsat' c (List.mem_append_left _ hc))
    have hcn := hsat' _ (List.mem_append_right _ (List.mem_singleton.2 rfl))
    obtain ⟨a, b, ha, hb, hex, hlk⟩ := (satV_conn h val _ _ _ _).1 hcn
    refine ⟨inv.defined, inv.inj, ?_, inv.ends⟩
    intro l' hl'
    rcases List.mem_append.1 hl' with hl' | hl'
    · exact inv.links l' hl'
    · rw [List.mem_singleton] at hl'; subst hl'
      exact ⟨kl, kr, a, b, hkl, hkr, ha, hb, hex, hlk⟩
  · intro _
    refine ⟨?_, by simp, by simp, ?_⟩
    · intro x hx
      rw [List.mem_singleton] at hx; subst hx
      exact hroot0
    · intro x hx
      rw [List.mem_singleton] at hx; subst hx
      exact .inl rfl

/-- **Soundness for an arbitrary valuation, core form.** -/
theorem sound_coreV (p : PortGraph) (root : Nat) (cs : List PGCons) (hh : h.LinksOK)
    (hroot0 : (val (.root 0)).isSome = true) (hcs : pgConstraints p root = some cs)
    (hsat : ∀ c ∈ cs, SatV h val c) :
    (∀ nk ∈ pgNodeKeys p root, ∃ v, val nk.2 = some v ∧ alGet (phiV val p root) nk.1 = some v) ∧
    ((phiV val p root).map (·.2)).Nodup ∧
    (∀ x ∈ phiV val p root, x.1 = root ∨ (h.node? x.2).isSome = true) ∧
    (∀ l ∈ p.links, PGDom.onLines p root l = true → ∀ a b,
      alGet (phiV val p root) l.1.1 = some a → alGet (phiV val p root) l.2.1 = some b →
      h.portExists (a, l.1.2) = true ∧ h.portLink (a, l.1.2) = some (b, l.2.2)) ∧
    alGet (phiV val p root) root = val (.root 0) := by
  obtain ⟨cs0, h0, hcase⟩ := PGDom.pgConstraints_cases hcs
  have hsat0 : ∀ c ∈ cs0, SatV h val c := by
    rcases hcase with rfl | ⟨rfl, -⟩
    · exact hsat
    · intro c hc; cases hc
  have inv := consLines_soundV h val p root cs0 hroot0 h0 hsat0
  obtain ⟨kroot, knd, -, -⟩ := PGDom.consLines_keys p root cs0 h0
  have hget : ∀ n, alGet (phiV val p root) n = (alGet (pgNodeKeys p root) n).bind val :=
    fun n => PGDom.alGet_filterMap_val _ _ inv.defined n
  refine ⟨?_, ?_, ?_, ?_, ?_⟩
  · intro nk hnk
    obtain ⟨v, hv⟩ := Option.isSome_iff_exists.1 (inv.defined nk hnk)
    refine ⟨v, hv, ?_⟩
    rw [hget, PGDom.alGet_of_mem_nodup knd (show (nk.1, nk.2) ∈ _ from hnk)]
    exact hv
  · rw [phiV_map_snd]
    exact PGDom.nodup_filterMap_of_map _ _ inv.inj
  · intro x hx
    unfold phiV at hx
    obtain ⟨y, hy, hyx⟩ := List.mem_filterMap.1 hx
    cases hv : val y.2 with
    | none => rw [hv] at hyx; cases hyx
    | some v =>
      rw [hv] at hyx
      cases hyx
      rcases inv.ends y hy with hr | ⟨line, hline, l, hl, hl2⟩
      · exact .inl hr
      · right
        obtain ⟨kl, kr, a, b, _, h2, _, h4, _, h6⟩ :=
          inv.links l (List.mem_flatten.2 ⟨line, hline, hl⟩)
        have hk : alGet (pgNodeKeys p root) y.1 = some y.2 :=
          PGDom.alGet_of_mem_nodup knd (show (y.1, y.2) ∈ _ from hy)
        rw [hl2, hk] at h2
        cases h2
        rw [hv] at h4
        cases h4
        exact PortGraph.node_of_portExists (hh.portLink_exists h6).2
  · intro l _ hon a b ha hb
    unfold PGDom.onLines at hon
    obtain ⟨line, hline, hvis⟩ := List.any_eq_true.1 hon
    unfold linkVisited at hvis
    obtain ⟨x, hx, hsame⟩ := List.any_eq_true.1 hvis
    obtain ⟨kl, kr, a', b', h1, h2, h3, h4, h5, h6⟩ :=
      inv.links x (List.mem_flatten.2 ⟨line, hline, hx⟩)
    have hxa : alGet (phiV val p root) x.1.1 = some a' := by rw [hget, h1]; exact h3
    have hxb : alGet (phiV val p root) x.2.1 = some b' := by rw [hget, h2]; exact h4
    unfold sameLink at hsame
    simp only [Bool.decide_or, Bool.decide_and, Bool.or_eq_true, Bool.and_eq_true,
      decide_eq_true_eq] at hsame
    rcases hsame with ⟨e1, e2⟩ | ⟨e1, e2⟩
    · rw [e1] at ha ⊢; rw [e2] at hb ⊢
      rw [hxa] at ha; rw [hxb] at hb
      cases ha; cases hb
      exact ⟨h5, h6⟩
    · rw [e1] at ha ⊢; rw [e2] at hb ⊢
      rw [hxb] at ha; rw [hxa] at hb
      cases ha; cases hb
      exact ⟨(hh.portLink_exists h6).2, hh.portLink_symm h6⟩
  · rw [hget, kroot]; rfl

/-- **Soundness under coverage, arbitrary valuation**: with the root sent to a live host node the
induced map is an embedding of the whole pattern. -/
theorem sound_connectedV (p : PortGraph) (root : Nat) (cs : List PGCons) (hh : h.LinksOK)
    (r : Nat) (hroot0 : val (.root 0) = some r) (hr : (h.node? r).isSome = true)
    (hcs : pgConstraints p root = some cs) (hcov : PGDom.LinesCover p root)
    (hsat : ∀ c ∈ cs, SatV h val c) :
    embedsPG p h (phiV val p root) = true ∧ alGet (phiV val p root) root = some r := by
  obtain ⟨h1, h2, h3, h4, h5⟩ :=
    sound_coreV h val p root cs hh (by rw [hroot0]; rfl) hcs hsat
  refine ⟨?_, by rw [h5, hroot0]⟩
  rw [embedsPG_iff]
  refine ⟨?_, h2, ?_, ?_⟩
  · intro n hn
    obtain ⟨k, hk⟩ := Option.isSome_iff_exists.1 (hcov.2 n hn)
    obtain ⟨v, -, hv⟩ := h1 (n, k) (PGDom.alGet_mem hk)
    rw [hv]; rfl
  · intro x hx
    rcases h3 x hx with hx1 | hx1
    · -- the image of the root
      obtain ⟨k, hk⟩ : ∃ k, alGet (pgNodeKeys p root) x.1 = some k := by
        unfold phiV at hx
        obtain ⟨y, hy, hyx⟩ := List.mem_filterMap.1 hx
        cases hv : val y.2 with
        | none => rw [hv] at hyx; cases hyx
        | some v =>
          rw [hv] at hyx
          cases hyx
          obtain ⟨cs0, h0, -⟩ := PGDom.pgConstraints_cases hcs
          obtain ⟨-, knd, -, -⟩ := PGDom.consLines_keys p root cs0 h0
          exact ⟨y.2, PGDom.alGet_of_mem_nodup knd (show (y.1, y.2) ∈ _ from hy)⟩
      obtain ⟨v, _, hv⟩ := h1 (x.1, k) (PGDom.alGet_mem hk)
      -- `x.2` is the value `phiV` gives to `x.1 = root`
      have hx2 : alGet (phiV val p root) x.1 = some x.2 := by
        obtain ⟨cs0, h0, -⟩ := PGDom.pgConstraints_cases hcs
        obtain ⟨-, knd, -, -⟩ := PGDom.consLines_keys p root cs0 h0
        have hsub : ((phiV val p root).map (·.1)).Nodup := by
          unfold phiV
          refine List.Nodup.sublist ?_ knd
          have : ∀ l : List (Nat × PGKey),
              ((l.filterMap fun x => (val x.2).map fun v => (x.1, v)).map (·.1)).Sublist
                (l.map (·.1)) := by
            intro l
            induction l with
            | nil => exact List.Sublist.slnil
            | cons y ys ih =>
              rw [List.filterMap_cons]
              cases hvy : val y.2 with
              | none => simp only [Option.map_none, List.map_cons]; exact ih.cons _
              | some v => simp only [Option.map_some, List.map_cons]; exact ih.cons_cons _
          exact this _
        exact PGDom.alGet_of_mem_nodup hsub (show (x.1, x.2) ∈ _ from hx)
      rw [hx1, h5, hroot0] at hx2
      cases hx2
      exact hr
    · exact hx1
  · rw [linksPreserved_iff]
    intro l hl a b ha hb
    exact h4 l hl (hcov.1 l hl) a b ha hb

end Val

/-! ### the key `root 0` occurs in every constraint vector -/

theorem root0_in_constraints {g : PortGraph} {root : Nat} {cs : List PGCons}
    (hcs : pgConstraints g root = some cs) : ∃ c ∈ cs, PGKey.root 0 ∈ c.args := by
  obtain ⟨cs0, h0, hcase⟩ := PGDom.pgConstraints_cases hcs
  have key := PGDom.consLines_induct root (linePartition g root)
    (fun _ n2k cs => (root, PGKey.root 0) ∈ n2k ∧ (cs = [] → n2k = [(root, .root 0)]) ∧
      (cs ≠ [] → ∃ c ∈ cs, PGKey.root 0 ∈ c.args))
    ?_ ?_ _ _ _ [] [] cs0 (fun _ h => h) (PGDom.RootsOK.init root) h0 ?_
  · rcases hcase with rfl | ⟨rfl, rfl | rfl⟩
    · have hne : cs ≠ [] := by
        intro e
        subst e
        unfold pgConstraints at hcs
        split at hcs
        · cases hcs
        · rw [h0] at hcs
          simp at hcs
      exact key.2.2 hne
    · exact ⟨_, List.mem_cons_self, List.mem_cons_self⟩
    · exact ⟨_, List.mem_cons_self, List.mem_cons_self⟩
  · intro line _ first ri _ _ done n2k cs j l lk _ hP _ _
    refine ⟨List.mem_append_left _ hP.1, fun e => ?_, fun _ => ?_⟩
    · exact absurd e (by simp)
    · refine ⟨_, List.mem_append_right _ List.mem_cons_self, List.mem_cons_of_mem _ ?_⟩
      exact List.mem_map.2 ⟨_, hP.1, rfl⟩
  · intro line _ done n2k cs j l kl kr _ hP hkl _
    refine ⟨hP.1, fun e => ?_, fun _ => ?_⟩
    · exact absurd e (by simp)
    · by_cases hcs' : cs = []
      · refine ⟨_, List.mem_append_right _ List.mem_cons_self, ?_⟩
        have hn := hP.2.1 hcs'
        rw [hn, PGDom.alGet_cons] at hkl
        split at hkl
        · cases hkl; exact List.mem_cons_self
        · cases hkl
      · obtain ⟨c, hc, hk⟩ := hP.2.2 hcs'
        exact ⟨c, List.mem_append_left _ hc, hk⟩
  · exact ⟨List.mem_cons_self, fun _ => rfl, fun h => absurd rfl h⟩

/-! ### a generic run invariant: bound values were offered by the host -/

section Good
variable {K V P H M : Type} [DecidableEq K] [DecidableEq V] [DecidableEq P]
variable {D : Domain K V P H M} {h : H} {A : Automaton K P}

/-- Further map laws: `empty` binds nothing, a successful `bind` adds at most the pair bound, and
`retain_keys` adds nothing. -/
structure MapOnly (D : Domain K V P H M) : Prop where
  empty_none : ∀ k, D.map.get D.map.empty k = none
  bind_only : ∀ m k v m', D.map.bind m k v = .ok m' → ∀ k' v', D.map.get m' k' = some v' →
    D.map.get m k' = some v' ∨ (k' = k ∧ v' = v)
  retain_only : ∀ m ks m', D.map.retain m ks = some m' → ∀ k v, D.map.get m' k = some v →
    D.map.get m k = some v

omit [DecidableEq K] [DecidableEq V] [DecidableEq P] in
theorem ext_good (O : MapOnly D) (Good : K → V → Prop)
    (hopts : ∀ m k v, D.map.get m k = none → v ∈ D.opts h k m → Good k v) {inc : Bool}
    {m r : M} {ks : List K} (e : Ext D.map D.opts h inc m ks r)
    (hm : ∀ k v, D.map.get m k = some v → Good k v) : ∀ k v, D.map.get r k = some v → Good k v := by
  induction e with
  | nil => exact hm
  | skip _ _ ih => exact ih hm
  | none_ _ _ _ _ ih => exact ih hm
  | @bind m0 k0 ks0 r0 v0 m1 hu hv hb _ ih =>
    refine ih fun k v hg => ?_
    rcases O.bind_only _ _ _ _ hb k v hg with h1 | ⟨rfl, rfl⟩
    · exact hm k v h1
    · refine hopts m0 k v ?_ hv
      cases hg0 : D.map.get m0 k with
      | none => rfl
      | some x => rw [hg0] at hu; cases hu

omit [DecidableEq K] [DecidableEq V] [DecidableEq P] in
theorem bindAll_good (O : MapOnly D) (Good : K → V → Prop)
    (hopts : ∀ m k v, D.map.get m k = none → v ∈ D.opts h k m → Good k v) {inc : Bool}
    {m r : M} {ks : List K} (hr : r ∈ bindAll D.map D.opts h m ks inc)
    (hm : ∀ k v, D.map.get m k = some v → Good k v) : ∀ k v, D.map.get r k = some v → Good k v :=
  ext_good O Good hopts ((c13_exact D.map D.opts h inc ks m r).mp hr) hm

omit [DecidableEq K] [DecidableEq V] [DecidableEq P] in
/-- Every value bound in a reachable configuration was offered by the host for its key. -/
theorem reach_good (O : MapOnly D) (Good : K → V → Prop)
    (hopts : ∀ m k v, D.map.get m k = none → v ∈ D.opts h k m → Good k v) {s : Nat} {m : M}
    (hr : Reach D A h s m) : ∀ k v, D.map.get m k = some v → Good k v := by
  have step : ∀ {w : AState K} {m m' : M} {cands : List M},
      (∀ k v, D.map.get m k = some v → Good k v) → stepCands D h w m = .ok cands → m' ∈ cands →
      ∀ k v, D.map.get m' k = some v → Good k v := by
    intro w m m' cands hm hc hm' k v hg
    unfold stepCands at hc
    obtain ⟨m₁, hm₁, hret⟩ := (mem_retainAll hc m').mp hm'
    exact bindAll_good O Good hopts hm₁ hm k v (O.retain_only _ _ _ hret k v hg)
  induction hr with
  | root => intro k v hg; rw [O.empty_none] at hg; cases hg
  | con _ _ hc hm' _ _ _ _ ih => exact step ih hc hm'
  | eps _ _ hc hm' _ _ _ ih => exact step ih hc hm'

omit [DecidableEq P] in
/-- … and so was every value of a reported binding. -/
theorem run_good (O : MapOnly D) (Good : K → V → Prop)
    (hopts : ∀ m k v, D.map.get m k = none → v ∈ D.opts h k m → Good k v)
    {fuel : Nat} {ms : List (Match M)} {seen : List (Nat × List (Option V))}
    (hr : run D A h fuel = .ok (ms, seen)) {i : Nat} {mm : M} (hm : (i, mm) ∈ ms) :
    ∀ k v, D.map.get mm k = some v → Good k v := by
  obtain ⟨s, m, w, keys, hreach, _, _, m₁, hm₁, hret⟩ := trun_sound hr i mm hm
  intro k v hg
  exact bindAll_good O Good hopts hm₁ (reach_good O Good hopts hreach) k v
    (O.retain_only _ _ _ hret k v hg)

end Good

/-- The association-list map adds nothing but what is bound. -/
theorem assoc_mapOnly {K V P H : Type} [DecidableEq K] [DecidableEq V]
    (D : Domain K V P H (List (K × V))) (hmap : D.map = assocMap) : MapOnly D := by
  refine ⟨?_, ?_, ?_⟩
  · intro k; rw [hmap]; rfl
  · intro m k v m' hb k' v' hg
    rw [hmap] at hb hg ⊢
    by_cases hk : k' = k
    · subst hk
      have := c14_generic_get_after_bind m m' k' v hb
      change alGet m' k' = some v' at hg
      rw [this] at hg
      cases hg
      exact .inr ⟨rfl, rfl⟩
    · left
      change alGet m' k' = some v' at hg
      rw [c14_generic_other_unchanged m m' k k' v hb hk] at hg
      exact hg
  · intro m ks m' hr k v hg
    rw [hmap] at hr hg ⊢
    have : m' = alRetain m ks := (Option.some.inj hr).symm
    subst this
    change alGet (alRetain m ks) k = some v at hg
    rw [c14_generic_retain] at hg
    split at hg
    · exact hg
    · cases hg

/-- Port graphs: the value of `root 0` in a reported binding is a live host node. -/
theorem pg_root0_live {A : Automaton PGKey PGPred} {h : PortGraph} {fuel : Nat}
    {ms : List (Match PGMap)} {seen : List (Nat × List (Option Nat))}
    (hr : run pgDomain A h fuel = .ok (ms, seen)) {i : Nat} {mm : PGMap} (hm : (i, mm) ∈ ms)
    {r : Nat} (hg : alGet mm (.root 0) = some r) : (h.node? r).isSome = true := by
  have := run_good (assoc_mapOnly pgDomain rfl)
    (fun k v => k = PGKey.root 0 → v ∈ h.nodesIter) ?_ hr hm (.root 0) r hg rfl
  · exact (PortGraph.mem_nodesIter h r).1 this
  · intro m k v hnone hv hk
    subst hk
    have hopt : pgDomain.opts h (.root 0) m = h.nodesIter := by
      show pgOpts h (.root 0) m = _
      unfold pgOpts pgOptsP
      have : alGet m (PGKey.root 0) = none := hnone
      rw [this]
      rfl
    rw [hopt] at hv
    exact hv

end Pm.C01G
