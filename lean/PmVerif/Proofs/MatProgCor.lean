/-
Proofs/MatProgCor.lean — corollaries of the anchored traversal theorem for matrices from the
hypothesis `AllOK` (every live state satisfies `AnchM.StateOK`): built automata witness their
recorded keys (`keysWitnessed_of_allOK`), the proof of `c01_c02_matrix_checked`
(Props/TRunMat.lean) with `matProgramOK` replaced by `AllOK` (`c01_c02_of_allOK`), and the
comparison with the baseline matcher (`mem_naive_matrix`, from C05).
Everything lives in `namespace Pm.MatProg`.
-/
import PmVerif.Proofs.MatProgRun
import PmVerif.Proofs.AnchMKeys
import PmVerif.Props.C05
namespace Pm
namespace MatProg
open Automaton AnchM

section Built
variable {ps : List MatPattern} {evs : List Ev} {fuel : Nat} {M : Many MKey CharPred}

/-- The key list recorded for pattern `i` anywhere along an acceptance derivation. -/
theorem recorded_keys (hok : AllOK M.automaton ps) {σ : MatCons → Bool}
    {s i : Nat} {ks : List MKey} (hacc : AccDetK σ M.automaton s i ks) :
    ∃ s' w', M.automaton.g.weight? s' = some w' ∧ (i, ks) ∈ w'.matches_ ∧
      (s' = M.automaton.root ∨ ks ≠ []) ∧ ∃ p, ps[i]? = some p ∧ ks = matPatternKeys p := by
  obtain ⟨s', w', hw', hmem⟩ := Anch.accDetK_recorded hacc
  obtain ⟨_, hroot, _, hp⟩ := (hok _ _ hw').matches_ i ks hmem
  exact ⟨s', w', hw', hmem, hroot, hp⟩

/-- Built automata all of whose states are OK witness their recorded keys, on every host. -/
theorem keysWitnessed_of_allOK
    (hb : manyBuild (fun p => some (matConstraints p)) (fun _ => ([] : List MKey))
      (charTree mkeyLt) matReq fuel true ps evs = some (.ok M))
    (hok : AllOK M.automaton ps) (h : MatHost) : KeysWitnessed M.automaton h := by
  intro r c i ks hcell hacc
  obtain ⟨_, _, _, _, _, p, hps, hks⟩ := recorded_keys hok hacc
  obtain ⟨p', hps', hall⟩ :=
    (c03_matrix_prop_main ps evs fuel M (matSigma h r c) hb i).mp (Anch.accDet_of_accDetK hacc)
  rw [hps] at hps'
  cases hps'
  rw [hks]
  exact keys_on_host p h r c hcell hall

/-- **C01/C02 from `AllOK`.** If every live state of the built matrix automaton satisfies
`StateOK`, `find_matches` reports exactly the occurrences of the patterns. -/
theorem c01_c02_of_allOK (fuel' : Nat) (h : MatHost) (ms : List (Match MatPos))
    (hb : manyBuild (fun p => some (matConstraints p)) (fun _ => ([] : List MKey))
      (charTree mkeyLt) matReq fuel true ps evs = some (.ok M))
    (hok : AllOK M.automaton ps)
    (hf : M.findMatches matDomain h fuel' = .ok ms) (i : Nat) (m : MatPos) :
    (i, m) ∈ ms ↔ ∃ p, ps[i]? = some p ∧ ∃ r c, occursMat p h r c = true ∧
      m = .bound r c 0 0 ((matExtent p).1 : Int) ((matExtent p).2 : Int) := by
  obtain ⟨seen, hr⟩ : ∃ seen, run matDomain M.automaton h fuel' = .ok (ms, seen) := by
    unfold Many.findMatches at hf
    cases hrun : run matDomain M.automaton h fuel' with
    | error e => rw [hrun] at hf; cases hf
    | ok r =>
      rw [hrun] at hf
      cases hf
      exact ⟨r.2, rfl⟩
  rw [trun_mat_main M.automaton ps h fuel' ms seen hok (keysWitnessed_of_allOK hb hok h) hr]
  constructor
  · rintro (⟨rfl, w, hw, hmem⟩ | ⟨r, c, ks, hcell, hne, hacc, hbnd, rfl⟩)
    · obtain ⟨_, _, _, p, _, hks⟩ := (hok _ _ hw).matches_ i [] hmem
      exact absurd hks.symm (matPatternKeys_ne p)
    · obtain ⟨_, _, _, _, _, p, hps, hks⟩ := recorded_keys hok hacc
      obtain ⟨p', hps', hall⟩ :=
        (c03_matrix_prop_main ps evs fuel M (matSigma h r c) hb i).mp (Anch.accDet_of_accDetK hacc)
      rw [hps] at hps'
      cases hps'
      refine ⟨p, hps, r, c, (sigma_iff_occurs p h r c).mp ⟨hcell, hall⟩, ?_⟩
      rw [hks, matPatternKeys_extent p]
  · rintro ⟨p, hps, r, c, ho, rfl⟩
    right
    obtain ⟨hcell, hall⟩ := (sigma_iff_occurs p h r c).mpr ho
    have hacc : AccDet (matSigma h r c) M.automaton M.automaton.root i :=
      (c03_matrix_prop_main ps evs fuel M (matSigma h r c) hb i).mpr ⟨p, hps, hall⟩
    obtain ⟨ks, hK⟩ := Anch.accDetK_of_accDet hacc
    obtain ⟨_, _, _, _, _, p', hps', hks⟩ := recorded_keys hok hK
    rw [hps] at hps'
    cases hps'
    subst hks
    refine ⟨r, c, _, hcell, matPatternKeys_ne p, hK, keys_on_host p h r c hcell hall, ?_⟩
    rw [matPatternKeys_extent p]

end Built

/-- The baseline `NaiveManyMatcher` reports exactly the occurrences, labelled by position
(C05, `c05_naive_matrix`). -/
theorem mem_naive_matrix (ps : List MatPattern) (h : MatHost) (fuel : Nat)
    (ns : List (Match MatPos))
    (hn : naiveMatches matDomain h fuel (ps.map matConstraints) 0 = .ok ns) (i : Nat)
    (m : MatPos) :
    (i, m) ∈ ns ↔ ∃ p, ps[i]? = some p ∧ ∃ r c, occursMat p h r c = true ∧
      m = .bound r c 0 0 ((matExtent p).1 : Int) ((matExtent p).2 : Int) :=
  c05_naive_matrix ps h fuel ns hn i m

end MatProg
end Pm
