/-
Proofs/TBuildLND.lean — the UNCONDITIONAL half of T-BUILD for the lenient build `buildL` (the Rust
code path: no `make_det` guard, any event log, disciplined or not; namespace `Pm.TBL`).

`make_det` without any guard (`makeDetL`) still preserves the structural invariant and the
language of the root in the NON-deterministic reading: copying the transitions of the fallback
state onto a constraint child only adds, below `s`, ids that `s` accepts anyway through its
fallback transition.  What the guard protects is the determinisation invariant `DetOK` alone.
Hence for EVERY successful lenient build (`buildL_sem0`):
  * `Inv A`, acyclicity, and `AccND σ A A.root pid ↔ spec`;
  * so `AccDet σ A A.root pid → spec` (no false positive, `AccDet ⊆ AccND`), and
  * `DetOK σ A → (AccDet σ A A.root pid ↔ spec)`: T-BUILD reduces to `DetOK` of the FINAL
    automaton, a property of a single automaton value that can be checked per build.
-/
import PmVerif.Proofs.TBuildLMain
namespace Pm
namespace TBL
open Automaton
variable {K P : Type}

/-- The part of the global invariant that does not mention determinisation. -/
structure Good0 (a : Automaton K P) : Prop where
  inv : Inv a
  rs : RootSrc a

/-- `a'` is structurally good again and its root accepts the same ids (ND reading). -/
def Keeps0 (σ : Constraint K P → Bool) (a a' : Automaton K P) : Prop :=
  Good0 a' ∧ a'.root = a.root ∧ ∀ pid, AccND σ a' a'.root pid ↔ AccND σ a a.root pid

theorem Keeps0.refl {σ : Constraint K P → Bool} {a : Automaton K P} (g : Good0 a) :
    Keeps0 σ a a := ⟨g, rfl, fun _ => Iff.rfl⟩

theorem Keeps0.trans {σ : Constraint K P → Bool} {a a1 a2 : Automaton K P}
    (h1 : Keeps0 σ a a1) (h2 : Keeps0 σ a1 a2) : Keeps0 σ a a2 :=
  ⟨h2.1, h2.2.1.trans h1.2.1, fun pid => (h2.2.2 pid).trans (h1.2.2 pid)⟩

theorem Keeps0.of_pres {σ : Constraint K P → Bool} {a a' : Automaton K P} {s : Nat}
    (g : Good0 a) (p : Pres σ a a' s) : Keeps0 σ a a' := by
  obtain ⟨rs', hl⟩ := p.rootSrc g.rs
  exact ⟨⟨p.inv, rs'⟩, p.root, hl⟩

/-! ### `makeDetLoop` without any hypothesis on the children -/

structure LoopInv0 (σ : Constraint K P → Bool) (a0 b : Automaton K P) (s F tε : Nat)
    (fw : AState K) (rest : List Nat) : Prop where
  inv : Inv b
  root : b.root = a0.root
  wtF : b.g.weight? F = some fw
  edge_ε : b.g.edge? tε = some ⟨s, F, none⟩
  todo : ∀ t ∈ rest, ∃ X c, b.g.edge? t = some ⟨s, X, some c⟩
  rootSrc : RootSrc b
  rootLang : ∀ pid, AccND σ b b.root pid ↔ AccND σ a0 a0.root pid

theorem LoopInv0.step {σ : Constraint K P → Bool} {a0 b b' : Automaton K P}
    {s F tε t X tgt : Nat} {c : Constraint K P} {fw : AState K} {rest : List Nat}
    (li : LoopInv0 σ a0 b s F tε fw (t :: rest)) (hnd : t ∉ rest)
    (pre : RoundPre b s F tε t X c fw) (rs : RoundSpec b b' s F t X tgt c) :
    LoopInv0 σ a0 b' s F tε fw rest := by
  obtain ⟨rs', hroot⟩ := rs.rootSrc pre li.rootSrc
  refine ⟨rs.inv, rs.root.trans li.root, (rs.wt_ne F (Ne.symm rs.neF)).trans li.wtF,
    rs.old tε _ pre.tε_ne_t pre.edge_ε, ?_, rs', ?_⟩
  · intro t' ht'
    have hne : t' ≠ t := fun h => hnd (h ▸ ht')
    obtain ⟨X', c', he⟩ := li.todo t' (List.mem_cons_of_mem _ ht')
    exact ⟨X', c', rs.old t' _ hne he⟩
  · intro pid
    rw [rs.root]
    exact (rs.lang_ne pre hroot pid).trans (li.rootLang pid)

theorem makeDetLoop_inv0 {σ : Constraint K P → Bool} {a0 : Automaton K P} {s F tε : Nat}
    {fw : AState K} : ∀ (rest : List Nat) {b a' : Automaton K P},
    LoopInv0 σ a0 b s F tε fw rest → rest.Nodup →
    b.makeDetLoop (fw.corder ++ fw.eorder) fw.matches_ rest = .ok a' →
    LoopInv0 σ a0 a' s F tε fw []
  | [], b, a', li, _, h => by
    unfold makeDetLoop at h; cases h; exact li
  | t :: rest, b, a', li, hnd, h => by
    unfold makeDetLoop at h
    split at h
    · cases h
    · rename_i b1 tgt hsp
      split at h
      · cases h
      · rename_i b2 hcp
        split at h
        · cases h
        · rename_i b3 hm
          rw [List.nodup_cons] at hnd
          obtain ⟨X, c, he⟩ := li.todo t List.mem_cons_self
          have pre : RoundPre b s F tε t X c fw := ⟨li.inv, he, li.edge_ε, li.wtF⟩
          have su := splitU_of_splitTarget pre hsp
          have rs := roundSpec_of pre su hcp hm
          exact makeDetLoop_inv0 rest (li.step hnd.1 pre rs) hnd.2 h

/-- **Unguarded `make_det`** preserves the structural invariant, the root, the root-is-a-source
invariant and the ND language of the root. -/
theorem makeDetL_nd [DecidableEq K] [DecidableEq P] {σ : Constraint K P → Bool}
    {a a' : Automaton K P} {s : Nat}
    (inv : Inv a) (rs : RootSrc a) (h : a.makeDetL s = .ok a') :
    Inv a' ∧ a'.root = a.root ∧ RootSrc a' ∧
    (∀ pid, AccND σ a' a'.root pid ↔ AccND σ a a.root pid) := by
  unfold makeDetL at h
  split at h
  · cases h
  · rename_i a0 wd hsd
    obtain ⟨w, rfl, r⟩ := setDeterministic_reflag inv hsd
    have hfin : Inv a0 ∧ a0.root = a.root ∧ RootSrc a0 ∧
        (∀ pid, AccND σ a0 a0.root pid ↔ AccND σ a a.root pid) :=
      ⟨r.inv, r.root, r.rootSrc rs, fun pid => by rw [r.root]; exact r.acc_iff inv _ pid⟩
    split at h
    · cases h; exact hfin
    · split at h
      · cases h
      · cases h; exact hfin
      · rename_i F hfn
        obtain ⟨ws, hws, hr | ⟨tε, eε, hε, heε, hr⟩⟩ := failNextState_ok hfn
        · cases hr.1
        · cases hr
          split at h
          · rename_i failTs cts fw hft hcts hfw
            obtain ⟨fw', hfw', rfl⟩ := allTransitions_ok_iff.1 hft
            obtain ⟨ws', hws', rfl⟩ := corderOf_ok_iff.1 hcts
            rw [state_ok_iff] at hfw
            rw [hfw] at hfw'; cases hfw'
            rw [hws] at hws'; cases hws'
            have hε' : a0.g.edge? tε = some ⟨s, eε.dst, none⟩ := by
              obtain ⟨e, he, hsrc, hnone⟩ :=
                r.inv.ok.eorder_edge s ws hws tε (by rw [hε]; exact List.mem_singleton.2 rfl)
              rw [heε] at he; cases he
              rw [heε]
              cases eε with
              | mk src dst wt =>
                simp only at hsrc
                subst hsrc
                cases wt with
                | none => rfl
                | some _ => cases hnone
            have li : LoopInv0 σ a0 a0 s eε.dst tε fw ws.corder := by
              refine ⟨r.inv, rfl, hfw, hε', fun t ht => ?_, r.rootSrc rs, fun _ => Iff.rfl⟩
              obtain ⟨e, he, hsrc, hsome⟩ := r.inv.ok.corder_edge s ws hws t ht
              obtain ⟨c, hc⟩ := Option.isSome_iff_exists.1 hsome
              refine ⟨e.dst, c, ?_⟩
              rw [he]
              cases e
              simp only at hsrc hc
              subst hsrc hc
              rfl
            have hnd : ws.corder.Nodup := (List.nodup_append.1 (r.inv.ok.nodup s ws hws)).1
            have li' := makeDetLoop_inv0 _ li hnd h
            exact ⟨li'.inv, li'.root.trans r.root, li'.rootSrc,
              fun pid => (li'.rootLang pid).trans (by rw [r.root]; exact r.acc_iff inv _ pid)⟩
          · cases h
          · cases h
          · cases h

/-! ### the main induction for `iterationL` / `mainLoopL` / `buildL` -/

section Main
variable [DecidableEq K] [DecidableEq P]
set_option linter.unusedSectionVars false

theorem merges_keeps0 {σ : Constraint K P → Bool} (evs : List Ev) {a a' : Automaton K P}
    {evs' : List Ev} (g : Good0 a) (h : a.mergesLogged evs = .ok (a', evs')) : Keeps0 σ a a' := by
  obtain ⟨m, _⟩ := mergesLogged_spec (σ := σ) evs g.inv h
  have rs' := m.rootSrc g.rs
  refine ⟨⟨m.inv, rs'⟩, m.root, fun pid => ?_⟩
  rw [m.root]
  exact m.lang _ g.rs.1 (m.root ▸ rs'.1) pid

theorem iteration_tail0 {σ : Constraint K P → Bool} {a a' : Automaton K P} {s : Nat}
    {evs' : List Ev} (r : R (Automaton K P × List Ev))
    (hr : ∀ a4 evs4, r = .ok (a4, evs4) → Keeps0 σ a a4)
    (h : (match r with
      | .error e => .error e
      | .ok (a, evs) =>
        match a.mergesLogged evs with
        | .error e => .error e
        | .ok (a, .iterEnd s' :: evs) =>
          if s' = s then .ok (a, evs) else .error (.guard "IterEnd for another state")
        | .ok _ => .error (.guard "missing IterEnd event")) = Except.ok (a', evs')) :
    Keeps0 σ a a' := by
  split at h
  · cases h
  · rename_i a4 evs4
    have k4 := hr a4 evs4 rfl
    split at h
    · cases h
    · rename_i a5 s' evs5 h5
      split at h
      · cases h; exact k4.trans (merges_keeps0 _ k4.1 h5)
      · cases h
    · cases h

theorem iterationL_keeps0 {σ : Constraint K P → Bool}
    {toTree : List (Constraint K P) → Option (CTree (Constraint K P))} (L : StepLemmas σ toTree)
    {fuel : Nat} {a a' : Automaton K P} {s : Nat} {evs evs' : List Ev} (g : Good0 a)
    (h : iterationL toTree fuel a s evs = .ok (a', evs')) : Keeps0 σ a a' := by
  unfold iterationL at h
  split at h
  · cases h
  · rename_i hlive
    have hs : a.Live s := by
      unfold Live; cases hx : a.g.containsNode s <;> simp_all
    split at h
    · cases h
    · rename_i a1 evs1 h1
      have p1 := L.fuse g.inv hs h1
      have k1 := Keeps0.of_pres g p1
      split at h
      · cases h
      · rename_i a2 treeDet h2
        have p2 := (L.tree p1.inv p1.live_s h2).pres
        have k2 := k1.trans (Keeps0.of_pres k1.1 p2)
        split at h
        · cases h
        · rename_i a3 evs3 h3
          have p3 := L.fuse p2.inv p2.live_s h3
          have k3 := k2.trans (Keeps0.of_pres k2.1 p3)
          -- the determinisation step
          have hk4 : ∀ a4 evs4, (if treeDet then
                match evs3 with
                | .detAsk s' :: .detYes s'' :: evs' =>
                  if s' = s ∧ s'' = s then (a3.makeDetL s).map (·, evs')
                  else .error (.guard "c5: DetAsk/DetYes for another state")
                | .detAsk s' :: evs' =>
                  if s' = s then .ok (a3, evs') else .error (.guard "c5: DetAsk for another state")
                | _ => .error (.guard "c5: missing DetAsk event")
              else .ok (a3, evs3) : R (Automaton K P × List Ev)) = .ok (a4, evs4) →
              Keeps0 σ a a4 := by
            intro a4 evs4 h4
            split at h4
            · split at h4
              · split at h4
                · cases hm : a3.makeDetL s with
                  | error e => rw [hm] at h4; cases h4
                  | ok a4' =>
                    rw [hm] at h4
                    cases h4
                    obtain ⟨i, r, rs, l⟩ := makeDetL_nd (σ := σ) k3.1.inv k3.1.rs hm
                    exact k3.trans ⟨⟨i, rs⟩, r, l⟩
                · cases h4
              · split at h4
                · cases h4; exact k3
                · cases h4
              · cases h4
            · cases h4; exact k3
          exact iteration_tail0 _ hk4 h

theorem mainLoopL_keeps0 {σ : Constraint K P → Bool}
    {toTree : List (Constraint K P) → Option (CTree (Constraint K P))} (L : StepLemmas σ toTree)
    {fuel : Nat} : ∀ (n : Nat) {a a' : Automaton K P} (evs : List Ev), Good0 a →
    mainLoopL toTree fuel n a evs = .ok a' → Keeps0 σ a a' := by
  intro n
  induction n with
  | zero =>
    intro a a' evs g h
    cases evs with
    | nil => unfold mainLoopL at h; cases h; exact Keeps0.refl g
    | cons e es => unfold mainLoopL at h; cases h
  | succ n ih =>
    intro a a' evs g h
    cases evs with
    | nil => unfold mainLoopL at h; cases h; exact Keeps0.refl g
    | cons e es =>
      cases e with
      | topo s =>
        unfold mainLoopL at h
        split at h
        · cases h
        · rename_i a1 evs1 h1
          exact (iterationL_keeps0 L g h1).trans (ih evs1 (iterationL_keeps0 L g h1).1 h)
      | _ => unfold mainLoopL at h; cases h

/-- Everything that holds of EVERY successful lenient build, whatever the log. -/
theorem buildL_sem0 {σ : Constraint K P → Bool}
    {toTree : List (Constraint K P) → Option (CTree (Constraint K P))} (L : StepLemmas σ toTree)
    {req : K → List K} {fuel : Nat} {patterns : List (Nat × List (Constraint K P) × List K)}
    {evs : List Ev} {A : Automaton K P} (h : buildL toTree req fuel patterns evs = .ok A) :
    Inv A ∧
    (∃ rank : Nat → Nat, ∀ t e, A.g.edge? t = some e → rank e.dst < rank e.src) ∧
    ∀ pid, AccND σ A A.root pid ↔
      ∃ cs extra, (pid, cs, extra) ∈ patterns ∧ ∀ c ∈ cs, σ c = true := by
  unfold buildL at h
  split at h
  · cases h
  · rename_i a1 h1
    obtain ⟨inv1, _, rs1, _, hl1⟩ := addPatterns_spec (σ := σ) h1
    have g1 : Good0 a1 := ⟨inv1, rs1⟩
    unfold finishL at h
    split at h
    · cases h
    · rename_i a2 h2
      obtain ⟨g2, hr2, hl2⟩ := mainLoopL_keeps0 L _ _ g1 h2
      obtain ⟨inv3, hr3, he3, hw3⟩ := populateScopes_frame g2.inv h
      obtain ⟨rank, hrank⟩ := populateScopes_rank g2.inv h
      obtain ⟨hnd, _, _⟩ := sem_congr he3 hw3 σ
      refine ⟨inv3, ⟨rank, fun t e he => ?_⟩, fun pid => ?_⟩
      · rw [he3] at he; exact hrank t e he
      · rw [hnd, hr3, hl2, hl1]

end Main

end TBL
end Pm
