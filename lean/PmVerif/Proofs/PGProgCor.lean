/-
Proofs/PGProgCor.lean — the corollaries of T-RUN-ANCH-PG for BUILT single-root port-graph
automata WITHOUT the per-program check: `pg_built_of_allOK` / `pg_many_of_allOK` are
`AnchG.pg_built_checked` / `AnchG.pg_many_checked` with the check replaced by `AllOK`
(Proofs/PGProgRun.lean); `pg_built` / `pg_many` discharge `AllOK` by `stateOK_build`
(Proofs/PGProgMain.lean). `pgConstraints_noUnary`: `constraint_vec` emits a one-key `isNotEqual`
constraint only as the whole vector `[isNotEqual 0 [root 0]]`.
Everything lives in `namespace Pm.PGProg`.
-/
import PmVerif.Proofs.PGProgMain
import PmVerif.Proofs.PGProgRun
import PmVerif.Proofs.AnchGBuilt
import PmVerif.Props.TDomPG
namespace Pm
namespace PGProg
open Automaton AnchG

/-! ### `constraint_vec` and one-key `isNotEqual` constraints -/

/-- The vector `constraint_vec` returns for a pattern whose root has no link while the graph has
some. -/
def pgIsolatedVec : List PGCons := [⟨.isNotEqual 0, [.root 0]⟩]

theorem noUnary_ne (n : Nat) (key : PGKey) {l : List PGKey} (h : l ≠ []) :
    pgNoUnary ⟨.isNotEqual n, key :: l⟩ = true := by
  cases l with
  | nil => exact absurd rfl h
  | cons _ _ => rfl

theorem consLine_noUnary (ri : Nat) (ro : POff) :
    ∀ (line : List PLink) (i : Nat) (n2k : List (Nat × PGKey)) (cs : List PGCons)
      (n2k' : List (Nat × PGKey)) (cs' : List PGCons),
      consLine ri ro line i n2k cs = some (n2k', cs') → n2k ≠ [] →
      (∀ c ∈ cs, pgNoUnary c = true) →
      n2k' ≠ [] ∧ ∀ c ∈ cs', pgNoUnary c = true
  | [], i, n2k, cs, n2k', cs', h, hne, hcs => by
    unfold consLine at h
    cases h
    exact ⟨hne, hcs⟩
  | (left, right) :: rest, i, n2k, cs, n2k', cs', h, hne, hcs => by
    unfold consLine at h
    split at h
    · cases h
    · next leftKey hl =>
      cases hr : alGet n2k right.1 with
      | some k =>
        rw [hr] at h
        simp only at h
        refine consLine_noUnary ri ro rest (i + 1) n2k _ _ _ h hne ?_
        intro c hc
        rcases List.mem_append.1 hc with h1 | h1
        · exact hcs c h1
        · rw [List.mem_singleton.1 h1]; rfl
      | none =>
        rw [hr] at h
        simp only at h
        refine consLine_noUnary ri ro rest (i + 1) _ _ _ _ h ?_ ?_
        · intro hx
          exact hne (List.append_eq_nil_iff.1 hx).1
        · intro c hc
          rcases List.mem_append.1 hc with h1 | h1
          · rcases List.mem_append.1 h1 with h2 | h2
            · exact hcs c h2
            · rw [List.mem_singleton.1 h2]
              exact noUnary_ne _ _ (by
                intro hx
                exact hne (List.map_eq_nil_iff.1 hx))
          · rw [List.mem_singleton.1 h1]; rfl

theorem consLines_noUnary :
    ∀ (lines : List (List PLink)) (n2k : List (Nat × PGKey)) (n2r : List (Nat × Nat))
      (cs cs' : List PGCons),
      consLines lines n2k n2r cs = some cs' → n2k ≠ [] →
      (∀ c ∈ cs, pgNoUnary c = true) → ∀ c ∈ cs', pgNoUnary c = true
  | [], n2k, n2r, cs, cs', h, _, hcs => by
    unfold consLines at h
    cases h
    exact hcs
  | line :: lines, n2k, n2r, cs, cs', h, hne, hcs => by
    unfold consLines at h
    split at h
    · cases h
    · next first hf =>
      simp only at h
      split at h
      · cases h
      · next n2k1 cs1 h1 =>
        obtain ⟨hne1, hcs1⟩ := consLine_noUnary _ _ _ _ _ _ _ _ h1 hne hcs
        exact consLines_noUnary lines n2k1 _ cs1 cs' h hne1 hcs1

/-- `constraint_vec` emits a one-key `isNotEqual` constraint only as the whole vector
`[isNotEqual 0 [root 0]]`. -/
theorem pgConstraints_noUnary {g : PortGraph} {root : Nat} {cs : List PGCons}
    (h : pgConstraints g root = some cs) :
    cs = pgIsolatedVec ∨ ∀ c ∈ cs, pgNoUnary c = true := by
  unfold pgConstraints at h
  split at h
  · cases h
    right
    intro c hc
    rw [List.mem_singleton.1 hc]; rfl
  · split at h
    · cases h
    · next cs0 h0 =>
      split at h
      · cases h
        exact .inl rfl
      · cases h
        exact .inr (consLines_noUnary _ _ _ _ _ h0 (by simp) (by intro c hc; cases hc))

/-- The constraints of a single-root output of `constraint_vec` other than the isolated-root
vector satisfy the edge predicate `CQ`. -/
theorem pgConstraints_CQ {g : PortGraph} {root : Nat} {cs : List PGCons}
    (h : pgConstraints g root = some cs) (hsr : pgSigMultiRoot cs = false)
    (hiso : cs ≠ pgIsolatedVec) : ∀ c ∈ cs, CQ c := by
  intro c hc
  refine ⟨tdom_pg_arity g root cs h c hc, ?_, ?_⟩
  · exact (pgSingleRootKeys_iff _).1 ((tdom_pg_single_root cs).1 hsr c hc)
  · rcases pgConstraints_noUnary h with h1 | h1
    · exact absurd h1 hiso
    · exact h1 c hc

/-! ### built automata, builder inputs given directly -/

/-- `AnchG.pg_built_checked` with the check replaced by the per-state hypothesis. -/
theorem pg_built_of_allOK (inputs : List (Nat × List PGCons × List PGKey)) (evs : List Ev)
    (fuelT fuel fuel' : Nat) (A : Automaton PGKey PGPred) (css : List (Option (List PGCons)))
    (h : PortGraph) (ms : List (Match PGMap)) (seen : List (Nat × List (Option Nat)))
    (hb : Automaton.build (fun cs => pgTree cs fuelT) pgReq fuel inputs evs = .ok A)
    (hnc : ∀ p ∈ inputs, ∀ c ∈ p.2.1, pgNoCorner c = true)
    (hcss : ∀ p ∈ inputs, css[p.1]? = some (some p.2.1))
    (hok : AllOK A css) (hr : run pgDomain A h fuel' = .ok (ms, seen))
    (i : Nat) (m : PGMap) :
    (∃ m', (i, m') ∈ ms ∧ MapEqv m' m) ↔
      ∃ cs ex, (i, cs, ex) ∈ inputs ∧
        ((cs = [] ∧ m = []) ∨
         (cs ≠ [] ∧ ∃ r, r ∈ h.nodesIter ∧ (∀ c ∈ cs, pgSigmaAnch h r c = true) ∧
           (∀ k ∈ pgPatternKeys cs, (pgVal h r k).isSome = true) ∧
           MapGets m (pgPatternKeys cs) (pgVal h r))) := by
  rw [trun_pg_of_allOK A css h fuel' ms seen hok hr]
  -- edges of the built automaton are corner-free, so σ and σ' agree on them
  have hedge : ∀ r t e c, A.g.edge? t = some e → e.w = some c →
      pgSigmaAnch h r c = pgSigmaAnch' h r c := fun r t e c he hc =>
    (sigma'_eq_of_noCorner (build_noCorner (treeOK_sigma' h r fuelT) hb hnc t e c he hc)).symm
  have hin : ∀ r cs ex, (i, cs, ex) ∈ inputs → ∀ c ∈ cs,
      pgSigmaAnch' h r c = pgSigmaAnch h r c := fun r cs ex hmem c hc =>
    sigma'_eq_of_noCorner (hnc _ hmem c hc)
  -- T-BUILD for σ'
  have hbuild : ∀ r, AccDet (pgSigmaAnch' h r) A A.root i ↔
      ∃ cs extra, (i, cs, extra) ∈ inputs ∧ ∀ c ∈ cs, pgSigmaAnch' h r c = true := fun r =>
    build_acc (fun cs => pgTree cs fuelT) pgReq fuel inputs evs A (pgSigmaAnch' h r)
      (treeOK_sigma' h r fuelT) hb i
  -- the key list recorded for pattern `i` anywhere in the automaton
  have hrec : ∀ {σ : PGCons → Bool} {s : Nat} {ks : List PGKey} {cs : List PGCons}
      {ex : List PGKey}, AccDetK σ A s i ks → (i, cs, ex) ∈ inputs →
      ks = pgPatternKeys cs ∧ ∃ s' w', A.g.weight? s' = some w' ∧ (i, ks) ∈ w'.matches_ ∧
        (s' = A.root ∨ ks ≠ []) := by
    intro σ s ks cs ex hacc hmem
    obtain ⟨s', w', hw', hm'⟩ := Anch.accDetK_recorded hacc
    obtain ⟨_, hroot, cs', hcs', hks⟩ := (hok _ _ hw').matches_ i ks hm'
    have := hcss _ hmem
    simp only at this
    rw [this] at hcs'
    cases hcs'
    exact ⟨hks, s', w', hw', hm', hroot⟩
  constructor
  · rintro (⟨rfl, w, hw, hmem⟩ | ⟨r, ks, hrn, hne, hacc, hb', hmap⟩)
    · have hacc : AccDetK (pgSigmaAnch' h 0) A A.root i [] := .here hw hmem
      obtain ⟨cs, ex, hmem', hall⟩ := (hbuild 0).mp (Anch.accDet_of_accDetK hacc)
      obtain ⟨hks, _⟩ := hrec hacc hmem'
      refine ⟨cs, ex, hmem', .inl ⟨?_, rfl⟩⟩
      refine Classical.byContradiction fun hcs => ?_
      exact patternKeys_ne (h := h) (r := 0) hcs
        (fun c hc => (hin 0 cs ex hmem' c hc) ▸ hall c hc) hks.symm
    · have hacc' : AccDetK (pgSigmaAnch' h r) A A.root i ks :=
        (accDetK_congr (hedge r)).mp hacc
      obtain ⟨cs, ex, hmem', hall⟩ := (hbuild r).mp (Anch.accDet_of_accDetK hacc')
      obtain ⟨hks, _⟩ := hrec hacc hmem'
      subst hks
      refine ⟨cs, ex, hmem', .inr ⟨?_, r, hrn, ?_, hb', hmap⟩⟩
      · rintro rfl
        exact hne patternKeys_nil
      · exact fun c hc => (hin r cs ex hmem' c hc) ▸ hall c hc
  · rintro ⟨cs, ex, hmem, ⟨rfl, rfl⟩ | ⟨hcs, r, hrn, hall, hb', hmap⟩⟩
    · left
      have hacc : AccDet (pgSigmaAnch' h 0) A A.root i :=
        (hbuild 0).mpr ⟨[], ex, hmem, fun c hc => by cases hc⟩
      obtain ⟨ks, hK⟩ := Anch.accDetK_of_accDet hacc
      obtain ⟨hks, s', w', hw', hm', hroot⟩ := hrec hK hmem
      rw [patternKeys_nil] at hks
      subst hks
      have hs : s' = A.root := by
        rcases hroot with h | h
        · exact h
        · exact absurd rfl h
      subst hs
      exact ⟨rfl, w', hw', hm'⟩
    · right
      have hacc : AccDet (pgSigmaAnch' h r) A A.root i :=
        (hbuild r).mpr ⟨cs, ex, hmem, fun c hc => (hin r cs ex hmem c hc).symm ▸ hall c hc⟩
      obtain ⟨ks, hK⟩ := Anch.accDetK_of_accDet hacc
      obtain ⟨hks, _⟩ := hrec hK hmem
      subst hks
      exact ⟨r, _, hrn, patternKeys_ne hcs hall, (accDetK_congr (hedge r)).mpr hK, hb', hmap⟩

/-- **C01/C02 for single-root port-graph programs, builder inputs given directly, without the
check.** -/
theorem pg_built (inputs : List (Nat × List PGCons × List PGKey)) (evs : List Ev)
    (fuelT fuel fuel' : Nat) (A : Automaton PGKey PGPred) (css : List (Option (List PGCons)))
    (h : PortGraph) (ms : List (Match PGMap)) (seen : List (Nat × List (Option Nat)))
    (hb : Automaton.build (fun cs => pgTree cs fuelT) pgReq fuel inputs evs = .ok A)
    (hq : ∀ p ∈ inputs, ∀ c ∈ p.2.1, CQ c)
    (hextra : ∀ p ∈ inputs, p.2.2 = [])
    (hcss : ∀ p ∈ inputs, css[p.1]? = some (some p.2.1))
    (hr : run pgDomain A h fuel' = .ok (ms, seen)) (i : Nat) (m : PGMap) :
    (∃ m', (i, m') ∈ ms ∧ MapEqv m' m) ↔
      ∃ cs ex, (i, cs, ex) ∈ inputs ∧
        ((cs = [] ∧ m = []) ∨
         (cs ≠ [] ∧ ∃ r, r ∈ h.nodesIter ∧ (∀ c ∈ cs, pgSigmaAnch h r c = true) ∧
           (∀ k ∈ pgPatternKeys cs, (pgVal h r k).isSome = true) ∧
           MapGets m (pgPatternKeys cs) (pgVal h r))) :=
  pg_built_of_allOK inputs evs fuelT fuel fuel' A css h ms seen hb
    (fun p hp c hc => noCorner_of_noUnary (hq p hp c hc).nu) hcss
    (stateOK_build inputs evs fuel fuelT A css hb hq hextra hcss) hr i m

/-! ### `ManyMatcher` -/

section Many
variable {Pat : Type} (convert : Pat → Option (List PGCons))

/-- What `manyBuild` hands to the builder, for a conversion into single-root outputs of
`constraint_vec` other than the isolated-root vector. -/
theorem many_inputs_ok (ff : Bool) (pats : List Pat)
    (hconv : ∀ p ∈ pats, ∀ cs, convert p = some cs → ∃ g root, pgConstraints g root = some cs)
    (hsr : ∀ p ∈ pats, ∀ cs, convert p = some cs → pgSigMultiRoot cs = false)
    (hiso : ∀ p ∈ pats, convert p ≠ some pgIsolatedVec)
    {inputs : List (Nat × List PGCons × List PGKey)}
    (hi : manyInputs convert (fun _ => ([] : List PGKey)) ff pats 0 = some inputs) :
    (∀ p ∈ inputs, ∀ c ∈ p.2.1, CQ c) ∧ (∀ p ∈ inputs, p.2.2 = []) ∧
    (∀ p ∈ inputs, (pats.map convert)[p.1]? = some (some p.2.1)) := by
  have hpos := c06_ids_are_positions convert (fun _ => ([] : List PGKey)) ff pats 0 inputs hi
  refine ⟨?_, ?_, ?_⟩
  · rintro ⟨j, cs, ex⟩ hmem
    obtain ⟨k, p, hk, _, hcv, _⟩ := (hpos j cs ex).mp hmem
    have hp : p ∈ pats := List.mem_of_getElem? hk
    obtain ⟨g, root, hg⟩ := hconv p hp cs hcv
    exact pgConstraints_CQ hg (hsr p hp cs hcv) (fun e => hiso p hp (e ▸ hcv))
  · rintro ⟨j, cs, ex⟩ hmem
    obtain ⟨k, p, _, _, _, hex⟩ := (hpos j cs ex).mp hmem
    exact hex
  · rintro ⟨j, cs, ex⟩ hmem
    obtain ⟨k, p, hk, hj, hcv, _⟩ := (hpos j cs ex).mp hmem
    simp only [Nat.zero_add] at hj
    subst hj
    simp [hk, hcv]

/-- **Every built single-root port-graph matcher is an OK program.** -/
theorem allOK_many (ff : Bool) (pats : List Pat) (evs : List Ev) (fuelT fuel : Nat)
    (M : Many PGKey PGPred)
    (hconv : ∀ p ∈ pats, ∀ cs, convert p = some cs → ∃ g root, pgConstraints g root = some cs)
    (hsr : ∀ p ∈ pats, ∀ cs, convert p = some cs → pgSigMultiRoot cs = false)
    (hiso : ∀ p ∈ pats, convert p ≠ some pgIsolatedVec)
    (hb : manyBuild convert (fun _ => ([] : List PGKey)) (fun cs => pgTree cs fuelT) pgReq fuel ff
      pats evs = some (.ok M)) : AllOK M.automaton (pats.map convert) := by
  unfold manyBuild at hb
  cases hi : manyInputs convert (fun _ => ([] : List PGKey)) ff pats 0 with
  | none => simp [hi] at hb
  | some inputs =>
    simp only [hi] at hb
    cases hbuild : Automaton.build (fun cs => pgTree cs fuelT) pgReq fuel inputs evs with
    | error e => simp [hbuild] at hb
    | ok A =>
      simp only [hbuild, Option.some.injEq, Except.ok.injEq] at hb
      subst hb
      obtain ⟨hq, hex, hcss⟩ := many_inputs_ok convert ff pats hconv hsr hiso hi
      exact stateOK_build inputs evs fuel fuelT A _ hbuild hq hex hcss

/-- `AnchG.pg_many_checked` with the check replaced by the per-state hypothesis. -/
theorem pg_many_of_allOK
    (hconv : ∀ p cs, convert p = some cs → ∃ g root, pgConstraints g root = some cs)
    (ff : Bool) (pats : List Pat) (evs : List Ev) (fuelT fuel fuel' : Nat)
    (M : Many PGKey PGPred) (h : PortGraph) (ms : List (Match PGMap))
    (hb : manyBuild convert (fun _ => ([] : List PGKey)) (fun cs => pgTree cs fuelT) pgReq fuel ff
      pats evs = some (.ok M))
    (hok : AllOK M.automaton (pats.map convert))
    (hf : M.findMatches pgDomain h fuel' = .ok ms) (i : Nat) (m : PGMap) :
    (∃ m', (i, m') ∈ ms ∧ MapEqv m' m) ↔
      ∃ p cs, pats[i]? = some p ∧ convert p = some cs ∧
        ∃ r, r ∈ h.nodesIter ∧ (∀ c ∈ cs, pgSigmaAnch h r c = true) ∧
          (∀ k ∈ pgPatternKeys cs, (pgVal h r k).isSome = true) ∧
          MapGets m (pgPatternKeys cs) (pgVal h r) := by
  obtain ⟨seen, hr⟩ : ∃ seen, run pgDomain M.automaton h fuel' = .ok (ms, seen) := by
    unfold Many.findMatches at hf
    cases hrun : run pgDomain M.automaton h fuel' with
    | error e => rw [hrun] at hf; cases hf
    | ok r =>
      rw [hrun] at hf
      cases hf
      exact ⟨r.2, rfl⟩
  unfold manyBuild at hb
  cases hi : manyInputs convert (fun _ => ([] : List PGKey)) ff pats 0 with
  | none => simp [hi] at hb
  | some inputs =>
    simp only [hi] at hb
    cases hbuild : Automaton.build (fun cs => pgTree cs fuelT) pgReq fuel inputs evs with
    | error e => simp [hbuild] at hb
    | ok A =>
      simp only [hbuild, Option.some.injEq, Except.ok.injEq] at hb
      subst hb
      have hpos := c06_ids_are_positions convert (fun _ => ([] : List PGKey)) ff pats 0 inputs hi
      have hnc : ∀ p ∈ inputs, ∀ c ∈ p.2.1, pgNoCorner c = true := by
        rintro ⟨j, cs, ex⟩ hmem c hc
        obtain ⟨k, p, _, _, hcv, _⟩ := (hpos j cs ex).mp hmem
        obtain ⟨g, root, hg⟩ := hconv p cs hcv
        exact pgConstraints_noCorner hg c hc
      have hcss : ∀ p ∈ inputs, (pats.map convert)[p.1]? = some (some p.2.1) := by
        rintro ⟨j, cs, ex⟩ hmem
        obtain ⟨k, p, hk, hj, hcv, _⟩ := (hpos j cs ex).mp hmem
        simp only [Nat.zero_add] at hj
        subst hj
        simp [hk, hcv]
      rw [pg_built_of_allOK inputs evs fuelT fuel fuel' A (pats.map convert) h ms seen hbuild hnc
        hcss hok hr i m]
      constructor
      · rintro ⟨cs, ex, hmem, hcase⟩
        obtain ⟨k, p, hk, hj, hcv, _⟩ := (hpos i cs ex).mp hmem
        simp only [Nat.zero_add] at hj
        subst hj
        obtain ⟨g, root, hg⟩ := hconv p cs hcv
        rcases hcase with ⟨rfl, _⟩ | ⟨_, hrest⟩
        · exact absurd rfl (pgConstraints_ne_nil hg)
        · exact ⟨p, cs, hk, hcv, hrest⟩
      · rintro ⟨p, cs, hk, hcv, hrest⟩
        obtain ⟨g, root, hg⟩ := hconv p cs hcv
        exact ⟨cs, [], (hpos i cs []).mpr ⟨i, p, hk, by simp, hcv, rfl⟩,
          .inr ⟨pgConstraints_ne_nil hg, hrest⟩⟩

/-- **C01/C02 for single-root port-graph pattern sets, without the check.** -/
theorem pg_many
    (hconv : ∀ p cs, convert p = some cs → ∃ g root, pgConstraints g root = some cs)
    (ff : Bool) (pats : List Pat) (evs : List Ev) (fuelT fuel fuel' : Nat)
    (M : Many PGKey PGPred) (h : PortGraph) (ms : List (Match PGMap))
    (hsr : ∀ p ∈ pats, ∀ cs, convert p = some cs → pgSigMultiRoot cs = false)
    (hiso : ∀ p ∈ pats, convert p ≠ some pgIsolatedVec)
    (hb : manyBuild convert (fun _ => ([] : List PGKey)) (fun cs => pgTree cs fuelT) pgReq fuel ff
      pats evs = some (.ok M))
    (hf : M.findMatches pgDomain h fuel' = .ok ms) (i : Nat) (m : PGMap) :
    (∃ m', (i, m') ∈ ms ∧ MapEqv m' m) ↔
      ∃ p cs, pats[i]? = some p ∧ convert p = some cs ∧
        ∃ r, r ∈ h.nodesIter ∧ (∀ c ∈ cs, pgSigmaAnch h r c = true) ∧
          (∀ k ∈ pgPatternKeys cs, (pgVal h r k).isSome = true) ∧
          MapGets m (pgPatternKeys cs) (pgVal h r) :=
  pg_many_of_allOK convert hconv ff pats evs fuelT fuel fuel' M h ms hb
    (allOK_many convert ff pats evs fuelT fuel M (fun p _ => hconv p) hsr hiso hb) hf i m

end Many

end PGProg
end Pm
