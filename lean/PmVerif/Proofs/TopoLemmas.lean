/-
Proofs/TopoLemmas.lean — helper lemmas for property C15 (the online topological sort):
`dedup`, the adjacency of a well-formed `SGraph`, `refill`, a big-step relation `Topo.Run`
for one call of `Topo.next`, the invariants `TopoInv` / `RootInv`, termination, exhaustiveness,
the history lemmas for `Topo.runHist`, soundness of the Boolean checkers, and preservation of
`SGraph.WF` by the graph operations.
-/
import PmVerif.Spec.TopoSpec
namespace Pm
variable {N E : Type}

/-! ### `dedup` -/

theorem mem_dedup {α} [DecidableEq α] {x : α} : ∀ {l : List α}, x ∈ dedup l ↔ x ∈ l
  | [] => by simp [dedup]
  | y :: ys => by
    have ih := @mem_dedup α _ x ys
    by_cases h : x = y
    · simp [dedup, h]
    · simp [dedup, List.mem_filter, ih, h]

theorem nodup_dedup {α} [DecidableEq α] : ∀ (l : List α), (dedup l).Nodup
  | [] => by simp [dedup]
  | y :: ys => by
    have ih := nodup_dedup ys
    rw [dedup, List.nodup_cons]
    refine ⟨?_, ih.sublist List.filter_sublist⟩
    simp [List.mem_filter]

theorem dedup_eq_nil {α} [DecidableEq α] {l : List α} : dedup l = [] ↔ l = [] := by
  cases l <;> simp [dedup]

/-! ### Adjacency of the graph model -/

namespace SGraph

theorem containsNode_iff {g : SGraph N E} {a : Nat} :
    g.containsNode a = true ↔ ∃ nd, g.node? a = some nd := by
  simp [containsNode, Option.isSome_iff_exists]

theorem mem_succs {g : SGraph N E} {a n : Nat} :
    n ∈ g.succs a ↔ ∃ nd e ed, g.node? a = some nd ∧ e ∈ nd.out ∧ g.edge? e = some ed ∧
      ed.dst = n := by
  unfold succs outEdges
  cases h : g.node? a with
  | none => simp
  | some nd =>
    simp only [List.mem_map, List.mem_filterMap, Option.map_eq_some_iff, Option.some.injEq]
    constructor
    · rintro ⟨⟨e', m⟩, ⟨e, he, ed, hed, hp⟩, rfl⟩
      cases hp
      exact ⟨nd, _, ed, rfl, he, hed, rfl⟩
    · rintro ⟨nd', e, ed, hnd, he, hed, rfl⟩
      cases hnd
      exact ⟨(e, ed.dst), ⟨e, he, ed, hed, rfl⟩, rfl⟩

theorem mem_preds {g : SGraph N E} {n p : Nat} :
    p ∈ g.preds n ↔ ∃ nd e ed, g.node? n = some nd ∧ e ∈ nd.inc ∧ g.edge? e = some ed ∧
      ed.src = p := by
  unfold preds inEdges
  cases h : g.node? n with
  | none => simp
  | some nd =>
    simp only [List.mem_map, List.mem_filterMap, Option.map_eq_some_iff, Option.some.injEq]
    constructor
    · rintro ⟨⟨e', m⟩, ⟨e, he, ed, hed, hp⟩, rfl⟩
      cases hp
      exact ⟨nd, _, ed, rfl, he, hed, rfl⟩
    · rintro ⟨nd', e, ed, hnd, he, hed, rfl⟩
      cases hnd
      exact ⟨(e, ed.src), ⟨e, he, ed, hed, rfl⟩, rfl⟩

/-- Only live nodes have predecessors (no well-formedness needed). -/
theorem live_of_mem_preds {g : SGraph N E} {n p : Nat} (h : p ∈ g.preds n) :
    g.containsNode n = true := by
  obtain ⟨nd, _, _, hnd, _⟩ := mem_preds.1 h
  exact containsNode_iff.2 ⟨nd, hnd⟩

/-- Only live nodes have successors (no well-formedness needed). -/
theorem live_of_mem_succs {g : SGraph N E} {a n : Nat} (h : n ∈ g.succs a) :
    g.containsNode a = true := by
  obtain ⟨nd, _, _, hnd, _⟩ := mem_succs.1 h
  exact containsNode_iff.2 ⟨nd, hnd⟩

theorem WF.preds_iff_succs {g : SGraph N E} (wf : g.WF) {p n : Nat} :
    p ∈ g.preds n ↔ n ∈ g.succs p := by
  rw [mem_preds, mem_succs]
  constructor
  · rintro ⟨nd, e, ed, hnd, he, hed, rfl⟩
    obtain ⟨nd', hnd', he'⟩ := wf.edge_src e ed hed
    obtain ⟨ed', hed', hdst⟩ := wf.inc_edge n nd hnd e he
    rw [hed] at hed'; cases hed'
    exact ⟨nd', e, ed, hnd', he', hed, hdst⟩
  · rintro ⟨nd, e, ed, hnd, he, hed, rfl⟩
    obtain ⟨nd', hnd', he'⟩ := wf.edge_dst e ed hed
    obtain ⟨ed', hed', hsrc⟩ := wf.out_edge p nd hnd e he
    rw [hed] at hed'; cases hed'
    exact ⟨nd', e, ed, hnd', he', hed, hsrc⟩

theorem WF.succ_live {g : SGraph N E} (wf : g.WF) {a n : Nat} (h : n ∈ g.succs a) :
    g.containsNode n = true :=
  live_of_mem_preds (wf.preds_iff_succs.2 h)

theorem WF.pred_live {g : SGraph N E} (wf : g.WF) {p n : Nat} (h : p ∈ g.preds n) :
    g.containsNode p = true :=
  live_of_mem_succs (wf.preds_iff_succs.1 h)

theorem mem_nodeIndices {g : SGraph N E} {n : Nat} :
    n ∈ g.nodeIndices ↔ g.containsNode n = true := by
  unfold nodeIndices
  rw [List.mem_filter, List.mem_range]
  constructor
  · exact fun h => h.2
  · intro h
    refine ⟨?_, h⟩
    obtain ⟨nd, hnd⟩ := containsNode_iff.1 h
    unfold node? at hnd
    cases hi : g.nodes[n]? with
    | none => rw [hi] at hnd; cases hnd
    | some _ => exact (List.getElem?_eq_some_iff.1 hi).1

theorem nodup_nodeIndices (g : SGraph N E) : g.nodeIndices.Nodup :=
  List.nodup_range.sublist List.filter_sublist

end SGraph

/-! ### `isReady`, `refill` -/

namespace Topo

theorem isReady_iff {g : SGraph N E} {visited : List Nat} {n : Nat} :
    isReady g visited n = true ↔ ∀ p ∈ g.preds n, p ∈ visited := by
  simp [isReady, List.all_eq_true]

theorem refill_congr (g : SGraph N E) {t t' : Topo} (h : t.visited = t'.visited) :
    ∀ scan, refill g t scan = refill g t' scan
  | [] => rfl
  | v :: scan => by
    simp only [refill, h, refill_congr g h scan]

/-- What a successful refill returns: a non-empty duplicate-free list of ready, unvisited
successors of one scanned node. -/
theorem refill_some {g : SGraph N E} {t : Topo} :
    ∀ {scan ready}, refill g t scan = some ready →
      ready ≠ [] ∧ ready.Nodup ∧ ∃ v ∈ scan, ∀ n ∈ ready,
        n ∈ g.succs v ∧ isReady g t.visited n = true ∧ n ∉ t.visited
  | [], _, h => by simp [refill] at h
  | v :: scan, ready, h => by
    simp only [refill] at h
    split at h
    · obtain ⟨h1, h2, w, hw, h3⟩ := refill_some h
      exact ⟨h1, h2, w, List.mem_cons_of_mem _ hw, h3⟩
    · rename_i hne
      cases h
      refine ⟨by simpa [List.isEmpty_iff] using hne, nodup_dedup _, v, List.mem_cons_self, ?_⟩
      intro n hn
      rw [mem_dedup, List.mem_filter] at hn
      simpa using hn

/-- A failed refill: no scanned node has a ready unvisited successor. -/
theorem refill_none {g : SGraph N E} {t : Topo} :
    ∀ {scan}, refill g t scan = none → ∀ v ∈ scan, ∀ n ∈ g.succs v,
      isReady g t.visited n = true → n ∈ t.visited
  | [], _ => by simp
  | w :: scan, h => by
    simp only [refill] at h
    split at h
    · rename_i hemp
      intro v hv n hn hr
      rcases List.mem_cons.1 hv with rfl | hv
      · rw [List.isEmpty_iff, dedup_eq_nil, List.filter_eq_nil_iff] at hemp
        have := hemp n hn
        simpa [hr] using this
      · exact refill_none h v hv n hn hr
    · cases h

/-! ### One call of `next` as a big-step relation -/

/-- The stack the pop of one loop pass works on: the current stack, refilled if empty. -/
def base (g : SGraph N E) (scan : List Nat) (t : Topo) : Option (List Nat) :=
  if t.stack.isEmpty then refill g t scan else some t.stack

theorem next_succ (g : SGraph N E) (scan : List Nat) (fuel : Nat) (t : Topo) :
    next g scan (fuel + 1) t =
      match base g scan t with
      | none => some (none, t)
      | some st =>
        match st.getLast? with
        | none => none
        | some n =>
          if g.containsNode n && isReady g t.visited n then
            some (some n, ⟨t.visited ++ [n], st.dropLast⟩)
          else next g scan fuel ⟨t.visited, st.dropLast⟩ := by
  unfold base
  rw [next]
  by_cases h : t.stack.isEmpty
  · simp only [h, if_true]; cases refill g t scan <;> rfl
  · simp only [h]; rfl

theorem base_none {g : SGraph N E} {scan : List Nat} {t : Topo} (h : base g scan t = none) :
    t.stack = [] ∧ refill g t scan = none := by
  unfold base at h
  split at h
  · exact ⟨List.isEmpty_iff.1 ‹_›, h⟩
  · cases h

theorem base_some {g : SGraph N E} {scan : List Nat} {t : Topo} {st : List Nat}
    (h : base g scan t = some st) :
    (st = t.stack ∧ t.stack ≠ []) ∨ (t.stack = [] ∧ refill g t scan = some st) := by
  unfold base at h
  split at h
  · exact .inr ⟨List.isEmpty_iff.1 ‹_›, h⟩
  · rename_i hne
    cases h; exact .inl ⟨rfl, by simpa [List.isEmpty_iff] using hne⟩

/-- One call of `next`, fuel abstracted away: the loop pops nodes that are vacant or not ready
until it emits one or the refill scan is exhausted. -/
inductive Run (g : SGraph N E) (scan : List Nat) : Topo → Option Nat → Topo → Prop
  | exhausted {t : Topo} : base g scan t = none → Run g scan t none t
  | emit {t : Topo} {init : List Nat} {n : Nat} : base g scan t = some (init ++ [n]) →
      g.containsNode n = true → isReady g t.visited n = true →
      Run g scan t (some n) ⟨t.visited ++ [n], init⟩
  | skip {t : Topo} {init : List Nat} {n : Nat} {r : Option Nat} {t' : Topo} :
      base g scan t = some (init ++ [n]) →
      ¬ (g.containsNode n = true ∧ isReady g t.visited n = true) →
      Run g scan ⟨t.visited, init⟩ r t' → Run g scan t r t'

theorem next_run {g : SGraph N E} {scan : List Nat} :
    ∀ {fuel : Nat} {t : Topo} {r : Option Nat} {t' : Topo},
      next g scan fuel t = some (r, t') → Run g scan t r t'
  | 0, _, _, _, h => by simp [next] at h
  | fuel + 1, t, r, t', h => by
    rw [next_succ] at h
    cases hb : base g scan t with
    | none =>
      rw [hb] at h
      cases h
      exact .exhausted hb
    | some st =>
      rw [hb] at h
      rcases List.eq_nil_or_concat st with rfl | ⟨init, n, rfl⟩
      · simp at h
      · rw [List.concat_eq_append] at h hb
        simp only [List.getLast?_concat, List.dropLast_concat] at h
        split at h
        · rename_i hc
          cases h
          rw [Bool.and_eq_true] at hc
          exact .emit hb hc.1 hc.2
        · rename_i hc
          rw [Bool.and_eq_true] at hc
          exact .skip hb hc (next_run h)

/-! ### Consequences of a run -/

theorem Run.visited_eq {g : SGraph N E} {scan : List Nat} {t t' : Topo} {r : Option Nat}
    (h : Run g scan t r t') : t'.visited = t.visited ++ r.toList := by
  induction h with
  | exhausted _ => simp
  | emit _ _ _ => simp
  | skip _ _ _ ih => simpa using ih

theorem Run.emit_spec {g : SGraph N E} {scan : List Nat} {t t' : Topo} {n : Nat}
    (h : Run g scan t (some n) t') :
    g.containsNode n = true ∧ isReady g t.visited n = true ∧ t'.visited = t.visited ++ [n] ∧
      ∃ st dropped, (st = t.stack ∨ refill g t scan = some st) ∧
        st = t'.stack ++ n :: dropped := by
  generalize hr : some n = r at h
  induction h with
  | exhausted _ => cases hr
  | @emit t init m hb hl hrdy =>
    cases hr
    refine ⟨hl, hrdy, rfl, init ++ [n], [], ?_, rfl⟩
    rcases base_some hb with ⟨h1, _⟩ | ⟨_, h2⟩
    · exact .inl h1
    · exact .inr h2
  | @skip t init m r t' hb hn hrun ih =>
    obtain ⟨hl, hrdy, hv, st, dropped, hst, heq⟩ := ih hr
    refine ⟨hl, hrdy, hv, ?_⟩
    rcases hst with hst | hst
    · refine ⟨init ++ [m], dropped ++ [m], ?_, ?_⟩
      · rcases base_some hb with ⟨h1, _⟩ | ⟨_, h2⟩
        · exact .inl h1
        · exact .inr h2
      · have hst' : st = init := hst
        have : init = t'.stack ++ n :: dropped := hst' ▸ heq
        rw [this]; simp
    · refine ⟨st, dropped, .inr ?_, heq⟩
      rw [← hst]
      exact refill_congr g (t := t) (t' := ⟨t.visited, init⟩) rfl scan

theorem Run.none_spec {g : SGraph N E} {scan : List Nat} {t t' : Topo}
    (h : Run g scan t none t') :
    t'.visited = t.visited ∧ t'.stack = [] ∧ refill g t scan = none ∧
      ∀ n ∈ t.stack, ¬ (g.containsNode n = true ∧ isReady g t.visited n = true) := by
  generalize hr : (none : Option Nat) = r at h
  induction h with
  | @exhausted t hb =>
    obtain ⟨h1, h2⟩ := base_none hb
    exact ⟨rfl, h1, h2, by simp [h1]⟩
  | emit _ _ _ => cases hr
  | @skip t init m r t' hb hn hrun ih =>
    obtain ⟨hv, hs, hrf, hall⟩ := ih hr
    have hrf' : refill g t scan = none := by
      rw [← hrf]; exact refill_congr g (t := t) (t' := ⟨t.visited, init⟩) rfl scan
    refine ⟨hv, hs, hrf', ?_⟩
    rcases base_some hb with ⟨h1, _⟩ | ⟨_, h2⟩
    · rw [← h1]
      intro k hk
      rcases List.mem_append.1 hk with hk | hk
      · exact hall k hk
      · rw [List.mem_singleton] at hk; subst hk; exact hn
    · rw [hrf'] at h2; cases h2

end Topo

/-! ### Invariants -/

/-- The stack holds each node at most once and never a visited node. -/
def TopoInv (t : Topo) : Prop := t.stack.Nodup ∧ ∀ n ∈ t.stack, n ∉ t.visited

/-- The root is either emitted or still on the stack. -/
def RootInv (root : Nat) (t : Topo) : Prop := root ∈ t.visited ∨ root ∈ t.stack

theorem topoInv_new (root : Nat) : TopoInv (Topo.new root) := by
  simp [TopoInv, Topo.new]

theorem rootInv_new (root : Nat) : RootInv root (Topo.new root) := by
  simp [RootInv, Topo.new]

namespace Topo

theorem base_inv {g : SGraph N E} {scan : List Nat} {t : Topo} {st : List Nat}
    (inv : TopoInv t) (hb : base g scan t = some st) :
    st.Nodup ∧ ∀ n ∈ st, n ∉ t.visited := by
  rcases base_some hb with ⟨h1, _⟩ | ⟨_, h2⟩
  · rw [h1]; exact inv
  · obtain ⟨_, hnd, v, _, hall⟩ := refill_some h2
    exact ⟨hnd, fun n hn => (hall n hn).2.2⟩

theorem pop_inv {g : SGraph N E} {scan : List Nat} {t : Topo} {init : List Nat} {n : Nat}
    (inv : TopoInv t) (hb : base g scan t = some (init ++ [n])) :
    TopoInv ⟨t.visited, init⟩ ∧ n ∉ t.visited ∧ n ∉ init := by
  obtain ⟨hnd, hnv⟩ := base_inv inv hb
  rw [List.nodup_append] at hnd
  refine ⟨⟨hnd.1, fun m hm => hnv m (List.mem_append_left _ hm)⟩,
    hnv n (List.mem_append_right _ (List.mem_singleton.2 rfl)), ?_⟩
  intro hm
  exact hnd.2.2 n hm n (List.mem_singleton.2 rfl) rfl

theorem Run.inv {g : SGraph N E} {scan : List Nat} {t t' : Topo} {r : Option Nat}
    (h : Run g scan t r t') (inv : TopoInv t) : TopoInv t' := by
  induction h with
  | exhausted _ => exact inv
  | @emit t init n hb _ _ =>
    obtain ⟨⟨h1, h2⟩, _, h4⟩ := pop_inv inv hb
    refine ⟨h1, fun m hm => ?_⟩
    show m ∉ t.visited ++ [n]
    rw [List.mem_append, List.mem_singleton]
    rintro (hv | rfl)
    · exact h2 m hm hv
    · exact h4 hm
  | skip hb _ _ ih => exact ih (pop_inv inv hb).1

theorem Run.emit_fresh {g : SGraph N E} {scan : List Nat} {t t' : Topo} {n : Nat}
    (h : Run g scan t (some n) t') (inv : TopoInv t) : n ∉ t.visited := by
  generalize hr : some n = r at h
  induction h with
  | exhausted _ => cases hr
  | emit hb _ _ => cases hr; exact (pop_inv inv hb).2.1
  | skip hb _ _ ih => exact ih (pop_inv inv hb).1 hr

/-- While the root is live and, as long as it is unvisited, has no predecessors, it is never
dropped from the stack: it stays queued until it is emitted. -/
theorem Run.rootInv {g : SGraph N E} {scan : List Nat} {t t' : Topo} {r : Option Nat} {root : Nat}
    (h : Run g scan t r t') (hlive : g.containsNode root = true)
    (hsrc : root ∉ t.visited → g.preds root = []) (ri : RootInv root t) : RootInv root t' := by
  induction h with
  | exhausted _ => exact ri
  | @emit t init n hb _ _ =>
    rcases ri with hv | hs
    · exact .inl (List.mem_append_left _ hv)
    · rcases base_some hb with ⟨h1, _⟩ | ⟨h2, _⟩
      · rw [← h1] at hs
        rcases List.mem_append.1 hs with hs | hs
        · exact .inr hs
        · exact .inl (List.mem_append_right _ hs)
      · rw [h2] at hs; cases hs
  | @skip t init n r t' hb hn _ ih =>
    refine ih hsrc ?_
    rcases ri with hv | hs
    · exact .inl hv
    · rcases base_some hb with ⟨h1, _⟩ | ⟨h2, _⟩
      · rw [← h1] at hs
        rcases List.mem_append.1 hs with hs | hs
        · exact .inr hs
        · rw [List.mem_singleton] at hs
          subst hs
          by_cases hv : root ∈ t.visited
          · exact .inl hv
          · exact absurd ⟨hlive, isReady_iff.2 (by simp [hsrc hv])⟩ hn
      · rw [h2] at hs; cases hs

/-! ### Termination and fuel -/

theorem next_fuel_mono {g : SGraph N E} {scan : List Nat} :
    ∀ {fuel fuel' : Nat} {t : Topo} {res : Option Nat × Topo},
      next g scan fuel t = some res → fuel ≤ fuel' → next g scan fuel' t = some res
  | 0, _, _, _, h, _ => by simp [next] at h
  | fuel + 1, 0, _, _, _, hle => by omega
  | fuel + 1, fuel' + 1, t, res, h, hle => by
    rw [next_succ] at h ⊢
    cases hb : base g scan t with
    | none => rw [hb] at h; exact h
    | some st =>
      rw [hb] at h
      simp only at h ⊢
      cases hl : st.getLast? with
      | none => rw [hl] at h; cases h
      | some n =>
        rw [hl] at h
        simp only at h ⊢
        split
        · rename_i hc; rw [if_pos hc] at h; exact h
        · rename_i hc; rw [if_neg hc] at h
          exact next_fuel_mono h (by omega)

/-- After a refill the top of the stack is live and ready, so at most `stack.length + 1` loop
passes are needed. -/
theorem next_isSome {g : SGraph N E} (wf : g.WF) (scan : List Nat) :
    ∀ (k : Nat) (t : Topo), t.stack.length = k → (next g scan (k + 1) t).isSome = true := by
  intro k
  induction k with
  | zero =>
    intro t hk
    rw [next_succ]
    cases hb : base g scan t with
    | none => rfl
    | some st =>
      rcases base_some hb with ⟨_, h1⟩ | ⟨_, h2⟩
      · exact absurd (List.eq_nil_of_length_eq_zero hk) h1
      · obtain ⟨hne, _, v, _, hall⟩ := refill_some h2
        rcases List.eq_nil_or_concat st with rfl | ⟨init, n, rfl⟩
        · exact absurd rfl hne
        · rw [List.concat_eq_append] at hall ⊢
          obtain ⟨h1, h2, _⟩ := hall n (List.mem_append_right _ (List.mem_singleton.2 rfl))
          simp [wf.succ_live h1, h2]
  | succ k ih =>
    intro t hk
    rw [next_succ]
    cases hb : base g scan t with
    | none => rfl
    | some st =>
      rcases base_some hb with ⟨h1, _⟩ | ⟨h2, _⟩
      · rcases List.eq_nil_or_concat st with rfl | ⟨init, n, rfl⟩
        · rw [← h1] at hk; cases hk
        · rw [List.concat_eq_append] at h1 ⊢
          simp only [List.getLast?_concat, List.dropLast_concat]
          split
          · rfl
          · apply ih
            rw [← h1] at hk
            simpa using hk
      · rw [h2] at hk; cases hk

/-! ### Exhaustiveness of one call -/

theorem Run.exhaustive {g : SGraph N E} {scan : List Nat} {t t' : Topo} {root : Nat}
    (h : Run g scan t none t') (wf : g.WF) (adm : AdmState g root t.visited)
    (hscan : ∀ v ∈ t.visited, v ∈ scan) (ri : RootInv root t)
    (hlive : g.containsNode root = true) (inv : TopoInv t) :
    ∀ n, g.containsNode n = true → n ∈ t.visited := by
  obtain ⟨_, _, hrf, hst⟩ := h.none_spec
  have hrv : root ∈ t.visited := by
    rcases ri with hv | hs
    · exact hv
    · have hnv := inv.2 root hs
      have hp := (adm.source root hlive hnv).1 rfl
      exact absurd ⟨hlive, isReady_iff.2 (by simp [hp])⟩ (hst root hs)
  obtain ⟨rank, hrank⟩ := adm.acyclic
  have key : ∀ k n, rank n < k → g.containsNode n = true → n ∈ t.visited := by
    intro k
    induction k with
    | zero => intro n hn; omega
    | succ k ih =>
      intro n hk hl
      by_cases hv : n ∈ t.visited
      · exact hv
      · have hne : n ≠ root := fun e => hv (e ▸ hrv)
        have hpne := (adm.source n hl hv).2 hne
        obtain ⟨p, hp⟩ := List.exists_mem_of_ne_nil _ hpne
        have hall : ∀ q ∈ g.preds n, q ∈ t.visited := fun q hq =>
          ih q (by have := hrank n q hq; omega) (wf.pred_live hq)
        exact refill_none hrf p (hscan p (hall p hp)) n (wf.preds_iff_succs.1 hp)
          (isReady_iff.2 hall)
  exact fun n hl => key (rank n + 1) n (Nat.lt_succ_self _) hl

/-! ### Histories -/

theorem runHist_cons {fuel : Nat} {t t'' : Topo} {g : SGraph N E} {scan : List Nat}
    {rest : List (SGraph N E × List Nat)} {outs : List (Option Nat)} :
    runHist fuel t ((g, scan) :: rest) = some (outs, t'') ↔
      ∃ r t' rs, next g scan fuel t = some (r, t') ∧ runHist fuel t' rest = some (rs, t'') ∧
        outs = r :: rs := by
  constructor
  · intro h
    simp only [runHist] at h
    split at h
    · cases h
    · rename_i r t' h1
      split at h
      · cases h
      · rename_i rs t2 h2
        cases h
        exact ⟨r, t', rs, h1, h2, rfl⟩
  · rintro ⟨r, t', rs, h1, h2, rfl⟩
    simp only [runHist, h1, h2]

theorem runHist_length {fuel : Nat} :
    ∀ {hist : List (SGraph N E × List Nat)} {t t' : Topo} {outs : List (Option Nat)},
      runHist fuel t hist = some (outs, t') → outs.length = hist.length
  | [], _, _, _, h => by simp [runHist] at h; simp [h.1.symm]
  | (g, scan) :: rest, t, t', outs, h => by
    obtain ⟨r, t1, rs, _, hr, rfl⟩ := runHist_cons.1 h
    simp [runHist_length hr]

theorem runHist_append {fuel : Nat} :
    ∀ {pre suf : List (SGraph N E × List Nat)} {t t'' : Topo} {outs : List (Option Nat)},
      runHist fuel t (pre ++ suf) = some (outs, t'') →
      ∃ o1 t' o2, runHist fuel t pre = some (o1, t') ∧ runHist fuel t' suf = some (o2, t'') ∧
        outs = o1 ++ o2
  | [], suf, t, t'', outs, h => ⟨[], t, outs, rfl, h, rfl⟩
  | (g, scan) :: pre, suf, t, t'', outs, h => by
    obtain ⟨r, t1, rs, hn, hr, rfl⟩ := runHist_cons.1 h
    obtain ⟨o1, t', o2, h1, h2, rfl⟩ := runHist_append hr
    exact ⟨r :: o1, t', o2, runHist_cons.2 ⟨r, t1, o1, hn, h1, rfl⟩, h2, rfl⟩

theorem filterMap_id_cons (r : Option Nat) (rs : List (Option Nat)) :
    (r :: rs).filterMap id = r.toList ++ rs.filterMap id := by
  cases r <;> simp

theorem visited_shift {t t1 : Topo} {r : Option Nat} (rs : List (Option Nat)) (j : Nat)
    (h : t1.visited = t.visited ++ r.toList) :
    t.visited ++ ((r :: rs).take (j + 1)).filterMap id =
      t1.visited ++ (rs.take j).filterMap id := by
  rw [List.take_succ_cons, filterMap_id_cons, h, List.append_assoc]

theorem next_visited_nodup {g : SGraph N E} {scan : List Nat} {fuel : Nat} {t t' : Topo}
    {r : Option Nat} (inv : TopoInv t) (hnd : t.visited.Nodup)
    (h : next g scan fuel t = some (r, t')) : t'.visited.Nodup := by
  have hrun := next_run h
  rw [hrun.visited_eq]
  cases r with
  | none => simpa using hnd
  | some n =>
    have := hrun.emit_fresh inv
    rw [List.nodup_append]
    refine ⟨hnd, by simp, ?_⟩
    intro a ha b hb
    simp only [Option.toList_some, List.mem_singleton] at hb
    subst hb
    exact fun e => this (e ▸ ha)

/-- Each node is emitted at most once, whatever the graphs and scan orders. -/
theorem runHist_once {fuel : Nat} :
    ∀ {hist : List (SGraph N E × List Nat)} {t t' : Topo} {outs : List (Option Nat)},
      TopoInv t → t.visited.Nodup → runHist fuel t hist = some (outs, t') →
      TopoInv t' ∧ t'.visited.Nodup ∧ t'.visited = t.visited ++ outs.filterMap id
  | [], t, t', outs, inv, hnd, h => by
    simp only [runHist, Option.some.injEq, Prod.mk.injEq] at h
    obtain ⟨rfl, rfl⟩ := h
    exact ⟨inv, hnd, by simp⟩
  | (g, scan) :: rest, t, t', outs, inv, hnd, h => by
    obtain ⟨r, t1, rs, hn, hr, rfl⟩ := runHist_cons.1 h
    obtain ⟨i1, i2, i3⟩ := runHist_once ((next_run hn).inv inv) (next_visited_nodup inv hnd hn) hr
    refine ⟨i1, i2, ?_⟩
    rw [i3, (next_run hn).visited_eq, filterMap_id_cons, List.append_assoc]

/-- A node emitted by the `i`-th call is live in that call's graph and all its predecessors
there are visited before that call. -/
theorem runHist_after_preds {fuel : Nat} :
    ∀ {hist : List (SGraph N E × List Nat)} {t t' : Topo} {outs : List (Option Nat)},
      runHist fuel t hist = some (outs, t') →
      ∀ (i : Nat) (g : SGraph N E) (scan : List Nat) (n : Nat),
        hist[i]? = some (g, scan) → outs[i]? = some (some n) →
        g.containsNode n = true ∧
          ∀ p ∈ g.preds n, p ∈ t.visited ++ (outs.take i).filterMap id
  | [], _, _, _, _, i, g, scan, n, hi, _ => by simp at hi
  | (g0, scan0) :: rest, t, t', outs, h, i, g, scan, n, hi, ho => by
    obtain ⟨r, t1, rs, hn, hr, rfl⟩ := runHist_cons.1 h
    cases i with
    | zero =>
      simp only [List.getElem?_cons_zero, Option.some.injEq, Prod.mk.injEq] at hi ho
      obtain ⟨rfl, rfl⟩ := hi
      subst ho
      obtain ⟨hl, hrdy, _, _⟩ := (next_run hn).emit_spec
      exact ⟨hl, by simpa using isReady_iff.1 hrdy⟩
    | succ j =>
      rw [List.getElem?_cons_succ] at hi ho
      rw [visited_shift rs j (next_run hn).visited_eq]
      exact runHist_after_preds hr j g scan n hi ho

/-- When the `i`-th call reports exhaustion, every live node of its graph has been emitted,
provided the calls up to the `i`-th see admissible states. -/
theorem runHist_exhaustive {fuel root : Nat} :
    ∀ {hist : List (SGraph N E × List Nat)} {t t' : Topo} {outs : List (Option Nat)},
      TopoInv t → RootInv root t → runHist fuel t hist = some (outs, t') →
      ∀ (i : Nat),
        (∀ j, j ≤ i → ∀ (g : SGraph N E) (scan : List Nat), hist[j]? = some (g, scan) →
          g.WF ∧ AdmState g root (t.visited ++ (outs.take j).filterMap id) ∧
          (∀ v ∈ t.visited ++ (outs.take j).filterMap id, v ∈ scan) ∧
          g.containsNode root = true) →
        ∀ (g : SGraph N E) (scan : List Nat), hist[i]? = some (g, scan) → outs[i]? = some none →
          ∀ n, g.containsNode n = true → n ∈ t.visited ++ (outs.take i).filterMap id
  | [], _, _, _, _, _, _, i, _, g, scan, hi, _ => by simp at hi
  | (g0, scan0) :: rest, t, t', outs, inv, ri, h, i, H, g, scan, hi, ho => by
    obtain ⟨r, t1, rs, hn, hr, rfl⟩ := runHist_cons.1 h
    have hrun := next_run hn
    obtain ⟨wf0, adm0, hscan0, hlive0⟩ := H 0 (Nat.zero_le _) g0 scan0 rfl
    simp only [List.take_zero, List.filterMap_nil, List.append_nil] at adm0 hscan0
    cases i with
    | zero =>
      simp only [List.getElem?_cons_zero, Option.some.injEq, Prod.mk.injEq] at hi ho
      obtain ⟨rfl, rfl⟩ := hi
      subst ho
      simpa using hrun.exhaustive wf0 adm0 hscan0 ri hlive0 inv
    | succ j =>
      rw [List.getElem?_cons_succ] at hi ho
      rw [visited_shift rs j hrun.visited_eq]
      have ri1 : RootInv root t1 :=
        hrun.rootInv hlive0 (fun hnv => (adm0.source root hlive0 hnv).1 rfl) ri
      refine runHist_exhaustive (hrun.inv inv) ri1 hr j ?_ g scan hi ho
      intro k hk g' scan' hg'
      have := H (k + 1) (by omega) g' scan' (by rw [List.getElem?_cons_succ]; exact hg')
      rw [visited_shift rs k hrun.visited_eq] at this
      exact this

/-- The root invariant along a history whose calls all see a live root that has no predecessors
while it is unvisited. -/
theorem runHist_rootInv {fuel root : Nat} :
    ∀ {hist : List (SGraph N E × List Nat)} {t t' : Topo} {outs : List (Option Nat)},
      RootInv root t → runHist fuel t hist = some (outs, t') →
      (∀ j (g : SGraph N E) (scan : List Nat), hist[j]? = some (g, scan) →
        g.containsNode root = true ∧
        (root ∉ t.visited ++ (outs.take j).filterMap id → g.preds root = [])) →
      RootInv root t'
  | [], t, t', outs, ri, h, _ => by
    simp only [runHist, Option.some.injEq, Prod.mk.injEq] at h
    exact h.2 ▸ ri
  | (g0, scan0) :: rest, t, t', outs, ri, h, H => by
    obtain ⟨r, t1, rs, hn, hr, rfl⟩ := runHist_cons.1 h
    have hrun := next_run hn
    obtain ⟨hl0, hs0⟩ := H 0 g0 scan0 rfl
    simp only [List.take_zero, List.filterMap_nil, List.append_nil] at hs0
    refine runHist_rootInv (hrun.rootInv hl0 hs0 ri) hr ?_
    intro k g' scan' hg'
    have := H (k + 1) g' scan' (by rw [List.getElem?_cons_succ]; exact hg')
    rw [visited_shift rs k hrun.visited_eq] at this
    exact this

end Topo

/-! ### Soundness of the Boolean checkers -/

/-- Pigeonhole: a duplicate-free list included in a list that is not longer covers it. -/
theorem subset_of_nodup_of_length_le {α} [DecidableEq α] :
    ∀ (l1 l2 : List α), l1.Nodup → (∀ x ∈ l1, x ∈ l2) → l2.length ≤ l1.length →
      ∀ x ∈ l2, x ∈ l1
  | [], l2, _, _, hlen, x, hx => by
    have : l2 = [] := List.eq_nil_of_length_eq_zero (by simpa using hlen)
    rw [this] at hx; cases hx
  | a :: l1, l2, hnd, hsub, hlen, x, hx => by
    rw [List.nodup_cons] at hnd
    have ha : a ∈ l2 := hsub a List.mem_cons_self
    have hlen' : (l2.erase a).length ≤ l1.length := by
      rw [List.length_erase_of_mem ha]
      simp only [List.length_cons] at hlen
      omega
    have hsub' : ∀ y ∈ l1, y ∈ l2.erase a := fun y hy =>
      (List.mem_erase_of_ne (fun (e : y = a) => hnd.1 (e ▸ hy))).2 (hsub y (List.mem_cons_of_mem _ hy))
    by_cases hxa : x = a
    · exact hxa ▸ List.mem_cons_self
    · exact List.mem_cons_of_mem _
        (subset_of_nodup_of_length_le l1 (l2.erase a) hnd.2 hsub' hlen' x
          ((List.mem_erase_of_ne hxa).2 hx))

namespace SGraph

/-- Invariant of the Kahn loop: the processed nodes are live, listed once, closed under
predecessors, and ranked compatibly with the edges. -/
def KahnInv (g : SGraph N E) (done : List Nat) : Prop :=
  done.Nodup ∧ (∀ n ∈ done, n ∈ g.nodeIndices) ∧
    ∃ (rank : Nat → Nat) (k : Nat), (∀ n ∈ done, rank n < k) ∧
      ∀ n ∈ done, ∀ p ∈ g.preds n, p ∈ done ∧ rank p < rank n

theorem kahnInv_nil (g : SGraph N E) : KahnInv g [] :=
  ⟨List.nodup_nil, by simp, fun _ => 0, 0, by simp, by simp⟩

theorem kahnInv_step {g : SGraph N E} {done : List Nat} (inv : KahnInv g done) :
    KahnInv g (done ++ g.nodeIndices.filter fun n =>
      !done.contains n && (g.preds n).all done.contains) := by
  obtain ⟨hnd, hlive, rank, k, hk, hrank⟩ := inv
  have hnext : ∀ n, n ∈ (g.nodeIndices.filter fun n =>
      !done.contains n && (g.preds n).all done.contains) ↔
      n ∈ g.nodeIndices ∧ n ∉ done ∧ ∀ p ∈ g.preds n, p ∈ done := by
    intro n
    simp [List.mem_filter, List.all_eq_true]
  refine ⟨?_, ?_, fun n => if n ∈ done then rank n else k, k + 1, ?_, ?_⟩
  · rw [List.nodup_append]
    refine ⟨hnd, (nodup_nodeIndices g).sublist List.filter_sublist, ?_⟩
    intro a ha b hb e
    exact ((hnext b).1 hb).2.1 (e ▸ ha)
  · intro n hn
    rcases List.mem_append.1 hn with hn | hn
    · exact hlive n hn
    · exact ((hnext n).1 hn).1
  · intro n _
    by_cases h : n ∈ done
    · simp only [if_pos h]; exact Nat.lt_succ_of_lt (hk n h)
    · simp only [if_neg h]; exact Nat.lt_succ_self k
  · intro n hn p hp
    by_cases h : n ∈ done
    · obtain ⟨hpd, hlt⟩ := hrank n h p hp
      exact ⟨List.mem_append_left _ hpd, by simp only [if_pos hpd, if_pos h]; exact hlt⟩
    · have hn' : n ∈ _ := (List.mem_append.1 hn).resolve_left h
      have hpd := ((hnext n).1 hn').2.2 p hp
      exact ⟨List.mem_append_left _ hpd, by simp only [if_pos hpd, if_neg h]; exact hk p hpd⟩

theorem isAcyclic_go_sound (g : SGraph N E) :
    ∀ (fuel : Nat) (done : List Nat), KahnInv g done →
      isAcyclic.go g g.nodeIndices fuel done = true →
      ∃ done', KahnInv g done' ∧ done'.length = g.nodeIndices.length
  | 0, done, inv, h => ⟨done, inv, by simpa [isAcyclic.go] using h⟩
  | f + 1, done, inv, h => by
    rw [isAcyclic.go] at h
    split at h
    · exact ⟨done, inv, by simpa using h⟩
    · exact isAcyclic_go_sound g f _ (kahnInv_step inv) h

/-- The Kahn test is sound (no well-formedness needed: vacant nodes have no predecessors). -/
theorem isAcyclic_sound {g : SGraph N E} (h : g.isAcyclic = true) : g.Acyclic := by
  obtain ⟨done, ⟨hnd, hlive, rank, k, _, hrank⟩, hlen⟩ :=
    isAcyclic_go_sound g _ [] (kahnInv_nil g) h
  have hall := subset_of_nodup_of_length_le done g.nodeIndices hnd hlive (by omega)
  refine ⟨rank, fun n p hp => ?_⟩
  exact (hrank n (hall n (mem_nodeIndices.2 (live_of_mem_preds hp))) p hp).2

end SGraph

theorem admState_sound {g : SGraph N E} {root : Nat} {visited : List Nat}
    (h : admState g root visited = true) : AdmState g root visited := by
  simp only [admState, Bool.and_eq_true, List.all_eq_true] at h
  obtain ⟨⟨hac, hsrc⟩, hcl⟩ := h
  refine ⟨SGraph.isAcyclic_sound hac, ?_, ?_⟩
  · intro n hl hnv
    have := hsrc n (SGraph.mem_nodeIndices.2 hl)
    simp only [Bool.or_eq_true, List.contains_iff_mem, hnv, false_or] at this
    constructor
    · intro e; rw [if_pos e] at this; exact List.isEmpty_iff.1 this
    · intro e; rw [if_neg e] at this
      intro hp; simp [hp] at this
  · intro n hl hv p hp
    have := hcl n (SGraph.mem_nodeIndices.2 hl)
    simp only [Bool.or_eq_true, Bool.not_eq_true', List.all_eq_true,
      List.contains_iff_mem] at this
    rcases this with h1 | h2
    · have : visited.contains n = true := List.contains_iff_mem.2 hv
      rw [h1] at this; cases this
    · exact h2 p hp

/-! ### The graph operations preserve `SGraph.WF` -/

theorem join_getElem?_set {α} (l : List (Option α)) (i j : Nat) (x : Option α) :
    ((l.set i x)[j]?).join = if i = j ∧ i < l.length then x else (l[j]?).join := by
  rw [List.getElem?_set]
  by_cases h : i = j
  · subst h
    by_cases h2 : i < l.length
    · simp [h2]
    · simp [h2]
  · simp [h]

theorem join_getElem?_concat {α} (l : List (Option α)) (j : Nat) (x : Option α) :
    ((l ++ [x])[j]?).join = if j = l.length then x else (l[j]?).join := by
  rw [List.getElem?_append]
  by_cases h : j < l.length
  · simp [h, Nat.ne_of_lt h]
  · by_cases h2 : j = l.length
    · simp [h2]
    · have : j - l.length ≠ 0 := by omega
      have h3 : l.length ≤ j := Nat.le_of_not_lt h
      simp [h, h2]
      cases hj : j - l.length with
      | zero => omega
      | succ k => simp

theorem join_getElem?_lt {α} {l : List (Option α)} {j : Nat} {x : α} (h : (l[j]?).join = some x) :
    j < l.length := by
  cases hj : l[j]? with
  | none => rw [hj] at h; cases h
  | some _ => exact (List.getElem?_eq_some_iff.1 hj).1

namespace SGraph

theorem node?_modifyNode (g : SGraph N E) (i : Nat) (f : GNode N → GNode N) (j : Nat) :
    (g.modifyNode i f).node? j = if i = j then (g.node? j).map f else g.node? j := by
  unfold modifyNode node?
  simp only [List.getElem?_modify]
  by_cases h : i = j
  · simp [h, Option.join_map_eq_map_join]
  · simp [h]

@[simp] theorem edge?_modifyNode (g : SGraph N E) (i : Nat) (f : GNode N → GNode N) (e : Nat) :
    (g.modifyNode i f).edge? e = g.edge? e := rfl

theorem WF.congr {g g' : SGraph N E} (wf : g.WF) (hn : ∀ j, g'.node? j = g.node? j)
    (he : ∀ e, g'.edge? e = g.edge? e) : g'.WF where
  edge_src e ed h := by rw [he] at h; rw [hn]; exact wf.edge_src e ed h
  edge_dst e ed h := by rw [he] at h; rw [hn]; exact wf.edge_dst e ed h
  out_edge a nd h e hm := by rw [hn] at h; rw [he]; exact wf.out_edge a nd h e hm
  inc_edge a nd h e hm := by rw [hn] at h; rw [he]; exact wf.inc_edge a nd h e hm
  out_nodup a nd h := by rw [hn] at h; exact wf.out_nodup a nd h
  inc_nodup a nd h := by rw [hn] at h; exact wf.inc_nodup a nd h

theorem wf_empty : (SGraph.empty : SGraph N E).WF := by
  constructor <;> intros <;> simp_all [SGraph.empty, node?, edge?]

/-- Inserting a fresh node without incident edges. -/
theorem WF.insert_node {g g' : SGraph N E} (wf : g.WF) {i : Nat} {w : N}
    (hi : g.node? i = none)
    (hn : ∀ j, g'.node? j = if j = i then some ⟨w, [], []⟩ else g.node? j)
    (he : ∀ e, g'.edge? e = g.edge? e) : g'.WF where
  edge_src e ed h := by
    rw [he] at h
    obtain ⟨nd, hnd, hm⟩ := wf.edge_src e ed h
    have : ed.src ≠ i := fun e => by rw [e, hi] at hnd; cases hnd
    exact ⟨nd, by rw [hn, if_neg this]; exact hnd, hm⟩
  edge_dst e ed h := by
    rw [he] at h
    obtain ⟨nd, hnd, hm⟩ := wf.edge_dst e ed h
    have : ed.dst ≠ i := fun e => by rw [e, hi] at hnd; cases hnd
    exact ⟨nd, by rw [hn, if_neg this]; exact hnd, hm⟩
  out_edge a nd h e hm := by
    rw [hn] at h
    split at h
    · cases h; cases hm
    · rw [he]; exact wf.out_edge a nd h e hm
  inc_edge a nd h e hm := by
    rw [hn] at h
    split at h
    · cases h; cases hm
    · rw [he]; exact wf.inc_edge a nd h e hm
  out_nodup a nd h := by
    rw [hn] at h
    split at h
    · cases h; exact List.nodup_nil
    · exact wf.out_nodup a nd h
  inc_nodup a nd h := by
    rw [hn] at h
    split at h
    · cases h; exact List.nodup_nil
    · exact wf.inc_nodup a nd h

/-- `add_node` preserves well-formedness provided the slot it reuses (if any) is vacant. -/
theorem wf_addNode {g : SGraph N E} (wf : g.WF) (w : N)
    (hfree : ∀ i, g.freeNodes.head? = some i → g.node? i = none) : (g.addNode w).1.WF := by
  unfold addNode
  cases hf : g.freeNodes with
  | nil =>
    refine wf.insert_node (i := g.nodes.length) (w := w) ?_ ?_ (fun _ => rfl)
    · simp [node?]
    · intro j
      exact join_getElem?_concat g.nodes j _
  | cons i rest =>
    have hi := hfree i (by rw [hf]; rfl)
    by_cases hlt : i < g.nodes.length
    · refine wf.insert_node (i := i) (w := w) hi ?_ (fun _ => rfl)
      intro j
      show ((g.nodes.set i _)[j]?).join = _
      rw [join_getElem?_set]
      by_cases hij : j = i
      · simp [hij, hlt]
      · simp [hij, Ne.symm hij]; rfl
    · refine wf.congr ?_ (fun _ => rfl)
      intro j
      show ((g.nodes.set i _)[j]?).join = _
      rw [join_getElem?_set]
      simp [hlt]; rfl

/-- Inserting a fresh edge `a → b` at the head of `a`'s out-list and of `b`'s in-list. -/
theorem WF.insert_edge {g g' : SGraph N E} (wf : g.WF) {e a b : Nat} {w : E}
    (hev : g.edge? e = none) (ha : g.containsNode a = true) (hb : g.containsNode b = true)
    (he : ∀ e', g'.edge? e' = if e' = e then some ⟨a, b, w⟩ else g.edge? e')
    (hn : ∀ j, g'.node? j = (g.node? j).map fun nd =>
      ⟨nd.w, if j = a then e :: nd.out else nd.out, if j = b then e :: nd.inc else nd.inc⟩) :
    g'.WF := by
  have hout : ∀ j nd, g.node? j = some nd → e ∉ nd.out := fun j nd h hm => by
    obtain ⟨ed, hed, _⟩ := wf.out_edge j nd h e hm
    rw [hev] at hed; cases hed
  have hinc : ∀ j nd, g.node? j = some nd → e ∉ nd.inc := fun j nd h hm => by
    obtain ⟨ed, hed, _⟩ := wf.inc_edge j nd h e hm
    rw [hev] at hed; cases hed
  constructor
  · intro e' ed h
    rw [he] at h
    split at h
    · cases h
      obtain ⟨nd, hnd⟩ := containsNode_iff.1 ha
      exact ⟨_, by rw [hn, hnd]; rfl, by simp [*]⟩
    · obtain ⟨nd, hnd, hm⟩ := wf.edge_src e' ed h
      refine ⟨_, by rw [hn, hnd]; rfl, ?_⟩
      show e' ∈ if ed.src = a then e :: nd.out else nd.out
      split
      · exact List.mem_cons_of_mem _ hm
      · exact hm
  · intro e' ed h
    rw [he] at h
    split at h
    · cases h
      obtain ⟨nd, hnd⟩ := containsNode_iff.1 hb
      exact ⟨_, by rw [hn, hnd]; rfl, by simp [*]⟩
    · obtain ⟨nd, hnd, hm⟩ := wf.edge_dst e' ed h
      refine ⟨_, by rw [hn, hnd]; rfl, ?_⟩
      show e' ∈ if ed.dst = b then e :: nd.inc else nd.inc
      split
      · exact List.mem_cons_of_mem _ hm
      · exact hm
  · intro j nd' h e' hm
    rw [hn] at h
    cases hj : g.node? j with
    | none => rw [hj] at h; cases h
    | some nd =>
      rw [hj] at h
      cases h
      simp only at hm
      rw [he]
      by_cases hja : j = a
      · rw [if_pos hja, List.mem_cons] at hm
        rcases hm with rfl | hm
        · exact ⟨_, by rw [if_pos rfl], hja.symm⟩
        · rw [if_neg (fun (hx : e' = e) => hout j nd hj (hx ▸ hm))]
          exact wf.out_edge j nd hj e' hm
      · rw [if_neg hja] at hm
        rw [if_neg (fun (hx : e' = e) => hout j nd hj (hx ▸ hm))]
        exact wf.out_edge j nd hj e' hm
  · intro j nd' h e' hm
    rw [hn] at h
    cases hj : g.node? j with
    | none => rw [hj] at h; cases h
    | some nd =>
      rw [hj] at h
      cases h
      simp only at hm
      rw [he]
      by_cases hjb : j = b
      · rw [if_pos hjb, List.mem_cons] at hm
        rcases hm with rfl | hm
        · exact ⟨_, by rw [if_pos rfl], hjb.symm⟩
        · rw [if_neg (fun (hx : e' = e) => hinc j nd hj (hx ▸ hm))]
          exact wf.inc_edge j nd hj e' hm
      · rw [if_neg hjb] at hm
        rw [if_neg (fun (hx : e' = e) => hinc j nd hj (hx ▸ hm))]
        exact wf.inc_edge j nd hj e' hm
  · intro j nd' h
    rw [hn] at h
    cases hj : g.node? j with
    | none => rw [hj] at h; cases h
    | some nd =>
      rw [hj] at h
      cases h
      show (if j = a then e :: nd.out else nd.out).Nodup
      split
      · exact List.nodup_cons.2 ⟨hout j nd hj, wf.out_nodup j nd hj⟩
      · exact wf.out_nodup j nd hj
  · intro j nd' h
    rw [hn] at h
    cases hj : g.node? j with
    | none => rw [hj] at h; cases h
    | some nd =>
      rw [hj] at h
      cases h
      show (if j = b then e :: nd.inc else nd.inc).Nodup
      split
      · exact List.nodup_cons.2 ⟨hinc j nd hj, wf.inc_nodup j nd hj⟩
      · exact wf.inc_nodup j nd hj

/-- The shape of a successful `add_edge`. -/
theorem addEdge_ok {g g' : SGraph N E} {a b e : Nat} {w : E}
    (h : g.addEdge a b w = .ok (g', e)) :
    g.containsNode a = true ∧ g.containsNode b = true ∧
      ∃ edges' free',
        ((g.freeEdges = e :: free' ∧ edges' = g.edges.set e (some ⟨a, b, w⟩)) ∨
          (g.freeEdges = [] ∧ free' = [] ∧ edges' = g.edges ++ [some ⟨a, b, w⟩] ∧
            e = g.edges.length)) ∧
        g' = (({ g with edges := edges', freeEdges := free' } : SGraph N E).modifyNode a
            fun nd => { nd with out := e :: nd.out }).modifyNode b
            fun nd => { nd with inc := e :: nd.inc } := by
  unfold addEdge at h
  split at h
  · cases h
  · rename_i hc
    simp only [Bool.not_eq_true, Bool.not_eq_false', Bool.and_eq_true] at hc
    refine ⟨hc.1, hc.2, ?_⟩
    cases hf : g.freeEdges with
    | nil =>
      rw [hf] at h
      simp only [Except.ok.injEq, Prod.mk.injEq] at h
      obtain ⟨rfl, rfl⟩ := h
      exact ⟨_, _, .inr ⟨rfl, rfl, rfl, rfl⟩, rfl⟩
    | cons e0 rest =>
      rw [hf] at h
      simp only [Except.ok.injEq, Prod.mk.injEq] at h
      obtain ⟨rfl, rfl⟩ := h
      exact ⟨_, _, .inl ⟨rfl, rfl⟩, rfl⟩

/-- `add_edge` preserves well-formedness provided the edge id it reuses (if any) is a vacant
slot of the edge table. -/
theorem wf_addEdge {g g' : SGraph N E} (wf : g.WF) {a b e : Nat} {w : E}
    (hfree : ∀ x, g.freeEdges.head? = some x → x < g.edges.length ∧ g.edge? x = none)
    (h : g.addEdge a b w = .ok (g', e)) : g'.WF := by
  obtain ⟨ha, hb, edges', free', hcase, rfl⟩ := addEdge_ok h
  have hev : g.edge? e = none ∧ ∀ e', (edges'[e']?).join =
      if e' = e then some ⟨a, b, w⟩ else g.edge? e' := by
    rcases hcase with ⟨hf, rfl⟩ | ⟨_, _, rfl, rfl⟩
    · obtain ⟨hlt, hv⟩ := hfree e (by rw [hf]; rfl)
      refine ⟨hv, fun e' => ?_⟩
      rw [join_getElem?_set]
      by_cases he : e' = e
      · simp [he, hlt]
      · simp [he, Ne.symm he]; rfl
    · exact ⟨by simp [edge?], fun e' => join_getElem?_concat g.edges e' _⟩
  refine wf.insert_edge (e := e) (a := a) (b := b) (w := w) hev.1 ha hb hev.2 ?_
  intro j
  rw [node?_modifyNode, node?_modifyNode]
  show (if b = j then Option.map _ (if a = j then Option.map _ (g.node? j) else g.node? j)
    else if a = j then Option.map _ (g.node? j) else g.node? j) = _
  cases g.node? j with
  | none => simp
  | some nd =>
    by_cases h1 : a = j <;> by_cases h2 : b = j <;> simp [h1, h2, eq_comm]

/-! #### `remove_edge` -/

theorem removeEdge_some {g g' : SGraph N E} {e : Nat} {ed : GEdge E}
    (h : g.removeEdge e = some (g', ed)) :
    g.edge? e = some ed ∧
      g' = { ((g.modifyNode ed.src fun nd => { nd with out := nd.out.erase e }).modifyNode ed.dst
              fun nd => { nd with inc := nd.inc.erase e }) with
            edges := g.edges.set e none, freeEdges := e :: g.freeEdges } := by
  unfold removeEdge at h
  split at h
  · cases h
  · rename_i ed0 hed
    cases h
    exact ⟨hed, rfl⟩

theorem removeEdge_none {g : SGraph N E} {e : Nat} (h : g.removeEdge e = none) :
    g.edge? e = none := by
  unfold removeEdge at h
  split at h
  · assumption
  · cases h

theorem removeEdge_edge? {g g' : SGraph N E} {e : Nat} {ed : GEdge E}
    (h : g.removeEdge e = some (g', ed)) (x : Nat) :
    g'.edge? x = if x = e then none else g.edge? x := by
  obtain ⟨hed, rfl⟩ := removeEdge_some h
  show ((g.edges.set e none)[x]?).join = _
  rw [join_getElem?_set]
  have hlt : e < g.edges.length := join_getElem?_lt hed
  by_cases hx : x = e
  · simp [hx, hlt]
  · simp [hx, Ne.symm hx]; rfl

theorem removeEdge_node? {g g' : SGraph N E} {e : Nat} {ed : GEdge E}
    (h : g.removeEdge e = some (g', ed)) (j : Nat) :
    g'.node? j = (g.node? j).map fun nd =>
      ⟨nd.w, if j = ed.src then nd.out.erase e else nd.out,
        if j = ed.dst then nd.inc.erase e else nd.inc⟩ := by
  obtain ⟨hed, rfl⟩ := removeEdge_some h
  show ((g.modifyNode ed.src _).modifyNode ed.dst _).node? j = _
  rw [node?_modifyNode, node?_modifyNode]
  cases g.node? j with
  | none => simp
  | some nd =>
    have e1 : (j = ed.src) = (ed.src = j) := propext eq_comm
    have e2 : (j = ed.dst) = (ed.dst = j) := propext eq_comm
    simp only [e1, e2]
    by_cases h1 : ed.src = j <;> by_cases h2 : ed.dst = j <;> simp [h1, h2]

theorem removeEdge_shape {g g' : SGraph N E} {e : Nat} {ed : GEdge E}
    (h : g.removeEdge e = some (g', ed)) :
    g'.nodes.length = g.nodes.length ∧ g'.edges.length = g.edges.length ∧
      g'.freeNodes = g.freeNodes ∧ g'.freeEdges = e :: g.freeEdges := by
  obtain ⟨_, rfl⟩ := removeEdge_some h
  refine ⟨?_, by simp, rfl, rfl⟩
  simp [modifyNode]

/-- Deleting a live edge from the table and from the two adjacency lists. -/
theorem WF.delete_edge {g g' : SGraph N E} (wf : g.WF) {e : Nat} {ed : GEdge E}
    (hed : g.edge? e = some ed)
    (he : ∀ x, g'.edge? x = if x = e then none else g.edge? x)
    (hn : ∀ j, g'.node? j = (g.node? j).map fun nd =>
      ⟨nd.w, if j = ed.src then nd.out.erase e else nd.out,
        if j = ed.dst then nd.inc.erase e else nd.inc⟩) : g'.WF := by
  constructor
  · intro x ed' h
    rw [he] at h
    split at h
    · cases h
    · rename_i hx
      obtain ⟨nd, hnd, hm⟩ := wf.edge_src x ed' h
      refine ⟨_, by rw [hn, hnd]; rfl, ?_⟩
      show x ∈ if ed'.src = ed.src then nd.out.erase e else nd.out
      split
      · exact (List.mem_erase_of_ne hx).2 hm
      · exact hm
  · intro x ed' h
    rw [he] at h
    split at h
    · cases h
    · rename_i hx
      obtain ⟨nd, hnd, hm⟩ := wf.edge_dst x ed' h
      refine ⟨_, by rw [hn, hnd]; rfl, ?_⟩
      show x ∈ if ed'.dst = ed.dst then nd.inc.erase e else nd.inc
      split
      · exact (List.mem_erase_of_ne hx).2 hm
      · exact hm
  · intro j nd' h x hm
    rw [hn] at h
    cases hj : g.node? j with
    | none => rw [hj] at h; cases h
    | some nd =>
      rw [hj] at h
      cases h
      simp only at hm
      have hx : x ≠ e ∧ x ∈ nd.out := by
        by_cases hjs : j = ed.src
        · rw [if_pos hjs] at hm
          exact (wf.out_nodup j nd hj).mem_erase_iff.1 hm
        · rw [if_neg hjs] at hm
          refine ⟨fun hxe => ?_, hm⟩
          obtain ⟨ed', hed', hs⟩ := wf.out_edge j nd hj x hm
          rw [hxe, hed] at hed'; cases hed'
          exact hjs hs.symm
      rw [he, if_neg hx.1]
      exact wf.out_edge j nd hj x hx.2
  · intro j nd' h x hm
    rw [hn] at h
    cases hj : g.node? j with
    | none => rw [hj] at h; cases h
    | some nd =>
      rw [hj] at h
      cases h
      simp only at hm
      have hx : x ≠ e ∧ x ∈ nd.inc := by
        by_cases hjs : j = ed.dst
        · rw [if_pos hjs] at hm
          exact (wf.inc_nodup j nd hj).mem_erase_iff.1 hm
        · rw [if_neg hjs] at hm
          refine ⟨fun hxe => ?_, hm⟩
          obtain ⟨ed', hed', hs⟩ := wf.inc_edge j nd hj x hm
          rw [hxe, hed] at hed'; cases hed'
          exact hjs hs.symm
      rw [he, if_neg hx.1]
      exact wf.inc_edge j nd hj x hx.2
  · intro j nd' h
    rw [hn] at h
    cases hj : g.node? j with
    | none => rw [hj] at h; cases h
    | some nd =>
      rw [hj] at h
      cases h
      show (if j = ed.src then nd.out.erase e else nd.out).Nodup
      split
      · exact (wf.out_nodup j nd hj).erase e
      · exact wf.out_nodup j nd hj
  · intro j nd' h
    rw [hn] at h
    cases hj : g.node? j with
    | none => rw [hj] at h; cases h
    | some nd =>
      rw [hj] at h
      cases h
      show (if j = ed.dst then nd.inc.erase e else nd.inc).Nodup
      split
      · exact (wf.inc_nodup j nd hj).erase e
      · exact wf.inc_nodup j nd hj

/-- `remove_edge` preserves well-formedness. -/
theorem wf_removeEdge {g g' : SGraph N E} (wf : g.WF) {e : Nat} {ed : GEdge E}
    (h : g.removeEdge e = some (g', ed)) : g'.WF :=
  wf.delete_edge (removeEdge_some h).1 (removeEdge_edge? h) (removeEdge_node? h)

/-! #### `remove_node` -/

/-- `g'` is `g` with some edges removed: dead edges stay dead, the same node slots are
occupied, adjacency lists only shrink. -/
structure Shrinks (g g' : SGraph N E) : Prop where
  edge_none : ∀ x, g.edge? x = none → g'.edge? x = none
  node_some : ∀ j nd, g.node? j = some nd → ∃ nd', g'.node? j = some nd'
  node_sub : ∀ j nd', g'.node? j = some nd' →
    ∃ nd, g.node? j = some nd ∧ (∀ x ∈ nd'.out, x ∈ nd.out) ∧ (∀ x ∈ nd'.inc, x ∈ nd.inc)
  nodes_length : g'.nodes.length = g.nodes.length
  freeNodes : g'.freeNodes = g.freeNodes

theorem Shrinks.refl (g : SGraph N E) : Shrinks g g :=
  ⟨fun _ h => h, fun _ nd h => ⟨nd, h⟩, fun _ nd h => ⟨nd, h, fun _ h => h, fun _ h => h⟩,
    rfl, rfl⟩

theorem Shrinks.trans {g g' g'' : SGraph N E} (h1 : Shrinks g g') (h2 : Shrinks g' g'') :
    Shrinks g g'' where
  edge_none x h := h2.edge_none x (h1.edge_none x h)
  node_some j nd h := by
    obtain ⟨nd', h'⟩ := h1.node_some j nd h
    exact h2.node_some j nd' h'
  node_sub j nd'' h := by
    obtain ⟨nd', h', s1, s2⟩ := h2.node_sub j nd'' h
    obtain ⟨nd, h0, s3, s4⟩ := h1.node_sub j nd' h'
    exact ⟨nd, h0, fun x hx => s3 x (s1 x hx), fun x hx => s4 x (s2 x hx)⟩
  nodes_length := h2.nodes_length.trans h1.nodes_length
  freeNodes := h2.freeNodes.trans h1.freeNodes

theorem removeEdge_shrinks {g g' : SGraph N E} {e : Nat} {ed : GEdge E}
    (h : g.removeEdge e = some (g', ed)) : Shrinks g g' where
  edge_none x hx := by rw [removeEdge_edge? h, hx]; simp
  node_some j nd hj := by rw [removeEdge_node? h, hj]; exact ⟨_, rfl⟩
  node_sub j nd' hj := by
    rw [removeEdge_node? h] at hj
    cases hj0 : g.node? j with
    | none => rw [hj0] at hj; cases hj
    | some nd =>
      rw [hj0] at hj
      cases hj
      refine ⟨nd, rfl, fun x hx => ?_, fun x hx => ?_⟩
      · simp only at hx
        split at hx
        · exact List.mem_of_mem_erase hx
        · exact hx
      · simp only at hx
        split at hx
        · exact List.mem_of_mem_erase hx
        · exact hx
  nodes_length := (removeEdge_shape h).1
  freeNodes := (removeEdge_shape h).2.2.1

theorem removeEdges_shrinks : ∀ (l : List Nat) (g : SGraph N E), Shrinks g (g.removeEdges l)
  | [], g => Shrinks.refl g
  | e :: es, g => by
    rw [removeEdges]
    split
    · exact removeEdges_shrinks es g
    · rename_i g' ed h
      exact (removeEdge_shrinks h).trans (removeEdges_shrinks es g')

theorem wf_removeEdges : ∀ (l : List Nat) {g : SGraph N E}, g.WF → (g.removeEdges l).WF
  | [], _, wf => wf
  | e :: es, g, wf => by
    rw [removeEdges]
    split
    · exact wf_removeEdges es wf
    · rename_i g' ed h
      exact wf_removeEdges es (wf_removeEdge wf h)

theorem removeEdges_dead : ∀ (l : List Nat) (g : SGraph N E), ∀ x ∈ l,
    (g.removeEdges l).edge? x = none
  | [], _, _, hx => by cases hx
  | e :: es, g, x, hx => by
    rw [removeEdges]
    split
    · rename_i h
      rcases List.mem_cons.1 hx with rfl | hx
      · exact (removeEdges_shrinks es g).edge_none _ (removeEdge_none h)
      · exact removeEdges_dead es g x hx
    · rename_i g' ed h
      rcases List.mem_cons.1 hx with rfl | hx
      · exact (removeEdges_shrinks es g').edge_none _ (by rw [removeEdge_edge? h]; simp)
      · exact removeEdges_dead es g' x hx

/-- After removing all the edges of `l`, a node whose out-list (in-list) was included in `l` has
an empty one. -/
theorem removeEdges_out_nil {g : SGraph N E} (wf : g.WF) {l : List Nat} {a : Nat}
    {nd nd' : GNode N} (h : g.node? a = some nd) (hsub : ∀ x ∈ nd.out, x ∈ l)
    (h' : (g.removeEdges l).node? a = some nd') : nd'.out = [] := by
  rw [List.eq_nil_iff_forall_not_mem]
  intro x hx
  obtain ⟨nd0, h0, s1, _⟩ := (removeEdges_shrinks l g).node_sub a nd' h'
  rw [h] at h0; cases h0
  obtain ⟨ed, hed, _⟩ := (wf_removeEdges l wf).out_edge a nd' h' x hx
  rw [removeEdges_dead l g x (hsub x (s1 x hx))] at hed
  cases hed

theorem removeEdges_inc_nil {g : SGraph N E} (wf : g.WF) {l : List Nat} {a : Nat}
    {nd nd' : GNode N} (h : g.node? a = some nd) (hsub : ∀ x ∈ nd.inc, x ∈ l)
    (h' : (g.removeEdges l).node? a = some nd') : nd'.inc = [] := by
  rw [List.eq_nil_iff_forall_not_mem]
  intro x hx
  obtain ⟨nd0, h0, _, s2⟩ := (removeEdges_shrinks l g).node_sub a nd' h'
  rw [h] at h0; cases h0
  obtain ⟨ed, hed, _⟩ := (wf_removeEdges l wf).inc_edge a nd' h' x hx
  rw [removeEdges_dead l g x (hsub x (s2 x hx))] at hed
  cases hed

/-- Vacating the slot of a node without incident edges. -/
theorem WF.delete_node {g g' : SGraph N E} (wf : g.WF) {a : Nat} {nd : GNode N}
    (ha : g.node? a = some nd) (hout : nd.out = []) (hinc : nd.inc = [])
    (hn : ∀ j, g'.node? j = if j = a then none else g.node? j)
    (he : ∀ e, g'.edge? e = g.edge? e) : g'.WF where
  edge_src e ed h := by
    rw [he] at h
    obtain ⟨nd', hnd', hm⟩ := wf.edge_src e ed h
    have : ed.src ≠ a := fun hx => by
      rw [hx, ha] at hnd'; cases hnd'; rw [hout] at hm; cases hm
    exact ⟨nd', by rw [hn, if_neg this]; exact hnd', hm⟩
  edge_dst e ed h := by
    rw [he] at h
    obtain ⟨nd', hnd', hm⟩ := wf.edge_dst e ed h
    have : ed.dst ≠ a := fun hx => by
      rw [hx, ha] at hnd'; cases hnd'; rw [hinc] at hm; cases hm
    exact ⟨nd', by rw [hn, if_neg this]; exact hnd', hm⟩
  out_edge j nd' h e hm := by
    rw [hn] at h
    split at h
    · cases h
    · rw [he]; exact wf.out_edge j nd' h e hm
  inc_edge j nd' h e hm := by
    rw [hn] at h
    split at h
    · cases h
    · rw [he]; exact wf.inc_edge j nd' h e hm
  out_nodup j nd' h := by
    rw [hn] at h
    split at h
    · cases h
    · exact wf.out_nodup j nd' h
  inc_nodup j nd' h := by
    rw [hn] at h
    split at h
    · cases h
    · exact wf.inc_nodup j nd' h

theorem removeNode_none {g : SGraph N E} {a : Nat} (h : g.node? a = none) :
    g.removeNode a = g := by
  simp only [removeNode, h]

theorem removeNode_some {g : SGraph N E} {a : Nat} {nd nd1 : GNode N} (h : g.node? a = some nd)
    (h1 : (g.removeEdges nd.out).node? a = some nd1) :
    g.removeNode a =
      { (g.removeEdges nd.out).removeEdges nd1.inc with
        nodes := ((g.removeEdges nd.out).removeEdges nd1.inc).nodes.set a none,
        freeNodes := a :: ((g.removeEdges nd.out).removeEdges nd1.inc).freeNodes } := by
  simp only [removeNode, h, h1]

/-- `remove_node` preserves well-formedness. -/
theorem wf_removeNode {g : SGraph N E} (wf : g.WF) (a : Nat) : (g.removeNode a).WF := by
  cases h : g.node? a with
  | none => rw [removeNode_none h]; exact wf
  | some nd =>
    obtain ⟨nd1, h1⟩ := (removeEdges_shrinks nd.out g).node_some a nd h
    obtain ⟨nd2, h2⟩ := (removeEdges_shrinks nd1.inc (g.removeEdges nd.out)).node_some a nd1 h1
    rw [removeNode_some h h1]
    have wf1 := wf_removeEdges nd.out wf
    have wf2 := wf_removeEdges nd1.inc wf1
    have hout1 : nd1.out = [] := removeEdges_out_nil wf h (fun _ hx => hx) h1
    have hinc2 : nd2.inc = [] := removeEdges_inc_nil wf1 h1 (fun _ hx => hx) h2
    have hout2 : nd2.out = [] := by
      obtain ⟨nd0, h0, s1, _⟩ :=
        (removeEdges_shrinks nd1.inc (g.removeEdges nd.out)).node_sub a nd2 h2
      rw [h1] at h0; cases h0
      rw [List.eq_nil_iff_forall_not_mem]
      intro x hx
      have := s1 x hx
      rw [hout1] at this; cases this
    refine wf2.delete_node h2 hout2 hinc2 ?_ (fun _ => rfl)
    intro j
    show ((((g.removeEdges nd.out).removeEdges nd1.inc).nodes.set a none)[j]?).join = _
    rw [join_getElem?_set]
    have hlt : a < ((g.removeEdges nd.out).removeEdges nd1.inc).nodes.length :=
      join_getElem?_lt h2
    by_cases hj : j = a
    · simp [hj, hlt]
    · simp [hj, Ne.symm hj]; rfl

/-! #### Consistency of the free lists

`SGraph.WF` does not mention the free lists, but `add_node` / `add_edge` trust them: they reuse
the head of the free list as a vacant slot. `FreeOK` is the missing half of the model invariant;
together with `WF` it holds of `empty` and is preserved by every operation. -/

/-- The free lists hold, without repetition, in-range vacant slots only. -/
structure FreeOK (g : SGraph N E) : Prop where
  node_free : ∀ i ∈ g.freeNodes, i < g.nodes.length ∧ g.node? i = none
  edge_free : ∀ e ∈ g.freeEdges, e < g.edges.length ∧ g.edge? e = none
  node_nodup : g.freeNodes.Nodup
  edge_nodup : g.freeEdges.Nodup

theorem FreeOK.head_node {g : SGraph N E} (fo : g.FreeOK) :
    ∀ i, g.freeNodes.head? = some i → g.node? i = none := fun i h =>
  (fo.node_free i (List.mem_of_mem_head? h)).2

theorem FreeOK.head_edge {g : SGraph N E} (fo : g.FreeOK) :
    ∀ x, g.freeEdges.head? = some x → x < g.edges.length ∧ g.edge? x = none := fun x h =>
  fo.edge_free x (List.mem_of_mem_head? h)

theorem freeOK_empty : (SGraph.empty : SGraph N E).FreeOK := by
  constructor <;> simp [SGraph.empty]

theorem freeOK_addNode {g : SGraph N E} (fo : g.FreeOK) (w : N) : (g.addNode w).1.FreeOK := by
  unfold addNode
  cases hf : g.freeNodes with
  | nil =>
    refine ⟨?_, fo.edge_free, ?_, fo.edge_nodup⟩
    · intro i hi; cases hi
    · exact List.nodup_nil
  | cons i rest =>
    have hnd := fo.node_nodup
    rw [hf, List.nodup_cons] at hnd
    refine ⟨?_, fo.edge_free, hnd.2, fo.edge_nodup⟩
    intro x hx
    obtain ⟨hlt, hv⟩ := fo.node_free x (by rw [hf]; exact List.mem_cons_of_mem _ hx)
    refine ⟨by simpa using hlt, ?_⟩
    show ((g.nodes.set i _)[x]?).join = none
    rw [join_getElem?_set, if_neg]
    · exact hv
    · rintro ⟨rfl, _⟩; exact hnd.1 hx

theorem freeOK_addEdge {g g' : SGraph N E} (fo : g.FreeOK) {a b e : Nat} {w : E}
    (h : g.addEdge a b w = .ok (g', e)) : g'.FreeOK := by
  obtain ⟨_, _, edges', free', hcase, rfl⟩ := addEdge_ok h
  refine ⟨?_, ?_, fo.node_nodup, ?_⟩
  · intro i hi
    obtain ⟨hlt, hv⟩ := fo.node_free i hi
    refine ⟨by simpa [modifyNode] using hlt, ?_⟩
    rw [node?_modifyNode, node?_modifyNode]
    have : ({ g with edges := edges', freeEdges := free' } : SGraph N E).node? i = none := hv
    simp [this]
  · intro x hx
    show x < edges'.length ∧ (edges'[x]?).join = none
    rcases hcase with ⟨hf, rfl⟩ | ⟨_, rfl, _, _⟩
    · have hnd := fo.edge_nodup
      rw [hf, List.nodup_cons] at hnd
      have hx' : x ∈ free' := hx
      obtain ⟨hlt, hv⟩ := fo.edge_free x (by rw [hf]; exact List.mem_cons_of_mem _ hx')
      refine ⟨by simpa using hlt, ?_⟩
      rw [join_getElem?_set, if_neg]
      · exact hv
      · rintro ⟨rfl, _⟩; exact hnd.1 hx'
    · cases hx
  · show free'.Nodup
    rcases hcase with ⟨hf, _⟩ | ⟨_, rfl, _, _⟩
    · have hnd := fo.edge_nodup
      rw [hf, List.nodup_cons] at hnd
      exact hnd.2
    · exact List.nodup_nil

theorem freeOK_removeEdge {g g' : SGraph N E} (fo : g.FreeOK) {e : Nat} {ed : GEdge E}
    (h : g.removeEdge e = some (g', ed)) : g'.FreeOK := by
  obtain ⟨hnl, hel, hfn, hfe⟩ := removeEdge_shape h
  have hed := (removeEdge_some h).1
  have hlt : e < g.edges.length := join_getElem?_lt hed
  refine ⟨?_, ?_, hfn ▸ fo.node_nodup, ?_⟩
  · intro i hi
    rw [hfn] at hi
    obtain ⟨hl, hv⟩ := fo.node_free i hi
    exact ⟨hnl ▸ hl, by rw [removeEdge_node? h, hv]; rfl⟩
  · intro x hx
    rw [hfe] at hx
    rw [hel, removeEdge_edge? h]
    rcases List.mem_cons.1 hx with rfl | hx
    · exact ⟨hlt, by simp⟩
    · obtain ⟨hl, hv⟩ := fo.edge_free x hx
      exact ⟨hl, by rw [hv]; simp⟩
  · rw [hfe, List.nodup_cons]
    refine ⟨fun hm => ?_, fo.edge_nodup⟩
    rw [(fo.edge_free e hm).2] at hed
    cases hed

theorem freeOK_removeEdges : ∀ (l : List Nat) {g : SGraph N E}, g.FreeOK →
    (g.removeEdges l).FreeOK
  | [], _, fo => fo
  | e :: es, g, fo => by
    rw [removeEdges]
    split
    · exact freeOK_removeEdges es fo
    · rename_i g' ed h
      exact freeOK_removeEdges es (freeOK_removeEdge fo h)

theorem freeOK_removeNode {g : SGraph N E} (fo : g.FreeOK) (a : Nat) :
    (g.removeNode a).FreeOK := by
  cases h : g.node? a with
  | none => rw [removeNode_none h]; exact fo
  | some nd =>
    obtain ⟨nd1, h1⟩ := (removeEdges_shrinks nd.out g).node_some a nd h
    obtain ⟨nd2, h2⟩ := (removeEdges_shrinks nd1.inc (g.removeEdges nd.out)).node_some a nd1 h1
    rw [removeNode_some h h1]
    have fo2 := freeOK_removeEdges nd1.inc (freeOK_removeEdges nd.out fo)
    have hlt : a < ((g.removeEdges nd.out).removeEdges nd1.inc).nodes.length :=
      join_getElem?_lt h2
    have hnode : ∀ j, ((((g.removeEdges nd.out).removeEdges nd1.inc).nodes.set a none)[j]?).join =
        if j = a then none else ((g.removeEdges nd.out).removeEdges nd1.inc).node? j := by
      intro j
      rw [join_getElem?_set]
      by_cases hj : j = a
      · simp [hj, hlt]
      · simp [hj, Ne.symm hj]; rfl
    refine ⟨?_, fo2.edge_free, ?_, fo2.edge_nodup⟩
    · intro i hi
      show i < (List.set _ a none).length ∧ ((List.set _ a none)[i]?).join = none
      rw [List.length_set, hnode]
      rcases List.mem_cons.1 hi with rfl | hi
      · exact ⟨hlt, by simp⟩
      · obtain ⟨hl, hv⟩ := fo2.node_free i hi
        exact ⟨hl, by rw [hv]; simp⟩
    · show (a :: _).Nodup
      rw [List.nodup_cons]
      refine ⟨fun hm => ?_, fo2.node_nodup⟩
      rw [(fo2.node_free a hm).2] at h2
      cases h2

end SGraph

/-! ### A concrete history (used by the non-vacuity examples of `Props/C15`) -/

namespace C15Ex

def ok! (g : SGraph Unit Unit) (r : R (SGraph Unit Unit × Nat)) : SGraph Unit Unit :=
  match r with
  | .ok (g', _) => g'
  | .error _ => g

/-- Nodes `0`, `1`, `2`. -/
def g0 : SGraph Unit Unit :=
  ((((SGraph.empty : SGraph Unit Unit).addNode ()).1.addNode ()).1.addNode ()).1
def g1 : SGraph Unit Unit := ok! g0 (g0.addEdge 0 1 ())
def g2 : SGraph Unit Unit := ok! g1 (g1.addEdge 0 2 ())
/-- The graph of the first two calls: edges `0 → 1`, `0 → 2`, `1 → 2`. -/
def gA : SGraph Unit Unit := ok! g2 (g2.addEdge 1 2 ())
def g4 : SGraph Unit Unit := (gA.addNode ()).1
/-- The graph after the edit (a new node `3` and an edge `2 → 3`). -/
def gB : SGraph Unit Unit := ok! g4 (g4.addEdge 2 3 ())

/-- Five calls; the graph is edited between the second and the third. -/
def hist : List (SGraph Unit Unit × List Nat) :=
  [(gA, []), (gA, [0]), (gB, [0, 1]), (gB, [0, 1, 2]), (gB, [0, 1, 2, 3])]

theorem wfo_empty : (SGraph.empty : SGraph Unit Unit).WF ∧ (SGraph.empty : SGraph Unit Unit).FreeOK :=
  ⟨SGraph.wf_empty, SGraph.freeOK_empty⟩

theorem wfo_addNode {g : SGraph Unit Unit} (h : g.WF ∧ g.FreeOK) :
    (g.addNode ()).1.WF ∧ (g.addNode ()).1.FreeOK :=
  ⟨SGraph.wf_addNode h.1 () h.2.head_node, SGraph.freeOK_addNode h.2 ()⟩

theorem wfo_ok! {g : SGraph Unit Unit} (h : g.WF ∧ g.FreeOK) (a b : Nat) :
    (ok! g (g.addEdge a b ())).WF ∧ (ok! g (g.addEdge a b ())).FreeOK := by
  unfold ok!
  split
  · rename_i g' e he
    exact ⟨SGraph.wf_addEdge h.1 h.2.head_edge he, SGraph.freeOK_addEdge h.2 he⟩
  · exact h

theorem wfo_gA : gA.WF ∧ gA.FreeOK :=
  wfo_ok! (wfo_ok! (wfo_ok! (wfo_addNode (wfo_addNode (wfo_addNode wfo_empty))) 0 1) 0 2) 1 2

theorem wfo_gB : gB.WF ∧ gB.FreeOK := wfo_ok! (wfo_addNode wfo_gA) 2 3

/-- A state satisfying `WF` whose node free list names an occupied slot (unreachable from
`empty`): one node with a self-loop. -/
def badN : SGraph Unit Unit := ⟨[some ⟨(), [0], [0]⟩], [some ⟨0, 0, ()⟩], [0], []⟩

/-- A state satisfying `WF` whose edge free list names a slot outside the edge table. -/
def badE : SGraph Unit Unit := ⟨[some ⟨(), [], []⟩], [], [], [5]⟩

theorem badN_wf : badN.WF := by
  have hE : ∀ e ed, badN.edge? e = some ed → e = 0 ∧ ed = ⟨0, 0, ()⟩ := by
    intro e ed h
    match e, h with
    | 0, h => exact ⟨rfl, by simpa [SGraph.edge?, badN] using h.symm⟩
    | e + 1, h => simp [SGraph.edge?, badN] at h
  have hN : ∀ a nd, badN.node? a = some nd → a = 0 ∧ nd = ⟨(), [0], [0]⟩ := by
    intro a nd h
    match a, h with
    | 0, h => exact ⟨rfl, by simpa [SGraph.node?, badN] using h.symm⟩
    | a + 1, h => simp [SGraph.node?, badN] at h
  constructor
  · intro e ed h
    obtain ⟨rfl, rfl⟩ := hE e ed h
    exact ⟨_, rfl, by simp⟩
  · intro e ed h
    obtain ⟨rfl, rfl⟩ := hE e ed h
    exact ⟨_, rfl, by simp⟩
  · intro a nd h e he
    obtain ⟨rfl, rfl⟩ := hN a nd h
    simp only [List.mem_singleton] at he
    subst he
    exact ⟨_, rfl, rfl⟩
  · intro a nd h e he
    obtain ⟨rfl, rfl⟩ := hN a nd h
    simp only [List.mem_singleton] at he
    subst he
    exact ⟨_, rfl, rfl⟩
  · intro a nd h
    obtain ⟨rfl, rfl⟩ := hN a nd h
    simp
  · intro a nd h
    obtain ⟨rfl, rfl⟩ := hN a nd h
    simp

theorem badE_wf : badE.WF := by
  have hE : ∀ e, badE.edge? e = none := fun e => by simp [SGraph.edge?, badE]
  have hN : ∀ a nd, badE.node? a = some nd → nd = ⟨(), [], []⟩ := by
    intro a nd h
    match a, h with
    | 0, h => simpa [SGraph.node?, badE] using h.symm
    | a + 1, h => simp [SGraph.node?, badE] at h
  constructor
  · intro e ed h; rw [hE] at h; cases h
  · intro e ed h; rw [hE] at h; cases h
  · intro a nd h e he; rw [hN a nd h] at he; cases he
  · intro a nd h e he; rw [hN a nd h] at he; cases he
  · intro a nd h; rw [hN a nd h]; exact List.nodup_nil
  · intro a nd h; rw [hN a nd h]; exact List.nodup_nil

end C15Ex

end Pm
