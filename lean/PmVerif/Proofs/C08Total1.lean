/-
Proofs/C08Total1.lean — C08 (totality) of the builder, part 1: the primitive edits of
`Model/Automaton.lean` do not fail on an automaton satisfying the structural invariant `Inv`
when their arguments are live (`…_total`). Together with the frame lemmas of
`Proofs/AutomatonFrames.lean` / `Proofs/AutomatonLoops.lean` (which describe the result of a
successful edit) these are total-correctness statements.
Everything lives in `namespace Pm.C08`.
-/
import PmVerif.Proofs.AutomatonLoops
namespace Pm
namespace C08
open Automaton
variable {K P : Type}

/-- Every error the computation can return satisfies `A`. -/
def Only {α : Type} (A : Err → Prop) (r : R α) : Prop := ∀ e, r = .error e → A e

theorem Only.ok {α : Type} (A : Err → Prop) (x : α) : Only A (.ok x : R α) :=
  fun _ h => by cases h

theorem Only.err {α : Type} {A : Err → Prop} {e : Err} (h : A e) : Only A (.error e : R α) :=
  fun _ h' => by cases h'; exact h

/-- An error propagated from a computation all of whose errors satisfy `A`. -/
theorem Only.error {α β : Type} {A : Err → Prop} {r : R α} (hf : Only A r) {e : Err}
    (h : r = .error e) : Only A (.error e : R β) := Only.err (hf e h)

theorem Only.of_ok {α : Type} {A : Err → Prop} {r : R α} (h : ∃ x, r = .ok x) : Only A r := by
  obtain ⟨x, hx⟩ := h
  rw [hx]; exact Only.ok A x

theorem Only.mono {α : Type} {A B : Err → Prop} {r : R α} (h : ∀ e, A e → B e)
    (hr : Only A r) : Only B r := fun e he => h e (hr e he)

theorem Only.false_ok {α : Type} {r : R α} (h : Only (fun _ => False) r) : ∃ x, r = .ok x := by
  cases r with
  | error e => exact (h e rfl).elim
  | ok x => exact ⟨x, rfl⟩

/-- A guard error: the event log is not one the Rust code can produce. -/
def IsGuard (e : Err) : Prop := ∃ t, e = .guard t

/-- Not a panic. -/
def NoPanic (e : Err) : Prop := ∀ tag, e ≠ .panic tag

theorem IsGuard.noPanic {e : Err} (h : IsGuard e) : NoPanic e := by
  obtain ⟨t, rfl⟩ := h
  intro tag ht
  cases ht

/-- The result is not a panic. -/
def Fine {α : Type} (r : R α) : Prop := Only NoPanic r

theorem Fine.not_panic {α : Type} {r : R α} (h : Fine r) (tag : String) :
    r ≠ .error (.panic tag) := fun ht => h _ ht tag rfl

theorem Fine.ok {α : Type} (x : α) : Fine (.ok x : R α) := Only.ok _ x

theorem Fine.fuel {α : Type} (t : String) : Fine (.error (.fuel t) : R α) :=
  Only.err fun _ h => by cases h

theorem Fine.guard {α : Type} (t : String) : Fine (.error (.guard t) : R α) :=
  Only.err fun _ h => by cases h

/-- An error propagated from a fine computation is fine. -/
theorem Fine.error {α β : Type} {r : R α} (hf : Fine r) {e : Err} (h : r = .error e) :
    Fine (.error e : R β) := Only.error hf h

theorem Fine.of_ok {α : Type} {r : R α} (h : ∃ x, r = .ok x) : Fine r := Only.of_ok h

theorem Only.fine {α : Type} {r : R α} (h : Only IsGuard r) : Fine r :=
  h.mono fun _ => IsGuard.noPanic

/-! ### the graph -/

theorem addEdge_total {N E : Type} (g : SGraph N E) (a b : Nat) (w : E)
    (ha : g.containsNode a = true) (hb : g.containsNode b = true) :
    ∃ r, g.addEdge a b w = .ok r := by
  unfold SGraph.addEdge
  rw [ha, hb]
  simp only [Bool.and_self, Bool.not_true, Bool.false_eq_true, if_false]
  exact ⟨_, rfl⟩

theorem removeEdge_total {N E : Type} (g : SGraph N E) (e : Nat) (ed : GEdge E)
    (h : g.edge? e = some ed) : ∃ g', g.removeEdge e = some (g', ed) := by
  unfold SGraph.removeEdge
  rw [h]
  exact ⟨_, rfl⟩

/-! ### `modifyState`, `appendEdge`, `addTransition`, `addMatch`, `setDeterministic` -/

theorem appendEdge_total {a : Automaton K P} (inv : Inv a) {p ch : Nat}
    (c : Option (Constraint K P)) (hp : a.Live p) (hch : a.Live ch) :
    ∃ a', a.appendEdge p ch c = .ok a' := by
  unfold appendEdge
  split
  · exact ⟨a, rfl⟩
  · obtain ⟨⟨g1, e⟩, hadd⟩ := addEdge_total a.g p ch c hp hch
    rw [hadd]
    simp only
    have hw1 : ∀ x, g1.weight? x = a.g.weight? x := SGraph.addEdge_weight? inv.fo hadd
    have hl : ({ a with g := g1 } : Automaton K P).Live p := by
      show g1.containsNode p = true
      rw [SGraph.containsNode_eq, hw1, ← SGraph.containsNode_eq]; exact hp
    exact ⟨_, modifyState_of_live _ hl⟩

theorem addTransition_total {a : Automaton K P} (inv : Inv a) {p : Nat}
    (c : Option (Constraint K P)) (hp : a.Live p) :
    ∃ r, a.addTransition p c = .ok r := by
  unfold addTransition addNonDetNode
  obtain ⟨hdead, hwt, _, inv1⟩ := addNode_frame inv ({} : AState K) rfl rfl
  simp only
  have hp1 : ({ a with g := (a.g.addNode ({} : AState K)).1 } : Automaton K P).Live p := by
    show (a.g.addNode ({} : AState K)).1.containsNode p = true
    rw [SGraph.containsNode_eq, hwt]
    have hne : p ≠ (a.g.addNode ({} : AState K)).2 := fun hx => hdead (hx ▸ hp)
    rw [if_neg hne, ← SGraph.containsNode_eq]; exact hp
  have hc1 : ({ a with g := (a.g.addNode ({} : AState K)).1 } : Automaton K P).Live
      (a.g.addNode ({} : AState K)).2 := by
    show (a.g.addNode ({} : AState K)).1.containsNode _ = true
    rw [SGraph.containsNode_eq, hwt, if_pos rfl]; rfl
  obtain ⟨a2, h2⟩ := appendEdge_total inv1 c hp1 hc1
  rw [h2]
  exact ⟨_, rfl⟩

theorem addMatch_total {a : Automaton K P} {s : Nat} (pid : Nat) (keys : List K)
    (hs : a.Live s) : ∃ a', a.addMatch s pid keys = .ok a' := by
  unfold addMatch
  obtain ⟨w, hw⟩ := live_iff.1 hs
  rw [state_ok_iff.2 hw]
  simp only
  split
  · exact ⟨a, rfl⟩
  · exact ⟨_, modifyState_of_live _ hs⟩

theorem setDeterministic_total {a : Automaton K P} {s : Nat} (hs : a.Live s) :
    ∃ r, a.setDeterministic s = .ok r := by
  unfold setDeterministic
  obtain ⟨w, hw⟩ := live_iff.1 hs
  rw [state_ok_iff.2 hw]
  simp only
  rw [modifyState_of_live _ hs]
  exact ⟨_, rfl⟩

/-! ### `removeTransition` -/

theorem removeTransition_total {a : Automaton K P} (inv : Inv a) {t : Nat}
    {ed : GEdge (Option (Constraint K P))} (he : a.g.edge? t = some ed) :
    ∃ a', a.removeTransition t = .ok (a', ed.w) := by
  unfold removeTransition
  rw [he]
  simp only
  have hsrc : a.Live ed.src := inv.ok.src_live he
  obtain ⟨w, hw⟩ := live_iff.1 hsrc
  rw [state_ok_iff.2 hw]
  simp only
  have hlisted := inv.ok.edge_listed t ed he w hw
  have hmem : t ∈ (if ed.w.isNone then w.eorder else w.corder) := by
    rcases List.mem_append.1 hlisted with h | h
    · obtain ⟨e', he', _, hc⟩ := inv.ok.corder_edge ed.src w hw t h
      rw [he] at he'; cases he'
      have : ed.w.isNone = false := by
        cases hx : ed.w with
        | none => rw [hx] at hc; cases hc
        | some _ => rfl
      rw [this]; exact h
    · obtain ⟨e', he', _, hc⟩ := inv.ok.eorder_edge ed.src w hw t h
      rw [he] at he'; cases he'
      rw [hc]; exact h
  have hcont : (if ed.w.isNone then w.eorder else w.corder).contains t = true := by
    rw [List.contains_iff_mem]; exact hmem
  rw [hcont]
  simp only [Bool.not_true, Bool.false_eq_true, if_false]
  rw [modifyState_of_live _ hsrc]
  simp only
  have he' : (a.g.setWeight ed.src fun w =>
      if ed.w.isNone then { w with eorder := w.eorder.erase t }
      else { w with corder := w.corder.erase t }).edge? t = some ed := he
  obtain ⟨g', hg'⟩ := removeEdge_total _ t ed he'
  rw [hg']
  exact ⟨_, rfl⟩

/-! ### `appendCopies`, `cloneOutgoing` -/

theorem appendCopies_total {dst : Nat} : ∀ (ts : List Nat) {a : Automaton K P}, Inv a →
    a.Live dst → (∀ t ∈ ts, ∃ e, a.g.edge? t = some e) →
    ∃ a', a.appendCopies dst ts = .ok a'
  | [], a, _, _, _ => ⟨a, rfl⟩
  | t :: ts, a, inv, hd, hts => by
    obtain ⟨e, he⟩ := hts t List.mem_cons_self
    unfold appendCopies
    rw [nextState_ok_iff.2 ⟨e, he, rfl⟩, constraintOf_ok_iff.2 ⟨e, he, rfl⟩]
    simp only
    obtain ⟨a1, h1⟩ := appendEdge_total inv e.w hd (inv.ok.dst_live he)
    rw [h1]
    simp only
    by_cases hne : dst = e.dst
    · -- self transition: nothing happens
      have : a1 = a := by
        rw [hne, appendEdge_self] at h1; cases h1; rfl
      subst this
      exact appendCopies_total ts inv hd fun t' ht' => hts t' (List.mem_cons_of_mem _ ht')
    · obtain ⟨x, sp⟩ := appendEdge_spec inv hne h1
      have hd1 : a1.Live dst := by
        obtain ⟨w, hw⟩ := live_iff.1 hd
        exact live_of_weight (show a1.g.weight? dst = some (addOrder e.w x w) by
          rw [sp.wt, if_pos rfl, hw]; rfl)
      refine appendCopies_total ts sp.inv hd1 fun t' ht' => ?_
      obtain ⟨e', he'⟩ := hts t' (List.mem_cons_of_mem _ ht')
      refine ⟨e', ?_⟩
      rw [sp.edge, if_neg]
      · exact he'
      · intro hx
        rw [hx, sp.fresh] at he'; cases he'

theorem cloneOutgoing_total {a : Automaton K P} (inv : Inv a) {s other : Nat}
    (hs : a.Live s) (ho : a.Live other) : ∃ a', a.cloneOutgoing s other = .ok a' := by
  unfold cloneOutgoing
  obtain ⟨w, hw⟩ := live_iff.1 ho
  rw [allTransitions_ok_iff.2 ⟨w, hw, rfl⟩]
  simp only
  exact appendCopies_total _ inv hs fun t ht => by
    obtain ⟨e, he, _⟩ := inv.listed_live hw ht
    exact ⟨e, he⟩


/-! ### `rewireTarget`, `splitTarget` -/

theorem replaceFirst_some_of_mem {xs : List Nat} {t : Nat} (t' : Nat) (h : t ∈ xs) :
    ∃ r, replaceFirst xs t t' = some r := by
  induction xs with
  | nil => cases h
  | cons x rest ih =>
    unfold replaceFirst
    by_cases hx : x = t
    · rw [if_pos hx]; exact ⟨_, rfl⟩
    · rw [if_neg hx]
      rcases List.mem_cons.1 h with h | h
      · exact absurd h.symm hx
      · obtain ⟨r, hr⟩ := ih h
        rw [hr]; exact ⟨_, rfl⟩

theorem rewireTarget_total {a : Automaton K P} (inv : Inv a) {t n : Nat}
    {ed : GEdge (Option (Constraint K P))} (he : a.g.edge? t = some ed) (hn : a.Live n) :
    ∃ r, a.rewireTarget t n = .ok r := by
  unfold rewireTarget
  obtain ⟨g1, hrem⟩ := removeEdge_total a.g t ed he
  rw [hrem]
  simp only
  have hw1 : ∀ x, g1.weight? x = a.g.weight? x := SGraph.removeEdge_weight? hrem
  have hl1 : ∀ x, a.Live x → g1.containsNode x = true := by
    intro x hx
    rw [SGraph.containsNode_eq, hw1, ← SGraph.containsNode_eq]; exact hx
  have hsrc : a.Live ed.src := inv.ok.src_live he
  obtain ⟨⟨g2, t'⟩, hadd⟩ := addEdge_total g1 ed.src n ed.w (hl1 _ hsrc) (hl1 _ hn)
  rw [hadd]
  simp only
  have fo1 := SGraph.freeOK_removeEdge inv.fo hrem
  have hw2 : ∀ x, g2.weight? x = a.g.weight? x := fun x =>
    (SGraph.addEdge_weight? fo1 hadd x).trans (hw1 x)
  obtain ⟨w, hw⟩ := live_iff.1 hsrc
  have hst : (⟨g2, a.root⟩ : Automaton K P).state ed.src = .ok w :=
    state_ok_iff.2 (by show g2.weight? ed.src = some w; rw [hw2]; exact hw)
  rw [hst]
  simp only
  have hl2 : (⟨g2, a.root⟩ : Automaton K P).Live ed.src := by
    show g2.containsNode ed.src = true
    rw [SGraph.containsNode_eq, hw2, ← SGraph.containsNode_eq]; exact hsrc
  rcases List.mem_append.1 (inv.ok.edge_listed t ed he w hw) with h | h
  · obtain ⟨co, hco⟩ := replaceFirst_some_of_mem t' h
    rw [hco]
    simp only
    rw [modifyState_of_live _ hl2]
    exact ⟨_, rfl⟩
  · cases hco : replaceFirst w.corder t t' with
    | some co =>
      simp only
      rw [modifyState_of_live _ hl2]
      exact ⟨_, rfl⟩
    | none =>
      simp only
      obtain ⟨eo, heo⟩ := replaceFirst_some_of_mem t' h
      rw [heo]
      simp only
      rw [modifyState_of_live _ hl2]
      exact ⟨_, rfl⟩

theorem splitTarget_total {a : Automaton K P} (inv : Inv a) {t : Nat}
    {ed : GEdge (Option (Constraint K P))} (he : a.g.edge? t = some ed) :
    ∃ r, a.splitTarget t = .ok r := by
  unfold splitTarget
  rw [nextState_ok_iff.2 ⟨ed, he, rfl⟩]
  simp only
  split
  · exact ⟨_, rfl⟩
  · have hdst : a.Live ed.dst := inv.ok.dst_live he
    obtain ⟨w, hw⟩ := live_iff.1 hdst
    rw [state_ok_iff.2 hw]
    simp only
    obtain ⟨hdead, hwt, hed, inv1⟩ :=
      addNode_frame inv ({ matches_ := w.matches_, det := w.det } : AState K) rfl rfl
    have he1 : (⟨(a.g.addNode ({ matches_ := w.matches_, det := w.det } : AState K)).1, a.root⟩ :
        Automaton K P).g.edge? t = some ed := by rw [hed]; exact he
    have hn1 : (⟨(a.g.addNode ({ matches_ := w.matches_, det := w.det } : AState K)).1, a.root⟩ :
        Automaton K P).Live (a.g.addNode ({ matches_ := w.matches_, det := w.det } : AState K)).2 :=
      live_of_weight (by rw [hwt, if_pos rfl])
    obtain ⟨⟨a2, t2⟩, h2⟩ := rewireTarget_total inv1 he1 hn1
    rw [h2]
    simp only
    have hne : ∀ ed', (⟨(a.g.addNode ({ matches_ := w.matches_, det := w.det } : AState K)).1,
        a.root⟩ : Automaton K P).g.edge? t = some ed' →
        ed'.src ≠ (a.g.addNode ({ matches_ := w.matches_, det := w.det } : AState K)).2 := by
      intro ed' hed' hx
      rw [hed, he] at hed'
      cases hed'
      exact hdead (hx ▸ inv.ok.src_live he)
    obtain ⟨_, ed', rs⟩ := rewireTarget_spec inv1 hne h2
    have hw2 : a2.g.weight? ed.dst = some w := by
      rw [rs.wt, hwt, if_neg]
      · exact hw
      · intro hx; exact hdead (hx ▸ hdst)
    rw [allTransitions_ok_iff.2 ⟨w, hw2, rfl⟩]
    simp only
    have hn2 : a2.Live (a.g.addNode ({ matches_ := w.matches_, det := w.det } : AState K)).2 := by
      have := rs.wt (a.g.addNode ({ matches_ := w.matches_, det := w.det } : AState K)).2
      rw [hwt, if_pos rfl] at this
      exact live_of_weight this
    obtain ⟨a3, h3⟩ := appendCopies_total (w.corder ++ w.eorder) rs.inv hn2 (fun t' ht' => by
      obtain ⟨e', he', _⟩ := rs.inv.listed_live hw2 ht'
      exact ⟨e', he'⟩)
    rw [h3]
    exact ⟨_, rfl⟩

/-! ### loops over transitions -/

theorem drainLoop_total : ∀ (ts : List Nat) {a : Automaton K P}
    (acc : List (Option (Constraint K P) × Nat)), Inv a → ts.Nodup →
    (∀ t ∈ ts, ∃ e, a.g.edge? t = some e) → ∃ r, a.drainLoop ts acc = .ok r
  | [], a, acc, _, _, _ => ⟨_, rfl⟩
  | t :: ts, a, acc, inv, hnd, hts => by
    obtain ⟨e, he⟩ := hts t List.mem_cons_self
    unfold drainLoop
    rw [nextState_ok_iff.2 ⟨e, he, rfl⟩]
    simp only
    obtain ⟨a1, h1⟩ := removeTransition_total inv he
    rw [h1]
    simp only
    obtain ⟨ed, _, sp⟩ := removeTransition_spec inv h1
    rw [List.nodup_cons] at hnd
    refine drainLoop_total ts _ sp.inv hnd.2 fun t' ht' => ?_
    obtain ⟨e', he'⟩ := hts t' (List.mem_cons_of_mem _ ht')
    refine ⟨e', ?_⟩
    rw [sp.edge, if_neg]
    · exact he'
    · intro hx; exact hnd.1 (hx ▸ ht')

theorem drainConstraints_total {a : Automaton K P} (inv : Inv a) {s : Nat} (hs : a.Live s) :
    ∃ r, a.drainConstraints s = .ok r := by
  unfold drainConstraints
  obtain ⟨w, hw⟩ := live_iff.1 hs
  rw [corderOf_ok_iff.2 ⟨w, hw, rfl⟩]
  simp only
  refine drainLoop_total w.corder [] inv ?_ fun t ht => ?_
  · exact (inv.ok.nodup s w hw).sublist (List.sublist_append_left _ _)
  · obtain ⟨e, he, _⟩ := inv.ok.corder_edge s w hw t ht
    exact ⟨e, he⟩

theorem moveIncomingLoop_total {s : Nat} : ∀ (ts : List Nat) {a : Automaton K P}, Inv a →
    a.Live s → ts.Nodup → (∀ t ∈ ts, ∃ e, a.g.edge? t = some e) →
    ∃ a', a.moveIncomingLoop s ts = .ok a'
  | [], a, _, _, _, _ => ⟨a, rfl⟩
  | t :: ts, a, inv, hs, hnd, hts => by
    obtain ⟨e, he⟩ := hts t List.mem_cons_self
    unfold moveIncomingLoop
    rw [parent_ok_iff.2 ⟨e, he, rfl⟩]
    simp only
    obtain ⟨a1, h1⟩ := removeTransition_total inv he
    rw [h1]
    simp only
    obtain ⟨ed, _, sp⟩ := removeTransition_spec inv h1
    have hed : ed = e := by have := sp.live; rw [he] at this; cases this; rfl
    subst hed
    rw [List.nodup_cons] at hnd
    have hlive1 : ∀ x, a.Live x → a1.Live x := by
      intro x hx
      obtain ⟨w, hw⟩ := live_iff.1 hx
      rw [live_iff, sp.wt]
      split
      · rw [hw]; exact ⟨_, rfl⟩
      · exact ⟨w, hw⟩
    have hts1 : ∀ t' ∈ ts, ∃ e', a1.g.edge? t' = some e' := by
      intro t' ht'
      obtain ⟨e', he'⟩ := hts t' (List.mem_cons_of_mem _ ht')
      refine ⟨e', ?_⟩
      rw [sp.edge, if_neg]
      · exact he'
      · intro hx; exact hnd.1 (hx ▸ ht')
    obtain ⟨a2, h2⟩ := appendEdge_total sp.inv ed.w (hlive1 _ (inv.ok.src_live he)) (hlive1 _ hs)
    rw [h2]
    simp only
    by_cases hne : ed.src = s
    · have : a2 = a1 := by
        rw [hne, appendEdge_self] at h2; cases h2; rfl
      subst this
      exact moveIncomingLoop_total ts sp.inv (hlive1 _ hs) hnd.2 hts1
    · obtain ⟨x, sp2⟩ := appendEdge_spec sp.inv hne h2
      have hs2 : a2.Live s := by
        obtain ⟨w, hw⟩ := live_iff.1 (hlive1 _ hs)
        rw [live_iff, sp2.wt, if_neg (Ne.symm hne)]
        exact ⟨w, hw⟩
      refine moveIncomingLoop_total ts sp2.inv hs2 hnd.2 fun t' ht' => ?_
      obtain ⟨e', he'⟩ := hts1 t' ht'
      refine ⟨e', ?_⟩
      rw [sp2.edge, if_neg]
      · exact he'
      · intro hx
        rw [hx, sp2.fresh] at he'; cases he'

theorem moveIncoming_total {a : Automaton K P} (inv : Inv a) {s other : Nat} (hs : a.Live s) :
    ∃ a', a.moveIncoming s other = .ok a' := by
  unfold moveIncoming
  refine moveIncomingLoop_total _ inv hs (incomingTransitions_nodup inv other) fun t ht => ?_
  obtain ⟨e, he, _⟩ := inv.mem_incoming.1 ht
  exact ⟨e, he⟩

/-! ### `addMatches` -/

theorem addMatches_total {s : Nat} : ∀ (ms : List (Nat × List K)) {a : Automaton K P}, Inv a →
    a.Live s → ∃ a', a.addMatches s ms = .ok a'
  | [], a, _, _ => ⟨a, rfl⟩
  | (pid, keys) :: ms, a, inv, hs => by
    unfold addMatches
    obtain ⟨a1, h1⟩ := addMatch_total pid keys hs
    rw [h1]
    simp only
    have sp := addMatch_spec inv h1
    have hs1 : a1.Live s := by
      obtain ⟨_, w', _, hw', _⟩ := sp.wt
      exact live_of_weight hw'
    exact addMatches_total ms sp.inv hs1

end C08
end Pm
