/-
Proofs/AnchMKeys.lean — T-RUN-ANCH-MAT, stage 4 (for the corollaries): the key list
`matPatternKeys p` recorded for a matrix pattern (the start key and exactly the arguments of the
pattern's constraints, so its component-wise maximum is `matExtent p`), T-BUILD for matrix
pattern sets (`c03_matrix_prop`), `matSigma` versus occurrence, built automata witness their
recorded keys (`keysWitnessed_built`), and the characterisation of the reported matches of a
built, checked matrix matcher (`c01_c02_matrix_main`).
Everything lives in `namespace Pm.AnchM`.
-/
import PmVerif.Proofs.AnchMRun
import PmVerif.Proofs.AnchKeys
import PmVerif.Props.TDom
import PmVerif.Props.C03
namespace Pm
namespace AnchM
open Automaton

/-! ### `all_missing_bindings` of a star scheme with an arbitrary known set -/

section Star
open Baseline
variable {K : Type} [DecidableEq K] (s : K)

theorem missing_star (known : List K) (k : K) :
    ∃ missing, missingBindings (starReq s) known k 16 = some missing ∧
      (∀ x ∈ missing, x = s ∨ x = k) ∧ (k ∈ known ∨ k ∈ missing) := by
  by_cases hk : k ∈ known
  · exact ⟨[], star_missing_known s known k 16 hk, by simp, .inl hk⟩
  · by_cases h1 : k = s ∨ s ∈ known
    · exact ⟨[k], star_missing_one s known k 14 hk h1, by simp, .inr (by simp)⟩
    · have hks : k ≠ s := fun e => h1 (.inl e)
      have hs : s ∉ known := fun e => h1 (.inr e)
      exact ⟨[s, k], star_missing_two s known k 12 hk hks hs, by simp, .inr (by simp)⟩

theorem allMissingLoop_star : ∀ (ks known out : List K),
    ∃ res, allMissingLoop (starReq s) 16 ks known out = some res ∧
      (∀ x ∈ res, x ∈ out ∨ x = s ∨ x ∈ ks) ∧ (∀ x ∈ out, x ∈ res) ∧
      (∀ k ∈ ks, k ∈ known ∨ k ∈ res) := by
  intro ks
  induction ks with
  | nil =>
    intro known out
    exact ⟨out, rfl, fun x hx => .inl hx, fun x hx => hx, fun k hk => by cases hk⟩
  | cons k ks ih =>
    intro known out
    by_cases hk : k ∈ known
    · obtain ⟨res, hres, h1, h2, h3⟩ := ih known out
      refine ⟨res, by simp [allMissingLoop, hk, hres], ?_, h2, ?_⟩
      · intro x hx
        rcases h1 x hx with h | h | h
        · exact .inl h
        · exact .inr (.inl h)
        · exact .inr (.inr (List.mem_cons_of_mem _ h))
      · intro k' hk'
        rcases List.mem_cons.mp hk' with rfl | hk'
        · exact .inl hk
        · exact h3 k' hk'
    · obtain ⟨missing, hmiss, hMmem, hkM⟩ := missing_star s known k
      have hkM : k ∈ missing := by
        rcases hkM with h | h
        · exact absurd h hk
        · exact h
      obtain ⟨res, hres, h1, h2, h3⟩ := ih (known ++ missing) (out ++ missing)
      refine ⟨res, by simp [allMissingLoop, hk, hmiss, hres], ?_, ?_, ?_⟩
      · intro x hx
        rcases h1 x hx with h | h | h
        · rcases List.mem_append.mp h with h | h
          · exact .inl h
          · rcases hMmem x h with h | h
            · exact .inr (.inl h)
            · exact .inr (.inr (h ▸ List.mem_cons_self))
        · exact .inr (.inl h)
        · exact .inr (.inr (List.mem_cons_of_mem _ h))
      · intro x hx
        exact h2 x (List.mem_append_left _ hx)
      · intro k' hk'
        rcases List.mem_cons.mp hk' with rfl | hk'
        · exact .inr (h2 _ (List.mem_append_right _ hkM))
        · rcases h3 k' hk' with h | h
          · rcases List.mem_append.mp h with h | h
            · exact .inl h
            · exact .inr (h2 _ (List.mem_append_right _ h))
          · exact .inr h

end Star

theorem matReq_eq_star : matReq = Baseline.starReq ((0 : Int), (0 : Int)) := rfl

/-! ### `matPatternKeys` -/

/-- One step of the fold in `matPatternKeys`. -/
def keyStep (keys : List MKey) (q : MatCons) : List MKey :=
  keys ++ (allMissingBindings matReq q.args keys 16).getD []

theorem matPatternKeys_eq (p : MatPattern) :
    matPatternKeys p = (matConstraints p).foldl keyStep [] := rfl

theorem keyStep_spec (keys : List MKey) (q : MatCons) :
    (∀ x ∈ keyStep keys q, x ∈ keys ∨ x = (0, 0) ∨ x ∈ q.args) ∧
      (∀ x ∈ keys, x ∈ keyStep keys q) ∧ (∀ k ∈ q.args, k ∈ keyStep keys q) := by
  obtain ⟨res, hres, h1, _, h3⟩ := allMissingLoop_star ((0 : Int), (0 : Int)) q.args keys []
  have he : keyStep keys q = keys ++ res := by
    unfold keyStep allMissingBindings
    rw [matReq_eq_star, hres]; rfl
  rw [he]
  refine ⟨?_, fun x hx => List.mem_append_left _ hx, ?_⟩
  · intro x hx
    rcases List.mem_append.mp hx with h | h
    · exact .inl h
    · rcases h1 x h with h | h | h
      · cases h
      · exact .inr (.inl h)
      · exact .inr (.inr h)
  · intro k hk
    rcases h3 k hk with h | h
    · exact List.mem_append_left _ h
    · exact List.mem_append_right _ h

theorem foldl_keyStep_spec : ∀ (cs : List MatCons) (keys : List MKey),
    (∀ x ∈ cs.foldl keyStep keys, x ∈ keys ∨ (x = (0, 0) ∧ cs ≠ []) ∨ ∃ q ∈ cs, x ∈ q.args) ∧
      (∀ x ∈ keys, x ∈ cs.foldl keyStep keys) ∧
      (∀ q ∈ cs, ∀ k ∈ q.args, k ∈ cs.foldl keyStep keys) := by
  intro cs
  induction cs with
  | nil =>
    intro keys
    exact ⟨fun x hx => .inl hx, fun x hx => hx, fun c hc => by cases hc⟩
  | cons c cs ih =>
    intro keys
    obtain ⟨i1, i2, i3⟩ := ih (keyStep keys c)
    obtain ⟨s1, s2, s3⟩ := keyStep_spec keys c
    simp only [List.foldl_cons]
    refine ⟨?_, fun x hx => i2 x (s2 x hx), ?_⟩
    · intro x hx
      rcases i1 x hx with h | ⟨h, _⟩ | ⟨c', hc', h⟩
      · rcases s1 x h with h | h | h
        · exact .inl h
        · exact .inr (.inl ⟨h, by simp⟩)
        · exact .inr (.inr ⟨c, List.mem_cons_self, h⟩)
      · exact .inr (.inl ⟨h, by simp⟩)
      · exact .inr (.inr ⟨c', List.mem_cons_of_mem _ hc', h⟩)
    · intro c' hc' k hk
      rcases List.mem_cons.mp hc' with rfl | hc'
      · exact i2 k (s3 k hk)
      · exact i3 c' hc' k hk

/-- Every recorded key is the start key or an argument of a constraint of the pattern. -/
theorem matPatternKeys_mem (p : MatPattern) :
    ∀ k ∈ matPatternKeys p, k = (0, 0) ∨ ∃ q ∈ matConstraints p, k ∈ q.args := by
  intro k hk
  rw [matPatternKeys_eq] at hk
  rcases (foldl_keyStep_spec (matConstraints p) []).1 k hk with h | ⟨h, _⟩ | h
  · cases h
  · exact .inl h
  · exact .inr h

/-- Every argument of every constraint of the pattern is recorded. -/
theorem matPatternKeys_args (p : MatPattern) :
    ∀ q ∈ matConstraints p, ∀ k ∈ q.args, k ∈ matPatternKeys p := by
  rw [matPatternKeys_eq]
  exact (foldl_keyStep_spec (matConstraints p) []).2.2

/-- Every non-hole cell is recorded. -/
theorem matPatternKeys_cell (p : MatPattern) (i j : Nat) (cv : CharVar)
    (hm : (i, j, cv) ∈ matCells p) : (((i : Int), (j : Int)) : MKey) ∈ matPatternKeys p := by
  obtain ⟨q, hq, hk⟩ := tdom_mat_covers p i j cv hm
  exact matPatternKeys_args p q hq _ hk

theorem matPatternKeys_ne (p : MatPattern) : matPatternKeys p ≠ [] := by
  cases hcs : matConstraints p with
  | nil => exact absurd hcs (tdom_mat_nonempty p)
  | cons q qs =>
    have hq : q ∈ matConstraints p := by rw [hcs]; exact List.mem_cons_self
    cases hargs : q.args with
    | nil => exact absurd hargs (mat_first_args p q hq)
    | cons k ks =>
      exact List.ne_nil_of_mem (matPatternKeys_args p q hq k (by rw [hargs]; exact List.mem_cons_self))

theorem matPatternKeys_nn (p : MatPattern) : NN (matPatternKeys p) := by
  intro k hk
  rcases matPatternKeys_mem p k hk with rfl | ⟨q, hq, hkq⟩
  · exact ⟨Int.le_refl _, Int.le_refl _⟩
  · exact mat_keys_nonneg p q hq k hkq

/-- The box of a reported match is the pattern's extent. -/
theorem matPatternKeys_extent (p : MatPattern) :
    boxMax (matPatternKeys p) = (((matExtent p).1 : Int), ((matExtent p).2 : Int)) := by
  obtain ⟨ha1, ha2⟩ := matExtent_att p
  rw [boxMax_eq]
  apply matBox_eq (by simp) (by simp)
  · intro k hk
    rcases matPatternKeys_mem p k hk with rfl | ⟨q, hq, hkq⟩
    · exact ⟨by simp, by simp⟩
    · exact mat_keys_inbox p q hq k hkq
  · rcases ha1 with h0 | ⟨i, j, cv, hm, e⟩
    · exact .inl (by rw [h0]; rfl)
    · exact .inr ⟨_, matPatternKeys_cell p i j cv hm, by rw [e]⟩
  · rcases ha2 with h0 | ⟨i, j, cv, hm, e⟩
    · exact .inl (by rw [h0]; rfl)
    · exact .inr ⟨_, matPatternKeys_cell p i j cv hm, by rw [e]⟩

/-! ### `matSigma` and occurrence -/

/-- Under the canonical binding of anchor `(r, c)` with the pattern's extent as box, the
traversal's evaluation of each constraint of `p` is its truth value under `matSigma h r c`. -/
theorem sat_pattern (p : MatPattern) (h : MatHost) (r c : Nat) :
    ∀ q ∈ matConstraints p,
      satOrFalse MatPos.get matCheck q h
          (.bound r c 0 0 ((matExtent p).1 : Int) ((matExtent p).2 : Int)) =
        some (matSigma h r c q) := by
  intro q hq
  exact sat_eq_sigma h r c _ _ q (mat_keys_nonneg p q hq)
    (fun k hk _ => mat_keys_inbox p q hq k hk) (tdom_mat_arity p q hq)

/-- The anchor cell exists and all constraints of `p` are true under `matSigma h r c` iff `p`
occurs in `h` at `(r, c)`. -/
theorem sigma_iff_occurs (p : MatPattern) (h : MatHost) (r c : Nat) :
    ((matCell h r c).isSome = true ∧ ∀ q ∈ matConstraints p, matSigma h r c q = true) ↔
      occursMat p h r c = true := by
  rw [← tdom_mat_sat_iff p h r c ((matExtent p).1 : Int) ((matExtent p).2 : Int)
    ⟨Int.le_refl _, Int.le_refl _⟩]
  constructor
  · rintro ⟨hcell, hs⟩
    refine ⟨hcell, fun q hq => ?_⟩
    rw [sat_pattern p h r c q hq, hs q hq]
  · rintro ⟨hcell, hs⟩
    refine ⟨hcell, fun q hq => ?_⟩
    have := hs q hq
    rw [sat_pattern p h r c q hq] at this
    exact Option.some.inj this

/-- When the anchor cell exists and all constraints of `p` are true under `matSigma h r c`, every
recorded key denotes an existing host cell. -/
theorem keys_on_host (p : MatPattern) (h : MatHost) (r c : Nat)
    (hcell : (matCell h r c).isSome = true)
    (hs : ∀ q ∈ matConstraints p, matSigma h r c q = true) :
    ∀ k ∈ matPatternKeys p, (matCell h (r + k.1.toNat) (c + k.2.toNat)).isSome = true := by
  intro k hk
  rcases matPatternKeys_mem p k hk with rfl | ⟨q, hq, hkq⟩
  · simpa using hcell
  · exact sigma_cells h r c q (hs q hq) k hkq

/-! ### T-BUILD for matrix pattern sets -/

/-- **C03 for matrix pattern sets, propositional.** Whatever the event log, the matrix automaton
accepts pattern `i` under `σ` iff all constraints of the `i`-th pattern are true under `σ`. -/
theorem c03_matrix_prop_main (ps : List MatPattern) (evs : List Ev) (fuel : Nat)
    (m : Many MKey CharPred) (σ : MatCons → Bool)
    (h : manyBuild (fun p => some (matConstraints p)) (fun _ => ([] : List MKey))
      (charTree mkeyLt) matReq fuel true ps evs = some (.ok m)) (i : Nat) :
    AccDet σ m.automaton m.automaton.root i ↔
      ∃ p, ps[i]? = some p ∧ ∀ q ∈ matConstraints p, σ q = true := by
  unfold manyBuild at h
  cases hi : manyInputs (fun p => some (matConstraints p)) (fun _ => ([] : List MKey)) true ps 0 with
  | none => simp [hi] at h
  | some inputs =>
    simp only [hi] at h
    cases hb : build (charTree mkeyLt) matReq fuel inputs evs with
    | error e => simp [hb] at h
    | ok A =>
      simp only [hb, Option.some.injEq, Except.ok.injEq] at h
      subst h
      rw [build_acc _ _ _ _ _ _ σ (c03_treeOK_char mkeyLt σ) hb i]
      have hpos := c06_ids_are_positions (fun p => some (matConstraints p))
        (fun _ => ([] : List MKey)) true ps 0 inputs hi
      constructor
      · rintro ⟨cs, ex, hmem, hall⟩
        obtain ⟨k, p, hk, hj, hc, _⟩ := (hpos i cs ex).mp hmem
        simp only [Nat.zero_add] at hj
        subst hj
        simp only [Option.some.injEq] at hc
        subst hc
        exact ⟨p, hk, hall⟩
      · rintro ⟨p, hk, hall⟩
        exact ⟨matConstraints p, [], (hpos i _ _).mpr ⟨i, p, hk, by omega, rfl, rfl⟩, hall⟩

/-! ### built automata -/

section Built
variable {ps : List MatPattern} {evs : List Ev} {fuel : Nat} {M : Many MKey CharPred}

/-- The key list recorded for pattern `i` anywhere along an acceptance derivation. -/
theorem recorded_keys (hok : matProgramOK M.automaton ps = true) {σ : MatCons → Bool}
    {s i : Nat} {ks : List MKey} (hacc : AccDetK σ M.automaton s i ks) :
    ∃ s' w', M.automaton.g.weight? s' = some w' ∧ (i, ks) ∈ w'.matches_ ∧
      (s' = M.automaton.root ∨ ks ≠ []) ∧ ∃ p, ps[i]? = some p ∧ ks = matPatternKeys p := by
  obtain ⟨s', w', hw', hmem⟩ := Anch.accDetK_recorded hacc
  obtain ⟨_, hroot, _, hp⟩ := (stateOK_of_programOK hok hw').matches_ i ks hmem
  exact ⟨s', w', hw', hmem, hroot, hp⟩

/-- Built automata witness their recorded keys, on every host. -/
theorem keysWitnessed_built
    (hb : manyBuild (fun p => some (matConstraints p)) (fun _ => ([] : List MKey))
      (charTree mkeyLt) matReq fuel true ps evs = some (.ok M))
    (hok : matProgramOK M.automaton ps = true) (h : MatHost) : KeysWitnessed M.automaton h := by
  intro r c i ks hcell hacc
  obtain ⟨_, _, _, _, _, p, hps, hks⟩ := recorded_keys hok hacc
  obtain ⟨p', hps', hall⟩ :=
    (c03_matrix_prop_main ps evs fuel M (matSigma h r c) hb i).mp (Anch.accDet_of_accDetK hacc)
  rw [hps] at hps'
  cases hps'
  rw [hks]
  exact keys_on_host p h r c hcell hall

/-- **C01/C02 for checked matrix programs.** -/
theorem c01_c02_matrix_main (fuel' : Nat) (h : MatHost) (ms : List (Match MatPos))
    (hb : manyBuild (fun p => some (matConstraints p)) (fun _ => ([] : List MKey))
      (charTree mkeyLt) matReq fuel true ps evs = some (.ok M))
    (hok : matProgramOK M.automaton ps = true)
    (hf : M.findMatches matDomain h fuel' = .ok ms) (i : Nat) (m : MatPos) :
    (i, m) ∈ ms ↔ ∃ p, ps[i]? = some p ∧ ∃ r c, occursMat p h r c = true ∧
      m = .bound r c 0 0 ((matExtent p).1 : Int) ((matExtent p).2 : Int) := by
  obtain ⟨seen, hr⟩ : ∃ seen, run matDomain M.automaton h fuel' = .ok (ms, seen) := by
    unfold Many.findMatches at hf
    cases hrun : run matDomain M.automaton h fuel' with
    | error e => rw [hrun] at hf; cases hf
    | ok r =>
      rw [hrun] at hf
      cases hf
      exact ⟨r.2, rfl⟩
  rw [trun_mat_main M.automaton ps h fuel' ms seen hok (keysWitnessed_built hb hok h) hr]
  constructor
  · rintro (⟨rfl, w, hw, hmem⟩ | ⟨r, c, ks, hcell, hne, hacc, hbnd, rfl⟩)
    · obtain ⟨_, _, _, p, _, hks⟩ := (stateOK_of_programOK hok hw).matches_ i [] hmem
      exact absurd hks.symm (matPatternKeys_ne p)
    · obtain ⟨_, _, _, _, _, p, hps, hks⟩ := recorded_keys hok hacc
      obtain ⟨p', hps', hall⟩ :=
        (c03_matrix_prop_main ps evs fuel M (matSigma h r c) hb i).mp (Anch.accDet_of_accDetK hacc)
      rw [hps] at hps'
      cases hps'
      refine ⟨p, hps, r, c, (sigma_iff_occurs p h r c).mp ⟨hcell, hall⟩, ?_⟩
      rw [hks, matPatternKeys_extent p]
  · rintro ⟨p, hps, r, c, ho, rfl⟩
    right
    obtain ⟨hcell, hall⟩ := (sigma_iff_occurs p h r c).mpr ho
    have hacc : AccDet (matSigma h r c) M.automaton M.automaton.root i :=
      (c03_matrix_prop_main ps evs fuel M (matSigma h r c) hb i).mpr ⟨p, hps, hall⟩
    obtain ⟨ks, hK⟩ := Anch.accDetK_of_accDet hacc
    obtain ⟨_, _, _, _, _, p', hps', hks⟩ := recorded_keys hok hK
    rw [hps] at hps'
    cases hps'
    subst hks
    refine ⟨r, c, _, hcell, matPatternKeys_ne p, hK, keys_on_host p h r c hcell hall, ?_⟩
    rw [matPatternKeys_extent p]

end Built

end AnchM
end Pm
