/-
Proofs/C07TLFuse.lean — C07 (multiplicities) WITHOUT the guard c1D, fuse step
(namespace `Pm.C07TL`).

`C07.xb_fused` (Proofs/C07XFuse.lean) needs "no absorbed child is deterministic": the clone made
by `absorbChildren` is non-deterministic, so the exclusivity "deterministic state, exactly one of
the two transitions is the fallback" (`C07.Excl`, second disjunct) of an absorbed child would be
lost.  The flag only matters for a state that HAS a fallback transition: at a state without one
the second disjunct of `Excl` never applies to two of its transitions (`excl_mx_of_detEF`).  So
"every DETERMINISTIC absorbed child is free of fallback transitions" is enough (`xb_fused_L`),
and the pass `make_constraints_unique(s)` preserves `XB` under the local condition
`GE.LocalOK a s` = "no child of `s` is deterministic, or no child of `s` has a fallback
transition" (`xb_makeConstraintsUnique_L`), which is what c1G (Proofs/GuardECore.lean) provides at
every emission and what guard E's invariant proves for every `charTree` log of the Rust loop.
-/
import PmVerif.Proofs.C07XFuse
import PmVerif.Proofs.GuardECore
namespace Pm
namespace C07TL
open Automaton C07 C09E Pm.GE
variable {K P : Type} [DecidableEq K] [DecidableEq P]
set_option linter.unusedSectionVars false

/-- Every DETERMINISTIC child of `s` is free of fallback transitions. -/
def DetEF (a : Automaton K P) (s : Nat) : Prop :=
  ∀ t e, a.g.edge? t = some e → e.src = s → IsDet a e.dst → EF a e.dst

theorem detEF_of_ndc {a : Automaton K P} {s : Nat} (h : NonDetChildren a s) : DetEF a s :=
  fun t e he hs hd => absurd hd (h t e he hs)

theorem detEF_of_childEF {a : Automaton K P} {s : Nat} (h : ChildEF a s) : DetEF a s :=
  fun t e he hs _ => h t e he hs

theorem detEF_of_localOK {a : Automaton K P} {s : Nat} (h : LocalOK a s) : DetEF a s :=
  h.elim detEF_of_ndc detEF_of_childEF

/-- At a state whose determinism flag is only set when it has no fallback transition, two of its
transitions are syntactically exclusive only through `Mx`: the flag is irrelevant. -/
theorem excl_mx_of_detEF {Mx : Constraint K P → Constraint K P → Prop} {a : Automaton K P}
    {x d1 d2 : Nat} {c1 c2 : Option (Constraint K P)} (hx : IsDet a x → EF a x)
    (h1 : HasEdge a x d1 c1) (h2 : HasEdge a x d2 c2) (h : Excl Mx a x c1 c2) :
    ∃ k1 k2, c1 = some k1 ∧ c2 = some k2 ∧ Mx k1 k2 := by
  rcases h with h | ⟨hd, ⟨hn, _⟩ | ⟨_, hn⟩⟩
  · exact h
  · obtain ⟨t, ht⟩ := h1
    exact absurd hn (hx hd t _ ht rfl)
  · obtain ⟨t, ht⟩ := h2
    exact absurd hn (hx hd t _ ht rfl)

/-! ### one fused group -/

section Fused
variable {Mx : Constraint K P → Constraint K P → Prop} {a a' : Automaton K P} {s N tN : Nat}
  {ts : List Nat} {c0 : Option (Constraint K P)}

/-- One fused group preserves `XB` when every DETERMINISTIC absorbed child is free of fallback
transitions (`C07.xb_fused` with the weaker hypothesis; the proof is the same except for `exclN`). -/
theorem xb_fused_L (hirr : ∀ k, ¬ Mx k k) (f : Fused a a' s ts N c0)
    (fe : C08.FuseEdges a a' s ts N tN c0)
    (hnd : ∀ old, IsOld a ts old → IsDet a old → EF a old)
    (hcomp : ∀ t e, a.g.edge? t = some e → e.src = s → e.w = c0 → t ∈ ts)
    (X : XB Mx a) : XB Mx a' := by
  have ok := f.inv0.ok
  -- classification of the transitions of `a'`
  have cls : ∀ {x d : Nat} {c : Option (Constraint K P)}, HasEdge a' x d c →
      (x = s ∧ d = N ∧ c = c0) ∨
      (x ≠ N ∧ d ≠ N ∧ HasEdge a x d c ∧ (x = s → c ≠ c0)) ∨
      (x = N ∧ d ≠ N ∧ ∃ old, IsOld a ts old ∧ HasEdge a old d c) := by
    rintro x d c ⟨t, ht⟩
    rcases fe.all t _ ht with ⟨_, he⟩ | ⟨_, hts, he⟩ | ⟨_, hsrc, old, ho, t0, ht0⟩
    · cases he; exact .inl ⟨rfl, rfl, rfl⟩
    · refine .inr (.inl ⟨f.ne_N (ok.src_live he), f.ne_N (ok.dst_live he), ⟨t, he⟩, ?_⟩)
      intro hx hc
      exact hts (hcomp t _ he hx hc)
    · exact .inr (.inr ⟨hsrc, f.ne_N (ok.dst_live ht0), old, ho, ⟨t0, ht0⟩⟩)
  have belowN : ∀ {i : Nat}, Below a' N i → ∃ old, IsOld a ts old ∧ Below a old i :=
    fun h => (f.sound_acc h).1 rfl
  have below_ne : ∀ {x i : Nat}, x ≠ N → Below a' x i → Below a x i :=
    fun hx h => (f.sound_acc h).2 hx
  have oldEdge : ∀ {o : Nat}, IsOld a ts o → HasEdge a s o c0 := by
    intro o ho
    obtain ⟨t, e, he, hs, hw, hd⟩ := f.isOld_edge ho
    refine ⟨t, ?_⟩
    rw [he]; cases e; simp only at hs hw hd; subst hs hw hd; rfl
  have ids_back : ∀ {x i : Nat}, x ≠ N → a'.Ids x i → a.Ids x i := by
    rintro x i hx ⟨w', hw', hp⟩
    obtain ⟨w, hw, hm, _⟩ := f.wt x w' hx hw'
    exact ⟨w, hw, hm ▸ hp⟩
  have idsN : ∀ {i : Nat}, a'.Ids N i → ∃ old, IsOld a ts old ∧ a.Ids old i := by
    rintro i ⟨w', hw', hp⟩
    obtain ⟨w, hw, _, hiff⟩ := f.wtN
    rw [hw] at hw'; cases hw'
    exact (hiff i).1 hp
  -- exclusivity transfers backwards
  have excl_ne : ∀ {x : Nat} {c1 c2 : Option (Constraint K P)}, a'.Live x → x ≠ N →
      ¬ Excl Mx a' x c1 c2 → ¬ Excl Mx a x c1 c2 := by
    intro x c1 c2 hl hx hex h
    refine hex (h.mono ?_)
    rintro ⟨w, hw, hd⟩
    obtain ⟨w', hw'⟩ := live_iff.1 hl
    obtain ⟨w0, hw0, _, hdw⟩ := f.wt x w' hx hw'
    rw [hw] at hw0; cases hw0
    exact ⟨w', hw', hdw.trans hd⟩
  have exclN : ∀ {o d1 d2 : Nat} {c1 c2 : Option (Constraint K P)}, IsOld a ts o →
      HasEdge a o d1 c1 → HasEdge a o d2 c2 →
      ¬ Excl Mx a' N c1 c2 → ¬ Excl Mx a o c1 c2 :=
    fun ho h1 h2 hex h => hex (.inl (excl_mx_of_detEF (hnd _ ho) h1 h2 h))
  have live_src : ∀ {x d : Nat} {c : Option (Constraint K P)}, HasEdge a' x d c → a'.Live x :=
    fun ⟨_, ht⟩ => f.inv'.ok.src_live ht
  -- two different old children have nothing in common below
  have oldDisj : ∀ {o1 o2 i : Nat}, IsOld a ts o1 → IsOld a ts o2 → o1 ≠ o2 →
      Below a o1 i → Below a o2 i → False :=
    fun h1 h2 hne hb1 hb2 =>
      X.sib s _ _ c0 c0 (oldEdge h1) (oldEdge h2) hne (not_excl_self hirr s c0) _ hb1 hb2
  refine ⟨?_, ?_, ?_⟩
  · intro x d1 d2 c1 c2 h1 h2 hne hex i hb1 hb2
    rcases cls h1 with ⟨hx1, hd1, hc1⟩ | ⟨hx1, hd1, he1, hs1⟩ | ⟨hx1, hd1, o1, ho1, he1⟩
    · rcases cls h2 with ⟨_, hd2, _⟩ | ⟨hx2, hd2, he2, hs2⟩ | ⟨hx2, _⟩
      · exact hne (hd1.trans hd2.symm)
      · subst hx1; subst hd1; subst hc1
        obtain ⟨old, ho, hbo⟩ := belowN hb1
        have hexa := excl_ne (live_src h1) hx2 hex
        by_cases hod : old = d2
        · subst hod
          exact X.par x old c1 c2 (oldEdge ho) he2 (Ne.symm (hs2 rfl)) hexa i hbo
        · exact X.sib x old d2 c1 c2 (oldEdge ho) he2 hod hexa i hbo (below_ne hd2 hb2)
      · exact fe.nes (hx2.symm.trans hx1)
    · rcases cls h2 with ⟨hx2, hd2, hc2⟩ | ⟨_, hd2, he2, _⟩ | ⟨hx2, _⟩
      · subst hx2; subst hd2; subst hc2
        obtain ⟨old, ho, hbo⟩ := belowN hb2
        have hexa := excl_ne (live_src h1) hx1 hex
        by_cases hod : d1 = old
        · subst hod
          exact X.par x d1 c1 c2 he1 (oldEdge ho) (hs1 rfl) hexa i hbo
        · exact X.sib x d1 old c1 c2 he1 (oldEdge ho) hod hexa i (below_ne hd1 hb1) hbo
      · exact X.sib x d1 d2 c1 c2 he1 he2 hne (excl_ne (live_src h1) hx1 hex) i
          (below_ne hd1 hb1) (below_ne hd2 hb2)
      · exact hx1 hx2
    · rcases cls h2 with ⟨hx2, _⟩ | ⟨hx2, _⟩ | ⟨_, hd2, o2, ho2, he2⟩
      · exact fe.nes (hx1.symm.trans hx2)
      · exact hx2 hx1
      · subst hx1
        by_cases ho : o1 = o2
        · subst ho
          exact X.sib o1 d1 d2 c1 c2 he1 he2 hne (exclN ho1 he1 he2 hex) i (below_ne hd1 hb1)
            (below_ne hd2 hb2)
        · exact oldDisj ho1 ho2 ho (below_of_edge ok he1 (below_ne hd1 hb1))
            (below_of_edge ok he2 (below_ne hd2 hb2))
  · intro x i d c hi he hb
    rcases cls he with ⟨hx, hd, hc⟩ | ⟨hx, hd, he', _⟩ | ⟨hx, hd, o, ho, he'⟩
    · subst hx; subst hd; subst hc
      obtain ⟨old, ho, hbo⟩ := belowN hb
      exact X.down x i old c (ids_back (Ne.symm fe.nes) hi) (oldEdge ho) hbo
    · exact X.down x i d c (ids_back hx hi) he' (below_ne hd hb)
    · subst hx
      obtain ⟨o', ho', hi'⟩ := idsN hi
      by_cases hoo : o' = o
      · subst hoo
        exact X.down o' i d c hi' he' (below_ne hd hb)
      · exact oldDisj ho' ho hoo (below_of_ids hi') (below_of_edge ok he' (below_ne hd hb))
  · intro x d c1 c2 h1 h2 hc hex i hb
    rcases cls h1 with ⟨hx1, hd1, hc1⟩ | ⟨hx1, hd1, he1, _⟩ | ⟨hx1, hd1, o1, ho1, he1⟩
    · rcases cls h2 with ⟨_, _, hc2⟩ | ⟨_, hd2, _⟩ | ⟨hx2, _⟩
      · exact hc (hc1.trans hc2.symm)
      · exact hd2 hd1
      · exact fe.nes (hx2.symm.trans hx1)
    · rcases cls h2 with ⟨_, hd2, _⟩ | ⟨_, _, he2, _⟩ | ⟨hx2, _⟩
      · exact hd1 hd2
      · exact X.par x d c1 c2 he1 he2 hc (excl_ne (live_src h1) hx1 hex) i (below_ne hd1 hb)
      · exact hx1 hx2
    · rcases cls h2 with ⟨hx2, _⟩ | ⟨hx2, _⟩ | ⟨_, _, o2, ho2, he2⟩
      · exact fe.nes (hx1.symm.trans hx2)
      · exact hx2 hx1
      · subst hx1
        by_cases ho : o1 = o2
        · subst ho
          exact X.par o1 d c1 c2 he1 he2 hc (exclN ho1 he1 he2 hex) i (below_ne hd1 hb)
        · exact oldDisj ho1 ho2 ho (below_of_edge ok he1 (below_ne hd1 hb))
            (below_of_edge ok he2 (below_ne hd1 hb))

end Fused

/-! ### the pass -/

/-- `make_constraints_unique(s)` preserves `XB` under the local condition `GE.LocalOK a s` (no
child of `s` is deterministic, or no child of `s` has a fallback transition); the condition is
preserved, and afterwards the transitions of `s` carry pairwise different constraints. -/
theorem xb_makeConstraintsUnique_L {Mx : Constraint K P → Constraint K P → Prop}
    (hirr : ∀ k, ¬ Mx k k) {a a' : Automaton K P} {s : Nat} {evs evs' : List Ev} (inv : Inv a)
    (hs : a.Live s) (hl : LocalOK a s) (X : XB Mx a)
    (h : a.makeConstraintsUnique s evs = .ok (a', evs')) :
    XB Mx a' ∧ LocalOK a' s ∧ C08.UniqueAt a' s := by
  have := makeConstraintsUnique_induct2 (fun b => XB Mx b ∧ LocalOK b s) (s := s)
    (fun {a a' ts c0} inv hs hg hcomp hf hΦ => by
      obtain ⟨N, tN, f, fe⟩ := fuseGroup_both inv hs hg hf
      refine ⟨xb_fused_L hirr f fe ?_ hcomp hΦ.1, ?_⟩
      · rintro old ⟨t, ht, e, he, hd⟩
        obtain ⟨e', he', hs', _⟩ := hg t ht
        rw [he] at he'; cases he'
        exact hd ▸ detEF_of_localOK hΦ.2 t e he hs'
      · rcases hΦ.2 with hn | hc
        · exact .inl ((f.subStep (σ := fun _ => true) fe.ne).nonDetChildren hn)
        · exact .inr (childEF_fuse inv hg fe hc)) inv hs ⟨X, hl⟩ h
  exact ⟨this.1.1, this.1.2, this.2.1⟩

end C07TL
end Pm
