/-
Proofs/C01GenDoms.lean — the shipped string and matrix domains are lawful (`LawfulDomain`),
from the map laws of `Props/C14.lean`.
-/
import PmVerif.Proofs.C01GenPG
import PmVerif.Proofs.StrProgScopes
import PmVerif.Proofs.MatProgScopes
namespace Pm.C01G

theorem str_lawful (h : List Nat) : LawfulDomain strDomain h := by
  refine ⟨?_, ?_, ?_⟩
  · intro m k v m' hb k' v' hg
    exact c14_str_keeps m m' k v k' v' hb hg
  · intro m k v m' hv hb
    show (StrPos.get m' k).isSome = true
    rw [c14_str_get_after_bind h m m' k v hv hb]; rfl
  · intro m ks m' hr k hk v hg
    exact c14_str_retain_keeps m m' ks k v hr hk hg

theorem mat_lawful (h : MatHost) : LawfulDomain matDomain h := by
  refine ⟨?_, ?_, ?_⟩
  · intro m k v m' hb k' v' hg
    exact c14_mat_keeps m m' k k' v v' hb hg
  · intro m k v m' hv hb
    show (MatPos.get m' k).isSome = true
    rw [(c14_mat_get_after_bind h m m' k v hv hb).2]; rfl
  · intro m ks m' hr k hk v hg
    exact c14_mat_retain_keeps m m' ks k v hr hk hg

theorem table_lawful (s : TScheme) (h : THost) : LawfulDomain (tDomain s) h :=
  assoc_lawful (tDomain s) rfl h

end Pm.C01G
