/-
Proofs/PGCompDom.lean — composition of the anchored traversal theorems with T-DOM-PG, stage 2:
"anchored acceptance at `r` with the binding of the keys to their values" is "there is an
embedding, and the binding is the one it induces". Independent of which matcher produced the
anchored description (the automaton or the baseline): the only input is a key list `ks` that, as a
set, is the set of node keys.
Everything lives in `namespace Pm.PGComp`.
-/
import PmVerif.Proofs.PGCompKeys
namespace Pm.PGComp
open AnchG PGDom

/-- **The binding induced by a node map.** `m` binds the key of every pattern node to the image
of that node under `φ` (unbound where `φ` is undefined), and binds nothing else. -/
def BindingOf (g : PortGraph) (root : Nat) (φ : List (Nat × Nat)) (m : PGMap) : Prop :=
  (∀ nk ∈ pgNodeKeys g root, alGet m nk.2 = alGet φ nk.1) ∧
  ∀ k, k ∉ (pgNodeKeys g root).map (·.2) → alGet m k = none

theorem BindingOf.congr {g : PortGraph} {root : Nat} {φ : List (Nat × Nat)} {m m' : PGMap}
    (hb : BindingOf g root φ m) (he : MapEqv m' m) : BindingOf g root φ m' :=
  ⟨fun nk hnk => (he nk.2).trans (hb.1 nk hnk), fun k hk => (he k).trans (hb.2 k hk)⟩

/-- Two bindings induced by the same node map have the same `get`. -/
theorem BindingOf.eqv {g : PortGraph} {root : Nat} {φ : List (Nat × Nat)} {m m' : PGMap}
    (hb : BindingOf g root φ m) (hb' : BindingOf g root φ m') : MapEqv m m' := by
  intro k
  by_cases hk : k ∈ (pgNodeKeys g root).map (·.2)
  · obtain ⟨nk, hnk, rfl⟩ := List.mem_map.1 hk
    rw [hb.1 nk hnk, hb'.1 nk hnk]
  · rw [hb.2 k hk, hb'.2 k hk]

/-- The root key is bound to the image of the root. -/
theorem BindingOf.root {g : PortGraph} {root : Nat} {cs : List PGCons} {φ : List (Nat × Nat)}
    {m : PGMap} (hcs : pgConstraints g root = some cs) (hb : BindingOf g root φ m) :
    alGet m (.root 0) = alGet φ root := by
  obtain ⟨cs0, h0, _⟩ := pgConstraints_cases hcs
  exact hb.1 (root, .root 0) (alGet_mem (consLines_keys g root cs0 h0).1)

/-- Transport along a relabelling of the host. -/
theorem BindingOf.map {g : PortGraph} {root : Nat} {φ : List (Nat × Nat)} {m m' : PGMap}
    (ρ : Nat → Nat) (hb : BindingOf g root φ m)
    (hb' : BindingOf g root (φ.map fun x => (x.1, ρ x.2)) m') :
    ∀ k, alGet m' k = (alGet m k).map ρ := by
  intro k
  by_cases hk : k ∈ (pgNodeKeys g root).map (·.2)
  · obtain ⟨nk, hnk, rfl⟩ := List.mem_map.1 hk
    rw [hb.1 nk hnk, hb'.1 nk hnk, alGet_map_snd]
  · rw [hb.2 k hk, hb'.2 k hk]
    rfl

/-! ### a binding with prescribed `get` -/

/-- The association list of the keys `ks` with their values. -/
def mapOf (ks : List PGKey) (val : PGKey → Option Nat) : PGMap :=
  ks.filterMap fun k => (val k).map fun v => (k, v)

theorem mapGets_mapOf (ks : List PGKey) (val : PGKey → Option Nat) :
    MapGets (mapOf ks val) ks val := by
  intro k
  induction ks with
  | nil => rfl
  | cons k0 ks ih =>
    unfold mapOf at ih ⊢
    rw [List.filterMap_cons]
    cases hv : val k0 with
    | none =>
      simp only [Option.map_none]
      rw [ih]
      by_cases hk : k = k0
      · subst hk
        simp [hv]
      · simp [hk]
    | some v =>
      simp only [Option.map_some, alGet]
      by_cases hk : k0 = k
      · subst hk
        simp [hv]
      · have hk' : ¬ k = k0 := fun e => hk e.symm
        rw [if_neg hk, ih]
        simp [hk']

theorem mapGets_eqv {m m' : PGMap} {ks : List PGKey} {val : PGKey → Option Nat}
    (h : MapGets m ks val) (h' : MapGets m' ks val) : MapEqv m m' :=
  fun k => (h k).trans (h' k).symm

theorem mapGets_congr_keys {m : PGMap} {ks ks' : List PGKey} {val : PGKey → Option Nat}
    (hks : ∀ x, x ∈ ks ↔ x ∈ ks') (h : MapGets m ks val) : MapGets m ks' val := by
  intro k
  rw [h k]
  by_cases hk : k ∈ ks
  · rw [if_pos hk, if_pos ((hks k).1 hk)]
  · rw [if_neg hk, if_neg (fun h' => hk ((hks k).2 h'))]

/-! ### the composition -/

section Compose
variable {g h : PortGraph} {root : Nat} {cs : List PGCons} {ks : List PGKey}

/-- **Anchored acceptance ⇒ embedding** (needs coverage, i.e. a connected well-formed pattern
with a live root): the induced node map `pgPhi g root h r` is an embedding, sends the root to
`r`, and `m` is the binding it induces. -/
theorem emb_of_anch (hg : g.LinksOK) (hconn : pgConnected g = true)
    (hroot : (g.node? root).isSome = true) (hh : h.LinksOK)
    (hcs : pgConstraints g root = some cs)
    (hks : ∀ x, x ∈ ks ↔ x ∈ (pgNodeKeys g root).map (·.2)) {m : PGMap} {r : Nat}
    (hrn : r ∈ h.nodesIter) (hsat : ∀ c ∈ cs, pgSigmaAnch h r c = true)
    (hget : MapGets m ks (pgVal h r)) :
    embedsPG g h (pgPhi g root h r) = true ∧ alGet (pgPhi g root h r) root = some r ∧
      BindingOf g root (pgPhi g root h r) m := by
  have hr : (h.node? r).isSome = true := (h.mem_nodesIter r).1 hrn
  have hcov := tdom_pg_cover g root hg hconn hroot
  obtain ⟨hemb, hroot'⟩ := tdom_pg_sound_connected g h root r cs hh hr hcs hcov hsat
  have hs := (tdom_pg_sound g h root r cs hh hr hcs hsat).1
  refine ⟨hemb, hroot', ?_, ?_⟩
  · intro nk hnk
    obtain ⟨v, hv1, hv2⟩ := hs nk hnk
    rw [hget nk.2, if_pos ((hks nk.2).2 (List.mem_map.2 ⟨nk, hnk, rfl⟩)), hv1, hv2]
  · intro k hk
    rw [hget k, if_neg (fun h' => hk ((hks k).1 h'))]

/-- **Embedding ⇒ anchored acceptance** (no coverage needed): an embedding that sends the root
to `r` satisfies every constraint at the anchor `r`, every node key is defined there, and the
binding induced by the embedding is the binding of the keys to their values. -/
theorem anch_of_emb (hg : g.LinksOK) (hh : h.LinksOK) (hcs : pgConstraints g root = some cs)
    (hsr : pgSigMultiRoot cs = false)
    (hks : ∀ x, x ∈ ks ↔ x ∈ (pgNodeKeys g root).map (·.2)) {φ : List (Nat × Nat)} {r : Nat}
    (hemb : embedsPG g h φ = true) (hroot : alGet φ root = some r) :
    r ∈ h.nodesIter ∧ (∀ c ∈ cs, pgSigmaAnch h r c = true) ∧
      (∀ k ∈ ks, (pgVal h r k).isSome = true) ∧
      ∀ m, BindingOf g root φ m ↔ MapGets m ks (pgVal h r) := by
  have hr : (h.node? r).isSome = true :=
    ((embedsPG_iff g h φ).1 hemb).2.2.1 (root, r) (alGet_mem hroot)
  have hsat := tdom_pg_complete g h root r cs φ hg hh hcs hsr hemb hroot
  have hkeys := tdom_pg_complete_keys g h root r cs φ hg hh hcs hsr hemb hroot
  refine ⟨(h.mem_nodesIter r).2 hr, hsat, ?_, ?_⟩
  · intro k hk
    obtain ⟨nk, hnk, rfl⟩ := List.mem_map.1 ((hks k).1 hk)
    obtain ⟨v, _, hv⟩ := hkeys nk hnk
    rw [hv]; rfl
  · intro m
    constructor
    · intro hb k
      by_cases hk : k ∈ ks
      · obtain ⟨nk, hnk, rfl⟩ := List.mem_map.1 ((hks k).1 hk)
        obtain ⟨v, hv1, hv2⟩ := hkeys nk hnk
        rw [if_pos hk, hb.1 nk hnk, hv1, hv2]
      · rw [if_neg hk]
        exact hb.2 k (fun h' => hk ((hks k).2 h'))
    · intro hget
      refine ⟨?_, ?_⟩
      · intro nk hnk
        obtain ⟨v, hv1, hv2⟩ := hkeys nk hnk
        rw [hget nk.2, if_pos ((hks nk.2).2 (List.mem_map.2 ⟨nk, hnk, rfl⟩)), hv1, hv2]
      · intro k hk
        rw [hget k, if_neg (fun h' => hk ((hks k).1 h'))]

/-- An embedding assigns the (live) root. -/
theorem emb_root {φ : List (Nat × Nat)} (hroot : (g.node? root).isSome = true)
    (hemb : embedsPG g h φ = true) : ∃ r, alGet φ root = some r :=
  Option.isSome_iff_exists.1
    (((embedsPG_iff g h φ).1 hemb).1 root ((g.mem_nodesIter root).2 hroot))

/-- **The composition**: the right-hand side of the anchored traversal theorems, for a key list
that (as a set) is the set of node keys, is "some embedding induces `m`". -/
theorem anch_iff_emb (hg : g.LinksOK) (hconn : pgConnected g = true)
    (hroot : (g.node? root).isSome = true) (hh : h.LinksOK)
    (hcs : pgConstraints g root = some cs) (hsr : pgSigMultiRoot cs = false)
    (hks : ∀ x, x ∈ ks ↔ x ∈ (pgNodeKeys g root).map (·.2)) (m : PGMap) :
    (∃ r, r ∈ h.nodesIter ∧ (∀ c ∈ cs, pgSigmaAnch h r c = true) ∧
        (∀ k ∈ ks, (pgVal h r k).isSome = true) ∧ MapGets m ks (pgVal h r)) ↔
      ∃ φ, embedsPG g h φ = true ∧ BindingOf g root φ m := by
  constructor
  · rintro ⟨r, hrn, hsat, _, hget⟩
    obtain ⟨h1, _, h3⟩ := emb_of_anch hg hconn hroot hh hcs hks hrn hsat hget
    exact ⟨_, h1, h3⟩
  · rintro ⟨φ, hemb, hb⟩
    obtain ⟨r, hr⟩ := emb_root hroot hemb
    obtain ⟨h1, h2, h3, h4⟩ := anch_of_emb hg hh hcs hsr hks hemb hr
    exact ⟨r, h1, h2, h3, (h4 m).1 hb⟩

/-- Every embedding of a covered pattern is, on the pattern's nodes, the induced map of its root
image; in particular two embeddings with the same root image agree on the pattern's nodes. -/
theorem emb_unique (hg : g.LinksOK) (hconn : pgConnected g = true)
    (hroot : (g.node? root).isSome = true) (hh : h.LinksOK)
    (hcs : pgConstraints g root = some cs) (hsr : pgSigMultiRoot cs = false)
    {φ : List (Nat × Nat)} {r : Nat} (hemb : embedsPG g h φ = true)
    (hr : alGet φ root = some r) :
    ∀ n ∈ g.nodesIter, alGet φ n = alGet (pgPhi g root h r) n :=
  tdom_pg_unique g h root r cs φ hg hh hcs hsr (tdom_pg_cover g root hg hconn hroot) hemb hr

/-- The binding induced by an embedding binds exactly the keys of `ks`. -/
theorem binds_exactly (hg : g.LinksOK) (hh : h.LinksOK) (hcs : pgConstraints g root = some cs)
    (hsr : pgSigMultiRoot cs = false)
    (hks : ∀ x, x ∈ ks ↔ x ∈ (pgNodeKeys g root).map (·.2)) {φ : List (Nat × Nat)} {r : Nat}
    (hemb : embedsPG g h φ = true) (hroot : alGet φ root = some r) {m : PGMap}
    (hb : BindingOf g root φ m) : ∀ k, (alGet m k).isSome = true ↔ k ∈ ks := by
  obtain ⟨_, _, h3, h4⟩ := anch_of_emb hg hh hcs hsr hks hemb hroot
  have hget := (h4 m).1 hb
  intro k
  rw [hget k]
  by_cases hk : k ∈ ks
  · rw [if_pos hk]
    exact ⟨fun _ => hk, fun _ => h3 k hk⟩
  · rw [if_neg hk]
    constructor
    · intro h'
      cases h'
    · intro h'
      exact absurd h' hk

end Compose

/-! ### distinct pattern nodes get distinct keys -/

theorem nodup_map_of_filterMap {α β γ : Type} (key : α → β) (f : β → Option γ) :
    ∀ (l : List α), (∀ x ∈ l, (f (key x)).isSome = true) →
      (l.filterMap fun x => f (key x)).Nodup → (l.map key).Nodup
  | [], _, _ => by simp
  | x :: xs, hdef, hnd => by
    obtain ⟨v, hv⟩ := Option.isSome_iff_exists.1 (hdef x List.mem_cons_self)
    rw [List.filterMap_cons, hv, List.nodup_cons] at hnd
    rw [List.map_cons, List.nodup_cons]
    refine ⟨?_, nodup_map_of_filterMap key f xs
      (fun y hy => hdef y (List.mem_cons_of_mem _ hy)) hnd.2⟩
    intro hmem
    obtain ⟨y, hy, hyx⟩ := List.mem_map.1 hmem
    exact hnd.1 (List.mem_filterMap.2 ⟨y, hy, by rw [hyx, hv]⟩)

/-- **Distinct nodes of a well-formed single-root pattern get distinct keys** (the pattern embeds
in itself, so its keys have pairwise distinct values at the anchor `root` of the host `g`). -/
theorem nodeKeys_nodup {g : PortGraph} {root : Nat} {cs : List PGCons} (hg : g.LinksOK)
    (hroot : (g.node? root).isSome = true) (hcs : pgConstraints g root = some cs)
    (hsr : pgSigMultiRoot cs = false) : ((pgNodeKeys g root).map (·.2)).Nodup := by
  have hemb := c11_embedsPG_self g hg
  have hr : alGet (g.nodesIter.map fun n => (n, n)) root = some root :=
    alGet_diag_mem ((g.mem_nodesIter root).2 hroot)
  have hsat := tdom_pg_complete g g root root cs _ hg hg hcs hsr hemb hr
  obtain ⟨h1, h2, _⟩ := tdom_pg_sound g g root root cs hg hroot hcs hsat
  rw [pgPhi_map_snd] at h2
  exact nodup_map_of_filterMap (fun nk : Nat × PGKey => nk.2) (pgVal g root) _
    (fun nk hnk => by obtain ⟨v, hv, _⟩ := h1 nk hnk; rw [hv]; rfl) h2

/-- The pattern node whose key is `k`. -/
def keyNode (g : PortGraph) (root : Nat) (k : PGKey) : Option Nat :=
  ((pgNodeKeys g root).find? fun nk => nk.2 = k).map (·.1)

/-- `BindingOf` as a `MapGets`: on the keys of `ks`, `get` is the image under `φ` of the node
whose key it is. -/
theorem bindingOf_iff_mapGets {g : PortGraph} {root : Nat} {ks : List PGKey}
    (hnd : ((pgNodeKeys g root).map (·.2)).Nodup)
    (hks : ∀ x, x ∈ ks ↔ x ∈ (pgNodeKeys g root).map (·.2)) (φ : List (Nat × Nat)) (m : PGMap) :
    BindingOf g root φ m ↔ MapGets m ks fun k => (keyNode g root k).bind (alGet φ) := by
  have hfind : ∀ nk ∈ pgNodeKeys g root,
      (pgNodeKeys g root).find? (fun x => x.2 = nk.2) = some nk := by
    intro nk hnk
    cases hf : (pgNodeKeys g root).find? (fun x => x.2 = nk.2) with
    | none =>
      have := List.find?_eq_none.1 hf nk hnk
      simp at this
    | some nk' =>
      have h1 : nk'.2 = nk.2 := by simpa using List.find?_some hf
      have h2 := List.mem_of_find?_eq_some hf
      rw [inj_of_nodup_map (·.2) _ hnd nk' h2 nk hnk h1]
  have hkn : ∀ nk ∈ pgNodeKeys g root, (keyNode g root nk.2).bind (alGet φ) = alGet φ nk.1 := by
    intro nk hnk
    unfold keyNode
    rw [hfind nk hnk]
    rfl
  constructor
  · intro hb k
    by_cases hk : k ∈ ks
    · obtain ⟨nk, hnk, rfl⟩ := List.mem_map.1 ((hks k).1 hk)
      rw [if_pos hk, hb.1 nk hnk]
      exact (hkn nk hnk).symm
    · rw [if_neg hk]
      exact hb.2 k (fun h' => hk ((hks k).2 h'))
  · intro hget
    refine ⟨?_, ?_⟩
    · intro nk hnk
      rw [hget nk.2, if_pos ((hks nk.2).2 (List.mem_map.2 ⟨nk, hnk, rfl⟩))]
      exact hkn nk hnk
    · intro k hk
      rw [hget k, if_neg (fun h' => hk ((hks k).1 h'))]

/-! ### root images -/

theorem mem_pgRootImages {g h : PortGraph} {root r : Nat} (hr : r ∈ pgRootImages g h root) :
    ∃ φ, embedsPG g h φ = true ∧ alGet φ root = some r := by
  unfold pgRootImages at hr
  rw [List.mem_eraseDups] at hr
  obtain ⟨φ, hφ, he⟩ := List.mem_filterMap.1 hr
  unfold allEmbeddings at hφ
  exact ⟨φ, (List.mem_filter.1 hφ).2, he⟩

end Pm.PGComp
