/-
Proofs/C08Cex.lean — FINDING (C08): the traversal of a successfully built automaton can panic.

The guarded `build` accepts event logs in which the same state is emitted twice by the toposort
(`Topo` events are only checked for "the state exists", guard c1). With such a log a state is
given a second epsilon transition by `make_det` of its parent and is never normalised again:
patterns `ab`, `a$x$x`, `$xb`, `$x$yc`; log: the root is processed without being determinised
(its `'a'@0` transitions are fused into state 7, the other constraints move behind a fallback
transition to state 3), then state 7 is processed (it gets a fallback transition of its own and
stays non-deterministic), then state 3 (likewise), then the root is emitted AGAIN and this time
determinised: `make_det` copies the transitions of the fallback state 3 — among them its epsilon
transition — onto the non-deterministic child 7, which now has two epsilon transitions. On the
host `a` the traversal reaches state 7 and `fail_next_state` panics on its `assert!`.
The build succeeds (guarded and lenient), the automaton satisfies `OrdersOK`, `StateOK`, is
acyclic — only "at most one epsilon transition per state" fails. The same for matrices.
(An event log of the real Rust code emits every state at most once; whether a real log can
produce two epsilon transitions at a reachable state is not decided here.)
-/
import PmVerif.Model.ManyMatcher
namespace Pm
namespace C08

def cexStrPatterns : List (List CharVar) :=
  [[.lit 97, .lit 98],            -- ab
   [.lit 97, .var 0, .var 0],     -- a$x$x
   [.var 0, .lit 98],             -- $xb
   [.var 0, .var 1, .lit 99]]     -- $x$yc

/-- State 0 (the root) is emitted twice. -/
def cexStrEvents : List Ev :=
  [.topo 0, .group 0 [0, 2], .detAsk 0, .iterEnd 0,
   .topo 7, .detAsk 7, .iterEnd 7,
   .topo 3, .detAsk 3, .iterEnd 3,
   .topo 0, .detAsk 0, .detYes 0, .iterEnd 0]

def cexMatPatterns : List MatPattern := cexStrPatterns.map fun p => [p.map some]

def cexMatEvents : List Ev :=
  [.topo 0, .group 0 [0, 2], .detAsk 0, .iterEnd 0,
   .topo 10, .detAsk 10, .iterEnd 10,
   .topo 3, .detAsk 3, .iterEnd 3,
   .topo 0, .detAsk 0, .detYes 0, .iterEnd 0]

set_option maxRecDepth 100000 in
/-- The build succeeds, and the traversal of the built automaton on the host `a` panics. -/
theorem cexStr_panics : ∃ M,
    manyBuild (fun p => some (strConstraints p)) (fun _ => ([] : List Nat)) (charTree natLt)
      strReq 50 true cexStrPatterns cexStrEvents = some (.ok M) ∧
    run strDomain M.automaton [97] 100 =
      .error (.panic "fail_next_state: more than one epsilon transition") :=
  ⟨_, rfl, by rfl⟩

/-- State 7 of that automaton has the two epsilon transitions `[0, 9]`. -/
theorem cexStr_two_eps : ∃ M w,
    manyBuild (fun p => some (strConstraints p)) (fun _ => ([] : List Nat)) (charTree natLt)
      strReq 50 true cexStrPatterns cexStrEvents = some (.ok M) ∧
    M.automaton.g.weight? 7 = some w ∧ w.eorder = [0, 9] ∧ w.det = false :=
  ⟨_, _, rfl, rfl, by decide, by decide⟩

/-- The packaged matcher. -/
theorem cexStr_findMatches : strFindMatches cexStrPatterns cexStrEvents [97] 100 =
    .error (.panic "fail_next_state: more than one epsilon transition") := by rfl

/-- On hosts that do not reach state 7 the run is fine. -/
example : strFindMatches cexStrPatterns cexStrEvents [98] 100 = .ok [] := by rfl

set_option maxRecDepth 100000 in
/-- The lenient build (the Rust code as it runs) accepts the log as well. -/
theorem cexStr_lenient : ∃ inputs A,
    manyInputs (fun p => some (strConstraints p)) (fun _ => ([] : List Nat)) true
      cexStrPatterns 0 = some inputs ∧
    Automaton.buildL (charTree natLt) strReq 50 inputs cexStrEvents = .ok A ∧
    run strDomain A [97] 100 =
      .error (.panic "fail_next_state: more than one epsilon transition") :=
  ⟨_, _, rfl, rfl, by rfl⟩

set_option maxRecDepth 100000 in
/-- Matrices: the same patterns as one-row matrices. -/
theorem cexMat_panics : ∃ M,
    manyBuild (fun p => some (matConstraints p)) (fun _ => ([] : List MKey)) (charTree mkeyLt)
      matReq 50 true cexMatPatterns cexMatEvents = some (.ok M) ∧
    run matDomain M.automaton [[97]] 100 =
      .error (.panic "fail_next_state: more than one epsilon transition") :=
  ⟨_, rfl, by rfl⟩

theorem cexMat_findMatches : matFindMatches cexMatPatterns cexMatEvents [[97]] 100 =
    .error (.panic "fail_next_state: more than one epsilon transition") := by rfl

end C08
end Pm
