/-
Proofs/C09PGTL.lean — C09 clause (c) for the replay of the Rust loop (`buildTL`) over an ARBITRARY
decomposition (nested trees included: port graphs `pgTree`, tables), as far as it goes
(namespace `Pm.C09PG`).

What the one-epsilon argument really needs (read off `C09TL.iterationWithL_e1`): at the emission of
`s` NO CHILD of `s` has a fallback transition (`C09E.ChildEF a s`).  Nothing about `s` itself (the
second pass of `make_constraints_unique(s)` fuses whatever epsilon transitions `s` carries — an
inherited one, one per root label, the one to the fail state — into one), nothing about
deterministic children (c1D), no `make_det` guard.  So:

* `mainLoopLK` / `buildTLK` — `buildTL` + the decidable guard c1K = `GE.childEpsFree` at every
  emission; `buildTLK_e1`: clause (c) for every decomposition, every log;
* `buildTLK_imp_buildTL` (only a guard), `buildTLE_imp_buildTLK`, `buildTE_imp_buildTLK`
  (c1K is weaker than c1E of `buildTLE`, and than c1D + c1E of `buildTE`);
* `buildTL_e1_of_inv` — the invariant route in abstract form: ANY predicate `I a E` on (automaton,
  emitted ids) that holds initially, is kept by an iteration of the Rust loop and gives
  `ChildEF a s` at an admissible emission yields clause (c) for `buildTL` itself (`GE.INV` is one
  such `I` for flat decompositions).
-/
import PmVerif.Proofs.C09TLLoop
namespace Pm
namespace C09PG
open Automaton Pm.C09E Pm.GE Pm.C08A Pm.C09TL TBL
variable {K P : Type} [DecidableEq K] [DecidableEq P]
set_option linter.unusedSectionVars false

/-- `mainLoopWith makeDetL` (the Rust loop) with the guard c1K checked at every emission: no
current child of the emitted state has a fallback transition.  Nothing else is added (no c1D, no
condition on the emitted state itself, no `make_det` guard). -/
def mainLoopLK (toTree : List (Constraint K P) → Option (CTree (Constraint K P))) (fuel : Nat) :
    Nat → Automaton K P → List Nat → List Ev → R (Automaton K P)
  | _, a, emitted, [] =>
    if a.g.nodeIndices.all emitted.contains then .ok a
    else .error (.guard "c1C: the log ends although a live state was never emitted")
  | 0, _, _, _ :: _ => .error (.fuel "main loop")
  | n + 1, a, emitted, .topo s :: evs =>
    if !a.topoAdmissible emitted s then
      .error (.guard "c1T: state emitted twice or before one of its predecessors")
    else if !childEpsFree a s then
      .error (.guard "c1K: a child of the emitted state already has a fallback transition")
    else
      match iterationWith makeDetL toTree fuel a s evs with
      | .error e => .error e
      | .ok (a, evs) => mainLoopLK toTree fuel n a (s :: emitted) evs
  | _, _, _, _ :: _ => .error (.guard "expected a Topo event")

/-- The replay of the Rust loop with the guard c1K. -/
def buildTLK (toTree : List (Constraint K P) → Option (CTree (Constraint K P))) (req : K → List K)
    (fuel : Nat) (patterns : List (Nat × List (Constraint K P) × List K)) (evs : List Ev) :
    R (Automaton K P) :=
  match addPatterns req fuel new patterns with
  | .error e => .error e
  | .ok a =>
    match mainLoopLK toTree fuel evs.length a [] evs with
    | .error e => .error e
    | .ok a => populateScopes req fuel a

variable {toTree : List (Constraint K P) → Option (CTree (Constraint K P))}

/-! ### clause (c) under c1K -/

theorem mainLoopLK_e1 {fuel : Nat} :
    ∀ (n : Nat) {a a' : Automaton K P} {E : List Nat} {evs : List Ev},
      Inv a → E1All a → mainLoopLK toTree fuel n a E evs = .ok a' → Inv a' ∧ E1All a' := by
  intro n
  induction n with
  | zero =>
    intro a a' E evs inv E1 h
    cases evs with
    | nil =>
      unfold mainLoopLK at h
      split at h
      · cases h; exact ⟨inv, E1⟩
      · cases h
    | cons e es => unfold mainLoopLK at h; cases h
  | succ n ih =>
    intro a a' E evs inv E1 h
    cases evs with
    | nil =>
      unfold mainLoopLK at h
      split at h
      · cases h; exact ⟨inv, E1⟩
      · cases h
    | cons e es =>
      cases e with
      | topo s =>
        unfold mainLoopLK at h
        split at h
        · cases h
        · split at h
          · cases h
          · rename_i hk
            have hk' : childEpsFree a s = true := by
              cases hx : childEpsFree a s <;> simp_all
            split at h
            · cases h
            · rename_i a1 evs1 h1
              obtain ⟨inv1, E1'⟩ :=
                iterationWithL_e1 inv E1 (childEF_of_childEpsFree inv hk') h1
              exact ih inv1 E1' h
      | _ => unfold mainLoopLK at h; cases h

/-- **Every automaton `buildTLK` returns has at most one epsilon transition per state** — any
decomposition, any scheme, any inputs, any log. -/
theorem buildTLK_e1 {req : K → List K} {fuel : Nat}
    {patterns : List (Nat × List (Constraint K P) × List K)} {evs : List Ev} {A : Automaton K P}
    (h : buildTLK toTree req fuel patterns evs = .ok A) : Inv A ∧ E1All A := by
  unfold buildTLK at h
  split at h
  · cases h
  · rename_i a1 h1
    obtain ⟨inv0, _, rs0, _⟩ := new_spec (K := K) (P := P)
    obtain ⟨inv1, hc1⟩ := allCons_addPatterns patterns inv0 rs0.1 allCons_new h1
    split at h
    · cases h
    · rename_i a2 h2
      obtain ⟨inv2, E2⟩ := mainLoopLK_e1 _ inv1 hc1.e1All h2
      obtain ⟨inv3, _, he3, _⟩ := populateScopes_frame inv2 h
      exact ⟨inv3, e1All_of_sub E2 fun t e he => by rw [← he3]; exact he⟩

/-! ### the guard only rejects; it is weaker than c1E and than c1D + c1E -/

theorem mainLoopLK_imp {fuel : Nat} :
    ∀ (n : Nat) {a a' : Automaton K P} {E : List Nat} {evs : List Ev},
      mainLoopLK toTree fuel n a E evs = .ok a' →
      mainLoopWith makeDetL toTree fuel n a E evs = .ok a' := by
  intro n
  induction n with
  | zero =>
    intro a a' E evs h
    cases evs with
    | nil => unfold mainLoopLK at h; unfold mainLoopWith; exact h
    | cons e es => unfold mainLoopLK at h; cases h
  | succ n ih =>
    intro a a' E evs h
    cases evs with
    | nil => unfold mainLoopLK at h; unfold mainLoopWith; exact h
    | cons e es =>
      cases e with
      | topo s =>
        unfold mainLoopLK at h
        unfold mainLoopWith
        split at h
        · cases h
        · rename_i hadm
          rw [if_neg hadm]
          split at h
          · cases h
          · split at h
            · cases h
            · rename_i a1 evs1 h1
              rw [h1]
              exact ih h
      | _ => unfold mainLoopLK at h; cases h

theorem buildTLK_imp_buildTL {req : K → List K} {fuel : Nat}
    {patterns : List (Nat × List (Constraint K P) × List K)} {evs : List Ev} {A : Automaton K P}
    (h : buildTLK toTree req fuel patterns evs = .ok A) :
    buildTL toTree req fuel patterns evs = .ok A := by
  unfold buildTLK at h
  unfold buildTL finishWith
  cases h1 : addPatterns req fuel (new : Automaton K P) patterns with
  | error e => rw [h1] at h; cases h
  | ok a1 =>
    rw [h1] at h
    simp only at h ⊢
    cases h2 : mainLoopLK toTree fuel evs.length a1 [] evs with
    | error e => rw [h2] at h; cases h
    | ok a2 =>
      rw [h2] at h
      rw [mainLoopLK_imp _ h2]
      exact h

/-- c1E (`epsFreeAt`) contains c1K (`childEpsFree`). -/
theorem childEpsFree_of_epsFreeAt {a : Automaton K P} {s : Nat} (h : a.epsFreeAt s = true) :
    childEpsFree a s = true := by
  unfold epsFreeAt at h
  unfold childEpsFree
  simp only [Bool.and_eq_true] at h
  exact h.2

theorem mainLoopLE_imp_LK {fuel : Nat} :
    ∀ (n : Nat) {a a' : Automaton K P} {E : List Nat} {evs : List Ev},
      mainLoopLE toTree fuel n a E evs = .ok a' → mainLoopLK toTree fuel n a E evs = .ok a' := by
  intro n
  induction n with
  | zero =>
    intro a a' E evs h
    cases evs with
    | nil => unfold mainLoopLE at h; unfold mainLoopLK; exact h
    | cons e es => unfold mainLoopLE at h; cases h
  | succ n ih =>
    intro a a' E evs h
    cases evs with
    | nil => unfold mainLoopLE at h; unfold mainLoopLK; exact h
    | cons e es =>
      cases e with
      | topo s =>
        unfold mainLoopLE at h
        unfold mainLoopLK
        split at h
        · cases h
        · rename_i hadm
          rw [if_neg hadm]
          split at h
          · cases h
          · rename_i he
            have he' : a.epsFreeAt s = true := by
              cases hx : a.epsFreeAt s <;> simp_all
            have hc : (!childEpsFree a s) = false := by
              rw [childEpsFree_of_epsFreeAt he']; rfl
            rw [hc]
            simp only [Bool.false_eq_true, if_false]
            split at h
            · cases h
            · rename_i a1 evs1 h1
              rw [h1]
              exact ih h
      | _ => unfold mainLoopLE at h; cases h

/-- `buildTLE` (= `buildTL` + c1E) is a restriction of `buildTLK`. -/
theorem buildTLE_imp_buildTLK {req : K → List K} {fuel : Nat}
    {patterns : List (Nat × List (Constraint K P) × List K)} {evs : List Ev} {A : Automaton K P}
    (h : buildTLE toTree req fuel patterns evs = .ok A) :
    buildTLK toTree req fuel patterns evs = .ok A := by
  unfold buildTLE at h
  unfold buildTLK
  cases h1 : addPatterns req fuel (new : Automaton K P) patterns with
  | error e => rw [h1] at h; cases h
  | ok a1 =>
    rw [h1] at h
    simp only at h ⊢
    cases h2 : mainLoopLE toTree fuel evs.length a1 [] evs with
    | error e => rw [h2] at h; cases h
    | ok a2 =>
      rw [h2] at h
      rw [mainLoopLE_imp_LK _ h2]
      exact h

theorem mainLoopE_imp_LK {fuel : Nat} :
    ∀ (n : Nat) {a a' : Automaton K P} {E : List Nat} {evs : List Ev},
      mainLoopE makeDet toTree fuel n a E evs = .ok a' →
      mainLoopLK toTree fuel n a E evs = .ok a' := by
  intro n
  induction n with
  | zero =>
    intro a a' E evs h
    cases evs with
    | nil => unfold mainLoopE at h; unfold mainLoopLK; exact h
    | cons e es => unfold mainLoopE at h; cases h
  | succ n ih =>
    intro a a' E evs h
    cases evs with
    | nil => unfold mainLoopE at h; unfold mainLoopLK; exact h
    | cons e es =>
      cases e with
      | topo s =>
        unfold mainLoopE at h
        unfold mainLoopLK
        split at h
        · cases h
        · rename_i hadm
          rw [if_neg hadm]
          split at h
          · cases h
          · split at h
            · cases h
            · rename_i he
              have he' : a.epsFreeAt s = true := by
                cases hx : a.epsFreeAt s <;> simp_all
              have hc : (!childEpsFree a s) = false := by
                rw [childEpsFree_of_epsFreeAt he']; rfl
              rw [hc]
              simp only [Bool.false_eq_true, if_false]
              split at h
              · cases h
              · rename_i a1 evs1 h1
                rw [iterationWith_mono (fun _ _ _ hm => GE.makeDetL_of_makeDet hm) h1]
                exact ih h
      | _ => unfold mainLoopE at h; cases h

/-- The strictest replay `buildTE` (c1D + c1E, guarded `make_det`) is a restriction of
`buildTLK`. -/
theorem buildTE_imp_buildTLK {req : K → List K} {fuel : Nat}
    {patterns : List (Nat × List (Constraint K P) × List K)} {evs : List Ev} {A : Automaton K P}
    (h : buildTE toTree req fuel patterns evs = .ok A) :
    buildTLK toTree req fuel patterns evs = .ok A := by
  unfold buildTE finishE at h
  unfold buildTLK
  cases h1 : addPatterns req fuel (new : Automaton K P) patterns with
  | error e => rw [h1] at h; cases h
  | ok a1 =>
    rw [h1] at h
    simp only at h ⊢
    cases h2 : mainLoopE makeDet toTree fuel evs.length a1 [] evs with
    | error e => rw [h2] at h; cases h
    | ok a2 =>
      rw [h2] at h
      rw [mainLoopE_imp_LK _ h2]
      exact h

/-! ### the invariant route, abstractly -/

/-- What an emission-time invariant `I a E` (`E` = emitted ids) has to provide for clause (c) of
`buildTL` itself: it holds of the trie, an iteration of the Rust loop at an admissible `s` keeps it
(with `Inv`, acyclicity and one-epsilon available), and at an admissible emission it says that no
child of `s` has a fallback transition. -/
structure EmitInv (toTree : List (Constraint K P) → Option (CTree (Constraint K P)))
    (I : Automaton K P → List Nat → Prop) : Prop where
  childEF : ∀ {a : Automaton K P} {E : List Nat} {s : Nat}, Inv a → Acyclic a → E1All a → I a E →
    a.topoAdmissible E s = true → ChildEF a s
  step : ∀ {fuel : Nat} {a a' : Automaton K P} {E : List Nat} {s : Nat} {evs evs' : List Ev},
    Inv a → Acyclic a → E1All a → I a E → a.topoAdmissible E s = true →
    iterationWith makeDetL toTree fuel a s evs = .ok (a', evs') → I a' (s :: E)

/-- `GE.INV` with the two step contracts is such an invariant. -/
theorem emitInv_INV (TK : TreeKeeps toTree) (DK : DetKeepsJ K P) : EmitInv toTree INV :=
  ⟨fun inv _ _ hI hadm => childEF_of_INV hI (preds_of_admissible inv hadm).1,
   fun inv H _ hI hadm h => (iteration_keepsINV TK DK inv H hI hadm h).2.2⟩

theorem mainLoopL_e1_of_inv {I : Automaton K P → List Nat → Prop} (hI : EmitInv toTree I)
    {fuel : Nat} :
    ∀ (n : Nat) {a a' : Automaton K P} {E : List Nat} {evs : List Ev},
      Inv a → Acyclic a → E1All a → I a E →
      mainLoopWith makeDetL toTree fuel n a E evs = .ok a' →
      (Inv a' ∧ E1All a') ∧ mainLoopLK toTree fuel n a E evs = .ok a' := by
  intro n
  induction n with
  | zero =>
    intro a a' E evs inv H E1 i0 h
    cases evs with
    | nil =>
      unfold mainLoopLK
      unfold mainLoopWith at h
      refine ⟨?_, h⟩
      split at h
      · cases h; exact ⟨inv, E1⟩
      · cases h
    | cons e es => unfold mainLoopWith at h; cases h
  | succ n ih =>
    intro a a' E evs inv H E1 i0 h
    cases evs with
    | nil =>
      unfold mainLoopLK
      unfold mainLoopWith at h
      refine ⟨?_, h⟩
      split at h
      · cases h; exact ⟨inv, E1⟩
      · cases h
    | cons e es =>
      cases e with
      | topo s =>
        unfold mainLoopWith at h
        unfold mainLoopLK
        split at h
        · cases h
        · rename_i hadm
          rw [if_neg hadm]
          have hadm' : a.topoAdmissible E s = true := by
            cases hx : a.topoAdmissible E s <;> simp_all
          have hce := hI.childEF inv H E1 i0 hadm'
          have hk : childEpsFree a s = true := by
            unfold childEpsFree
            rw [List.all_eq_true]
            intro x hx
            obtain ⟨nd, t, e, hnd, hout, he, hd⟩ := SGraph.mem_succs.1 hx
            cases hw : a.g.weight? x with
            | none => rfl
            | some w =>
              simp only
              have hsrc : e.src = s := by
                obtain ⟨ed, hed, hs'⟩ := inv.wf.out_edge s nd hnd t hout
                rw [he] at hed; cases hed
                exact hs'
              rw [eorder_nil_of_ef inv hw (hd ▸ hce t e he hsrc)]
              rfl
          have hc : (!childEpsFree a s) = false := by rw [hk]; rfl
          rw [hc]
          simp only [Bool.false_eq_true, if_false]
          split at h
          · cases h
          · rename_i a1 evs1 h1
            rw [h1]
            simp only
            obtain ⟨inv1, E1'⟩ := iterationWithL_e1 inv E1 hce h1
            obtain ⟨_, H1⟩ := acyclic_iterationWith detAcyc_makeDetL inv H h1
            exact ih inv1 H1 E1' (hI.step inv H E1 i0 hadm' h1) h
      | _ => unfold mainLoopWith at h; cases h

/-- **The invariant route**: an emission-time invariant in the sense of `EmitInv` that holds of
the trie gives, for every log `buildTL` accepts, clause (c) — and c1K at every emission
(`buildTLK` accepts the log with the same result). -/
theorem buildTL_e1_of_inv {I : Automaton K P → List Nat → Prop} (hI : EmitInv toTree I)
    {req : K → List K} {fuel : Nat}
    {patterns : List (Nat × List (Constraint K P) × List K)} {evs : List Ev} {A : Automaton K P}
    (hinit : ∀ a0, addPatterns req fuel (new : Automaton K P) patterns = .ok a0 → I a0 [])
    (h : buildTL toTree req fuel patterns evs = .ok A) :
    (Inv A ∧ E1All A) ∧ buildTLK toTree req fuel patterns evs = .ok A := by
  unfold buildTL at h
  unfold buildTLK
  cases h1 : addPatterns req fuel (new : Automaton K P) patterns with
  | error e => rw [h1] at h; cases h
  | ok a1 =>
    rw [h1] at h
    simp only at h ⊢
    obtain ⟨inv0, _, rs0, _⟩ := new_spec (K := K) (P := P)
    obtain ⟨inv1, hc1⟩ := allCons_addPatterns patterns inv0 rs0.1 allCons_new h1
    obtain ⟨_, _, H1⟩ := acyclic_addPatterns h1
    unfold finishWith at h
    cases h2 : mainLoopWith makeDetL toTree fuel evs.length a1 [] evs with
    | error e => rw [h2] at h; cases h
    | ok a2 =>
      rw [h2] at h
      simp only at h
      obtain ⟨⟨inv2, E2⟩, hk⟩ := mainLoopL_e1_of_inv hI _ inv1 H1 hc1.e1All (hinit a1 h1) h2
      rw [hk]
      simp only
      obtain ⟨inv3, _, he3, _⟩ := populateScopes_frame inv2 h
      exact ⟨⟨inv3, e1All_of_sub E2 fun t e he => by rw [← he3]; exact he⟩, h⟩

end C09PG
end Pm
