/-
Proofs/AccBasics.lean — basic facts about the acceptance semantics of `Spec/Acc.lean`:
edge-based introduction / induction principles for `AccND` (under `OrdersOK` the transition
orders of a state list exactly the live edges leaving it), the invariant `DetOK` under which the
deterministic reading `AccDet` coincides with `AccND`, and the two inclusions.
-/
import PmVerif.Spec.Acc
namespace Pm
namespace Automaton
variable {K P : Type}

/-- The constraint (if any) of a transition holds. -/
def Holds (σ : Constraint K P → Bool) (c : Option (Constraint K P)) : Prop :=
  ∀ c', c = some c' → σ c' = true

@[simp] theorem holds_none (σ : Constraint K P → Bool) : Holds σ none := fun _ h => by cases h

@[simp] theorem holds_some (σ : Constraint K P → Bool) (c : Constraint K P) :
    Holds σ (some c) ↔ σ c = true :=
  ⟨fun h => h c rfl, fun h c' e => by cases e; exact h⟩

/-- `pid` is accepted at the state `s` itself. -/
def Ids (a : Automaton K P) (s pid : Nat) : Prop :=
  ∃ w, a.g.weight? s = some w ∧ pid ∈ w.matches_.map (·.1)

/-- `s` is a live state. -/
def Live (a : Automaton K P) (s : Nat) : Prop := a.g.containsNode s = true

theorem live_iff {a : Automaton K P} {s : Nat} : a.Live s ↔ ∃ w, a.g.weight? s = some w := by
  unfold Live SGraph.containsNode SGraph.weight?
  cases a.g.node? s <;> simp

theorem live_of_weight {a : Automaton K P} {s : Nat} {w : AState K} (h : a.g.weight? s = some w) :
    a.Live s := live_iff.2 ⟨w, h⟩

theorem not_live_iff {a : Automaton K P} {s : Nat} : ¬ a.Live s ↔ a.g.weight? s = none := by
  rw [live_iff]
  cases a.g.weight? s <;> simp

theorem OrdersOK.src_live {a : Automaton K P} (ok : OrdersOK a) {t : Nat}
    {e : GEdge (Option (Constraint K P))} (h : a.g.edge? t = some e) : a.Live e.src :=
  (ok.edge_live t e h).1

theorem OrdersOK.dst_live {a : Automaton K P} (ok : OrdersOK a) {t : Nat}
    {e : GEdge (Option (Constraint K P))} (h : a.g.edge? t = some e) : a.Live e.dst :=
  (ok.edge_live t e h).2

/-! ### Edge-based reading of `AccND` -/

theorem AccND.of_ids {σ : Constraint K P → Bool} {a : Automaton K P} {s pid : Nat}
    (h : a.Ids s pid) : AccND σ a s pid := by
  obtain ⟨w, hw, hp⟩ := h
  exact .here hw hp

/-- Following a live edge whose constraint holds. -/
theorem AccND.of_edge {σ : Constraint K P → Bool} {a : Automaton K P} (ok : OrdersOK a)
    {t pid : Nat} {e : GEdge (Option (Constraint K P))} (he : a.g.edge? t = some e)
    (hc : Holds σ e.w) (h : AccND σ a e.dst pid) : AccND σ a e.src pid := by
  obtain ⟨w, hw⟩ := live_iff.1 (ok.src_live he)
  exact .step hw (ok.edge_listed t e he w hw) he hc h

/-- Induction over `AccND` phrased with edges only. -/
theorem AccND.edge_induction {σ : Constraint K P → Bool} {a : Automaton K P} (ok : OrdersOK a)
    {T : Nat → Nat → Prop}
    (hids : ∀ s pid, a.Ids s pid → T s pid)
    (hstep : ∀ t e pid, a.g.edge? t = some e → Holds σ e.w → AccND σ a e.dst pid →
      T e.dst pid → T e.src pid) :
    ∀ {s pid}, AccND σ a s pid → T s pid := by
  intro s pid h
  induction h with
  | here hw hp => exact hids _ _ ⟨_, hw, hp⟩
  | @step s pid w t e hw ht he hc _ ih =>
    have hsrc : e.src = s := by
      rcases List.mem_append.1 ht with h1 | h1
      · obtain ⟨e', he', hs, _⟩ := ok.corder_edge s w hw t h1
        rw [he] at he'; cases he'; exact hs
      · obtain ⟨e', he', hs, _⟩ := ok.eorder_edge s w hw t h1
        rw [he] at he'; cases he'; exact hs
    rw [← hsrc]
    exact hstep t e pid he hc ‹_› ih

/-- One-step unfolding of `AccND` along edges. -/
theorem accND_iff {σ : Constraint K P → Bool} {a : Automaton K P} (ok : OrdersOK a)
    {s pid : Nat} :
    AccND σ a s pid ↔ a.Ids s pid ∨
      ∃ t e, a.g.edge? t = some e ∧ e.src = s ∧ Holds σ e.w ∧ AccND σ a e.dst pid := by
  constructor
  · intro h
    refine AccND.edge_induction ok (T := fun s pid => a.Ids s pid ∨
      ∃ t e, a.g.edge? t = some e ∧ e.src = s ∧ Holds σ e.w ∧ AccND σ a e.dst pid) ?_ ?_ h
    · intro s pid h; exact .inl h
    · intro t e pid he hc h _; exact .inr ⟨t, e, he, rfl, hc, h⟩
  · rintro (h | ⟨t, e, he, rfl, hc, h⟩)
    · exact .of_ids h
    · exact .of_edge ok he hc h

theorem AccND.live {σ : Constraint K P → Bool} {a : Automaton K P} {s pid : Nat}
    (h : AccND σ a s pid) : a.Live s := by
  cases h with
  | here hw _ => exact live_of_weight hw
  | step hw _ _ _ _ => exact live_of_weight hw

/-- Transfer of acceptance from `a` to `a'` along a state map `f`, for the states satisfying a
predicate `Q` that is closed under the transitions that hold. -/
theorem AccND.transfer {σ : Constraint K P → Bool} {a a' : Automaton K P} (ok : OrdersOK a)
    (Q : Nat → Prop) (f : Nat → Nat)
    (hids : ∀ s pid, Q s → a.Ids s pid → AccND σ a' (f s) pid)
    (hstep : ∀ t e, a.g.edge? t = some e → Q e.src → Holds σ e.w →
      Q e.dst ∧ ∀ pid, AccND σ a e.dst pid → AccND σ a' (f e.dst) pid → AccND σ a' (f e.src) pid)
    {s pid : Nat} (h : AccND σ a s pid) (hq : Q s) : AccND σ a' (f s) pid := by
  refine AccND.edge_induction ok (T := fun s pid => Q s → AccND σ a' (f s) pid) ?_ ?_ h hq
  · intro s pid hi hq; exact hids s pid hq hi
  · intro t e pid he hc h ih hq
    obtain ⟨hq', hs⟩ := hstep t e he hq hc
    exact hs pid h (ih hq')

/-! ### `AccDet` versus `AccND` -/

/-- Some constraint transition leaving `s` holds (edge form of `fires`). -/
def Fires (σ : Constraint K P → Bool) (a : Automaton K P) (s : Nat) : Prop :=
  ∃ t e c, a.g.edge? t = some e ∧ e.src = s ∧ e.w = some c ∧ σ c = true

/-- `pid` is accepted from `s` through a constraint transition that holds. -/
def CAcc (σ : Constraint K P → Bool) (a : Automaton K P) (s pid : Nat) : Prop :=
  ∃ t e c, a.g.edge? t = some e ∧ e.src = s ∧ e.w = some c ∧ σ c = true ∧ AccND σ a e.dst pid

/-- `pid` is accepted from `s` through an epsilon (fallback) transition. -/
def EAcc (σ : Constraint K P → Bool) (a : Automaton K P) (s pid : Nat) : Prop :=
  ∃ t e, a.g.edge? t = some e ∧ e.src = s ∧ e.w = none ∧ AccND σ a e.dst pid

/-- At a deterministic state where some constraint transition fires, everything reachable through
a fallback transition is also reachable through a constraint transition that holds. Under this
invariant skipping the fallback transition loses nothing. -/
def DetOK (σ : Constraint K P → Bool) (a : Automaton K P) : Prop :=
  ∀ s w, a.g.weight? s = some w → w.det = true → fires σ a w →
    ∀ t ∈ w.eorder, ∀ e, a.g.edge? t = some e → ∀ pid, AccND σ a e.dst pid →
      ∃ t' ∈ w.corder, ∃ e' c, a.g.edge? t' = some e' ∧ e'.w = some c ∧ σ c = true ∧
        AccND σ a e'.dst pid

/-- Edge form of `DetOK`. -/
def DetOKE (σ : Constraint K P → Bool) (a : Automaton K P) : Prop :=
  ∀ s w, a.g.weight? s = some w → w.det = true → Fires σ a s →
    ∀ pid, EAcc σ a s pid → CAcc σ a s pid

theorem mem_corder_iff {a : Automaton K P} (ok : OrdersOK a) {s t : Nat} {w : AState K}
    (hw : a.g.weight? s = some w) :
    t ∈ w.corder ↔ ∃ e, a.g.edge? t = some e ∧ e.src = s ∧ e.w.isSome = true := by
  constructor
  · intro h; exact ok.corder_edge s w hw t h
  · rintro ⟨e, he, hs, hc⟩
    subst hs
    rcases List.mem_append.1 (ok.edge_listed t e he w hw) with h | h
    · exact h
    · obtain ⟨e', he', _, hn⟩ := ok.eorder_edge _ w hw t h
      rw [he] at he'; cases he'
      cases hx : e.w <;> simp [hx] at hc hn

theorem mem_eorder_iff {a : Automaton K P} (ok : OrdersOK a) {s t : Nat} {w : AState K}
    (hw : a.g.weight? s = some w) :
    t ∈ w.eorder ↔ ∃ e, a.g.edge? t = some e ∧ e.src = s ∧ e.w = none := by
  constructor
  · intro h
    obtain ⟨e, he, hs, hn⟩ := ok.eorder_edge s w hw t h
    exact ⟨e, he, hs, by cases hx : e.w <;> simp [hx] at hn ⊢⟩
  · rintro ⟨e, he, hs, hc⟩
    subst hs
    rcases List.mem_append.1 (ok.edge_listed t e he w hw) with h | h
    · obtain ⟨e', he', _, hn⟩ := ok.corder_edge _ w hw t h
      rw [he] at he'; cases he'
      simp [hc] at hn
    · exact h

theorem fires_iff {σ : Constraint K P → Bool} {a : Automaton K P} (ok : OrdersOK a) {s : Nat}
    {w : AState K} (hw : a.g.weight? s = some w) : fires σ a w ↔ Fires σ a s := by
  constructor
  · rintro ⟨t, ht, e, c, he, hc, hs⟩
    obtain ⟨e', he', hsrc, _⟩ := (mem_corder_iff ok hw).1 ht
    rw [he] at he'; cases he'
    exact ⟨t, e, c, he, hsrc, hc, hs⟩
  · rintro ⟨t, e, c, he, hsrc, hc, hs⟩
    exact ⟨t, (mem_corder_iff ok hw).2 ⟨e, he, hsrc, by simp [hc]⟩, e, c, he, hc, hs⟩

theorem detOK_iff {σ : Constraint K P → Bool} {a : Automaton K P} (ok : OrdersOK a) :
    DetOK σ a ↔ DetOKE σ a := by
  constructor
  · intro h s w hw hd hf pid ⟨t, e, he, hsrc, hn, hacc⟩
    obtain ⟨t', ht', e', c, he', hc, hs, hacc'⟩ :=
      h s w hw hd ((fires_iff ok hw).2 hf) t ((mem_eorder_iff ok hw).2 ⟨e, he, hsrc, hn⟩) e he
        pid hacc
    obtain ⟨e'', he'', hsrc', _⟩ := (mem_corder_iff ok hw).1 ht'
    rw [he'] at he''; cases he''
    exact ⟨t', e', c, he', hsrc', hc, hs, hacc'⟩
  · intro h s w hw hd hf t ht e he pid hacc
    obtain ⟨e0, he0, hsrc, hn⟩ := (mem_eorder_iff ok hw).1 ht
    rw [he] at he0; cases he0
    obtain ⟨t', e', c, he', hsrc', hc, hs, hacc'⟩ :=
      h s w hw hd ((fires_iff ok hw).1 hf) pid ⟨t, e, he, hsrc, hn, hacc⟩
    exact ⟨t', (mem_corder_iff ok hw).2 ⟨e', he', hsrc', by simp [hc]⟩, e', c, he', hc, hs, hacc'⟩

/-- The deterministic reading accepts nothing the non-deterministic one does not. -/
theorem AccDet.accND {σ : Constraint K P → Bool} {a : Automaton K P} (ok : OrdersOK a)
    {s pid : Nat} (h : AccDet σ a s pid) : AccND σ a s pid := by
  induction h with
  | here hw hp => exact .here hw hp
  | con hw ht he hc hs _ ih =>
    exact .step hw (List.mem_append_left _ ht) he (fun c' h' => by rw [hc] at h'; cases h'; exact hs) ih
  | eps hw ht he _ _ ih =>
    obtain ⟨e', he', _, hn⟩ := (mem_eorder_iff ok hw).1 ht
    rw [he] at he'; cases he'
    exact .step hw (List.mem_append_right _ ht) he (fun c' h' => by rw [hn] at h'; cases h') ih

/-- Under `DetOK`, on a graph with a rank function decreasing along edges (an acyclic graph),
the deterministic reading accepts everything the non-deterministic one does. -/
theorem AccND.accDet {σ : Constraint K P → Bool} {a : Automaton K P} (ok : OrdersOK a)
    (dok : DetOK σ a) (rank : Nat → Nat)
    (hr : ∀ t e, a.g.edge? t = some e → rank e.dst < rank e.src) :
    ∀ {s pid : Nat}, AccND σ a s pid → AccDet σ a s pid := by
  have key : ∀ n s pid, rank s < n → AccND σ a s pid → AccDet σ a s pid := by
    intro n
    induction n with
    | zero => intro s pid h; cases h
    | succ n ih =>
      intro s pid hlt h
      cases h with
      | here hw hp => exact .here hw hp
      | @step _ _ w t e hw ht he hc h =>
        rcases List.mem_append.1 ht with h1 | h1
        · obtain ⟨e', he', hsrc, hsome⟩ := (mem_corder_iff ok hw).1 h1
          rw [he] at he'; cases he'
          obtain ⟨c, hcw⟩ := Option.isSome_iff_exists.1 hsome
          have hlt' : rank e.dst < n := by
            have := hr t e he; rw [hsrc] at this; omega
          exact .con hw h1 he hcw (hc c hcw) (ih _ _ hlt' h)
        · obtain ⟨e', he', hsrc, hnone⟩ := (mem_eorder_iff ok hw).1 h1
          rw [he] at he'; cases he'
          have hlt' : rank e.dst < n := by
            have := hr t e he; rw [hsrc] at this; omega
          by_cases hdet : w.det = false ∨ ¬ fires σ a w
          · exact .eps hw h1 he hdet (ih _ _ hlt' h)
          · have hd : w.det = true := by
              cases hx : w.det
              · exact absurd (.inl hx) hdet
              · rfl
            have hf : fires σ a w := Classical.byContradiction fun hx => hdet (.inr hx)
            obtain ⟨t', ht', e', c, he', hcw, hs, hacc⟩ := dok s w hw hd hf t h1 e he pid h
            obtain ⟨e'', he'', hsrc', _⟩ := (mem_corder_iff ok hw).1 ht'
            rw [he'] at he''; cases he''
            have hlt'' : rank e'.dst < n := by
              have := hr t' e' he'; rw [hsrc'] at this; omega
            exact .con hw ht' he' hcw hs (ih _ _ hlt'' hacc)
  intro s pid h
  exact key (rank s + 1) s pid (Nat.lt_succ_self _) h

theorem accDet_iff_accND {σ : Constraint K P → Bool} {a : Automaton K P} (ok : OrdersOK a)
    (dok : DetOK σ a) (rank : Nat → Nat)
    (hr : ∀ t e, a.g.edge? t = some e → rank e.dst < rank e.src) (s pid : Nat) :
    AccDet σ a s pid ↔ AccND σ a s pid :=
  ⟨AccDet.accND ok, AccND.accDet ok dok rank hr⟩

end Automaton
end Pm
