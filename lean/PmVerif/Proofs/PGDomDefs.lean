/-
Proofs/PGDomDefs.lean — definitions shared by the T-DOM-PG development (single-root port-graph
patterns): which links lie on a line of `linePartition`, the coverage condition `LinesCover`,
and the structural description of a line.
-/
import PmVerif.Props.TPG
import PmVerif.Spec.PGAnch
namespace Pm.PGDom

/-- The link `l` (in either orientation) lies on some line of `linePartition p root`. -/
def onLines (p : PortGraph) (root : Nat) (l : PLink) : Bool :=
  (linePartition p root).any fun line => linkVisited line l

/-- The lines of `linePartition p root` cover the pattern: every link lies on some line and
every live node has a key. (Consequence of connectedness: `tdom_pg_cover`.) -/
def LinesCover (p : PortGraph) (root : Nat) : Prop :=
  (∀ l ∈ p.links, onLines p root l = true) ∧
  ∀ n ∈ p.nodesIter, (alGet (pgNodeKeys p root) n).isSome = true

instance (p : PortGraph) (root : Nat) : Decidable (LinesCover p root) := by
  unfold LinesCover; infer_instance

/-- The part of `p` that the lines cover: the nodes `constraint_vec` keys and the links that lie
on a line. (Equal to `p` up to dead slots when `LinesCover p root`.) -/
def coveredPart (p : PortGraph) (root : Nat) : PortGraph :=
  ⟨(List.range p.nodes.length).map fun n =>
      if (alGet (pgNodeKeys p root) n).isSome then p.node? n else none,
    p.links.filter (onLines p root)⟩

/-! ### Example data for the non-vacuity examples of `Props/TDomPG.lean` -/
namespace Ex
open PGEx
/-- A fork: node 0 has two outputs, to nodes 1 and 2 (two lines from the root 0). -/
def gFork : PortGraph := ⟨[some ⟨0, 2⟩, some ⟨1, 0⟩, some ⟨1, 0⟩],
  [((0, o0), (1, i0)), ((0, o1), (2, i0))]⟩
/-- A host containing the fork at node 3 (outputs to 1 and 4), and a path `0 → 1`. -/
def hFork : PortGraph := ⟨[some ⟨0, 1⟩, some ⟨2, 0⟩, none, some ⟨0, 2⟩, some ⟨1, 0⟩],
  [((3, o0), (1, i0)), ((3, o1), (4, i0)), ((0, o0), (1, ⟨.inc, 1⟩))]⟩
/-- `0 → 1`, and node 1 has two outputs, to 2 and 3: from the root 0 the second output of node 1
starts a line at node 1, a second root (`pgSigMultiRoot`). -/
def gTee : PortGraph := ⟨[some ⟨0, 1⟩, some ⟨1, 2⟩, some ⟨1, 0⟩, some ⟨1, 0⟩],
  [((0, o0), (1, i0)), ((1, o0), (2, i0)), ((1, o1), (3, i0))]⟩
end Ex

end Pm.PGDom
