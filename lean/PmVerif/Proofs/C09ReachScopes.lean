/-
Proofs/C09ReachScopes.lean — clause (g), first half, of C09 for EVERY rank-acyclic indexing
scheme: every scope computed by `populate_scopes` is prerequisite-ordered, provided the key lists
recorded for the accepted patterns are (which holds of every build, `c09b_mfrom_build`).

`scope = (fwd.filter bwd.contains) ++ all_missing_bindings(constraint keys, ·)` where
* every forward scope is prerequisite-ordered: it is an order-preserving intersection of lists
  `parent scope ++ missing bindings`; the intersection `x.filter y.contains` of a
  prerequisite-ordered `x` with a prerequisite-CLOSED `y` is prerequisite-ordered (`po_filter`), and
  a prerequisite-ordered list is closed;
* every backward scope is prerequisite-closed (as a set): it is a union of recorded key lists,
  each of which is prerequisite-ordered, hence closed. So the `filter` never drops a prerequisite
  of a key it keeps.
-/
import PmVerif.Proofs.C09ReachMain
import PmVerif.Proofs.MatProgScopes
namespace Pm
namespace C09R
open Automaton
variable {K : Type} [DecidableEq K] {req : K → List K}

/-! ### prerequisite-ordered, index free -/

/-- `PrereqOrdered` without indices: whenever the list splits as `pre ++ k :: post`, every
prerequisite of `k` is in `pre`. -/
def POs (req : K → List K) (ks : List K) : Prop :=
  ∀ pre k post, ks = pre ++ k :: post → ∀ p ∈ req k, p ∈ pre

omit [DecidableEq K] in
theorem po_iff_split {ks : List K} : PrereqOrdered req ks ↔ POs req ks := by
  constructor
  · intro h pre k post hks p hp
    have h1 : ks[pre.length]? = some k := by rw [hks]; simp
    have h2 : ks.take pre.length = pre := by rw [hks]; simp
    have := h pre.length k h1 p hp
    rwa [h2] at this
  · intro h i k hik p hp
    obtain ⟨hlt, hk⟩ := List.getElem?_eq_some_iff.1 hik
    refine h (ks.take i) k (ks.drop (i + 1)) ?_ p hp
    rw [← hk, List.getElem_cons_drop, List.take_append_drop]

omit [DecidableEq K] in
theorem po_nil : PrereqOrdered req ([] : List K) := by
  intro i k h; simp at h

/-- A set of keys (as a list) closed under prerequisites. -/
def Closed (req : K → List K) (S : List K) : Prop := ∀ k ∈ S, ∀ p ∈ req k, p ∈ S

omit [DecidableEq K] in
theorem closed_nil : Closed req ([] : List K) := fun _ h => by cases h

omit [DecidableEq K] in
theorem closed_of_po {ks : List K} (h : PrereqOrdered req ks) : Closed req ks := by
  intro k hk p hp
  obtain ⟨i, hi⟩ := List.mem_iff_getElem?.1 hk
  exact List.mem_of_mem_take (h i k hi p hp)

omit [DecidableEq K] in
theorem closed_append {x y : List K} (hx : Closed req x) (hy : Closed req y) :
    Closed req (x ++ y) := by
  intro k hk p hp
  rcases List.mem_append.1 hk with hk | hk
  · exact List.mem_append_left _ (hx k hk p hp)
  · exact List.mem_append_right _ (hy k hk p hp)

omit [DecidableEq K] in
theorem closed_flatten {ls : List (List K)} (h : ∀ l ∈ ls, Closed req l) :
    Closed req ls.flatten := by
  intro k hk p hp
  obtain ⟨l, hl, hkl⟩ := List.mem_flatten.1 hk
  exact List.mem_flatten.2 ⟨l, hl, h l hl k hkl p hp⟩

omit [DecidableEq K] in
theorem closed_flatMap {α} {ms : List α} {g : α → List K} (h : ∀ m ∈ ms, Closed req (g m)) :
    Closed req (ms.flatMap g) := by
  intro k hk p hp
  obtain ⟨m, hm, hkm⟩ := List.mem_flatMap.1 hk
  exact List.mem_flatMap.2 ⟨m, hm, h m hm k hkm p hp⟩

/-- The order-preserving intersection of a prerequisite-ordered list with a prerequisite-closed
set is prerequisite-ordered: the filter cannot drop a prerequisite of a key it keeps. -/
theorem po_filter {x y : List K} (hx : PrereqOrdered req x) (hy : Closed req y) :
    PrereqOrdered req (x.filter fun k => y.contains k) := by
  rw [po_iff_split] at hx ⊢
  intro pre k post hsplit p hp
  obtain ⟨l1, l2, hx12, hl1, hl2⟩ := List.filter_eq_append_iff.1 hsplit
  obtain ⟨l3, l4, hl34, hno, hk, _⟩ := List.filter_eq_cons_iff.1 hl2
  have hky : k ∈ y := List.contains_iff_mem.1 hk
  have hpy : p ∈ y := hy k hky p hp
  have hpre : p ∈ l1 ++ l3 :=
    hx (l1 ++ l3) k l4 (by rw [hx12, hl34, List.append_assoc]) p hp
  rw [← hl1]
  rcases List.mem_append.1 hpre with h | h
  · exact List.mem_filter.2 ⟨h, List.contains_iff_mem.2 hpy⟩
  · exact absurd (List.contains_iff_mem.2 hpy) (hno p h)

theorem po_foldl_filter :
    ∀ (xs : List (List K)) (x : List K), PrereqOrdered req x →
      (∀ y ∈ xs, PrereqOrdered req y) →
      PrereqOrdered req (xs.foldl (fun x y => x.filter fun k => y.contains k) x)
  | [], _, hx, _ => hx
  | y :: xs, x, hx, hxs => by
    rw [List.foldl_cons]
    exact po_foldl_filter xs _
      (po_filter hx (closed_of_po (hxs y List.mem_cons_self)))
      (fun z hz => hxs z (List.mem_cons_of_mem _ hz))

/-- The `reduce` of `forward_scopes` keeps prerequisite order. -/
theorem po_reduce {scopes : List (List K)} (h : ∀ y ∈ scopes, PrereqOrdered req y) :
    PrereqOrdered req
      ((reduceOpt (fun x y => x.filter fun k => y.contains k) scopes).getD []) := by
  cases scopes with
  | nil => exact po_nil
  | cons x xs =>
    show PrereqOrdered req (xs.foldl _ x)
    exact po_foldl_filter xs x (h x List.mem_cons_self)
      (fun z hz => h z (List.mem_cons_of_mem _ hz))

/-- Appending what `all_missing_bindings` reports missing keeps prerequisite order. -/
theorem po_append_allMissing (hacy : RankAcyclic req) {known keys more : List K} {fuel : Nat}
    (hk : PrereqOrdered req known) (h : allMissingBindings req keys known fuel = some more) :
    PrereqOrdered req (known ++ more) :=
  (prereqOrdered_iff req _).1
    (prereqOrdered_append ((prereqOrdered_iff req _).2 hk) (c12_all_any_fuel req hacy _ _ _ _ h))

/-! ### forward / backward scopes, `setScopes`, `populateScopes` -/

variable {P : Type}

theorem forwardScopes_po (hacy : RankAcyclic req) (fuel : Nat) (a : Automaton K P) :
    ∀ (ns : List Nat) (acc fwd : List (Nat × List K)),
      forwardScopes req fuel a ns acc = .ok fwd → (∀ p ∈ acc, PrereqOrdered req p.2) →
      ∀ p ∈ fwd, PrereqOrdered req p.2
  | [], acc, fwd, h, hacc => by
    rw [forwardScopes] at h
    cases h
    exact hacc
  | n :: ns, acc, fwd, h, hacc => by
    rw [forwardScopes] at h
    split at h
    · cases h
    · rename_i scopes hscopes
      refine forwardScopes_po hacy fuel a ns _ fwd h ?_
      intro p hp
      rcases List.mem_append.1 hp with hp | hp
      · exact hacc p hp
      · rw [List.mem_singleton.1 hp]
        refine po_reduce ?_
        intro y hy
        obtain ⟨es, _, hf⟩ := StrProg.mapR_out hscopes y hy
        simp only at hf
        split at hf
        · cases hf
        · split at hf
          · cases hf
          · rename_i more hmore
            cases hf
            exact po_append_allMissing hacy (MatProg.alGet_getD_prop po_nil hacc es.2) hmore

omit [DecidableEq K] in
theorem backwardScopes_closed (a : Automaton K P)
    (hk : ∀ s w, a.g.weight? s = some w → ∀ m ∈ w.matches_, PrereqOrdered req m.2) :
    ∀ (ns : List Nat) (acc bwd : List (Nat × List K)),
      backwardScopes a ns acc = .ok bwd → (∀ p ∈ acc, Closed req p.2) →
      ∀ p ∈ bwd, Closed req p.2
  | [], acc, bwd, h, hacc => by
    rw [backwardScopes] at h
    cases h
    exact hacc
  | n :: ns, acc, bwd, h, hacc => by
    rw [backwardScopes] at h
    split at h
    · cases h
    · rename_i scopes hscopes
      refine backwardScopes_closed a hk ns _ bwd h ?_
      intro p hp
      rcases List.mem_append.1 hp with hp | hp
      · exact hacc p hp
      · rw [List.mem_singleton.1 hp]
        refine closed_flatten ?_
        intro y hy
        obtain ⟨es, _, hf⟩ := StrProg.mapR_out hscopes y hy
        split at hf
        · cases hf
        · rename_i w hw
          cases hf
          have hw' : a.g.weight? es.2 = some w := state_ok_iff.1 hw
          exact closed_append (MatProg.alGet_getD_prop closed_nil hacc es.2)
            (closed_flatMap fun m hm => closed_of_po (hk es.2 w hw' m hm))

theorem setScopes_po (hacy : RankAcyclic req) (fuel : Nat) (fwd bwd : List (Nat × List K))
    (hfwd : ∀ n f, alGet fwd n = some f → PrereqOrdered req f)
    (hbwd : ∀ n b, alGet bwd n = some b → Closed req b) :
    ∀ (ns : List Nat) (a a' : Automaton K P), ns.Nodup →
      setScopes req fuel fwd bwd a ns = .ok a' →
      ∀ n ∈ ns, ∀ w, a'.g.weight? n = some w → PrereqOrdered req w.scope
  | [], _, _, _, _, n, hn => by cases hn
  | m :: ns, a, a', hnd, h, n, hn => by
    rw [List.nodup_cons] at hnd
    obtain ⟨f, b, cs, more, a1, hf, hb, hcs, hmore, hmod, hrest⟩ := setScopes_cons_ok h
    rcases List.mem_cons.1 hn with rfl | hn
    · intro w' hw'
      obtain ⟨hlive, _⟩ := modifyState_ok_wf hmod
      have hw := weight?_of_live hlive
      have hw1 := modifyState_weight?_self hmod hw
      have hnode := setScopes_untouched req fuel fwd bwd n ns a1 a' hnd.1 hrest
      have : a'.g.weight? n = a1.g.weight? n := by
        unfold SGraph.weight?; rw [hnode]
      rw [this, hw1] at hw'
      cases hw'
      show PrereqOrdered req (_ ++ more)
      exact po_append_allMissing hacy (po_filter (hfwd n f hf) (hbwd n b hb)) hmore
    · exact setScopes_po hacy fuel fwd bwd hfwd hbwd ns a1 a' hnd.2 hrest n hn

/-- **Every scope computed by `populate_scopes` on a rank-acyclic scheme is
prerequisite-ordered**, provided the recorded key lists are. -/
theorem populateScopes_po (hacy : RankAcyclic req) {fuel : Nat} {a A : Automaton K P}
    (h : Automaton.populateScopes req fuel a = .ok A)
    (hk : ∀ s w, a.g.weight? s = some w → ∀ m ∈ w.matches_, PrereqOrdered req m.2) :
    ∀ s w, A.g.weight? s = some w → PrereqOrdered req w.scope := by
  intro s w hw
  have hsame := populateScopes_sameButScope h
  have hlive : s ∈ a.g.nodeIndices := by
    rw [SGraph.mem_nodeIndices, ← hsame.containsNode]
    exact live_of_weight? hw
  unfold populateScopes at h
  split at h
  · cases h
  · split at h
    · rename_i fwd bwd hfwd hbwd
      refine setScopes_po hacy fuel fwd bwd (fun n f hf => ?_) (fun n b hb => ?_)
        _ a A (SGraph.nodup_nodeIndices a.g) h s hlive w hw
      · obtain ⟨p, hp, hv⟩ := StrProg.alGet_some_mem hf
        exact hv ▸ forwardScopes_po hacy fuel a _ [] fwd hfwd (fun p hp => by cases hp) p hp
      · obtain ⟨p, hp, hv⟩ := StrProg.alGet_some_mem hb
        exact hv ▸ backwardScopes_closed a hk _ [] bwd hbwd (fun p hp => by cases hp) p hp
    · cases h
    · cases h

/-- Clause (g), first half, for every build on a rank-acyclic scheme: every scope is
prerequisite-ordered. No hypothesis on the tree decomposition. -/
theorem build_scopes_po [DecidableEq P]
    {toTree : List (Constraint K P) → Option (CTree (Constraint K P))}
    (hacy : RankAcyclic req) {fuel : Nat}
    {patterns : List (Nat × List (Constraint K P) × List K)} {evs : List Ev} {A : Automaton K P}
    (h : build toTree req fuel patterns evs = .ok A) :
    ∀ s w, A.g.weight? s = some w → PrereqOrdered req w.scope := by
  have hm : c09b_MFrom (fun m : Nat × List K => PrereqOrdered req m.2) A :=
    c09b_mfrom_build hacy h fun _ _ keys hk => (prereqOrdered_iff req keys).1 hk
  unfold build at h
  split at h
  · cases h
  · unfold finish at h
    split at h
    · cases h
    · rename_i a2 _
      have hsame := populateScopes_sameButScope h
      refine populateScopes_po hacy h ?_
      intro s w hw m hmem
      obtain ⟨w', hw', he⟩ := hsame.weight?_symm hw
      refine hm s w' hw' m ?_
      rw [he]; exact hmem

end C09R
end Pm
